/-
  `Cube.valid_counts_summary_range` (also `CubeSet.valid_counts_summary_range` = first cube's):

      if not self._measures.unweighted_valid_counts: return None
      axis = tuple(i for i, dim_type in enumerate(self.dimension_types)
                   if dim_type not in DT.ARRAY_TYPES)
      summary = np.sum(unweighted_valid_counts.raw_cube_array[self._valid_idxs], axis=axis)
      return np.min(summary), np.max(summary)

  NOTE (mirrored as is): `self.dimension_types` lists the APPARENT dimensions (no MR_CAT), but the
  positions are used as axes of the array over ALL dimensions.  With a multiple-response dimension
  the selection axis (selected / other) is therefore never summed, and every categorical dimension
  AFTER a multiple-response one is addressed one axis too early (MR × CAT sums the selection axis
  instead of the categories).  Pinned by tests/integration/test_cube.py
  (SUM_MR_X_CAT, CAT_SUM_X_MR, DICHOTOMIZED_NUMERIC_MEAN).
-/
import CrCube.Model.NumericMeasures
import CrCube.Model.SliceApi

namespace CrCube

/-- entries of `l` whose mask bit equals `b` (missing mask bits count as `false`) -/
def pickMask {α : Type} : List α → List Bool → Bool → List α
  | [], _, _ => []
  | x :: xs, [], b => if b = false then x :: pickMask xs [] b else pickMask xs [] b
  | x :: xs, m :: ms, b => if m = b then x :: pickMask xs ms b else pickMask xs ms b

/-- full index from the index over the kept axes and the index over the summed axes -/
def mergeIdx : List Bool → List Nat → List Nat → List Nat
  | true :: m, k, s :: ss => s :: mergeIdx m k ss
  | false :: m, k :: ks, s => k :: mergeIdx m ks s
  | _, _, _ => []

/-- `np.sum(t, axis = positions where mask is true)`, flattened (row-major over the kept axes) -/
def sumAxes (t : FT) (mask : List Bool) : List Val :=
  let kept := pickMask t.shape mask false
  let summed := pickMask t.shape mask true
  (allIdx kept).map (fun k => Val.sum ((allIdx summed).map (fun s => t.get (mergeIdx mask k s))))

/-- the axis tuple: position i of every APPARENT dimension that is not an array type
    (CAT-like and CA_CAT), padded with `false` up to the number of all dimensions -/
def NDesign.summaryMask (d : NDesign) : List Bool :=
  (List.range d.sizes.length).map (fun i => decide (d.kinds.getD i .arr = .cat))

/-- `Cube.valid_counts_summary_range`; `none` = None (no unweighted valid counts) or, for an empty
    summary, the ValueError of `np.min` -/
def NDesign.validCountsSummaryRange (d : NDesign) (a : RawArrays) : Option (Val × Val) :=
  match a.uvalid with
  | none => none
  | some raw =>
    let cells := sumAxes (d.view raw) d.summaryMask
    if cells = [] then none else some (MatCounts.vmin cells, MatCounts.vmax cells)

end CrCube
