/-
  Assembly of a 2-D measure from its four blocks and the display orders
  (`cubepart._Slice._assemble_matrix`: `np.block(blocks)[np.ix_(row_order, col_order)]`,
  `_assemble_marginal`: `np.hstack(blocks)[order]`, `_Strand._assemble_vector`).
  Orders are SIGNED indexes: ≥ 0 a base vector, < 0 an inserted vector counted from the end
  (python negative indexing into the concatenation [base ++ inserted]).
-/
import CrCube.Model.Val

namespace CrCube

structure ABlocks where
  nr : Nat          -- base rows
  nc : Nat          -- base columns
  nir : Nat         -- inserted rows
  nic : Nat         -- inserted columns
  body : Nat → Nat → Val
  insCols : Nat → Nat → Val     -- nr × nic
  insRows : Nat → Nat → Val     -- nir × nc
  inter : Nat → Nat → Val       -- nir × nic

/-- python index normalisation: negative counts from the end -/
def wrapIdx (n : Nat) (i : Int) : Nat := if i < 0 then (n + i).toNat else i.toNat

/-- `np.block([[body, insCols],[insRows, inter]])[i, j]` -/
def ABlocks.full (b : ABlocks) (i j : Nat) : Val :=
  if i < b.nr then (if j < b.nc then b.body i j else b.insCols i (j - b.nc))
  else (if j < b.nc then b.insRows (i - b.nr) j else b.inter (i - b.nr) (j - b.nc))

def ABlocks.cell (b : ABlocks) (si sj : Int) : Val :=
  b.full (wrapIdx (b.nr + b.nir) si) (wrapIdx (b.nc + b.nic) sj)

/-- `_assemble_matrix` -/
def assembleMatrix (b : ABlocks) (ro co : List Int) : List (List Val) :=
  ro.map fun si => co.map (b.cell si)

/-- a marginal / vector: `np.hstack([base, inserted])[order]` -/
def vecCell (n : Nat) (nins : Nat) (base ins : Nat → Val) (si : Int) : Val :=
  let i := wrapIdx (n + nins) si
  if i < n then base i else ins (i - n)

def assembleVector (n nins : Nat) (base ins : Nat → Val) (order : List Int) : List Val :=
  order.map (vecCell n nins base ins)

end CrCube
