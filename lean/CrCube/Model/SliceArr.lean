/-
  Cubes led by a TRANSPOSED categorical array (payload order CA_CAT × CA_SUBVAR [× more]).

  `Var` has no "transposed" flag; the library does not need one either: `Cube` only knows the
  dimension types and the valid element idxs of each payload axis.  `sliceCountsOf` is exactly
  `sliceCounts` with those two lists made explicit (`sliceCounts_eq_of`), so the transposed
  layout is the same code path with kinds `[CAT, ARR, …]` and the two leading axes exchanged.

  `FT.swap01` / `cubeOfT` extend the tabulation CONTRACT to that layout: the back end renders
  the same tabulation with the array's two axes in the other order (checked against the Python
  tabulator `gen.tabulate` with `ca_transposed`, op `arr_cubeof`).
-/
import CrCube.Model.Slice

namespace CrCube

/-- `sliceCounts` for explicit apparent kinds and explicit valid-element idxs per payload axis:
    `Cube.counts[valid_idxs]`, `_slice_idx_expr`, `_BaseCubeCounts.factory` -/
def sliceCountsOf (kinds : List DK) (axes : List (List Nat)) (raw : FT) (k : Nat) : MatCounts :=
  let nd := kinds.length
  MatCounts.factory (kinds.getD (nd - 2) .cat) (kinds.getD (nd - 1) .cat)
    (sliceExpr nd (kinds.getD 0 .cat) k (raw.take axes))

theorem sliceCounts_eq_of (vars : List Var) (raw : FT) (k : Nat) :
    sliceCounts vars raw k
      = sliceCountsOf (apparentKinds vars) (vars.flatMap Var.validAxes) raw k := rfl

/-- exchange the two leading axes of a tensor -/
def FT.swap01 (t : FT) : FT :=
  ⟨match t.shape with | a :: b :: r => b :: a :: r | sh => sh,
   fun ix => match ix with | c :: k :: r => t.get (k :: c :: r) | _ => .nan⟩

/-- CONTRACT, transposed layout: the raw cube of a design led by a categorical array rendered
    categories-first is the tabulation of the same design with the two leading axes exchanged -/
def cubeOfT (A : Var) (vs : List Var) (s : Survey) : FT := (cubeOf (A :: vs) s).swap01

/-- apparent kinds / valid idxs of the transposed array: categories (CAT) then items (ARR) -/
def kindsT (vs : List Var) : List DK := [.cat, .arr] ++ apparentKinds vs
def Var.validAxesT (A : Var) : List (List Nat) := [validIdxs A.catMissing, List.range A.n]

/-- the count extractor of partition `k` of a cube led by a transposed categorical array -/
def sliceCountsT (A : Var) (vs : List Var) (rawT : FT) (k : Nat) : MatCounts :=
  sliceCountsOf (kindsT vs) (A.validAxesT ++ vs.flatMap Var.validAxes) rawT k

/-- `Cube._slice_idxs`: a 2-D cube is one partition (CA_CAT first is never "CA-as-0th"), a 3-D
    cube has one partition per valid CATEGORY of the array -/
def nPartitionsT (A : Var) (vs : List Var) : Nat :=
  if (kindsT vs).length < 3 then 1 else (validIdxs A.catMissing).length

/-- exchange the two axes that follow the first `r` axes -/
def swapAt : Nat → List Nat → List Nat
  | 0, a :: b :: rest => b :: a :: rest
  | n + 1, a :: rest => a :: swapAt n rest
  | _, l => l

def FT.swapAt (r : Nat) (t : FT) : FT := ⟨CrCube.swapAt r t.shape, fun ix => t.get (CrCube.swapAt r ix)⟩

/-- CONTRACT, transposed array UNDER a table variable: payload T-axes × categories × items -/
def cubeOfTT (T A : Var) (s : Survey) : FT := (cubeOf [T, A] s).swapAt T.rank

/-- the count extractor of partition `k` of a cube [T, Aᵀ] (apparent T × categories × items) -/
def sliceCountsTT (T A : Var) (rawT : FT) (k : Nat) : MatCounts :=
  sliceCountsOf (T.dks ++ [.cat, .arr]) (T.validAxes ++ A.validAxesT) rawT k

/-- CA-as-0th (`cube_idx = 0`, leading CA_SUBVAR dimension of a 2-D cube): one `_Strand` per item;
    stripe `_BaseCubeCounts.factory` gives `_CatCubeCounts(rows_dimension, counts[slice_idx])` -/
def strandCountsCA0 (A : Var) (raw : FT) (k : Nat) : StripeCounts :=
  StripeCounts.cat ((validCube [A] raw).slice0 k)

end CrCube
