/-
  Model of `cr/cube/smoothing.py` and of `Dimension.smoothing_dict` (C20).

  * `SmoothingDict`  – the dict `dimension.smoothing_dict` (`transforms.get("smoother") or {}`),
                       reduced to the two keys the code reads (`.get` → `Option`).
  * `factory`        – `Smoother.factory`: `function or "one_sided_moving_avg"`, anything else raises
                       NotImplementedError.
  * `Smoother`       – `_SingleSidedMovingAvgSmoother` (window = `.get("window") or 2`, dimension type).
  * `slide`          – `np.convolve(v, np.ones(w), mode="valid")` for 1 ≤ w ≤ len v.
  * `smooth1/smooth2`– `.smooth(values)` for 1-D / 2-D arrays, exactly as coded: guard, valid-mode
                       convolution divided by the window, NaN block of width
                       `values.shape[-1] - smoothed.shape[-1]` concatenated ON THE LEFT of the last axis.
  No Mathlib; executable.
-/
import CrCube.Model.Val

namespace CrCube.Smoothing

/-- the function name the library implements -/
def movingAvg : String := "one_sided_moving_avg"

/-- `dimension.smoothing_dict`, the two keys that are read (`dict.get` ⇒ `none` when absent / null) -/
structure SmoothingDict where
  function : Option String := none
  window : Option Int := none
  deriving Repr, DecidableEq, Inhabited

/-- `smoothing_dict.get("function") or "one_sided_moving_avg"` (the empty string is falsy) -/
def SmoothingDict.effFunction (d : SmoothingDict) : String :=
  match d.function with
  | some s => if s = "" then movingAvg else s
  | none => movingAvg

/-- `smoothing_dict.get("window") or 2` (0 is falsy) -/
def SmoothingDict.effWindow (d : SmoothingDict) : Int :=
  match d.window with
  | some k => if k = 0 then 2 else k
  | none => 2

/-- `_SingleSidedMovingAvgSmoother` -/
structure Smoother where
  window : Int
  isCatDate : Bool
  deriving Repr, DecidableEq, Inhabited

/-- `Smoother.factory(dimension)`; `.error` = NotImplementedError -/
def factory (d : SmoothingDict) (isCatDate : Bool) : Except String Smoother :=
  if d.effFunction = movingAvg then .ok ⟨d.effWindow, isCatDate⟩
  else .error "NotImplementedError"

/-- `np.convolve(v, np.ones(w), mode="valid")` (for `1 ≤ w ≤ len v`): every full window's sum,
    sliding from the left. -/
def slide (w : Nat) : List Val → List Val
  | [] => []
  | x :: xs => if w ≤ xs.length + 1 then Val.sum ((x :: xs).take w) :: slide w xs else []

/-- `np.convolve(v, np.ones(w), mode="valid") / w` -/
def convMean (w : Nat) (v : List Val) : List Val := (slide w v).map (· / Val.ofNat w)

/-- `_can_smooth(values)`; `size` = `values.size`, `lastDim` = `values.shape[-1]` -/
def Smoother.canSmooth (s : Smoother) (size lastDim : Nat) : Bool :=
  if size = 0 then false
  else if !s.isCatDate then false
  else if s.window > (lastDim : Int) || s.window < 2 then false
  else true

/-- `.smooth(values)` for `values.ndim == 1` -/
def Smoother.smooth1 (s : Smoother) (v : List Val) : List Val :=
  if s.canSmooth v.length v.length then
    let sm := convMean s.window.toNat v
    List.replicate (v.length - sm.length) Val.nan ++ sm
  else v

/-- `values.shape[-1]` of a 2-D array given as a list of rows -/
def lastDim (m : List (List Val)) : Nat :=
  match m with
  | [] => 0
  | r :: _ => r.length

/-- `.smooth(values)` for `values.ndim == 2` (rows of equal length) -/
def Smoother.smooth2 (s : Smoother) (m : List (List Val)) : List (List Val) :=
  if s.canSmooth (m.length * lastDim m) (lastDim m) then
    let sm := m.map (convMean s.window.toNat)
    let pad := lastDim m - lastDim sm
    sm.map (fun r => List.replicate pad Val.nan ++ r)
  else m

/-! ### the smoothed measure variants (matrix/measure.py, stripe/measure.py)

  Each takes the UNSMOOTHED block(s) the parent measure class computes and mirrors what the
  `…Smoothed` subclass does with them. -/

/-- `[[base, subtotal_columns], [subtotal_rows, intersections]]` -/
structure Blocks where
  base : List (List Val)
  subCols : List (List Val)
  subRows : List (List Val)
  inter : List (List Val)
  deriving Repr, Inhabited

/-- `_ColumnProportionsSmoothed`: `_base_values` and `_subtotal_rows` are smoothed, the two
    right-hand blocks are inherited unsmoothed. -/
def smoothedColumnProportions (s : Smoother) (b : Blocks) : Blocks :=
  { b with base := s.smooth2 b.base, subRows := s.smooth2 b.subRows }

/-- `NanSubtotals.blocks(base, dimensions)` with `nr` row- and `nc` column-subtotals -/
def nanSubtotals (base : List (List Val)) (nrowsBase ncolsBase nr nc : Nat) : Blocks :=
  { base := base
    subCols := List.replicate nrowsBase (List.replicate nc Val.nan)
    subRows := List.replicate nr (List.replicate ncolsBase Val.nan)
    inter := List.replicate nr (List.replicate nc Val.nan) }

/-- `_ColumnIndexSmoothed` / `_MeansSmoothed`: `NanSubtotals.blocks(smoother.smooth(x), dims)` -/
def smoothedNanSubtotals (s : Smoother) (x : List (List Val)) (nrowsBase ncolsBase nr nc : Nat) : Blocks :=
  nanSubtotals (s.smooth2 x) nrowsBase ncolsBase nr nc

/-- `_ScaleMean._weighted_mean(proportions, values)` for one column:
    `nansum(values * proportions) / sum(proportions[~isnan(values)])` -/
def weightedMean (values : List Val) (props : List Val) : Val :=
  let prods := List.zipWith (· * ·) values props
  let inner := Val.nansum prods
  let den := Val.sum ((List.zip values props).filterMap (fun (x : Val × Val) => if x.1.isNan then none else some x.2))
  inner / den

/-- column `j` of a matrix given as rows -/
def column (m : List (List Val)) (j : Nat) : List Val := m.map (fun r => r.getD j Val.nan)

/-- `_ScaleMean.blocks[k]` over the columns orientation: `np.apply_along_axis(_weighted_mean, 0, props, values)`;
    `[]` when the block has no columns -/
def scaleMeanCols (values : List Val) (props : List (List Val)) : List Val :=
  (List.range (lastDim props)).map (fun j => weightedMean values (column props j))

/-- `_ScaleMeanSmoothed._proportions` then `_ScaleMean.blocks`:
    `[smooth(colprops[0][0]), smooth(colprops[0][1])]` each reduced column-wise. -/
def smoothedColumnsScaleMean (s : Smoother) (values : List Val) (colProps : Blocks) : List Val × List Val :=
  (scaleMeanCols values (s.smooth2 colProps.base), scaleMeanCols values (s.smooth2 colProps.subCols))

/-- stripe `_MeansSmoothed.base_values` -/
def smoothedMeansStripe (s : Smoother) (means : List Val) : List Val := s.smooth1 means

end CrCube.Smoothing
