/-
  C18 — the two channels of history that are not a cache of the object under test.

  (1) PROCESS ENVIRONMENT.  A property body runs in a process-global environment `E` (numpy's floating-point
      error mode, warning filters, module-level containers …): its outcome (a value, or which exception it
      raises) may depend on it, and it may leave another environment behind (`np.seterr` without a scope).
      Objects cache outcomes per instance; a NEW object starts with empty caches but lives in the same process.
  (2) CALLER-OWNED ARGUMENTS.  A user (Cube / CubeSet) of a response `a` reports `view a` and leaves the
      caller's dict as `prep a` (the in-place edits).

  No Mathlib.
-/
namespace CrCube.Env

/-- a lazy property body: outcome in an environment, and the environment it leaves behind -/
structure Def (E V : Type) where
  val : E → V
  wr  : E → E

/-- an operation of a history: read property `s` of the current object, or construct a brand-new
    object (over pristine copies of the arguments: empty caches, same process) -/
inductive Op where
  | read (s : Nat)
  | fresh
deriving Repr, DecidableEq

structure St (E V : Type) where
  env   : E
  cache : Nat → Option V

def St.init {E V : Type} (e : E) : St E V := { env := e, cache := fun _ => none }

/-- one operation: a cached outcome is returned as is (the body does not run), otherwise the body runs in
    the CURRENT environment, its outcome is cached and its environment write takes effect -/
def step {E V : Type} (prog : Nat → Def E V) (st : St E V) : Op → Option V × St E V
  | .fresh => (none, { st with cache := fun _ => none })
  | .read s =>
    match st.cache s with
    | some v => (some v, st)
    | none =>
      let v := (prog s).val st.env
      (some v, { env := (prog s).wr st.env, cache := fun k => if k = s then some v else st.cache k })

def run {E V : Type} (prog : Nat → Def E V) : List Op → St E V → List (Option V)
  | [], _ => []
  | o :: os, st => (step prog st o).1 :: run prog os (step prog st o).2

/-- the fresh evaluation of an operation in the caller's environment `e` (new object, that one read) -/
def freshOf {E V : Type} (prog : Nat → Def E V) (e : E) : Op → Option V
  | .fresh => none
  | .read s => some ((prog s).val e)

/-- hypothesis checked by the harness after every read: no body changes the environment -/
def EnvPreserved {E V : Type} (prog : Nat → Def E V) : Prop := ∀ s e, (prog s).wr e = e

/-! ### arguments -/

/-- the caller's dict after `n` users -/
def usedBy {A : Type} (prep : A → A) : Nat → A → A
  | 0, a => a
  | n + 1, a => usedBy prep n (prep a)

end CrCube.Env
