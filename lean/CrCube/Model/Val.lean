/-
  Val: the model of numpy's float64 "over the rationals": exact rationals plus NaN / ±inf,
  with IEEE-style total operations.  No imports (core Lean `Rat`), so that the model can be
  executed with `lake env lean --run`.

  Rounding is NOT modelled (see DESIGN.md §2.3).
-/
namespace CrCube

inductive Val where
  | fin (q : Rat)
  | nan
  | pinf
  | ninf
  deriving DecidableEq, Repr, Inhabited

namespace Val

def zero : Val := .fin 0
def one : Val := .fin 1
def ofNat (n : Nat) : Val := .fin (n : Rat)
def ofInt (n : Int) : Val := .fin (n : Rat)

instance : OfNat Val n := ⟨.fin (n : Rat)⟩

def isNan : Val → Bool
  | .nan => true
  | _ => false

def isFin : Val → Bool
  | .fin _ => true
  | _ => false

def neg : Val → Val
  | .fin q => .fin (-q)
  | .nan => .nan
  | .pinf => .ninf
  | .ninf => .pinf

def add : Val → Val → Val
  | .fin a, .fin b => .fin (a + b)
  | .nan, _ => .nan
  | _, .nan => .nan
  | .pinf, .ninf => .nan
  | .ninf, .pinf => .nan
  | .pinf, _ => .pinf
  | _, .pinf => .pinf
  | .ninf, _ => .ninf
  | _, .ninf => .ninf

def sub (a b : Val) : Val := add a (neg b)

/-- sign of a value: -1, 0, 1 (nan ↦ 0, only used where nan is handled before). -/
def sgn : Val → Int
  | .fin q => if q > 0 then 1 else if q < 0 then -1 else 0
  | .nan => 0
  | .pinf => 1
  | .ninf => -1

def mul : Val → Val → Val
  | .fin a, .fin b => .fin (a * b)
  | .nan, _ => .nan
  | _, .nan => .nan
  | a, b =>
    -- at least one infinite, none nan
    let s := sgn a * sgn b
    if s > 0 then .pinf else if s < 0 then .ninf else .nan

/-- numpy true division under `errstate(ignore)`: x/0 = ±inf, 0/0 = nan. -/
def div : Val → Val → Val
  | .nan, _ => .nan
  | _, .nan => .nan
  | .fin a, .fin b =>
    if b = 0 then
      (if a > 0 then .pinf else if a < 0 then .ninf else .nan)
    else .fin (a / b)
  | .fin _, _ => .fin 0            -- finite / ±inf = 0  (sign of zero not modelled)
  | a, .fin b =>                   -- ±inf / finite
    let s := sgn a * (if b < 0 then -1 else 1)   -- inf / 0 = inf (positive zero)
    if s > 0 then .pinf else .ninf
  | _, _ => .nan                   -- inf / inf

instance : Add Val := ⟨add⟩
instance : Sub Val := ⟨sub⟩
instance : Mul Val := ⟨mul⟩
instance : Div Val := ⟨div⟩
instance : Neg Val := ⟨neg⟩

/-- IEEE `<` : false when either side is nan. -/
def lt : Val → Val → Bool
  | .nan, _ => false
  | _, .nan => false
  | .fin a, .fin b => a < b
  | .ninf, .ninf => false
  | .ninf, _ => true
  | _, .ninf => false
  | .pinf, _ => false
  | _, .pinf => true

def le : Val → Val → Bool
  | .nan, _ => false
  | _, .nan => false
  | .fin a, .fin b => a ≤ b
  | .ninf, _ => true
  | _, .pinf => true
  | .pinf, _ => false
  | _, .ninf => false

/-- IEEE `==` : nan ≠ nan. -/
def beqIEEE : Val → Val → Bool
  | .nan, _ => false
  | _, .nan => false
  | a, b => a == b

def abs : Val → Val
  | .fin q => .fin (if q < 0 then -q else q)
  | .nan => .nan
  | _ => .pinf

/-- `np.nansum`: nan counts as 0. -/
def nansum (l : List Val) : Val :=
  l.foldl (fun acc x => if x.isNan then acc else acc + x) (.fin 0)

/-- `np.sum`. -/
def sum (l : List Val) : Val := l.foldl (· + ·) (.fin 0)

def scale (k : Rat) (v : Val) : Val := (.fin k) * v

def toRat? : Val → Option Rat
  | .fin q => some q
  | _ => none

/-- canonical string: "p/q" (lowest terms), "nan", "inf", "-inf". -/
def toStr : Val → String
  | .fin q => if q.den = 1 then toString q.num else s!"{q.num}/{q.den}"
  | .nan => "nan"
  | .pinf => "inf"
  | .ninf => "-inf"

instance : ToString Val := ⟨toStr⟩

@[simp] theorem add_fin (a b : Rat) : (Val.fin a) + (Val.fin b) = .fin (a + b) := rfl
@[simp] theorem mul_fin (a b : Rat) : (Val.fin a) * (Val.fin b) = .fin (a * b) := rfl
@[simp] theorem sub_fin (a b : Rat) : (Val.fin a) - (Val.fin b) = .fin (a + -b) := rfl
@[simp] theorem neg_fin (a : Rat) : -(Val.fin a) = .fin (-a) := rfl
theorem div_fin (a b : Rat) :
    (Val.fin a) / (Val.fin b) =
      if b = 0 then (if a > 0 then .pinf else if a < 0 then .ninf else .nan) else .fin (a / b) := rfl

end Val

/-- Symbolic outputs for the three non-rational functions used by the library
    (sqrt, the normal CDF and the Student-t CDF).  The driver prints the term; the harness
    evaluates it with the same numpy / scipy calls the library uses. -/
inductive Out where
  | v (x : Val)
  | sqrt (x : Val)                       -- np.sqrt x   (nan for negative)
  | divSqrt (num den : Val)              -- num / sqrt den
  | scale (k : Rat) (o : Out)            -- k * o
  | normTail2 (z : Out)                  -- 2 * (1 - norm.cdf(|z|))
  | tTail2 (t : Out) (df : Val)          -- 2 * (1 - t.cdf(|t|, df))
  | none_                                -- Python None
  deriving Repr, Inhabited

end CrCube
