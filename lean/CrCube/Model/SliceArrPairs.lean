/-
  The remaining dimension-type pairings of `_BaseCubeCounts.factory`: MR × ARR and ARR × ARR, and
  the cube layouts in which the two axes of a categorical array STRADDLE another variable.

  The library types every dimension dict on its own (`Dimensions.dimension_type`; the only
  cross-dimension rule is the MR promotion by alias), so it accepts the axes of an array in any
  position.  Layouts (payload axis order), all through the ONE code path `sliceCountsOf`:

    S1  categories(A) × X × items(A)   fixture ca-cat-x-mr-x-ca-subvar-hs.json (X multiple response)
          apparent CA_CAT × X × CA_SUBVAR; partition k = valid category k of A;
          slice X × ARR: `_MrXArrCubeCounts` (X MR) / `_CatXArrCubeCounts` (X categorical)
    S2  items(A) × X × categories(A)
          apparent CA_SUBVAR × X × CA_CAT; partition k = item k of A;
          slice X × CAT: `_MrXCatCubeCounts` / `_CatXCatCubeCounts`
    F   items(M) [× selection(M)] × variables       fixture scorecard.json ("fused" MR variables)
          apparent MR × CA_SUBVAR, one 2-D slice: `_MrXArrCubeCounts`
    AA  two array-items axes (no fixture, no back-end query known to produce it; the library
          accepts it): `_ArrXArrCubeCounts`

  `FT.straddle1/2`, `cubeOfS1/S2`, `cubeOfFused` extend the tabulation CONTRACT to these layouts
  (checked against the Python tabulator, op `ap_cubeof`).
-/
import CrCube.Model.SliceArr

namespace CrCube

/-- axes (items, categories, X…) ↦ (categories, X…, items); `r` = number of X axes -/
def FT.straddle1 (r : Nat) (t : FT) : FT :=
  ⟨match t.shape with | a :: b :: rest => b :: rest.take r ++ [a] | sh => sh,
   fun ix => match ix with
     | c :: rest => t.get (rest.getD r 0 :: c :: rest.take r)
     | [] => .nan⟩

/-- axes (items, categories, X…) ↦ (items, X…, categories) -/
def FT.straddle2 (r : Nat) (t : FT) : FT :=
  ⟨match t.shape with | a :: b :: rest => a :: rest.take r ++ [b] | sh => sh,
   fun ix => match ix with
     | i :: rest => t.get (i :: rest.getD r 0 :: rest.take r)
     | [] => .nan⟩

/-- CONTRACT, layout S1: the tabulation of the design [A, X] rendered categories(A) × X × items(A) -/
def cubeOfS1 (A X : Var) (s : Survey) : FT := (cubeOf [A, X] s).straddle1 X.rank

/-- CONTRACT, layout S2: the same tabulation rendered items(A) × X × categories(A) -/
def cubeOfS2 (A X : Var) (s : Survey) : FT := (cubeOf [A, X] s).straddle2 X.rank

def kindsS1 (X : Var) : List DK := [.cat] ++ X.dks ++ [.arr]
def kindsS2 (X : Var) : List DK := [.arr] ++ X.dks ++ [.cat]

/-- the count extractor of partition `k` (= valid category k of A) of a cube in layout S1 -/
def sliceCountsS1 (A X : Var) (rawS : FT) (k : Nat) : MatCounts :=
  sliceCountsOf (kindsS1 X) ([validIdxs A.catMissing] ++ X.validAxes ++ [List.range A.n]) rawS k

/-- the count extractor of partition `k` (= item k of A) of a cube in layout S2 -/
def sliceCountsS2 (A X : Var) (rawS : FT) (k : Nat) : MatCounts :=
  sliceCountsOf (kindsS2 X) ([List.range A.n] ++ X.validAxes ++ [validIdxs A.catMissing]) rawS k

/-- `Cube._slice_idxs`: one partition per valid element of the FIRST apparent dimension -/
def nPartitionsS1 (A X : Var) : Nat :=
  if (kindsS1 X).length < 3 then 1 else (validIdxs A.catMissing).length
def nPartitionsS2 (A X : Var) : Nat :=
  if (kindsS2 X).length < 3 then 1 else A.n

/-- CONTRACT, fused ("scorecard") layout: `q` variables of one design `M`, axes of M then the
    variables axis; cell (ix_M, j) tabulates variable j ALONE (respondent answer number j) -/
def cubeOfFused (M : Var) (q : Nat) (s : Survey) : FT :=
  ⟨M.rawShape ++ [q],
   fun ix => .fin (wsum s fun r =>
     match r.ans[ix.getD M.rank 0]? with
     | some a => M.mem a (ix.take M.rank)
     | none => false)⟩

/-- the one slice of a fused cube: rows = elements of M, columns = the q variables -/
def sliceCountsFused (M : Var) (q : Nat) (raw : FT) : MatCounts :=
  sliceCountsOf (M.dks ++ [.arr]) (M.validAxes ++ [List.range q]) raw 0

/-- two array-items axes with valid element positions `rv` and `cv`: one ARR × ARR slice -/
def sliceCountsAA (rv cv : List Nat) (raw : FT) : MatCounts :=
  sliceCountsOf [.arr, .arr] [rv, cv] raw 0

end CrCube
