/-
  Public surface of `_Slice` for bases, margins, ranges, mask and proportions on the BASE
  (non-inserted) cells: `cubepart._Slice.{row,column,table}_{weighted,unweighted}_bases,
  rows_margin, columns_margin, rows_base, columns_base, table_margin, table_base,
  table_base_range, table_margin_range, min_base_size_mask, *_proportions, *_percentages,
  rows_margin_proportion, columns_margin_proportion` with the 2-D fallbacks used when a margin
  is undefined across an array dimension.
-/
import CrCube.Model.Slice

namespace CrCube

/-- a margin is a scalar, a vector, or (fallback) a matrix -/
inductive Marg where
  | scalar (v : Val)
  | vec (l : List Val)
  | mat (m : List (List Val))
  deriving Repr, Inhabited

namespace MatCounts

def mat (m : MatCounts) (f : Nat → Nat → Val) : List (List Val) := tab2 m.nrows m.ncols f

/-- `_Slice.rows_margin` / `rows_base`: the 1-D base when defined, else the 2-D row bases -/
def rowsMargin (m : MatCounts) : Marg :=
  match m.rowsBase with
  | some f => .vec (tab1 m.nrows f)
  | none => .mat (m.mat m.rowBases)

def columnsMargin (m : MatCounts) : Marg :=
  match m.columnsBase with
  | some f => .vec (tab1 m.ncols f)
  | none => .mat (m.mat m.columnBases)

/-- `_Slice.table_margin` / `table_base` cascade -/
def tableMargin (m : MatCounts) : Marg :=
  match m.tableBase with
  | some v => .scalar v
  | none =>
    match m.columnsTableBase with
    | some f => .vec (tab1 m.ncols f)
    | none =>
      match m.rowsTableBase with
      | some f => .vec (tab1 m.nrows f)
      | none => .mat (m.mat m.tableBases)

def vmin (l : List Val) : Val := l.foldl (fun a x => if x.lt a then x else a) (l.headD .nan)
def vmax (l : List Val) : Val := l.foldl (fun a x => if a.lt x then x else a) (l.headD .nan)

/-- `_TableBasesRange.value` = [min, max] of table_bases (base cells) -/
def tableBasesRange (m : MatCounts) : List Val :=
  let all := (m.mat m.tableBases).flatten
  [vmin all, vmax all]

def rowProportions (m : MatCounts) : Nat → Nat → Val := fun i j => m.counts i j / m.rowBases i j
def columnProportions (m : MatCounts) : Nat → Nat → Val := fun i j => m.counts i j / m.columnBases i j
def tableProportions (m : MatCounts) : Nat → Nat → Val := fun i j => m.counts i j / m.tableBases i j

def pct (f : Nat → Nat → Val) : Nat → Nat → Val := fun i j => f i j * .fin 100

/-- `_Slice.rows_margin_proportion`: Σ_cols counts / rows_table_base when the columns
    dimension is not an array type (MR counts as array), else rows_margin / table bases (2-D) -/
def rowsMarginProportion (ck : DK) (m : MatCounts) : Marg :=
  if ck = .cat then
    match m.rowsTableBase with
    | some tb => .vec (tab1 m.nrows (fun i => vsum m.ncols (fun j => m.counts i j) / tb i))
    | none => .vec []   -- unreachable: every class with CAT columns defines rows_table_base
  else
    .mat (m.mat (fun i j => m.rowBases i j / m.tableBases i j))

def columnsMarginProportion (rk : DK) (m : MatCounts) : Marg :=
  if rk = .cat then
    match m.columnsTableBase with
    | some tb => .vec (tab1 m.ncols (fun j => vsum m.nrows (fun i => m.counts i j) / tb j))
    | none => .vec []
  else
    .mat (m.mat (fun i j => m.columnBases i j / m.tableBases i j))

/-- `MinBaseSizeMask.{row,column,table}_mask` on base cells: unweighted base < size -/
def maskOf (m : MatCounts) (bases : Nat → Nat → Val) (size : Val) : List (List Bool) :=
  tab2 m.nrows m.ncols (fun i j => (bases i j).lt size)

end MatCounts

end CrCube
