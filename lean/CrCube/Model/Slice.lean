/-
  From the raw cube array to the count extractors of partition k:
  `Cube.counts` (= raw[np.ix_(valid element idxs)]), `_slice_idx_expr`, `_BaseCubeCounts.factory`.
-/
import CrCube.Model.CubeCounts
import CrCube.Spec.Survey

namespace CrCube

/-- apparent dimension kinds contributed by a variable (MR_CAT is not apparent) -/
def Var.dks (v : Var) : List DK :=
  match v.kind with
  | .cat => [.cat]
  | .arr => if v.isMR then [.mr] else [.arr, .cat]

/-- valid element positions on each raw axis of the variable -/
def Var.validAxes (v : Var) : List (List Nat) :=
  match v.kind with
  | .cat => [validIdxs v.catMissing]
  | .arr => [List.range v.n, validIdxs v.catMissing]

/-- `Cube.counts`: raw array restricted to valid elements on every axis -/
def validCube (vars : List Var) (raw : FT) : FT := raw.take (vars.flatMap Var.validAxes)

def apparentKinds (vars : List Var) : List DK := vars.flatMap Var.dks

/-- number of valid elements of the first apparent dimension -/
def firstDimCount (vars : List Var) : Nat :=
  match vars with
  | [] => 0
  | v :: _ => match v.kind with
    | .cat => (validIdxs v.catMissing).length
    | .arr => v.n

/-- `Cube._slice_idxs` (without CA-as-0th): 1 partition below 3 dimensions -/
def nPartitions (vars : List Var) : Nat :=
  if (apparentKinds vars).length < 3 then 1 else firstDimCount vars

/-- the count extractor object of partition `k` of a ≥2-D cube -/
def sliceCounts (vars : List Var) (raw : FT) (k : Nat) : MatCounts :=
  let kinds := apparentKinds vars
  let nd := kinds.length
  MatCounts.factory (kinds.getD (nd - 2) .cat) (kinds.getD (nd - 1) .cat)
    (sliceExpr nd (kinds.getD 0 .cat) k (validCube vars raw))

/-- the count extractor of a 1-D cube -/
def strandCounts (vars : List Var) (raw : FT) : StripeCounts :=
  match apparentKinds vars with
  | [.mr] => StripeCounts.mr (validCube vars raw)
  | _ => StripeCounts.cat (validCube vars raw)

end CrCube
