/-
  Mirror of `cr.cube.matrix.cubemeasure._BaseCubeCounts` and its nine type-pair subclasses,
  and of `cr.cube.stripe.cubemeasure` count extractors.

  Input `c` is the library's `self._counts`: the raw cube array after
  `[valid_idxs][slice_idx_expr]`, i.e. missing elements removed on every axis (so an MR
  selection axis has the two planes 0 = selected, 1 = other) and the table element fixed.
-/
import CrCube.Model.Tensor

namespace CrCube

inductive DK where
  | cat | mr | arr
  deriving DecidableEq, Repr, Inhabited

/-- what the nine classes expose (2-D arrays as index functions, 1-D optional vectors) -/
structure MatCounts where
  nrows : Nat
  ncols : Nat
  counts : Nat → Nat → Val
  rowBases : Nat → Nat → Val
  columnBases : Nat → Nat → Val
  tableBases : Nat → Nat → Val
  rowsBase : Option (Nat → Val)
  columnsBase : Option (Nat → Val)
  rowsTableBase : Option (Nat → Val)
  columnsTableBase : Option (Nat → Val)
  tableBase : Option Val
  rowsPruningBase : Nat → Val
  columnsPruningBase : Nat → Val

namespace MatCounts

/-- default `_rows_pruning_base` = np.sum(row_bases, axis=1) -/
def defRowsPruning (ncols : Nat) (rowBases : Nat → Nat → Val) : Nat → Val :=
  fun i => vsum ncols (fun j => rowBases i j)
/-- default `_columns_pruning_base` = np.sum(column_bases, axis=0) -/
def defColsPruning (nrows : Nat) (colBases : Nat → Nat → Val) : Nat → Val :=
  fun j => vsum nrows (fun i => colBases i j)

def catXcat (c : FT) : MatCounts :=
  let nr := c.dim 0; let nc := c.dim 1
  let counts := fun i j => c.get [i, j]
  let rowsBase := fun i => vsum nc (fun j => c.get [i, j])
  let colsBase := fun j => vsum nr (fun i => c.get [i, j])
  let tableBase := vsum nr (fun i => vsum nc (fun j => c.get [i, j]))
  let rowBases := fun i (_ : Nat) => rowsBase i
  let colBases := fun (_ : Nat) j => colsBase j
  { nrows := nr, ncols := nc, counts := counts
    rowBases := rowBases, columnBases := colBases
    tableBases := fun _ _ => tableBase
    rowsBase := some rowsBase, columnsBase := some colsBase
    rowsTableBase := some (fun _ => tableBase), columnsTableBase := some (fun _ => tableBase)
    tableBase := some tableBase
    rowsPruningBase := defRowsPruning nc rowBases
    columnsPruningBase := defColsPruning nr colBases }

def catXmr (c : FT) : MatCounts :=
  let nr := c.dim 0; let nc := c.dim 1; let np := c.dim 2
  let counts := fun i j => c.get [i, j, 0]
  let colsBase := fun j => vsum nr (fun i => c.get [i, j, 0])
  let colsTableBase := fun j => vsum nr (fun i => vsum np (fun s => c.get [i, j, s]))
  let rowBases := fun i j => vsum np (fun s => c.get [i, j, s])
  { nrows := nr, ncols := nc, counts := counts
    rowBases := rowBases, columnBases := fun _ j => colsBase j
    tableBases := fun _ j => colsTableBase j
    rowsBase := none, columnsBase := some colsBase
    rowsTableBase := none, columnsTableBase := some colsTableBase
    tableBase := none
    rowsPruningBase := defRowsPruning nc rowBases
    columnsPruningBase := colsTableBase }

def mrXcat (c : FT) : MatCounts :=
  let nr := c.dim 0; let np := c.dim 1; let nc := c.dim 2
  let counts := fun i j => c.get [i, 0, j]
  let rowsBase := fun i => vsum nc (fun j => c.get [i, 0, j])
  let rowsTableBase := fun i => vsum np (fun s => vsum nc (fun j => c.get [i, s, j]))
  let colBases := fun i j => vsum np (fun s => c.get [i, s, j])
  { nrows := nr, ncols := nc, counts := counts
    rowBases := fun i _ => rowsBase i, columnBases := colBases
    tableBases := fun i _ => rowsTableBase i
    rowsBase := some rowsBase, columnsBase := none
    rowsTableBase := some rowsTableBase, columnsTableBase := none
    tableBase := none
    rowsPruningBase := rowsTableBase
    columnsPruningBase := defColsPruning nr colBases }

def mrXmr (c : FT) : MatCounts :=
  let nr := c.dim 0; let np := c.dim 1; let nc := c.dim 2; let nq := c.dim 3
  let counts := fun i j => c.get [i, 0, j, 0]
  let rowBases := fun i j => vsum nq (fun t => c.get [i, 0, j, t])
  let colBases := fun i j => vsum np (fun s => c.get [i, s, j, 0])
  { nrows := nr, ncols := nc, counts := counts
    rowBases := rowBases, columnBases := colBases
    tableBases := fun i j => vsum np (fun s => vsum nq (fun t => c.get [i, s, j, t]))
    rowsBase := none, columnsBase := none
    rowsTableBase := none, columnsTableBase := none
    tableBase := none
    rowsPruningBase := fun i => vsum nc (fun j => vsum nq (fun t => c.get [i, 0, j, t]))
    columnsPruningBase := fun j => vsum nr (fun i => vsum np (fun s => c.get [i, s, j, 0])) }

def arrXarr (c : FT) : MatCounts :=
  let nr := c.dim 0; let nc := c.dim 1
  let counts := fun i j => c.get [i, j]
  { nrows := nr, ncols := nc, counts := counts
    rowBases := counts, columnBases := counts, tableBases := counts
    rowsBase := none, columnsBase := none, rowsTableBase := none, columnsTableBase := none
    tableBase := none
    rowsPruningBase := defRowsPruning nc counts
    columnsPruningBase := defColsPruning nr counts }

def arrXcat (c : FT) : MatCounts :=
  let nr := c.dim 0; let nc := c.dim 1
  let counts := fun i j => c.get [i, j]
  let rowsBase := fun i => vsum nc (fun j => c.get [i, j])
  let rowBases := fun i (_ : Nat) => rowsBase i
  { nrows := nr, ncols := nc, counts := counts
    rowBases := rowBases, columnBases := counts, tableBases := rowBases
    rowsBase := some rowsBase, columnsBase := none
    rowsTableBase := some rowsBase, columnsTableBase := none
    tableBase := none
    rowsPruningBase := defRowsPruning nc rowBases
    columnsPruningBase := defColsPruning nr counts }

def catXarr (c : FT) : MatCounts :=
  let nr := c.dim 0; let nc := c.dim 1
  let counts := fun i j => c.get [i, j]
  let colsBase := fun j => vsum nr (fun i => c.get [i, j])
  let colBases := fun (_ : Nat) j => colsBase j
  { nrows := nr, ncols := nc, counts := counts
    rowBases := counts, columnBases := colBases, tableBases := colBases
    rowsBase := none, columnsBase := some colsBase
    rowsTableBase := none, columnsTableBase := some colsBase
    tableBase := none
    rowsPruningBase := defRowsPruning nc counts
    columnsPruningBase := defColsPruning nr colBases }

def arrXmr (c : FT) : MatCounts :=
  let nr := c.dim 0; let nc := c.dim 1; let np := c.dim 2
  let counts := fun i j => c.get [i, j, 0]
  let rowBases := fun i j => vsum np (fun s => c.get [i, j, s])
  { nrows := nr, ncols := nc, counts := counts
    rowBases := rowBases, columnBases := counts, tableBases := rowBases
    rowsBase := none, columnsBase := none, rowsTableBase := none, columnsTableBase := none
    tableBase := none
    rowsPruningBase := defRowsPruning nc rowBases
    columnsPruningBase := fun j => vsum nr (fun i => vsum np (fun s => c.get [i, j, s])) }

def mrXarr (c : FT) : MatCounts :=
  let nr := c.dim 0; let np := c.dim 1; let nc := c.dim 2
  let counts := fun i j => c.get [i, 0, j]
  let colBases := fun i j => vsum np (fun s => c.get [i, s, j])
  { nrows := nr, ncols := nc, counts := counts
    rowBases := counts, columnBases := colBases, tableBases := colBases
    rowsBase := none, columnsBase := none, rowsTableBase := none, columnsTableBase := none
    tableBase := none
    rowsPruningBase := fun i => vsum np (fun s => vsum nc (fun j => c.get [i, s, j]))
    columnsPruningBase := defColsPruning nr colBases }

/-- `_BaseCubeCounts.factory`: class chosen by the last two dimension types -/
def factory (rk ck : DK) (c : FT) : MatCounts :=
  match rk, ck with
  | .mr, .mr => mrXmr c
  | .mr, .arr => mrXarr c
  | .mr, .cat => mrXcat c
  | .arr, .mr => arrXmr c
  | .arr, .arr => arrXarr c
  | .arr, .cat => arrXcat c
  | .cat, .mr => catXmr c
  | .cat, .arr => catXarr c
  | .cat, .cat => catXcat c

def rowsPruningMask (m : MatCounts) : List Bool :=
  tab1 m.nrows (fun i => m.rowsPruningBase i == .fin 0)
def columnsPruningMask (m : MatCounts) : List Bool :=
  tab1 m.ncols (fun j => m.columnsPruningBase j == .fin 0)

end MatCounts

/-- `_BaseCubeMeasure._slice_idx_expr` applied to an array whose leading axes belong to the
    table dimension: `[:]` for < 3 dims, `[k, 0]` for an MR table, `[k]` otherwise. -/
def sliceExpr (ndim : Nat) (tableKind : DK) (k : Nat) (t : FT) : FT :=
  if ndim < 3 then t
  else if tableKind = .mr then (t.slice0 k).slice0 0
  else t.slice0 k

/-- stripe count extractors (`cr.cube.stripe.cubemeasure`) : counts, bases, pruning base -/
structure StripeCounts where
  n : Nat
  counts : Nat → Val
  bases : Nat → Val
  tableBase : Option Val
  pruningBase : Nat → Val

namespace StripeCounts

def cat (c : FT) : StripeCounts :=
  let n := c.dim 0
  let tb := vsum n (fun i => c.get [i])
  { n := n, counts := fun i => c.get [i], bases := fun _ => tb, tableBase := some tb
    pruningBase := fun i => c.get [i] }

def mr (c : FT) : StripeCounts :=
  let n := c.dim 0; let np := c.dim 1
  let bases := fun i => vsum np (fun s => c.get [i, s])
  { n := n, counts := fun i => c.get [i, 0], bases := bases, tableBase := none
    pruningBase := bases }

end StripeCounts

end CrCube
