/-
  Row-major tensors.  The library reshapes the flat `data` list of the response to
  `Dimensions.shape` (numpy C order) and then only ever *indexes* it, so the model keeps a
  tensor as a shape plus an indexing function (`FT`); `FT.ofFlat` is the reshape.
-/
import CrCube.Model.Val

namespace CrCube

def prodL : List Nat → Nat
  | [] => 1
  | s :: ss => s * prodL ss

/-- numpy C-order ravel of a multi-index. -/
def ravel : List Nat → List Nat → Nat
  | s :: ss, i :: is => i * prodL ss + ravel ss is
  | _, _ => 0

/-- multi-index within bounds (same length, each component below its extent) -/
def inRangeB : List Nat → List Nat → Bool
  | [], [] => true
  | s :: ss, i :: is => decide (i < s) && inRangeB ss is
  | _, _ => false

abbrev InRange (sh ix : List Nat) : Prop := inRangeB sh ix = true

/-- all multi-indices of a shape, in row-major order -/
def allIdx : List Nat → List (List Nat)
  | [] => [[]]
  | s :: ss => (List.range s).flatMap (fun i => (allIdx ss).map (i :: ·))

/-- functional tensor -/
structure FT where
  shape : List Nat
  get : List Nat → Val

namespace FT

/-- `np.array(flat).reshape(shape)` then index -/
def ofFlat (shape : List Nat) (data : List Val) : FT :=
  ⟨shape, fun ix => data.getD (ravel shape ix) .nan⟩

/-- flat row-major data of a functional tensor -/
def flat (t : FT) : List Val := (allIdx t.shape).map t.get

/-- numpy `a[np.ix_(idxs...)]` -/
def take (t : FT) (idxs : List (List Nat)) : FT :=
  ⟨idxs.map List.length, fun ix => t.get (List.zipWith (fun l i => l.getD i 0) idxs ix)⟩

/-- `a[k]` on the first axis -/
def slice0 (t : FT) (k : Nat) : FT := ⟨t.shape.tail, fun ix => t.get (k :: ix)⟩

def dim (t : FT) (k : Nat) : Nat := t.shape.getD k 0

end FT

/-- Σ_{i<n} f i over `Val` (np.sum) -/
def vsum (n : Nat) (f : Nat → Val) : Val := Val.sum ((List.range n).map f)

/-- tabulate helpers for printing -/
def tab1 (n : Nat) (f : Nat → α) : List α := (List.range n).map f
def tab2 (n m : Nat) (f : Nat → Nat → α) : List (List α) :=
  (List.range n).map (fun i => (List.range m).map (f i))

/-- positions of non-missing elements (`valid_elements.element_idxs`) -/
def validIdxs (missing : List Bool) : List Nat :=
  (List.range missing.length).filter (fun i => !(missing.getD i true))

end CrCube
