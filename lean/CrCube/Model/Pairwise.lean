/-
  Pairwise column tests (property C13).

  Mirrors
    cr.cube.matrix.measure : _PairwiseSigTstats (_calculate_t_stats, _reference_values, _column_bases),
                             _PairwiseSigPvals (_p_vals, _selected_columns_base),
                             _ColumnProportions / _ColumnWeightedBases / _ColumnUnweightedBases /
                             _ColumnSquaredBases block layout (SumSubtotals, broadcast rows),
                             _PairwiseMeansSigTStats / _PairwiseMeansSigPVals (Welch),
                             _PairwiseSignificaneBetweenSubvariablesHelper (overlap variant),
                             _PairwiseSigTStatsForSubvar / _PairwiseSigPValsForSubvar
    cr.cube.matrix.cubemeasure : _CatXMrOverlaps, _MrXMrOverlaps
    cr.cube.cubepart       : _Slice._pairwise_indices, pairwise_indices(_alt), _pairwise_significance_*
                             (base_column_idx lookup, _assemble_matrix), _alpha_values, _only_larger

  Matrices are lists of rows over `Val`.  A *full* matrix is `np.block(blocks)`:
  base rows then subtotal rows, base columns then subtotal columns; a signed index addresses it
  like numpy does (k < 0 ↦ n + k), which is how the assembler and `_reference_values` address
  subtotal columns.  CAT_DATE wave differences are not modelled (plain categorical only).
-/
import CrCube.Model.Val

namespace CrCube.Pairwise

structure Sub where
  addends : List Nat
  subtrahends : List Nat
  deriving Repr, Inhabited

def Sub.isDiff (s : Sub) : Bool := !s.subtrahends.isEmpty

abbrev Mat := List (List Val)

def Mat.get (m : Mat) (i j : Nat) : Val := (m.getD i []).getD j .nan

def sumOver (idxs : List Nat) (f : Nat → Val) : Val := Val.sum (idxs.map f)

/-! ### `SumSubtotals` -/

/-- `SumSubtotals._subtotal_column(subtotal)[i]` -/
def subCol (m : Mat) (s : Sub) (diffColsNan : Bool) (i : Nat) : Val :=
  if diffColsNan && s.isDiff then .nan
  else sumOver s.addends (m.get i) - sumOver s.subtrahends (m.get i)

/-- `SumSubtotals._subtotal_row(subtotal)[j]` -/
def subRow (m : Mat) (s : Sub) (diffRowsNan : Bool) (j : Nat) : Val :=
  if diffRowsNan && s.isDiff then .nan
  else sumOver s.addends (fun i => m.get i j) - sumOver s.subtrahends (fun i => m.get i j)

/-- `SumSubtotals._intersection(row_subtotal, column_subtotal)` -/
def subInter (m : Mat) (rs cs : Sub) (diffColsNan diffRowsNan : Bool) : Val :=
  if (cs.isDiff && rs.isDiff) || (cs.isDiff && diffColsNan) || (rs.isDiff && diffRowsNan) then .nan
  else sumOver cs.addends (subRow m rs diffRowsNan) - sumOver cs.subtrahends (subRow m rs diffRowsNan)

/-- `np.block(SumSubtotals.blocks(m, dims, diff_cols_nan, diff_rows_nan))` -/
def sumBlocks (m : Mat) (nr nc : Nat) (rowSubs colSubs : List Sub) (dc dr : Bool) : Mat :=
  (List.range nr).map (fun i =>
      (List.range nc).map (m.get i) ++ colSubs.map (fun s => subCol m s dc i))
  ++ rowSubs.map (fun r =>
      (List.range nc).map (subRow m r dr) ++ colSubs.map (fun s => subInter m r s dc dr))

/-- block layout shared by `_ColumnWeightedBases` / `_ColumnSquaredBases` / `_ColumnUnweightedBases`:
    subtotal columns = SumSubtotals(diff_cols_nan); subtotal rows = a broadcast base row
    (`base_values[0, :]` for the weighted / squared variant, `columns_base` for the unweighted);
    intersections = broadcast of the first row of the subtotal-columns block -/
def colBaseBlocks (m : Mat) (nr nc : Nat) (rowSubs colSubs : List Sub) (subRowVec : Nat → Val) : Mat :=
  (List.range nr).map (fun i =>
      (List.range nc).map (m.get i) ++ colSubs.map (fun s => subCol m s true i))
  ++ rowSubs.map (fun _ =>
      (List.range nc).map subRowVec ++ colSubs.map (fun s => subCol m s true 0))

structure PwIn where
  nr : Nat
  nc : Nat
  counts : Mat                    -- weighted counts
  wbases : Mat                    -- weighted column_bases
  ubases : Mat                    -- unweighted column_bases
  ucolsBase : List Val            -- unweighted_cube_counts.columns_base (used only with row subtotals)
  sqbases : Option Mat            -- weighted_squared column_bases, when the measure is present
  rowSubs : List Sub
  colSubs : List Sub
  deriving Inhabited

def zipMat (f : Val → Val → Val) (a b : Mat) : Mat :=
  List.zipWith (fun ra rb => List.zipWith f ra rb) a b

def PwIn.countBlocks (x : PwIn) : Mat := sumBlocks x.counts x.nr x.nc x.rowSubs x.colSubs false false
def PwIn.wBaseBlocks (x : PwIn) : Mat :=
  colBaseBlocks x.wbases x.nr x.nc x.rowSubs x.colSubs (x.wbases.get 0)
def PwIn.uBaseBlocks (x : PwIn) : Mat :=
  colBaseBlocks x.ubases x.nr x.nc x.rowSubs x.colSubs (fun j => x.ucolsBase.getD j .nan)

/-- `_ColumnProportions.blocks` (np.block'd) -/
def PwIn.props (x : PwIn) : Mat := zipMat (· / ·) x.countBlocks x.wBaseBlocks

/-- `_PairwiseSigTstats._column_bases`: effective base (Σw)²/Σw² with squared weights, else unweighted -/
def PwIn.bases (x : PwIn) : Mat :=
  match x.sqbases with
  | some sq =>
    zipMat (fun w s => w * w / s) x.wBaseBlocks
      (colBaseBlocks sq x.nr x.nc x.rowSubs x.colSubs (sq.get 0))
  | none => x.uBaseBlocks

/-- numpy position of a signed index on an axis of length `n` -/
def pos (n : Nat) (k : Int) : Nat := if k < 0 then n - k.natAbs else k.toNat

/-- `_calculate_t_stats` for one cell against its reference -/
def tStat (p n pRef nRef : Val) : Out :=
  .divSqrt (p - pRef) (Val.abs (p * (1 - p) / n + pRef * (1 - pRef) / nRef))

/-- `_p_vals` for one cell -/
def pVal (t : Out) (n nRef : Val) : Out := .tTail2 t (n + nRef - 2)

def PwIn.nFullCols (x : PwIn) : Nat := x.nc + x.colSubs.length
def PwIn.nFullRows (x : PwIn) : Nat := x.nr + x.rowSubs.length

/-- t statistic of full row `i`, full column `b` against the selected (signed) column `a` -/
def PwIn.t (x : PwIn) (a : Int) (i b : Nat) : Out :=
  let ja := pos x.nFullCols a
  tStat (x.props.get i b) (x.bases.get i b) (x.props.get i ja) (x.bases.get i ja)

def PwIn.p (x : PwIn) (a : Int) (i b : Nat) : Out :=
  let ja := pos x.nFullCols a
  pVal (x.t a i b) (x.bases.get i b) (x.bases.get i ja)

/-- `_assemble_matrix(blocks)` for an index function on the full matrix -/
def assemble (nFullRows nFullCols : Nat) (rowOrder colOrder : List Int) (f : Nat → Nat → α) :
    List (List α) :=
  rowOrder.map (fun r => colOrder.map (fun c => f (pos nFullRows r) (pos nFullCols c)))

/-- `_Slice.pairwise_significance_t_stats(column_idx)` -/
def tStatsAt (x : PwIn) (rowOrder colOrder : List Int) (colIdx : Nat) : List (List Out) :=
  assemble x.nFullRows x.nFullCols rowOrder colOrder (x.t (colOrder.getD colIdx 0))

/-- `_Slice.pairwise_significance_p_vals(column_idx)` -/
def pValsAt (x : PwIn) (rowOrder colOrder : List Int) (colIdx : Nat) : List (List Out) :=
  assemble x.nFullRows x.nFullCols rowOrder colOrder (x.p (colOrder.getD colIdx 0))

/-! ### index sets (`_Slice._pairwise_indices`, `pairwise_indices`) -/

/-- one entry of `significance`: `p < alpha` and, in only-larger mode, `t < 0`;
    `ev` evaluates a symbolic term to a number (numpy / scipy in the implementation) -/
def sig (ev : Out → Val) (alpha : Rat) (onlyLarger : Bool) (p t : Out) : Bool :=
  Val.lt (ev p) (.fin alpha) && (!onlyLarger || Val.lt (ev t) (.fin 0))

/-- generic: `pairwise_indices[r][c]` = display positions b ≠ c with `sig (P c r b) (T c r b)`,
    where `P c` / `T c` are the assembled matrices for selected display column `c`.
    Models the code WITH repair F12 (`significance[:, col] = False`); without it the overlap
    variant lists every column in its own set when only_larger is off (`indicesOfOld`). -/
def indicesOf (ev : Out → Val) (alpha : Rat) (onlyLarger : Bool) (nRows nCols : Nat)
    (P T : Nat → Nat → Nat → Out) : List (List (List Nat)) :=
  (List.range nRows).map (fun r => (List.range nCols).map (fun c =>
    (List.range nCols).filter (fun b => b != c && sig ev alpha onlyLarger (P c r b) (T c r b))))

/-- the code AS FOUND (no mask for the selected column itself) -/
def indicesOfOld (ev : Out → Val) (alpha : Rat) (onlyLarger : Bool) (nRows nCols : Nat)
    (P T : Nat → Nat → Nat → Out) : List (List (List Nat)) :=
  (List.range nRows).map (fun r => (List.range nCols).map (fun c =>
    (List.range nCols).filter (fun b => sig ev alpha onlyLarger (P c r b) (T c r b))))

/-- `_Slice.pairwise_indices` (`alpha`) / `pairwise_indices_alt` (`alpha_alt`) -/
def pairwiseIndices (ev : Out → Val) (alpha : Rat) (onlyLarger : Bool) (x : PwIn)
    (rowOrder colOrder : List Int) : List (List (List Nat)) :=
  indicesOf ev alpha onlyLarger rowOrder.length colOrder.length
    (fun c r b => x.p (colOrder.getD c 0) (pos x.nFullRows (rowOrder.getD r 0)) (pos x.nFullCols (colOrder.getD b 0)))
    (fun c r b => x.t (colOrder.getD c 0) (pos x.nFullRows (rowOrder.getD r 0)) (pos x.nFullCols (colOrder.getD b 0)))

/-- exact sign test of a `divSqrt num den` term with `den = |…|`: negative iff the numerator is
    negative and the denominator is not NaN / +inf (x/0 = −inf counts as negative) -/
def divSqrtNeg : Out → Bool
  | .divSqrt (.fin n) (.fin _) => n < 0
  | .divSqrt .ninf (.fin _) => true
  | _ => false

/-! ### alpha parsing (`CubePartition._alpha_values`, `_only_larger`) -/

inductive AlphaItem where
  | float (x : Rat)        -- a Python float
  | other                  -- int, str, None, …
  deriving Repr, DecidableEq

inductive AlphaArg where
  | falsy                              -- absent, None, 0.0, 0, [], (), "", False
  | float (x : Rat)
  | list (xs : List AlphaItem)         -- non-empty list / tuple
  | other                              -- truthy non-float non-list (int, str, dict, …)
  deriving Repr, DecidableEq

inductive AlphaErr where
  | typeError | valueError
  deriving Repr, DecidableEq

def inUnit (x : Rat) : Bool := decide (0 < x) && decide (x < 1)

def itemOk : AlphaItem → Bool
  | .float x => inUnit x
  | .other => false

def itemVal : AlphaItem → Rat
  | .float x => x
  | .other => 0

def alphaValues : AlphaArg → Except AlphaErr (Rat × Option Rat)
  | .falsy => .ok (5 / 100, none)
  | .other => .error .typeError
  | .float x => if inUnit x then .ok (x, none) else .error .valueError
  | .list xs =>
    if (xs.take 2).all itemOk then
      match xs with
      | [a] => .ok (itemVal a, none)
      | a :: b :: _ =>
        let x := itemVal a; let y := itemVal b
        .ok (if x ≤ y then (x, some y) else (y, some x))
      | [] => .ok (5 / 100, none)
    else .error .valueError

/-! ### Welch test on means (`_PairwiseMeansSigTStats`, `_PairwiseMeansSigPVals`) -/

structure MeansIn where
  nr : Nat
  nc : Nat
  means : Mat
  stddev : Mat
  counts : Mat          -- unweighted (valid) counts
  nRowSubs : Nat
  nColSubs : Nat
  deriving Inhabited

def sq (v : Val) : Val := v * v

def welchT (m v n mRef vRef nRef : Val) : Out := .divSqrt (m - mRef) (v / n + vRef / nRef)

def welchDf (v n vRef nRef : Val) : Val :=
  sq (v / n + vRef / nRef) / (sq (v / n) / (n - 1) + sq (vRef / nRef) / (nRef - 1))

/-- numpy index of a (possibly negative) column on the BASE matrix (`means[:, [idx]]`) -/
def MeansIn.t (x : MeansIn) (a : Int) (i b : Nat) : Out :=
  if a < 0 then .v .nan
  else if i < x.nr ∧ b < x.nc then
    let ja := a.toNat
    welchT (x.means.get i b) (sq (x.stddev.get i b)) (x.counts.get i b)
           (x.means.get i ja) (sq (x.stddev.get i ja)) (x.counts.get i ja)
  else .v .nan                                   -- NanSubtotals

def MeansIn.p (x : MeansIn) (a : Int) (i b : Nat) : Out :=
  if a < 0 then .tTail2 (.v .nan) .nan
  else if i < x.nr ∧ b < x.nc then
    let ja := a.toNat
    .tTail2 (x.t a i b)
      (welchDf (sq (x.stddev.get i b)) (x.counts.get i b) (sq (x.stddev.get i ja)) (x.counts.get i ja))
  else .v .nan

def meansTAt (x : MeansIn) (rowOrder colOrder : List Int) (colIdx : Nat) : List (List Out) :=
  assemble (x.nr + x.nRowSubs) (x.nc + x.nColSubs) rowOrder colOrder (x.t (colOrder.getD colIdx 0))

def meansPAt (x : MeansIn) (rowOrder colOrder : List Int) (colIdx : Nat) : List (List Out) :=
  assemble (x.nr + x.nRowSubs) (x.nc + x.nColSubs) rowOrder colOrder (x.p (colOrder.getD colIdx 0))

/-! ### which test runs (`_Slice._cube_has_overlaps`) -/

/-- the overlap-corrected variant replaces the ordinary column test only for multiple-response
    columns whose response carries BOTH the `overlap` and the `valid_overlap` measure -/
def usesOverlapPath (columnsAreMR hasOverlap hasValidOverlap : Bool) : Bool :=
  columnsAreMR && hasOverlap && hasValidOverlap

/-! ### overlap variant (`_PairwiseSignificaneBetweenSubvariablesHelper`) -/

/-- `sel[i][a][b]`, `valid[i][a][b]`: selected / valid overlap bases per row -/
structure OvIn where
  props : Mat                       -- column proportions of the rows concerned
  sel : List (List (List Val))
  valid : List (List (List Val))
  deriving Inhabited

def get3 (t : List (List (List Val))) (i a b : Nat) : Val := ((t.getD i []).getD a []).getD b .nan

def OvIn.df (x : OvIn) (i a b : Nat) : Val := get3 x.valid i a a + get3 x.valid i b b - get3 x.valid i a b

/-- the variance-like quantity under the sqrt -/
def OvIn.den (x : OvIn) (i a b : Nat) : Val :=
  let pa := get3 x.sel i a a / get3 x.valid i a a
  let pb := get3 x.sel i b b / get3 x.valid i b b
  let pab := get3 x.sel i a b / get3 x.valid i a b
  (1 : Val) / x.df i a b * (pa * (1 - pa) + pb * (1 - pb) + (2 : Val) * pa * pb - (2 : Val) * pab)

def OvIn.t (x : OvIn) (i a b : Nat) : Out :=
  if a = b then .v (.fin 0)
  else .divSqrt (x.props.get i b - x.props.get i a) (x.den i a b)

/-- AS FOUND: a column against itself reports p = 0.0 (pinned by the library's test-suite; the
    two-sided p-value of t = 0 is 1 — recorded as a known finding).  The index sets are protected
    from it by the `b ≠ c` mask of `indicesOf` (repair F12). -/
def OvIn.p (x : OvIn) (i a b : Nat) : Out :=
  if a = b then .v (.fin 0)
  else .tTail2 (x.t i a b) (x.df i a b - 2)

end CrCube.Pairwise
