/-
  `_ColumnProportionsSmoothed.blocks` of a slice WITH insertions: the four blocks `_ColumnProportions`
  computes (wave-difference overrides included), of which `_base_values` and `_subtotal_rows` are passed
  through the smoother (matrix/measure.py).  Composition of Model/SubtotalMeasures and Model/Smoothing.
-/
import CrCube.Model.SubtotalMeasures
import CrCube.Model.Smoothing

namespace CrCube

/-- the block quadruple as the lists of rows the smoother works on -/
def Blocks.toSm (b : Blocks) : Smoothing.Blocks :=
  { base := b.bodyL, subCols := b.insColsL, subRows := b.insRowsL, inter := b.interL }

namespace Msr

/-- `_ColumnProportionsSmoothed.blocks` -/
def smoothedColumnProportions (s : Smoothing.Smoother) (m : MatCounts) (diffNans : Bool) (x : SubCtx) :
    Smoothing.Blocks :=
  Smoothing.smoothedColumnProportions s (columnProportions m diffNans x).toSm

end Msr
end CrCube
