/-
  FpEnv: the part of numpy's floating-point ENVIRONMENT that a true division can touch.

  `Val.div` is numpy's `/` "under errstate(ignore)": it always returns a value.  What real numpy does IN ADDITION is signal
  an event - `divide` for x / 0 with x ≠ 0, `invalid` for 0 / 0 and inf / inf (quiet NaN operands signal nothing) - and
  the event is handled by the policy in force: the caller's (`np.errstate` / `np.seterr`; or the warnings filter turning the
  default RuntimeWarning into an exception), overridden inside a `with np.errstate(e = "ignore", ...)` block for the events
  the block names.  The library wraps each of its divisions in such a block; this file models exactly that.
  No imports beyond Val (runs in the driver's world).
-/
import CrCube.Model.Val

namespace CrCube.FpEnv
open CrCube

/-- the numpy floating-point events a true division can signal -/
inductive Event where
  | divide
  | invalid
  deriving DecidableEq, Repr

/-- the event numpy signals for `x / y` (none for an ordinary division or a quiet-NaN operand) -/
def divEvent : Val → Val → Option Event
  | .fin a, .fin b => if b = 0 then (if a = 0 then some .invalid else some .divide) else none
  | .pinf, .pinf => some .invalid
  | .pinf, .ninf => some .invalid
  | .ninf, .pinf => some .invalid
  | .ninf, .ninf => some .invalid
  | _, _ => none

/-- a policy: which events become an exception (`raise`, or `warn` under a warnings filter `error`) -/
abbrev Policy := Event → Bool

/-- the events a `with np.errstate(...= "ignore")` block names -/
abbrev Guard := Event → Bool

def Guard.full : Guard := fun _ => true
def Guard.divideOnly : Guard := fun e => e == .divide
def Guard.invalidOnly : Guard := fun e => e == .invalid
def Guard.none : Guard := fun _ => false

/-- one division inside a guard block, run by a caller with the given policy:
    the value of `Val.div`, or the exception for an event that is neither shielded nor tolerated -/
def guardedDiv (g : Guard) (caller : Policy) (x y : Val) : Except Event Val :=
  match divEvent x y with
  | some e => if !g e && caller e then .error e else .ok (x / y)
  | none => .ok (x / y)

/-- an element-wise division of two arrays inside one guard block (the first offending cell raises) -/
def guardedDivs (g : Guard) (caller : Policy) : List (Val × Val) → Except Event (List Val)
  | [] => .ok []
  | (x, y) :: r =>
    match guardedDiv g caller x y with
    | .error e => .error e
    | .ok v =>
      match guardedDivs g caller r with
      | .error e => .error e
      | .ok vs => .ok (v :: vs)

end CrCube.FpEnv
