/-
  Model of `cr.cube.collator` (all five classes) and of the parts of `cr.cube.dimension`
  it depends on (`_Subtotal.anchor`, `_Subtotals._iter_valid_subtotal_dicts`,
  `_valid_subtotal_dicts_with_ids`, `_position_crosswalk`, `bogus_ids`, `insertion_ids`,
  `Dimension.hidden_idxs / prune / element_ids`, `Element.anchor / derived`).

  Plain data in, plain data out; no Mathlib.  Python's `sorted` on tuples is `List.mergeSort`
  with the lexicographic order of the tuple; `sys.maxsize` is `maxsize`.

  The model mirrors the code WITH three small repairs (see fixes/):
    F3  `SortByValueCollator._display_order` removes repeats (first mention wins);
    F5  `_Subtotals._position_crosswalk` normalises anchors like `_Subtotal.anchor`;
    F18 `PayloadOrderCollator._display_order` renders 'ins_N' from `dimension.subtotals`
        (the view-filtered list is used by `.payload_order` only).
  The un-repaired variants are kept as `…Unfixed` for the counterexample theorems.
-/
import CrCube.Model.Val

namespace CrCube.Collator

/-! ## ids, anchors, elements, subtotals -/

/-- element id: int (categories), str (subvariable alias, datetime value) or `None`
    (what the id shim writes for an id it cannot translate). -/
inductive Eid where
  | int (n : Int)
  | str (s : String)
  | null
  deriving DecidableEq, Repr, Inhabited

/-- `_Subtotal.anchor` after normalisation. -/
inductive Anchor where
  | top
  | bottom
  | elem (id : Int)
  deriving DecidableEq, Repr, Inhabited

/-- anchor as written in an insertion dict: `None`, an int, a numeric string ("3"),
    or some other string ("top", "TOP", "Bottom", "foo"). -/
inductive RawAnchor where
  | null
  | int (n : Int)
  | numStr (n : Int)
  | word (s : String)
  deriving DecidableEq, Repr, Inhabited

/-- `_Subtotal.anchor`.  `none` = the anchor is a non-numeric word other than top/bottom:
    the property returns the lower-cased word and `_insertion_position` then raises
    `ValueError` on `int(anchor)`. -/
def normAnchor (ids : List Eid) : RawAnchor → Option Anchor
  | .null => some .bottom
  | .int n => some (if ids.contains (.int n) then .elem n else .bottom)
  | .numStr n => some (if ids.contains (.int n) then .elem n else .bottom)
  | .word s =>
    let l := s.toLower
    if l == "top" then some .top else if l == "bottom" then some .bottom else none

/-- `Element.anchor` of a derived (MR insertion) element. -/
inductive DAnchor where
  | none
  | top
  | bottom
  | rel (alias : Eid) (before : Bool)     -- {"alias": …, "position": "before" | other}
  deriving DecidableEq, Repr, Inhabited

/-- a valid element: id, `derived` flag, `anchor` (only read when derived). -/
structure Elem where
  id : Eid
  derived : Bool := false
  danchor : DAnchor := .none
  deriving DecidableEq, Repr, Inhabited

/-- a `_Subtotal` as far as collation is concerned. -/
structure Sub where
  anchor : Anchor
  insId : Int
  deriving DecidableEq, Repr, Inhabited

/-- an item of a rendered order: base element offset, or insertion id ('ins_N'). -/
inductive Item where
  | el (i : Nat)
  | ins (id : Int)
  deriving DecidableEq, Repr, Inhabited

/-! ## `_Subtotals`: validity filter and id assignment -/

/-- an entry of an `insertions` list, reduced to what `_iter_valid_subtotal_dicts` reads. -/
structure RawIns where
  isDict : Bool := true
  isSubtotalFn : Bool := true          -- `function == "subtotal"`
  hide : Bool := false                 -- `hide is True`
  hasKeys : Bool := true               -- both "anchor" and "name" present
  positive : List Eid := []            -- `kwargs.positive or args`
  negative : List Eid := []            -- `kwargs.negative`
  anchor : RawAnchor := .null
  id : Option Int := none
  deriving Repr, Inhabited

/-- `_iter_valid_subtotal_dicts` gauntlet. -/
def RawIns.valid (ids : List Eid) (r : RawIns) : Bool :=
  r.isDict && r.isSubtotalFn && !r.hide && r.hasKeys
    && !(r.positive.isEmpty && r.negative.isEmpty)
    && (r.positive ++ r.negative).any (fun a => ids.contains a)

/-- the three classes of `_position_crosswalk`: 0 = first, 1 = after an element, 2 = last. -/
inductive XClass where
  | first
  | after (id : Int)
  | last
  deriving DecidableEq, Repr

/-- classification used by the repaired `_position_crosswalk` (F5): on the normalised
    anchor.  A word that is neither top nor bottom goes last (collation raises later). -/
def xclass (ids : List Eid) (a : RawAnchor) : XClass :=
  match normAnchor ids a with
  | some .top => .first
  | some .bottom => .last
  | some (.elem n) => .after n
  | none => .last

/-- classification of the code as it stands: raw `== "top"`, `== "bottom"`, `in element_ids`. -/
def xclassUnfixed (ids : List Eid) : RawAnchor → XClass
  | .word s => if s == "top" then .first else .last
  | .int n => if ids.contains (.int n) then .after n else .last
  | .numStr _ => .last
  | .null => .last

/-- `insertion_order` of `_position_crosswalk`: definition positions in payload display
    order (tops, then per element in payload order, then the rest). -/
def crosswalkOrder (cls : RawAnchor → XClass) (ids : List Eid) (anchors : List RawAnchor) : List Nat :=
  let idxd := anchors.zipIdx
  let first := idxd.filterMap (fun (a, i) => if cls a = .first then some i else none)
  let last := idxd.filterMap (fun (a, i) => if cls a = .last then some i else none)
  let mid := ids.flatMap (fun e =>
    match e with
    | .int n => idxd.filterMap (fun (a, i) => if cls a = .after n then some i else none)
    | _ => [])
  first ++ mid ++ last

/-- `{pos: idx + 1 for idx, pos in enumerate(insertion_order)}` looked up at `pos`
    (later entry wins, as in a dict comprehension). -/
def crosswalkId (order : List Nat) (pos : Nat) : Option Int :=
  (order.zipIdx.reverse.find? (fun (p, _) => p == pos)).map (fun (_, k) => (k : Int) + 1)

/-- `_valid_subtotal_dicts_with_ids` reduced to (anchor, id) pairs. `none` models the
    `KeyError` of a crosswalk miss (cannot happen when element ids are distinct). -/
def withIdsGen (cls : RawAnchor → XClass) (fromView : Bool) (ids : List Eid) (ins : List RawIns) :
    List (RawAnchor × Option Int) :=
  let v := ins.filter (RawIns.valid ids)
  if v.all (fun r => r.id.isSome) then v.map (fun r => (r.anchor, r.id))
  else if fromView then
    let order := crosswalkOrder cls ids (v.map (·.anchor))
    v.zipIdx.map (fun (r, i) => (r.anchor, match r.id with | some k => some k | none => crosswalkId order i))
  else
    v.zipIdx.map (fun (r, i) => (r.anchor, match r.id with | some k => some k | none => some ((i : Int) + 1)))

def withIds (fromView : Bool) (ids : List Eid) (ins : List RawIns) : List (RawAnchor × Option Int) :=
  withIdsGen (xclass ids) fromView ids ins

def withIdsUnfixed (fromView : Bool) (ids : List Eid) (ins : List RawIns) : List (RawAnchor × Option Int) :=
  withIdsGen (xclassUnfixed ids) fromView ids ins

/-- `_Subtotals` → collation view; `none` when an anchor word is unusable (the library
    raises `ValueError` at collation time) or an id is missing. -/
def mkSubs (ids : List Eid) (l : List (RawAnchor × Option Int)) : Option (List Sub) :=
  l.mapM (fun (a, i) => do
    let a' ← normAnchor ids a
    let i' ← i
    pure { anchor := a', insId := i' })

/-- `_Subtotals(insertion_dicts, valid_elements, from_view)` as the collators see it. -/
def subtotalsOf (fromView : Bool) (ids : List Eid) (ins : List RawIns) : Option (List Sub) :=
  mkSubs ids (withIds fromView ids ins)

/-! ## key triples and `sorted` -/

abbrev Key := Int × Int × Int

/-- `sys.maxsize` on 64-bit CPython. -/
def maxsize : Int := 9223372036854775807

/-- Python tuple `<=` on int triples. -/
def keyLe (a b : Key) : Bool :=
  a.1 < b.1 || (a.1 == b.1 && (a.2.1 < b.2.1 || (a.2.1 == b.2.1 && a.2.2 ≤ b.2.2)))

/-- `sorted(orderings)` -/
def sortKeys (l : List Key) : List Key := l.mergeSort keyLe

/-- `(i - n for i in range(n))` -/
def negIdxs (n : Nat) : List Int := (List.range n).map (fun (i : Nat) => (i : Int) - (n : Int))

/-! ## `_BaseCollator` -/

/-- `_hidden_idxs`: explicit hides ∪ (empties if prune). -/
def hiddenIdxs (prune : Bool) (empties hidden : List Nat) : List Nat :=
  (if prune then empties else []) ++ hidden

def isHidden (hid : List Nat) (idx : Int) : Bool :=
  decide (0 ≤ idx) && hid.contains idx.toNat

/-- `_order_mapping[idx]` (`none` = KeyError). -/
def orderMapping (bogus : List Int) (idx : Int) : Option Int :=
  let k := idx + (bogus.length : Int)
  if 0 ≤ k ∧ idx < 0 then bogus[k.toNat]? else none

/-- render a signed order in the BOGUS_IDS format. -/
def render (bogus : List Int) (order : List Int) : Option (List Item) :=
  order.mapM (fun idx => if idx < 0 then (orderMapping bogus idx).map Item.ins else some (Item.el idx.toNat))

/-- the signed format as items (for uniform JSON output) – never used by theorems. -/
def bogusIds (subs : List Sub) : List Int := subs.map (·.insId)

/-! ## `_BaseAnchoredCollator` -/

/-- `(position, idx, element_id)` -/
abbrev Descr := Nat × Nat × Eid

/-- `_element_positions_by_id[id]` (dict comprehension: the later descriptor wins). -/
def positionOf (descr : List Descr) (id : Eid) : Option Nat :=
  (descr.reverse.find? (fun d => d.2.2 == id)).map (·.1)

/-- `_insertion_position` -/
def insertionPosition (descr : List Descr) (s : Sub) : Int × Int :=
  match s.anchor with
  | .top => (-1, 0)
  | .bottom => (maxsize, 0)
  | .elem n =>
    match positionOf descr (.int n) with
    | some p => ((p : Int), 1)
    | none => (maxsize, 0)

/-- `_insertion_orderings` -/
def insertionOrderings (descr : List Descr) (subs : List Sub) : List Key :=
  (subs.zip (negIdxs subs.length)).map (fun (s, neg) =>
    let pr := insertionPosition descr s
    (pr.1, pr.2, neg))

/-- `_base_element_orderings` -/
def baseOrderings (descr : List Descr) : List Key :=
  descr.map (fun d => ((d.1 : Int), 0, (d.2.1 : Int)))

/-- signed `_display_order` of an anchored collator. -/
def anchoredOrder (descr : List Descr) (derived : List Key) (subs : List Sub) (hid : List Nat) : List Int :=
  ((sortKeys (baseOrderings descr ++ insertionOrderings descr subs ++ derived)).map (·.2.2)).filter
    (fun idx => !isHidden hid idx)

/-! ## `PayloadOrderCollator` -/

/-- `_element_order_descriptors` -/
def payloadDescr (ids : List Eid) : List Descr :=
  ids.zipIdx.map (fun (id, i) => (i, i, id))

structure Dim where
  elems : List Elem            -- `valid_elements`
  subs : List Sub              -- `dimension.subtotals`
  viewSubs : List Sub := []    -- `dimension.subtotals_in_payload_order`
  hidden : List Nat := []      -- `dimension.hidden_idxs`
  prune : Bool := false
  deriving Repr, Inhabited

def Dim.ids (d : Dim) : List Eid := d.elems.map (·.id)

def Dim.hid (d : Dim) (empties : List Nat) : List Nat := hiddenIdxs d.prune empties d.hidden

/-- `PayloadOrderCollator.display_order(dimension, empty_idxs, SIGNED_INDEXES)` -/
def payloadOrderSigned (d : Dim) (empties : List Nat) : List Int :=
  anchoredOrder (payloadDescr d.ids) [] d.subs (d.hid empties)

/-- `… BOGUS_IDS` (repaired, F18: the mapping is that of `dimension.subtotals`). -/
def payloadOrderBogus (d : Dim) (empties : List Nat) : Option (List Item) :=
  render (bogusIds d.subs) (payloadOrderSigned d empties)

/-- `PayloadOrderCollator._subtotals_bogus_ids` as it stands: view ids having a reference
    in the transforms. -/
def viewBogusIds (d : Dim) : List Int :=
  (bogusIds d.viewSubs).filter (fun i => (bogusIds d.subs).contains i)

/-- un-repaired BOGUS_IDS rendering of the payload-order collator. -/
def payloadOrderBogusUnfixed (d : Dim) (empties : List Nat) : Option (List Item) :=
  render (viewBogusIds d) (payloadOrderSigned d empties)

/-- `PayloadOrderCollator.payload_order`: base elements in payload order with the VIEW
    insertions (those still referenced by the transforms) at their anchors, 'ins_N' format. -/
def payloadOrderProp (d : Dim) (empties : List Nat) : Option (List Item) :=
  let vs := d.viewSubs.filter (fun s => (bogusIds d.subs).contains s.insId)
  render (bogusIds vs) (anchoredOrder (payloadDescr d.ids) [] vs (d.hid empties))

/-! ## `ExplicitOrderCollator` -/

/-- OrderedDict insert: update in place, or append. -/
def odInsert (k : Eid) (v : Nat) : List (Eid × Nat) → List (Eid × Nat)
  | [] => [(k, v)]
  | (k', v') :: t => if k' = k then (k', v) :: t else (k', v') :: odInsert k v t

/-- `OrderedDict((element_id, idx) for idx, element in enumerate(elements) if not derived)` -/
def remaining0 (elems : List Elem) : List (Eid × Nat) :=
  (elems.zipIdx.filter (fun (e, _) => !e.derived)).foldl (fun acc (e, i) => odInsert e.id i acc) []

/-- the first loop of `iter_element_order_descriptors`: pops listed ids. -/
def popListed : List Eid → List (Eid × Nat) → List (Nat × Eid) × List (Eid × Nat)
  | [], rem => ([], rem)
  | x :: xs, rem =>
    match rem.find? (fun p => p.1 == x) with
    | some p =>
      let r := popListed xs (rem.filter (fun q => !(q.1 == x)))
      ((p.2, x) :: r.1, r.2)
    | none => popListed xs rem

/-- `ExplicitOrderCollator._element_order_descriptors` -/
def explicitDescr (elems : List Elem) (explicit : List Eid) : List Descr :=
  let r := popListed explicit (remaining0 elems)
  (r.1 ++ r.2.map (fun p => (p.2, p.1))).zipIdx.map (fun (p, pos) => (pos, p.1, p.2))

/-- `_derived_element_position` -/
def derivedPosition (descr : List Descr) (a : DAnchor) : Int × Int :=
  match a with
  | .none => (maxsize, 0)
  | .top => (-1, 0)
  | .bottom => (maxsize, 0)
  | .rel alias before =>
    match positionOf descr alias with
    | some p => ((p : Int), if before then -1 else 1)
    | none => (maxsize, 0)

/-- `_elements.get_by_id(element_id).anchor` (dict: the later element with that id wins). -/
def anchorById (elems : List Elem) (id : Eid) : DAnchor :=
  match elems.reverse.find? (fun e => e.id == id) with
  | some e => if e.derived then e.danchor else .none
  | none => .none

/-- `ExplicitOrderCollator._derived_element_orderings` -/
def derivedOrderings (elems : List Elem) (descr : List Descr) : List Key :=
  elems.zipIdx.filterMap (fun (e, i) =>
    if e.derived then
      let pr := derivedPosition descr (anchorById elems e.id)
      some (pr.1, pr.2, (i : Int))
    else none)

/-- `ExplicitOrderCollator.display_order(dimension, empty_idxs, SIGNED_INDEXES)` -/
def explicitOrderSigned (d : Dim) (explicit : List Eid) (empties : List Nat) : List Int :=
  let descr := explicitDescr d.elems explicit
  anchoredOrder descr (derivedOrderings d.elems descr) d.subs (d.hid empties)

def explicitOrderBogus (d : Dim) (explicit : List Eid) (empties : List Nat) : Option (List Item) :=
  render (bogusIds d.subs) (explicitOrderSigned d explicit empties)

/-! ## `SortByValueCollator` -/

/-- what the collator needs of a sort value: numpy-NaN test and a `<=` that is total on the
    non-NaN values (floats via `Val`, labels via `String`). -/
structure ValOps (α : Type) where
  isNan : α → Bool
  le : α → α → Bool

def valOps : ValOps Val := { isNan := Val.isNan, le := Val.le }
def strOps : ValOps String := { isNan := fun _ => false, le := fun a b => decide (a ≤ b) }

/-- Python `(val, idx) <= (val', idx')` for tuples (first differing component decides). -/
def tupLe (ops : ValOps α) (a b : α × Int) : Bool :=
  if ops.le a.1 b.1 && ops.le b.1 a.1 then decide (a.2 ≤ b.2) else ops.le a.1 b.1

/-- `tuple(idx for _, idx in sorted(keys, reverse=descending) + nans)` -/
def sortIdxs (ops : ValOps α) (desc : Bool) (pairs : List (α × Int)) : List Int :=
  let keys := pairs.filter (fun p => !ops.isNan p.1)
  let nans := pairs.filter (fun p => ops.isNan p.1)
  let s := keys.mergeSort (tupLe ops)
  ((if desc then s.reverse else s) ++ nans).map (·.2)

/-- `_iter_fixed_idxs`: ids → element offsets, unknown ids skipped
    (`{id: idx}` dict comprehension: the later element wins). -/
def fixedIdxs (ids : List Eid) (fixed : List Eid) : List Int :=
  fixed.filterMap (fun f => (ids.zipIdx.reverse.find? (fun p => p.1 == f)).map (fun p => (p.2 : Int)))

/-- `_body_idxs` -/
def bodyIdxs (ops : ValOps α) (desc : Bool) (vals : List α) (fixed : List Int) : List Int :=
  sortIdxs ops desc
    ((vals.zipIdx.map (fun (v, i) => (v, (i : Int)))).filter (fun p => !fixed.contains p.2))

/-- `_subtotal_idxs` -/
def subtotalIdxs (ops : ValOps α) (desc : Bool) (svals : List α) : List Int :=
  sortIdxs ops desc (svals.zip (negIdxs svals.length))

/-- first mention wins (`dict.fromkeys`) -/
def dedupAux : List Int → List Int → List Int
  | _, [] => []
  | seen, x :: xs => if seen.contains x then dedupAux seen xs else x :: dedupAux (x :: seen) xs

def dedup (l : List Int) : List Int := dedupAux [] l

/-- the five groups of `SortByValueCollator._display_order`, before the hidden filter. -/
def sortGroups (ops : ValOps α) (ids : List Eid) (top bottom : List Eid) (desc : Bool)
    (vals svals : List α) : List Int :=
  let t := fixedIdxs ids top
  let b := fixedIdxs ids bottom
  let subs := subtotalIdxs ops desc svals
  (if desc then subs else []) ++ t ++ bodyIdxs ops desc vals (t ++ b) ++ b ++ (if desc then [] else subs)

/-- `SortByValueCollator.display_order(…, SIGNED_INDEXES)` as it stands (repeats kept). -/
def sortOrderSignedUnfixed (ops : ValOps α) (ids : List Eid) (hid : List Nat) (top bottom : List Eid)
    (desc : Bool) (vals svals : List α) : List Int :=
  (sortGroups ops ids top bottom desc vals svals).filter (fun idx => !isHidden hid idx)

/-- repaired (F3): first mention wins. -/
def sortOrderSigned (ops : ValOps α) (ids : List Eid) (hid : List Nat) (top bottom : List Eid)
    (desc : Bool) (vals svals : List α) : List Int :=
  dedup (sortOrderSignedUnfixed ops ids hid top bottom desc vals svals)

def sortOrderBogus (ops : ValOps α) (d : Dim) (empties : List Nat) (top bottom : List Eid)
    (desc : Bool) (vals svals : List α) : Option (List Item) :=
  render (bogusIds d.subs) (sortOrderSigned ops d.ids (d.hid empties) top bottom desc vals svals)

/-! ## order helpers of `matrix/assembler.py` and `stripe/assembler.py` -/

/-- `_OrderSpec.collation_method` -/
inductive Collation where
  | explicit | label | marginal | opposingElement | opposingInsertion | payload | univariate
  deriving DecidableEq, Repr, Inhabited

def collationOf (kw : Option String) : Collation :=
  match kw with
  | some "explicit" => .explicit
  | some "label" => .label
  | some "marginal" => .marginal
  | some "opposing_element" => .opposingElement
  | some "opposing_insertion" => .opposingInsertion
  | some "univariate_measure" => .univariate
  | _ => .payload           -- missing, "payload_order", or not a COLLATION_METHOD value

/-- which helper family serves a collation method on each axis kind. -/
inductive Axis where
  | sliceRows | sliceCols | strand
  deriving DecidableEq, Repr

/-- does this (axis, collation) sort by value?  (else: explicit / payload anchored order) -/
def sortsByValue : Axis → Collation → Bool
  | .sliceRows, .label | .sliceRows, .marginal | .sliceRows, .opposingElement
  | .sliceRows, .opposingInsertion => true
  | .sliceCols, .label | .sliceCols, .opposingElement | .sliceCols, .opposingInsertion => true
  | .strand, .label | .strand, .univariate => true
  | _, _ => false

/-- `_measure` tables: keyword → property of the measures object the sort VALUE is read from.
    (matrix: keyword is a MEASURE value; other MEASURE values raise NotImplementedError). -/
def matrixMeasureProp : String → Option String
  | "col_base_unweighted" => some "column_unweighted_bases"
  | "col_base_weighted" => some "column_weighted_bases"
  | "col_index" => some "column_index"
  | "col_percent" => some "column_proportions"
  | "col_percent_moe" => some "column_std_err"
  | "col_share_sum" => some "column_share_sum"
  | "col_std_dev" => some "column_proportion_variances"
  | "col_std_err" => some "column_std_err"
  | "mean" => some "means"
  | "population" => some "population_proportions"
  | "population_moe" => some "population_std_err"
  | "p_value" => some "pvalues"
  | "row_base_unweighted" => some "row_unweighted_bases"
  | "row_base_weighted" => some "row_weighted_bases"
  | "row_percent" => some "row_proportions"
  | "row_percent_moe" => some "row_std_err"
  | "row_share_sum" => some "row_share_sum"
  | "row_std_dev" => some "row_proportion_variances"
  | "row_std_err" => some "row_std_err"
  | "stddev" => some "stddev"
  | "sum" => some "sums"
  | "table_percent" => some "table_proportions"
  | "table_percent_moe" => some "table_std_err"
  | "table_std_dev" => some "table_proportion_variances"
  | "table_std_err" => some "table_std_err"
  | "table_base_unweighted" => some "table_unweighted_bases"
  | "table_base_weighted" => some "table_weighted_bases"
  | "total_share_sum" => some "total_share_sum"
  | "count_unweighted" => some "unweighted_counts"
  | "valid_count_unweighted" => some "unweighted_counts"
  | "count_weighted" => some "weighted_counts"
  | "valid_count_weighted" => some "weighted_counts"
  | "z_score" => some "zscores"
  | _ => none

def stripeMeasureProp : String → Option String
  | "base_unweighted" => some "unweighted_bases"
  | "base_weighted" => some "weighted_bases"
  | "count_unweighted" => some "unweighted_counts"
  | "count_weighted" => some "weighted_counts"
  | "mean" => some "means"
  | "percent" => some "table_proportions"
  | "percent_moe" => some "table_proportion_stderrs"
  | "percent_stddev" => some "table_proportion_stddevs"
  | "percent_stderr" => some "table_proportion_stderrs"
  | "population" => some "population_proportions"
  | "population_moe" => some "population_proportion_stderrs"
  | "share_sum" => some "share_sum"
  | "sum" => some "sums"
  | _ => none

def marginalProp : String → Option String
  | "unweighted_base" => some "rows_unweighted_base"
  | "weighted_base" => some "rows_weighted_base"
  | "table_proportion" => some "rows_table_proportion"
  | "scale_mean" => some "rows_scale_mean"
  | "scale_mean_stddev" => some "rows_scale_mean_stddev"
  | "scale_mean_stderr" => some "rows_scale_mean_stderr"
  | "scale_median" => some "rows_scale_median"
  | _ => none

/-- `_BaseSortRowsByValueHelper._order` & twins: `vals = none` models the `ValueError`
    raised while resolving the sort key (unknown element / insertion id → `tuple.index`,
    keyword not in the enum, measure absent from the response). -/
def sortByValueOrFallback (ops : ValOps α) (d : Dim) (empties : List Nat) (top bottom : List Eid)
    (desc : Bool) (vals : Option (List α × List α)) : List Int :=
  match vals with
  | some (v, sv) => sortOrderSigned ops d.ids (d.hid empties) top bottom desc v sv
  | none => payloadOrderSigned d empties

/-- `_BaseOrderHelper._display_order` (matrix): drop the insertions when every opposing
    base vector is pruned. -/
def pruneSubtotals (oppPrune : Bool) (nOppEmpty nOpp : Nat) : Bool :=
  if oppPrune then nOppEmpty == nOpp else false

def helperDisplayOrder (pruneSubs : Bool) (order : List Int) : List Int :=
  if pruneSubs then order.filter (fun idx => decide (0 ≤ idx)) else order

/-! ## one entry point for the three collators (reused by C05 / C09) -/

/-- which collator an order helper ends up using, with its inputs. -/
inductive Collate (α : Type) where
  | payload
  | explicit (ex : List Eid)
  | sortval (ops : ValOps α) (top bottom : List Eid) (desc : Bool) (vals svals : List α)

/-- signed display order of a dimension under any of the three collators. -/
def displayOrder {α : Type} (d : Dim) (empties : List Nat) : Collate α → List Int
  | .payload => payloadOrderSigned d empties
  | .explicit ex => explicitOrderSigned d ex empties
  | .sortval ops top bottom desc vals svals =>
    sortOrderSigned ops d.ids (d.hid empties) top bottom desc vals svals

/-- number of subtotal entries an order of that kind carries. -/
def Collate.nSubs {α : Type} (d : Dim) : Collate α → Nat
  | .payload => d.subs.length
  | .explicit _ => d.subs.length
  | .sortval _ _ _ _ _ svals => svals.length

/-- side condition: one sort value per valid element (always true of the order helpers). -/
def Collate.wellFormed {α : Type} (d : Dim) : Collate α → Prop
  | .sortval _ _ _ _ vals _ => vals.length = d.elems.length
  | _ => True

end CrCube.Collator
