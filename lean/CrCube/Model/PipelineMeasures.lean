/-
  The SYMBOLIC and display-level measures of the end-to-end pipeline, composed from the
  per-property cell-level models on the pipeline's own primitives (`Model/Pipeline.lean`):

    C11 `Model/Variance`   row / column / table std-dev, std-err, MoE  (`VarCell` on `varCellAt`),
                           strand std-devs / std-errs / MoEs           (`StrandCell` on `strandCellAt`)
    C12 `Model/Zscore`     z-scores and p-values with the defective-table and per-block guards
    C17 `Model/Population` population proportions (difference override), counts, std-err, MoE
                           through `Population.SliceIn` / `StrandIn` fed with ASSEMBLED matrices
    C14 `Model/Scale`      rows / columns scale mean, median, std-dev, std-err; strand scalars
    margin proportions (1-D case)

  The Val-valued measures (variances, column index, sums / means / stddev / medians, share of
  sum, …) are `SliceOut.mat` of `Model/Pipeline.lean`; for the Out-valued ones `SliceOut.mat`
  holds the sort surrogate and `outKey` maps the symbolic value onto it
  (`C05.outKey_sliceOutCell`).  No Mathlib; executable.
-/
import CrCube.Model.Pipeline
import CrCube.Model.Population

namespace CrCube.Pipeline
open CrCube CrCube.Collator

/-- the exact order-preserving surrogate of a symbolic value -/
def outKey : Out → Val
  | .v x => x
  | .sqrt x => sqrtKey x
  | .divSqrt n d => divSqrtKey n d
  | .scale k o => .fin k * outKey o
  | .normTail2 z => normTailKey (outKey z)
  | .tTail2 _ _ => .nan
  | .none_ => .nan

/-- the Out-valued public matrices of a slice -/
inductive OKey where
  | stdDev (d : Dir) | stdErr (d : Dir) | moe (d : Dir)
  | zscores | pvals | popStdErr
  deriving DecidableEq, Repr, Inhabited

def OKey.all : List OKey :=
  [.stdDev .row, .stdDev .col, .stdDev .table, .stdErr .row, .stdErr .col, .stdErr .table,
   .moe .row, .moe .col, .moe .table, .zscores, .pvals, .popStdErr]

/-- z-score of a cell: NaN under the block guard, else the C12 cell formula -/
def zOutAt (m : MatCounts) (x : SubCtx) (g : ZGuards) (P Q : Pos) : Out :=
  if g.at P Q then .v .nan else (zCellAt m x P Q).z

/-- a measure given cell by cell (a structure, so that what is computed once per measure — the
    z-score guards — is not recomputed per cell) -/
structure OCells where
  cell : Pos → Pos → Out

/-- **the symbolic cells of every Out-valued measure, on the pipeline's primitives** -/
def sliceOutCells (c : CubeData) (rows cols : RDim) (key : OKey) : OCells :=
  let x := sliceCtx rows cols
  let w := c.w
  match key with
  | .stdDev d => ⟨fun P Q => (varCellAt w x d P Q).stdDev⟩
  | .stdErr d => ⟨fun P Q => (varCellAt w x d P Q).stdErr⟩
  | .moe d => ⟨fun P Q => (varCellAt w x d P Q).moe⟩
  | .zscores => let g := zGuards w x; ⟨fun P Q => zOutAt w x g P Q⟩
  | .pvals => let g := zGuards w x; ⟨fun P Q => .normTail2 (zOutAt w x g P Q)⟩
  | .popStdErr => ⟨fun P Q => (varCellAt w x (popDir rows.catDate cols.catDate) P Q).stdErr⟩

def sliceOutCell (c : CubeData) (rows cols : RDim) (key : OKey) (P Q : Pos) : Out :=
  (sliceOutCells c rows cols key).cell P Q

/-- the surrogate key whose blocks order a sort by that measure -/
def OKey.sortKey (rows cols : RDim) : OKey → Option MKey
  | .stdErr d => some (.stdErr d)
  | .moe d => some (.stdErr d)          -- `*_percent_moe` keywords read the std-err blocks
  | .zscores => some .zscores
  | .pvals => some .pvalues
  | .popStdErr => some .popStdErr
  | .stdDev _ => none                   -- `*_std_dev` keywords read the VARIANCE blocks

/-- `np.block(blocks)[np.ix_(row_order, col_order)]` for a measure given cell by cell -/
def assembleCells {α : Type} (nr nrs nc ncs : Nat) (f : Pos → Pos → α) (ro co : List Int) :
    List (List α) :=
  ro.map fun x => co.map fun y => f (posOf nr nrs x) (posOf nc ncs y)

def getD2 {α : Type} (m : List (List α)) (d : α) (i j : Nat) : α := (m.getD i []).getD j d

/-- `np.hstack(blocks)[order]` for a vector of statistics -/
def takeOrder {α : Type} (xs : List α) (d : α) (order : List Int) : List α :=
  order.map fun si => xs.getD (wrapIdx xs.length si) d

def nanStats : Scale.VecStats :=
  { mean := .nan, median := .nan, medianOld := .nan, stddev := .none_, stderr := .none_ }

/-- `_MarginTableProportion.blocks` (ROWS), as values: Σ over the columns of the weighted counts
    blocks over the rows table base; `none` = undefined (columns dimension is an array) -/
def rowsTableProportion (c : CubeData) (rows cols : RDim) : Option (List Val) :=
  (rowMarginalKeys c rows cols .tableProp).map fun p => p.1 ++ p.2

/-- COLUMNS orientation -/
def colsTableProportion (c : CubeData) (rows cols : RDim) : Option (List Val) :=
  if rows.kind == .cat then
    match c.w.columnsTableBase with
    | some tb =>
      let b := sliceBlocks c rows cols .countsW
      some (tab1 b.nc (fun j => vsum b.nr (fun i => b.body i j) / tb j)
            ++ tab1 b.ncs (fun l => vsum b.nr (fun i => b.insCols i l) / tb 0))
    | none => none
  else none

/-- everything of a slice beyond `SliceOut` -/
structure SliceOutX where
  core : SliceOut
  omat : OKey → List (List Out)
  /-- `_Slice.population_proportions` (difference rows / columns overwritten with NaN) -/
  popProps : List (List Val)
  popCounts : List (List Val)
  popMoe : List (List Out)
  /-- `rows_scale_*` / `columns_scale_*` in display order; `none` = the property is None -/
  rowsScale : Option (List Scale.VecStats)
  colsScale : Option (List Scale.VecStats)
  rowsStderrDefined : Bool
  colsStderrDefined : Bool
  /-- `rows_margin_proportion` / `columns_margin_proportion` when 1-D -/
  rowsMarginProp : Option (List Val)
  colsMarginProp : Option (List Val)

/-- the inputs of `Model/Population`: the assembled proportion and std-err matrices -/
def popSliceIn (rows cols : RDim) (t : SliceOut) (omat : OKey → List (List Out)) : Population.SliceIn :=
  { rowsCatDate := rows.catDate, colsCatDate := cols.catDate
    rowProps := getD2 (t.mat .rowProps) .nan
    colProps := getD2 (t.mat .colProps) .nan
    tableProps := getD2 (t.mat .tableProps) .nan
    rowSE := getD2 (omat (.stdErr .row)) (.v .nan)
    colSE := getD2 (omat (.stdErr .col)) (.v .nan)
    tableSE := getD2 (omat (.stdErr .table)) (.v .nan)
    diffRows := t.diffRowIdxs, diffCols := t.diffColIdxs }

def assembleSliceX (c : CubeData) (rows cols : RDim) (population fraction : Val) (ro co : List Int) :
    SliceOutX :=
  let t := assembleSlice c rows cols ro co
  let nr := c.w.nrows
  let nc := c.w.ncols
  let nrs := rows.subtotals.length
  let ncs := cols.subtotals.length
  let omat := fun key => assembleCells nr nrs nc ncs (sliceOutCells c rows cols key).cell ro co
  let pin := popSliceIn rows cols t omat
  { core := t
    omat := omat
    popProps := tab2 ro.length co.length pin.popProps
    popCounts := tab2 ro.length co.length (pin.popCounts population fraction)
    popMoe := tab2 ro.length co.length (pin.popMoe population fraction)
    rowsScale :=
      if Scale.isDefined cols.numVals then some (takeOrder (rowScaleVectors c rows cols) nanStats ro)
      else none
    colsScale :=
      if Scale.isDefined rows.numVals then some (takeOrder (colScaleVectors c rows cols) nanStats co)
      else none
    rowsStderrDefined := Scale.isDefined cols.numVals && c.w.rowsBase.isSome
    colsStderrDefined := Scale.isDefined rows.numVals && c.w.columnsBase.isSome
    rowsMarginProp := (rowsTableProportion c rows cols).map (fun l => takeOrder l .nan ro)
    colsMarginProp := (colsTableProportion c rows cols).map (fun l => takeOrder l .nan co) }

/-- **the full pipeline on resolved dimensions** -/
def runSliceX (c : CubeData) (rows cols : RDim) (population fraction : Val) : SliceOutX :=
  assembleSliceX c rows cols population fraction (sliceRowOrder c rows cols) (sliceColOrder c rows cols)

def slicePipelineX (c : CubeData) (rows cols : TDim) (population fraction : Val) : Option SliceOutX :=
  match rows.resolve, cols.resolve with
  | some r, some cl => some (runSliceX c r cl population fraction)
  | _, _ => none

/-! ## strand -/

inductive OSKey where
  | stddevs | stderrs | moes | popStderrs
  deriving DecidableEq, Repr, Inhabited

def OSKey.all : List OSKey := [.stddevs, .stderrs, .moes, .popStderrs]

/-- the symbolic strand cells (C11 `StrandCell` on `strandCellAt`; stripe
    `_PopulationProportionStderrs`: zeros on a CAT_DATE dimension) -/
def strandOutCell (c : StrandData) (d : RDim) : OSKey → Pos → Out
  | .stddevs => fun P => (strandCellAt c.w d.subtotals d.catDate P).stdDev
  | .stderrs => fun P => (strandCellAt c.w d.subtotals d.catDate P).stdErr
  | .moes => fun P => (strandCellAt c.w d.subtotals d.catDate P).moe
  | .popStderrs => fun P =>
    if d.catDate then .v (.fin 0) else (strandCellAt c.w d.subtotals d.catDate P).stdErr

structure StrandOutX where
  core : StrandOut
  ovec : OSKey → List Out
  popProps : List Val
  popCounts : List Val
  popMoe : List Out
  scale : Scale.StrandStats

def assembleStrandX (c : StrandData) (d : RDim) (population fraction : Val) (ro : List Int) : StrandOutX :=
  let t := assembleStrand c d ro
  let n := c.w.n
  let ns := d.subtotals.length
  let ovec := fun key => ro.map fun x => strandOutCell c d key (posOf n ns x)
  -- `Population.StrandIn` takes the assembled table proportions / std-errs and applies the
  -- CAT_DATE rule itself
  let pin : Population.StrandIn :=
    { rowsCatDate := d.catDate
      tableProps := fun i => (t.vec .tableProps).getD i .nan
      tableSE := fun i => (ovec .stderrs).getD i (.v .nan)
      diffRows := t.diffRowIdxs }
  { core := t
    ovec := ovec
    popProps := tab1 ro.length pin.popProps
    popCounts := tab1 ro.length (pin.popCounts population fraction)
    popMoe := tab1 ro.length (pin.popMoe population fraction)
    scale := Scale.strandStats d.numVals (tab1 c.w.n c.w.counts) }

def runStrandX (c : StrandData) (d : RDim) (population fraction : Val) : StrandOutX :=
  assembleStrandX c d population fraction (strandOrder c d)

end CrCube.Pipeline
