/-
  C18 state machine: caller-owned argument objects + per-object lazy caches.

  * `cr.cube.util.lazyproperty`: value cached in the INSTANCE `__dict__` after the first read,
    except `None`, which is recomputed on every read.
  * `Cube.partitions` → `CubePartition.factory(cube, slice_idx, transforms=self._transforms_dict …)`:
    every partition gets the SAME transforms dict object; `_Slice._dimensions` builds fresh
    `Dimension` objects (`apply_transforms`) whose `_element_id_shim` rewrites the caller's
    dimension dict and transforms dict IN PLACE the first time the dimension is looked at.
  * further `Cube`s may be constructed on the same response / transforms objects.
  * `CubeSet._cubes`: `augment_response` / `inflate` rewrite the caller's responses in place,
    each behind a guard that is false afterwards.
  * `Cube._cube_response`: JSON text / dict / `{"value": …}` envelope.

  No Mathlib.  Executable.
-/
import CrCube.Model.Shim

namespace CrCube.Lazy
open CrCube.Shim

/-- one of the two dimensions of a partition with its transforms dict (both caller-owned) -/
structure Side where
  dim : Dim
  xf : DimXf
  isArray : Bool        -- `dimension_type in DT.SHIMMED_TYPES` (array kinds; others are left alone)
  deriving DecidableEq, Repr, Inhabited

/-- the in-place effect of looking at a `Dimension` for the first time -/
def shimSide (s : Side) : Side :=
  if s.isArray then { s with dim := shimDim s.dim, xf := shimXf s.dim s.xf } else s

/-- the argument objects the caller handed in (response dimension dicts, transforms dict) -/
structure Caller where
  rows : Side
  cols : Side
  deriving DecidableEq, Repr, Inhabited

def shimCaller (c : Caller) : Caller := { rows := shimSide c.rows, cols := shimSide c.cols }

/-- a partition object: which of its `Dimension`s have run their shim, and its `__dict__` cache -/
structure Part (V : Type) where
  builtRows : Bool := false
  builtCols : Bool := false
  cache : List (Nat × V) := []

structure St (V : Type) where
  caller : Caller
  cubes : List (List (Part V))

inductive Op where
  | newCube                      -- `Cube(response, transforms=transforms)` on the SAME objects
  | read (c k p : Nat)           -- read property `p` of partition `k` of cube `c`
  deriving DecidableEq, Repr

def init {V : Type} (c : Caller) : St V := { caller := c, cubes := [] }

def cacheGet {V : Type} (p : Nat) : List (Nat × V) → Option V
  | [] => none
  | (q, v) :: l => if q = p then some v else cacheGet p l

section machine
variable {V : Type}
-- `eval p k caller`: the analysis code of property `p` of partition `k`, run over the
-- caller's dicts as they are at that moment
variable (eval : Nat → Nat → Caller → V)
-- which dimensions property `p` looks at (rows, columns)
variable (needs : Nat → Bool × Bool)
variable (isNone : V → Bool)

def ensure (need built : Bool) (s : Side) : Side := if need && !built then shimSide s else s

/-- `lazyproperty.__get__` on a partition -/
def readPart (k p : Nat) (caller : Caller) (part : Part V) : V × Caller × Part V :=
  match cacheGet p part.cache with
  | some v => (v, caller, part)
  | none =>
    let nd := needs p
    let caller' : Caller := { rows := ensure nd.1 part.builtRows caller.rows,
                              cols := ensure nd.2 part.builtCols caller.cols }
    let v := eval p k caller'
    (v, caller', { builtRows := part.builtRows || nd.1, builtCols := part.builtCols || nd.2,
                   cache := if isNone v then part.cache else (p, v) :: part.cache })

def step (nparts : Nat) (st : St V) : Op → Option V × St V
  | .newCube => (none, { st with cubes := st.cubes ++ [List.replicate nparts {}] })
  | .read c k p =>
    match st.cubes[c]? with
    | none => (none, st)
    | some parts =>
      match parts[k]? with
      | none => (none, st)
      | some part =>
        let r := readPart eval needs isNone k p st.caller part
        (some r.1, { caller := r.2.1, cubes := st.cubes.set c (parts.set k r.2.2) })

/-- run a history; one output per op (`none` for constructions and reads of objects that do not exist) -/
def run (nparts : Nat) : List Op → St V → List (Option V) × St V
  | [], st => ([], st)
  | o :: os, st =>
    let r := step eval needs isNone nparts st o
    let rest := run nparts os r.2
    (r.1 :: rest.1, rest.2)

/-- a fresh evaluation on pristine arguments -/
def fresh (pristine : Caller) (p k : Nat) : V := eval p k (shimCaller pristine)

end machine

/-! ## `CubeSet._cubes`: `augment_response` and `inflate` on caller-owned responses -/

/-- as much of a cube response as the two rewrites look at -/
structure Resp where
  dims : List String          -- names of the dimension dicts, in order
  hasNumArray : Bool          -- `_numeric_array_dimension` exists (then `inflate` inserts into a copy)
  counts : List Int           -- `result.counts`
  elems0 : List String        -- `dimensions[0].type.elements`, as opaque tags
  singleCol : Bool            -- `is_single_col_cube`
  deriving DecidableEq, Repr, Inhabited

def Resp.ndim (r : Resp) : Nat := r.dims.length + (if r.hasNumArray then 1 else 0)

/-- `Cube.inflate`: `dimensions.insert(0, rows_dimension)` — on the response's own list unless a
    numeric-array dimension makes `dimensions` a new list -/
def inflate (r : Resp) : Resp := if r.hasNumArray then r else { r with dims := "rows" :: r.dims }

/-- `Cube.augment_response(summary)`: guarded by a length comparison that is false afterwards -/
def augment (summary r : Resp) (scatter : List Int) : Resp :=
  if r.counts.length ≠ summary.counts.length then
    { r with elems0 := summary.elems0,
             counts := (scatter ++ List.replicate summary.counts.length 0).take summary.counts.length }
  else r

def isMulti (rs : List Resp) : Bool := rs.length > 1

/-- `CubeSet._is_numeric_measure` -/
def isNumericMeasure (rs : List Resp) : Bool :=
  isMulti rs && (match rs.head? with | some r => r.ndim == 0 | none => false)

/-- what `CubeSet._cubes` does to response number `idx` (summary = response 0 as it is then) -/
def prepareOne (multi numeric : Bool) (summary : Resp) (scatter : List Int) (idx : Nat) (r : Resp) : Resp :=
  let r1 := if multi && r.singleCol && idx > 0 then augment summary r scatter else r
  if numeric then inflate r1 else r1

/-- responses number `idx`, `idx+1`, … in generator order -/
def prepareRest (multi numeric : Bool) (summary : Resp) (scatter : List Int) : Nat → List Resp → List Resp
  | _, [] => []
  | i, r :: rs => prepareOne multi numeric summary scatter i r :: prepareRest multi numeric summary scatter (i + 1) rs

/-- the caller's list of responses after a `CubeSet` has built its cubes.  The summary seen
    by cube `idx > 0` is response 0 AFTER its own treatment (the generator runs in order). -/
def prepare (scatter : List Int) (rs : List Resp) : List Resp :=
  match rs with
  | [] => []
  | r0 :: rest =>
    let multi := isMulti rs
    let numeric := isNumericMeasure rs
    let r0' := prepareOne multi numeric r0 scatter 0 r0
    r0' :: prepareRest multi numeric r0' scatter 1 rest

/-! ## `Cube._cube_response`: the three argument forms -/

inductive J where
  | obj (kvs : List (String × J))
  | atom (tag : Nat)
  deriving Repr, Inhabited

def J.get? : J → String → Option J
  | .obj kvs, k => (kvs.find? (fun p => p.1 == k)).map (·.2)
  | .atom _, _ => none

inductive Arg where
  | text (s : String)
  | dict (j : J)

/-- `cube_response.get("value", cube_response)` after `json.loads` when the argument is no dict -/
def cubeResponse (loads : String → J) : Arg → J
  | .text s => let j := loads s; (j.get? "value").getD j
  | .dict j => (j.get? "value").getD j

end CrCube.Lazy
