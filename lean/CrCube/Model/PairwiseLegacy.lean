/-
  Legacy pairwise objects: pairwise comparison of column SCALE MEANS and of the column margin
  proportions ("summary" test)  (property C13; scale statistics: C14; renumbering: C05).

  Mirrors
    cr.cube.measures.pairwise_significance :
        PairwiseSignificance.{scale_mean_pairwise_indices, _scale_mean_pairwise_indices,
                              summary_pairwise_indices, values}
        _ColumnPairwiseSignificance.{t_stats_scale_means, p_vals_scale_means, _two_sample_df,
                              scale_mean_pairwise_indices, summary_t_stats, summary_p_vals, _df,
                              summary_pairwise_indices}
    cr.cube.cubepart : _Slice.{columns_scale_mean_pairwise_indices, columns_scale_mean_pairwise_indices_alt,
                              summary_pairwise_indices, pairwise_significance_tests,
                              _columns_scale_mean_variance, _rows_dimension_numeric_values, counts}
                       CubePartition.{_alpha, _alpha_alt, _only_larger}

  WHAT THE CODE DOES (quirks kept):
   * the scale-mean test is STUDENT's pooled-variance two-sample test, not Welch's:
        s² = ((n_a − 1)·v_a + (n_b − 1)·v_b) / (n_a + n_b − 2)
        t  = (m_b − m_a) / (sqrt(s²) · sqrt(1/n_a + 1/n_b)),   df = n_a + n_b − 2
     with v the POPULATION variance (ddof = 0) put where the pooled formula expects the sample
     variance, and n the WEIGHTED count of the column's respondents in numeric-valued rows
     (never the unweighted or the effective base);
   * n and v count EVERY valid row, like the mean `columns_scale_mean` does (`FullIn.displayFixed`,
     the code with repair F60 = /repo 4aa15c90).  Before the repair they were recomputed from the
     DISPLAYED rows of `slice.counts` (`FullIn.display ro co` with hidden rows dropped from `ro`), so
     hiding a numeric-valued row changed v, n, df – hence t, p and the index sets – but not m
     (`C13.legacy_hidden_row_counterexample`); the harness accepts the repaired model at the seams and
     reports the old behaviour as a spec-level finding;
   * the summary test compares the column margin proportions  p_j = unweighted column base /
     WEIGHTED table margin, variance p(1−p)/table margin, df = unweighted bases − 2;
   * no index set masks the selected column itself (it is excluded only because p(a,a) is 1 or NaN);
   * `pairwise_significance_tests` is built with the DEFAULT alpha 0.05 / only_larger True, whatever
     the transforms say; `summary_pairwise_indices` and the scale-mean index sets use the transforms.

  `sqrt(X)·sqrt(Y)` is represented by the single term `divSqrt num (X·Y)` guarded by "X or Y
  negative ↦ NaN" (numpy: sqrt of a negative is NaN); `C13.legacy_sqrt_merge` shows the two agree
  on non-negative reals.
-/
import CrCube.Model.Val
import CrCube.Model.Pairwise
import CrCube.Model.Scale

namespace CrCube.PairwiseLegacy
open CrCube CrCube.Pairwise

/-! ### primitives of the displayed slice -/

/-- everything in DISPLAY order -/
structure LegIn where
  values : List Val          -- `_rows_dimension_numeric_values` (NaN: no value / inserted row)
  counts : Mat               -- `slice.counts` (weighted), display rows × display columns
  means : List Val           -- `columns_scale_mean`
  colsBase : List Val        -- `columns_base` (unweighted N of each column)
  tableMargin : Val          -- `table_margin` (weighted N; scalar: no array dimension)
  ncols : Nat                -- `slice.shape[1]` = `len(column_labels)`
  deriving Inhabited

/-- column j of `slice.counts` -/
def LegIn.col (x : LegIn) (j : Nat) : List Val :=
  (List.range x.values.length).map (fun i => x.counts.get i j)

/-- `np.sum(counts[not_a_nan_index, :], axis=0)[j]` -/
def LegIn.n (x : LegIn) (j : Nat) : Val := Val.sum (Scale.selValued x.values (x.col j))

def LegIn.mean (x : LegIn) (j : Nat) : Val := x.means.getD j .nan

/-- `_columns_scale_mean_variance[j]` = nansum(counts·(value − mean)²) / Σ counts over the valued rows
    (the same expression as the variance under `columns_scale_mean_stddev`, `Scale.variance`) -/
def LegIn.variance (x : LegIn) (j : Nat) : Val := Scale.variance (x.col j) x.values (x.mean j)

/-- `not np.all(np.isnan(_rows_dimension_numeric_values))` -/
def LegIn.hasValues (x : LegIn) : Bool := Scale.isDefined x.values

/-! ### `t_stats_scale_means`, `_two_sample_df`, `p_vals_scale_means` -/

/-- the pooled variance (selected column a first) -/
def pooledVar (na va nb vb : Val) : Val := ((na - 1) * va + (nb - 1) * vb) / (na + nb - 2)

/-- `1 / counts[a] + 1 / counts` -/
def invSum (na nb : Val) : Val := (1 : Val) / na + (1 : Val) / nb

/-- `(m_b − m_a) / (np.sqrt(pooled) * np.sqrt(1/n_a + 1/n_b))` -/
def tPooled (ma na va mb nb vb : Val) : Out :=
  if Val.lt (pooledVar na va nb vb) 0 || Val.lt (invSum na nb) 0 then .v .nan
  else .divSqrt (mb - ma) (pooledVar na va nb vb * invSum na nb)

def dfPooled (na nb : Val) : Val := na + nb - 2

/-- compared column b against selected column a -/
def LegIn.tScale (x : LegIn) (a b : Nat) : Out :=
  tPooled (x.mean a) (x.n a) (x.variance a) (x.mean b) (x.n b) (x.variance b)

def LegIn.dfScale (x : LegIn) (a b : Nat) : Val := dfPooled (x.n a) (x.n b)

def LegIn.pScale (x : LegIn) (a b : Nat) : Out := .tTail2 (x.tScale a b) (x.dfScale a b)

/-! ### `summary_t_stats`, `_df`, `summary_p_vals` -/

/-- `columns_base / table_margin` -/
def LegIn.mprop (x : LegIn) (j : Nat) : Val := x.colsBase.getD j .nan / x.tableMargin

/-- `col_margin_props * (1.0 - col_margin_props) / table_margin` -/
def LegIn.mvar (x : LegIn) (j : Nat) : Val := x.mprop j * (1 - x.mprop j) / x.tableMargin

def LegIn.summaryT (x : LegIn) (a b : Nat) : Out :=
  .divSqrt (x.mprop b - x.mprop a) (x.mvar b + x.mvar a)

def LegIn.summaryDf (x : LegIn) (a b : Nat) : Val :=
  x.colsBase.getD b .nan + x.colsBase.getD a .nan - 2

def LegIn.summaryP (x : LegIn) (a b : Nat) : Out := .tTail2 (x.summaryT a b) (x.summaryDf a b)

/-! ### index sets -/

/-- `tuple(np.where(significance)[0])` for every selected column a: the positions b with
    `p(a,b) < alpha` and, in only-larger mode, `t(a,b) < 0`.  NO mask for the column itself. -/
def idxOf (ev : Out → Val) (alpha : Rat) (ol : Bool) (n : Nat) (P T : Nat → Nat → Out) :
    List (List Nat) :=
  (List.range n).map (fun a => (List.range n).filter (fun b => sig ev alpha ol (P a b) (T a b)))

inductive LegErr where
  | typeError       -- `variance[self._col_idx]` on None: no displayed row carries a numeric value
  | indexError      -- `self.values[0]` on a slice without columns
  | valueError      -- malformed alpha
  deriving Repr, DecidableEq

/-- `PairwiseSignificance.scale_mean_pairwise_indices(slice, alpha, only_larger)` -/
def scaleMeanIdx (ev : Out → Val) (alpha : Rat) (ol : Bool) (x : LegIn) : Except LegErr (List (List Nat)) :=
  if x.ncols = 0 then .ok []
  else if !x.hasValues then .error .typeError
  else .ok (idxOf ev alpha ol x.ncols x.pScale x.tScale)

/-- `PairwiseSignificance(slice, alpha, only_larger).summary_pairwise_indices` -/
def summaryIdx (ev : Out → Val) (alpha : Rat) (ol : Bool) (x : LegIn) : Except LegErr (List (List Nat)) :=
  if x.ncols = 0 then .error .indexError
  else .ok (idxOf ev alpha ol x.ncols x.summaryP x.summaryT)

/-! ### settings read from the transforms (`_alpha`, `_alpha_alt`, `_only_larger`) -/

/-- `transforms.pairwise_indices.only_larger` -/
inductive OlArg where
  | absent | isFalse | other      -- other: anything that `is not False` (True, None, 0, "no", …)
  deriving Repr, DecidableEq

def onlyLarger : OlArg → Bool
  | .isFalse => false
  | _ => true

def alphaOf (arg : AlphaArg) : Except LegErr (Rat × Option Rat) :=
  match alphaValues arg with
  | .ok r => .ok r
  | .error .typeError => .error .typeError
  | .error .valueError => .error .valueError

/-- `_Slice.columns_scale_mean_pairwise_indices` -/
def sliceScaleIdx (ev : Out → Val) (arg : AlphaArg) (ol : OlArg) (x : LegIn) : Except LegErr (List (List Nat)) :=
  match alphaOf arg with
  | .error e => .error e
  | .ok (a, _) => scaleMeanIdx ev a (onlyLarger ol) x

/-- `_Slice.columns_scale_mean_pairwise_indices_alt` (`none` = Python None) -/
def sliceScaleIdxAlt (ev : Out → Val) (arg : AlphaArg) (ol : OlArg) (x : LegIn) :
    Except LegErr (Option (List (List Nat))) :=
  match alphaOf arg with
  | .error e => .error e
  | .ok (_, none) => .ok none
  | .ok (_, some y) =>
    match scaleMeanIdx ev y (onlyLarger ol) x with
    | .ok r => .ok (some r)
    | .error e => .error e

/-- `_Slice.summary_pairwise_indices` -/
def sliceSummaryIdx (ev : Out → Val) (arg : AlphaArg) (ol : OlArg) (x : LegIn) : Except LegErr (List (List Nat)) :=
  match alphaOf arg with
  | .error e => .error e
  | .ok (a, _) => summaryIdx ev a (onlyLarger ol) x

/-- `_Slice.pairwise_significance_tests[a].summary_pairwise_indices` /
    `.scale_mean_pairwise_indices`: `PairwiseSignificance(self)` = DEFAULT alpha and only_larger -/
def defaultAlpha : Rat := 5 / 100

def testsSummaryIdx (ev : Out → Val) (x : LegIn) : List (List Nat) :=
  idxOf ev defaultAlpha true x.ncols x.summaryP x.summaryT

def testsScaleIdx (ev : Out → Val) (x : LegIn) : Except LegErr (List (List Nat)) :=
  scaleMeanIdx ev defaultAlpha true x

/-! ### from the tabulated counts to the displayed primitives (CAT × CAT) -/

structure FullIn where
  nr : Nat
  nc : Nat
  counts : Mat               -- weighted counts, valid rows × valid columns (payload order)
  rowValues : List Val       -- numeric value of each valid row element (NaN: none)
  ucolsBase : List Val       -- unweighted column base of each valid column element
  tableMargin : Val
  rowSubs : List Pairwise.Sub
  colSubs : List Pairwise.Sub
  deriving Inhabited

def FullIn.nFullRows (x : FullIn) : Nat := x.nr + x.rowSubs.length
def FullIn.nFullCols (x : FullIn) : Nat := x.nc + x.colSubs.length

/-- `np.block(weighted_counts.blocks)` -/
def FullIn.fullCounts (x : FullIn) : Mat := sumBlocks x.counts x.nr x.nc x.rowSubs x.colSubs false false

/-- weighted column base of base column j (CAT rows: the column total, the same in every row) -/
def FullIn.colTotal (x : FullIn) (j : Nat) : Val := sumOver (List.range x.nr) (fun i => x.counts.get i j)

/-- the inputs of the ordinary column test for the same slice (only `props` is used here) -/
def FullIn.pw (x : FullIn) : PwIn :=
  let wb : Mat := (List.range x.nr).map (fun _ => (List.range x.nc).map x.colTotal)
  { nr := x.nr, nc := x.nc, counts := x.counts, wbases := wb, ubases := wb, ucolsBase := x.ucolsBase
    sqbases := none, rowSubs := x.rowSubs, colSubs := x.colSubs }

/-- `_ScaleMean.blocks` (COLUMNS orientation): weighted mean of the row values by the column
    proportions of the base rows – EVERY valid row, displayed or not -/
def FullIn.fullMean (x : FullIn) (j : Nat) : Val :=
  Scale.weightedMean ((List.range x.nr).map (fun i => x.pw.props.get i j)) x.rowValues

/-- `columns_unweighted_base` blocks: base columns, then subtotal columns (NaN for differences) -/
def FullIn.fullUBase (x : FullIn) (j : Nat) : Val :=
  if j < x.nc then x.ucolsBase.getD j .nan
  else
    let s := x.colSubs.getD (j - x.nc) default
    if s.isDiff then .nan
    else sumOver s.addends (fun k => x.ucolsBase.getD k .nan) - sumOver s.subtrahends (fun k => x.ucolsBase.getD k .nan)

/-- numeric value of the row shown at a signed index (inserted rows have none) -/
def FullIn.rowValue (x : FullIn) (k : Int) : Val := if k < 0 then .nan else x.rowValues.getD k.toNat .nan

/-- the slice as displayed with row order `ro` and column order `co` (signed indexes) -/
def FullIn.display (x : FullIn) (ro co : List Int) : LegIn :=
  { values := ro.map x.rowValue
    counts := assemble x.nFullRows x.nFullCols ro co x.fullCounts.get
    means := co.map (fun k => x.fullMean (pos x.nFullCols k))
    colsBase := co.map (fun k => x.fullUBase (pos x.nFullCols k))
    tableMargin := x.tableMargin
    ncols := co.length }

/-- every valid row element once, in payload order -/
def FullIn.allRows (x : FullIn) : List Int := (List.range x.nr).map (fun (i : Nat) => Int.ofNat i)

/-- THE CODE (with repair F60): n and the variance count every valid row, like the mean does -/
def FullIn.displayFixed (x : FullIn) (co : List Int) : LegIn := x.display x.allRows co

end CrCube.PairwiseLegacy
