/-
  Model of `cr.cube.dimension._ElementIdShim` (+ `_build_element_id`, the `Elements.from_typedef`
  lookup of element transforms, `_OrderSpec` id lists, `ExplicitOrderCollator` /
  `SortByValueCollator._iter_fixed_idxs` as consumers and the late translation of
  opposing-element ids in `matrix/assembler.py`).

  The model mirrors the code WITH the two small fixes proposed in `fixes/`:
    F7   `translate_element_id`: `except (TypeError, ValueError)` -- a `None` id (which the
         shim itself writes for unmatched ids) resolves to `None` instead of raising;
    F17  `_element_values_dict` (datetime): only elements whose value is not an object take
         part, exactly like `shimmed_dimension_dict` (a reference to the id of a *missing*
         datetime element is left alone instead of becoming an unhashable dict).
  The unfixed behaviour is kept in `namespace Unfixed` (used for counterexample theorems).

  No Mathlib.  Executable.
-/
namespace CrCube.Shim

/-! ## Python `int(str)` / `str(int)` on ASCII strings -/

/-- the ASCII characters `int()` strips (NOT `\x1c`-`\x1f`, although `str.isspace` holds for them) -/
def isPyWs (c : Char) : Bool :=
  c == ' ' || c == '\t' || c == '\n' || c == '\r' || c == '\x0b' || c == '\x0c'

def stripL (l : List Char) : List Char :=
  ((l.dropWhile isPyWs).reverse.dropWhile isPyWs).reverse

/-- digits with single underscores between digits (PEP 515); `pd` = previous char was a digit -/
def parseU : Bool → List Char → Nat → Option Nat
  | pd, [], acc => if pd then some acc else none
  | pd, c :: cs, acc =>
    if c.isDigit then parseU true cs (10 * acc + (c.toNat - '0'.toNat))
    else if c == '_' && pd then parseU false cs acc
    else none

/-- Python `int(s)` for an ASCII string: `none` = ValueError -/
def pyIntL (l : List Char) : Option Int :=
  match stripL l with
  | '-' :: ds => (parseU false ds 0).map (fun n => -(n : Int))
  | '+' :: ds => (parseU false ds 0).map (fun n => (n : Int))
  | ds => (parseU false ds 0).map (fun n => (n : Int))

def pyInt (s : String) : Option Int := pyIntL s.toList

/-- Python `str(n)` for an int -/
def decL : Int → List Char
  | .ofNat m => Nat.toDigits 10 m
  | .negSucc m => '-' :: Nat.toDigits 10 (m + 1)

def decStr (n : Int) : String := String.ofList (decL n)

/-- `str.isnumeric` on ASCII: non-empty, digits only -/
def isNumericL (l : List Char) : Bool := !l.isEmpty && l.all Char.isDigit
def isNumeric (s : String) : Bool := isNumericL s.toList

/-! ## References and array dimensions -/

/-- an element reference as it appears in a transforms dict: JSON int, JSON string, or
    `None` (JSON null; also what the shim writes back for an unmatched id) -/
inductive Ref where
  | int (n : Int)
  | str (s : String)
  | null
  deriving DecidableEq, Repr, Inhabited

/-- one element of an array dimension (`type.elements[i]` of a subvariables dimension) -/
structure Item where
  eid : Int                              -- `element["id"]`
  alias : String                         -- `element["value"]["references"]["alias"]`
  subvarId : String                      -- `element["value"]["id"]`
  anchor : Bool := false                 -- `"anchor" in element["value"]["references"]` (inserted MR item)
  derived : Bool := false                -- `element["value"]["derived"]`
  subvarAlias : Option String := none    -- `element["subvar_alias"]`, written by the dimension shim
  deriving DecidableEq, Repr, Inhabited

/-- an array-type dimension dict (MR_SUBVAR / CA_SUBVAR / NUM_ARRAY) -/
structure Dim where
  items : List Item
  mrIns : Bool := false                  -- `_has_mr_insertion`: MR_SUBVAR with non-empty view insertions
  noSubvarIds : Bool := false            -- some element lacks the optional `value.id`: `_subvar_ids` is `()` (KeyError)
  deriving DecidableEq, Repr, Inhabited

namespace Dim
def aliases (d : Dim) : List String := d.items.map (·.alias)          -- `_subvar_aliases`
def eids (d : Dim) : List Int := d.items.map (·.eid)                  -- `_raw_element_ids`
/-- `_subvar_ids`: all-or-nothing — one element without `value.id` (a fused-variables dimension)
    empties the tuple, so the sub-variable-id rule and the `"key": "subvar_id"` mode match nothing -/
def subvarIds (d : Dim) : List String := if d.noSubvarIds then [] else d.items.map (·.subvarId)
def size (d : Dim) : Nat := d.items.length
end Dim

/-- `list.index(a)` as an option -/
def idxOf {α : Type} [DecidableEq α] (a : α) : List α → Option Nat
  | [] => none
  | b :: l => if a = b then some 0 else (idxOf a l).map (· + 1)

/-- `{x: i for i, x in enumerate(l)}.get(a)`: the LAST index wins -/
def lastIdxOf {α : Type} [DecidableEq α] (a : α) (l : List α) : Option Nat :=
  (idxOf a l.reverse).map (fun i => l.length - 1 - i)

def aliasAt (d : Dim) (i : Nat) : Option String := d.aliases[i]?

/-- `self._subvar_aliases[self._raw_element_ids.index(n)]` when `n in self._raw_element_ids` -/
def byEid (d : Dim) (n : Int) : Option String := (idxOf n d.eids).bind (aliasAt d)

/-- rule 1: `if _id in self._subvar_aliases: return _id` -/
def rule1 (d : Dim) : Ref → Option String
  | .str s => if s ∈ d.aliases then some s else none
  | _ => none

/-- rule 2: `if _id in self._raw_element_ids` (an int equals only an int) -/
def rule2 (d : Dim) : Ref → Option String
  | .int n => byEid d n
  | _ => none

/-- rule 3 (only with MR insertions): the string spelling of the id of a NON-inserted element -/
def rule3 (d : Dim) : Ref → Option String
  | .str s =>
    if d.mrIns then
      match (d.items.filter (fun it => !it.anchor)).find? (fun it => decStr it.eid == s) with
      | some it => byEid d it.eid
      | none => none
    else none
  | _ => none

/-- rule 4: `if _id in self._subvar_ids` -/
def rule4 (d : Dim) : Ref → Option String
  | .str s => (idxOf s d.subvarIds).bind (aliasAt d)
  | _ => none

/-- `int(_id)`; `none` = ValueError (string) or TypeError (None; tolerated since fix F7) -/
def asInt : Ref → Option Int
  | .int n => some n
  | .str s => pyInt s
  | .null => none

/-- rule 5: `int(_id) in self._raw_element_ids` -/
def rule5 (d : Dim) (r : Ref) : Option String := (asInt r).bind (byEid d)

/-- rule 6: a number that is no element id is a zero-based position -/
def rule6 (d : Dim) (r : Ref) : Option String :=
  (asInt r).bind fun n => if 0 ≤ n ∧ n < (d.size : Int) then aliasAt d n.toNat else none

/-- `_ElementIdShim.translate_element_id` for array types: the ordered cascade.
    `none` is Python's `None` (nothing matched). -/
def translate (d : Dim) (r : Ref) : Option String :=
  (rule1 d r).or <| (rule2 d r).or <| (rule3 d r).or <| (rule4 d r).or <| (rule5 d r).or (rule6 d r)

/-! ## The dimension-dict shim and element ids -/

/-- `shimmed_dimension_dict` for array types: writes `subvar_alias` into every element (in place) -/
def shimDim (d : Dim) : Dim :=
  { d with items := d.items.map (fun it => { it with subvarAlias := some it.alias }) }

/-- `_build_element_id` for array types: `subvar_alias` if present, else the raw id -/
def buildElementId (it : Item) : Ref :=
  match it.subvarAlias with
  | some a => .str a
  | none => .int it.eid

def elementIds (d : Dim) : List Ref := d.items.map buildElementId

/-! ## The transforms-dict shim -/

/-- payload of one element transform (what the analysis reads: `hide`, `name`) -/
structure ElXf where
  hide : Option Bool := none
  name : Option String := none
  deriving DecidableEq, Repr, Inhabited

/-- value of `elements["key"]` -/
inductive KeyMode where
  | absent | alias | subvarId
  deriving DecidableEq, Repr, Inhabited

/-- `transforms[...]["elements"]`: an ordered dict keyed by references (+ optional "key" marker) -/
structure ElemDict where
  mode : KeyMode := .absent
  entries : List (Ref × ElXf)
  deriving DecidableEq, Repr, Inhabited

/-- `d[k] = v` on an insertion-ordered dict -/
def dictSet (k : Ref) (v : ElXf) : List (Ref × ElXf) → List (Ref × ElXf)
  | [] => [(k, v)]
  | (k', v') :: l => if k' = k then (k', v) :: l else (k', v') :: dictSet k v l

def dictGet (k : Ref) : List (Ref × ElXf) → Option ElXf
  | [] => none
  | (k', v') :: l => if k' = k then some v' else dictGet k l

/-- new key of one old key in `_replaced_element_transforms` -/
def keyTranslate (d : Dim) : KeyMode → Ref → Option String
  | .subvarId, r => rule4 d r      -- `aliases[subvar_ids.index(_id)] if _id in subvar_ids else None`
  | _, r => translate d r

/-- the dict comprehension `{nkey: et[old] for ... if nkey is not None}` -/
def rebuild (d : Dim) (m : KeyMode) (es : List (Ref × ElXf)) : List (Ref × ElXf) :=
  es.foldl (fun acc kv => match keyTranslate d m kv.1 with
                          | some a => dictSet (.str a) kv.2 acc
                          | none => acc) []

/-- `_replaced_element_transforms` -/
def shimElems (d : Dim) (e : ElemDict) : ElemDict :=
  match e.mode with
  | .alias => e
  | m => { mode := .absent, entries := rebuild d m e.entries }

/-- what is written back into a caller-owned id list: the alias or `None` -/
def back : Option String → Ref
  | some a => .str a
  | none => .null

/-- `_replaced_order_element_ids` -/
def shimIds (d : Dim) (l : List Ref) : List Ref := l.map (fun r => back (translate d r))

/-- the transforms dict of one dimension, as far as element references go -/
structure DimXf where
  elements : Option ElemDict := none        -- `["elements"]`
  orderIds : Option (List Ref) := none      -- `["order"]["element_ids"]` (absent / null = none)
  fixedTop : Option (List Ref) := none      -- `["order"]["fixed"]["top"]`
  fixedBottom : Option (List Ref) := none   -- `["order"]["fixed"]["bottom"]`
  opposing : Option Ref := none             -- `["order"]["element_id"]`: NOT rewritten (translated late)
  deriving DecidableEq, Repr, Inhabited

/-- `shimmed_dimension_transforms_dict` for shimmed array types (rewrites the caller's dict in place) -/
def shimXf (d : Dim) (x : DimXf) : DimXf :=
  { x with elements := x.elements.map (shimElems d),
           orderIds := x.orderIds.map (shimIds d),
           fixedTop := x.fixedTop.map (shimIds d),
           fixedBottom := x.fixedBottom.map (shimIds d) }

/-! ## Consumers: what the analysis does with the (shimmed) dicts -/

/-- `Elements.from_typedef`: `all_xforms.get(element_id, all_xforms.get(str(element_id), {}))` -/
def xformOf (es : List (Ref × ElXf)) (id : Ref) : ElXf :=
  match dictGet id es with
  | some v => v
  | none =>
    match id with
    | .int n => (dictGet (.str (decStr n)) es).getD {}
    | r => (dictGet r es).getD {}

/-- element transforms of every item of dimension `d` (already dimension-shimmed) under a
    SHIMMED transforms dict -/
def itemXforms (d : Dim) (x : DimXf) : List ElXf :=
  let es := match x.elements with | some e => e.entries | none => []
  (elementIds d).map (xformOf es)

/-- `Dimension.hidden_idxs` -/
def hiddenIdxs (d : Dim) (x : DimXf) : List Nat :=
  ((itemXforms d x).zipIdx.filter (fun p => p.1.hide == some true)).map (·.2)

/-- `ExplicitOrderCollator._element_order_descriptors`, idx component: non-derived elements,
    first those named in `order.element_ids` (each once, unknown ids skipped), then the rest -/
def explicitGo (remaining : List (Ref × Nat)) : List Ref → List Nat
  | [] => remaining.map (·.2)
  | r :: rs =>
    match remaining.find? (fun p => p.1 == r) with
    | some p => p.2 :: explicitGo (remaining.filter (fun q => !(q.1 == r))) rs
    | none => explicitGo remaining rs

/-- `OrderedDict[k] = v`: a repeated key keeps its first position and takes the last value -/
def odSet (k : Ref) (v : Nat) : List (Ref × Nat) → List (Ref × Nat)
  | [] => [(k, v)]
  | (k', v') :: l => if k' = k then (k', v) :: l else (k', v') :: odSet k v l

/-- `OrderedDict((element.element_id, idx) for idx, element in enumerate(elements) if not element.derived)` -/
def baseElements (d : Dim) : List (Ref × Nat) :=
  ((d.items.zipIdx).filter (fun p => !p.1.derived)).foldl
    (fun acc p => odSet (buildElementId p.1) p.2 acc) []

def explicitOrder (d : Dim) (x : DimXf) : List Nat :=
  explicitGo (baseElements d) (x.orderIds.getD [])

/-- `SortByValueCollator._iter_fixed_idxs`: ids not among the element ids are skipped (no dedupe) -/
def fixedIdxs (d : Dim) (ids : List Ref) : List Nat :=
  ids.filterMap (fun r => lastIdxOf r (elementIds d))

/-- `_SortRowsByBaseColumnHelper._column_idx` / `_SortColumnsByBaseRowHelper._row_idx`:
    `element_ids.index(dim.translate_element_id(order.element_id))`; `none` = ValueError, which
    the caller turns into payload order -/
def opposingIdx (d : Dim) (r : Ref) : Option Nat :=
  idxOf (back (translate d r)) (elementIds d)

/-- everything the analysis can see of one array dimension + its transforms: computed the way
    the library does, i.e. AFTER both shims ran on the caller's dicts -/
structure View where
  elementIds : List Ref
  xforms : List ElXf
  hidden : List Nat
  order : List Nat
  top : List Nat
  bottom : List Nat
  opposing : Option (Option Nat)
  deriving DecidableEq, Repr

/-- analysis over dicts as they ARE (no shimming here) -/
def viewRaw (d : Dim) (x : DimXf) : View :=
  { elementIds := elementIds d, xforms := itemXforms d x, hidden := hiddenIdxs d x,
    order := explicitOrder d x, top := fixedIdxs d (x.fixedTop.getD []),
    bottom := fixedIdxs d (x.fixedBottom.getD []),
    opposing := x.opposing.map (opposingIdx d) }

/-- what a `Dimension(dim_dict, type, transforms)` reports: shims run first, in place -/
def view (d : Dim) (x : DimXf) : View := viewRaw (shimDim d) (shimXf d x)

/-! ## Datetime dimensions -/

structure DtItem where
  id : Int
  value : Option String       -- `none`: the value is an object (missing element, `{"?": -1}`)
  datetimeValue : Option String := none   -- `element["datetime_value"]`, written by the dimension shim
  deriving DecidableEq, Repr, Inhabited

structure DtDim where
  items : List DtItem
  deriving DecidableEq, Repr, Inhabited

/-- `{el["id"]: el["value"] ...}.get(k)`: last entry wins (F17: object values take no part) -/
def dtLookup (k : Int) : List DtItem → Option String
  | [] => none
  | it :: l =>
    match dtLookup k l with
    | some v => some v
    | none => if it.id = k then it.value else none

/-- `int(_id) if isinstance(_id, str) and _id.isnumeric() else _id` -/
def dtKey : Ref → Ref
  | .str s => if isNumeric s then .int (Nat.ofDigitChars 10 s.toList 0) else .str s
  | r => r

/-- `translate_element_id` for DATETIME: `values.get(int_id, _id)` -/
def translateDt (d : DtDim) (r : Ref) : Ref :=
  match dtKey r with
  | .int n => match dtLookup n d.items with
              | some v => .str v
              | none => r
  | _ => r

def shimDtDim (d : DtDim) : DtDim :=
  { d with items := d.items.map (fun it => match it.value with
                                            | some v => { it with datetimeValue := some v }
                                            | none => it) }

def dtElementId (it : DtItem) : Ref :=
  match it.datetimeValue with
  | some v => .str v
  | none => .int it.id

def shimDtIds (d : DtDim) (l : List Ref) : List Ref := l.map (translateDt d)

/-- dict comprehension for DATETIME keys (a translated key is never `None` here) -/
def rebuildDt (d : DtDim) (es : List (Ref × ElXf)) : List (Ref × ElXf) :=
  es.foldl (fun acc kv => dictSet (translateDt d kv.1) kv.2 acc) []

def shimDtElems (d : DtDim) (e : ElemDict) : ElemDict :=
  match e.mode with
  | .alias => e
  | .subvarId => { mode := .absent, entries := [] }    -- `_subvar_ids` is `()` for datetime: every key drops
  | .absent => { mode := .absent, entries := rebuildDt d e.entries }

def shimDtXf (d : DtDim) (x : DimXf) : DimXf :=
  { x with elements := x.elements.map (shimDtElems d),
           orderIds := x.orderIds.map (shimDtIds d),
           fixedTop := x.fixedTop.map (shimDtIds d),
           fixedBottom := x.fixedBottom.map (shimDtIds d) }

/-! ## The code as it is without fixes F7 / F17 (for counterexamples) -/
namespace Unfixed

/-- outcome of a Python call: a value, or an uncaught exception -/
inductive Res (α : Type) where
  | ok (a : α)
  | raises (exc : String)
  deriving DecidableEq, Repr

/-- unfixed `translate_element_id`: `int(None)` raises TypeError (only ValueError is caught) -/
def translate (d : Dim) : Ref → Res (Option String)
  | .null => .raises "TypeError"
  | r => .ok (Shim.translate d r)

/-- unfixed `_replaced_order_element_ids`: any raising element aborts the comprehension -/
def shimIds (d : Dim) : List Ref → Res (List Ref)
  | [] => .ok []
  | r :: rs =>
    match translate d r, shimIds d rs with
    | .ok a, .ok l => .ok (back a :: l)
    | .raises e, _ => .raises e
    | _, .raises e => .raises e

/-- unfixed `_element_values_dict.get(k)` (before F17): object values take part too;
    `some none` = the lookup yields the value OBJECT of a missing element -/
def dtLookupObj (k : Int) : List DtItem → Option (Option String)
  | [] => none
  | it :: l =>
    match dtLookupObj k l with
    | some v => some v
    | none => if it.id = k then some it.value else none

/-- unfixed datetime translation: a reference to a missing element's id becomes that element's
    value object, which is unhashable: `TypeError` as soon as it is used as a dict key, looked
    up in the collator's `OrderedDict`, or re-shimmed -/
def translateDt (d : DtDim) (r : Ref) : Res Ref :=
  match dtKey r with
  | .int n => match dtLookupObj n d.items with
              | some (some v) => .ok (.str v)
              | some none => .raises "TypeError: unhashable type: 'dict'"
              | none => .ok r
  | _ => .ok r

end Unfixed

end CrCube.Shim
