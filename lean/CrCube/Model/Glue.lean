/-
  The "glue" of `cr.cube`: everything between the RAW cube-response JSON and the typed core the
  rest of the model starts from.  Mirrors, on the raw JSON type `J` (= what `json.loads` gives):

    * `dimension.py::Dimensions.dimension_type`   (`dimensionType`)
    * `dimension.py::Dimensions.from_dicts`       (`fromDicts`, incl. the CA_SUBVAR → MR_SUBVAR promotion)
    * `dimension.py::_ElementIdShim.shimmed_dimension_dict`  (`shimCheck`: only whether it raises — the keys
      it adds, `subvar_alias` / `datetime_value`, are not read by anything modelled here)
    * `dimension.py::Elements.from_typedef`       (`elementDefs`, `applyOrder`, `allElements`)
    * `Element.missing`, `Elements.valid_elements`, `Elements.element_idxs`, `Dimension.shape`,
      `Dimensions.shape`, `Dimensions.dimension_order`, `Dimensions.apparent_dimensions`
    * `cube.py::Cube._cube_response` (text parsing is the PARAMETER `loads`), `available_measures`,
      `_numeric_measure_references / _subvariables`, `_numeric_array_dimension`, `_all_dimensions`,
      `dimensions`, `dimension_types`, `ndim`, `is_single_filter_col_cube`, `_ca_as_0th`,
      `_slice_idxs`, `partitions` + `cubepart.py::CubePartition.factory`
    * `decode`: the typed design (`List Var` + flags) the existing model consumes.

  Python exceptions are values (`GErr`); evaluation order (short-circuiting `any`, `and`, `or`,
  argument evaluation) is kept, so that WHICH exception escapes is modelled too.
  Not modelled: list / dict valued ids (Python `==` is modelled on scalars: None, bool, numbers,
  strings, with `True == 1`); numbers with integral value are not told apart from ints.
  No Mathlib; executable.
-/
import CrCube.Model.Json
import CrCube.Model.Slice

namespace CrCube.Glue
open CrCube

/-- the Python exception that escapes -/
inductive GErr where
  | keyError | typeError | attributeError | indexError | notImplementedError | valueError
  | jsonDecodeError
  | unsupported        -- model-side only: the response is outside the typed design space of `decode`
  deriving DecidableEq, Repr, Inhabited

def GErr.name : GErr → String
  | .keyError => "KeyError"
  | .typeError => "TypeError"
  | .attributeError => "AttributeError"
  | .indexError => "IndexError"
  | .notImplementedError => "NotImplementedError"
  | .valueError => "ValueError"
  | .jsonDecodeError => "JSONDecodeError"
  | .unsupported => "unsupported"

abbrev R (α : Type) := Except GErr α

/-! ## Python primitives on raw JSON -/

/-- `x[k]` with a string key -/
def item (x : J) (k : String) : R J :=
  match x with
  | .obj kvs => match kvs.lookup k with
    | some v => .ok v
    | none => .error .keyError
  | _ => .error .typeError

/-- `x.get(k, d)` -/
def get (x : J) (k : String) (d : J) : R J :=
  match x with
  | .obj kvs => .ok ((kvs.lookup k).getD d)
  | _ => .error .attributeError

/-- `x[i]` with a non-negative int -/
def idx (x : J) (i : Nat) : R J :=
  match x with
  | .arr l => match l[i]? with
    | some v => .ok v
    | none => .error .indexError
  | .str s => match s.toList[i]? with
    | some c => .ok (.str (String.singleton c))
    | none => .error .indexError
  | .obj _ => .error .keyError
  | _ => .error .typeError

/-- `iter(x)` -/
def iter (x : J) : R (List J) :=
  match x with
  | .arr l => .ok l
  | .obj kvs => .ok (kvs.map (fun p => J.str p.1))
  | .str s => .ok (s.toList.map (fun c => J.str (String.singleton c)))
  | _ => .error .typeError

/-- `len(x)` -/
def len (x : J) : R Nat :=
  match x with
  | .arr l => .ok l.length
  | .obj kvs => .ok kvs.length
  | .str s => .ok s.length
  | _ => .error .typeError

/-- Python `==` on scalars (None, bool, number, str; `True == 1`); containers compare unequal -/
def scalarEq (a b : J) : Bool :=
  match a, b with
  | .null, .null => true
  | .str s, .str t => s == t
  | _, _ => match a.asNum?, b.asNum? with
    | some x, some y => x == y
    | _, _ => false

/-- python list `==` (element-wise `scalarEq`) -/
def listEq : List J → List J → Bool
  | [], [] => true
  | x :: xs, y :: ys => scalarEq x y && listEq xs ys
  | _, _ => false

def isInfixL (k : List Char) : List Char → Bool
  | [] => k.isEmpty
  | c :: t => k.isPrefixOf (c :: t) || isInfixL k t

/-- `k in x` for a string `k` -/
def hasKey (k : String) (x : J) : R Bool :=
  match x with
  | .obj kvs => .ok (kvs.lookup k).isSome
  | .arr l => .ok (l.any (fun e => scalarEq e (.str k)))
  | .str s => .ok (isInfixL k.toList s.toList)
  | _ => .error .typeError

/-- usable as a dict key -/
def hashable : J → Bool
  | .arr _ => false
  | .obj _ => false
  | _ => true

def isNull : J → Bool
  | .null => true
  | _ => false

def isDict : J → Bool
  | .obj _ => true
  | _ => false

/-- `[f(x) for x in l]` -/
def mapR (f : α → R β) : List α → R (List β)
  | [] => .ok []
  | x :: xs => do
    let y ← f x
    let ys ← mapR f xs
    pure (y :: ys)

/-- `any(f(x) for x in l)` (short-circuits at the first True) -/
def anyR (f : α → R Bool) : List α → R Bool
  | [] => .ok false
  | x :: xs => do
    if (← f x) then pure true else anyR f xs

/-! ## dimension types -/

inductive DT where
  | binnedNumeric | cat | catDate | caCat | caSubvar | datetime | logical | mrCat | mrSubvar
  | numArray | text
  deriving DecidableEq, Repr, Inhabited

def DT.name : DT → String
  | .binnedNumeric => "BINNED_NUMERIC"
  | .cat => "CAT"
  | .catDate => "CAT_DATE"
  | .caCat => "CA_CAT"
  | .caSubvar => "CA_SUBVAR"
  | .datetime => "DATETIME"
  | .logical => "LOGICAL"
  | .mrCat => "MR_CAT"
  | .mrSubvar => "MR_SUBVAR"
  | .numArray => "NUM_ARRAY"
  | .text => "TEXT"

/-- `DT.ARRAY_TYPES` -/
def DT.isArray : DT → Bool
  | .caSubvar | .mrSubvar | .numArray => true
  | _ => false

def logicalIds : List J := [.num 1, .num 0, .num (-1)]

/-- `any(cat.get("selected") for cat in cats) and [cat.get("id") for cat in cats] == [1, 0, -1]` -/
def isLogical (cats : List J) : R Bool := do
  if (← anyR (fun c => do pure (← get c "selected" .null).truthy) cats) then
    let ids ← mapR (fun c => get c "id" .null) cats
    pure (listEq ids logicalIds)
  else pure false

/-- the enum subtype classes -/
def enumType (sc : J) : R DT :=
  if scalarEq sc (.str "variable") then .ok .caSubvar
  else if scalarEq sc (.str "datetime") then .ok .datetime
  else if scalarEq sc (.str "numeric") then .ok .binnedNumeric
  else if scalarEq sc (.str "text") then .ok .text
  else if scalarEq sc (.str "num_arr") then .ok .numArray
  else .error .notImplementedError

/-- `Dimensions.dimension_type(dimension_dict)` -/
def dimensionType (d : J) : R DT := do
  let typedef ← item d "type"
  let cls ← item typedef "class"
  if scalarEq cls (.str "categorical") then
    let cats ← iter (← get typedef "categories" (.arr []))
    let lg ← isLogical cats
    let refs ← get d "references" J.empty
    let sub ← get refs "subreferences" .null
    if sub.truthy then
      pure (if lg then .mrCat else .caCat)
    else if lg then pure .logical
    else if (← anyR (hasKey "date") cats) then pure .catDate
    else pure .cat
  else if scalarEq cls (.str "enum") then
    let sc ← item (← item typedef "subtype") "class"
    enumType sc
  else .error .notImplementedError

/-- a `Dimension` object: its dict and its (mutable) `dimension_type` -/
structure Dim where
  d : J
  dt : DT
  deriving Repr, Inhabited

/-- one element of `_subvar_aliases`:
    `element.get("value", {}).get("references", {}).get("alias", element["id"])` (whether it raises) -/
def shimArrayElem (e : J) : R Unit := do
  let v ← get e "value" J.empty
  let r ← get v "references" J.empty
  match r with
  | .obj _ => let _ ← item e "id"; pure ()   -- default argument `element["id"]`
  | _ => .error .attributeError

/-- whether `_ElementIdShim.shimmed_dimension_dict` raises (the keys it adds are not read here) -/
def shimCheck (dt : DT) (d : J) : R Unit := do
  if dt.isArray then
    let els ← iter (← item (← item d "type") "elements")
    let _ ← mapR shimArrayElem els
    pure ()
  else if dt = .datetime then
    let els ← iter (← item (← item d "type") "elements")
    let _ ← mapR (fun e => item e "value") els
    pure ()
  else pure ()

/-- `Dimension.alias` (reads the shimmed dict) -/
def Dim.alias (x : Dim) : R J := do
  shimCheck x.dt x.d
  let refs ← item x.d "references"
  get refs "alias" .null

/-- the inner loop of `from_dicts` for the dimension at position `i`:
    `for other in dims: if other is not dim and other.alias == dim.alias: if other.dimension_type == MR_CAT: …`
    returns whether the promotion fired.  (`other.dimension_type == MR_CAT` is not affected by earlier
    promotions, which only turn CA_SUBVAR into MR_SUBVAR.) -/
def promoteScan (i : Nat) (self : Dim) : Nat → List Dim → R Bool
  | _, [] => .ok false
  | j, o :: os => do
    let here ← if j = i then pure false else do
      let a ← o.alias
      let b ← self.alias
      pure (scalarEq a b && o.dt == .mrCat)
    let rest ← promoteScan i self (j + 1) os
    pure (here || rest)

/-- `"value" not in e` -/
def lacksValue (e : J) : R Bool := do pure (!(← hasKey "value" e))

/-- the outer loop body for the dimension at position `i` -/
def promoteOne (dims : List Dim) (i : Nat) (dim : Dim) : R Dim := do
  if dim.dt = .caSubvar then
    let els ← iter (← item (← item dim.d "type") "elements")
    if (← anyR lacksValue els) then pure dim
    else
      let p ← promoteScan i dim 0 dims
      pure (if p then { dim with dt := .mrSubvar } else dim)
  else pure dim

def promoteFrom (dims : List Dim) : Nat → List Dim → R (List Dim)
  | _, [] => .ok []
  | i, x :: xs => do
    let y ← promoteOne dims i x
    let ys ← promoteFrom dims (i + 1) xs
    pure (y :: ys)

/-- `Dimension(d, cls.dimension_type(d))` -/
def mkDim (d : J) : R Dim := do pure (Dim.mk d (← dimensionType d))

/-- `Dimensions.from_dicts(dicts)` -/
def fromDicts (dicts : List J) : R (List Dim) := do
  let dims ← mapR mkDim dicts
  promoteFrom dims 0 dims

/-! ## elements -/

/-- `codemap[code]` for `codemap = {edef["id"]: edef for edef in element_defs}` (the last definition
    of an id wins), `none` when `code not in codemap` -/
def codemapLookup (keyed : List (J × J)) (code : J) : Option J :=
  (keyed.reverse.find? (fun p => scalarEq p.1 code)).map (·.2)

/-- `[codemap[code] for code in order if code in codemap]` -/
def applyOrder (defs : List J) (order : J) : R (List J) := do
  let keyed ← mapR (fun e => do
    let k ← item e "id"
    if hashable k then pure (k, e) else .error .typeError) defs
  let codes ← iter order
  let picked ← mapR (fun c => if hashable c then .ok (codemapLookup keyed c) else .error .typeError) codes
  pure (picked.filterMap id)

/-- the element definitions `Elements.from_typedef` enumerates (NEW positions when `order` is present) -/
def elementDefs (typedef : J) : R (List J) := do
  let cls ← item typedef "class"
  let defs ← if scalarEq cls (.str "categorical") then item typedef "categories" else item typedef "elements"
  let order ← get typedef "order" .null
  if isNull order then iter defs
  else applyOrder (← iter defs) order

/-- whether `_build_element_id(element_dict, dimension_type)` + the transforms lookup raise -/
def buildIdCheck (dt : DT) (e : J) : R Unit :=
  let needId : R Unit := do
    let k ← item e "id"
    if hashable k then pure () else .error .typeError
  if dt.isArray then pure ()         -- the shim has put `subvar_alias` on every element
  else if dt = .datetime then do
    let v ← item e "value"
    match v with
    | .obj _ => needId               -- no `datetime_value` key: falls back to the id
    | _ => if hashable v then pure () else .error .typeError
  else needId

/-- whether `Dimension._element_data_format` raises -/
def dataFormatCheck (d : J) : R Unit := do
  let refs ← get d "references" J.empty
  let fmt ← get refs "format" .null
  let direct ← if fmt.truthy then do pure (← get fmt "data" .null).truthy else pure false
  if direct then pure ()
  else
    let ty ← get d "type" J.empty
    let st ← get ty "subtype" J.empty
    let _ ← get st "resolution" .null
    pure ()

/-- `Dimension.all_elements`, as the list of element dicts in their FINAL order -/
def allElements (x : Dim) : R (List J) := do
  shimCheck x.dt x.d
  let typedef ← item x.d "type"
  dataFormatCheck x.d
  let defs ← elementDefs typedef
  let _ ← mapR (buildIdCheck x.dt) defs
  pure defs

/-- `Element.missing`: `bool(element_dict.get("missing"))` -/
def elemMissing (e : J) : R Bool := do pure (← get e "missing" .null).truthy

/-- missing flag of every element, in final order -/
def missingFlags (x : Dim) : R (List Bool) := do mapR elemMissing (← allElements x)

/-- `Dimension.shape` -/
def Dim.shape (x : Dim) : R Nat := do pure (← allElements x).length

/-- `Dimension.valid_elements.element_idxs` -/
def Dim.validIdxs (x : Dim) : R (List Nat) := do pure (CrCube.validIdxs (← missingFlags x))

/-- `Dimensions.apparent_dimensions` -/
def apparent (dims : List Dim) : List Dim := dims.filter (fun x => x.dt != .mrCat)

/-- `Dimensions.dimension_order` -/
def dimensionOrder (dims : List Dim) : List Nat :=
  let n := dims.length
  if n ≥ 2 && dims.any (fun x => x.dt == .numArray) then
    if n = 3 then [1, 2, 0] else (List.range n).reverse
  else List.range n

/-- `Dimensions.shape` -/
def dimsShape (dims : List Dim) : R (List Nat) :=
  -- `tuple(d.shape for d in [self[i] for i in self.dimension_order])`: evaluated IN that order
  mapR (fun i => match dims[i]? with
    | some d => d.shape
    | none => .error .indexError) (dimensionOrder dims)

/-! ## the cube -/

/-- `Cube._cube_response`: dict as is, text through `loads`, anything else a TypeError; then the
    `{"value": …}` envelope is removed -/
def cubeResponse (loads : String → R J) (arg : J) : R J := do
  let r ← match arg with
    | .obj _ => pure arg
    | .str s => loads s
    | _ => .error .typeError
  get r "value" r

def knownMeasures : List String :=
  ["covariance", "count", "mean", "median", "overlap", "stddev", "sum", "valid_overlap",
   "valid_count_unweighted", "valid_count_weighted", "weighted_squared_count"]

/-- `CUBE_MEASURE.NUMERIC_CUBE_MEASURES()` in the DECLARATION order of `CUBE_MEASURE`
    (covariance, count, mean, median, overlap, stddev, sum, valid_overlap, valid_count_unweighted,
    valid_count_weighted, weighted_squared_count) -/
def numericMeasures : List String :=
  ["mean", "median", "stddev", "sum", "valid_count_unweighted", "valid_count_weighted"]

/-- `result.measures` as the library reads it for `available_measures`
    (`CUBE_MEASURE(m)` raises ValueError on an unknown key) -/
def measuresOf (resp : J) : R (List (String × J)) := do
  let result ← get resp "result" J.empty
  let ms ← get result "measures" J.empty
  match ms with
  | .obj kvs => if kvs.all (fun p => knownMeasures.contains p.1) then pure kvs else .error .valueError
  | _ => .error .attributeError

/-- `Cube._available_numeric_measures`: the numeric measures present, in the order `ord`.
    Since fix F40 the library iterates `CUBE_MEASURE` in declaration order, i.e. `ord = numericMeasures`
    (before, `tuple(frozenset ∩ set)` made the order — hence WHICH measure's metadata names the inflated
    rows dimension / defines a numeric-array dimension — depend on the hash seed of the process).
    The functions stay parametric in `ord`: every theorem holds for any order. -/
def availableNumeric (ord : List String) (resp : J) : R (List String) := do
  let ms ← measuresOf resp
  pure ((ord.filter numericMeasures.contains).filter (fun m => (ms.lookup m).isSome))

/-- `metadata` of the FIRST available numeric measure (`{}` when there is none) -/
def numericMetadata (ord : List String) (resp : J) : R (Option J) := do
  match ← availableNumeric ord resp with
  | [] => pure none
  | m :: _ =>
    let result ← get resp "result" J.empty
    let ms ← get result "measures" J.empty
    let payload ← get ms m J.empty
    pure (some (← get payload "metadata" J.empty))

/-- `Cube._numeric_measure_references` -/
def numericReferences (ord : List String) (resp : J) : R J := do
  match ← numericMetadata ord resp with
  | none => pure J.empty
  | some md => get md "references" J.empty

/-- `Cube._numeric_measure_subvariables` -/
def numericSubvariables (ord : List String) (resp : J) : R J := do
  match ← numericMetadata ord resp with
  | none => pure (.arr [])
  | some md => get (← get md "type" J.empty) "subvariables" (.arr [])

def jNat (n : Nat) : J := .num (n : Rat)

/-- `Cube._numeric_array_dimension` -/
def numericArrayDimension (ord : List String) (resp : J) : R (Option J) := do
  let sv ← numericSubvariables ord resp
  if !sv.truthy then pure none
  else
    let refs ← numericReferences ord resp
    let subrefs ← get refs "subreferences" (.arr [])
    let alias ← get refs "alias" .null
    let name ← get refs "name" .null
    let svs ← iter sv
    let rec els (i : Nat) : List J → R (List J)
      | [] => .ok []
      | s :: rest => do
        let (a, n) ← if subrefs.truthy then do
            let sr ← idx subrefs i
            pure (← get sr "alias" .null, ← get sr "name" .null)
          else pure (J.null, J.null)
        let e := J.obj [("id", jNat i),
                        ("value", .obj [("references", .obj [("alias", a), ("name", n)]), ("id", s)])]
        let tl ← els (i + 1) rest
        pure (e :: tl)
    let elements ← els 0 svs
    pure (some (.obj [("references", .obj [("alias", alias), ("name", name)]),
                      ("type", .obj [("elements", .arr elements), ("class", .str "enum"),
                                     ("subtype", .obj [("class", .str "num_arr")])])]))

/-- the dimension dicts `Cube._all_dimensions` hands to `Dimensions.from_dicts` -/
def allDimensionDicts (ord : List String) (resp : J) : R (List J) := do
  let na ← numericArrayDimension ord resp
  let dims ← item (← item resp "result") "dimensions"
  match na with
  | some nd => match dims with
    | .arr l => pure (nd :: l)
    | _ => .error .typeError      -- `[num_array_dim] + dims`
  | none => iter dims

/-- `Cube._all_dimensions` -/
def allDimensions (ord : List String) (resp : J) : R (List Dim) := do
  fromDicts (← allDimensionDicts ord resp)

/-- `Cube.dimensions` -/
def cubeDimensions (ord : List String) (resp : J) : R (List Dim) := do
  pure (apparent (← allDimensions ord resp))

/-- `Cube.dimension_types` -/
def dimensionTypes (ord : List String) (resp : J) : R (List DT) := do
  pure ((← cubeDimensions ord resp).map (·.dt))

/-- `Cube.ndim` -/
def ndim (ord : List String) (resp : J) : R Nat := do pure (← cubeDimensions ord resp).length

/-- `Cube.is_single_filter_col_cube` (its truthiness) -/
def isSingleFilterCol (resp : J) : R Bool := do
  pure (← get (← item resp "result") "is_single_col_cube" (.bool false)).truthy

/-- `Cube._ca_as_0th`:
    `(cube_idx_arg == 0 or is_single_filter_col_cube) and len(dimension_types) > 0 and dimension_types[0] == CA` -/
def caAs0th (ord : List String) (cubeIdx : Option Nat) (resp : J) : R Bool := do
  let lead ← if cubeIdx = some 0 then pure true else isSingleFilterCol resp
  if !lead then pure false
  else
    match ← dimensionTypes ord resp with
    | [] => pure false
    | t :: _ => pure (t == .caSubvar)

/-- `Cube._slice_idxs` as the NUMBER of slice indices -/
def nSlices (ord : List String) (cubeIdx : Option Nat) (resp : J) : R Nat := do
  let nd ← ndim ord resp
  let single ← if nd < 3 then do pure (!(← caAs0th ord cubeIdx resp)) else pure false
  if single then pure 1
  else
    match ← cubeDimensions ord resp with
    | [] => .error .indexError
    | d0 :: _ => do pure (← d0.validIdxs).length

/-- the class `CubePartition.factory` instantiates -/
inductive PClass where
  | nub | strand | slice
  deriving DecidableEq, Repr, Inhabited

def PClass.name : PClass → String
  | .nub => "_Nub"
  | .strand => "_Strand"
  | .slice => "_Slice"

/-- `CubePartition.factory` -/
def factory (nd : Nat) (ca0 : Bool) : PClass :=
  if nd = 0 then .nub else if nd = 1 || ca0 then .strand else .slice

/-- `Cube.partitions`, as (class, slice_idx) pairs -/
def partitions (ord : List String) (cubeIdx : Option Nat) (resp : J) : R (List (PClass × Nat)) := do
  let n ← nSlices ord cubeIdx resp
  if n = 0 then pure []
  else
    let ca0 ← caAs0th ord cubeIdx resp
    let nd ← ndim ord resp
    pure ((List.range n).map (fun k => (factory nd ca0, k)))

/-! ## the typed design -/

/-- a variable of the typed design plus what the harness used to compute by hand -/
structure TVar where
  var : Var
  transposed : Bool := false      -- categorical array rendered categories-first
  itemPos : List Nat := []        -- arrays: raw positions of the items not flagged missing
  nItems : Nat := 0               -- arrays: number of ALL items the payload carries
  deriving Repr, Inhabited

def DT.isCatLike : DT → Bool
  | .cat | .catDate | .logical | .datetime | .text | .binnedNumeric => true
  | _ => false

/-- group the all-dimensions list (type, missing flags in payload order) into variables -/
def groupVars : List (DT × List Bool) → Option (List TVar)
  | [] => some []
  | [(dt, m)] =>
    if dt.isCatLike then some [⟨⟨.cat, m.length, m, false⟩, false, [], 0⟩] else none
  | (dt, m) :: (dt2, m2) :: rest =>
    if dt = .mrSubvar && dt2 = .mrCat then
      (groupVars rest).map (⟨⟨.arr, (validIdxs m).length, m2, true⟩, false, validIdxs m, m.length⟩ :: ·)
    else if dt = .caSubvar && dt2 = .caCat then
      (groupVars rest).map (⟨⟨.arr, (validIdxs m).length, m2, false⟩, false, validIdxs m, m.length⟩ :: ·)
    else if dt = .caCat && dt2 = .caSubvar then
      (groupVars rest).map (⟨⟨.arr, (validIdxs m2).length, m, false⟩, true, validIdxs m2, m2.length⟩ :: ·)
    else if dt.isCatLike then
      (groupVars ((dt2, m2) :: rest)).map (⟨⟨.cat, m.length, m, false⟩, false, [], 0⟩ :: ·)
    else none

/-- apparent kind of a library dimension type, as the count extractors see it -/
def DT.dk : DT → DK
  | .mrSubvar => .mr
  | .caSubvar => .arr
  | .numArray => .arr
  | _ => .cat

/-- (type, missing flags in payload order) of a dimension -/
def typedOf (x : Dim) : R (DT × List Bool) := do pure (x.dt, ← missingFlags x)

/-- the typed design of a list of dimension dicts -/
def decodeDims (dicts : List J) : R (List TVar) := do
  let dims ← fromDicts dicts
  let typed ← mapR typedOf dims
  match groupVars typed with
  | some vs => pure vs
  | none => .error .unsupported

/-- **the decode function**: raw response argument ↦ typed design -/
def decode (loads : String → R J) (ord : List String) (arg : J) : R (List TVar) := do
  let resp ← cubeResponse loads arg
  decodeDims (← allDimensionDicts ord resp)

/-- the apparent kinds the LIBRARY derives (`cube.dimension_types` through `DT.dk`) -/
def libraryKinds (loads : String → R J) (ord : List String) (arg : J) : R (List DK) := do
  let resp ← cubeResponse loads arg
  pure ((← dimensionTypes ord resp).map DT.dk)

end CrCube.Glue
