/-
  The measures of a cube response and which of them each public output reads.

  Mirrors `cr.cube.cube`:
    * `_MeanMeasure / _MediansMeasure / _StdDevMeasure / _SumMeasure._flat_values`
      (`np.nan if isinstance(x, dict) else x`: a `{"?": code}` entry decodes to NaN),
      `_UnweightedCountMeasure`, `_WeightedCountMeasure` (absent when equal to the unweighted
      counts), `_UnweightedValidCountsMeasure / _WeightedValidCountsMeasure` (absent when the
      data list is empty), `_BaseMeasure.raw_cube_array` (None unless the flat length equals
      the product of the shape);
    * `Cube.counts_with_missings / counts / unweighted_counts / weighted_counts /
      has_weighted_counts / means / sums / stddev / medians / unweighted_valid_counts /
      weighted_valid_counts / missing`;
    * `CubeMeasures.unweighted_cube_counts / weighted_cube_counts` (matrix and stripe).
-/
import CrCube.Model.NumArray

namespace CrCube

/-- one entry of a numeric measure's `data` list after JSON decoding -/
inductive PCell where
  | num (q : Rat)          -- a JSON number
  | unavail (code : Int)   -- `{"?": code}`: the back end marks the value unavailable
  | null                   -- JSON `null` / Python `None` (how a NaN survives a strict JSON encoder)
  deriving DecidableEq, Repr, Inhabited

/-- `np.array(tuple(np.nan if isinstance(x, dict) else x for x in data), dtype=np.float64)`:
    a dict becomes NaN by the comprehension, a `None` by the float64 conversion of the array
    (and, for the result arrays, `.astype(np.float64)`) -/
def PCell.decode : PCell → Val
  | .num q => .fin q
  | .unavail _ => .nan
  | .null => .nan

/-- the measure payloads of `result` (absent measure = `none`) -/
structure Payloads where
  counts : List Val                          -- result.counts
  count : Option (List Val) := none          -- result.measures.count.data
  mean : Option (List PCell) := none
  sum : Option (List PCell) := none
  stddev : Option (List PCell) := none
  median : Option (List PCell) := none       -- (flattened first: `np.array(data).flatten()`)
  vcu : Option (List Val) := none            -- valid_count_unweighted.data
  vcw : Option (List Val) := none            -- valid_count_weighted.data
  missing : Option Nat := none               -- result.missing
  vcuNMissing : Option Nat := none           -- measures.valid_count_unweighted.n_missing
  meanNMissing : Option Nat := none
  medianNMissing : Option Nat := none
  deriving Inhabited

/-- `_flat_values` of mean / sum / stddev / median -/
def flatNumeric (p : Option (List PCell)) : Option (List Val) := p.map (·.map PCell.decode)

/-- `_WeightedCountMeasure._flat_values`: None when there is no `count` measure or its data
    equals `result.counts` -/
def flatWeighted (counts : List Val) (count : Option (List Val)) : Option (List Val) :=
  match count with
  | none => none
  | some w => if w = counts then none else some w

/-- valid-count measures: `np.array(valid_counts) if valid_counts else None` -/
def flatValid (p : Option (List Val)) : Option (List Val) :=
  match p with
  | some [] => none
  | x => x

/-- `_BaseMeasure.raw_cube_array`: the "cannot reshape → None" rule, then reshape -/
def rawArray (shape : List Nat) (flat : Option (List Val)) : Option FT :=
  match flat with
  | none => none
  | some l => if l.length = prodL shape then some (FT.ofFlat shape l) else none

/-- the `raw_cube_array` of every measure object in `_Measures` -/
structure RawArrays where
  ucounts : Option FT   -- _measures.unweighted_counts.raw_cube_array (the object always exists)
  wcounts : Option FT   -- _measures.weighted_counts  (None when raw_cube_array is None)
  uvalid : Option FT
  wvalid : Option FT
  means : Option FT
  sums : Option FT
  stddev : Option FT
  medians : Option FT

def Payloads.arrays (p : Payloads) (shape : List Nat) : RawArrays :=
  { ucounts := rawArray shape (some p.counts)
    wcounts := rawArray shape (flatWeighted p.counts p.count)
    uvalid := rawArray shape (flatValid p.vcu)
    wvalid := rawArray shape (flatValid p.vcw)
    means := rawArray shape (flatNumeric p.mean)
    sums := rawArray shape (flatNumeric p.sum)
    stddev := rawArray shape (flatNumeric p.stddev)
    medians := rawArray shape (flatNumeric p.median) }

namespace RawArrays

/-- `Cube.weighted_counts` before `[valid_idxs]` (None allowed) -/
def weightedCountsSrc (a : RawArrays) : Option FT :=
  if a.wvalid.isSome then a.wvalid else a.wcounts

/-- `Cube.has_weighted_counts` -/
def hasWeightedCounts (a : RawArrays) : Bool := a.weightedCountsSrc.isSome

/-- `Cube.counts_with_missings`; `none` = the library raises (indexing None) -/
def countsWithMissings (a : RawArrays) : Option FT :=
  if a.wvalid.isSome then a.wvalid
  else if a.uvalid.isSome then a.uvalid
  else if a.hasWeightedCounts then a.wcounts
  else a.ucounts

/-- `Cube.unweighted_counts` source -/
def unweightedCountsSrc (a : RawArrays) : Option FT :=
  if a.uvalid.isSome then a.uvalid else a.ucounts

/-- `CubeMeasures.unweighted_cube_counts` (matrix and stripe): valid counts, else
    `cube.unweighted_counts` -/
def unweightedCubeCountsSrc (a : RawArrays) : Option FT :=
  if a.uvalid.isSome then a.uvalid else a.unweightedCountsSrc

/-- `CubeMeasures.weighted_cube_counts`: weighted valid counts, else `cube.counts` -/
def weightedCubeCountsSrc (a : RawArrays) : Option FT :=
  if a.wvalid.isSome then a.wvalid else a.countsWithMissings

/-- An assembled `_Slice` / `_Strand` output (`_assemble_matrix`, `_assemble_vector`) is
    re-ordered by the display order, which is computed from the pruning mask of the UNWEIGHTED
    cube counts: it can be produced only if that array exists (otherwise indexing None raises).
    `src` is the array the output is computed from. -/
def assembled (a : RawArrays) (src : Option FT) : Option FT :=
  if a.unweightedCubeCountsSrc.isSome then src else none

/-- `diff_nans` flags handed to the count extractors -/
def unweightedDiffNans (a : RawArrays) : Bool := a.uvalid.isSome
def weightedDiffNans (a : RawArrays) : Bool := a.wvalid.isSome

end RawArrays

/-- `_Measures.missing_count` -/
def Payloads.missingCount (p : Payloads) (a : RawArrays) : Nat :=
  if a.uvalid.isSome then p.vcuNMissing.getD 0
  else if a.means.isSome then p.meanNMissing.getD 0
  else if a.medians.isSome then p.medianNMissing.getD 0
  else p.missing.getD 0

end CrCube
