/-
  Model of `cube.py::CubeSet` and of the two response-rewriting methods it drives, on raw JSON:

    * `Cube.inflate`           (`inflateDict`): one-category rows dimension inserted IN FRONT of
      `result.dimensions` (name / alias from the first numeric measure's references, else the
      '-'-joined measure names); a no-op on the dict when a numeric-array dimension exists (the
      insertion then goes into a temporary list)
    * `Cube.augment_response`  (`augmentDict`): a single-column filter cube with fewer counts than the
      summary cube gets the summary's elements and a zero vector into which its own counts are
      written AT THE POSITIONS GIVEN BY THE ELEMENT IDS of the matching summary elements
    * `CubeSet._cubes`         (`cubes`): cube_idx assignment, `_is_multi_cube`, `_is_numeric_measure`
      (first response 0-D), the generator order (the summary seen by cube idx > 0 is the caller's
      response object 0 AS IT IS THEN), in-place edits written back to the caller's objects
    * `CubeSet.partition_sets` (`partitionSets` = `zipN`: truncation to the shortest cube)
    * `is_ca_as_0th`, `has_weighted_counts`, `n_responses`, `population_fraction` (first cube's)
  No Mathlib; executable.
-/
import CrCube.Model.Glue
import CrCube.Model.Population

namespace CrCube.Glue
open CrCube

/-! ## in-place edits as functional updates -/

def setKey (k : String) (v : J) : List (String × J) → List (String × J)
  | [] => [(k, v)]
  | (k', v') :: rest => if k' == k then (k, v) :: rest else (k', v') :: setKey k v rest

/-- `x[k] = v` -/
def assign (x : J) (k : String) (v : J) : R J :=
  match x with
  | .obj kvs => .ok (.obj (setKey k v kvs))
  | _ => .error .typeError

/-- `x[i] = v` for a list and a non-negative int inside its range -/
def assignIdx (x : J) (i : Nat) (v : J) : R J :=
  match x with
  | .arr l => if i < l.length then .ok (.arr (l.set i v)) else .error .indexError
  | _ => .error .typeError

inductive Step where
  | key (k : String)
  | at (i : Nat)
  deriving Repr

/-- `x[p₁][p₂]…[pₙ] = f(x[p₁]…[pₙ])` written as a rebuild of the path -/
def modifyPath (x : J) (f : J → R J) : List Step → R J
  | [] => f x
  | .key k :: rest => do
    let c ← item x k
    assign x k (← modifyPath c f rest)
  | .at i :: rest => do
    let c ← idx x i
    assignIdx x i (← modifyPath c f rest)

/-! ## `Cube.inflate` -/

/-- Python `str.title()` on ASCII text -/
def titleChars : Bool → List Char → List Char
  | _, [] => []
  | prevCased, c :: cs =>
    let c' := if c.isLower then (if prevCased then c else c.toUpper)
              else if c.isUpper then (if prevCased then c.toLower else c)
              else c
    c' :: titleChars c.isAlpha cs

def pyTitle (s : String) : String := String.ofList (titleChars false s.toList)

/-- the inserted rows dimension -/
def rowsDimension (alias name : J) : J :=
  .obj [("references", .obj [("alias", alias), ("name", name)]),
        ("type", .obj [("class", .str "categorical"),
                       ("categories", .arr [.obj [("id", .num 1), ("name", name)]])])]

/-- alias and name of the inserted dimension -/
def inflateNames (ord : List String) (resp : J) : R (J × J) := do
  let avail ← availableNumeric ord resp
  let dflt := J.str ("-".intercalate avail)
  let refs ← numericReferences ord resp
  let alias ← get refs "alias" dflt
  let name ← match ← get refs "name" dflt with
    | .str s => pure (J.str (pyTitle s))
    | _ => .error .attributeError       -- `.title()` on a non-string
  pure (alias, name)

/-- what `Cube.inflate` does to the response dict (`resp` = the unwrapped `_cube_response`) -/
def inflateDict (ord : List String) (resp : J) : R J := do
  let na ← numericArrayDimension ord resp
  let dims ← item (← item resp "result") "dimensions"
  match na with
  | some _ =>
    match dims with
    | .arr _ =>
      let _ ← inflateNames ord resp
      pure resp                 -- `[num_array_dim] + dims` is a NEW list: the insertion is lost
    | _ => .error .typeError
  | none =>
    let (alias, name) ← inflateNames ord resp
    match dims with
    | .arr l =>
      modifyPath resp (fun _ => pure (.arr (rowsDimension alias name :: l))) [.key "result", .key "dimensions"]
    | _ => .error .attributeError   -- `.insert` on something that is no list

/-! ## `Cube.augment_response` -/

/-- `isinstance(v, (int, str))` (bool is an int; integral numbers are taken for ints) -/
def isIntOrStr : J → Bool
  | .str _ => true
  | .bool _ => true
  | .num q => q.den == 1
  | _ => false

/-- `data[pos] = value` with Python's negative indexing -/
def setAt (data : List J) (pos : J) (v : J) : R (List J) :=
  match pos with
  | .num q =>
    if q.den == 1 then
      let n : Int := data.length
      let p : Int := if q.num < 0 then q.num + n else q.num
      if 0 ≤ p ∧ p < n then .ok (data.set p.toNat v) else .error .indexError
    else .error .typeError
  | .bool b => if (if b then 1 else 0) < data.length then .ok (data.set (if b then 1 else 0) v) else .error .indexError
  | _ => .error .typeError

/-- `for pos, value in zip(positions, counts): data[pos] = value` -/
def scatter : List J → List J → List J → R (List J)
  | data, p :: ps, c :: cs => do scatter (← setAt data p c) ps cs
  | data, _, _ => .ok data

/-- `[item["id"] for item in elements if item["value"] in values]` -/
def positionsOf (values : List J) : List J → R (List J)
  | [] => .ok []
  | it :: rest => do
    let v ← item it "value"
    if values.any (fun w => scalarEq w v) then
      let i ← item it "id"
      pure (i :: (← positionsOf values rest))
    else positionsOf values rest

/-- the zero vector of the summary's length with this cube's counts written at the ids of the summary
    elements whose value this cube has:
    ```
    values = [el.get("value") for el in own_elements if isinstance(el.get("value"), (int, str))]
    positions = [item["id"] for item in elements if item["value"] in values]
    data = [0] * sn
    for pos, value in zip(positions, counts): data[pos] = value
    ``` -/
def augmentData (elements own counts : List J) (sn : Nat) : R (List J) := do
  let vals ← mapR (fun el => get el "value" .null) own
  let values := vals.filter isIntOrStr
  let positions ← positionsOf values elements
  scatter (List.replicate sn (J.num 0)) positions counts

/-- what is read before anything is written: `none` when the two count vectors have the same
    length (`return self`), else the summary's element list and the new count vector -/
def augmentPlan (loads : String → R J) (summaryArg resp : J) : R (Option (J × List J)) := do
  -- fix F41: the summary may arrive as JSON text or inside a {"value": …} envelope
  let summary ← cubeResponse loads summaryArg
  let counts ← item (← item resp "result") "counts"
  let scounts ← item (← item summary "result") "counts"
  let n ← len counts
  let sn ← len scounts
  if n = sn then pure none
  else
    let elements ← item (← item (← idx (← item (← item summary "result") "dimensions") 0) "type") "elements"
    let own ← iter (← item (← item (← idx (← item (← item resp "result") "dimensions") 0) "type") "elements")
    let data ← augmentData (← iter elements) own (← iter counts) sn
    pure (some (elements, data))

/-- the three in-place writes -/
def augmentWrite (resp elements : J) (data : List J) : R J := do
  let r1 ← modifyPath resp (fun t => assign t "elements" elements)
              [.key "result", .key "dimensions", .at 0, .key "type"]
  let r2 ← modifyPath r1 (fun t => assign t "counts" (.arr data)) [.key "result"]
  modifyPath r2 (fun t => assign t "data" (.arr data)) [.key "result", .key "measures", .key "count"]

/-- what `Cube.augment_response(summary_cube_resp)` does to this cube's response dict;
    `none` = `return self` (lengths agree).  `summaryArg` is the raw argument object; since fix F41 it
    goes through `Cube._cube_response` (text parsed, envelope removed) like any response. -/
def augmentDict (loads : String → R J) (summaryArg resp : J) : R (Option J) := do
  match ← augmentPlan loads summaryArg resp with
  | none => pure none
  | some (elements, data) => do pure (some (← augmentWrite resp elements data))

/-! ## `CubeSet._cubes` -/

/-- a `Cube` object as far as the glue is concerned -/
structure CubeSt where
  arg : J                  -- the response argument
  cubeIdx : Option Nat     -- `cube_idx` argument
  transforms : J
  deriving Repr, Inhabited

def CubeSt.resp (loads : String → R J) (c : CubeSt) : R J := cubeResponse loads c.arg

def isMultiCube (rs : List J) : Bool := decide (rs.length > 1)

/-- `CubeSet._is_numeric_measure` -/
def isNumericMeasure (loads : String → R J) (ord : List String) (rs : List J) : R Bool :=
  match rs with
  | r0 :: _ :: _ => do
    let resp ← cubeResponse loads r0
    pure ((← ndim ord resp) == 0)
  | _ => pure false

/-- the caller's object after an in-place edit of the dict a `Cube` works on: a dict argument IS that
    dict (or envelops it); a text argument is untouched -/
def writeBack (arg newInner : J) : J :=
  match arg with
  | .obj kvs => if (kvs.lookup "value").isSome then .obj (setKey "value" newInner kvs) else newInner
  | _ => arg

/-- first half of one turn of the generator in `_cubes`: `Cube(...)`, then
    `self._is_multi_cube and cube.is_single_filter_col_cube and idx > 0` → `augment_response`.
    Returns the cube and the caller's object `idx` afterwards. -/
def turnAugment (loads : String → R J) (multi : Bool) (summary : J) (ts : J) (i : Nat) (r : J) :
    R (CubeSt × J) := do
  let t ← idx ts i
  let c0 : CubeSt := ⟨r, if multi then some i else none, t⟩
  if multi then
    let resp ← c0.resp loads
    let single ← isSingleFilterCol resp
    if single && i > 0 then
      match ← augmentDict loads summary resp with
      | some resp' => pure (({ c0 with arg := resp' } : CubeSt), writeBack r resp')
      | none => pure (c0, r)
    else pure (c0, r)
  else pure (c0, r)

/-- second half: `yield cube.inflate() if self._is_numeric_measure else cube` -/
def turnInflate (loads : String → R J) (ord : List String) (numeric : Bool) (x : CubeSt × J) :
    R (CubeSt × J) := do
  if numeric then
    let resp ← x.1.resp loads
    let resp' ← inflateDict ord resp
    pure ({ x.1 with arg := resp' }, writeBack x.2 resp')
  else pure x

def cubesRest (loads : String → R J) (ord : List String) (multi numeric : Bool) (summary : J) (ts : J) :
    Nat → List J → R (List (CubeSt × J))
  | _, [] => .ok []
  | i, r :: rs => do
    let x ← turnInflate loads ord numeric (← turnAugment loads multi summary ts i r)
    let xs ← cubesRest loads ord multi numeric summary ts (i + 1) rs
    pure (x :: xs)

/-- `CubeSet._cubes` with the caller's response objects afterwards.  `_is_numeric_measure` is first
    read when cube 0 is about to be yielded, on the (still pristine) response 0; the summary seen by
    the cubes idx > 0 is the caller's object 0 after cube 0's own treatment. -/
def cubesAndObjs (loads : String → R J) (ord : List String) (rs : List J) (ts : J) : R (List (CubeSt × J)) :=
  match rs with
  | [] => .ok []
  | r0 :: rest => do
    let multi := isMultiCube rs
    let a0 ← turnAugment loads multi r0 ts 0 r0
    let numeric ← isNumericMeasure loads ord rs
    let x0 ← turnInflate loads ord numeric a0
    let xs ← cubesRest loads ord multi numeric x0.2 ts 1 rest
    pure (x0 :: xs)

def cubes (loads : String → R J) (ord : List String) (rs : List J) (ts : J) : R (List CubeSt) := do
  pure ((← cubesAndObjs loads ord rs ts).map (·.1))

/-- the caller's response objects after `_cubes` has run -/
def objsAfter (loads : String → R J) (ord : List String) (rs : List J) (ts : J) : R (List J) := do
  pure ((← cubesAndObjs loads ord rs ts).map (·.2))

/-! ## `partition_sets` -/

def minLen : List (List α) → Nat
  | [] => 0
  | [l] => l.length
  | l :: ls => min l.length (minLen ls)

/-- Python `zip(*ls)`: the k-th tuple takes the k-th member of every list, up to the shortest -/
def zipN (ls : List (List α)) : List (List α) :=
  (List.range (minLen ls)).map (fun k => ls.filterMap (fun l => l[k]?))

/-- a partition: the cube it belongs to (position in `_cubes`), its class and slice index -/
structure Part where
  cube : Nat
  cls : PClass
  sliceIdx : Nat
  deriving DecidableEq, Repr, Inhabited

def cubeParts (loads : String → R J) (ord : List String) (j : Nat) (c : CubeSt) : R (List Part) := do
  let resp ← c.resp loads
  pure ((← partitions ord c.cubeIdx resp).map (fun p => ⟨j, p.1, p.2⟩))

def partsFrom (loads : String → R J) (ord : List String) : Nat → List CubeSt → R (List (List Part))
  | _, [] => .ok []
  | j, c :: cs => do
    let p ← cubeParts loads ord j c
    let ps ← partsFrom loads ord (j + 1) cs
    pure (p :: ps)

/-- `CubeSet.partition_sets` -/
def partitionSets (loads : String → R J) (ord : List String) (rs : List J) (ts : J) : R (List (List Part)) := do
  let cs ← cubes loads ord rs ts
  pure (zipN (← partsFrom loads ord 0 cs))

/-! ## set-level attributes -/

/-- `CubeSet.is_ca_as_0th` -/
def setIsCaAs0th (loads : String → R J) (ord : List String) (rs : List J) (ts : J) : R Bool := do
  if !isMultiCube rs then pure false
  else
    match ← cubes loads ord rs ts with
    | [] => .error .indexError
    | c :: _ =>
      match ← dimensionTypes ord (← c.resp loads) with
      | [] => .error .indexError
      | t :: _ => pure (t == .caSubvar)

/-- `prod(shape)` -/
def prodShape (ord : List String) (resp : J) : R Nat := do
  pure (prodL (← dimsShape (← allDimensions ord resp)))

/-- `Cube.has_weighted_counts`: weighted valid counts, else a `count` measure that differs from
    `result.counts`, each only if its length fits the shape -/
def hasWeightedCounts (ord : List String) (resp : J) : R Bool := do
  let result ← item resp "result"
  let ms ← item result "measures"
  let vcw ← get (← get ms "valid_count_weighted" J.empty) "data" (.arr [])
  let size ← prodShape ord resp
  let fits (x : J) : R Bool := do pure ((← len x) == size)
  let wvalid ← if vcw.truthy then fits vcw else pure false
  if wvalid then pure true
  else
    let counts ← item result "counts"
    let w ← get (← get ms "count" J.empty) "data" .null
    if isNull w then pure false
    else
      let same := match counts, w with
        | .arr a, .arr b => listEq a b
        | _, _ => false
      if same then pure false else fits w

/-- `Cube.n_responses` -/
def nResponses (resp : J) : R J := do get (← item resp "result") "n" (.num 0)

def ofPyErr : Except PyErr α → R α
  | .ok a => .ok a
  | .error .attributeError => .error .attributeError
  | .error .typeError => .error .typeError
  | .error .keyError => .error .keyError

/-- `Cube.population_fraction` -/
def populationFraction (resp : J) : R Val := do
  ofPyErr (Population.populationFraction (← item resp "result"))

/-- `self._cubes[0]` -/
def firstCube (loads : String → R J) (ord : List String) (rs : List J) (ts : J) : R J := do
  match ← cubes loads ord rs ts with
  | [] => .error .indexError
  | c :: _ => c.resp loads

def setHasWeightedCounts (loads : String → R J) (ord : List String) (rs : List J) (ts : J) : R Bool := do
  hasWeightedCounts ord (← firstCube loads ord rs ts)

def setNResponses (loads : String → R J) (ord : List String) (rs : List J) (ts : J) : R J := do
  nResponses (← firstCube loads ord rs ts)

def setPopulationFraction (loads : String → R J) (ord : List String) (rs : List J) (ts : J) : R Val := do
  populationFraction (← firstCube loads ord rs ts)

end CrCube.Glue
