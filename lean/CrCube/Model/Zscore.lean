/-
  Mirror of `cr.cube.matrix.measure._Zscores` and `_Pvalues`.

    _calculate_zscores(counts, table_bases, row_bases, column_bases)       -- per block
        if self._is_defective:                       return all-NaN
        if np.all(table_bases == row_bases) or np.all(table_bases == column_bases):
                                                     return all-NaN
        expected = row_bases * column_bases / table_bases
        variance = row_bases * column_bases * (table_bases - row_bases)
                     * (table_bases - column_bases) / table_bases ** 3
        return (counts - expected) / np.sqrt(variance)
    _is_defective = not np.all(counts.shape) or np.linalg.matrix_rank(counts) < 2
        with counts = the BASE block of the weighted counts (all valid rows × columns)
    _calculate_pval(z) = z if 0 in z.shape else 2 * (1 - norm.cdf(|z|))

  `matrix_rank < 2` is modelled exactly: all 2×2 minors vanish (SVD tolerance is not modelled;
  the correspondence check covers it on dyadic data).  sqrt and Φ are symbolic (`Out`).

  The four blocks receive, per cell, the values of the weighted count / base blocks
  (`_WeightedCounts`, `_TableWeightedBases`, `_RowWeightedBases`, `_ColumnWeightedBases`):
  the count of a difference × difference intersection and the own-direction base of a
  difference are NaN there.
-/
import CrCube.Spec.CellSpec

namespace CrCube

/-- the four numbers `_calculate_zscores` reads for one cell -/
structure ZCell where
  n : Val     -- weighted count
  t : Val     -- table base
  r : Val     -- row base
  c : Val     -- column base
  deriving Repr, Inhabited

namespace ZCell

def expected (x : ZCell) : Val := x.r * x.c / x.t

def variance (x : ZCell) : Val :=
  x.r * x.c * (x.t - x.r) * (x.t - x.c) / (x.t * x.t * x.t)

/-- `(counts - expected) / np.sqrt(variance)` -/
def z (x : ZCell) : Out := .divSqrt (x.n - x.expected) x.variance

/-- the cell as the count / base blocks present it: NaN count for difference × difference,
    NaN row base for a difference row, NaN column base for a difference column -/
def ofPrims (R C : Side) (np nn tb rb cb : Val) : ZCell :=
  { n := if R.isDiff && C.isDiff then .nan else np - nn
    t := tb
    r := if R.isDiff then .nan else rb
    c := if C.isDiff then .nan else cb }

end ZCell

/-- all 2×2 minors of an nr × nc matrix vanish (⇔ rank < 2) -/
def minorsVanish (nr nc : Nat) (m : Nat → Nat → Val) : Bool :=
  (List.range nr).all fun i => (List.range nr).all fun k =>
    (List.range nc).all fun j => (List.range nc).all fun l =>
      (m i j * m k l - m i l * m k j) == .fin 0

/-- `_Zscores._is_defective` on the base block of the weighted counts -/
def isDefective (nr nc : Nat) (counts : Nat → Nat → Val) : Bool :=
  nr == 0 || nc == 0 || minorsVanish nr nc counts

/-- `np.all(table_bases == row_bases)` over a block (IEEE ==; true for an empty block) -/
def allRowFull (cells : List (List ZCell)) : Bool := cells.all fun row => row.all fun x => x.t.beqIEEE x.r
def allColFull (cells : List (List ZCell)) : Bool := cells.all fun row => row.all fun x => x.t.beqIEEE x.c

/-- the block guard of `_calculate_zscores` -/
def blockGuard (defective : Bool) (cells : List (List ZCell)) : Bool :=
  defective || allRowFull cells || allColFull cells

/-- one block of `_Zscores.blocks` -/
def zBlock (defective : Bool) (cells : List (List ZCell)) : List (List Out) :=
  if blockGuard defective cells then cells.map (fun row => row.map (fun _ => Out.v .nan))
  else cells.map (fun row => row.map ZCell.z)

/-- `_Pvalues._calculate_pval` (an empty block is returned as is — it has no cells) -/
def pBlock (zs : List (List Out)) : List (List Out) := zs.map (fun row => row.map Out.normTail2)

end CrCube
