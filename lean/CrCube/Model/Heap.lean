/-
  C18, aliasing of cached arrays: a state machine with a HEAP.

  `Model/Lazy.lean` treats cached values as immutable terms.  In the library the cached values
  are numpy arrays, i.e. ADDRESSES of mutable buffers: `lazyproperty` stores the reference in the
  instance `__dict__`, a second property that starts from `self.<first>` gets the very same
  buffer, and an in-place operation on it (`x[mask] = nan`, `x /= total`, `x *= 100`,
  `order[order < 0] += n`, `np.nan_to_num(x, copy=False)`) rewrites what the first property's
  cache holds.

  * heap: address -> contents (a list; allocation appends, nothing is ever freed)
  * slot: one lazyproperty of one object (`(object, property)` flattened to a number).  Objects
    share cube-level caches simply by depending on the same slot: the slots of two partitions
    name the same `Cube` / `_Measures` / extractor slots as dependencies.  `owner` records the
    object a slot lives on (documentation only: the semantics never looks at it, which is the
    point - a cache is shared by whoever can reach it).
  * a property body (`Def`): reads its dependencies (through THEIR lazyproperty: evaluated and
    cached on the way), computes a function of their contents, and either allocates a fresh array
    for the result or returns the address of one of the dependencies (`return self._x`,
    `np.asarray(self._x)`, `self._x.T`, basic slices: no copy); optionally ONE in-place write,
    either into the result or into a dependency.
  * programs are written newest slot first: the head of the list is slot number `tail.length`
    and may depend on the slots of the tail only (the recursion is structural; a dependency on
    an unknown slot reads as an empty array).

  No Mathlib.  Executable.
-/

namespace CrCube.Heap

abbrev Arr := List Int
abbrev Addr := Nat

/-- where the value of a property body lives -/
inductive Ret where
  | fresh                -- a newly allocated array holding `f (contents of the dependencies)`
  | alias (i : Nat)      -- the address of dependency number `i` (no copy)
  deriving DecidableEq, Repr

/-- the target of an in-place write -/
inductive Tgt where
  | result               -- the array the body returns (`x = …; x[mask] = nan; return x`)
  | dep (i : Nat)        -- dependency number `i` (`order = np.asarray(self._order); order[order < 0] += n`)
  deriving DecidableEq, Repr

structure Def where
  owner : Nat := 0
  deps : List Nat
  f : List Arr → Arr
  ret : Ret := .fresh
  write : Option (Tgt × (List Arr → Arr → Arr)) := none

structure St where
  heap : List Arr := []
  cache : List (Nat × Addr) := []      -- all instance `__dict__`s together: slot -> address

def lookup (s : Nat) : List (Nat × Addr) → Option Addr
  | [] => none
  | (q, a) :: l => if q = s then some a else lookup s l

def get (h : List Arr) (a : Addr) : Arr := h.getD a []

/-- evaluate the dependencies left to right (each through its own lazyproperty) -/
def readDeps (rd : Nat → St → Addr × St) : List Nat → St → List Addr × St
  | [], st => ([], st)
  | d :: ds, st =>
    let r := rd d st
    let rs := readDeps rd ds r.2
    (r.1 :: rs.1, rs.2)

/-- the address a body returns and the heap after its allocation (before its in-place write) -/
def place (d : Def) (as : List Addr) (h : List Arr) : Addr × List Arr :=
  let cs := as.map (get h)
  match d.ret with
  | .fresh => (h.length, h ++ [d.f cs])
  | .alias i =>
    match as[i]? with
    | some a => (a, h)
    | none => (h.length, h ++ [d.f cs])

/-- the address the body's in-place write goes to, if it writes -/
def target (d : Def) (as : List Addr) (r : Addr) : Option (Addr × (List Arr → Arr → Arr)) :=
  match d.write with
  | none => none
  | some (.result, g) => some (r, g)
  | some (.dep i, g) => match as[i]? with | some a => some (a, g) | none => none

/-- run a property body on the addresses of its (already evaluated) dependencies -/
def exec (d : Def) (as : List Addr) (st : St) : Addr × St :=
  let cs := as.map (get st.heap)
  let p := place d as st.heap
  let h2 := match target d as p.1 with
    | none => p.2
    | some (t, g) => p.2.set t (g cs (get p.2 t))
  (p.1, { heap := h2, cache := st.cache })

/-- `lazyproperty.__get__` of slot `s` -/
def read : List Def → Nat → St → Addr × St
  | [], _, st => (st.heap.length, { st with heap := st.heap ++ [[]] })
  | d :: rest, s, st =>
    if s = rest.length then
      match lookup s st.cache with
      | some a => (a, st)
      | none =>
        let r := readDeps (read rest) d.deps st
        let e := exec d r.1 r.2
        (e.1, { e.2 with cache := (s, e.1) :: e.2.cache })
    else read rest s st

/-- what the caller sees: the contents of the returned array at the moment of the read -/
def readVal (prog : List Def) (s : Nat) (st : St) : Arr × St :=
  let r := read prog s st
  (get r.2.heap r.1, r.2)

/-- a history: reads of any slots of any objects, in any order, any number of times -/
def run (prog : List Def) : List Nat → St → List Arr × St
  | [], st => ([], st)
  | s :: ss, st =>
    let r := readVal prog s st
    let rest := run prog ss r.2
    (r.1 :: rest.1, rest.2)

/-- a fresh evaluation: new objects (empty caches, empty heap), one read -/
def fresh (prog : List Def) (s : Nat) : Arr := (readVal prog s {}).1

/-- the step predicate.  One step = one execution of a property body.  The only addresses that do
    not exist before the step are the ones the body allocates itself, so "the step writes to no
    address that existed before it" is: no write at all, or a write into a freshly allocated
    result.  (A write into an aliased result or into a dependency always lands on an address that
    was allocated - and cached - before the body ran.) -/
def NoInPlaceWrite (d : Def) : Bool :=
  match d.write with
  | none => true
  | some (.result, _) => d.ret == .fresh
  | some (.dep _, _) => false

/-- the dynamic reading of the same predicate on an executed step: the write target (if any) is
    not below the heap size before the step -/
def stepWritesOnlyNew (d : Def) (as : List Addr) (st : St) : Bool :=
  match target d as (place d as st.heap).1 with
  | none => true
  | some (t, _) => decide (st.heap.length ≤ t)

/-- the pure denotation of a slot (what a value-semantics reading of the code computes) -/
def den : List Def → Nat → Arr
  | [], _ => []
  | d :: rest, s =>
    if s = rest.length then
      let cs := d.deps.map (den rest)
      let base := match d.ret with
        | .fresh => d.f cs
        | .alias i => (cs[i]?).getD (d.f cs)
      match d.write with
      | some (.result, g) => g cs base
      | _ => base
    else den rest s

end CrCube.Heap
