/-
  A small model of the RAW JSON / Python values the library pokes at with `dict.get`, `[]`,
  truthiness, `+` and `/` (used by `_Measures.population_fraction`, C17).

  `J` is what `json.loads` produces: None | bool | number | str | list | dict.  Numbers are exact
  rationals (ints and finite floats; JSON NaN/Infinity literals are not modelled).
  Python exceptions are values of `PyErr`.  No imports beyond `Val`.
-/
import CrCube.Model.Val

namespace CrCube

inductive J where
  | null
  | bool (b : Bool)
  | num (q : Rat)
  | str (s : String)
  | arr (l : List J)
  | obj (kvs : List (String × J))
  deriving Repr, Inhabited

inductive PyErr where
  | attributeError
  | typeError
  | keyError
  deriving Repr, DecidableEq, Inhabited

def PyErr.name : PyErr → String
  | .attributeError => "AttributeError"
  | .typeError => "TypeError"
  | .keyError => "KeyError"

namespace J

/-- the empty dict `{}` -/
def empty : J := .obj []

/-- Python truthiness -/
def truthy : J → Bool
  | .null => false
  | .bool b => b
  | .num q => decide (q ≠ 0)
  | .str s => decide (s ≠ "")
  | .arr l => !l.isEmpty
  | .obj kvs => !kvs.isEmpty

/-- `x.get(k, default)`: only dicts have `.get`; anything else raises AttributeError -/
def pyGet (x : J) (k : String) (dflt : J) : Except PyErr J :=
  match x with
  | .obj kvs => .ok ((kvs.lookup k).getD dflt)
  | _ => .error .attributeError

/-- `x[k]` with a string key: dict → value or KeyError; None / number / str / list → TypeError -/
def pyItem (x : J) (k : String) : Except PyErr J :=
  match x with
  | .obj kvs => match kvs.lookup k with
    | some v => .ok v
    | none => .error .keyError
  | _ => .error .typeError

/-- the numeric reading of a Python value in arithmetic: numbers, and bools as 0/1 -/
def asNum? : J → Option Rat
  | .num q => some q
  | .bool b => some (if b then 1 else 0)
  | _ => none

/-- `a + b`: numbers add, str + str and list + list concatenate, everything else is a TypeError -/
def pyAdd (a b : J) : Except PyErr J :=
  match a.asNum?, b.asNum? with
  | some x, some y => .ok (.num (x + y))
  | _, _ =>
    match a, b with
    | .str s, .str t => .ok (.str (s ++ t))
    | .arr l, .arr m => .ok (.arr (l ++ m))
    | _, _ => .error .typeError

/-- the library's
    ```
    try: return numerator / denominator
    except ZeroDivisionError: return np.nan
    except Exception: return 1.0
    ```
    Python true division of two numbers raises ZeroDivisionError on a zero denominator (ints and
    floats alike); any non-number operand is a TypeError, which the blanket clause turns into 1.0. -/
def tryDiv (num den : J) : Val :=
  match num.asNum?, den.asNum? with
  | some n, some d => if d = 0 then .nan else .fin (n / d)
  | _, _ => .fin 1

end J
end CrCube
