/-
  Mirror of the proportion-variance family, at CELL level:

    matrix/measure.py   _ProportionVariances (`_calc_var`, `_count_ignored`; the blocks of
                        `_count_positive` / `_count_negative` / `_count_total` / proportions
                        it is constructed with), _Row/_Column/_TableStandardError
    stripe/measure.py   _TableProportionVariances, _TableProportionStddevs, _TableProportionStderrs
    cubepart.py         `*_std_dev` (sqrt of the variances), `*_proportions_moe`,
                        `table_proportion_moes` (Z_975 · std-err)

  A displayed cell is a base cell, a cell of an inserted (subtotal / difference) row or
  column, or an intersection; it is described by the addend / subtrahend sets of its row and
  column (`Side`).  The primitives are the numbers the code reads for that cell from its
  count and base blocks (DESIGN §3 C04 `cellwise`):

    np    positive-term count   (PositiveTermSubtotals)      Σ counts over addends × addends
    nn    negative-term count   (NegativeTermSubtotals)
    base  weighted base of the direction, before the difference-NaN rule
    cA bA cS bS  the four sums of `WaveDiffSubtotal` (categorical-date differences only)

  This file states how the code combines them.  sqrt is symbolic (`Out`).
-/
import CrCube.Spec.CellSpec

namespace CrCube

/-- `_ProportionVariances._calc_var(p, Nt, Np, Ni, Nn)` -/
def calcVar (p nt np ni nn : Val) : Val :=
  ((.fin 1 - p) * (.fin 1 - p)) * (np / nt)
    + ((.fin 0 - p) * (.fin 0 - p)) * (ni / nt)
    + ((.fin (-1) - p) * (.fin (-1) - p)) * (nn / nt)

/-- `_count_ignored` = total − positive − negative -/
def countIgnored (nt np nn : Val) : Val := nt - np - nn

/-- one cell of `_ProportionVariances.blocks` -/
def varianceOf (p nt np nn : Val) : Val := calcVar p nt np (countIgnored nt np nn) nn

/-- `WaveDiffSubtotal._multiple_subtrahends_or_addends` (after fix F1: `len(…) > 0`) -/
def waveMulti (nAdd nSub : Nat) : Bool := decide (nSub > 0) && (decide (nSub > 1) || decide (nAdd > 1))

/-- `WaveDiffSubtotal._subtotal_row / _subtotal_column`: on a categorical-date dimension a
    difference's proportion is NaN for several terms, else the difference of two percentages -/
def waveDiffProp (catDate : Bool) (nAdd nSub : Nat) (default cA bA cS bS : Val) : Val :=
  if catDate && decide (nSub > 0) then
    if waveMulti nAdd nSub then .nan else cA / bA - cS / bS
  else default

/-- the inputs of one cell, one direction -/
structure VarCell where
  dir : Dir
  R : Side
  C : Side
  rowsCatDate : Bool
  colsCatDate : Bool
  np : Val
  nn : Val
  base : Val
  cA : Val := .nan
  bA : Val := .nan
  cS : Val := .nan
  bS : Val := .nan

namespace VarCell

/-- `PositiveTermSubtotals` / `NegativeTermSubtotals` / `SumSubtotals._intersection`: NaN for a
    difference row × difference column -/
def bothDiff (c : VarCell) : Bool := c.R.isDiff && c.C.isDiff

def posCount (c : VarCell) : Val := if c.bothDiff then .nan else c.np
def negCount (c : VarCell) : Val := if c.bothDiff then .nan else c.nn

/-- `_WeightedCounts.blocks` (count cube: `diff_nans = False`): addends − subtrahends -/
def count (c : VarCell) : Val := if c.bothDiff then .nan else c.np - c.nn

/-- `_Row/_Column/_TableWeightedBases.blocks`: the own-direction base of a difference is NaN
    (`diff_rows_nan` for row bases, `diff_cols_nan` for column bases); table bases never -/
def total (c : VarCell) : Val :=
  match c.dir with
  | .row => if c.R.isDiff then .nan else c.base
  | .col => if c.C.isDiff then .nan else c.base
  | .table => c.base

/-- `_RowProportions / _ColumnProportions / _TableProportions` at the cell: plain quotient, except
    that the inserted-rows and inserted-columns blocks of the row and column proportions go
    through `WaveDiffSubtotal` (intersections and table proportions do not) -/
def proportion (c : VarCell) : Val :=
  let default := c.count / c.total
  match c.dir with
  | .table => default
  | _ =>
    if c.R.inserted && !c.C.inserted then
      waveDiffProp c.rowsCatDate c.R.add.length c.R.sub.length default c.cA c.bA c.cS c.bS
    else if !c.R.inserted && c.C.inserted then
      waveDiffProp c.colsCatDate c.C.add.length c.C.sub.length default c.cA c.bA c.cS c.bS
    else default

/-- the cell of `{row,column,table}_proportion_variances` -/
def variance (c : VarCell) : Val := varianceOf c.proportion c.total c.posCount c.negCount

/-- `np.sqrt(variances)` -/
def stdDev (c : VarCell) : Out := .sqrt c.variance

/-- `_Row/_Column/_TableStandardError`: sqrt(variance / weighted base) -/
def stdErr (c : VarCell) : Out := .sqrt (c.variance / c.total)

end VarCell

/-- `cubepart.Z_975` -/
def Z975 : Rat := 1959964 / 1000000

/-- `Z_975 * std_err` -/
def moeOf (se : Out) : Out := .scale Z975 se

def VarCell.moe (c : VarCell) : Out := moeOf c.stdErr

/-! ### strand (1-D): `stripe/measure.py` -/

structure StrandCell where
  S : Side
  catDate : Bool
  np : Val
  nn : Val
  base : Val          -- base values: `weighted_cube_counts.bases`; subtotals: the table base
  cA : Val := .nan
  bA : Val := .nan
  cS : Val := .nan
  bS : Val := .nan

namespace StrandCell

def count (c : StrandCell) : Val := c.np - c.nn

/-- stripe `WaveDiffSubtotals._subtotal_value`: applies when there are subtrahends AND addends -/
def proportion (c : StrandCell) : Val :=
  let default := c.count / c.base
  if c.S.inserted && c.catDate && decide (c.S.sub.length > 0) && decide (c.S.add.length > 0) then
    if waveMulti c.S.add.length c.S.sub.length then .nan else c.cA / c.bA - c.cS / c.bS
  else default

/-- `_TableProportionVariances`: p(1−p) for base values, the three-term formula for subtotals -/
def variance (c : StrandCell) : Val :=
  if c.S.inserted then varianceOf c.proportion c.base c.np c.nn
  else c.proportion * (.fin 1 - c.proportion)

def stdDev (c : StrandCell) : Out := .sqrt c.variance
def stdErr (c : StrandCell) : Out := .sqrt (c.variance / c.base)
def moe (c : StrandCell) : Out := moeOf c.stdErr

end StrandCell

end CrCube
