/-
  Mirror of the subtotal machinery of cr.cube:

  * `cr.cube.dimension._Subtotals._iter_valid_subtotal_dicts` (the "gauntlet"),
    `_Subtotal.addend_ids / addend_idxs / subtrahend_ids / subtrahend_idxs / is_difference`
    and the view-level vs transform-level choice of `Dimension.subtotals`;
  * `cr.cube.matrix.subtotals`: `SumSubtotals` (with `diff_cols_nan / diff_rows_nan`),
    `PositiveTermSubtotals`, `NegativeTermSubtotals`, `NanSubtotals`, `WaveDiffSubtotal`,
    `OverlapSubtotals`, each as the four blocks `[[body, ins-cols], [ins-rows, intersections]]`;
  * `cr.cube.stripe.insertion`: the 1-D twins.

  Matrices are index functions `Nat → Nat → Val` plus extents, vectors `Nat → Val`.

  `WaveDiff.multi` mirrors the code AFTER fix F1 (`len(subtrahend_idxs) > 0` instead of
  `any(subtrahend_idxs)`); the unfixed predicate is kept as `WaveDiff.multiLegacy` so that the
  difference can be stated (Props/C04 `wave_diff_multi_legacy_counterexample`).
-/
import CrCube.Model.Tensor

namespace CrCube

/-- `_Subtotal`, reduced to what the block computations read. -/
structure Subtotal where
  addendIdxs : List Nat
  subtrahendIdxs : List Nat
  deriving Repr, DecidableEq, Inhabited

namespace Subtotal

/-- `len(subtotal.subtrahend_idxs) > 0` (= `is_difference`) -/
def isDiff (s : Subtotal) : Bool := !s.subtrahendIdxs.isEmpty

end Subtotal

/-- An insertion dict as far as the gauntlet and the id lists are concerned. -/
structure Insertion where
  /-- it is a dict whose `function` is `"subtotal"` -/
  isSubtotalFn : Bool := true
  /-- `hide is True` -/
  hide : Bool := false
  /-- both keys `anchor` and `name` present -/
  hasAnchorName : Bool := true
  /-- `kwargs.positive` (`[]` when absent) -/
  kwPositive : List Int := []
  /-- `args` (`[]` when absent) -/
  args : List Int := []
  /-- `kwargs.negative` (`[]` when absent) -/
  negative : List Int := []
  deriving Repr, DecidableEq, Inhabited

namespace Insertion

/-- `kwargs.get("positive") or args` -/
def positive (i : Insertion) : List Int := if i.kwPositive.isEmpty then i.args else i.kwPositive

/-- `_iter_valid_subtotal_dicts`: does this dict survive? -/
def passes (validIds : List Int) (i : Insertion) : Bool :=
  i.isSubtotalFn && !i.hide && i.hasAnchorName
    && (!i.positive.isEmpty || !i.negative.isEmpty)
    && (i.positive ++ i.negative).any (fun x => validIds.contains x)

end Insertion

/-- `tuple(arg for arg in ids if arg in valid_elements.element_ids)` -/
def keepValidIds (validIds ids : List Int) : List Int := ids.filter (fun x => validIds.contains x)

/-- `np.fromiter(idx for idx, v in enumerate(valid_elements) if v.element_id in ids)`:
    ascending positions, each at most once, whatever the order / multiplicity in `ids`. -/
def idxsOfIds (validIds ids : List Int) : List Nat :=
  (List.range validIds.length).filter (fun k => ids.contains (validIds.getD k 0))

/-- `_Subtotal(subtotal_dict, valid_elements)` -/
def Insertion.toSubtotal (validIds : List Int) (i : Insertion) : Subtotal :=
  { addendIdxs := idxsOfIds validIds (keepValidIds validIds i.positive)
    subtrahendIdxs := idxsOfIds validIds (keepValidIds validIds i.negative) }

/-- `_Subtotals._subtotals` for one list of insertion dicts -/
def resolveSubtotals (validIds : List Int) (ins : List Insertion) : List Subtotal :=
  (ins.filter (Insertion.passes validIds)).map (Insertion.toSubtotal validIds)

/-- `Dimension.subtotals`: array dimensions (MR_SUBVAR, CA_SUBVAR) never have subtotals; a
    transforms dict that HAS the key `insertions` (even an empty list) replaces the view-level
    insertions entirely. -/
def dimensionSubtotals (isArrayDim : Bool) (validIds : List Int)
    (transformIns : Option (List Insertion)) (viewIns : List Insertion) : List Subtotal :=
  if isArrayDim then []
  else match transformIns with
    | some ins => resolveSubtotals validIds ins
    | none => resolveSubtotals validIds viewIns

/-- `np.sum(f[idxs])` -/
def sumAt (idxs : List Nat) (f : Nat → Val) : Val := Val.sum (idxs.map f)

/-- The four blocks of a measure: body `nr × nc`, inserted columns `nr × ncs`, inserted rows
    `nrs × nc`, intersections `nrs × ncs`. -/
structure Blocks where
  nr : Nat
  nc : Nat
  nrs : Nat
  ncs : Nat
  body : Nat → Nat → Val
  insCols : Nat → Nat → Val
  insRows : Nat → Nat → Val
  inter : Nat → Nat → Val

namespace Blocks

def bodyL (b : Blocks) : List (List Val) := tab2 b.nr b.nc b.body
def insColsL (b : Blocks) : List (List Val) := tab2 b.nr b.ncs b.insCols
def insRowsL (b : Blocks) : List (List Val) := tab2 b.nrs b.nc b.insRows
def interL (b : Blocks) : List (List Val) := tab2 b.nrs b.ncs b.inter

/-- cellwise combination of two block quadruples (numpy broadcasting of equal shapes) -/
def zipWith (f : Val → Val → Val) (a b : Blocks) : Blocks :=
  { a with
    body := fun i j => f (a.body i j) (b.body i j)
    insCols := fun i j => f (a.insCols i j) (b.insCols i j)
    insRows := fun i j => f (a.insRows i j) (b.insRows i j)
    inter := fun i j => f (a.inter i j) (b.inter i j) }

end Blocks

/-- k-th subtotal of a list (the default is never reached below the list's length) -/
def subAt (l : List Subtotal) (k : Nat) : Subtotal := l.getD k ⟨[], []⟩

/-! ## matrix/subtotals.py -/

namespace SumSub

/-- `SumSubtotals._subtotal_row` -/
def row (b : Nat → Nat → Val) (diffRowsNan : Bool) (s : Subtotal) (j : Nat) : Val :=
  if diffRowsNan && s.isDiff then .nan
  else sumAt s.addendIdxs (fun i => b i j) - sumAt s.subtrahendIdxs (fun i => b i j)

/-- `SumSubtotals._subtotal_column` -/
def col (b : Nat → Nat → Val) (diffColsNan : Bool) (s : Subtotal) (i : Nat) : Val :=
  if diffColsNan && s.isDiff then .nan
  else sumAt s.addendIdxs (fun j => b i j) - sumAt s.subtrahendIdxs (fun j => b i j)

/-- `SumSubtotals._intersection` (accumulates the row subtotal first, then its columns) -/
def inter (b : Nat → Nat → Val) (diffColsNan diffRowsNan : Bool) (rs cs : Subtotal) : Val :=
  if (cs.isDiff && rs.isDiff) || (cs.isDiff && diffColsNan) || (rs.isDiff && diffRowsNan) then .nan
  else sumAt cs.addendIdxs (row b diffRowsNan rs) - sumAt cs.subtrahendIdxs (row b diffRowsNan rs)

/-- the same intersection accumulated in the other direction (column subtotal first) -/
def interColsFirst (b : Nat → Nat → Val) (diffColsNan diffRowsNan : Bool) (rs cs : Subtotal) : Val :=
  if (cs.isDiff && rs.isDiff) || (cs.isDiff && diffColsNan) || (rs.isDiff && diffRowsNan) then .nan
  else sumAt rs.addendIdxs (col b diffColsNan cs) - sumAt rs.subtrahendIdxs (col b diffColsNan cs)

/-- `SumSubtotals.blocks(base_values, dimensions, diff_cols_nan, diff_rows_nan)` -/
def blocks (b : Nat → Nat → Val) (nr nc : Nat) (rowSubs colSubs : List Subtotal)
    (diffColsNan diffRowsNan : Bool) : Blocks :=
  { nr := nr, nc := nc, nrs := rowSubs.length, ncs := colSubs.length
    body := b
    insCols := fun i l => col b diffColsNan (subAt colSubs l) i
    insRows := fun k j => row b diffRowsNan (subAt rowSubs k) j
    inter := fun k l => inter b diffColsNan diffRowsNan (subAt rowSubs k) (subAt colSubs l) }

end SumSub

namespace PosSub

/-- `PositiveTermSubtotals._subtotal_row` -/
def row (b : Nat → Nat → Val) (s : Subtotal) (j : Nat) : Val := sumAt s.addendIdxs (fun i => b i j)
/-- `PositiveTermSubtotals._subtotal_column` -/
def col (b : Nat → Nat → Val) (s : Subtotal) (i : Nat) : Val := sumAt s.addendIdxs (fun j => b i j)
/-- `PositiveTermSubtotals._intersection` -/
def inter (b : Nat → Nat → Val) (rs cs : Subtotal) : Val :=
  if cs.isDiff && rs.isDiff then .nan else sumAt cs.addendIdxs (row b rs)

def blocks (b : Nat → Nat → Val) (nr nc : Nat) (rowSubs colSubs : List Subtotal) : Blocks :=
  { nr := nr, nc := nc, nrs := rowSubs.length, ncs := colSubs.length
    body := b
    insCols := fun i l => col b (subAt colSubs l) i
    insRows := fun k j => row b (subAt rowSubs k) j
    inter := fun k l => inter b (subAt rowSubs k) (subAt colSubs l) }

end PosSub

namespace NegSub

/-- `NegativeTermSubtotals._subtotal_row` -/
def row (b : Nat → Nat → Val) (s : Subtotal) (j : Nat) : Val := sumAt s.subtrahendIdxs (fun i => b i j)
/-- `NegativeTermSubtotals._subtotal_column` -/
def col (b : Nat → Nat → Val) (s : Subtotal) (i : Nat) : Val := sumAt s.subtrahendIdxs (fun j => b i j)
/-- `NegativeTermSubtotals._intersection` -/
def inter (b : Nat → Nat → Val) (rs cs : Subtotal) : Val :=
  if cs.isDiff && rs.isDiff then .nan
  else if cs.isDiff then sumAt cs.subtrahendIdxs (fun j => sumAt rs.addendIdxs (fun i => b i j))
  else if rs.isDiff then sumAt rs.subtrahendIdxs (fun i => sumAt cs.addendIdxs (fun j => b i j))
  else .fin 0

/-- the body block of the negative-term blocks is all zero -/
def blocks (b : Nat → Nat → Val) (nr nc : Nat) (rowSubs colSubs : List Subtotal) : Blocks :=
  { nr := nr, nc := nc, nrs := rowSubs.length, ncs := colSubs.length
    body := fun _ _ => .fin 0
    insCols := fun i l => col b (subAt colSubs l) i
    insRows := fun k j => row b (subAt rowSubs k) j
    inter := fun k l => inter b (subAt rowSubs k) (subAt colSubs l) }

end NegSub

namespace NanSub

/-- `NanSubtotals.blocks` -/
def blocks (b : Nat → Nat → Val) (nr nc : Nat) (rowSubs colSubs : List Subtotal) : Blocks :=
  { nr := nr, nc := nc, nrs := rowSubs.length, ncs := colSubs.length
    body := b
    insCols := fun _ _ => .nan
    insRows := fun _ _ => .nan
    inter := fun _ _ => .nan }

end NanSub

namespace OverlapSub

/-- `OverlapSubtotals`: `SumSubtotals` whose inserted rows all repeat base row 0 -/
def blocks (b : Nat → Nat → Val) (nr nc : Nat) (rowSubs colSubs : List Subtotal)
    (diffColsNan diffRowsNan : Bool) : Blocks :=
  { SumSub.blocks b nr nc rowSubs colSubs diffColsNan diffRowsNan with
    insRows := fun _ j => b 0 j }

end OverlapSub

namespace WaveDiff

/-- `_multiple_subtrahends_or_addends` AFTER fix F1: there are subtrahends and more than one
    term on either side. -/
def multi (s : Subtotal) : Bool :=
  s.isDiff && (decide (s.subtrahendIdxs.length > 1) || decide (s.addendIdxs.length > 1))

/-- the predicate as it stands in the unfixed tree: `any(subtrahend_idxs)` is the truthiness
    of the indices, false for `[0]` -/
def multiLegacy (s : Subtotal) : Bool :=
  s.subtrahendIdxs.any (fun i => i != 0)
    && (decide (s.subtrahendIdxs.length > 1) || decide (s.addendIdxs.length > 1))

/-- difference of the two percentages -/
def pctDiff (bases counts : Nat → Val) (s : Subtotal) : Val :=
  sumAt s.addendIdxs counts / sumAt s.addendIdxs bases
    - sumAt s.subtrahendIdxs counts / sumAt s.subtrahendIdxs bases

/-- `WaveDiffSubtotal._subtotal_column` -/
def col (bases counts : Nat → Nat → Val) (colsCatDate : Bool) (s : Subtotal)
    (default : Nat → Val) (i : Nat) : Val :=
  if colsCatDate && s.isDiff then
    if multi s then .nan else pctDiff (fun j => bases i j) (fun j => counts i j) s
  else default i

/-- `WaveDiffSubtotal._subtotal_row` -/
def row (bases counts : Nat → Nat → Val) (rowsCatDate : Bool) (s : Subtotal)
    (default : Nat → Val) (j : Nat) : Val :=
  if rowsCatDate && s.isDiff then
    if multi s then .nan else pctDiff (fun i => bases i j) (fun i => counts i j) s
  else default j

end WaveDiff

/-! ## stripe/insertion.py -/

namespace Stripe

/-- `SumSubtotals._subtotal_value` -/
def sumVal (b : Nat → Val) (s : Subtotal) : Val := sumAt s.addendIdxs b - sumAt s.subtrahendIdxs b
/-- `PositiveTermSubtotals._subtotal_value` -/
def posVal (b : Nat → Val) (s : Subtotal) : Val := sumAt s.addendIdxs b
/-- `NegativeTermSubtotals._subtotal_value` -/
def negVal (b : Nat → Val) (s : Subtotal) : Val := sumAt s.subtrahendIdxs b
/-- `NanSubtotals` -/
def nanVal (_b : Nat → Val) (_s : Subtotal) : Val := .nan

/-- `WaveDiffSubtotals._subtotal_value` (with the dimension-type test of `_subtotal_values`).
    NB the 1-D twin needs addends AND subtrahends to be non-empty. -/
def waveVal (bases counts : Nat → Val) (rowsCatDate : Bool) (s : Subtotal) (default : Val) : Val :=
  if rowsCatDate && s.isDiff && !s.addendIdxs.isEmpty then
    if WaveDiff.multi s then .nan else WaveDiff.pctDiff bases counts s
  else default

def subtotalValues (f : Subtotal → Val) (subs : List Subtotal) : List Val := subs.map f

end Stripe

end CrCube
