/-
  `_Slice._diff_element_idxs` (shared by `diff_row_idxs` / `diff_column_idxs`) and `_Strand.diff_row_idxs`:
  the display positions whose population estimates are blanked.

      n_valids = len(dimension.valid_elements)
      diffs = [False] * n_valids + [e.is_difference for e in dimension.subtotals]
      return tuple(np.where(np.array(diffs)[order])[0])

  The decision is POSITIONAL: the signed display index -k names the k-th-from-last subtotal of
  `dimension.subtotals`, whatever "id" that insertion carries. `diffIdxsById` is NOT the code: it is the
  reading "an insertion is identified by its id", kept to state when the two agree (`Nodup` ids) and that they
  differ otherwise (ids are not unique: the library numbers id-less transform insertions by list position,
  which collides with explicit ids).
-/
import CrCube.Model.Pipeline

namespace CrCube.DiffIdxs
open CrCube CrCube.Pipeline

/-- `_Slice._diff_element_idxs(dimension, order)` / `_Strand.diff_row_idxs` -/
def diffIdxs (nValid : Nat) (isDiff : List Bool) (order : List Int) : List Nat :=
  flagPositions (List.replicate nValid false ++ isDiff) order

/-- ids of the difference subtotals -/
def diffIds (ids : List Int) (isDiff : List Bool) : List Int :=
  ((ids.zip isDiff).filter (fun p => p.2)).map (fun p => p.1)

/-- the by-id reading (not the code): inserted positions whose insertion id is the id of a difference -/
def diffIdxsById (ids : List Int) (isDiff : List Bool) (order : List Int) : List Nat :=
  trueIdxs (order.map (fun si =>
    decide (si < 0) && (diffIds ids isDiff).contains (ids.getD (wrapIdx ids.length si) 0)))

end CrCube.DiffIdxs
