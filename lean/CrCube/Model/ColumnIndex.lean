/-
  Mirror of `cr.cube.matrix.cubemeasure._BaseUnconditionalCubeCounts` (factory + the four
  `.baseline` variants) and of `cr.cube.matrix.measure._ColumnIndex`.

  The baseline is the only computation of the library that reads the raw cube array
  *including its missing elements* (`Cube.counts_with_missings`).

  `uncondSlice … (fixed := true)` mirrors the code AFTER fix F4 (/repo commit 1fb198db:
  `_BaseUnconditionalCubeCounts._slice_idx_expr` override): the partition number `k` (a
  position among the VALID elements of the table dimension) is translated to the raw index
  of that element before it indexes the array that still contains the missing elements.
  `fixed := false` is the code as found before that commit (index used as is);
  `Props/C16.lean` shows that it refutes C16.
-/
import CrCube.Model.Slice

namespace CrCube

/-- `_BaseUnconditionalCubeCounts.factory`: `counts_with_missings[_slice_idx_expr(cube, slice_idx)]`.
    `tableValid` = `cube.dimensions[0].valid_elements.element_idxs`. -/
def uncondSlice (ndim : Nat) (tableKind : DK) (tableValid : List Nat) (k : Nat) (raw : FT)
    (fixed : Bool := true) : FT :=
  if ndim < 3 then raw
  else
    let k' := if fixed then tableValid.getD k 0 else k
    if tableKind = .mr then (raw.slice0 k').slice0 0 else raw.slice0 k'

/-- `_CatXCatUnconditionalCubeCounts.baseline` (shape (nrows, 1), broadcast over columns).
    `c : [rows incl. missing, columns incl. missing]`, `rv` = valid row element idxs. -/
def baselineCatXCat (c : FT) (rv : List Nat) : Nat → Nat → Val :=
  let margin := fun i => vsum (c.dim 1) (fun j => c.get [rv.getD i 0, j])
  let total := vsum rv.length margin
  fun i _ => margin i / total

/-- `_CatXMrUnconditionalCubeCounts.baseline`; `c : [rows incl. missing, items, 3]`. -/
def baselineCatXMr (c : FT) (rv : List Nat) : Nat → Nat → Val :=
  let margin := fun i j => vsum (c.dim 2) (fun t => c.get [rv.getD i 0, j, t])
  fun i j => margin i j / vsum rv.length (fun i' => margin i' j)

/-- `_MrXCatUnconditionalCubeCounts.baseline`; `c : [items, 3, columns incl. missing]`.
    `[:, 0:2]` keeps the selected and other planes. -/
def baselineMrXCat (c : FT) (rv : List Nat) : Nat → Nat → Val :=
  let margin := fun i => vsum (c.dim 2) (fun j => c.get [rv.getD i 0, 0, j])
  let tmargin := fun i =>
    vsum (min 2 (c.dim 1)) (fun s => vsum (c.dim 2) (fun j => c.get [rv.getD i 0, s, j]))
  fun i _ => margin i / tmargin i

/-- `_MrXMrUnconditionalCubeCounts.baseline`; `c : [items, 3, items, 3]` (no valid-row selection). -/
def baselineMrXMr (c : FT) : Nat → Nat → Val :=
  let margin := fun i j => vsum (c.dim 3) (fun t => c.get [i, 0, j, t])
  let tmargin := fun i j =>
    vsum (min 2 (c.dim 1)) (fun s => vsum (c.dim 3) (fun t => c.get [i, s, j, t]))
  fun i j => margin i j / tmargin i j

/-- class selection of the factory: only MR is distinguished, everything else is "CAT" -/
def baselineOf (rk ck : DK) (c : FT) (rv : List Nat) : Nat → Nat → Val :=
  match rk, ck with
  | .mr, .mr => baselineMrXMr c
  | .mr, _ => baselineMrXCat c rv
  | _, .mr => baselineCatXMr c rv
  | _, _ => baselineCatXCat c rv

/-- `_ColumnIndex._column_index` for one base cell: `100 * ((counts / column_base) / baseline)` -/
def columnIndexBase (count colBase baseline : Val) : Val :=
  (.fin 100) * ((count / colBase) / baseline)

/-- `_ColumnIndex.blocks` = `NanSubtotals.blocks(_column_index)`: a displayed cell is a base
    cell or an inserted one (subtotal row, subtotal column, intersection): NaN there. -/
def columnIndexCell (inserted : Bool) (count colBase baseline : Val) : Val :=
  if inserted then .nan else columnIndexBase count colBase baseline

/-- valid element idxs of the rows dimension (`dimensions[-2].valid_elements.element_idxs`) and
    of the table dimension of a cube over `vars` (one entry per APPARENT dimension) -/
def apparentValidIdxs (vars : List Var) : List (List Nat) :=
  vars.flatMap (fun v => match v.kind with
    | .cat => [validIdxs v.catMissing]
    | .arr => if v.isMR then [List.range v.n] else [List.range v.n, validIdxs v.catMissing])

/-- the whole pipeline from the RAW cube array (missing elements included) of a cube over
    `vars` to the baseline of partition `k` -/
def baselineOfCube (vars : List Var) (raw : FT) (k : Nat) (fixed : Bool := true) : Nat → Nat → Val :=
  let kinds := apparentKinds vars
  let nd := kinds.length
  let av := apparentValidIdxs vars
  baselineOf (kinds.getD (nd - 2) .cat) (kinds.getD (nd - 1) .cat)
    (uncondSlice nd (kinds.getD 0 .cat) (av.getD 0 []) k raw fixed) (av.getD (nd - 2) [])

/-- `_Slice.column_index` on the base block, from the raw cube array -/
def columnIndexOfCube (vars : List Var) (raw : FT) (k : Nat) (fixed : Bool := true) : Nat → Nat → Val :=
  let m := sliceCounts vars raw k
  let b := baselineOfCube vars raw k fixed
  fun i j => columnIndexBase (m.counts i j) (m.columnBases i j) (b i j)

end CrCube
