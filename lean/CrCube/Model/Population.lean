/-
  Model of the population-estimate code (C17):

  * `populationFraction`   – `cube.py::_Measures.population_fraction` on the RAW `result` dict, the
                             `.get(k, {})` chain, truthiness test, `[]` lookups and `+` OUTSIDE the
                             try block (they can raise), the division inside it.
  * `cubeSetFraction`      – `CubeSet.population_fraction` (first cube's).
  * `PopMode` / `popMode`  – `matrix/measure.py::_PopulationProportions` / `_PopulationStandardError`:
                             rows CAT_DATE → row proportions, else columns CAT_DATE → column proportions,
                             else table proportions (rows win when both are CAT_DATE).
  * `Slice*`               – `cubepart.py::_Slice.population_proportions / population_counts /
                             population_std_err / population_counts_moe`.
  * `Strand*`              – `stripe/measure.py::_PopulationProportions / _PopulationProportionStderrs`
                             (CAT_DATE rows: proportion 1, std-err 0) and the `_Strand` twins.
  No Mathlib; executable.
-/
import CrCube.Model.Json

namespace CrCube.Population
open CrCube

/-- `Z_975 = 1.959964` (cubepart.py) -/
def Z975 : Rat := 1959964 / 1000000

/-- the `else` branch: `result.get("filtered", {}).get("weighted_n")` over
    `result.get("unfiltered", {}).get("weighted_n")` -/
def oldStyle (result : J) : Except PyErr Val := do
  let filtered ← result.pyGet "filtered" J.empty
  let numerator ← filtered.pyGet "weighted_n" J.null
  let unfiltered ← result.pyGet "unfiltered" J.empty
  let denominator ← unfiltered.pyGet "weighted_n" J.null
  pure (J.tryDiv numerator denominator)

/-- the `if weighted_filtered_complete:` branch -/
def newStyle (filterStats wfc : J) : Except PyErr Val := do
  let isCatDate ← filterStats.pyGet "is_cat_date" J.null
  if isCatDate.truthy then
    pure (Val.fin 1)
  else
    let numerator ← wfc.pyItem "selected"
    let other ← wfc.pyItem "other"
    let denominator ← numerator.pyAdd other
    pure (J.tryDiv numerator denominator)

/-- `_Measures.population_fraction` on `self._cube_dict["result"]`.
    `.error e` = the Python exception that escapes the property (everything but the final division
    sits OUTSIDE the try block). -/
def populationFraction (result : J) : Except PyErr Val := do
  let filterStats ← result.pyGet "filter_stats" J.empty
  let filteredComplete ← filterStats.pyGet "filtered_complete" J.empty
  let wfc ← filteredComplete.pyGet "weighted" J.null
  if wfc.truthy then newStyle filterStats wfc else oldStyle result

/-- `Cube.population_fraction` -/
def cubeFraction (response : J) : Except PyErr Val := do
  let result ← response.pyItem "result"
  populationFraction result

/-- `CubeSet.population_fraction`: `self._cubes[0].population_fraction` -/
def cubeSetFraction (results : List J) : Except PyErr Val :=
  match results with
  | r :: _ => populationFraction r
  | [] => .error .typeError   -- IndexError in Python; a CubeSet always has ≥ 1 cube

/-! ### which proportion -/

inductive PopMode where
  | rows | cols | table
  deriving Repr, DecidableEq, Inhabited

/-- `_PopulationProportions.blocks` / `_PopulationStandardError.blocks` selection -/
def popMode (rowsCatDate colsCatDate : Bool) : PopMode :=
  if rowsCatDate then .rows else if colsCatDate then .cols else .table

/-- the inputs of the slice-level population measures: the three ASSEMBLED proportion matrices and
    the three assembled standard-error matrices (display row × display column), the dimension types
    and the display positions of subtotal differences. -/
structure SliceIn where
  rowsCatDate : Bool
  colsCatDate : Bool
  rowProps : Nat → Nat → Val
  colProps : Nat → Nat → Val
  tableProps : Nat → Nat → Val
  rowSE : Nat → Nat → Out
  colSE : Nat → Nat → Out
  tableSE : Nat → Nat → Out
  diffRows : List Nat
  diffCols : List Nat

/-- `_assemble_matrix(self._measures.population_proportions.blocks)` -/
def SliceIn.chosenProps (s : SliceIn) : Nat → Nat → Val :=
  match popMode s.rowsCatDate s.colsCatDate with
  | .rows => s.rowProps
  | .cols => s.colProps
  | .table => s.tableProps

/-- `_Slice.population_std_err` -/
def SliceIn.popStdErr (s : SliceIn) : Nat → Nat → Out :=
  match popMode s.rowsCatDate s.colsCatDate with
  | .rows => s.rowSE
  | .cols => s.colSE
  | .table => s.tableSE

/-- `_Slice.population_proportions`: difference rows / columns overwritten with NaN -/
def SliceIn.popProps (s : SliceIn) (i j : Nat) : Val :=
  if s.diffCols.contains j then Val.nan
  else if s.diffRows.contains i then Val.nan
  else s.chosenProps i j

/-- `_Slice.population_counts`: `population_proportions * population * population_fraction` -/
def SliceIn.popCounts (s : SliceIn) (population fraction : Val) (i j : Nat) : Val :=
  s.popProps i j * population * fraction

/-- `Z_975 * (population * fraction) * std_err` on a symbolic std-err -/
def moe (population fraction : Val) (se : Out) : Out :=
  match population * fraction with
  | .fin t => Out.scale (Z975 * t) se
  | _ => Out.v Val.nan       -- nan·x = nan (population is finite, so the product is never ±inf)

/-- `_Slice.population_counts_moe` -/
def SliceIn.popMoe (s : SliceIn) (population fraction : Val) (i j : Nat) : Out :=
  moe population fraction (s.popStdErr i j)

/-! ### strands -/

structure StrandIn where
  rowsCatDate : Bool
  tableProps : Nat → Val          -- assembled table proportions (base values then subtotals, ordered)
  tableSE : Nat → Out             -- assembled table-proportion std-errs
  diffRows : List Nat

/-- stripe `_PopulationProportions`: all ones for a CAT_DATE rows dimension -/
def StrandIn.chosenProps (s : StrandIn) (i : Nat) : Val :=
  if s.rowsCatDate then Val.fin 1 else s.tableProps i

/-- stripe `_PopulationProportionStderrs`: all zeros for a CAT_DATE rows dimension -/
def StrandIn.popStdErr (s : StrandIn) (i : Nat) : Out :=
  if s.rowsCatDate then Out.v (Val.fin 0) else s.tableSE i

/-- `_Strand.population_proportions` -/
def StrandIn.popProps (s : StrandIn) (i : Nat) : Val :=
  if s.diffRows.contains i then Val.nan else s.chosenProps i

/-- `_Strand.population_counts` -/
def StrandIn.popCounts (s : StrandIn) (population fraction : Val) (i : Nat) : Val :=
  s.popProps i * population * fraction

/-- `_Strand.population_counts_moe` -/
def StrandIn.popMoe (s : StrandIn) (population fraction : Val) (i : Nat) : Out :=
  moe population fraction (s.popStdErr i)

end CrCube.Population
