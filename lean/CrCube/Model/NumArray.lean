/-
  Numeric arrays (DT.NUM_ARRAY) and the generalised "all dimensions" view of a cube.

  Mirrors
    * `Cube._numeric_array_dimension` / `Cube._all_dimensions`: when the numeric measures carry
      `metadata.type.subvariables`, a pseudo-dimension with one (never missing) element per
      subvariable is PREPENDED to the response's dimensions;
    * `Dimensions.dimension_order` and `Dimensions.shape`: the back end lays a numeric-array
      measure out as (group dimensions ..., items); the library reshapes to the permuted shape;
    * `Cube._valid_idxs`: `np.ix_` of the valid element positions, permuted by the same order;
    * `_BaseCubeMeasure._slice_idx_expr`, `_BaseCubeCounts.factory` (ARR kinds),
      `_BaseCubeMeans/_Medians/_StdDev/_Sums.factory` (matrix: which plane of an MR axis),
      stripe `_BaseCubeCounts.factory` incl. `_NumArrCubeCounts`, stripe numeric extractors.
-/
import CrCube.Model.Slice

namespace CrCube

/-- `Dimensions.dimension_order` as written in the code:
    `dim_order[-2:] + (dim_order[0],) if len(self) == 3 else dim_order[::-1]` when there are at
    least two dimensions one of which is the numeric-array pseudo-dimension. -/
def dimOrder (n : Nat) (hasNumArr : Bool) : List Nat :=
  if 2 ≤ n ∧ hasNumArr = true then
    (if n = 3 then [1, 2, 0] else (List.range n).reverse)
  else List.range n

/-- The rotation `dim_order[1:] + (dim_order[0],)`: "the numeric-array pseudo-dimension (always
    first) goes last".  This is what the back-end layout (group dimensions ..., items) calls for
    with ANY number of dimensions; `dimOrder` coincides with it for 2 and 3 dimensions (the only
    layouts evidenced by real payloads) and differs from 4 on (see fixes/F30_*.diff). -/
def dimOrderRot (n : Nat) (hasNumArr : Bool) : List Nat :=
  if 2 ≤ n ∧ hasNumArr = true then (List.range n).tail ++ [0] else List.range n

/-- `raw[tuple(np.ix_(*valid)[i] for i in order)]`: numpy advanced indexing with the open-mesh
    arrays re-ordered.  Mesh array `i` varies along result axis `i`, so the result keeps the
    ORIGINAL dimension order as its axes while raw axis `p` is indexed with the valid
    positions of dimension `order[p]`. -/
def permTake (raw : FT) (valid : List (List Nat)) (order : List Nat) : FT :=
  ⟨valid.map List.length,
   fun es => raw.get (order.map (fun i => (valid.getD i []).getD (es.getD i 0) 0))⟩

/-- the design of a cube response: grouping variables (response `dimensions`, in order) and,
    for a numeric-array measure, the number of subvariables in the measures' metadata -/
structure NDesign where
  vars : List Var
  numItems : Option Nat := none
  deriving Repr, Inhabited

namespace NDesign

def hasNumArr (d : NDesign) : Bool := d.numItems.isSome

/-- element count of every dimension of `Cube._all_dimensions` (pseudo-dimension first) -/
def sizes (d : NDesign) : List Nat := d.numItems.toList ++ rawShapeOf d.vars

/-- `d.valid_elements.element_idxs` per dimension; numeric-array elements are never missing -/
def valid (d : NDesign) : List (List Nat) :=
  d.numItems.toList.map List.range ++ d.vars.flatMap Var.validAxes

/-- apparent dimension kinds; NUM_ARRAY is an ARRAY_TYPE ('ARR') and is not MR -/
def kinds (d : NDesign) : List DK :=
  d.numItems.toList.map (fun _ => DK.arr) ++ apparentKinds d.vars

def order (d : NDesign) : List Nat := dimOrder d.sizes.length d.hasNumArr
/-- the rotation in place of the code's order (contract view; equal for ≤ 3 dimensions) -/
def orderRot (d : NDesign) : List Nat := dimOrderRot d.sizes.length d.hasNumArr

/-- `Dimensions.shape` = `_BaseMeasure._shape` -/
def shape (d : NDesign) : List Nat := d.order.map (fun i => d.sizes.getD i 0)
def shapeRot (d : NDesign) : List Nat := d.orderRot.map (fun i => d.sizes.getD i 0)

/-- `raw_cube_array[self._valid_idxs]` -/
def view (d : NDesign) (raw : FT) : FT := permTake raw d.valid d.order
def viewRot (d : NDesign) (raw : FT) : FT := permTake raw d.valid d.orderRot

def ndim (d : NDesign) : Nat := d.kinds.length

/-- `Cube._slice_idxs` (no CA-as-0th) -/
def nPartitions (d : NDesign) : Nat :=
  if d.ndim < 3 then 1 else (d.valid.headD []).length

def rk (d : NDesign) : DK := d.kinds.getD (d.ndim - 2) .cat
def ck (d : NDesign) : DK := d.kinds.getD (d.ndim - 1) .cat

/-- `cube.<measure>[_slice_idx_expr]` -/
def sliceArr (d : NDesign) (raw : FT) (k : Nat) : FT :=
  sliceExpr d.ndim (d.kinds.getD 0 .cat) k (d.view raw)

/-- the count extractor of partition k built on an arbitrary raw measure array -/
def sliceCounts (d : NDesign) (raw : FT) (k : Nat) : MatCounts :=
  MatCounts.factory d.rk d.ck (d.sliceArr raw k)

end NDesign

/-- `_BaseCubeMeans.factory` (and the Medians / StdDev / Sums twins): only MR matters; every
    other dimension type (CAT, CA_SUBVAR, CA_CAT, NUM_ARRAY, ...) is read as is -/
def numericExtract (rk ck : DK) (c : FT) : Nat → Nat → Val :=
  if rk = .mr ∧ ck = .mr then fun i j => c.get [i, 0, j, 0]
  else if rk = .mr then fun i j => c.get [i, 0, j]
  else if ck = .mr then fun i j => c.get [i, j, 0]
  else fun i j => c.get [i, j]

/-- extent of the numeric base values: `means[:, 0, :]` etc. keep axis 0 and the column axis -/
def numericNCols (rk : DK) (c : FT) : Nat := if rk = .mr then c.dim 2 else c.dim 1

def NDesign.sliceNumeric (d : NDesign) (raw : FT) (k : Nat) : Nat → Nat → Val :=
  numericExtract d.rk d.ck (d.sliceArr raw k)

/-- `_NumArrCubeCounts`: bases = counts = pruning base = the (valid-)counts themselves -/
def StripeCounts.numArr (c : FT) : StripeCounts :=
  { n := c.dim 0, counts := fun i => c.get [i], bases := fun i => c.get [i], tableBase := none
    pruningBase := fun i => c.get [i] }

inductive StripeKind where
  | cat | mr | numArr
  deriving DecidableEq, Repr

/-- stripe `_BaseCubeCounts.factory` (no CA-as-0th): NUM_ARRAY, then MR, else CAT -/
def NDesign.stripeKind (d : NDesign) : StripeKind :=
  match d.kinds with
  | [.mr] => .mr
  | [.arr] => if d.hasNumArr then .numArr else .cat
  | _ => .cat

def NDesign.strandCounts (d : NDesign) (raw : FT) : StripeCounts :=
  match d.stripeKind with
  | .numArr => StripeCounts.numArr (d.view raw)
  | .mr => StripeCounts.mr (d.view raw)
  | .cat => StripeCounts.cat (d.view raw)

/-- stripe `_BaseCubeMeans.factory` etc.: `[:, 0]` for MR, as is otherwise -/
def NDesign.strandNumeric (d : NDesign) (raw : FT) : Nat → Val :=
  match d.stripeKind with
  | .mr => fun i => (d.view raw).get [i, 0]
  | _ => fun i => (d.view raw).get [i]

/-- 0-D cube: the scalar -/
def NDesign.nubValue (d : NDesign) (raw : FT) : Val := (d.view raw).get []

end CrCube
