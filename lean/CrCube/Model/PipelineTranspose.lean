/-
  Transposition of the END-TO-END pipeline's input and output (property C10 on
  `Model/Pipeline.lean`): what "exchange the two dimensions and transpose the data" means for

    * the raw cube arrays        `transposeRaw`  (the axis groups of the last two variables exchanged)
    * the cube side              `CubeData.transpose`
    * the count extractor object `MatCounts.transpose`   (row direction <-> column direction)
    * the four blocks            `Blocks.transpose`      ([0][1] <-> [1][0])
    * measure keywords           `MKey.mirror`, `Dir.mirror`  (row_* <-> col_*)
    * assembled matrices         `transposeLL`
    * the assembled outputs      `SliceOut.transposeOf` (executable comparison used by the driver)

  Definitions only, executable, no Mathlib.  The theorems are in `Props/C10_Pipeline.lean`.
-/
import CrCube.Model.Pipeline

namespace CrCube.Pipeline
open CrCube CrCube.Collator

/-! ## raw arrays -/

/-- the raw array of the cube with the last two variables exchanged: `p` leading axes (the table
    variable's) stay, then the `b` axes of the old columns variable, then the `a` axes of the old
    rows variable.  `raw'.get (pre ++ cpart ++ rpart) = raw.get (pre ++ rpart ++ cpart)`. -/
def transposeRaw (p a b : Nat) (raw : FT) : FT :=
  ⟨raw.shape.take p ++ raw.shape.drop (p + a) ++ (raw.shape.drop p).take a,
   fun ix => raw.get (ix.take p ++ ix.drop (p + b) ++ (ix.drop p).take b)⟩

/-- a tensor whose axes are `a` axes of the rows dimension then `b` axes of the columns dimension,
    with the two groups exchanged -/
def swapAxes (a b : Nat) (t : FT) : FT := transposeRaw 0 a b t

/-- a variable that contributes ONE apparent dimension (categorical-like, or multiple response) -/
def OneDim (v : Var) : Prop := v.kind = .arr → v.isMR = true

instance (v : Var) : Decidable (OneDim v) := by unfold OneDim; exact inferInstance

/-- the variables with the last two exchanged: 2-D `[R, C] ↦ [C, R]`, 3-D `[T, R, C] ↦ [T, C, R]` -/
def CubeData.varsT (c : CubeData) : List Var :=
  match c.vars with
  | [R, C] => [C, R]
  | [T, R, C] => [T, C, R]
  | v => v

/-- a raw array of the cube with the axis groups of R and C exchanged -/
def CubeData.rawT (c : CubeData) : FT → FT :=
  match c.vars with
  | [R, C] => transposeRaw 0 R.rank C.rank
  | [T, R, C] => transposeRaw T.rank R.rank C.rank
  | _ => id

/-- **the transposed cube**: the two variables of the slice exchanged, every raw array (weighted and
    unweighted counts, numeric measures) with their axis groups exchanged -/
def CubeData.transpose (c : CubeData) : CubeData :=
  { vars := c.varsT, wraw := c.rawT c.wraw, uraw := c.rawT c.uraw, k := c.k
    sums := c.sums.map c.rawT, means := c.means.map c.rawT, stddevs := c.stddevs.map c.rawT
    medians := c.medians.map c.rawT }

/-- the designs the transposition theorems speak about: two (2-D) or three (3-D) variables, each
    contributing one apparent dimension -/
def CubeData.Transposable (c : CubeData) : Prop :=
  match c.vars with
  | [R, C] => OneDim R ∧ OneDim C
  | [T, R, C] => OneDim T ∧ OneDim R ∧ OneDim C
  | _ => False

instance (c : CubeData) : Decidable c.Transposable := by
  unfold CubeData.Transposable; split <;> exact inferInstance

/-! ## extractor objects and blocks -/

/-- the extractor object of the transposed table: every row-direction member is the
    column-direction member of the original and vice versa -/
def _root_.CrCube.MatCounts.transpose (m : MatCounts) : MatCounts :=
  { nrows := m.ncols, ncols := m.nrows
    counts := fun i j => m.counts j i
    rowBases := fun i j => m.columnBases j i
    columnBases := fun i j => m.rowBases j i
    tableBases := fun i j => m.tableBases j i
    rowsBase := m.columnsBase, columnsBase := m.rowsBase
    rowsTableBase := m.columnsTableBase, columnsTableBase := m.rowsTableBase
    tableBase := m.tableBase
    rowsPruningBase := m.columnsPruningBase, columnsPruningBase := m.rowsPruningBase }

/-- `[[body, ins-cols], [ins-rows, intersections]]` transposed: block [0][1] <-> [1][0] -/
def _root_.CrCube.Blocks.transpose (b : Blocks) : Blocks :=
  { nr := b.nc, nc := b.nr, nrs := b.ncs, ncs := b.nrs
    body := fun i j => b.body j i
    insCols := fun i l => b.insRows l i
    insRows := fun k j => b.insCols j k
    inter := fun k l => b.inter l k }

def _root_.CrCube.SubCtx.mirror (x : SubCtx) : SubCtx :=
  { rowSubs := x.colSubs, colSubs := x.rowSubs, rowsCatDate := x.colsCatDate, colsCatDate := x.rowsCatDate }

def _root_.CrCube.Dir.mirror : Dir → Dir
  | .row => .col
  | .col => .row
  | .table => .table

/-- direction-specific measure keywords exchanged (`row_*` <-> `col_*`); `col_index` has no row
    twin in the library and is mapped to itself (it is EXCLUDED from the theorems) -/
def MKey.mirror : MKey → MKey
  | .rowBasesW => .colBasesW | .colBasesW => .rowBasesW
  | .rowBasesU => .colBasesU | .colBasesU => .rowBasesU
  | .rowProps => .colProps | .colProps => .rowProps
  | .variance d => .variance d.mirror
  | .stdErr d => .stdErr d.mirror
  | .rowShare => .colShare | .colShare => .rowShare
  | k => k

/-- keys whose blocks are transposes under mirrored keywords for EVERY pair of dimensions -/
def MKey.symmetric : MKey → Bool
  | .colIndex | .popProps | .popStdErr => false
  | _ => true

/-- the population keys are transposes unless BOTH dimensions are categorical dates (F9) -/
def MKey.populationKey : MKey → Bool
  | .popProps | .popStdErr => true
  | _ => false

/-- does the measure behind a keyword transpose for dimensions with these categorical-date flags?
    every symmetric keyword always; the population keywords unless BOTH are categorical dates -/
def keyTransposes (rowsCatDate colsCatDate : Bool) (k : MKey) : Bool :=
  k.symmetric || (k.populationKey && !(rowsCatDate && colsCatDate))

/-! ## assembled outputs -/

/-- transpose of a rectangular list of rows with `ncols` columns -/
def transposeLL (ncols : Nat) (m : List (List Val)) : List (List Val) :=
  (List.range ncols).map fun j => m.map fun r => r.getD j .nan

/-- a margin transposed (a vector stays a vector — it follows the OTHER order) -/
def margTranspose (ncols : Nat) : Marg → Marg
  | .scalar v => .scalar v
  | .vec l => .vec l
  | .mat m => .mat (transposeLL ncols m)

/-- the order types the library implements on BOTH axes: everything but `marginal`
    (`_SortRowsByMarginalHelper` has no column twin: sorting columns by a marginal is ignored) -/
def OrderSpec.mirrored : OrderSpec → Bool
  | .marginal _ _ => false
  | _ => true

/-- measure keyword of a sort-by-value order, if any -/
def OrderSpec.key? : OrderSpec → Option MKey
  | .oppElement _ m _ => m
  | .oppInsertion _ m _ => m
  | _ => none

/-- the order spec with its measure keyword mirrored -/
def OrderSpec.mirror : OrderSpec → OrderSpec
  | .oppElement id m o => .oppElement id (m.map MKey.mirror) o
  | .oppInsertion id m o => .oppInsertion id (m.map MKey.mirror) o
  | s => s

def RDim.mirror (d : RDim) : RDim := { d with order := d.order.mirror }
def TDim.mirror (d : TDim) : TDim := { d with order := d.order.mirror }

/-- **what C10 says about the assembled outputs**: `t` is the transpose of `s` — orders, shape and
    every index / label list exchanged; every measure matrix with a transposing keyword transposed
    under the mirrored keyword; row margins / bases <-> column margins / bases; table margin / base -/
structure SliceOut.IsTransposeOf (t s : SliceOut) (ok : MKey → Bool) : Prop where
  rowOrder : t.rowOrder = s.colOrder
  colOrder : t.colOrder = s.rowOrder
  shape : t.shape = (s.shape.2, s.shape.1)
  insertedRowIdxs : t.insertedRowIdxs = s.insertedColIdxs
  insertedColIdxs : t.insertedColIdxs = s.insertedRowIdxs
  diffRowIdxs : t.diffRowIdxs = s.diffColIdxs
  diffColIdxs : t.diffColIdxs = s.diffRowIdxs
  derivedRowIdxs : t.derivedRowIdxs = s.derivedColIdxs
  derivedColIdxs : t.derivedColIdxs = s.derivedRowIdxs
  rowLabelIdxs : t.rowLabelIdxs = s.colLabelIdxs
  colLabelIdxs : t.colLabelIdxs = s.rowLabelIdxs
  mat : ∀ k, ok k = true → t.mat k.mirror = transposeLL s.colOrder.length (s.mat k)
  rowsMargin : t.rowsMargin = margTranspose s.colOrder.length s.columnsMargin
  columnsMargin : t.columnsMargin = margTranspose s.colOrder.length s.rowsMargin
  rowsBase : t.rowsBase = margTranspose s.colOrder.length s.columnsBase
  columnsBase : t.columnsBase = margTranspose s.colOrder.length s.rowsBase
  tableMargin : t.tableMargin = margTranspose s.colOrder.length s.tableMargin
  tableBase : t.tableBase = margTranspose s.colOrder.length s.tableBase

/-- executable twin of `C10.slice_output_transposes`: `t` (the pipeline on the transposed cube with
    the dimensions exchanged and keywords mirrored) is the transpose of `s` on the given keys -/
def SliceOut.transposeOf (t s : SliceOut) (keys : List MKey) : Bool :=
  t.rowOrder == s.colOrder && t.colOrder == s.rowOrder
    && t.shape == (s.shape.2, s.shape.1)
    && t.insertedRowIdxs == s.insertedColIdxs && t.insertedColIdxs == s.insertedRowIdxs
    && t.diffRowIdxs == s.diffColIdxs && t.diffColIdxs == s.diffRowIdxs
    && t.derivedRowIdxs == s.derivedColIdxs && t.derivedColIdxs == s.derivedRowIdxs
    && t.rowLabelIdxs == s.colLabelIdxs && t.colLabelIdxs == s.rowLabelIdxs
    && keys.all (fun k => t.mat k.mirror == transposeLL s.colOrder.length (s.mat k))
    && margBeq t.rowsMargin (margTranspose s.colOrder.length s.columnsMargin)
    && margBeq t.columnsMargin (margTranspose s.colOrder.length s.rowsMargin)
    && margBeq t.rowsBase (margTranspose s.colOrder.length s.columnsBase)
    && margBeq t.columnsBase (margTranspose s.colOrder.length s.rowsBase)
    && margBeq t.tableMargin (margTranspose s.colOrder.length s.tableMargin)
    && margBeq t.tableBase (margTranspose s.colOrder.length s.tableBase)

end CrCube.Pipeline
