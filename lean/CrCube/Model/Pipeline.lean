/-
  END-TO-END model of a 2-D `cubepart._Slice` and of the 1-D `cubepart._Strand`: the existing
  pieces composed exactly as the library composes them.

      typed design (vars) + raw weighted / unweighted cube arrays
        + per dimension: valid elements, view insertions, TRANSFORMS
          (insertions, per-element hide flags, prune flag, order spec)
      ──► `sliceCounts` / `strandCounts`                       (Model/Slice, CubeCounts)
      ──► the four blocks of every measure                     (Model/Subtotals, SubtotalMeasures)
      ──► pruning masks                                        (MatCounts.rowsPruningMask …)
      ──► display orders                                       (Model/Collator: the three
            collators + `matrix.assembler` / `stripe.assembler` order helpers, sort values read
            from THIS pipeline's own blocks, subtotals dropped when the opposing dimension is
            pruned empty)
      ──► assembled public outputs                             (Model/Assemble)

  Nothing is re-modelled here: this file only wires.  No Mathlib; executable.

  Mirrors: `cubepart._Slice.{counts, unweighted_counts, row/column/table_{weighted,unweighted}_bases,
  row/column/table_proportions, rows_margin, columns_margin, rows_base, columns_base,
  table_margin, table_base, row_order, column_order, shape, inserted_*_idxs, diff_*_idxs,
  derived_*_idxs, row_labels/codes/aliases/fills (as indices), _assemble_matrix,
  _assemble_marginal}`, `matrix.assembler._BaseOrderHelper` and its thirteen helper classes,
  `matrix.measure._Margin{Weighted,Unweighted,Table}Base`, `_TableBase`;
  `cubepart._Strand` twins, `stripe.assembler`.
-/
import CrCube.Model.Slice
import CrCube.Model.SliceApi
import CrCube.Model.Assemble
import CrCube.Model.Subtotals
import CrCube.Model.SubtotalMeasures
import CrCube.Model.Collator
import CrCube.Model.Variance
import CrCube.Model.Zscore
import CrCube.Model.ColumnIndex
import CrCube.Model.Scale

namespace CrCube.Pipeline
open CrCube CrCube.Collator

/-! ## small numpy idioms -/

/-- `np.where(mask)[0]` / `idx for idx, e in enumerate(...) if flag` -/
def trueIdxs (l : List Bool) : List Nat := (List.range l.length).filter (fun i => l.getD i false)

/-- `tuple.index(x)`: position of the first equal item (`none` = ValueError) -/
def indexOf? {α : Type} [BEq α] (l : List α) (x : α) : Option Nat := l.findIdx? (fun y => y == x)

/-- `i for i, idx in enumerate(order) if idx < 0` -/
def negPositions (order : List Int) : List Nat := trueIdxs (order.map (fun si => decide (si < 0)))

/-- `np.where(np.array(flags)[order])[0]` (python negative indexing into `flags`) -/
def flagPositions (flags : List Bool) (order : List Int) : List Nat :=
  trueIdxs (order.map (fun si => flags.getD (wrapIdx flags.length si) false))

/-! ## typed transforms -/

/-- an entry of an `insertions` list (view level or transform level), carrying BOTH what the
    subtotal blocks read (`Model/Subtotals.Insertion`) and what collation reads
    (`Collator.RawIns`). A non-dict entry is `isSubtotalFn := false`. -/
structure TIns where
  isSubtotalFn : Bool := true
  hide : Bool := false
  hasAnchorName : Bool := true
  kwPositive : List Int := []
  args : List Int := []
  negative : List Int := []
  anchor : RawAnchor := .null
  id : Option Int := none
  label : String := ""
  deriving Repr, Inhabited

def TIns.toInsertion (t : TIns) : Insertion :=
  { isSubtotalFn := t.isSubtotalFn, hide := t.hide, hasAnchorName := t.hasAnchorName
    kwPositive := t.kwPositive, args := t.args, negative := t.negative }

def TIns.toRawIns (t : TIns) : RawIns :=
  { isDict := true, isSubtotalFn := t.isSubtotalFn, hide := t.hide, hasKeys := t.hasAnchorName
    positive := t.toInsertion.positive.map Eid.int, negative := t.negative.map Eid.int
    anchor := t.anchor, id := t.id }

/-- the measures of `SecondOrderMeasures` the pipeline computes — every property name of the
    keyword table `Collator.matrixMeasureProp` (what a sort-by-value order may read) plus medians.
    Keys marked (s) are Out-valued in the library (a sqrt, a quotient by a sqrt, a normal tail):
    their BLOCKS here hold the exact monotone SURROGATE the order is computed from (radicand,
    signed square, −z²); the symbolic values are in `Model/PipelineMeasures.lean`. -/
inductive MKey where
  | countsW | countsU | rowBasesW | rowBasesU | colBasesW | colBasesU
  | tableBasesW | tableBasesU | rowProps | colProps | tableProps
  | variance (d : Dir)          -- {row,column,table}_proportion_variances
  | stdErr (d : Dir)            -- (s) {row,column,table}_std_err
  | zscores                     -- (s)
  | pvalues                     -- (s)
  | colIndex
  | popProps                    -- population_proportions (blocks; no difference override)
  | popStdErr                   -- (s) population_std_err
  | sums | means | stddev | medians
  | rowShare | colShare | totalShare
  deriving DecidableEq, Repr, Inhabited

def MKey.all : List MKey :=
  [.countsW, .countsU, .rowBasesW, .rowBasesU, .colBasesW, .colBasesU, .tableBasesW, .tableBasesU,
   .rowProps, .colProps, .tableProps,
   .variance .row, .variance .col, .variance .table, .stdErr .row, .stdErr .col, .stdErr .table,
   .zscores, .pvalues, .colIndex, .popProps, .popStdErr,
   .sums, .means, .stddev, .medians, .rowShare, .colShare, .totalShare]

/-- `MARGINAL` members: BASE, MARGIN, MARGIN_PROPORTION, SCALE_MEAN, SCALE_MEAN_STDDEV (s),
    SCALE_MEAN_STDERR (s), SCALE_MEDIAN -/
inductive MargKey where
  | baseU | baseW | tableProp | scaleMean | scaleStddev | scaleStderr | scaleMedian
  deriving DecidableEq, Repr, Inhabited

/-- the stripe measures the pipeline computes (`stripeMeasureProp` + medians / stddev) -/
inductive SKey where
  | countsW | countsU | basesW | basesU | tableProps
  | stddevs                     -- (s) table_proportion_stddevs
  | stderrs                     -- (s) table_proportion_stderrs
  | popProps | popStderrs       -- population_proportions, (s) population_proportion_stderrs
  | means | sums | stddev | medians | shareSum
  deriving DecidableEq, Repr, Inhabited

def SKey.all : List SKey :=
  [.countsW, .countsU, .basesW, .basesU, .tableProps, .stddevs, .stderrs, .popProps, .popStderrs,
   .means, .sums, .stddev, .medians, .shareSum]

/-- direction and fixed lists of a sort-by-value order dict -/
structure SortOpts where
  desc : Bool := true
  top : List Eid := []
  bottom : List Eid := []
  deriving Repr, Inhabited

/-- the `order` dict of a dimension's transforms.  A measure / marginal keyword that is not a
    member of its enumeration (or not in the helper's table for `univariate_measure`) is `none`:
    resolving it raises `ValueError` inside the helper's `try`, hence the payload-order fallback. -/
inductive OrderSpec where
  | payload
  | explicit (ids : List Eid)
  | label (o : SortOpts)
  | marginal (m : Option MargKey) (o : SortOpts)
  | oppElement (id : Eid) (m : Option MKey) (o : SortOpts)
  | oppInsertion (insId : Int) (m : Option MKey) (o : SortOpts)
  | univariate (m : Option SKey) (o : SortOpts)
  deriving Repr, Inhabited

/-- a dimension of the partition: design (kind, valid elements, labels, view insertions) and
    its transforms dict (insertions, per-element hide flags, prune, order) -/
structure TDim where
  kind : DK := .cat
  catDate : Bool := false
  elems : List Elem := []
  labels : List String := []
  /-- `Dimension.numeric_values` (NaN = no numeric value) -/
  numVals : List Val := []
  viewIns : List TIns := []
  trIns : Option (List TIns) := none
  hide : List Bool := []
  prune : Bool := false
  order : OrderSpec := .payload
  deriving Repr, Inhabited

/-- a dimension as the slice machinery sees it after `Dimension.subtotals` / `_Subtotals` -/
structure RDim where
  kind : DK
  catDate : Bool
  cdim : Dim
  subtotals : List Subtotal
  labels : List String
  subLabels : List String
  numVals : List Val
  order : OrderSpec
  deriving Repr, Inhabited

namespace TDim

/-- MR_SUBVAR / CA_SUBVAR (`DT.ARRAY_TYPES`) -/
def isArray (d : TDim) : Bool := d.kind != .cat
def ids (d : TDim) : List Eid := d.elems.map (·.id)
/-- integer element ids (every id of a categorical dimension is one) -/
def validIds (d : TDim) : List Int :=
  d.elems.filterMap (fun e => match e.id with | .int n => some n | _ => none)
/-- the insertion list that applies: a transforms dict that HAS `insertions` replaces the view's -/
def liveIns (d : TDim) : List TIns := match d.trIns with | some t => t | none => d.viewIns

/-- `Dimension.subtotals` as addend / subtrahend offsets (Model/Subtotals) -/
def subtotals (d : TDim) : List Subtotal :=
  dimensionSubtotals d.isArray d.validIds (d.trIns.map (·.map TIns.toInsertion))
    (d.viewIns.map TIns.toInsertion)

/-- `Dimension.subtotals` as anchors and insertion ids (Model/Collator); `none` = an anchor word
    that makes `_insertion_position` raise `ValueError` -/
def collSubs (d : TDim) : Option (List Sub) :=
  if d.isArray then some []
  else match d.trIns with
    | some t => subtotalsOf false d.ids (t.map TIns.toRawIns)
    | none => subtotalsOf true d.ids (d.viewIns.map TIns.toRawIns)

/-- `Dimension.subtotal_labels` -/
def subLabels (d : TDim) : List String :=
  if d.isArray then []
  else (d.liveIns.filter (fun t => t.toInsertion.passes d.validIds)).map (·.label)

/-- `Dimension.hidden_idxs` -/
def hidden (d : TDim) : List Nat := trueIdxs d.hide

def resolve (d : TDim) : Option RDim :=
  d.collSubs.map fun subs =>
    { kind := d.kind, catDate := d.catDate
      cdim := { elems := d.elems, subs := subs, viewSubs := [], hidden := d.hidden, prune := d.prune }
      subtotals := d.subtotals, labels := d.labels, subLabels := d.subLabels, numVals := d.numVals
      order := d.order }

/-- strip(t): order / fixed lists / per-element hide / prune removed; insertions kept -/
def strip (d : TDim) : TDim := { d with hide := [], prune := false, order := .payload }

end TDim

/-- strip on a resolved dimension -/
def RDim.strip (d : RDim) : RDim :=
  { d with cdim := { d.cdim with hidden := [], prune := false }, order := .payload }

/-! ## a collation with its inputs resolved -/

inductive ROrder where
  | payload
  | explicit (ex : List Eid)
  | byValue (o : SortOpts) (vals svals : List Val)
  | byLabel (o : SortOpts) (vals svals : List String)
  deriving Repr, Inhabited

/-- the signed order the chosen collator returns (always an instance of `Collator.displayOrder`) -/
def ROrder.run (d : Dim) (empties : List Nat) : ROrder → List Int
  | .payload => displayOrder (α := Val) d empties .payload
  | .explicit ex => displayOrder (α := Val) d empties (.explicit ex)
  | .byValue o v sv => displayOrder d empties (.sortval valOps o.top o.bottom o.desc v sv)
  | .byLabel o v sv => displayOrder d empties (.sortval strOps o.top o.bottom o.desc v sv)

/-! ## positions, and blocks given cell by cell -/

/-- a position in `elements ++ subtotals` of a dimension -/
inductive Pos where
  | base (i : Nat)
  | ins (k : Nat)
  deriving DecidableEq, Repr, Inhabited

def Pos.inserted : Pos → Bool
  | .base _ => false
  | .ins _ => true

/-- the position a signed index names (python negative indexing into `base ++ inserted`) -/
def posOf (n nins : Nat) (si : Int) : Pos :=
  let w := wrapIdx (n + nins) si
  if w < n then .base w else .ins (w - n)

/-- the cell of the four blocks at a (row position, column position) -/
def blockAt (b : Blocks) : Pos → Pos → Val
  | .base i, .base j => b.body i j
  | .base i, .ins l => b.insCols i l
  | .ins k, .base j => b.insRows k j
  | .ins k, .ins l => b.inter k l

/-- four blocks from a cell function -/
def blocksOfFn (nr nc nrs ncs : Nat) (f : Pos → Pos → Val) : Blocks :=
  { nr := nr, nc := nc, nrs := nrs, ncs := ncs
    body := fun i j => f (.base i) (.base j)
    insCols := fun i l => f (.base i) (.ins l)
    insRows := fun k j => f (.ins k) (.base j)
    inter := fun k l => f (.ins k) (.ins l) }

/-- the `Side` (C11 / C12 / C16 cell description) of a position: a base element is its own only
    addend, the k-th subtotal has the addend / subtrahend offsets of `Model/Subtotals` -/
def sideOf (subs : List Subtotal) : Pos → Side
  | .base i => Side.base i
  | .ins k => ⟨(subAt subs k).addendIdxs, (subAt subs k).subtrahendIdxs, true⟩

/-! ## order-preserving surrogates of the symbolic values

  A sort-by-value order over `np.sqrt x`, `n / np.sqrt d` or `2 (1 − Φ(|z|))` is the order over
  the exact rational surrogate below (sqrt and Φ-tail are monotone; NaN exactly where numpy
  gives NaN).  `PipelineMeasures.outKey` maps every symbolic value to its surrogate. -/

/-- `np.sqrt x`: increasing on x ≥ 0, NaN for a negative or NaN radicand -/
def sqrtKey : Val → Val
  | .fin q => if q < 0 then .nan else .fin q
  | .pinf => .pinf
  | _ => .nan

/-- `n / np.sqrt d` ↦ sign(n) · n² / d -/
def divSqrtKey (n d : Val) : Val :=
  match sqrtKey d, n with
  | .nan, _ => .nan
  | _, .nan => .nan
  | .fin q, n =>
    if q = 0 then n / .fin 0
    else match n with
      | .fin a => .fin (if a < 0 then -(a * a / q) else a * a / q)
      | v => v                       -- ±inf / finite positive
  | .pinf, .fin _ => .fin 0
  | _, _ => .nan                     -- ±inf / inf

/-- `2 * (1 - norm.cdf(|z|))` is decreasing in |z|: surrogate −z² from the surrogate of z -/
def normTailKey (zk : Val) : Val := -(Val.abs zk)

/-- √a / √b -/
def sqrtDivSqrtKey (a b : Val) : Val := sqrtKey a / sqrtKey b

/-! ## 2-D: `_Slice` -/

/-- the cube side of a partition (a COUNT cube: `diff_nans` is False): typed design, raw weighted
    and unweighted arrays WITH their missing elements, table element, and the raw arrays of the
    numeric measures the response carries -/
structure CubeData where
  vars : List Var
  wraw : FT
  uraw : FT
  k : Nat := 0
  sums : Option FT := none
  means : Option FT := none
  stddevs : Option FT := none
  medians : Option FT := none

namespace CubeData
/-- `cube_measures.weighted_cube_counts` -/
def w (c : CubeData) : MatCounts := sliceCounts c.vars c.wraw c.k
/-- `cube_measures.unweighted_cube_counts` -/
def u (c : CubeData) : MatCounts := sliceCounts c.vars c.uraw c.k
/-- `cube_measures.cube_{sum,means,stddev,medians}`: the numeric classes read the cells the count
    classes read (C01 `numeric_reports_payload`); absent measure = the library raises ValueError -/
def numeric (c : CubeData) (o : Option FT) : Nat → Nat → Val :=
  match o with
  | some raw => (sliceCounts c.vars raw c.k).counts
  | none => fun _ _ => .nan
end CubeData

def sliceCtx (rows cols : RDim) : SubCtx :=
  { rowSubs := rows.subtotals, colSubs := cols.subtotals
    rowsCatDate := rows.catDate, colsCatDate := cols.catDate }

/-! ### C11: the variance family on the pipeline's primitives -/

def dirBases (m : MatCounts) : Dir → Nat → Nat → Val
  | .row => m.rowBases
  | .col => m.columnBases
  | .table => m.tableBases

/-- `_{Row,Column,Table}WeightedBases.blocks` -/
def dirBaseBlocks (m : MatCounts) (x : SubCtx) : Dir → Blocks
  | .row => Msr.rowWeightedBases m x
  | .col => Msr.columnWeightedBases m x
  | .table => Msr.tableBases m x

/-- `_{Row,Column,Table}Proportions.blocks` -/
def dirPropBlocks (m : MatCounts) (x : SubCtx) : Dir → Blocks
  | .row => Msr.rowProportions m false x
  | .col => Msr.columnProportions m false x
  | .table => Msr.tableProportions m false x

/-- the four sums `WaveDiffSubtotal` reads for an inserted row / column: counts and bases of the
    direction over the addends and over the subtrahends -/
def waveTerms (m : MatCounts) (x : SubCtx) (dir : Dir) : Pos → Pos → Val × Val × Val × Val
  | .ins k, .base j =>
    let s := subAt x.rowSubs k
    (sumAt s.addendIdxs (fun i => m.counts i j), sumAt s.addendIdxs (fun i => dirBases m dir i j),
     sumAt s.subtrahendIdxs (fun i => m.counts i j), sumAt s.subtrahendIdxs (fun i => dirBases m dir i j))
  | .base i, .ins l =>
    let s := subAt x.colSubs l
    (sumAt s.addendIdxs (fun j => m.counts i j), sumAt s.addendIdxs (fun j => dirBases m dir i j),
     sumAt s.subtrahendIdxs (fun j => m.counts i j), sumAt s.subtrahendIdxs (fun j => dirBases m dir i j))
  | _, _ => (.nan, .nan, .nan, .nan)

/-- **the C11 cell on the pipeline's primitives**: positive / negative term counts from the
    `PositiveTermSubtotals` / `NegativeTermSubtotals` blocks of the weighted counts, the base from
    the direction's weighted-base blocks, the wave terms from the extractor -/
def varCellAt (m : MatCounts) (x : SubCtx) (dir : Dir) (P Q : Pos) : VarCell :=
  let wv := waveTerms m x dir P Q
  { dir := dir, R := sideOf x.rowSubs P, C := sideOf x.colSubs Q
    rowsCatDate := x.rowsCatDate, colsCatDate := x.colsCatDate
    np := blockAt (PosSub.blocks m.counts m.nrows m.ncols x.rowSubs x.colSubs) P Q
    nn := blockAt (NegSub.blocks m.counts m.nrows m.ncols x.rowSubs x.colSubs) P Q
    base := blockAt (dirBaseBlocks m x dir) P Q
    cA := wv.1, bA := wv.2.1, cS := wv.2.2.1, bS := wv.2.2.2 }

/-- `{row,column,table}_proportion_variances.blocks` -/
def varianceBlocks (m : MatCounts) (x : SubCtx) (d : Dir) : Blocks :=
  blocksOfFn m.nrows m.ncols x.rowSubs.length x.colSubs.length
    (fun P Q => (varCellAt m x d P Q).variance)

/-- surrogate of `_{Row,Column,Table}StandardError.blocks` = sqrt(variance / weighted base) -/
def stdErrKeyBlocks (m : MatCounts) (x : SubCtx) (d : Dir) : Blocks :=
  blocksOfFn m.nrows m.ncols x.rowSubs.length x.colSubs.length
    (fun P Q => let vc := varCellAt m x d P Q; sqrtKey (vc.variance / vc.total))

/-! ### C12: z-scores and p-values on the pipeline's blocks -/

/-- the four numbers `_calculate_zscores` reads for a cell: the same position of the weighted
    count, table-base, row-base and column-base blocks -/
def zCellAt (m : MatCounts) (x : SubCtx) (P Q : Pos) : ZCell :=
  { n := blockAt (Msr.counts m false x) P Q
    t := blockAt (Msr.tableBases m x) P Q
    r := blockAt (Msr.rowWeightedBases m x) P Q
    c := blockAt (Msr.columnWeightedBases m x) P Q }

/-- all positions of the block a position lies in -/
def regionOf (n nins : Nat) : Pos → List Pos
  | .base _ => (List.range n).map Pos.base
  | .ins _ => (List.range nins).map Pos.ins

/-- the cells of the block containing (P, Q) -/
def zBlockCells (m : MatCounts) (x : SubCtx) (P Q : Pos) : List (List ZCell) :=
  (regionOf m.nrows x.rowSubs.length P).map fun p =>
    (regionOf m.ncols x.colSubs.length Q).map fun q => zCellAt m x p q

/-- `_Zscores._is_defective` on the base block of the weighted counts, and the per-block guard -/
def zGuardAt (m : MatCounts) (x : SubCtx) (P Q : Pos) : Bool :=
  blockGuard (isDefective m.nrows m.ncols m.counts) (zBlockCells m x P Q)

/-- the guards of the four blocks, computed once -/
structure ZGuards where
  bb : Bool
  bi : Bool
  ib : Bool
  ii : Bool

def zGuards (m : MatCounts) (x : SubCtx) : ZGuards :=
  let dfct := isDefective m.nrows m.ncols m.counts       -- once for the four blocks
  { bb := blockGuard dfct (zBlockCells m x (.base 0) (.base 0))
    bi := blockGuard dfct (zBlockCells m x (.base 0) (.ins 0))
    ib := blockGuard dfct (zBlockCells m x (.ins 0) (.base 0))
    ii := blockGuard dfct (zBlockCells m x (.ins 0) (.ins 0)) }

def ZGuards.at (g : ZGuards) : Pos → Pos → Bool
  | .base _, .base _ => g.bb
  | .base _, .ins _ => g.bi
  | .ins _, .base _ => g.ib
  | .ins _, .ins _ => g.ii

/-- surrogate of `_Zscores.blocks` -/
def zKeyBlocks (m : MatCounts) (x : SubCtx) : Blocks :=
  let g := zGuards m x
  blocksOfFn m.nrows m.ncols x.rowSubs.length x.colSubs.length (fun P Q =>
    if g.at P Q then .nan
    else let z := zCellAt m x P Q; divSqrtKey (z.n - z.expected) z.variance)

/-- surrogate of `_Pvalues.blocks` -/
def pKeyBlocks (m : MatCounts) (x : SubCtx) : Blocks :=
  let z := zKeyBlocks m x
  blocksOfFn m.nrows m.ncols x.rowSubs.length x.colSubs.length (fun P Q => normTailKey (blockAt z P Q))

/-! ### C16: column index -/

/-- `_ColumnIndex.blocks`: `NanSubtotals` over 100 · (count / column base) / baseline, the
    baseline read from the array WITH its missing elements -/
def colIndexBlocks (c : CubeData) (x : SubCtx) : Blocks :=
  let bl := baselineOfCube c.vars c.wraw c.k
  let m := c.w
  blocksOfFn m.nrows m.ncols x.rowSubs.length x.colSubs.length (fun P Q =>
    match P, Q with
    | .base i, .base j => columnIndexCell false (m.counts i j) (m.columnBases i j) (bl i j)
    | _, _ => columnIndexCell true .nan .nan .nan)

/-! ### C17: which proportion the population estimates use -/

/-- `_PopulationProportions` / `_PopulationStandardError`: rows CAT_DATE → row direction, else
    columns CAT_DATE → column direction, else table (`Population.popMode`) -/
def popDir (rowsCatDate colsCatDate : Bool) : Dir :=
  if rowsCatDate then .row else if colsCatDate then .col else .table

/-- `SecondOrderMeasures.<measure>.blocks` (surrogates for the keys marked (s)) -/
def sliceBlocks (c : CubeData) (rows cols : RDim) (key : MKey) : Blocks :=
  let x := sliceCtx rows cols
  let w := c.w
  let u := c.u
  match key with
  | .countsW => Msr.counts w false x
  | .countsU => Msr.counts u false x
  | .rowBasesW => Msr.rowWeightedBases w x
  | .rowBasesU => Msr.rowUnweightedBases u x
  | .colBasesW => Msr.columnWeightedBases w x
  | .colBasesU => Msr.columnUnweightedBases u x
  | .tableBasesW => Msr.tableBases w x
  | .tableBasesU => Msr.tableBases u x
  | .rowProps => Msr.rowProportions w false x
  | .colProps => Msr.columnProportions w false x
  | .tableProps => Msr.tableProportions w false x
  | .variance d => varianceBlocks w x d
  | .stdErr d => stdErrKeyBlocks w x d
  | .zscores => zKeyBlocks w x
  | .pvalues => pKeyBlocks w x
  | .colIndex => colIndexBlocks c x
  | .popProps => dirPropBlocks w x (popDir rows.catDate cols.catDate)
  | .popStdErr => stdErrKeyBlocks w x (popDir rows.catDate cols.catDate)
  | .sums => Msr.sums (c.numeric c.sums) w.nrows w.ncols x
  | .means => Msr.nanMeasure (c.numeric c.means) w.nrows w.ncols x
  | .stddev => Msr.nanMeasure (c.numeric c.stddevs) w.nrows w.ncols x
  | .medians => Msr.nanMeasure (c.numeric c.medians) w.nrows w.ncols x
  | .rowShare => Msr.rowShareSum (c.numeric c.sums) w.nrows w.ncols x
  | .colShare => Msr.columnShareSum (c.numeric c.sums) w.nrows w.ncols x
  | .totalShare => Msr.totalShareSum (c.numeric c.sums) w.nrows w.ncols x

/-- is the cube measure behind a key in the response?  (`ValueError` otherwise: a public
    output raises, a sort-by-value order falls back to payload order) -/
def sliceAvail (c : CubeData) : MKey → Bool
  | .sums | .rowShare | .colShare | .totalShare => c.sums.isSome
  | .means => c.means.isSome
  | .stddev => c.stddevs.isSome
  | .medians => c.medians.isSome
  | _ => true

/-- `_BaseOrderHelper._empty_row_idxs` / `_empty_column_idxs` -/
def rowEmpties (c : CubeData) : List Nat := trueIdxs c.u.rowsPruningMask
def colEmpties (c : CubeData) : List Nat := trueIdxs c.u.columnsPruningMask

/-! ### C14: scale marginals, and the other marginals a rows order may sort by -/

def toScaleSub (s : Subtotal) : Scale.Sub := ⟨s.addendIdxs, s.subtrahendIdxs⟩

/-- `rows_scale_{mean,median,mean_stddev,mean_stderr}.blocks`: the statistics of every row
    vector (base rows, then subtotal rows) over the COLUMNS dimension's numeric values -/
def rowScaleVectors (c : CubeData) (rows cols : RDim) : List Scale.VecStats :=
  Scale.sliceVectors cols.numVals (c.w.mat c.w.counts) (c.w.mat c.w.rowBases)
    (rows.subtotals.map toScaleSub)

/-- columns orientation: the same code on the transposed counts and column bases -/
def colScaleVectors (c : CubeData) (rows cols : RDim) : List Scale.VecStats :=
  let w := c.w
  Scale.sliceVectors rows.numVals (tab2 w.ncols w.nrows (fun j i => w.counts i j))
    (tab2 w.ncols w.nrows (fun j i => w.columnBases i j)) (cols.subtotals.map toScaleSub)

/-- surrogate of a scale statistic -/
def soutKey : Scale.SOut → Val
  | .v x => x
  | .sqrt x => sqrtKey x
  | .sqrtDivSqrt a b => sqrtDivSqrtKey a b
  | .none_ => .nan

/-- `_SortRowsByMarginalHelper._marginal.blocks` as (base values, subtotal values) of sort keys;
    `none` = the marginal is undefined and `.blocks` raises `ValueError` -/
def rowMarginalKeys (c : CubeData) (rows cols : RDim) : MargKey → Option (List Val × List Val)
  | .baseU =>
    if cols.kind == .cat then
      let b := sliceBlocks c rows cols .rowBasesU
      some (tab1 b.nr (fun i => b.body i 0), tab1 b.nrs (fun k => b.insRows k 0))
    else none
  | .baseW =>
    match c.w.rowsBase with
    | some _ =>
      let b := sliceBlocks c rows cols .rowBasesW
      some (tab1 b.nr (fun i => b.body i 0), tab1 b.nrs (fun k => b.insRows k 0))
    | none => none
  | .tableProp =>
    -- _MarginTableProportion: Σ_cols weighted counts (differences included) / rows table base
    if cols.kind == .cat then
      match c.w.rowsTableBase with
      | some tb =>
        let b := sliceBlocks c rows cols .countsW
        some (tab1 b.nr (fun i => vsum b.nc (fun j => b.body i j) / tb i),
              tab1 b.nrs (fun k => vsum b.nc (fun j => b.insRows k j) / tb 0))
      | none => none
    else none
  | .scaleMean =>
    if Scale.isDefined cols.numVals then
      let vs := rowScaleVectors c rows cols
      some ((vs.take c.w.nrows).map (·.mean), (vs.drop c.w.nrows).map (·.mean))
    else none
  | .scaleMedian =>
    if Scale.isDefined cols.numVals then
      let vs := rowScaleVectors c rows cols
      some ((vs.take c.w.nrows).map (·.median), (vs.drop c.w.nrows).map (·.median))
    else none
  | .scaleStddev =>
    if Scale.isDefined cols.numVals then
      let vs := rowScaleVectors c rows cols
      some ((vs.take c.w.nrows).map (fun v => soutKey v.stddev),
            (vs.drop c.w.nrows).map (fun v => soutKey v.stddev))
    else none
  | .scaleStderr =>
    if Scale.isDefined cols.numVals && c.w.rowsBase.isSome then
      let vs := rowScaleVectors c rows cols
      some ((vs.take c.w.nrows).map (fun v => soutKey v.stderr),
            (vs.drop c.w.nrows).map (fun v => soutKey v.stderr))
    else none

/-- `_BaseOrderHelper.row_display_order`: helper class by collation method, its sort values
    read from the measure blocks `B` (when the measure is available) or the marginal `Mg`; every
    `ValueError` raised while resolving them gives the payload-order fallback. -/
def rowROrder (B : MKey → Blocks) (avail : MKey → Bool) (Mg : MargKey → Option (List Val × List Val))
    (rows cols : RDim) : ROrder :=
  match rows.order with
  | .explicit ex => .explicit ex
  | .label o => .byLabel o rows.labels rows.subLabels
  | .oppElement id m o =>
    -- _SortRowsByBaseColumnHelper
    match m, indexOf? cols.cdim.ids id with
    | some key, some j =>
      if avail key then
        let b := B key
        .byValue o (tab1 b.nr (fun i => b.body i j)) (tab1 b.nrs (fun k => b.insRows k j))
      else .payload
    | _, _ => .payload
  | .oppInsertion insId m o =>
    if cols.kind != .cat then
      -- _SortRowsByDerivedColumnHelper; modelled for ids the opposing array dimension cannot
      -- translate (`translate_element_id` → None → `tuple.index` raises ValueError)
      .payload
    else
      -- _SortRowsByInsertedColumnHelper
      match m, indexOf? (bogusIds cols.cdim.subs) insId with
      | some key, some l =>
        if avail key then
          let b := B key
          .byValue o (tab1 b.nr (fun i => b.insCols i l)) (tab1 b.nrs (fun k => b.inter k l))
        else .payload
      | _, _ => .payload
  | .marginal m o =>
    -- _SortRowsByMarginalHelper: `_marginal.blocks` of an undefined marginal raises ValueError
    match m.bind Mg with
    | some (v, sv) => .byValue o v sv
    | none => .payload
  | _ => .payload        -- payload_order, univariate_measure (no slice helper), unknown type

/-- `_BaseOrderHelper.column_display_order` (no marginal / derived-row helpers on this axis) -/
def colROrder (B : MKey → Blocks) (avail : MKey → Bool) (rows cols : RDim) : ROrder :=
  match cols.order with
  | .explicit ex => .explicit ex
  | .label o => .byLabel o cols.labels cols.subLabels
  | .oppElement id m o =>
    -- _SortColumnsByBaseRowHelper
    match m, indexOf? rows.cdim.ids id with
    | some key, some i =>
      if avail key then
        let b := B key
        .byValue o (tab1 b.nc (fun j => b.body i j)) (tab1 b.ncs (fun l => b.insCols i l))
      else .payload
    | _, _ => .payload
  | .oppInsertion insId m o =>
    -- _SortColumnsByInsertedRowHelper
    match m, indexOf? (bogusIds rows.cdim.subs) insId with
    | some key, some k =>
      if avail key then
        let b := B key
        .byValue o (tab1 b.nc (fun j => b.insRows k j)) (tab1 b.ncs (fun l => b.inter k l))
      else .payload
    | _, _ => .payload
  | _ => .payload

/-- `_RowOrderHelper._prune_subtotals` -/
def rowPruneSubs (c : CubeData) (cols : RDim) : Bool :=
  pruneSubtotals cols.cdim.prune (colEmpties c).length cols.cdim.elems.length
/-- `_ColumnOrderHelper._prune_subtotals` -/
def colPruneSubs (c : CubeData) (rows : RDim) : Bool :=
  pruneSubtotals rows.cdim.prune (rowEmpties c).length rows.cdim.elems.length

/-- `_Slice._row_order_signed_indexes` -/
def sliceRowOrder (c : CubeData) (rows cols : RDim) : List Int :=
  helperDisplayOrder (rowPruneSubs c cols)
    ((rowROrder (sliceBlocks c rows cols) (sliceAvail c) (rowMarginalKeys c rows cols) rows cols).run
      rows.cdim (rowEmpties c))

/-- `_Slice._column_order_signed_indexes` -/
def sliceColOrder (c : CubeData) (rows cols : RDim) : List Int :=
  helperDisplayOrder (colPruneSubs c rows)
    ((colROrder (sliceBlocks c rows cols) (sliceAvail c) rows cols).run cols.cdim (colEmpties c))

/-- `np.block(blocks)` as the assembly step takes it -/
def toA (b : Blocks) : ABlocks :=
  { nr := b.nr, nc := b.nc, nir := b.nrs, nic := b.ncs
    body := b.body, insCols := b.insCols, insRows := b.insRows, inter := b.inter }

/-- `_MarginWeightedBase` / `_MarginUnweightedBase` (ROWS): `[blocks[0][0][:, 0], blocks[1][0][:, 0]]`
    through `_assemble_marginal` -/
def rowsMarginal (b : Blocks) (ro : List Int) : List Val :=
  assembleVector b.nr b.nrs (fun i => b.body i 0) (fun k => b.insRows k 0) ro

/-- COLUMNS: `[blocks[0][0][0, :], blocks[0][1][0, :]]` -/
def colsMarginal (b : Blocks) (co : List Int) : List Val :=
  assembleVector b.nc b.ncs (fun j => b.body 0 j) (fun l => b.insCols 0 l) co

/-- `_Slice.table_margin` / `table_base`: scalar, else the columns `_MarginTableBase`, else the
    rows one (`[base_values, np.repeat([base_values[0]], n_subtotals)]`), else the 2-D bases -/
def tableMarginal (m : MatCounts) (b : Blocks) (rows cols : RDim) (ro co : List Int) : Marg :=
  match m.tableBase with
  | some v => .scalar v
  | none =>
    match m.columnsTableBase with
    | some f => .vec (assembleVector m.ncols cols.subtotals.length f (fun _ => f 0) co)
    | none =>
      match m.rowsTableBase with
      | some f => .vec (assembleVector m.nrows rows.subtotals.length f (fun _ => f 0) ro)
      | none => .mat (assembleMatrix (toA b) ro co)

/-- everything the op returns for a slice -/
structure SliceOut where
  rowOrder : List Int
  colOrder : List Int
  shape : Nat × Nat
  insertedRowIdxs : List Nat
  insertedColIdxs : List Nat
  diffRowIdxs : List Nat
  diffColIdxs : List Nat
  derivedRowIdxs : List Nat
  derivedColIdxs : List Nat
  /-- `row_labels`, `row_codes`, `row_aliases`, `rows_dimension_fills`: position in
      `elements ++ subtotals` each displayed row reads -/
  rowLabelIdxs : List Nat
  colLabelIdxs : List Nat
  mat : MKey → List (List Val)
  rowsMargin : Marg
  columnsMargin : Marg
  rowsBase : Marg
  columnsBase : Marg
  tableMargin : Marg
  tableBase : Marg

/-- the assembled outputs given the two display orders (so that the re-indexing theorems can
    talk about the same function under two orders) -/
def assembleSlice (c : CubeData) (rows cols : RDim) (ro co : List Int) : SliceOut :=
  let B := sliceBlocks c rows cols
  let nre := rows.cdim.elems.length
  let nce := cols.cdim.elems.length
  { rowOrder := ro
    colOrder := co
    shape := (ro.length, co.length)
    insertedRowIdxs := negPositions ro
    insertedColIdxs := negPositions co
    diffRowIdxs := flagPositions (List.replicate nre false ++ rows.subtotals.map Subtotal.isDiff) ro
    diffColIdxs := flagPositions (List.replicate nce false ++ cols.subtotals.map Subtotal.isDiff) co
    -- `_derived_element_idxs` AFTER fix F50: one `False` per SUBTOTAL (the unfixed code pads with
    -- `len(valid_elements)` and raises IndexError once there are more than twice as many subtotals)
    derivedRowIdxs :=
      flagPositions (rows.cdim.elems.map (·.derived) ++ List.replicate rows.subtotals.length false) ro
    derivedColIdxs :=
      flagPositions (cols.cdim.elems.map (·.derived) ++ List.replicate cols.subtotals.length false) co
    rowLabelIdxs := ro.map (wrapIdx (nre + rows.cdim.subs.length))
    colLabelIdxs := co.map (wrapIdx (nce + cols.cdim.subs.length))
    mat := fun key => assembleMatrix (toA (B key)) ro co
    rowsMargin :=
      match c.w.rowsBase with
      | some _ => .vec (rowsMarginal (B .rowBasesW) ro)
      | none => .mat (assembleMatrix (toA (B .rowBasesW)) ro co)
    columnsMargin :=
      match c.w.columnsBase with
      | some _ => .vec (colsMarginal (B .colBasesW) co)
      | none => .mat (assembleMatrix (toA (B .colBasesW)) ro co)
    rowsBase :=
      if cols.kind == .cat then .vec (rowsMarginal (B .rowBasesU) ro)
      else .mat (assembleMatrix (toA (B .rowBasesU)) ro co)
    columnsBase :=
      if rows.kind == .cat then .vec (colsMarginal (B .colBasesU) co)
      else .mat (assembleMatrix (toA (B .colBasesU)) ro co)
    tableMargin := tableMarginal c.w (B .tableBasesW) rows cols ro co
    tableBase := tableMarginal c.u (B .tableBasesU) rows cols ro co }

/-- **the pipeline on resolved dimensions** -/
def runSlice (c : CubeData) (rows cols : RDim) : SliceOut :=
  assembleSlice c rows cols (sliceRowOrder c rows cols) (sliceColOrder c rows cols)

/-- **the pipeline, end to end** from the typed design and transforms; `none` = the library
    raises `ValueError` (unusable anchor word) -/
def slicePipeline (c : CubeData) (rows cols : TDim) : Option SliceOut :=
  match rows.resolve, cols.resolve with
  | some r, some cl => some (runSlice c r cl)
  | _, _ => none

/-- the blocks, end to end -/
def slicePipelineBlocks (c : CubeData) (rows cols : TDim) (key : MKey) : Option Blocks :=
  match rows.resolve, cols.resolve with
  | some r, some cl => some (sliceBlocks c r cl key)
  | _, _ => none

/-- side conditions that hold of every real partition: element ids are distinct and the typed
    dimensions describe the axes of the extractor object -/
def SliceWF (c : CubeData) (rows cols : RDim) : Prop :=
  rows.cdim.ids.Nodup ∧ cols.cdim.ids.Nodup ∧
  c.w.nrows = rows.cdim.elems.length ∧ c.w.ncols = cols.cdim.elems.length ∧
  c.u.nrows = rows.cdim.elems.length ∧ c.u.ncols = cols.cdim.elems.length ∧
  rows.subtotals.length = rows.cdim.subs.length ∧ cols.subtotals.length = cols.cdim.subs.length ∧
  rows.labels.length = rows.cdim.elems.length ∧ cols.labels.length = cols.cdim.elems.length ∧
  rows.subLabels.length = rows.cdim.subs.length ∧ cols.subLabels.length = cols.cdim.subs.length

instance (c : CubeData) (rows cols : RDim) : Decidable (SliceWF c rows cols) := by
  unfold SliceWF; exact inferInstance

/-! ## 1-D: `_Strand` -/

structure StrandData where
  vars : List Var
  wraw : FT
  uraw : FT
  sums : Option FT := none
  means : Option FT := none
  stddevs : Option FT := none
  medians : Option FT := none

namespace StrandData
def w (c : StrandData) : StripeCounts := strandCounts c.vars c.wraw
def u (c : StrandData) : StripeCounts := strandCounts c.vars c.uraw
/-- `cube_measures.cube_{sum,means,stddev,medians}` of a stripe -/
def numeric (c : StrandData) (o : Option FT) : Nat → Val :=
  match o with
  | some raw => (strandCounts c.vars raw).counts
  | none => fun _ => .nan
end StrandData

/-- base values and subtotal values from a cell function -/
def sblocksOfFn (n ns : Nat) (f : Pos → Val) : StripeMsr.SBlocks :=
  { n := n, ns := ns, base := fun i => f (.base i), subs := fun k => f (.ins k) }

/-- **the C11 strand cell on the pipeline's primitives** (`_TableProportionVariances`): counts and
    bases of the stripe extractor; a subtotal has the positive / negative term sums of the
    weighted counts and the table base -/
def strandCellAt (m : StripeCounts) (subs : List Subtotal) (catDate : Bool) : Pos → StrandCell
  | .base i =>
    { S := Side.base i, catDate := catDate, np := m.counts i, nn := .fin 0, base := m.bases i }
  | .ins k =>
    let s := subAt subs k
    { S := ⟨s.addendIdxs, s.subtrahendIdxs, true⟩, catDate := catDate
      np := Stripe.posVal m.counts s, nn := Stripe.negVal m.counts s
      base := match m.tableBase with | some t => t | none => .nan
      cA := sumAt s.addendIdxs m.counts, bA := sumAt s.addendIdxs m.bases
      cS := sumAt s.subtrahendIdxs m.counts, bS := sumAt s.subtrahendIdxs m.bases }

/-- `StripeMeasures.<measure>.blocks` (surrogates for the keys marked (s)) -/
def strandBlocks (c : StrandData) (d : RDim) : SKey → StripeMsr.SBlocks
  | .countsW => StripeMsr.sumMeasure c.w.counts c.w.n d.subtotals
  | .countsU => StripeMsr.sumMeasure c.u.counts c.u.n d.subtotals
  | .basesW => StripeMsr.bases c.w d.subtotals
  | .basesU => StripeMsr.bases c.u d.subtotals
  | .tableProps => StripeMsr.tableProportions c.w d.catDate d.subtotals
  | .stddevs =>
    sblocksOfFn c.w.n d.subtotals.length (fun P => sqrtKey (strandCellAt c.w d.subtotals d.catDate P).variance)
  | .stderrs =>
    sblocksOfFn c.w.n d.subtotals.length (fun P =>
      let sc := strandCellAt c.w d.subtotals d.catDate P
      sqrtKey (sc.variance / sc.base))
  | .popProps =>
    -- stripe `_PopulationProportions`: all ones on a CAT_DATE dimension
    let b := StripeMsr.tableProportions c.w d.catDate d.subtotals
    if d.catDate then { b with base := fun _ => .fin 1, subs := fun _ => .fin 1 } else b
  | .popStderrs =>
    -- stripe `_PopulationProportionStderrs`: all zeros on a CAT_DATE dimension
    sblocksOfFn c.w.n d.subtotals.length (fun P =>
      if d.catDate then .fin 0
      else
        let sc := strandCellAt c.w d.subtotals d.catDate P
        sqrtKey (sc.variance / sc.base))
  | .means => StripeMsr.nanMeasure (c.numeric c.means) c.w.n d.subtotals
  | .sums => StripeMsr.sumMeasure (c.numeric c.sums) c.w.n d.subtotals
  | .stddev => StripeMsr.nanMeasure (c.numeric c.stddevs) c.w.n d.subtotals
  | .medians => StripeMsr.nanMeasure (c.numeric c.medians) c.w.n d.subtotals
  | .shareSum => StripeMsr.shareSum (c.numeric c.sums) c.w.n d.subtotals

def strandAvail (c : StrandData) : SKey → Bool
  | .sums | .shareSum => c.sums.isSome
  | .means => c.means.isSome
  | .stddev => c.stddevs.isSome
  | .medians => c.medians.isSome
  | _ => true

/-- `_BaseOrderHelper._empty_row_idxs`: `N == 0` over `pruning_base` -/
def strandEmpties (c : StrandData) : List Nat :=
  trueIdxs (tab1 c.u.n (fun i => c.u.pruningBase i == .fin 0))

/-- `stripe.assembler._BaseOrderHelper.display_order` -/
def strandROrder (B : SKey → StripeMsr.SBlocks) (avail : SKey → Bool) (d : RDim) : ROrder :=
  match d.order with
  | .explicit ex => .explicit ex
  | .label o => .byLabel o d.labels d.subLabels
  | .univariate m o =>
    match m with
    | some key => if avail key then let b := B key; .byValue o b.baseL b.subsL else .payload
    | none => .payload
  | _ => .payload

/-- `_Strand._row_order_signed_indexes` (a strand never drops its subtotals) -/
def strandOrder (c : StrandData) (d : RDim) : List Int :=
  (strandROrder (strandBlocks c d) (strandAvail c) d).run d.cdim (strandEmpties c)

structure StrandOut where
  rowOrder : List Int
  shape : Nat
  insertedRowIdxs : List Nat
  diffRowIdxs : List Nat
  derivedRowIdxs : List Nat
  rowLabelIdxs : List Nat
  vec : SKey → List Val

def assembleStrand (c : StrandData) (d : RDim) (ro : List Int) : StrandOut :=
  let B := strandBlocks c d
  let ne := d.cdim.elems.length
  { rowOrder := ro
    shape := ro.length
    insertedRowIdxs := negPositions ro
    diffRowIdxs := flagPositions (List.replicate ne false ++ d.subtotals.map Subtotal.isDiff) ro
    derivedRowIdxs :=
      flagPositions (d.cdim.elems.map (·.derived) ++ List.replicate d.subtotals.length false) ro
    rowLabelIdxs := ro.map (wrapIdx (ne + d.cdim.subs.length))
    vec := fun key => let b := B key; assembleVector b.n b.ns b.base b.subs ro }

def runStrand (c : StrandData) (d : RDim) : StrandOut := assembleStrand c d (strandOrder c d)

def strandPipeline (c : StrandData) (d : TDim) : Option StrandOut :=
  d.resolve.map (runStrand c)

def StrandWF (c : StrandData) (d : RDim) : Prop :=
  d.cdim.ids.Nodup ∧ c.w.n = d.cdim.elems.length ∧ c.u.n = d.cdim.elems.length ∧
  d.subtotals.length = d.cdim.subs.length ∧
  d.labels.length = d.cdim.elems.length ∧ d.subLabels.length = d.cdim.subs.length ∧
  (d.subtotals.length ≠ 0 → c.w.tableBase.isSome)

instance (c : StrandData) (d : RDim) : Decidable (StrandWF c d) := by
  unfold StrandWF; exact inferInstance

/-! ## re-indexing an output by display orders

  What C05 SAYS about an output: its value under transforms is the untransformed value read at
  the position each displayed vector has in the untransformed order.  Used to state the
  theorems; the driver also executes it (`reindex_equal`). -/

def reindexVec (o o0 : List Int) (l : List Val) : List Val :=
  o.map fun x => l.getD (o0.idxOf x) .nan

def reindexMat (ro co ro0 co0 : List Int) (m : List (List Val)) : List (List Val) :=
  ro.map fun x => co.map fun y => (m.getD (ro0.idxOf x) []).getD (co0.idxOf y) .nan

/-- which order a 1-D margin follows -/
inductive Orient where
  | rows | cols
  deriving DecidableEq, Repr

def reindexMarg (orient : Orient) (ro co ro0 co0 : List Int) : Marg → Marg
  | .scalar v => .scalar v
  | .vec l => match orient with
    | .rows => .vec (reindexVec ro ro0 l)
    | .cols => .vec (reindexVec co co0 l)
  | .mat m => .mat (reindexMat ro co ro0 co0 m)

/-- orientation of `table_margin` / `table_base` when it is 1-D -/
def tableOrient (m : MatCounts) : Orient :=
  match m.columnsTableBase with | some _ => .cols | none => .rows

def margBeq : Marg → Marg → Bool
  | .scalar a, .scalar b => a == b
  | .vec a, .vec b => a == b
  | .mat a, .mat b => a == b
  | _, _ => false

/-- executable twin of `C05.slice_output_reindexed` / `slice_margins_reindexed` -/
def SliceOut.reindexedFrom (t s0 : SliceOut) (c : CubeData) : Bool :=
  let ro := t.rowOrder; let co := t.colOrder; let ro0 := s0.rowOrder; let co0 := s0.colOrder
  MKey.all.all (fun k => t.mat k == reindexMat ro co ro0 co0 (s0.mat k))
    && margBeq t.rowsMargin (reindexMarg .rows ro co ro0 co0 s0.rowsMargin)
    && margBeq t.columnsMargin (reindexMarg .cols ro co ro0 co0 s0.columnsMargin)
    && margBeq t.rowsBase (reindexMarg .rows ro co ro0 co0 s0.rowsBase)
    && margBeq t.columnsBase (reindexMarg .cols ro co ro0 co0 s0.columnsBase)
    && margBeq t.tableMargin (reindexMarg (tableOrient c.w) ro co ro0 co0 s0.tableMargin)
    && margBeq t.tableBase (reindexMarg (tableOrient c.u) ro co ro0 co0 s0.tableBase)

def StrandOut.reindexedFrom (t s0 : StrandOut) : Bool :=
  SKey.all.all (fun k => t.vec k == reindexVec t.rowOrder s0.rowOrder (s0.vec k))

end CrCube.Pipeline
