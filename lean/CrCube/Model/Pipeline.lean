/-
  END-TO-END model of a 2-D `cubepart._Slice` and of the 1-D `cubepart._Strand`: the existing
  pieces composed exactly as the library composes them.

      typed design (vars) + raw weighted / unweighted cube arrays
        + per dimension: valid elements, view insertions, TRANSFORMS
          (insertions, per-element hide flags, prune flag, order spec)
      ──► `sliceCounts` / `strandCounts`                       (Model/Slice, CubeCounts)
      ──► the four blocks of every measure                     (Model/Subtotals, SubtotalMeasures)
      ──► pruning masks                                        (MatCounts.rowsPruningMask …)
      ──► display orders                                       (Model/Collator: the three
            collators + `matrix.assembler` / `stripe.assembler` order helpers, sort values read
            from THIS pipeline's own blocks, subtotals dropped when the opposing dimension is
            pruned empty)
      ──► assembled public outputs                             (Model/Assemble)

  Nothing is re-modelled here: this file only wires.  No Mathlib; executable.

  Mirrors: `cubepart._Slice.{counts, unweighted_counts, row/column/table_{weighted,unweighted}_bases,
  row/column/table_proportions, rows_margin, columns_margin, rows_base, columns_base,
  table_margin, table_base, row_order, column_order, shape, inserted_*_idxs, diff_*_idxs,
  derived_*_idxs, row_labels/codes/aliases/fills (as indices), _assemble_matrix,
  _assemble_marginal}`, `matrix.assembler._BaseOrderHelper` and its thirteen helper classes,
  `matrix.measure._Margin{Weighted,Unweighted,Table}Base`, `_TableBase`;
  `cubepart._Strand` twins, `stripe.assembler`.
-/
import CrCube.Model.Slice
import CrCube.Model.SliceApi
import CrCube.Model.Assemble
import CrCube.Model.Subtotals
import CrCube.Model.SubtotalMeasures
import CrCube.Model.Collator

namespace CrCube.Pipeline
open CrCube CrCube.Collator

/-! ## small numpy idioms -/

/-- `np.where(mask)[0]` / `idx for idx, e in enumerate(...) if flag` -/
def trueIdxs (l : List Bool) : List Nat := (List.range l.length).filter (fun i => l.getD i false)

/-- `tuple.index(x)`: position of the first equal item (`none` = ValueError) -/
def indexOf? {α : Type} [BEq α] (l : List α) (x : α) : Option Nat := l.findIdx? (fun y => y == x)

/-- `i for i, idx in enumerate(order) if idx < 0` -/
def negPositions (order : List Int) : List Nat := trueIdxs (order.map (fun si => decide (si < 0)))

/-- `np.where(np.array(flags)[order])[0]` (python negative indexing into `flags`) -/
def flagPositions (flags : List Bool) (order : List Int) : List Nat :=
  trueIdxs (order.map (fun si => flags.getD (wrapIdx flags.length si) false))

/-! ## typed transforms -/

/-- an entry of an `insertions` list (view level or transform level), carrying BOTH what the
    subtotal blocks read (`Model/Subtotals.Insertion`) and what collation reads
    (`Collator.RawIns`). A non-dict entry is `isSubtotalFn := false`. -/
structure TIns where
  isSubtotalFn : Bool := true
  hide : Bool := false
  hasAnchorName : Bool := true
  kwPositive : List Int := []
  args : List Int := []
  negative : List Int := []
  anchor : RawAnchor := .null
  id : Option Int := none
  label : String := ""
  deriving Repr, Inhabited

def TIns.toInsertion (t : TIns) : Insertion :=
  { isSubtotalFn := t.isSubtotalFn, hide := t.hide, hasAnchorName := t.hasAnchorName
    kwPositive := t.kwPositive, args := t.args, negative := t.negative }

def TIns.toRawIns (t : TIns) : RawIns :=
  { isDict := true, isSubtotalFn := t.isSubtotalFn, hide := t.hide, hasKeys := t.hasAnchorName
    positive := t.toInsertion.positive.map Eid.int, negative := t.negative.map Eid.int
    anchor := t.anchor, id := t.id }

/-- the measures the pipeline computes (and a sort-by-value order may read) -/
inductive MKey where
  | countsW | countsU | rowBasesW | rowBasesU | colBasesW | colBasesU
  | tableBasesW | tableBasesU | rowProps | colProps | tableProps
  deriving DecidableEq, Repr, Inhabited

def MKey.all : List MKey :=
  [.countsW, .countsU, .rowBasesW, .rowBasesU, .colBasesW, .colBasesU, .tableBasesW, .tableBasesU,
   .rowProps, .colProps, .tableProps]

/-- `MARGINAL.BASE` / `MARGINAL.MARGIN` -/
inductive MargKey where
  | baseU | baseW
  deriving DecidableEq, Repr, Inhabited

/-- the stripe measures the pipeline computes -/
inductive SKey where
  | countsW | countsU | basesW | basesU | tableProps
  deriving DecidableEq, Repr, Inhabited

def SKey.all : List SKey := [.countsW, .countsU, .basesW, .basesU, .tableProps]

/-- direction and fixed lists of a sort-by-value order dict -/
structure SortOpts where
  desc : Bool := true
  top : List Eid := []
  bottom : List Eid := []
  deriving Repr, Inhabited

/-- the `order` dict of a dimension's transforms.  A measure / marginal keyword that is not a
    member of its enumeration (or not in the helper's table for `univariate_measure`) is `none`:
    resolving it raises `ValueError` inside the helper's `try`, hence the payload-order fallback. -/
inductive OrderSpec where
  | payload
  | explicit (ids : List Eid)
  | label (o : SortOpts)
  | marginal (m : Option MargKey) (o : SortOpts)
  | oppElement (id : Eid) (m : Option MKey) (o : SortOpts)
  | oppInsertion (insId : Int) (m : Option MKey) (o : SortOpts)
  | univariate (m : Option SKey) (o : SortOpts)
  deriving Repr, Inhabited

/-- a dimension of the partition: design (kind, valid elements, labels, view insertions) and
    its transforms dict (insertions, per-element hide flags, prune, order) -/
structure TDim where
  kind : DK := .cat
  catDate : Bool := false
  elems : List Elem := []
  labels : List String := []
  viewIns : List TIns := []
  trIns : Option (List TIns) := none
  hide : List Bool := []
  prune : Bool := false
  order : OrderSpec := .payload
  deriving Repr, Inhabited

/-- a dimension as the slice machinery sees it after `Dimension.subtotals` / `_Subtotals` -/
structure RDim where
  kind : DK
  catDate : Bool
  cdim : Dim
  subtotals : List Subtotal
  labels : List String
  subLabels : List String
  order : OrderSpec
  deriving Repr, Inhabited

namespace TDim

/-- MR_SUBVAR / CA_SUBVAR (`DT.ARRAY_TYPES`) -/
def isArray (d : TDim) : Bool := d.kind != .cat
def ids (d : TDim) : List Eid := d.elems.map (·.id)
/-- integer element ids (every id of a categorical dimension is one) -/
def validIds (d : TDim) : List Int :=
  d.elems.filterMap (fun e => match e.id with | .int n => some n | _ => none)
/-- the insertion list that applies: a transforms dict that HAS `insertions` replaces the view's -/
def liveIns (d : TDim) : List TIns := match d.trIns with | some t => t | none => d.viewIns

/-- `Dimension.subtotals` as addend / subtrahend offsets (Model/Subtotals) -/
def subtotals (d : TDim) : List Subtotal :=
  dimensionSubtotals d.isArray d.validIds (d.trIns.map (·.map TIns.toInsertion))
    (d.viewIns.map TIns.toInsertion)

/-- `Dimension.subtotals` as anchors and insertion ids (Model/Collator); `none` = an anchor word
    that makes `_insertion_position` raise `ValueError` -/
def collSubs (d : TDim) : Option (List Sub) :=
  if d.isArray then some []
  else match d.trIns with
    | some t => subtotalsOf false d.ids (t.map TIns.toRawIns)
    | none => subtotalsOf true d.ids (d.viewIns.map TIns.toRawIns)

/-- `Dimension.subtotal_labels` -/
def subLabels (d : TDim) : List String :=
  if d.isArray then []
  else (d.liveIns.filter (fun t => t.toInsertion.passes d.validIds)).map (·.label)

/-- `Dimension.hidden_idxs` -/
def hidden (d : TDim) : List Nat := trueIdxs d.hide

def resolve (d : TDim) : Option RDim :=
  d.collSubs.map fun subs =>
    { kind := d.kind, catDate := d.catDate
      cdim := { elems := d.elems, subs := subs, viewSubs := [], hidden := d.hidden, prune := d.prune }
      subtotals := d.subtotals, labels := d.labels, subLabels := d.subLabels, order := d.order }

/-- strip(t): order / fixed lists / per-element hide / prune removed; insertions kept -/
def strip (d : TDim) : TDim := { d with hide := [], prune := false, order := .payload }

end TDim

/-- strip on a resolved dimension -/
def RDim.strip (d : RDim) : RDim :=
  { d with cdim := { d.cdim with hidden := [], prune := false }, order := .payload }

/-! ## a collation with its inputs resolved -/

inductive ROrder where
  | payload
  | explicit (ex : List Eid)
  | byValue (o : SortOpts) (vals svals : List Val)
  | byLabel (o : SortOpts) (vals svals : List String)
  deriving Repr, Inhabited

/-- the signed order the chosen collator returns (always an instance of `Collator.displayOrder`) -/
def ROrder.run (d : Dim) (empties : List Nat) : ROrder → List Int
  | .payload => displayOrder (α := Val) d empties .payload
  | .explicit ex => displayOrder (α := Val) d empties (.explicit ex)
  | .byValue o v sv => displayOrder d empties (.sortval valOps o.top o.bottom o.desc v sv)
  | .byLabel o v sv => displayOrder d empties (.sortval strOps o.top o.bottom o.desc v sv)

/-! ## 2-D: `_Slice` -/

/-- the cube side of a partition: typed design, raw arrays, table element, `diff_nans` flags -/
structure CubeData where
  vars : List Var
  wraw : FT
  uraw : FT
  k : Nat := 0
  wDiffNans : Bool := false
  uDiffNans : Bool := false

namespace CubeData
/-- `cube_measures.weighted_cube_counts` -/
def w (c : CubeData) : MatCounts := sliceCounts c.vars c.wraw c.k
/-- `cube_measures.unweighted_cube_counts` -/
def u (c : CubeData) : MatCounts := sliceCounts c.vars c.uraw c.k
end CubeData

def sliceCtx (rows cols : RDim) : SubCtx :=
  { rowSubs := rows.subtotals, colSubs := cols.subtotals
    rowsCatDate := rows.catDate, colsCatDate := cols.catDate }

/-- `SecondOrderMeasures.<measure>.blocks` -/
def blocksOf (w u : MatCounts) (wdn udn : Bool) (x : SubCtx) : MKey → Blocks
  | .countsW => Msr.counts w wdn x
  | .countsU => Msr.counts u udn x
  | .rowBasesW => Msr.rowWeightedBases w x
  | .rowBasesU => Msr.rowUnweightedBases u x
  | .colBasesW => Msr.columnWeightedBases w x
  | .colBasesU => Msr.columnUnweightedBases u x
  | .tableBasesW => Msr.tableBases w x
  | .tableBasesU => Msr.tableBases u x
  | .rowProps => Msr.rowProportions w wdn x
  | .colProps => Msr.columnProportions w wdn x
  | .tableProps => Msr.tableProportions w wdn x

/-- the blocks of a measure of the partition, as a function of the WHOLE case (the dimensions
    come with their display transforms; `C05.slice_blocks_independent` shows they are not read) -/
def sliceBlocks (c : CubeData) (rows cols : RDim) (key : MKey) : Blocks :=
  blocksOf c.w c.u c.wDiffNans c.uDiffNans (sliceCtx rows cols) key

/-- `_BaseOrderHelper._empty_row_idxs` / `_empty_column_idxs` -/
def rowEmpties (c : CubeData) : List Nat := trueIdxs c.u.rowsPruningMask
def colEmpties (c : CubeData) : List Nat := trueIdxs c.u.columnsPruningMask

/-- `_BaseOrderHelper.row_display_order`: helper class by collation method, its sort values
    read from the measure blocks; every `ValueError` raised while resolving them gives the
    payload-order fallback. -/
def rowROrder (B : MKey → Blocks) (w : MatCounts) (rows cols : RDim) : ROrder :=
  match rows.order with
  | .explicit ex => .explicit ex
  | .label o => .byLabel o rows.labels rows.subLabels
  | .oppElement id m o =>
    -- _SortRowsByBaseColumnHelper
    match m, indexOf? cols.cdim.ids id with
    | some key, some j =>
      let b := B key
      .byValue o (tab1 b.nr (fun i => b.body i j)) (tab1 b.nrs (fun k => b.insRows k j))
    | _, _ => .payload
  | .oppInsertion insId m o =>
    if cols.kind != .cat then
      -- _SortRowsByDerivedColumnHelper; modelled for ids the opposing array dimension cannot
      -- translate (`translate_element_id` → None → `tuple.index` raises ValueError)
      .payload
    else
      -- _SortRowsByInsertedColumnHelper
      match m, indexOf? (bogusIds cols.cdim.subs) insId with
      | some key, some l =>
        let b := B key
        .byValue o (tab1 b.nr (fun i => b.insCols i l)) (tab1 b.nrs (fun k => b.inter k l))
      | _, _ => .payload
  | .marginal m o =>
    -- _SortRowsByMarginalHelper: `_marginal.blocks` of an undefined marginal raises ValueError
    match m with
    | some .baseU =>
      if cols.kind == .cat then
        let b := B .rowBasesU
        .byValue o (tab1 b.nr (fun i => b.body i 0)) (tab1 b.nrs (fun k => b.insRows k 0))
      else .payload
    | some .baseW =>
      match w.rowsBase with
      | some _ =>
        let b := B .rowBasesW
        .byValue o (tab1 b.nr (fun i => b.body i 0)) (tab1 b.nrs (fun k => b.insRows k 0))
      | none => .payload
    | none => .payload
  | _ => .payload        -- payload_order, univariate_measure (no slice helper), unknown type

/-- `_BaseOrderHelper.column_display_order` (no marginal / derived-row helpers on this axis) -/
def colROrder (B : MKey → Blocks) (rows cols : RDim) : ROrder :=
  match cols.order with
  | .explicit ex => .explicit ex
  | .label o => .byLabel o cols.labels cols.subLabels
  | .oppElement id m o =>
    -- _SortColumnsByBaseRowHelper
    match m, indexOf? rows.cdim.ids id with
    | some key, some i =>
      let b := B key
      .byValue o (tab1 b.nc (fun j => b.body i j)) (tab1 b.ncs (fun l => b.insCols i l))
    | _, _ => .payload
  | .oppInsertion insId m o =>
    -- _SortColumnsByInsertedRowHelper
    match m, indexOf? (bogusIds rows.cdim.subs) insId with
    | some key, some k =>
      let b := B key
      .byValue o (tab1 b.nc (fun j => b.insRows k j)) (tab1 b.ncs (fun l => b.inter k l))
    | _, _ => .payload
  | _ => .payload

/-- `_RowOrderHelper._prune_subtotals` -/
def rowPruneSubs (c : CubeData) (cols : RDim) : Bool :=
  pruneSubtotals cols.cdim.prune (colEmpties c).length cols.cdim.elems.length
/-- `_ColumnOrderHelper._prune_subtotals` -/
def colPruneSubs (c : CubeData) (rows : RDim) : Bool :=
  pruneSubtotals rows.cdim.prune (rowEmpties c).length rows.cdim.elems.length

/-- `_Slice._row_order_signed_indexes` -/
def sliceRowOrder (c : CubeData) (rows cols : RDim) : List Int :=
  helperDisplayOrder (rowPruneSubs c cols)
    ((rowROrder (sliceBlocks c rows cols) c.w rows cols).run rows.cdim (rowEmpties c))

/-- `_Slice._column_order_signed_indexes` -/
def sliceColOrder (c : CubeData) (rows cols : RDim) : List Int :=
  helperDisplayOrder (colPruneSubs c rows)
    ((colROrder (sliceBlocks c rows cols) rows cols).run cols.cdim (colEmpties c))

/-- `np.block(blocks)` as the assembly step takes it -/
def toA (b : Blocks) : ABlocks :=
  { nr := b.nr, nc := b.nc, nir := b.nrs, nic := b.ncs
    body := b.body, insCols := b.insCols, insRows := b.insRows, inter := b.inter }

/-- `_MarginWeightedBase` / `_MarginUnweightedBase` (ROWS): `[blocks[0][0][:, 0], blocks[1][0][:, 0]]`
    through `_assemble_marginal` -/
def rowsMarginal (b : Blocks) (ro : List Int) : List Val :=
  assembleVector b.nr b.nrs (fun i => b.body i 0) (fun k => b.insRows k 0) ro

/-- COLUMNS: `[blocks[0][0][0, :], blocks[0][1][0, :]]` -/
def colsMarginal (b : Blocks) (co : List Int) : List Val :=
  assembleVector b.nc b.ncs (fun j => b.body 0 j) (fun l => b.insCols 0 l) co

/-- `_Slice.table_margin` / `table_base`: scalar, else the columns `_MarginTableBase`, else the
    rows one (`[base_values, np.repeat([base_values[0]], n_subtotals)]`), else the 2-D bases -/
def tableMarginal (m : MatCounts) (b : Blocks) (rows cols : RDim) (ro co : List Int) : Marg :=
  match m.tableBase with
  | some v => .scalar v
  | none =>
    match m.columnsTableBase with
    | some f => .vec (assembleVector m.ncols cols.subtotals.length f (fun _ => f 0) co)
    | none =>
      match m.rowsTableBase with
      | some f => .vec (assembleVector m.nrows rows.subtotals.length f (fun _ => f 0) ro)
      | none => .mat (assembleMatrix (toA b) ro co)

/-- everything the op returns for a slice -/
structure SliceOut where
  rowOrder : List Int
  colOrder : List Int
  shape : Nat × Nat
  insertedRowIdxs : List Nat
  insertedColIdxs : List Nat
  diffRowIdxs : List Nat
  diffColIdxs : List Nat
  derivedRowIdxs : List Nat
  derivedColIdxs : List Nat
  /-- `row_labels`, `row_codes`, `row_aliases`, `rows_dimension_fills`: position in
      `elements ++ subtotals` each displayed row reads -/
  rowLabelIdxs : List Nat
  colLabelIdxs : List Nat
  mat : MKey → List (List Val)
  rowsMargin : Marg
  columnsMargin : Marg
  rowsBase : Marg
  columnsBase : Marg
  tableMargin : Marg
  tableBase : Marg

/-- the assembled outputs given the two display orders (so that the re-indexing theorems can
    talk about the same function under two orders) -/
def assembleSlice (c : CubeData) (rows cols : RDim) (ro co : List Int) : SliceOut :=
  let B := sliceBlocks c rows cols
  let nre := rows.cdim.elems.length
  let nce := cols.cdim.elems.length
  { rowOrder := ro
    colOrder := co
    shape := (ro.length, co.length)
    insertedRowIdxs := negPositions ro
    insertedColIdxs := negPositions co
    diffRowIdxs := flagPositions (List.replicate nre false ++ rows.subtotals.map Subtotal.isDiff) ro
    diffColIdxs := flagPositions (List.replicate nce false ++ cols.subtotals.map Subtotal.isDiff) co
    -- `_derived_element_idxs` AFTER fix F50: one `False` per SUBTOTAL (the unfixed code pads with
    -- `len(valid_elements)` and raises IndexError once there are more than twice as many subtotals)
    derivedRowIdxs :=
      flagPositions (rows.cdim.elems.map (·.derived) ++ List.replicate rows.subtotals.length false) ro
    derivedColIdxs :=
      flagPositions (cols.cdim.elems.map (·.derived) ++ List.replicate cols.subtotals.length false) co
    rowLabelIdxs := ro.map (wrapIdx (nre + rows.cdim.subs.length))
    colLabelIdxs := co.map (wrapIdx (nce + cols.cdim.subs.length))
    mat := fun key => assembleMatrix (toA (B key)) ro co
    rowsMargin :=
      match c.w.rowsBase with
      | some _ => .vec (rowsMarginal (B .rowBasesW) ro)
      | none => .mat (assembleMatrix (toA (B .rowBasesW)) ro co)
    columnsMargin :=
      match c.w.columnsBase with
      | some _ => .vec (colsMarginal (B .colBasesW) co)
      | none => .mat (assembleMatrix (toA (B .colBasesW)) ro co)
    rowsBase :=
      if cols.kind == .cat then .vec (rowsMarginal (B .rowBasesU) ro)
      else .mat (assembleMatrix (toA (B .rowBasesU)) ro co)
    columnsBase :=
      if rows.kind == .cat then .vec (colsMarginal (B .colBasesU) co)
      else .mat (assembleMatrix (toA (B .colBasesU)) ro co)
    tableMargin := tableMarginal c.w (B .tableBasesW) rows cols ro co
    tableBase := tableMarginal c.u (B .tableBasesU) rows cols ro co }

/-- **the pipeline on resolved dimensions** -/
def runSlice (c : CubeData) (rows cols : RDim) : SliceOut :=
  assembleSlice c rows cols (sliceRowOrder c rows cols) (sliceColOrder c rows cols)

/-- **the pipeline, end to end** from the typed design and transforms; `none` = the library
    raises `ValueError` (unusable anchor word) -/
def slicePipeline (c : CubeData) (rows cols : TDim) : Option SliceOut :=
  match rows.resolve, cols.resolve with
  | some r, some cl => some (runSlice c r cl)
  | _, _ => none

/-- the blocks, end to end -/
def slicePipelineBlocks (c : CubeData) (rows cols : TDim) (key : MKey) : Option Blocks :=
  match rows.resolve, cols.resolve with
  | some r, some cl => some (sliceBlocks c r cl key)
  | _, _ => none

/-- side conditions that hold of every real partition: element ids are distinct and the typed
    dimensions describe the axes of the extractor object -/
def SliceWF (c : CubeData) (rows cols : RDim) : Prop :=
  rows.cdim.ids.Nodup ∧ cols.cdim.ids.Nodup ∧
  c.w.nrows = rows.cdim.elems.length ∧ c.w.ncols = cols.cdim.elems.length ∧
  c.u.nrows = rows.cdim.elems.length ∧ c.u.ncols = cols.cdim.elems.length ∧
  rows.subtotals.length = rows.cdim.subs.length ∧ cols.subtotals.length = cols.cdim.subs.length ∧
  rows.labels.length = rows.cdim.elems.length ∧ cols.labels.length = cols.cdim.elems.length ∧
  rows.subLabels.length = rows.cdim.subs.length ∧ cols.subLabels.length = cols.cdim.subs.length

instance (c : CubeData) (rows cols : RDim) : Decidable (SliceWF c rows cols) := by
  unfold SliceWF; exact inferInstance

/-! ## 1-D: `_Strand` -/

structure StrandData where
  vars : List Var
  wraw : FT
  uraw : FT

namespace StrandData
def w (c : StrandData) : StripeCounts := strandCounts c.vars c.wraw
def u (c : StrandData) : StripeCounts := strandCounts c.vars c.uraw
end StrandData

/-- `StripeMeasures.<measure>.blocks` -/
def strandBlocks (c : StrandData) (d : RDim) : SKey → StripeMsr.SBlocks
  | .countsW => StripeMsr.sumMeasure c.w.counts c.w.n d.subtotals
  | .countsU => StripeMsr.sumMeasure c.u.counts c.u.n d.subtotals
  | .basesW => StripeMsr.bases c.w d.subtotals
  | .basesU => StripeMsr.bases c.u d.subtotals
  | .tableProps => StripeMsr.tableProportions c.w d.catDate d.subtotals

/-- `_BaseOrderHelper._empty_row_idxs`: `N == 0` over `pruning_base` -/
def strandEmpties (c : StrandData) : List Nat :=
  trueIdxs (tab1 c.u.n (fun i => c.u.pruningBase i == .fin 0))

/-- `stripe.assembler._BaseOrderHelper.display_order` -/
def strandROrder (B : SKey → StripeMsr.SBlocks) (d : RDim) : ROrder :=
  match d.order with
  | .explicit ex => .explicit ex
  | .label o => .byLabel o d.labels d.subLabels
  | .univariate m o =>
    match m with
    | some key => let b := B key; .byValue o b.baseL b.subsL
    | none => .payload
  | _ => .payload

/-- `_Strand._row_order_signed_indexes` (a strand never drops its subtotals) -/
def strandOrder (c : StrandData) (d : RDim) : List Int :=
  (strandROrder (strandBlocks c d) d).run d.cdim (strandEmpties c)

structure StrandOut where
  rowOrder : List Int
  shape : Nat
  insertedRowIdxs : List Nat
  diffRowIdxs : List Nat
  derivedRowIdxs : List Nat
  rowLabelIdxs : List Nat
  vec : SKey → List Val

def assembleStrand (c : StrandData) (d : RDim) (ro : List Int) : StrandOut :=
  let B := strandBlocks c d
  let ne := d.cdim.elems.length
  { rowOrder := ro
    shape := ro.length
    insertedRowIdxs := negPositions ro
    diffRowIdxs := flagPositions (List.replicate ne false ++ d.subtotals.map Subtotal.isDiff) ro
    derivedRowIdxs :=
      flagPositions (d.cdim.elems.map (·.derived) ++ List.replicate d.subtotals.length false) ro
    rowLabelIdxs := ro.map (wrapIdx (ne + d.cdim.subs.length))
    vec := fun key => let b := B key; assembleVector b.n b.ns b.base b.subs ro }

def runStrand (c : StrandData) (d : RDim) : StrandOut := assembleStrand c d (strandOrder c d)

def strandPipeline (c : StrandData) (d : TDim) : Option StrandOut :=
  d.resolve.map (runStrand c)

def StrandWF (c : StrandData) (d : RDim) : Prop :=
  d.cdim.ids.Nodup ∧ c.w.n = d.cdim.elems.length ∧ c.u.n = d.cdim.elems.length ∧
  d.subtotals.length = d.cdim.subs.length ∧
  d.labels.length = d.cdim.elems.length ∧ d.subLabels.length = d.cdim.subs.length ∧
  (d.subtotals.length ≠ 0 → c.w.tableBase.isSome)

instance (c : StrandData) (d : RDim) : Decidable (StrandWF c d) := by
  unfold StrandWF; exact inferInstance

/-! ## re-indexing an output by display orders

  What C05 SAYS about an output: its value under transforms is the untransformed value read at
  the position each displayed vector has in the untransformed order.  Used to state the
  theorems; the driver also executes it (`reindex_equal`). -/

def reindexVec (o o0 : List Int) (l : List Val) : List Val :=
  o.map fun x => l.getD (o0.idxOf x) .nan

def reindexMat (ro co ro0 co0 : List Int) (m : List (List Val)) : List (List Val) :=
  ro.map fun x => co.map fun y => (m.getD (ro0.idxOf x) []).getD (co0.idxOf y) .nan

/-- which order a 1-D margin follows -/
inductive Orient where
  | rows | cols
  deriving DecidableEq, Repr

def reindexMarg (orient : Orient) (ro co ro0 co0 : List Int) : Marg → Marg
  | .scalar v => .scalar v
  | .vec l => match orient with
    | .rows => .vec (reindexVec ro ro0 l)
    | .cols => .vec (reindexVec co co0 l)
  | .mat m => .mat (reindexMat ro co ro0 co0 m)

/-- orientation of `table_margin` / `table_base` when it is 1-D -/
def tableOrient (m : MatCounts) : Orient :=
  match m.columnsTableBase with | some _ => .cols | none => .rows

def margBeq : Marg → Marg → Bool
  | .scalar a, .scalar b => a == b
  | .vec a, .vec b => a == b
  | .mat a, .mat b => a == b
  | _, _ => false

/-- executable twin of `C05.slice_output_reindexed` / `slice_margins_reindexed` -/
def SliceOut.reindexedFrom (t s0 : SliceOut) (c : CubeData) : Bool :=
  let ro := t.rowOrder; let co := t.colOrder; let ro0 := s0.rowOrder; let co0 := s0.colOrder
  MKey.all.all (fun k => t.mat k == reindexMat ro co ro0 co0 (s0.mat k))
    && margBeq t.rowsMargin (reindexMarg .rows ro co ro0 co0 s0.rowsMargin)
    && margBeq t.columnsMargin (reindexMarg .cols ro co ro0 co0 s0.columnsMargin)
    && margBeq t.rowsBase (reindexMarg .rows ro co ro0 co0 s0.rowsBase)
    && margBeq t.columnsBase (reindexMarg .cols ro co ro0 co0 s0.columnsBase)
    && margBeq t.tableMargin (reindexMarg (tableOrient c.w) ro co ro0 co0 s0.tableMargin)
    && margBeq t.tableBase (reindexMarg (tableOrient c.u) ro co ro0 co0 s0.tableBase)

def StrandOut.reindexedFrom (t s0 : StrandOut) : Bool :=
  SKey.all.all (fun k => t.vec k == reindexVec t.rowOrder s0.rowOrder (s0.vec k))

end CrCube.Pipeline
