/-
  `MinBaseSizeMask.{row,column,table}_mask` and `_Strand.min_base_size_mask` on the ASSEMBLED
  (displayed) unweighted bases: base rows / columns, subtotal and difference rows / columns in
  display order.  `bases < size` with numpy's comparison semantics (`Val.lt`: any comparison with
  NaN is false), so the undefined base of a difference row / column is never flagged.
-/
import CrCube.Model.Val

namespace CrCube.MinBaseMask

/-- `unweighted_bases < mask_size` on a displayed vector (strand) -/
def vecMask (bases : List Val) (size : Val) : List Bool := bases.map (fun b => b.lt size)

/-- `…_unweighted_bases < size` on a displayed matrix (slice) -/
def matMask (bases : List (List Val)) (size : Val) : List (List Bool) := bases.map (fun r => vecMask r size)

/-- smallest / largest entry of a list of FINITE bases (`table_base_range` of a strand) -/
def minQ : List Rat → Option Rat
  | [] => none
  | x :: xs => match minQ xs with | none => some x | some m => some (if x ≤ m then x else m)

def maxQ : List Rat → Option Rat
  | [] => none
  | x :: xs => match maxQ xs with | none => some x | some m => some (if m ≤ x then x else m)

end CrCube.MinBaseMask
