/-
  Mirror of the block structure of the second-order measures of `cr.cube.matrix.measure`
  that properties C04 / C15 speak about, and of their `cr.cube.stripe.measure` twins:

    _WeightedCounts / _UnweightedCounts (with `diff_nans`), _Row/_Column/_Table{Weighted,Unweighted}Bases,
    _RowProportions / _ColumnProportions (WaveDiff path for CAT_DATE) / _TableProportions,
    the NaN-subtotal measures (_Means, _Medians, _StdDev, _ColumnIndex),
    _Sums, _RowShareSum, _ColumnShareSum, _TotalShareSum.

  The share-of-sum measures mirror the code AFTER fix F2: every denominator is a nansum over
  BASE rows / columns (of the body block, or of the inserted block that lies in the same
  inserted row / column).  The unfixed blocks are kept as `*.legacy` for the counterexample
  theorems in Props/C15.
-/
import CrCube.Model.CubeCounts
import CrCube.Model.Subtotals

namespace CrCube

/-- what the measures need to know about the two dimensions of a slice -/
structure SubCtx where
  rowSubs : List Subtotal
  colSubs : List Subtotal
  rowsCatDate : Bool := false
  colsCatDate : Bool := false

/-- `np.nansum(block[:, j])` over `n` rows -/
def nansumCol (n : Nat) (f : Nat → Nat → Val) (j : Nat) : Val := Val.nansum (tab1 n (fun i => f i j))
/-- `np.nansum(block[i, :])` over `n` columns -/
def nansumRow (n : Nat) (f : Nat → Nat → Val) (i : Nat) : Val := Val.nansum (tab1 n (fun j => f i j))
/-- `np.nansum(block)` -/
def nansumAll (nr nc : Nat) (f : Nat → Nat → Val) : Val :=
  Val.nansum ((tab2 nr nc f).flatten)

namespace Msr

/-- `_WeightedCounts.blocks` / `_UnweightedCounts.blocks` -/
def counts (m : MatCounts) (diffNans : Bool) (x : SubCtx) : Blocks :=
  SumSub.blocks m.counts m.nrows m.ncols x.rowSubs x.colSubs diffNans diffNans

/-- `_RowWeightedBases.blocks` -/
def rowWeightedBases (m : MatCounts) (x : SubCtx) : Blocks :=
  let b := m.rowBases
  let insRows := fun k j => SumSub.row b true (subAt x.rowSubs k) j
  { nr := m.nrows, nc := m.ncols, nrs := x.rowSubs.length, ncs := x.colSubs.length
    body := b
    insCols := fun i _ => b i 0
    insRows := insRows
    inter := fun k _ => insRows k 0 }

/-- `_RowUnweightedBases.blocks` (inserted columns broadcast `rows_base`) -/
def rowUnweightedBases (m : MatCounts) (x : SubCtx) : Blocks :=
  let b := m.rowBases
  let insRows := fun k j => SumSub.row b true (subAt x.rowSubs k) j
  { nr := m.nrows, nc := m.ncols, nrs := x.rowSubs.length, ncs := x.colSubs.length
    body := b
    insCols := fun i _ => match m.rowsBase with | some f => f i | none => .nan
    insRows := insRows
    inter := fun k _ => insRows k 0 }

/-- `_ColumnWeightedBases.blocks` -/
def columnWeightedBases (m : MatCounts) (x : SubCtx) : Blocks :=
  let b := m.columnBases
  let insCols := fun i l => SumSub.col b true (subAt x.colSubs l) i
  { nr := m.nrows, nc := m.ncols, nrs := x.rowSubs.length, ncs := x.colSubs.length
    body := b
    insCols := insCols
    insRows := fun _ j => b 0 j
    inter := fun _ l => insCols 0 l }

/-- `_ColumnUnweightedBases.blocks` (inserted rows broadcast `columns_base`) -/
def columnUnweightedBases (m : MatCounts) (x : SubCtx) : Blocks :=
  let b := m.columnBases
  let insCols := fun i l => SumSub.col b true (subAt x.colSubs l) i
  { nr := m.nrows, nc := m.ncols, nrs := x.rowSubs.length, ncs := x.colSubs.length
    body := b
    insCols := insCols
    insRows := fun _ j => match m.columnsBase with | some f => f j | none => .nan
    inter := fun _ l => insCols 0 l }

/-- `_TableWeightedBases.blocks` = `_TableUnweightedBases.blocks` on the other counts -/
def tableBases (m : MatCounts) (x : SubCtx) : Blocks :=
  let b := m.tableBases
  { nr := m.nrows, nc := m.ncols, nrs := x.rowSubs.length, ncs := x.colSubs.length
    body := b
    insCols := fun i _ => b i 0
    insRows := fun _ j => b 0 j
    inter := fun _ _ => b 0 0 }

/-- `_RowProportions.blocks` -/
def rowProportions (m : MatCounts) (diffNans : Bool) (x : SubCtx) : Blocks :=
  let c := counts m diffNans x
  let w := rowWeightedBases m x
  { Blocks.zipWith (· / ·) c w with
    insCols := fun i l =>
      WaveDiff.col m.rowBases m.counts x.colsCatDate (subAt x.colSubs l)
        (fun i' => c.insCols i' l / w.insCols i' l) i
    insRows := fun k j =>
      WaveDiff.row m.rowBases m.counts x.rowsCatDate (subAt x.rowSubs k)
        (fun j' => c.insRows k j' / w.insRows k j') j }

/-- `_ColumnProportions.blocks` -/
def columnProportions (m : MatCounts) (diffNans : Bool) (x : SubCtx) : Blocks :=
  let c := counts m diffNans x
  let w := columnWeightedBases m x
  { Blocks.zipWith (· / ·) c w with
    insCols := fun i l =>
      WaveDiff.col m.columnBases m.counts x.colsCatDate (subAt x.colSubs l)
        (fun i' => c.insCols i' l / w.insCols i' l) i
    insRows := fun k j =>
      WaveDiff.row m.columnBases m.counts x.rowsCatDate (subAt x.rowSubs k)
        (fun j' => c.insRows k j' / w.insRows k j') j }

/-- `_TableProportions.blocks` -/
def tableProportions (m : MatCounts) (diffNans : Bool) (x : SubCtx) : Blocks :=
  Blocks.zipWith (· / ·) (counts m diffNans x) (tableBases m x)

/-- `_Means`, `_Medians`, `_StdDev`, `_ColumnIndex`: `NanSubtotals.blocks(values, dims)` -/
def nanMeasure (v : Nat → Nat → Val) (nr nc : Nat) (x : SubCtx) : Blocks :=
  NanSub.blocks v nr nc x.rowSubs x.colSubs

/-- `_Sums.blocks` -/
def sums (v : Nat → Nat → Val) (nr nc : Nat) (x : SubCtx) : Blocks :=
  SumSub.blocks v nr nc x.rowSubs x.colSubs true true

/-- `_ColumnShareSum.blocks` AFTER fix F2: each column's total over BASE rows -/
def columnShareSum (v : Nat → Nat → Val) (nr nc : Nat) (x : SubCtx) : Blocks :=
  let s := sums v nr nc x
  { s with
    body := fun i j => s.body i j / nansumCol nr s.body j
    insCols := fun i l => s.insCols i l / nansumCol nr s.insCols l
    insRows := fun k j => s.insRows k j / nansumCol nr s.body j
    inter := fun k l => s.inter k l / nansumCol nr s.insCols l }

/-- `_RowShareSum.blocks` AFTER fix F2: each row's total over BASE columns -/
def rowShareSum (v : Nat → Nat → Val) (nr nc : Nat) (x : SubCtx) : Blocks :=
  let s := sums v nr nc x
  { s with
    body := fun i j => s.body i j / nansumRow nc s.body i
    insCols := fun i l => s.insCols i l / nansumRow nc s.body i
    insRows := fun k j => s.insRows k j / nansumRow nc s.insRows k
    inter := fun k l => s.inter k l / nansumRow nc s.insRows k }

/-- `_TotalShareSum.blocks` AFTER fix F2: the total over all BASE cells -/
def totalShareSum (v : Nat → Nat → Val) (nr nc : Nat) (x : SubCtx) : Blocks :=
  let s := sums v nr nc x
  let t := nansumAll nr nc s.body
  { s with
    body := fun i j => s.body i j / t
    insCols := fun i l => s.insCols i l / t
    insRows := fun k j => s.insRows k j / t
    inter := fun k l => s.inter k l / t }

/-- `_ColumnShareSum.blocks` of the UNFIXED tree: inserted rows / intersections divide by
    the nansum of the inserted block itself -/
def columnShareSumLegacy (v : Nat → Nat → Val) (nr nc : Nat) (x : SubCtx) : Blocks :=
  let s := sums v nr nc x
  { s with
    body := fun i j => s.body i j / nansumCol nr s.body j
    insCols := fun i l => s.insCols i l / nansumCol nr s.insCols l
    insRows := fun k j => s.insRows k j / nansumCol s.nrs s.insRows j
    inter := fun k l => s.inter k l / nansumCol s.nrs s.inter l }

/-- `_RowShareSum.blocks` of the UNFIXED tree -/
def rowShareSumLegacy (v : Nat → Nat → Val) (nr nc : Nat) (x : SubCtx) : Blocks :=
  let s := sums v nr nc x
  { s with
    body := fun i j => s.body i j / nansumRow nc s.body i
    insCols := fun i l => s.insCols i l / nansumRow nc s.body i
    insRows := fun k j => s.insRows k j / nansumRow nc s.insRows k
    inter := fun k l => s.inter k l / nansumRow s.ncs s.inter k }

/-- `_TotalShareSum.blocks` of the UNFIXED tree -/
def totalShareSumLegacy (v : Nat → Nat → Val) (nr nc : Nat) (x : SubCtx) : Blocks :=
  let s := sums v nr nc x
  let t := nansumAll nr nc s.body
  { s with
    body := fun i j => s.body i j / t
    insCols := fun i l => s.insCols i l / t
    insRows := fun k j => s.insRows k j / nansumAll s.nrs nc s.insRows
    inter := fun k l => s.inter k l / nansumAll s.nrs s.ncs s.inter }

end Msr

/-! ## stripe (`cr.cube.stripe.measure`) -/

namespace StripeMsr

/-- `(base_values, subtotal_values)` -/
structure SBlocks where
  n : Nat
  ns : Nat
  base : Nat → Val
  subs : Nat → Val

def SBlocks.baseL (b : SBlocks) : List Val := tab1 b.n b.base
def SBlocks.subsL (b : SBlocks) : List Val := tab1 b.ns b.subs

/-- `_WeightedCounts` / `_UnweightedCounts` / `_Sums` : SumSubtotals over the base vector -/
def sumMeasure (v : Nat → Val) (n : Nat) (subs : List Subtotal) : SBlocks :=
  { n := n, ns := subs.length, base := v, subs := fun k => Stripe.sumVal v (subAt subs k) }

/-- `_WeightedBases` / `_UnweightedBases`: subtotal positions broadcast `table_base`
    (`None` for an MR stripe, which has no subtotals) -/
def bases (m : StripeCounts) (subs : List Subtotal) : SBlocks :=
  { n := m.n, ns := subs.length, base := m.bases
    subs := fun _ => match m.tableBase with | some t => t | none => .nan }

/-- `_TableProportions` -/
def tableProportions (m : StripeCounts) (rowsCatDate : Bool) (subs : List Subtotal) : SBlocks :=
  { n := m.n, ns := match m.tableBase with | some _ => subs.length | none => 0
    base := fun i => m.counts i / m.bases i
    subs := fun k =>
      match m.tableBase with
      | some t =>
        Stripe.waveVal m.bases m.counts rowsCatDate (subAt subs k)
          (Stripe.sumVal m.counts (subAt subs k) / t)
      | none => .nan }

/-- `_Means` / `_Medians` / `_StdDev` -/
def nanMeasure (v : Nat → Val) (n : Nat) (subs : List Subtotal) : SBlocks :=
  { n := n, ns := subs.length, base := v, subs := fun _ => .nan }

/-- `_ShareSum`: base shares, and SumSubtotals OF THE SHARES at the subtotal positions -/
def shareSum (v : Nat → Val) (n : Nat) (subs : List Subtotal) : SBlocks :=
  let t := Val.nansum (tab1 n v)
  let share := fun i => v i / t
  { n := n, ns := subs.length, base := share, subs := fun k => Stripe.sumVal share (subAt subs k) }

end StripeMsr

end CrCube
