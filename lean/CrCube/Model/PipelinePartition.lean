/-
  C06 on the end-to-end pipeline: the 2-D cube data of ONE table element of a 3-D cube.

  `rawPartition T k raw` is the sub-tensor of a raw (missing-inclusive) array over `T :: vs` at the
  RAW position of the k-th VALID element of the table variable `T` (multiple response: item k,
  the `selected` plane = the first valid plane of the selection axis); `CubeData.partition2d` applies it to
  every raw array a `CubeData` carries (weighted / unweighted counts, numeric payloads) and drops
  the table variable: the input of the 2-D pipeline that `Props/C06_Pipeline.lean` proves equal,
  output for output, to partition k of the 3-D pipeline.

  `restrictSurvey` = `restrictTo` of `Lemmas/Slice3D.lean` (proved `rfl` there), repeated here
  because the driver may not import Mathlib.

  No Mathlib; executable.
-/
import CrCube.Model.PipelineMeasures
import CrCube.Spec.SliceSpec

namespace CrCube

/-- raw sub-index of membership in the k-th valid element of a table variable
    (`Lemmas/VarMem.lean` `Var.msub`, Mathlib-free twin) -/
def Var.partIdx (T : Var) (k : Nat) : List Nat :=
  match T.kind with
  | .cat => [(validIdxs T.catMissing)[k]?.getD 0]
  | .arr => [(List.range T.n)[k]?.getD 0, (validIdxs T.catMissing)[0]?.getD 0]

/-- `raw[raw position of valid table element k]` (MR: `raw[item k, selected]`) -/
def rawPartition (T : Var) (k : Nat) (raw : FT) : FT :=
  ⟨raw.shape.drop T.rank, fun ix => raw.get (T.partIdx k ++ ix)⟩

/-- respondents who belong to element `k` of the first variable, with that answer dropped -/
def restrictSurvey (T : Var) (k : Nat) (s : Survey) : Survey :=
  (s.filter (fun r => match r.ans with
    | aT :: _ => T.specMem aT [k] [false]
    | [] => false)).map (fun r => { r with ans := r.ans.tail })

namespace Pipeline

/-- the 2-D cube data of table element `c.k` of a cube whose first variable is `T` -/
def CubeData.partition2d (c : CubeData) (T : Var) : CubeData :=
  { vars := c.vars.tail
    wraw := rawPartition T c.k c.wraw
    uraw := rawPartition T c.k c.uraw
    k := 0
    sums := c.sums.map (rawPartition T c.k)
    means := c.means.map (rawPartition T c.k)
    stddevs := c.stddevs.map (rawPartition T c.k)
    medians := c.medians.map (rawPartition T c.k) }

end Pipeline
end CrCube
