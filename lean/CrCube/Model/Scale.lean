/-
  Scale statistics from category numeric values (property C14).

  Mirrors
    cr.cube.matrix.measure : _ScaleMean._weighted_mean, _ScaleMedian._weighted_median /
                             _values_sort_order, _ScaleMeanStddev._{rows,columns}_weighted_mean_stddev,
                             _ScaleMeanStderr, and the block/`_counts`/`_proportions` plumbing of
                             _BaseScaledCountMarginal (subtotal vectors)
    cr.cube.stripe.measure : _ScaledCounts (strand)
    cr.cube.cubepart       : _Slice.{rows,columns}_scale_{mean,median}_margin
    cr.cube.dimension      : Element.numeric_value (None ↦ NaN)

  A numeric value is a `Val`; `nan` = "category has no numeric value".
  A *vector* is a row (ROWS orientation) or a column (COLUMNS orientation); the opposing
  dimension carries the numeric values.  Everything is written for the ROWS orientation; the
  COLUMNS orientation is the same code on the transposed inputs (the library's two
  `_stddev_func`s and `_proportions` branches are transposes of each other).

  `weightedMedian` models the code WITH the F6 repair (average with the next value having a
  positive count); `weightedMedianOld` is the code as found.  `strandMedian` models the code
  WITH the F11 repair (`None` on an empty expansion); `strandMedianOld` as found.
-/
import CrCube.Model.Val

namespace CrCube.Scale

/-- output terms (sqrt is symbolic, evaluated by the harness with numpy) -/
inductive SOut where
  | v (x : Val)
  | sqrt (x : Val)                    -- np.sqrt x
  | sqrtDivSqrt (a b : Val)           -- np.sqrt a / np.sqrt b
  | none_                             -- Python None
  deriving Repr, Inhabited, DecidableEq

def hasVal (v : Val) : Bool := !v.isNan

/-- `not np.all(np.isnan(values))` -/
def isDefined (values : List Val) : Bool := values.any hasVal

/-- `xs[~np.isnan(values)]` -/
def selValued (values : List Val) (xs : List α) : List α :=
  ((values.zip xs).filter (fun p => hasVal p.1)).map (·.2)

/-- (value, x) pairs of the valued positions -/
def valuedPairs (values : List Val) (xs : List α) : List (Val × α) :=
  (values.zip xs).filter (fun p => hasVal p.1)

/-- `_ScaleMean._weighted_mean(proportions, values)` -/
def weightedMean (props values : List Val) : Val :=
  Val.nansum (List.zipWith (· * ·) values props) / Val.sum (selValued values props)

/-- `count_block / weighted_base_block` of one vector -/
def proportions (counts bases : List Val) : List Val := List.zipWith (· / ·) counts bases

/-- `_{rows,columns}_weighted_mean_stddev` of one vector: the variance under the sqrt -/
def variance (counts values : List Val) (mean : Val) : Val :=
  let vc := valuedPairs values counts
  Val.nansum (vc.map (fun p => p.2 * ((p.1 - mean) * (p.1 - mean)))) / Val.sum (vc.map (·.2))

/-- `np.nan_to_num` on a count (finite or nan; ±inf cannot arise from finite data and is
    mapped to 0 here) -/
def nanToNum : Val → Rat
  | .fin q => q
  | _ => 0

/-- `count.take(_values_sort_order)`, `values[_values_sort_order]` as (value, count) pairs:
    stable argsort of the values with the NaN positions removed.  (numpy's default argsort is
    not stable in general; it is for the < 16 elements of a realistic category list, and the
    repaired median does not depend on the order of equal values — `C14.median_order_irrelevant`.) -/
def sortedPairs (values : List Val) (counts : List Val) : List (Val × Val) :=
  (valuedPairs values counts).mergeSort (fun p q => Val.le p.1 q.1)

/-- first value whose (nan_to_num'd) count is positive -/
def nextPositive : List (Val × Rat) → Option Val
  | [] => none
  | (v, c) :: rest => if c > 0 then some v else nextPositive rest

/-- the scan `argmax(cumulative_prop >= 0.5)` + the two return branches (REPAIRED code) -/
def medianGo : List (Val × Rat) → Rat → Rat → Val
  | [], _, _ => .nan
  | (v, c) :: rest, acc, total =>
    if (acc + c) / total ≥ 1 / 2 then
      if (acc + c) / total = 1 / 2 then
        match nextPositive rest with
        | some v' => (v + v') / (2 : Val)
        | none => .nan
      else v
    else medianGo rest (acc + c) total

/-- the same scan, code AS FOUND: at an exact half average with the next listed value -/
def medianGoOld : List (Val × Rat) → Rat → Rat → Val
  | [], _, _ => .nan
  | (v, c) :: rest, acc, total =>
    if (acc + c) / total ≥ 1 / 2 then
      if (acc + c) / total = 1 / 2 then
        match rest with
        | (v', _) :: _ => (v + v') / (2 : Val)
        | [] => .nan
      else v
    else medianGoOld rest (acc + c) total

def numPairs (pairs : List (Val × Val)) : List (Val × Rat) := pairs.map (fun p => (p.1, nanToNum p.2))

/-- `_ScaleMedian._weighted_median(sorted_counts, sorted_values)` (repaired) -/
def weightedMedian (pairs : List (Val × Val)) : Val :=
  let ps := numPairs pairs
  let total := (ps.map (·.2)).sum
  if total = 0 then .nan else medianGo ps 0 total

def weightedMedianOld (pairs : List (Val × Val)) : Val :=
  let ps := numPairs pairs
  let total := (ps.map (·.2)).sum
  if total = 0 then .nan else medianGoOld ps 0 total

/-- statistics of ONE vector of a slice.
    `propCounts/bases` feed the mean (`weighted_counts` block over the weighted-base block),
    `counts` are the comparable counts (NaN for difference subtotals) used by median and
    std-dev, `margin` the vector's weighted base. -/
structure VecStats where
  mean : Val
  median : Val
  medianOld : Val
  stddev : SOut
  stderr : SOut
  deriving Repr

def vecStats (values propCounts bases counts : List Val) (margin : Val) : VecStats :=
  let m := weightedMean (proportions propCounts bases) values
  let var := variance counts values m
  { mean := m
    median := weightedMedian (sortedPairs values counts)
    medianOld := weightedMedianOld (sortedPairs values counts)
    stddev := .sqrt var
    stderr := .sqrtDivSqrt var margin }

/-! ### subtotal vectors (`SumSubtotals` rows of a count / base matrix) -/

structure Sub where
  addends : List Nat
  subtrahends : List Nat
  deriving Repr, Inhabited

def rowOf (m : List (List Val)) (i : Nat) : List Val := m.getD i []

/-- element-wise `np.sum(base_values[idxs, :], axis=0)` -/
def sumRows (m : List (List Val)) (ncols : Nat) (idxs : List Nat) : List Val :=
  (List.range ncols).map (fun j => Val.sum (idxs.map (fun i => (rowOf m i).getD j .nan)))

/-- `SumSubtotals._subtotal_row` -/
def subtotalRow (m : List (List Val)) (ncols : Nat) (s : Sub) (diffNan : Bool) : List Val :=
  if diffNan && !s.subtrahends.isEmpty then List.replicate ncols .nan
  else List.zipWith (· - ·) (sumRows m ncols s.addends) (sumRows m ncols s.subtrahends)

/-- all vectors of the ROWS orientation: base rows then subtotal rows
    (`np.hstack(marginal.blocks)` before ordering).
    `counts`: weighted counts (nr × nc); `rowBases`: weighted `row_bases` (nr × nc);
    `values`: numeric values of the columns dimension. -/
def sliceVectors (values : List Val) (counts rowBases : List (List Val)) (subs : List Sub) :
    List VecStats :=
  let nc := values.length
  let base := (List.range counts.length).map (fun i =>
    let c := rowOf counts i
    let b := rowOf rowBases i
    vecStats values c b c (b.getD 0 .nan))
  let ins := subs.map (fun s =>
    let pc := subtotalRow counts nc s false          -- weighted_counts.blocks[1][0]
    let b := subtotalRow rowBases nc s true          -- row_weighted_bases.blocks[1][0]
    let c := subtotalRow counts nc s true            -- column_comparable_counts.blocks[1][0]
    vecStats values pc b c (b.getD 0 .nan))
  base ++ ins

/-- numpy fancy indexing with signed indexes on a vector of length `n` -/
def takeSigned (xs : List α) (d : α) (order : List Int) : List α :=
  order.map (fun k => if k < 0 then xs.getD (xs.length - k.natAbs) d else xs.getD k.toNat d)

/-! ### strand (`_ScaledCounts`) -/

/-- `np.repeat(values, counts.astype(int64))` for non-negative counts -/
def expand (pairs : List (Val × Val)) : List Val :=
  pairs.flatMap (fun p => List.replicate (nanToNum p.2).floor.toNat p.1)

/-- `np.median` of a list (sorts; NaN for the empty list) -/
def medianOf (xs : List Val) : Val :=
  let s := xs.mergeSort (fun a b => Val.le a b)
  let n := s.length
  if n = 0 then .nan
  else if n % 2 = 1 then s.getD (n / 2) .nan
  else (s.getD (n / 2 - 1) .nan + s.getD (n / 2) .nan) / (2 : Val)

structure StrandStats where
  mean : SOut
  median : SOut
  medianOld : SOut
  stddev : SOut
  stderr : SOut
  deriving Repr

def strandMean (values counts : List Val) : Option Val :=
  let vc := valuedPairs values counts
  if vc.isEmpty then none
  else
    let total := Val.sum (vc.map (·.2))
    if total == .fin 0 then none
    else some (Val.sum (vc.map (fun p => p.2 * p.1)) / total)

def strandVariance (values counts : List Val) : Option Val :=
  match strandMean values counts with
  | none => none
  | some m =>
    let vc := valuedPairs values counts
    some (Val.sum (vc.map (fun p => p.2 * ((p.1 - m) * (p.1 - m)))) / Val.sum (vc.map (·.2)))

def optOut : Option Val → SOut
  | none => .none_
  | some x => .v x

def strandStats (values counts : List Val) : StrandStats :=
  let vc := valuedPairs values counts
  let total := Val.sum (vc.map (·.2))
  let ex := expand vc
  { mean := optOut (strandMean values counts)
    median := if vc.isEmpty then .none_ else if ex.isEmpty then .none_ else .v (medianOf ex)
    medianOld := if vc.isEmpty then .none_ else .v (medianOf ex)
    stddev := match strandVariance values counts with
      | none => .none_
      | some var => .sqrt var
    stderr := match strandVariance values counts with
      | none => .none_
      | some var => .sqrt (var / total) }

/-! ### overall margins of a slice (`*_scale_mean_margin`, `*_scale_median_margin`)
    `values`, `margin` in DISPLAY order (values NaN at subtotal positions). -/

def marginMean (values margin : List Val) : SOut :=
  if isDefined values then
    .v (Val.nansum (List.zipWith (· * ·) values margin) / Val.sum (selValued values margin))
  else .none_

def marginMedian (values margin : List Val) : SOut :=
  if isDefined values then
    let ex := expand (valuedPairs values margin)
    if ex.isEmpty then .none_ else .v (medianOf ex)
  else .none_

end CrCube.Scale
