/-
  C14, integer-weighted records / count tables of ANY magnitude.

  The theorems of `Props/C14.lean` about the median assume unit weights (`r.w = 1`): the
  respondents are listed one by one.  A count table with millions of respondents (or a survey file
  with integer weights) is a list of records of natural-number weight; it STANDS FOR the
  individual respondents `unitExpand rs`.  Here: the tabulation does not see the difference
  (`countsV_unitExpand`), hence every median the model computes from the tabulated counts — the
  cumulative scan of a slice vector, `np.repeat` + `np.median` of a strand and of the overall
  margins — is the median of the numeric values of those individual respondents, for all sizes;
  and the cumulative scan is what `np.repeat` + `np.median` computes (`repeat_median_is_cumulative`),
  so the driver can evaluate the respondent-level median (`ScaleSpec.medianInt`) without
  enumerating millions of respondents.
-/
import CrCube.Props.C14
import CrCube.Spec.ScaleSpecInt

namespace CrCube.C14
open CrCube CrCube.Scale CrCube.ScaleSpec CrCube.ScaleLemmas CrCube.MedianLemmas

theorem optV_eq : optV = optVal := by
  funext o; cases o <;> rfl

theorem countOf_cons (r : SResp) (rs : List SResp) (k : Nat) :
    countOf (r :: rs) k = (if (r.cat == k) = true then r.w else 0) + countOf rs k := by
  unfold countOf
  by_cases hk : (r.cat == k) = true
  · simp [hk]
  · simp [hk]

theorem countOf_append (a b : List SResp) (k : Nat) :
    countOf (a ++ b) k = countOf a k + countOf b k := by
  unfold countOf
  simp [List.filter_append, List.map_append, List.sum_append]

theorem countOf_replicate (n c k : Nat) :
    countOf (List.replicate n ({ w := 1, cat := c } : SResp)) k = (if (c == k) = true then (n : Rat) else 0) := by
  induction n with
  | zero => simp [countOf]
  | succ n ih =>
    rw [List.replicate_succ, countOf_cons, ih]
    by_cases hk : (c == k) = true
    · simp only [hk, if_true]; push_cast; ring
    · simp [hk]

/-- the tabulation of integer-weighted records is the tabulation of the individual respondents -/
theorem countOf_unitExpand (rs : List SResp) (hn : ∀ r ∈ rs, natWeight r = true) (k : Nat) :
    countOf (unitExpand rs) k = countOf rs k := by
  induction rs with
  | nil => rfl
  | cons r rs ih =>
    have hr : r.w = ((r.w.floor.toNat : Nat) : Rat) := by
      have := hn r (List.mem_cons_self ..)
      simpa [natWeight] using this
    have ih' := ih (fun x hx => hn x (List.mem_cons_of_mem _ hx))
    show countOf (List.replicate r.w.floor.toNat { w := 1, cat := r.cat } ++ unitExpand rs) k = _
    rw [countOf_append, countOf_replicate, countOf_cons, ih']
    by_cases hk : (r.cat == k) = true
    · simp only [hk, if_true]; rw [← hr]
    · simp [hk]

theorem countsV_unitExpand (vals : List (Option Rat)) (rs : List SResp)
    (hn : ∀ r ∈ rs, natWeight r = true) :
    countsV vals (unitExpand rs) = countsV vals rs := by
  unfold countsV countsOf
  congr 1
  apply List.map_congr_left
  intro k _
  exact countOf_unitExpand rs hn k

theorem unitExpand_unit (rs : List SResp) : ∀ r ∈ unitExpand rs, r.w = 1 := by
  intro r hr
  simp only [unitExpand, List.mem_flatMap, List.mem_replicate] at hr
  obtain ⟨a, _, _, rfl⟩ := hr
  rfl

theorem unitExpand_inRange (vals : List (Option Rat)) (rs : List SResp)
    (hr : ∀ r ∈ rs, r.cat < vals.length) : ∀ r ∈ unitExpand rs, r.cat < vals.length := by
  intro r hmem
  simp only [unitExpand, List.mem_flatMap, List.mem_replicate] at hmem
  obtain ⟨a, ha, _, rfl⟩ := hmem
  exact hr a ha

/-- **slice vector, integer weights of any size**: the model's (cumulative-scan) median of the
    tabulated counts = median of the numeric values of the individual respondents -/
theorem scale_median_int_weights (vals : List (Option Rat)) (rs : List SResp)
    (hr : ∀ r ∈ rs, r.cat < vals.length) (hn : ∀ r ∈ rs, natWeight r = true) :
    (theVec vals rs).median = ScaleSpec.median (respValues vals (unitExpand rs)) := by
  rw [← scale_median_spec vals (unitExpand rs) (unitExpand_inRange vals rs hr) (unitExpand_unit rs)]
  show weightedMedian (sortedPairs (valuesV vals) (countsV vals rs))
     = weightedMedian (sortedPairs (valuesV vals) (countsV vals (unitExpand rs)))
  rw [countsV_unitExpand vals rs hn]

/-- **what the driver op `scale_median_int` evaluates IS the respondent-level median** -/
theorem median_int_spec (vals : List (Option Rat)) (rs : List SResp)
    (hr : ∀ r ∈ rs, r.cat < vals.length) (hn : ∀ r ∈ rs, natWeight r = true) :
    medianInt vals rs = ScaleSpec.median (respValues vals (unitExpand rs)) := by
  rw [← scale_median_int_weights vals rs hr hn]
  unfold medianInt
  rw [optV_eq]
  rfl

/-- **strand, integer weights of any size** (`np.repeat` + `np.median`) -/
theorem strand_median_int_weights (vals : List (Option Rat)) (rs : List SResp)
    (hr : ∀ r ∈ rs, r.cat < vals.length) (hn : ∀ r ∈ rs, natWeight r = true) :
    (strandStats (valuesV vals) (countsV vals rs)).median
      = if respValues vals (unitExpand rs) = [] then SOut.none_
        else SOut.v (medianInt vals rs) := by
  rw [median_int_spec vals rs hr hn, ← countsV_unitExpand vals rs hn]
  exact strand_median_spec vals (unitExpand rs) (unitExpand_inRange vals rs hr) (unitExpand_unit rs)

/-- **overall margin of a slice, integer weights of any size** (`np.repeat` + `np.median`) -/
theorem margin_median_int_weights (vals : List (Option Rat)) (rs : List SResp)
    (hr : ∀ r ∈ rs, r.cat < vals.length) (hn : ∀ r ∈ rs, natWeight r = true) :
    marginMedian (valuesV vals) (countsV vals rs)
      = if isDefined (valuesV vals) = false ∨ respValues vals (unitExpand rs) = [] then SOut.none_
        else SOut.v (medianInt vals rs) := by
  rw [median_int_spec vals rs hr hn, ← countsV_unitExpand vals rs hn]
  exact margin_median_spec vals (unitExpand rs) (unitExpand_inRange vals rs hr) (unitExpand_unit rs)

/-- `np.median(np.repeat(values, counts))` IS the cumulative-count scan on the value-sorted
    pairs, whatever the size of the counts: no approximation of the frequencies is involved -/
theorem repeat_median_is_cumulative (l : List VN) :
    medianOf (expand (l.map enc))
      = weightedMedian ((l.map enc).mergeSort (fun p q => Val.le p.1 q.1)) := by
  have hs : (l.map enc).mergeSort (fun p q => Val.le p.1 q.1) = (l.mergeSort leN).map enc := by
    symm
    apply List.map_mergeSort
    intro a _ b _
    rfl
  rw [hs, expand_enc, medianOf_map_fin]
  symm
  apply weightedMedian_sorted
  · have := List.pairwise_mergeSort leN_trans leN_total l
    exact this.imp (by intro a b h; simpa [leN] using h)
  · exact expandN_perm (List.mergeSort_perm _ _)

/-- a relative-frequency rescaling of the counts does NOT preserve the median: the family the
    large-count cases exercise, in miniature (1500 / 1 / 1500 on values 1 / 2 / 10 has median 2;
    rounding the counts to a total of 1000 drops the middle category and yields 11/2) -/
theorem rescaled_counts_counterexample :
    weightedMedian ([(1, 1500), (2, 1), (10, 1500)].map enc) = Val.fin 2
    ∧ weightedMedian ([(1, 500), (2, 0), (10, 500)].map enc) = Val.fin (11 / 2) := by
  constructor <;>
  · rw [weightedMedian_nat]
    decide +kernel

/-! ### non-vacuity -/

/-- records of weight 1 500 000 / 1 / 1 500 000 in categories 0 / 1 / 2 (values 1, 2, 10) -/
example : (∀ r ∈ ([⟨1500000, 0⟩, ⟨1, 1⟩, ⟨1500000, 2⟩] : List SResp), natWeight r = true)
    ∧ (∀ r ∈ ([⟨1500000, 0⟩, ⟨1, 1⟩, ⟨1500000, 2⟩] : List SResp), r.cat < [some (1 : Rat), some 2, some 10].length) := by
  constructor
  · intro r hr
    simp only [List.mem_cons, List.not_mem_nil, or_false] at hr
    rcases hr with rfl | rfl | rfl <;> decide +kernel
  · intro r hr
    simp only [List.mem_cons, List.not_mem_nil, or_false] at hr
    rcases hr with rfl | rfl | rfl <;> simp

end CrCube.C14
