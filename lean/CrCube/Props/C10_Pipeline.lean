/-
  C10 — "Transposing the response transposes the result", for the END-TO-END pipeline
  (`Model/Pipeline.lean`): typed design + raw arrays + transforms → count extractors → blocks of
  every measure → pruning masks → display orders → assembled outputs.  Property theorems only.

  `c.transpose`      the cube with the two variables of the slice exchanged and every raw array
                     (weighted / unweighted counts, sums, means, stddev, medians) with the axis groups of
                     those variables exchanged (`Model/PipelineTranspose.lean`);
  `key.mirror`       direction-specific measure keywords exchanged (row_* <-> col_*);
  `d.mirror`         a dimension with the measure keyword of its sort-by-value order mirrored;
  `b.transpose`      the four blocks transposed (block [0][1] <-> [1][0]).

  What is NOT symmetric in the library is stated, not hidden:
    * `col_index` has no row twin (`MKey.symmetric .colIndex = false`): excluded;
    * population estimates on CAT_DATE × CAT_DATE are not transposes (rows win) — finding F9:
      `population_blocks_transpose` needs `¬ (rows.catDate ∧ cols.catDate)`, and
      `population_blocks_transpose_counterexample` shows the hypothesis is forced;
    * sorting by a marginal exists for rows only (`OrderSpec.mirrored`): hypothesis of the order
      theorems, `sort_by_marginal_not_mirrored_counterexample` shows it is forced.
-/
import CrCube.Lemmas.TransposeAssemble
import CrCube.Lemmas.PipelineResolve

set_option linter.unusedSimpArgs false
set_option linter.unusedVariables false

namespace CrCube.C10
open CrCube CrCube.Collator CrCube.Pipeline CrCube.Lemmas.Transpose

/-! ## 1. the count extractors -/

/-- **all nine extractor classes**: the class of the exchanged dimension kinds, applied to the array
    with the two axis groups exchanged, is the transposed extractor object (counts, row bases <->
    column bases, table bases, 1-D bases, table-base vectors, pruning bases) — for every array,
    NaN and infinities included -/
theorem nine_extractors_transpose (rk ck : DK) (t t' : FT) (hs : t.shape.length = nax rk + nax ck)
    (hsh : t'.shape = t.shape.drop (nax rk) ++ t.shape.take (nax rk))
    (hget : ∀ ix, ix.length = nax rk + nax ck → t'.get ix = t.get (ix.drop (nax ck) ++ ix.take (nax ck))) :
    MatCounts.factory ck rk t' = (MatCounts.factory rk ck t).transpose :=
  factory_transpose rk ck t t' hs hsh hget

/-- **the extractor objects of the transposed cube are the transposed extractor objects**, weighted
    and unweighted, 2-D and every partition of a 3-D cube, every CAT / MR pairing -/
theorem extractors_transpose (c : CubeData) (hc : c.Transposable) :
    c.transpose.w = c.w.transpose ∧ c.transpose.u = c.u.transpose :=
  ⟨cubeData_w_transpose c hc, cubeData_u_transpose c hc⟩

/-- the numeric cube measures (sums, means, stddev, medians) of the transposed cube -/
theorem numeric_transpose (c : CubeData) (hc : c.Transposable) (o : Option FT) (i j : Nat) :
    c.transpose.numeric (o.map c.rawT) i j = c.numeric o j i := by
  rw [cubeData_numeric_transpose c hc o]

/-- **pruning masks swap** -/
theorem pruning_masks_swap (c : CubeData) (hc : c.Transposable) :
    c.transpose.u.rowsPruningMask = c.u.columnsPruningMask ∧
    c.transpose.u.columnsPruningMask = c.u.rowsPruningMask ∧
    rowEmpties c.transpose = colEmpties c ∧ colEmpties c.transpose = rowEmpties c := by
  refine ⟨?_, ?_, rowEmpties_transpose c hc, colEmpties_transpose c hc⟩ <;>
    rw [cubeData_u_transpose c hc] <;> rfl

/-! ## 2. the z-score guards are symmetric -/

/-- rank < 2 (all 2×2 minors vanish) does not depend on the orientation -/
theorem minorsVanish_symmetric (nr nc : Nat) (m : Nat → Nat → Val) :
    minorsVanish nc nr (fun i j => m j i) = minorsVanish nr nc m :=
  minorsVanish_transpose nr nc m

/-- `_Zscores._is_defective` of the transposed base block -/
theorem defective_symmetric (nr nc : Nat) (m : Nat → Nat → Val) :
    isDefective nc nr (fun i j => m j i) = isDefective nr nc m :=
  isDefective_transpose nr nc m

/-- the per-block guard (`defective`, all row bases = table bases, all column bases = table bases)
    of the block containing (Q, P) of the transposed table is the guard of the block containing (P, Q) -/
theorem z_guard_symmetric (c : CubeData) (hc : c.Transposable) (rows cols : RDim) (P Q : Pos) :
    zGuardAt c.transpose.w (sliceCtx cols rows) Q P = zGuardAt c.w (sliceCtx rows cols) P Q := by
  rw [cubeData_w_transpose c hc]
  exact blockGuard_transpose c.w (sliceCtx rows cols) P Q

/-! ## 3. the blocks of every measure -/

/-- **the blocks of every direction-symmetric measure transpose under the mirrored keyword**:
    counts and bases (weighted, unweighted), row / column / table proportions, their variances and
    standard errors, z-scores, p-values, sums, means, stddev, medians, row / column / total share of
    sum — base values, inserted rows <-> inserted columns, intersections; subtotals and differences
    on both dimensions; all values incl. NaN / ±inf -/
theorem slice_blocks_transpose (c : CubeData) (hc : c.Transposable) (rows cols : RDim) (key : MKey)
    (hk : key.symmetric = true) :
    sliceBlocks c.transpose cols rows key.mirror = (sliceBlocks c rows cols key).transpose := by
  have hw := cubeData_w_transpose c hc
  have hu := cubeData_u_transpose c hc
  have hsum : c.transpose.numeric c.transpose.sums = fun i j => c.numeric c.sums j i :=
    cubeData_numeric_transpose c hc c.sums
  have hmean : c.transpose.numeric c.transpose.means = fun i j => c.numeric c.means j i :=
    cubeData_numeric_transpose c hc c.means
  have hstd : c.transpose.numeric c.transpose.stddevs = fun i j => c.numeric c.stddevs j i :=
    cubeData_numeric_transpose c hc c.stddevs
  have hmed : c.transpose.numeric c.transpose.medians = fun i j => c.numeric c.medians j i :=
    cubeData_numeric_transpose c hc c.medians
  cases key <;> (try (simp [MKey.symmetric] at hk; done)) <;>
    simp only [sliceBlocks, MKey.mirror, hw, hu, hsum, hmean, hstd, hmed] <;>
    first
      | exact counts_transpose _ false (sliceCtx rows cols)
      | exact columnWeightedBases_transpose _ (sliceCtx rows cols)
      | exact columnUnweightedBases_transpose _ (sliceCtx rows cols)
      | exact rowWeightedBases_transpose _ (sliceCtx rows cols)
      | exact rowUnweightedBases_transpose _ (sliceCtx rows cols)
      | exact tableBases_transpose _ (sliceCtx rows cols)
      | exact columnProportions_transpose _ false (sliceCtx rows cols)
      | exact rowProportions_transpose _ false (sliceCtx rows cols)
      | exact tableProportions_transpose _ false (sliceCtx rows cols)
      | exact varianceBlocks_transpose _ (sliceCtx rows cols) _
      | exact stdErrKeyBlocks_transpose _ (sliceCtx rows cols) _
      | exact zKeyBlocks_transpose _ (sliceCtx rows cols)
      | exact pKeyBlocks_transpose _ (sliceCtx rows cols)
      | exact sums_transpose _ _ _ (sliceCtx rows cols)
      | exact nanMeasure_transpose _ _ _ (sliceCtx rows cols)
      | exact columnShareSum_transpose _ _ _ (sliceCtx rows cols)
      | exact rowShareSum_transpose _ _ _ (sliceCtx rows cols)
      | exact totalShareSum_transpose _ _ _ (sliceCtx rows cols)

/-- the direction the population estimates use, mirrored — unless both dimensions are dates -/
theorem popDir_mirror (r cd : Bool) (h : ¬ (r = true ∧ cd = true)) :
    popDir cd r = (popDir r cd).mirror := by
  cases r <;> cases cd <;> simp_all [popDir, Dir.mirror]

/-- **population proportions / standard errors transpose unless BOTH dimensions are categorical
    dates** (then the rows direction wins both ways: finding F9) -/
theorem population_blocks_transpose (c : CubeData) (hc : c.Transposable) (rows cols : RDim) (key : MKey)
    (hk : key.populationKey = true) (h9 : ¬ (rows.catDate = true ∧ cols.catDate = true)) :
    sliceBlocks c.transpose cols rows key.mirror = (sliceBlocks c rows cols key).transpose := by
  have hw := cubeData_w_transpose c hc
  cases key <;> (try (simp [MKey.populationKey] at hk; done)) <;>
    simp only [sliceBlocks, MKey.mirror, hw, popDir_mirror rows.catDate cols.catDate h9] <;>
    first
      | exact dirPropBlocks_transpose c.w (sliceCtx rows cols) _
      | exact stdErrKeyBlocks_transpose c.w (sliceCtx rows cols) _

/-- every keyword that transposes for these dimensions -/
theorem slice_blocks_transpose_ok (c : CubeData) (hc : c.Transposable) (rows cols : RDim) (key : MKey)
    (hk : keyTransposes rows.catDate cols.catDate key = true) :
    sliceBlocks c.transpose cols rows key.mirror = (sliceBlocks c rows cols key).transpose := by
  unfold keyTransposes at hk
  cases hs : key.symmetric
  · simp only [hs, Bool.false_or, Bool.and_eq_true, Bool.not_eq_true', Bool.and_eq_false_imp] at hk
    refine population_blocks_transpose c hc rows cols key hk.1 ?_
    rintro ⟨h1, h2⟩
    have := hk.2 h1
    simp [h2] at this
  · exact slice_blocks_transpose c hc rows cols key hs

/-! ## 4. display orders -/

/-- the blocks do not see the order spec, so mirroring it changes nothing -/
theorem blocks_mirror (c : CubeData) (rows cols : RDim) (key : MKey) :
    sliceBlocks c rows.mirror cols.mirror key = sliceBlocks c rows cols key := rfl

theorem sliceAvail_transpose (c : CubeData) (key : MKey) :
    sliceAvail c.transpose key.mirror = sliceAvail c key := by
  cases key <;> simp [sliceAvail, MKey.mirror, CubeData.transpose]

/-- **the row order of the transposed cube under the mirrored column transforms is the column
    order**: payload order, explicit order, sort by label, sort by an opposing element / opposing
    insertion with any transposing measure keyword, fixed top / bottom lists, hide, prune with
    the opposing dimension's empties, subtotals dropped when the opposing dimension is pruned
    empty.  Hypotheses: the order type exists on both axes (not `marginal`); an array dimension
    carries no subtotals (true of every resolved dimension); the sort keyword transposes. -/
theorem row_order_transposes (c : CubeData) (hc : c.Transposable) (rows cols : RDim)
    (hmir : cols.order.mirrored = true) (harr : rows.kind ≠ .cat → rows.cdim.subs = [])
    (hkey : ∀ key, cols.order.key? = some key → keyTransposes rows.catDate cols.catDate key = true) :
    sliceRowOrder c.transpose cols.mirror rows.mirror = sliceColOrder c rows cols := by
  unfold sliceRowOrder sliceColOrder rowPruneSubs colPruneSubs
  rw [rowEmpties_transpose c hc, colEmpties_transpose c hc]
  rw [rowROrder_transpose (sliceBlocks c rows cols) (sliceBlocks c.transpose cols.mirror rows.mirror)
    (sliceAvail c) (sliceAvail c.transpose) _ rows cols hmir harr
    (fun key hk => slice_blocks_transpose_ok c hc rows cols key (hkey key hk))
    (sliceAvail_transpose c)]
  rfl

/-- the column order of the transposed cube under the mirrored row transforms is the row order -/
theorem col_order_transposes (c : CubeData) (hc : c.Transposable) (rows cols : RDim)
    (hmir : rows.order.mirrored = true) (harr : cols.kind ≠ .cat → cols.cdim.subs = [])
    (hkey : ∀ key, rows.order.key? = some key → keyTransposes rows.catDate cols.catDate key = true) :
    sliceColOrder c.transpose cols.mirror rows.mirror = sliceRowOrder c rows cols := by
  unfold sliceRowOrder sliceColOrder rowPruneSubs colPruneSubs
  rw [rowEmpties_transpose c hc, colEmpties_transpose c hc]
  rw [colROrder_transpose (sliceBlocks c rows cols) (sliceBlocks c.transpose cols.mirror rows.mirror)
    (sliceAvail c) (sliceAvail c.transpose) (rowMarginalKeys c rows cols) rows cols hmir harr
    (fun key hk => slice_blocks_transpose_ok c hc rows cols key (hkey key hk))
    (sliceAvail_transpose c)]
  rfl

/-! ## 5. assembled outputs -/

theorem mirror_kind (d : RDim) : d.mirror.kind = d.kind := rfl

/-- the assembly step under exchanged orders: for ANY two display orders -/
theorem assemble_transposes (c : CubeData) (hc : c.Transposable) (rows cols : RDim) (ro co : List Int) :
    (assembleSlice c.transpose cols.mirror rows.mirror co ro).IsTransposeOf
      (assembleSlice c rows cols ro co) (keyTransposes rows.catDate cols.catDate) := by
  have hw := cubeData_w_transpose c hc
  have hu := cubeData_u_transpose c hc
  have hB : ∀ k, keyTransposes rows.catDate cols.catDate k = true →
      sliceBlocks c.transpose cols.mirror rows.mirror k.mirror = (sliceBlocks c rows cols k).transpose :=
    fun k hk => slice_blocks_transpose_ok c hc rows cols k hk
  have h1 := hB .rowBasesW rfl
  have h2 := hB .colBasesW rfl
  have h3 := hB .rowBasesU rfl
  have h4 := hB .colBasesU rfl
  have h5 := hB .tableBasesW rfl
  have h6 := hB .tableBasesU rfl
  simp only [MKey.mirror] at h1 h2 h3 h4 h5 h6
  constructor
  case mat =>
    intro k hk
    simp only [assembleSlice]
    rw [hB k hk, assembleMatrix_transpose]
  case rowsMargin =>
    simp only [assembleSlice, hw, h2]
    cases hb : c.w.columnsBase <;>
      simp [MatCounts.transpose, hb, margTranspose, assembleMatrix_transpose, rowsMarginal_transpose]
  case columnsMargin =>
    simp only [assembleSlice, hw, h1]
    cases hb : c.w.rowsBase <;>
      simp [MatCounts.transpose, hb, margTranspose, assembleMatrix_transpose, colsMarginal_transpose]
  case rowsBase =>
    simp only [assembleSlice, h4, mirror_kind]
    cases hb : (rows.kind == DK.cat) <;>
      simp [hb, margTranspose, assembleMatrix_transpose, rowsMarginal_transpose]
  case columnsBase =>
    simp only [assembleSlice, h3, mirror_kind]
    cases hb : (cols.kind == DK.cat) <;>
      simp [hb, margTranspose, assembleMatrix_transpose, colsMarginal_transpose]
  case tableMargin =>
    simp only [assembleSlice, hw, h5]
    exact tableMarginal_transpose c.w _ rows cols rows.mirror cols.mirror rfl rfl
      (sliceCounts_tableBase_excl _ _ _) ro co
  case tableBase =>
    simp only [assembleSlice, hu, h6]
    exact tableMarginal_transpose c.u _ rows cols rows.mirror cols.mirror rfl rfl
      (sliceCounts_tableBase_excl _ _ _) ro co
  all_goals rfl

/-- **slice_output_transposes**: the whole pipeline on the transposed cube with the dimensions
    exchanged and keywords mirrored gives the transposed outputs — orders, shape, inserted /
    difference / derived index lists and label lists exchanged; every measure matrix with a
    transposing keyword is the transpose under the mirrored keyword; rows margin / base <->
    columns margin / base; table margin / base transposed -/
theorem slice_output_transposes (c : CubeData) (hc : c.Transposable) (rows cols : RDim)
    (hmr : rows.order.mirrored = true) (hmc : cols.order.mirrored = true)
    (har : rows.kind ≠ .cat → rows.cdim.subs = []) (hac : cols.kind ≠ .cat → cols.cdim.subs = [])
    (hkr : ∀ key, rows.order.key? = some key → keyTransposes rows.catDate cols.catDate key = true)
    (hkc : ∀ key, cols.order.key? = some key → keyTransposes rows.catDate cols.catDate key = true) :
    (runSlice c.transpose cols.mirror rows.mirror).IsTransposeOf (runSlice c rows cols)
      (keyTransposes rows.catDate cols.catDate) := by
  unfold runSlice
  rw [row_order_transposes c hc rows cols hmc har hkc, col_order_transposes c hc rows cols hmr hac hkr]
  exact assemble_transposes c hc rows cols _ _

/-- a resolved array dimension carries no subtotals -/
theorem resolve_array_no_subs (d : TDim) (r : RDim) (h : d.resolve = some r) (hk : r.kind ≠ .cat) :
    r.cdim.subs = [] := by
  unfold TDim.resolve at h
  cases hs : d.collSubs with
  | none => simp [hs] at h
  | some subs =>
    simp only [hs, Option.map_some, Option.some.injEq] at h
    subst h
    unfold TDim.collSubs at hs
    have : d.isArray = true := by
      unfold TDim.isArray; simpa using hk
    simp [this] at hs
    exact hs

theorem resolve_mirror (d : TDim) : d.mirror.resolve = d.resolve.map RDim.mirror := by
  unfold TDim.resolve
  cases h : d.collSubs <;>
    simp [TDim.mirror, TDim.collSubs, TDim.isArray, TDim.subtotals, TDim.subLabels, TDim.liveIns,
      TDim.hidden, TDim.validIds, TDim.ids, RDim.mirror, h] <;>
    simpa [TDim.collSubs, TDim.isArray, TDim.ids] using h

/-- **end to end, from the typed design and the transforms dicts**: whenever the pipeline
    produces an output, the pipeline on the transposed cube with the two transforms exchanged
    and mirrored produces its transpose -/
theorem pipeline_transposes (c : CubeData) (hc : c.Transposable) (rows cols : TDim)
    (hmr : rows.order.mirrored = true) (hmc : cols.order.mirrored = true)
    (hkr : ∀ key, rows.order.key? = some key → keyTransposes rows.catDate cols.catDate key = true)
    (hkc : ∀ key, cols.order.key? = some key → keyTransposes rows.catDate cols.catDate key = true)
    (s : SliceOut) (hs : slicePipeline c rows cols = some s) :
    ∃ t, slicePipeline c.transpose cols.mirror rows.mirror = some t ∧
      t.IsTransposeOf s (keyTransposes rows.catDate cols.catDate) := by
  unfold slicePipeline at hs ⊢
  rw [resolve_mirror, resolve_mirror]
  cases hr : rows.resolve with
  | none => simp [hr] at hs
  | some r =>
    cases hcl : cols.resolve with
    | none => simp [hr, hcl] at hs
    | some cl =>
      simp only [hr, hcl, Option.some.injEq] at hs
      subst hs
      refine ⟨_, rfl, ?_⟩
      have fr := resolve_fields rows r hr
      have fc := resolve_fields cols cl hcl
      have hcdr : r.catDate = rows.catDate := by
        unfold TDim.resolve at hr; cases h : rows.collSubs <;> simp [h] at hr; rw [← hr]
      have hcdc : cl.catDate = cols.catDate := by
        unfold TDim.resolve at hcl; cases h : cols.collSubs <;> simp [h] at hcl; rw [← hcl]
      rw [← hcdr, ← hcdc] at hkr hkc ⊢
      exact slice_output_transposes c hc r cl (by rw [fr.2.2.2.2.2.1]; exact hmr)
        (by rw [fc.2.2.2.2.2.1]; exact hmc)
        (resolve_array_no_subs rows r hr) (resolve_array_no_subs cols cl hcl)
        (by rw [fr.2.2.2.2.2.1]; exact hkr) (by rw [fc.2.2.2.2.2.1]; exact hkc)

/-! ## 6. scale marginals: rows <-> columns -/

/-- **the scale statistics (mean, median, std-dev, std-err per vector) of the rows of the transposed
    table are those of the columns of the original**, and vice versa -/
theorem scale_marginals_swap (c : CubeData) (hc : c.Transposable) (rows cols : RDim) :
    rowScaleVectors c.transpose cols rows = colScaleVectors c rows cols ∧
    colScaleVectors c.transpose cols rows = rowScaleVectors c rows cols := by
  unfold rowScaleVectors colScaleVectors
  rw [cubeData_w_transpose c hc]
  exact ⟨rfl, rfl⟩

/-! ## 7. what is NOT symmetric: the forced hypotheses -/

namespace TransposeExamples

def D : Var := ⟨.cat, 2, [false, false], false⟩
/-- a 2 × 2 CAT × CAT cube, counts [[1, 2], [3, 4]] -/
def cube9 : CubeData := { vars := [D, D], wraw := FT.ofFlat [2, 2] [1, 2, 3, 4], uraw := FT.ofFlat [2, 2] [1, 2, 3, 4] }
def dim (catDate : Bool) (order : OrderSpec) : RDim :=
  { kind := .cat, catDate := catDate
    cdim := { elems := [⟨.int 1, false, .none⟩, ⟨.int 2, false, .none⟩], subs := [] }
    subtotals := [], labels := ["a", "b"], subLabels := [], numVals := [], order := order }

end TransposeExamples

open TransposeExamples in
/-- **F9** (known finding): on CAT_DATE × CAT_DATE the population proportions of the transposed cube
    are NOT the transposed population proportions (the rows direction wins both ways): cell [0][1]
    is 3/4 one way and 3/7 the other.  So `h9` of `population_blocks_transpose` is forced. -/
theorem population_blocks_transpose_counterexample :
    (sliceBlocks cube9.transpose (dim true .payload) (dim true .payload) MKey.popProps.mirror).body 0 1
      ≠ ((sliceBlocks cube9 (dim true .payload) (dim true .payload) .popProps).transpose).body 0 1 := by
  decide +kernel

open TransposeExamples in
/-- sorting COLUMNS by a marginal is ignored by the library (there is no column twin of
    `_SortRowsByMarginalHelper`) while the mirrored transform sorts the ROWS of the transposed cube:
    the row helper of the transposed cube collates BY VALUE on the bases [4, 6] (descending: order
    [1, 0]) where the column helper of the original uses payload order.  So `hmir` of
    `row_order_transposes` is forced. -/
theorem sort_by_marginal_not_mirrored_counterexample :
    (match rowROrder (sliceBlocks cube9.transpose (dim false .payload) (dim false .payload))
        (sliceAvail cube9.transpose)
        (rowMarginalKeys cube9.transpose (dim false .payload) (dim false .payload))
        (dim false (.marginal (some .baseU) {})).mirror (dim false .payload).mirror with
      | .byValue o v _ => (o.desc, v)
      | _ => (false, []))
      = (true, [.fin 4, .fin 6])
    ∧ (match colROrder (sliceBlocks cube9 (dim false .payload) (dim false .payload)) (sliceAvail cube9)
          (dim false .payload) (dim false (.marginal (some .baseU) {})) with
        | .payload => true
        | _ => false) = true := by
  decide +kernel

/-! ## 8. non-vacuity of the hypotheses (tests, not the claims) -/

namespace TransposeExamples

def R : Var := ⟨.cat, 3, [false, true, false], false⟩       -- missing category mid-payload
def M : Var := ⟨.arr, 2, [false, false, true], true⟩        -- multiple response, 2 items
def T : Var := ⟨.cat, 2, [false, false], false⟩
def sv : Survey :=
  [⟨2, [[0], [0, 1]]⟩, ⟨1/2, [[0], [1, 0]]⟩, ⟨3, [[2], [0, 0]]⟩, ⟨1, [[1], [0, 2]]⟩, ⟨1, [[2], [2, 1]]⟩]
def cube : CubeData := { vars := [R, M], wraw := cubeOf [R, M] sv, uraw := cubeOf [R, M] (unweight sv) }
def sv3 : Survey := sv.map fun r => { r with ans := [0] :: r.ans }
def cube3 : CubeData :=
  { vars := [T, R, M], wraw := cubeOf [T, R, M] sv3, uraw := cubeOf [T, R, M] (unweight sv3), k := 0 }

/-- rows: ids 5, 9 with a subtotal and a difference, sorted by the first column's row percent -/
def rowsT : TDim :=
  { kind := .cat, elems := [⟨.int 5, false, .none⟩, ⟨.int 9, false, .none⟩], labels := ["five", "nine"]
    trIns := some [{ args := [5, 9], anchor := .int 5, id := some 1, label := "both" },
                   { args := [5], negative := [9], anchor := .word "bottom", id := some 2, label := "diff" }]
    hide := [false, false], prune := true
    order := .oppElement (.int 1) (some .rowProps) { desc := false } }
/-- columns: the two MR items, explicit order -/
def colsT : TDim :=
  { kind := .mr, elems := [⟨.int 1, false, .none⟩, ⟨.int 2, false, .none⟩], labels := ["a", "b"]
    hide := [false, false], order := .explicit [.int 2, .int 1] }

example : cube.Transposable := by decide
example : cube3.Transposable := by decide
example : cube9.Transposable := by decide
example : (slicePipeline cube rowsT colsT).isSome = true := by decide +kernel
example : rowsT.order.mirrored = true ∧ colsT.order.mirrored = true := ⟨rfl, rfl⟩
example : ∀ key, rowsT.order.key? = some key → keyTransposes rowsT.catDate colsT.catDate key = true := by
  intro key h
  have : key = .rowProps := by simpa [rowsT, OrderSpec.key?] using h.symm
  subst this; rfl
example : ∀ key, colsT.order.key? = some key → keyTransposes rowsT.catDate colsT.catDate key = true := by
  intro key h; simp [colsT, OrderSpec.key?] at h
/-- `key.symmetric` / `key.populationKey` / the F9 condition are satisfiable -/
example : MKey.zscores.symmetric = true ∧ MKey.popProps.populationKey = true
    ∧ ¬ ((dim true .payload).catDate = true ∧ (dim false .payload).catDate = true) := by decide
/-- a resolved array dimension has no subtotals: the `harr` hypotheses hold of the instance -/
example (r : RDim) (h : colsT.resolve = some r) : r.kind ≠ .cat → r.cdim.subs = [] :=
  resolve_array_no_subs colsT r h
/-- hypotheses of `nine_extractors_transpose` on a CAT × MR array -/
example : (validCube [R, M] cube.wraw).shape.length = nax .cat + nax .mr := by decide
end TransposeExamples

end CrCube.C10
