/-
  C06 — which rows of strand k of a CA-as-0th cube are EMPTY (pruned under `prune: true`, and skipped
  by `payload_order`) is decided on sub-variable k alone.

  `StripeMeasures.pruning_base` = `unweighted_cube_counts.pruning_base`, and for a CA-as-0th strand
  `_BaseCubeCounts.factory` builds `_CatCubeCounts(rows_dimension, counts[slice_idx])`
  (`strandCountsCA0`): the pruning base of strand k is row k of the unweighted items × categories
  table, i.e. the pruning base of the univariate analysis of sub-variable k; a row is empty iff no
  respondent chose that category FOR THAT SUB-VARIABLE.  A pruning base summed over the whole array
  (the categories "shared" by the stacked strands) is refuted on a two-item example.
-/
import CrCube.Props.C06_CubeSet
import CrCube.Model.Pipeline
import CrCube.Model.SliceArr
import CrCube.Lemmas.Slice1Var
import CrCube.Lemmas.SliceArr
import CrCube.Lemmas.SpecFacts

set_option linter.unusedSimpArgs false
set_option linter.unusedVariables false

namespace CrCube.C06
open CrCube CrCube.Pipeline

/-- `_BaseOrderHelper._empty_row_idxs` / `_Strand.payload_order`'s `empty_row_idxs` of strand `k`
    of a CA-as-0th cube whose unweighted counts are `uraw`: `N == 0` over `pruning_base` -/
def ca0Empties (A : Var) (uraw : FT) (k : Nat) : List Nat :=
  trueIdxs (tab1 (strandCountsCA0 A uraw k).n (fun i => (strandCountsCA0 A uraw k).pruningBase i == .fin 0))

/-- the univariate analysis of sub-variable `k`: the 1-D cube of the recoded survey -/
def itemStrand (ca : Var) (s : Survey) (k : Nat) : StrandData :=
  { vars := [ca.itemVar]
    wraw := cubeOf [ca.itemVar] (s.map (recodeItem k))
    uraw := cubeOf [ca.itemVar] ((unweight s).map (recodeItem k)) }

/-- the whole extractor object of strand k (counts, bases, table base, PRUNING BASE) is the one of
    the univariate analysis of sub-variable k; here for the pruning base -/
theorem ca_as_0th_pruning_base (ca : Var) (hca : ca.kind = .arr) (hnm : ca.isMR = false) (s : Survey)
    (k : Nat) (hk : k < ca.n) :
    (strandCountsCA0 ca (cubeOf [ca] s) k).pruningBase
      = (strandCounts [ca.itemVar] (cubeOf [ca.itemVar] (s.map (recodeItem k)))).pruningBase := by
  have h := ca_as_0th_partitions ca hca hnm s k hk
  unfold strandCountsCA0
  rw [h]

theorem ca_as_0th_n (ca : Var) (hca : ca.kind = .arr) (hnm : ca.isMR = false) (s : Survey)
    (k : Nat) (hk : k < ca.n) :
    (strandCountsCA0 ca (cubeOf [ca] s) k).n
      = (strandCounts [ca.itemVar] (cubeOf [ca.itemVar] (s.map (recodeItem k)))).n := by
  have h := ca_as_0th_partitions ca hca hnm s k hk
  unfold strandCountsCA0
  rw [h]

/-- the pruning base of a categorical strand is its counts vector -/
theorem cat_pruningBase_eq_counts (V : Var) (hV : V.kind = .cat) (raw : FT) (i : Nat) :
    (strandCounts [V] raw).pruningBase i = (strandCounts [V] raw).counts i := by
  simp [strandCounts, apparentKinds, Var.dks, hV, StripeCounts.cat]

/-- **respondent level**: entry `i` of the pruning base of strand k (the library feeds it the
    UNWEIGHTED counts) is the number of respondents who chose valid category `i` for sub-variable k -/
theorem ca_as_0th_pruning_base_respondents (ca : Var) (hca : ca.kind = .arr) (hnm : ca.isMR = false)
    (s : Survey) (k : Nat) (hk : k < ca.n) (i : Nat) (hi : i < ca.itemVar.ext) :
    (strandCountsCA0 ca (cubeOf [ca] (unweight s)) k).pruningBase i
      = .fin (specCount [ca.itemVar] ((unweight s).map (recodeItem k)) [i] [false]) := by
  rw [ca_as_0th_pruning_base ca hca hnm (unweight s) k hk,
    cat_pruningBase_eq_counts ca.itemVar rfl,
    strand_counts_spec ca.itemVar (itemVar_CM ca) _ i hi]

/-- **the rows of strand k that count as empty are those of the univariate analysis of
    sub-variable k** (`strandEmpties` is what the strand pipeline — display order, hiding,
    `payload_order` — is proved about in C05 / C10) -/
theorem ca_as_0th_empties (ca : Var) (hca : ca.kind = .arr) (hnm : ca.isMR = false) (s : Survey)
    (k : Nat) (hk : k < ca.n) :
    ca0Empties ca (cubeOf [ca] (unweight s)) k = strandEmpties (itemStrand ca s k) := by
  unfold ca0Empties strandEmpties itemStrand StrandData.u
  simp only
  rw [ca_as_0th_pruning_base ca hca hnm (unweight s) k hk, ca_as_0th_n ca hca hnm (unweight s) k hk]

theorem mem_trueIdxs_tab1 (n : Nat) (f : Nat → Bool) (i : Nat) :
    i ∈ trueIdxs (tab1 n f) ↔ i < n ∧ f i = true := by
  simp only [trueIdxs, List.mem_filter, List.mem_range, tab1, List.length_map, List.length_range]
  constructor
  · rintro ⟨hi, h⟩
    refine ⟨hi, ?_⟩
    simpa [List.getD, hi] using h
  · rintro ⟨hi, h⟩
    refine ⟨hi, ?_⟩
    simpa [List.getD, hi] using h

/-- **a row of strand k is empty iff NOBODY chose that category for sub-variable k** — whatever the
    other sub-variables of the array look like, and whatever the weights -/
theorem ca_as_0th_empties_iff_nobody (ca : Var) (hca : ca.kind = .arr) (hnm : ca.isMR = false)
    (s : Survey) (k : Nat) (hk : k < ca.n) (i : Nat) (hi : i < ca.itemVar.ext) :
    i ∈ ca0Empties ca (cubeOf [ca] (unweight s)) k
      ↔ ∀ r ∈ s, specMemAll [ca.itemVar] (recodeItem k r).ans [i] [false] = false := by
  have hn : (strandCountsCA0 ca (cubeOf [ca] (unweight s)) k).n = ca.itemVar.ext := by
    rw [ca_as_0th_n ca hca hnm (unweight s) k hk, strand_n ca.itemVar (itemVar_CM ca)]
  unfold ca0Empties
  rw [mem_trueIdxs_tab1, hn, ca_as_0th_pruning_base_respondents ca hca hnm s k hk i hi]
  have hmap : (unweight s).map (recodeItem k) = unweight (s.map (recodeItem k)) := by
    simp [unweight, recodeItem, List.map_map, Function.comp_def]
  unfold specCount
  rw [hmap, wsum_unweight _ _ (fun r => rfl)]
  constructor
  · rintro ⟨_, h⟩ r hr
    have h0 : (((s.map (recodeItem k)).filter
        (fun r => specMemAll [ca.itemVar] r.ans [i] [false])).length : Rat) = 0 := by
      simpa using h
    have h1 : ((s.map (recodeItem k)).filter
        (fun r => specMemAll [ca.itemVar] r.ans [i] [false])).length = 0 := by exact_mod_cast h0
    have h2 := List.eq_nil_of_length_eq_zero h1
    rw [List.filter_eq_nil_iff] at h2
    have := h2 (recodeItem k r) (List.mem_map.mpr ⟨r, hr, rfl⟩)
    simpa using this
  · intro h
    refine ⟨hi, ?_⟩
    have h2 : (s.map (recodeItem k)).filter
        (fun r => specMemAll [ca.itemVar] r.ans [i] [false]) = [] := by
      rw [List.filter_eq_nil_iff]
      intro r hr
      obtain ⟨r', hr', rfl⟩ := List.mem_map.mp hr
      simp [h r' hr']
    rw [h2]
    simp

/-! ## the array-wide pruning base is NOT the strand's -/

/-- pruning base summed over every sub-variable of the array ("the stacked strands share their
    category rows"): what strand k would be pruned on if the whole array decided -/
def arrayPruningBase (A : Var) (uraw : FT) (i : Nat) : Val :=
  vsum A.n (fun k => (strandCountsCA0 A uraw k).pruningBase i)

def exCA : Var := ⟨.arr, 2, [false, false], false⟩
/-- two respondents: item 0 → category 0 both times; item 1 → category 0, category 1 -/
def exSurvey : Survey := [⟨1, [[0, 0]]⟩, ⟨1, [[0, 1]]⟩]

/-- category 1 is empty for item 0 (pruned from strand 0) but not over the whole array -/
theorem array_pruning_base_counterexample :
    ca0Empties exCA (cubeOf [exCA] (unweight exSurvey)) 0 = [1] ∧
    ca0Empties exCA (cubeOf [exCA] (unweight exSurvey)) 1 = [] ∧
    trueIdxs (tab1 2 (fun i => arrayPruningBase exCA (cubeOf [exCA] (unweight exSurvey)) i == .fin 0)) = [] := by
  decide +kernel

/-! ## non-vacuity -/

example : exCA.kind = .arr ∧ exCA.isMR = false ∧ (0 : Nat) < exCA.n ∧ (1 : Nat) < exCA.itemVar.ext := by decide
example : (1 : Nat) ∈ ca0Empties exCA (cubeOf [exCA] (unweight exSurvey)) 0 := by decide +kernel
example : ∀ r ∈ exSurvey, specMemAll [exCA.itemVar] (recodeItem 0 r).ans [1] [false] = false := by decide
example : strandEmpties (itemStrand exCA exSurvey 0) = [1] := by decide +kernel

end CrCube.C06
