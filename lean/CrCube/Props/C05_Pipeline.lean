/-
  C05 — "Display transforms only select and reorder; every output stays aligned", for the
  END-TO-END pipeline (`Model/Pipeline.lean`): typed design + raw arrays + transforms
  → count extractors → blocks of every measure → pruning masks → display orders (sort values
  read from the pipeline's own blocks) → assembled public outputs.  Property theorems only.

  `rows.strip`, `cols.strip` : the same dimensions with order / fixed lists / per-element hide
  flags / prune removed and the insertions kept.  `SliceWF` / `StrandWF` : the decidable side
  conditions every real partition satisfies (distinct element ids; the typed dimensions describe
  the axes of the extractor; one label per element and per subtotal) — the driver evaluates them
  on every case of the correspondence.
-/
import CrCube.Lemmas.Pipeline
import CrCube.Lemmas.PipelineResolve
import CrCube.Props.C01
import CrCube.Props.C02
import CrCube.Props.C09

set_option linter.unusedSimpArgs false
set_option linter.unusedVariables false

namespace CrCube.C05
open CrCube CrCube.Collator CrCube.Pipeline CrCube.Lemmas.Bridge

/-! ## 1. the blocks of every measure do not see the display transforms -/

/-- the blocks of every measure the pipeline computes depend on the two dimensions only through
    their resolved insertions and the categorical-date flag … -/
theorem slice_blocks_depend_on_insertions_only (c : CubeData) (rows rows' cols cols' : RDim)
    (hr : rows'.subtotals = rows.subtotals) (hrd : rows'.catDate = rows.catDate)
    (hc : cols'.subtotals = cols.subtotals) (hcd : cols'.catDate = cols.catDate) (key : MKey) :
    sliceBlocks c rows' cols' key = sliceBlocks c rows cols key := by
  unfold sliceBlocks sliceCtx
  rw [hr, hrd, hc, hcd]

/-- … hence **under transforms t they are the blocks under strip t**, whatever order spec
    (including one that sorts by those very blocks), hide flags and prune flags t carries. -/
theorem slice_blocks_independent (c : CubeData) (rows cols : RDim) (key : MKey) :
    sliceBlocks c rows.strip cols.strip key = sliceBlocks c rows cols key :=
  slice_blocks_depend_on_insertions_only c rows rows.strip cols cols.strip rfl rfl rfl rfl key

/-- strip commutes with the resolution of a dimension's insertions -/
theorem resolve_strip (d : TDim) : d.strip.resolve = d.resolve.map RDim.strip :=
  resolve_strip_eq d

/-- the same statement end to end, from the typed dimensions and their transforms dicts -/
theorem slice_blocks_independent_e2e (c : CubeData) (rows cols : TDim) (key : MKey) :
    slicePipelineBlocks c rows.strip cols.strip key = slicePipelineBlocks c rows cols key := by
  unfold slicePipelineBlocks
  rw [resolve_strip, resolve_strip]
  cases rows.resolve <;> cases cols.resolve <;> rfl

theorem strand_blocks_independent (c : StrandData) (d : RDim) (key : SKey) :
    strandBlocks c d.strip key = strandBlocks c d key := rfl

/-- resolution yields dimensions whose two views of the insertion list agree -/
theorem resolve_wf (d : TDim) (r : RDim) (h : d.resolve = some r) :
    r.subtotals.length = r.cdim.subs.length ∧ r.subLabels.length = r.cdim.subs.length ∧
    r.cdim.elems = d.elems ∧ r.cdim.hidden = d.hidden ∧ r.cdim.prune = d.prune := by
  obtain ⟨h1, h2, h3, _, _, _, h7, h8⟩ := resolve_fields d r h
  exact ⟨h7, h8, h1, h2, h3⟩

/-! ## 2. the pipeline's display orders -/

/-- an order never lists an element or subtotal twice -/
theorem slice_order_nodup (c : CubeData) (rows cols : RDim) (h : SliceWF c rows cols) :
    (sliceRowOrder c rows cols).Nodup ∧ (sliceColOrder c rows cols).Nodup :=
  ⟨helper_run_nodup _ _ _ _ h.1, helper_run_nodup _ _ _ _ h.2.1⟩

/-- every vector displayed under t is displayed under strip t -/
theorem slice_order_subset (c : CubeData) (rows cols : RDim) (h : SliceWF c rows cols) :
    (∀ x ∈ sliceRowOrder c rows cols, x ∈ sliceRowOrder c rows.strip cols.strip) ∧
    (∀ y ∈ sliceColOrder c rows cols, y ∈ sliceColOrder c rows.strip cols.strip) :=
  ⟨helper_run_subset rows.cdim _ _ _ h.1 (rowROrder_wf c rows cols h) rows.strip.cdim _ rfl rfl rfl rfl,
   helper_run_subset cols.cdim _ _ _ h.2.1 (colROrder_wf c rows cols h) cols.strip.cdim _ rfl rfl rfl rfl⟩

/-- the stripped order lists every element and every subtotal -/
theorem slice_strip_order_complete (c : CubeData) (rows cols : RDim) (h : SliceWF c rows cols) (x : Int) :
    x ∈ sliceRowOrder c rows.strip cols.strip ↔
      (∃ i : Nat, x = (i : Int) ∧ i < rows.cdim.elems.length) ∨ x ∈ negIdxs rows.cdim.subs.length :=
  payload_run_mem rows.strip.cdim _ h.1 rfl rfl x

theorem strand_order_nodup (c : StrandData) (d : RDim) (h : StrandWF c d) : (strandOrder c d).Nodup :=
  run_nodup _ _ _ h.1

theorem strand_order_subset (c : StrandData) (d : RDim) (h : StrandWF c d) :
    ∀ x ∈ strandOrder c d, x ∈ strandOrder c d.strip := by
  have := helper_run_subset d.cdim (strandEmpties c) (strandROrder (strandBlocks c d) (strandAvail c) d) false h.1
    (strandROrder_wf c d h) d.strip.cdim (strandEmpties c) rfl rfl rfl rfl
  exact fun x hx => this x hx

/-! ## 3. every output under t = the output under strip t re-indexed by the display orders -/

/-- **matrices** (all eleven measures): `C05.matrix_reindexed` instantiated with the pipeline's
    own orders, `o ⊆ o₀` discharged from the collator lemmas, the blocks from §1 -/
theorem slice_output_reindexed (c : CubeData) (rows cols : RDim) (h : SliceWF c rows cols) (key : MKey) :
    let t := runSlice c rows cols
    let s := runSlice c rows.strip cols.strip
    t.mat key = reindexMat t.rowOrder t.colOrder s.rowOrder s.colOrder (s.mat key) := by
  obtain ⟨hr, hc⟩ := slice_order_subset c rows cols h
  exact assembleMatrix_reindex _ _ _ _ _ hr hc

/-- **margins**: rows / columns margin and base (1-D, or the 2-D fallback across an array
    dimension), table margin / base (scalar, 1-D along the non-array dimension, or 2-D) -/
theorem slice_margins_reindexed (c : CubeData) (rows cols : RDim) (h : SliceWF c rows cols) :
    let t := runSlice c rows cols
    let s := runSlice c rows.strip cols.strip
    let ri := reindexMarg
    t.rowsMargin = ri .rows t.rowOrder t.colOrder s.rowOrder s.colOrder s.rowsMargin ∧
    t.columnsMargin = ri .cols t.rowOrder t.colOrder s.rowOrder s.colOrder s.columnsMargin ∧
    t.rowsBase = ri .rows t.rowOrder t.colOrder s.rowOrder s.colOrder s.rowsBase ∧
    t.columnsBase = ri .cols t.rowOrder t.colOrder s.rowOrder s.colOrder s.columnsBase ∧
    t.tableMargin = ri (tableOrient c.w) t.rowOrder t.colOrder s.rowOrder s.colOrder s.tableMargin ∧
    t.tableBase = ri (tableOrient c.u) t.rowOrder t.colOrder s.rowOrder s.colOrder s.tableBase := by
  obtain ⟨hr, hc⟩ := slice_order_subset c rows cols h
  refine ⟨?_, ?_, ?_, ?_, ?_, ?_⟩
  · show (match c.w.rowsBase with
        | some _ => Marg.vec _ | none => Marg.mat _) = reindexMarg .rows _ _ _ _ (match c.w.rowsBase with
        | some _ => Marg.vec _ | none => Marg.mat _)
    cases c.w.rowsBase with
    | some f => exact congrArg Marg.vec (rowsMarginal_reindex _ _ _ hr)
    | none => exact congrArg Marg.mat (assembleMatrix_reindex _ _ _ _ _ hr hc)
  · show (match c.w.columnsBase with
        | some _ => Marg.vec _ | none => Marg.mat _) = reindexMarg .cols _ _ _ _ (match c.w.columnsBase with
        | some _ => Marg.vec _ | none => Marg.mat _)
    cases c.w.columnsBase with
    | some f => exact congrArg Marg.vec (colsMarginal_reindex _ _ _ hc)
    | none => exact congrArg Marg.mat (assembleMatrix_reindex _ _ _ _ _ hr hc)
  · show (if cols.kind == .cat then Marg.vec _ else Marg.mat _)
        = reindexMarg .rows _ _ _ _ (if cols.kind == .cat then Marg.vec _ else Marg.mat _)
    cases (cols.kind == DK.cat)
    · exact congrArg Marg.mat (assembleMatrix_reindex _ _ _ _ _ hr hc)
    · exact congrArg Marg.vec (rowsMarginal_reindex _ _ _ hr)
  · show (if rows.kind == .cat then Marg.vec _ else Marg.mat _)
        = reindexMarg .cols _ _ _ _ (if rows.kind == .cat then Marg.vec _ else Marg.mat _)
    cases (rows.kind == DK.cat)
    · exact congrArg Marg.mat (assembleMatrix_reindex _ _ _ _ _ hr hc)
    · exact congrArg Marg.vec (colsMarginal_reindex _ _ _ hc)
  · exact tableMarginal_reindex _ _ rows cols _ _ _ _ hr hc
  · exact tableMarginal_reindex _ _ rows cols _ _ _ _ hr hc

/-- the typed (pre-resolution) side conditions -/
def TSliceWF (c : CubeData) (rows cols : TDim) : Prop :=
  rows.ids.Nodup ∧ cols.ids.Nodup ∧
  c.w.nrows = rows.elems.length ∧ c.w.ncols = cols.elems.length ∧
  c.u.nrows = rows.elems.length ∧ c.u.ncols = cols.elems.length ∧
  rows.labels.length = rows.elems.length ∧ cols.labels.length = cols.elems.length

instance (c : CubeData) (rows cols : TDim) : Decidable (TSliceWF c rows cols) := by
  unfold TSliceWF; exact inferInstance

theorem sliceWF_of_resolve (c : CubeData) (rows cols : TDim) (r cl : RDim)
    (hr : rows.resolve = some r) (hc : cols.resolve = some cl) (h : TSliceWF c rows cols) :
    SliceWF c r cl := by
  obtain ⟨r1, _, _, _, r5, _, r7, r8⟩ := resolve_fields rows r hr
  obtain ⟨c1, _, _, _, c5, _, c7, c8⟩ := resolve_fields cols cl hc
  obtain ⟨h1, h2, h3, h4, h5, h6, h7, h8⟩ := h
  have hri : r.cdim.ids = rows.ids := by simp [Dim.ids, TDim.ids, r1]
  have hci : cl.cdim.ids = cols.ids := by simp [Dim.ids, TDim.ids, c1]
  refine ⟨hri ▸ h1, hci ▸ h2, ?_, ?_, ?_, ?_, r7, c7, ?_, ?_, r8, c8⟩
  · rw [r1]; exact h3
  · rw [c1]; exact h4
  · rw [r1]; exact h5
  · rw [c1]; exact h6
  · rw [r1, r5]; exact h7
  · rw [c1, c5]; exact h8

/-- **end to end**: whenever the pipeline returns under t (no unusable anchor word) it returns
    under strip t, and every matrix output is the stripped one re-indexed by t's orders -/
theorem slice_output_reindexed_e2e (c : CubeData) (rows cols : TDim) (t : SliceOut)
    (ht : slicePipeline c rows cols = some t) (h : TSliceWF c rows cols) :
    ∃ s, slicePipeline c rows.strip cols.strip = some s ∧
      (∀ key, t.mat key = reindexMat t.rowOrder t.colOrder s.rowOrder s.colOrder (s.mat key)) ∧
      t.rowOrder.Nodup ∧ t.colOrder.Nodup ∧
      (∀ x ∈ t.rowOrder, x ∈ s.rowOrder) ∧ (∀ y ∈ t.colOrder, y ∈ s.colOrder) := by
  unfold slicePipeline at ht ⊢
  rw [resolve_strip, resolve_strip]
  cases hr : rows.resolve with
  | none => simp [hr] at ht
  | some r =>
    cases hc : cols.resolve with
    | none => simp [hr, hc] at ht
    | some cl =>
      simp only [hr, hc, Option.some.injEq] at ht
      have hwf := sliceWF_of_resolve c rows cols r cl hr hc h
      refine ⟨runSlice c r.strip cl.strip, rfl, ?_, ?_, ?_, ?_, ?_⟩
      · intro key; rw [← ht]; exact slice_output_reindexed c r cl hwf key
      · rw [← ht]; exact (slice_order_nodup c r cl hwf).1
      · rw [← ht]; exact (slice_order_nodup c r cl hwf).2
      · rw [← ht]; exact (slice_order_subset c r cl hwf).1
      · rw [← ht]; exact (slice_order_subset c r cl hwf).2

/-- **every theorem of this file reads end to end**: whenever the pipeline returns from the
    typed dimensions and their transforms dicts, it is `runSlice` on the resolved dimensions,
    the pipeline under strip t is `runSlice` on the stripped resolved dimensions, and the typed
    side conditions give `SliceWF` — so each statement above about `runSlice c r cl` and
    `runSlice c r.strip cl.strip` is a statement about `slicePipeline c rows cols` and
    `slicePipeline c rows.strip cols.strip`. -/
theorem slice_pipeline_factors (c : CubeData) (rows cols : TDim) (t : SliceOut)
    (ht : slicePipeline c rows cols = some t) :
    ∃ r cl, rows.resolve = some r ∧ cols.resolve = some cl ∧ t = runSlice c r cl ∧
      slicePipeline c rows.strip cols.strip = some (runSlice c r.strip cl.strip) ∧
      (TSliceWF c rows cols → SliceWF c r cl) := by
  unfold slicePipeline at ht ⊢
  rw [resolve_strip, resolve_strip]
  cases hr : rows.resolve with
  | none => simp [hr] at ht
  | some r =>
    cases hc : cols.resolve with
    | none => simp [hr, hc] at ht
    | some cl =>
      simp only [hr, hc, Option.some.injEq] at ht
      exact ⟨r, cl, rfl, rfl, ht.symm, rfl, sliceWF_of_resolve c rows cols r cl hr hc⟩

theorem strand_pipeline_factors (c : StrandData) (d : TDim) (t : StrandOut)
    (ht : strandPipeline c d = some t) :
    ∃ r, d.resolve = some r ∧ t = runStrand c r ∧
      strandPipeline c d.strip = some (runStrand c r.strip) := by
  unfold strandPipeline at ht ⊢
  rw [resolve_strip]
  cases hr : d.resolve with
  | none => simp [hr] at ht
  | some r =>
    simp only [hr, Option.map_some, Option.some.injEq] at ht
    exact ⟨r, rfl, ht.symm, rfl⟩

theorem strand_output_reindexed (c : StrandData) (d : RDim) (h : StrandWF c d) (key : SKey) :
    let t := runStrand c d
    let s := runStrand c d.strip
    t.vec key = reindexVec t.rowOrder s.rowOrder (s.vec key) :=
  assembleVector_reindex _ _ _ _ _ _ (strand_order_subset c d h)

/-! ## 4. extents = shape -/

theorem slice_extent_matches (c : CubeData) (rows cols : RDim) :
    let t := runSlice c rows cols
    t.shape = (t.rowOrder.length, t.colOrder.length) ∧
    (∀ key, (t.mat key).length = t.shape.1 ∧ ∀ row ∈ t.mat key, row.length = t.shape.2) ∧
    t.rowLabelIdxs.length = t.shape.1 ∧ t.colLabelIdxs.length = t.shape.2 ∧
    margFits .rows t.shape t.rowsMargin ∧ margFits .cols t.shape t.columnsMargin ∧
    margFits .rows t.shape t.rowsBase ∧ margFits .cols t.shape t.columnsBase ∧
    margFits (tableOrient c.w) t.shape t.tableMargin ∧ margFits (tableOrient c.u) t.shape t.tableBase := by
  refine ⟨rfl, fun key => assembleMatrix_extent _ _ _, by simp [runSlice, assembleSlice],
    by simp [runSlice, assembleSlice], ?_, ?_, ?_, ?_, tableMarginal_fits _ _ _ _ _ _, tableMarginal_fits _ _ _ _ _ _⟩
  · show margFits .rows _ (match c.w.rowsBase with | some _ => Marg.vec _ | none => Marg.mat _)
    cases c.w.rowsBase with
    | some f => exact assembleVector_length _ _ _ _ _
    | none => exact assembleMatrix_extent _ _ _
  · show margFits .cols _ (match c.w.columnsBase with | some _ => Marg.vec _ | none => Marg.mat _)
    cases c.w.columnsBase with
    | some f => exact assembleVector_length _ _ _ _ _
    | none => exact assembleMatrix_extent _ _ _
  · show margFits .rows _ (if cols.kind == .cat then Marg.vec _ else Marg.mat _)
    cases (cols.kind == DK.cat)
    · exact assembleMatrix_extent _ _ _
    · exact assembleVector_length _ _ _ _ _
  · show margFits .cols _ (if rows.kind == .cat then Marg.vec _ else Marg.mat _)
    cases (rows.kind == DK.cat)
    · exact assembleMatrix_extent _ _ _
    · exact assembleVector_length _ _ _ _ _

theorem strand_extent_matches (c : StrandData) (d : RDim) (key : SKey) :
    let t := runStrand c d
    t.shape = t.rowOrder.length ∧ (t.vec key).length = t.shape ∧ t.rowLabelIdxs.length = t.shape :=
  ⟨rfl, assembleVector_length _ _ _ _ _, by simp [runStrand, assembleStrand]⟩

/-! ## 5. aligned; hidden and pruned elements still count -/

/-- a displayed base position reads the base block at the element offsets the orders name:
    position (p, q) of EVERY measure refers to the same (row element, column element) -/
theorem slice_cell_is_block (c : CubeData) (rows cols : RDim) (h : SliceWF c rows cols) (key : MKey)
    (p q i j : Nat) (hp : (sliceRowOrder c rows cols)[p]? = some (i : Int))
    (hq : (sliceColOrder c rows cols)[q]? = some (j : Int)) :
    (((runSlice c rows cols).mat key).getD p []).getD q .nan = (sliceBlocks c rows cols key).body i j := by
  have hi := ((helper_run_mem_nat rows.cdim _ _ _ h.1 (rowROrder_wf c rows cols h) i).1
    (List.mem_of_getElem? hp)).1
  have hj := ((helper_run_mem_nat cols.cdim _ _ _ h.2.1 (colROrder_wf c rows cols h) j).1
    (List.mem_of_getElem? hq)).1
  show ((assembleMatrix _ _ _).getD p []).getD q .nan = _
  rw [assembleMatrix_cell _ _ _ p q _ _ hp hq]
  apply cell_body
  · show (sliceBlocks c rows cols key).nr > i
    rw [sliceBlocks_nr c rows cols h]; exact hi
  · show (sliceBlocks c rows cols key).nc > j
    rw [sliceBlocks_nc c rows cols h]; exact hj

/-- **hidden and pruned elements still count in every base and margin**: the displayed bases of
    a displayed cell are the extractor's bases of its (row element, column element) — functions
    of the raw arrays alone, summed over ALL elements of the opposing dimension whatever is
    hidden or pruned (see `catXcat_bases_sum_all` for the sums spelled out) — and a 1-D margin
    shows the same number at the row's position. -/
theorem slice_hidden_still_count (c : CubeData) (rows cols : RDim) (h : SliceWF c rows cols)
    (p q i j : Nat) (hp : (sliceRowOrder c rows cols)[p]? = some (i : Int))
    (hq : (sliceColOrder c rows cols)[q]? = some (j : Int)) :
    let t := runSlice c rows cols
    let at_ := fun key => ((t.mat key).getD p []).getD q .nan
    at_ .rowBasesW = c.w.rowBases i j ∧ at_ .colBasesW = c.w.columnBases i j ∧
    at_ .tableBasesW = c.w.tableBases i j ∧ at_ .rowBasesU = c.u.rowBases i j ∧
    at_ .colBasesU = c.u.columnBases i j ∧ at_ .tableBasesU = c.u.tableBases i j ∧
    (∀ l, t.rowsMargin = .vec l → l.getD p .nan = c.w.rowBases i 0) ∧
    (∀ l, t.columnsMargin = .vec l → l.getD q .nan = c.w.columnBases 0 j) := by
  have hi := ((helper_run_mem_nat rows.cdim _ _ _ h.1 (rowROrder_wf c rows cols h) i).1
    (List.mem_of_getElem? hp)).1
  have hj := ((helper_run_mem_nat cols.cdim _ _ _ h.2.1 (colROrder_wf c rows cols h) j).1
    (List.mem_of_getElem? hq)).1
  refine ⟨slice_cell_is_block c rows cols h .rowBasesW p q i j hp hq,
    slice_cell_is_block c rows cols h .colBasesW p q i j hp hq,
    slice_cell_is_block c rows cols h .tableBasesW p q i j hp hq,
    slice_cell_is_block c rows cols h .rowBasesU p q i j hp hq,
    slice_cell_is_block c rows cols h .colBasesU p q i j hp hq,
    slice_cell_is_block c rows cols h .tableBasesU p q i j hp hq, ?_, ?_⟩
  · intro l hl
    change (match c.w.rowsBase with | some _ => Marg.vec _ | none => Marg.mat _) = Marg.vec l at hl
    cases hb : c.w.rowsBase with
    | none => rw [hb] at hl; exact absurd hl (by simp)
    | some f =>
      rw [hb] at hl
      simp only [Marg.vec.injEq] at hl
      rw [← hl]
      unfold rowsMarginal
      rw [assembleVector_cell _ _ _ _ _ p _ hp, vecCell_base]
      · rfl
      · rw [sliceBlocks_nr c rows cols h]; exact hi
  · intro l hl
    change (match c.w.columnsBase with | some _ => Marg.vec _ | none => Marg.mat _) = Marg.vec l at hl
    cases hb : c.w.columnsBase with
    | none => rw [hb] at hl; exact absurd hl (by simp)
    | some f =>
      rw [hb] at hl
      simp only [Marg.vec.injEq] at hl
      rw [← hl]
      unfold colsMarginal
      rw [assembleVector_cell _ _ _ _ _ q _ hq, vecCell_base]
      · rfl
      · rw [sliceBlocks_nc c rows cols h]; exact hj

/-- the CAT × CAT sums spelled out: the row base of a cell is the sum of the counts of its row
    over ALL columns (hidden, pruned or displayed), the column base over ALL rows, the table
    base over all cells -/
theorem catXcat_bases_sum_all (t : FT) (i j : Nat) :
    let m := MatCounts.factory .cat .cat t
    m.rowBases i j = vsum m.ncols (fun j' => m.counts i j') ∧
    m.columnBases i j = vsum m.nrows (fun i' => m.counts i' j) ∧
    m.tableBases i j = vsum m.nrows (fun i' => vsum m.ncols (fun j' => m.counts i' j')) :=
  ⟨rfl, rfl, rfl⟩

/-! ## 6. position-valued outputs -/

theorem slice_inserted_idxs_def (c : CubeData) (rows cols : RDim) (p : Nat) :
    (p ∈ (runSlice c rows cols).insertedRowIdxs ↔ ∃ x, (sliceRowOrder c rows cols)[p]? = some x ∧ x < 0) ∧
    (p ∈ (runSlice c rows cols).insertedColIdxs ↔ ∃ y, (sliceColOrder c rows cols)[p]? = some y ∧ y < 0) :=
  ⟨mem_negPositions _ p, mem_negPositions _ p⟩

/-- python's negative indexes reach exactly the inserted vectors: the k-th subtotal row
    (signed index k − #subtotals) shows the inserted-rows block, the intersection block where
    the column is a subtotal too; likewise inserted columns -/
theorem slice_inserted_reads_insertion (c : CubeData) (rows cols : RDim) (h : SliceWF c rows cols)
    (key : MKey) (p q k : Nat) (hk : k < rows.cdim.subs.length)
    (hp : (sliceRowOrder c rows cols)[p]? = some ((k : Int) - (rows.cdim.subs.length : Int))) :
    let at_ := (((runSlice c rows cols).mat key).getD p []).getD q .nan
    (∀ j : Nat, (sliceColOrder c rows cols)[q]? = some (j : Int) →
        at_ = (sliceBlocks c rows cols key).insRows k j) ∧
    (∀ l : Nat, l < cols.cdim.subs.length →
        (sliceColOrder c rows cols)[q]? = some ((l : Int) - (cols.cdim.subs.length : Int)) →
        at_ = (sliceBlocks c rows cols key).inter k l) := by
  have hnrs := sliceBlocks_nrs c rows cols h key
  have hncs := sliceBlocks_ncs c rows cols h key
  have hnc := sliceBlocks_nc c rows cols h key
  have er : (rows.cdim.subs.length : Int) = ((toA (sliceBlocks c rows cols key)).nir : Int) := by
    show _ = (((sliceBlocks c rows cols key).nrs : Nat) : Int)
    rw [hnrs]
  have ec : (cols.cdim.subs.length : Int) = ((toA (sliceBlocks c rows cols key)).nic : Int) := by
    show _ = (((sliceBlocks c rows cols key).ncs : Nat) : Int)
    rw [hncs]
  have hk' : k < (toA (sliceBlocks c rows cols key)).nir := by
    show k < (sliceBlocks c rows cols key).nrs
    omega
  constructor
  · intro j hq
    have hj := ((helper_run_mem_nat cols.cdim _ _ _ h.2.1 (colROrder_wf c rows cols h) j).1
      (List.mem_of_getElem? hq)).1
    show ((assembleMatrix _ _ _).getD p []).getD q .nan = _
    rw [assembleMatrix_cell _ _ _ p q _ _ hp hq, er]
    exact cell_insRow (toA (sliceBlocks c rows cols key)) k j hk'
      (by show j < (sliceBlocks c rows cols key).nc; omega)
  · intro l hl hq
    show ((assembleMatrix _ _ _).getD p []).getD q .nan = _
    rw [assembleMatrix_cell _ _ _ p q _ _ hp hq, er, ec]
    exact cell_inter (toA (sliceBlocks c rows cols key)) k l hk'
      (by show l < (sliceBlocks c rows cols key).ncs; omega)

/-- position-valued outputs (inserted / difference / derived index lists) are RENUMBERED: a
    displayed position is listed under t iff the position of the same vector under strip t is
    listed there; the label / code / alias / fill index re-indexes like a value vector -/
theorem slice_position_outputs_renumbered (c : CubeData) (rows cols : RDim) (h : SliceWF c rows cols) (p : Nat) :
    let t := runSlice c rows cols
    let s := runSlice c rows.strip cols.strip
    (p ∈ t.insertedRowIdxs ↔ ∃ x, t.rowOrder[p]? = some x ∧ s.rowOrder.idxOf x ∈ s.insertedRowIdxs) ∧
    (p ∈ t.insertedColIdxs ↔ ∃ y, t.colOrder[p]? = some y ∧ s.colOrder.idxOf y ∈ s.insertedColIdxs) ∧
    (p ∈ t.diffRowIdxs ↔ ∃ x, t.rowOrder[p]? = some x ∧ s.rowOrder.idxOf x ∈ s.diffRowIdxs) ∧
    (p ∈ t.diffColIdxs ↔ ∃ y, t.colOrder[p]? = some y ∧ s.colOrder.idxOf y ∈ s.diffColIdxs) ∧
    (p ∈ t.derivedRowIdxs ↔ ∃ x, t.rowOrder[p]? = some x ∧ s.rowOrder.idxOf x ∈ s.derivedRowIdxs) ∧
    (p ∈ t.derivedColIdxs ↔ ∃ y, t.colOrder[p]? = some y ∧ s.colOrder.idxOf y ∈ s.derivedColIdxs) ∧
    t.rowLabelIdxs = t.rowOrder.map (fun x => s.rowLabelIdxs.getD (s.rowOrder.idxOf x) 0) ∧
    t.colLabelIdxs = t.colOrder.map (fun y => s.colLabelIdxs.getD (s.colOrder.idxOf y) 0) := by
  obtain ⟨hr, hc⟩ := slice_order_subset c rows cols h
  exact ⟨negPositions_renumber _ _ hr p, negPositions_renumber _ _ hc p,
    flagPositions_renumber _ _ _ hr p, flagPositions_renumber _ _ _ hc p,
    flagPositions_renumber _ _ _ hr p, flagPositions_renumber _ _ _ hc p,
    labelIdxs_reindex _ _ _ hr, labelIdxs_reindex _ _ _ hc⟩

/-- which subtotal rows are differences: position p is listed iff the order names there the
    k-th subtotal and that subtotal has a subtrahend that exists -/
theorem slice_diff_idxs_def (c : CubeData) (rows cols : RDim) (h : SliceWF c rows cols) (p : Nat) :
    p ∈ (runSlice c rows cols).diffRowIdxs ↔
      ∃ k, k < rows.subtotals.length ∧
        (sliceRowOrder c rows cols)[p]? = some ((k : Int) - (rows.subtotals.length : Int)) ∧
        (subAt rows.subtotals k).isDiff = true := by
  have hsl := h.2.2.2.2.2.2.1
  show p ∈ flagPositions _ _ ↔ _
  rw [mem_flagPositions]
  have hlen : (List.replicate rows.cdim.elems.length false ++ rows.subtotals.map Subtotal.isDiff).length
      = rows.cdim.elems.length + rows.subtotals.length := by simp
  constructor
  · rintro ⟨x, hx, hf⟩
    have hmem := List.mem_of_getElem? hx
    rcases run_mem_cases rows.cdim _ _ h.1 (rowROrder_wf c rows cols h) (mem_helper.1 hmem).1 with
      ⟨i, rfl, hi, _⟩ | hneg
    · rw [hlen, wrapIdx_nat, List.getD_eq_getElem?_getD,
        List.getElem?_append_left (by simpa using hi)] at hf
      simp [List.getElem?_replicate, hi] at hf
    · obtain ⟨hlo, hhi⟩ := mem_negIdxs.1 hneg
      rw [← hsl] at hlo
      refine ⟨(x + rows.subtotals.length).toNat, by omega, ?_, ?_⟩
      · rw [hx]; congr 1; omega
      · have hxk : x = (((x + rows.subtotals.length).toNat : Nat) : Int) - (rows.subtotals.length : Int) := by omega
        rw [hlen, hxk, wrapIdx_neg _ _ _ (by omega) (Nat.le_add_left _ _), List.getD_eq_getElem?_getD,
          List.getElem?_append_right (by simp)] at hf
        simp only [List.length_replicate] at hf
        have hidx : rows.cdim.elems.length + rows.subtotals.length - rows.subtotals.length
            + (x + rows.subtotals.length).toNat - rows.cdim.elems.length = (x + rows.subtotals.length).toNat := by omega
        rw [hidx, List.getElem?_map] at hf
        unfold subAt
        rw [List.getD_eq_getElem?_getD]
        cases hg : rows.subtotals[(x + ↑rows.subtotals.length).toNat]? with
        | none => simp [hg] at hf
        | some sb => simpa [hg] using hf
  · rintro ⟨k, hk, hp, hd⟩
    refine ⟨_, hp, ?_⟩
    rw [hlen, wrapIdx_neg _ _ _ hk (Nat.le_add_left _ _), List.getD_eq_getElem?_getD,
      List.getElem?_append_right (by simp)]
    simp only [List.length_replicate]
    have hidx : rows.cdim.elems.length + rows.subtotals.length - rows.subtotals.length + k
        - rows.cdim.elems.length = k := by omega
    rw [hidx, List.getElem?_map, List.getElem?_eq_getElem hk]
    unfold subAt at hd
    rw [List.getD_eq_getElem?_getD, List.getElem?_eq_getElem hk] at hd
    simpa using hd

/-- labels, codes, aliases and fills are read with the same signed index as the values:
    displayed position p shows element i's label when the order says i, and the k-th
    subtotal's when it says k − #subtotals -/
theorem slice_label_idxs_def (c : CubeData) (rows cols : RDim) (p : Nat) :
    let t := runSlice c rows cols
    let n := rows.cdim.elems.length
    let ns := rows.cdim.subs.length
    (∀ i : Nat, (sliceRowOrder c rows cols)[p]? = some (i : Int) → t.rowLabelIdxs[p]? = some i) ∧
    (∀ k : Nat, k < ns → (sliceRowOrder c rows cols)[p]? = some ((k : Int) - (ns : Int)) →
        t.rowLabelIdxs[p]? = some (n + k)) := by
  constructor
  · intro i hp
    show (List.map _ _)[p]? = _
    rw [List.getElem?_map, hp, Option.map_some, wrapIdx_nat]
  · intro k hk hp
    show (List.map _ _)[p]? = _
    rw [List.getElem?_map, hp, Option.map_some, wrapIdx_neg _ _ _ hk (Nat.le_add_left _ _)]
    congr 1
    omega

/-! ## 7. which vectors are absent -/

/-- an element is absent iff hidden, or pruning is on and its UNWEIGHTED pruning base is 0 -/
theorem slice_row_pruned_iff (c : CubeData) (rows cols : RDim) (h : SliceWF c rows cols) (i : Nat)
    (hi : i < rows.cdim.elems.length) :
    (i : Int) ∉ sliceRowOrder c rows cols ↔
      i ∈ rows.cdim.hidden ∨ (rows.cdim.prune = true ∧ (c.u.rowsPruningBase i == .fin 0) = true) := by
  unfold sliceRowOrder
  rw [helper_run_mem_nat rows.cdim _ _ _ h.1 (rowROrder_wf c rows cols h) i, hid_iff]
  have hm : i ∈ rowEmpties c ↔ (c.u.rowsPruningBase i == .fin 0) = true := by
    unfold rowEmpties MatCounts.rowsPruningMask
    rw [mem_trueIdxs, tab1_getElem? _ _ i (by rw [h.2.2.2.2.1]; exact hi)]
    simp
  rw [hm]
  constructor
  · intro hn
    by_contra hc
    exact hn ⟨hi, hc⟩
  · intro hh hn
    exact hn.2 hh

theorem slice_col_pruned_iff (c : CubeData) (rows cols : RDim) (h : SliceWF c rows cols) (j : Nat)
    (hj : j < cols.cdim.elems.length) :
    (j : Int) ∉ sliceColOrder c rows cols ↔
      j ∈ cols.cdim.hidden ∨ (cols.cdim.prune = true ∧ (c.u.columnsPruningBase j == .fin 0) = true) := by
  unfold sliceColOrder
  rw [helper_run_mem_nat cols.cdim _ _ _ h.2.1 (colROrder_wf c rows cols h) j, hid_iff]
  have hm : j ∈ colEmpties c ↔ (c.u.columnsPruningBase j == .fin 0) = true := by
    unfold colEmpties MatCounts.columnsPruningMask
    rw [mem_trueIdxs, tab1_getElem? _ _ j (by rw [h.2.2.2.2.2.1]; exact hj)]
    simp
  rw [hm]
  constructor
  · intro hn
    by_contra hc
    exact hn ⟨hj, hc⟩
  · intro hh hn
    exact hn.2 hh

/-- a subtotal row is absent iff the COLUMNS dimension is pruned and every column is empty
    (by its unweighted pruning base); hidden or pruned ROW elements never remove it -/
theorem slice_row_subtotal_pruned_iff (c : CubeData) (rows cols : RDim) (h : SliceWF c rows cols)
    (x : Int) (hx : x ∈ negIdxs rows.cdim.subs.length) :
    x ∉ sliceRowOrder c rows cols ↔
      cols.cdim.prune = true ∧
        ∀ q, q < cols.cdim.elems.length → (c.u.columnsPruningBase q == .fin 0) = true := by
  have hneg := (mem_negIdxs.1 hx).2
  unfold sliceRowOrder
  rw [helper_run_mem_neg rows.cdim _ _ _ h.1 (rowROrder_wf c rows cols h) x hneg]
  have hlen : c.u.columnsPruningMask.length = cols.cdim.elems.length := by
    simp only [MatCounts.columnsPruningMask, tab1_length]; exact h.2.2.2.2.2.1
  have hall : (colEmpties c).length = cols.cdim.elems.length ↔
      ∀ q, q < cols.cdim.elems.length → (c.u.columnsPruningBase q == .fin 0) = true := by
    unfold colEmpties
    rw [← hlen, trueIdxs_length_eq_iff, hlen]
    constructor
    · intro hh q hq
      have := hh q hq
      rw [MatCounts.columnsPruningMask, tab1_getElem? _ _ q (by rw [h.2.2.2.2.2.1]; exact hq)] at this
      simpa using this
    · intro hh q hq
      rw [MatCounts.columnsPruningMask, tab1_getElem? _ _ q (by rw [h.2.2.2.2.2.1]; exact hq)]
      simp only [Option.some.injEq]
      exact hh q hq
  have hps : rowPruneSubs c cols = true ↔
      cols.cdim.prune = true ∧ (colEmpties c).length = cols.cdim.elems.length := by
    unfold rowPruneSubs pruneSubtotals
    cases cols.cdim.prune <;> simp
  constructor
  · intro hn
    have hb : rowPruneSubs c cols = true := by
      cases hb : rowPruneSubs c cols
      · exact absurd ⟨hx, hb⟩ hn
      · rfl
    obtain ⟨h1, h2⟩ := hps.1 hb
    exact ⟨h1, hall.1 h2⟩
  · rintro ⟨h1, h2⟩ ⟨_, hb⟩
    have := hps.2 ⟨h1, hall.2 h2⟩
    rw [this] at hb
    exact absurd hb (by simp)

theorem slice_col_subtotal_pruned_iff (c : CubeData) (rows cols : RDim) (h : SliceWF c rows cols)
    (y : Int) (hy : y ∈ negIdxs cols.cdim.subs.length) :
    y ∉ sliceColOrder c rows cols ↔
      rows.cdim.prune = true ∧
        ∀ p, p < rows.cdim.elems.length → (c.u.rowsPruningBase p == .fin 0) = true := by
  have hneg := (mem_negIdxs.1 hy).2
  unfold sliceColOrder
  rw [helper_run_mem_neg cols.cdim _ _ _ h.2.1 (colROrder_wf c rows cols h) y hneg]
  have hlen : c.u.rowsPruningMask.length = rows.cdim.elems.length := by
    simp only [MatCounts.rowsPruningMask, tab1_length]; exact h.2.2.2.2.1
  have hall : (rowEmpties c).length = rows.cdim.elems.length ↔
      ∀ p, p < rows.cdim.elems.length → (c.u.rowsPruningBase p == .fin 0) = true := by
    unfold rowEmpties
    rw [← hlen, trueIdxs_length_eq_iff, hlen]
    constructor
    · intro hh q hq
      have := hh q hq
      rw [MatCounts.rowsPruningMask, tab1_getElem? _ _ q (by rw [h.2.2.2.2.1]; exact hq)] at this
      simpa using this
    · intro hh q hq
      rw [MatCounts.rowsPruningMask, tab1_getElem? _ _ q (by rw [h.2.2.2.2.1]; exact hq)]
      simp only [Option.some.injEq]
      exact hh q hq
  have hps : colPruneSubs c rows = true ↔
      rows.cdim.prune = true ∧ (rowEmpties c).length = rows.cdim.elems.length := by
    unfold colPruneSubs pruneSubtotals
    cases rows.cdim.prune <;> simp
  constructor
  · intro hn
    have hb : colPruneSubs c rows = true := by
      cases hb : colPruneSubs c rows
      · exact absurd ⟨hy, hb⟩ hn
      · rfl
    obtain ⟨h1, h2⟩ := hps.1 hb
    exact ⟨h1, hall.1 h2⟩
  · rintro ⟨h1, h2⟩ ⟨_, hb⟩
    have := hps.2 ⟨h1, hall.2 h2⟩
    rw [this] at hb
    exact absurd hb (by simp)

/-- 1-D: absent iff hidden, or pruned with a zero unweighted pruning base; subtotals always stay -/
theorem strand_pruned_iff (c : StrandData) (d : RDim) (h : StrandWF c d) :
    (∀ i : Nat, i < d.cdim.elems.length →
      ((i : Int) ∉ strandOrder c d ↔
        i ∈ d.cdim.hidden ∨ (d.cdim.prune = true ∧ (c.u.pruningBase i == .fin 0) = true))) ∧
    (∀ x ∈ negIdxs d.cdim.subs.length, x ∈ strandOrder c d) := by
  constructor
  · intro i hi
    unfold strandOrder
    rw [run_visible_iff d.cdim _ _ h.1 (strandROrder_wf c d h) i, hid_iff]
    have hm : i ∈ strandEmpties c ↔ (c.u.pruningBase i == .fin 0) = true := by
      unfold strandEmpties
      rw [mem_trueIdxs, tab1_getElem? _ _ i (by rw [h.2.2.1]; exact hi)]
      simp
    rw [hm]
    constructor
    · intro hn
      by_contra hc
      exact hn ⟨hi, hc⟩
    · intro hh hn
      exact hn.2 hh
  · intro x hx
    exact ((run_subtotal_iff d.cdim _ _ h.1 (strandROrder_wf c d h) x).2 hx).2

/-! ### … at respondent level (C09) where the design is categorical / multiple response -/

/-- a row element is absent iff hidden, or pruning is on and NO respondent (counted without
    weights) is eligible for the row (`C09.rowsPruneSpec`) -/
theorem slice_row_pruned_iff_respondents (R C : Var) (hR : R.CM) (hC : C.CM) (s : Survey) (wraw : FT)
    (num : CubeData) (rows cols : RDim)
    (h : SliceWF { num with vars := [R, C], wraw := wraw, uraw := cubeOf [R, C] (unweight s), k := 0 } rows cols)
    (i : Nat) (hi : i < R.ext) (hC0 : 0 < C.ext) :
    (i : Int) ∉ sliceRowOrder { num with vars := [R, C], wraw := wraw, uraw := cubeOf [R, C] (unweight s), k := 0 } rows cols ↔
      i ∈ rows.cdim.hidden ∨ (rows.cdim.prune = true ∧ C09.rowsPruneSpec R C (unweight s) i = 0) := by
  have hn : rows.cdim.elems.length = R.ext := by
    rw [← h.2.2.2.2.1]; exact slice2d_nrows R C hR hC _
  rw [slice_row_pruned_iff _ rows cols h i (by rw [hn]; exact hi)]
  have := C09.empty_iff R C hR hC s i hi hC0
  simp only [CubeData.u]
  rw [this]

theorem slice_col_pruned_iff_respondents (R C : Var) (hR : R.CM) (hC : C.CM) (s : Survey) (wraw : FT)
    (num : CubeData) (rows cols : RDim)
    (h : SliceWF { num with vars := [R, C], wraw := wraw, uraw := cubeOf [R, C] (unweight s), k := 0 } rows cols)
    (j : Nat) (hj : j < C.ext) (hR0 : 0 < R.ext) :
    (j : Int) ∉ sliceColOrder { num with vars := [R, C], wraw := wraw, uraw := cubeOf [R, C] (unweight s), k := 0 } rows cols ↔
      j ∈ cols.cdim.hidden ∨ (cols.cdim.prune = true ∧ C09.colsPruneSpec R C (unweight s) j = 0) := by
  have hn : cols.cdim.elems.length = C.ext := by
    rw [← h.2.2.2.2.2.1]; exact slice2d_ncols R C hR hC _
  rw [slice_col_pruned_iff _ rows cols h j (by rw [hn]; exact hj)]
  have := C09.columns_empty_iff R C hR hC s j hj hR0
  simp only [CubeData.u]
  rw [this]

theorem strand_pruned_iff_respondents (V : Var) (hV : V.CM) (s : Survey) (wraw : FT) (num : StrandData) (d : RDim)
    (h : StrandWF { num with vars := [V], wraw := wraw, uraw := cubeOf [V] (unweight s) } d) (i : Nat) (hi : i < V.ext) :
    (i : Int) ∉ strandOrder { num with vars := [V], wraw := wraw, uraw := cubeOf [V] (unweight s) } d ↔
      i ∈ d.cdim.hidden ∨
        (d.cdim.prune = true ∧ specCount [V] (unweight s) [i] [decide (V.kind = .arr)] = 0) := by
  have hn : d.cdim.elems.length = V.ext := by
    rw [← h.2.2.1]; exact strand_n V hV _
  rw [(strand_pruned_iff _ d h).1 i (by rw [hn]; exact hi)]
  simp only [StrandData.u]
  rw [C09.strand_pruning_base V hV s i hi]
  simp

/-! ## 8. displayed base cells are respondent-level counts (C01 / C02) -/

/-- 2-D, categorical-like / multiple-response design, the cube the back end tabulates for the
    survey: position (p, q) of the eight count / base outputs shows the number of respondents
    of the (row element, column element) the REPORTED orders name at p and q -/
theorem slice_base_cells_respondents (R C : Var) (hR : R.CM) (hC : C.CM) (s : Survey)
    (num : CubeData) (rows cols : RDim)
    (h : SliceWF { num with vars := [R, C], wraw := cubeOf [R, C] s, uraw := cubeOf [R, C] (unweight s), k := 0 } rows cols)
    (p q i j : Nat)
    (hp : (sliceRowOrder { num with vars := [R, C], wraw := cubeOf [R, C] s, uraw := cubeOf [R, C] (unweight s), k := 0 } rows cols)[p]?
            = some (i : Int))
    (hq : (sliceColOrder { num with vars := [R, C], wraw := cubeOf [R, C] s, uraw := cubeOf [R, C] (unweight s), k := 0 } rows cols)[q]?
            = some (j : Int)) :
    let t := runSlice { num with vars := [R, C], wraw := cubeOf [R, C] s, uraw := cubeOf [R, C] (unweight s), k := 0 } rows cols
    let at_ := fun key => ((t.mat key).getD p []).getD q .nan
    at_ .countsW = .fin (specCount [R, C] s [i, j] [false, false]) ∧
    at_ .rowBasesW = .fin (specCount [R, C] s [i, j] [false, true]) ∧
    at_ .colBasesW = .fin (specCount [R, C] s [i, j] [true, false]) ∧
    at_ .tableBasesW = .fin (specCount [R, C] s [i, j] [true, true]) ∧
    at_ .countsU = .fin (specCount [R, C] (unweight s) [i, j] [false, false]) ∧
    at_ .rowBasesU = .fin (specCount [R, C] (unweight s) [i, j] [false, true]) ∧
    at_ .colBasesU = .fin (specCount [R, C] (unweight s) [i, j] [true, false]) ∧
    at_ .tableBasesU = .fin (specCount [R, C] (unweight s) [i, j] [true, true]) := by
  intro t at_
  have hi' := ((helper_run_mem_nat rows.cdim _ _ _ h.1 (rowROrder_wf _ rows cols h) i).1
    (List.mem_of_getElem? hp)).1
  have hj' := ((helper_run_mem_nat cols.cdim _ _ _ h.2.1 (colROrder_wf _ rows cols h) j).1
    (List.mem_of_getElem? hq)).1
  have hi : i < R.ext := by
    rw [← slice2d_nrows R C hR hC (cubeOf [R, C] s)]
    have := h.2.2.1
    simp only [CubeData.w] at this
    rw [this]; exact hi'
  have hj : j < C.ext := by
    rw [← slice2d_ncols R C hR hC (cubeOf [R, C] s)]
    have := h.2.2.2.1
    simp only [CubeData.w] at this
    rw [this]; exact hj'
  refine ⟨?_, ?_, ?_, ?_, ?_, ?_, ?_, ?_⟩
  · exact (slice_cell_is_block _ rows cols h .countsW p q i j hp hq).trans
      (C01.counts_faithful_2d R C hR hC s i j hi hj)
  · exact (slice_cell_is_block _ rows cols h .rowBasesW p q i j hp hq).trans
      (C02.rowBase_spec_2d R C hR hC s i j hi hj)
  · exact (slice_cell_is_block _ rows cols h .colBasesW p q i j hp hq).trans
      (C02.colBase_spec_2d R C hR hC s i j hi hj)
  · exact (slice_cell_is_block _ rows cols h .tableBasesW p q i j hp hq).trans
      (C02.tableBase_spec_2d R C hR hC s i j hi hj)
  · exact (slice_cell_is_block _ rows cols h .countsU p q i j hp hq).trans
      (C01.counts_faithful_2d R C hR hC (unweight s) i j hi hj)
  · exact (slice_cell_is_block _ rows cols h .rowBasesU p q i j hp hq).trans
      (C02.rowBase_spec_2d R C hR hC (unweight s) i j hi hj)
  · exact (slice_cell_is_block _ rows cols h .colBasesU p q i j hp hq).trans
      (C02.colBase_spec_2d R C hR hC (unweight s) i j hi hj)
  · exact (slice_cell_is_block _ rows cols h .tableBasesU p q i j hp hq).trans
      (C02.tableBase_spec_2d R C hR hC (unweight s) i j hi hj)

/-- 3-D: partition k of a cube over (table, rows, columns) variables -/
theorem slice_base_cells_respondents_3d (T R C : Var) (hT : T.CM) (hR : R.CM) (hC : C.CM) (s : Survey)
    (k : Nat) (hk : k < T.ext) (num : CubeData) (rows cols : RDim)
    (h : SliceWF { num with vars := [T, R, C], wraw := cubeOf [T, R, C] s, uraw := cubeOf [T, R, C] (unweight s), k := k } rows cols)
    (p q i j : Nat) (hi : i < R.ext) (hj : j < C.ext)
    (hp : (sliceRowOrder { num with vars := [T, R, C], wraw := cubeOf [T, R, C] s, uraw := cubeOf [T, R, C] (unweight s), k := k }
            rows cols)[p]? = some (i : Int))
    (hq : (sliceColOrder { num with vars := [T, R, C], wraw := cubeOf [T, R, C] s, uraw := cubeOf [T, R, C] (unweight s), k := k }
            rows cols)[q]? = some (j : Int)) :
    let t := runSlice { num with vars := [T, R, C], wraw := cubeOf [T, R, C] s, uraw := cubeOf [T, R, C] (unweight s), k := k } rows cols
    let at_ := fun key => ((t.mat key).getD p []).getD q .nan
    at_ .countsW = .fin (specCount [T, R, C] s [k, i, j] [false, false, false]) ∧
    at_ .rowBasesW = .fin (specCount [T, R, C] s [k, i, j] [false, false, true]) ∧
    at_ .colBasesW = .fin (specCount [T, R, C] s [k, i, j] [false, true, false]) ∧
    at_ .tableBasesW = .fin (specCount [T, R, C] s [k, i, j] [false, true, true]) ∧
    at_ .countsU = .fin (specCount [T, R, C] (unweight s) [k, i, j] [false, false, false]) ∧
    at_ .rowBasesU = .fin (specCount [T, R, C] (unweight s) [k, i, j] [false, false, true]) ∧
    at_ .colBasesU = .fin (specCount [T, R, C] (unweight s) [k, i, j] [false, true, false]) ∧
    at_ .tableBasesU = .fin (specCount [T, R, C] (unweight s) [k, i, j] [false, true, true]) := by
  intro t at_
  refine ⟨?_, ?_, ?_, ?_, ?_, ?_, ?_, ?_⟩
  · exact (slice_cell_is_block _ rows cols h .countsW p q i j hp hq).trans
      (C01.counts_faithful_3d T R C hT hR hC s k i j hk hi hj)
  · exact (slice_cell_is_block _ rows cols h .rowBasesW p q i j hp hq).trans
      (C02.rowBase_spec_3d T R C hT hR hC s k i j hk hi hj)
  · exact (slice_cell_is_block _ rows cols h .colBasesW p q i j hp hq).trans
      (C02.colBase_spec_3d T R C hT hR hC s k i j hk hi hj)
  · exact (slice_cell_is_block _ rows cols h .tableBasesW p q i j hp hq).trans
      (C02.tableBase_spec_3d T R C hT hR hC s k i j hk hi hj)
  · exact (slice_cell_is_block _ rows cols h .countsU p q i j hp hq).trans
      (C01.counts_faithful_3d T R C hT hR hC (unweight s) k i j hk hi hj)
  · exact (slice_cell_is_block _ rows cols h .rowBasesU p q i j hp hq).trans
      (C02.rowBase_spec_3d T R C hT hR hC (unweight s) k i j hk hi hj)
  · exact (slice_cell_is_block _ rows cols h .colBasesU p q i j hp hq).trans
      (C02.colBase_spec_3d T R C hT hR hC (unweight s) k i j hk hi hj)
  · exact (slice_cell_is_block _ rows cols h .tableBasesU p q i j hp hq).trans
      (C02.tableBase_spec_3d T R C hT hR hC (unweight s) k i j hk hi hj)

/-- 1-D -/
theorem strand_base_cells_respondents (V : Var) (hV : V.CM) (s : Survey) (num : StrandData) (d : RDim)
    (h : StrandWF { num with vars := [V], wraw := cubeOf [V] s, uraw := cubeOf [V] (unweight s) } d) (p i : Nat)
    (hp : (strandOrder { num with vars := [V], wraw := cubeOf [V] s, uraw := cubeOf [V] (unweight s) } d)[p]? = some (i : Int)) :
    let t := runStrand { num with vars := [V], wraw := cubeOf [V] s, uraw := cubeOf [V] (unweight s) } d
    (t.vec .countsW).getD p .nan = .fin (specCount [V] s [i] [false]) ∧
    (t.vec .basesW).getD p .nan = .fin (specCount [V] s [i] [true]) ∧
    (t.vec .countsU).getD p .nan = .fin (specCount [V] (unweight s) [i] [false]) ∧
    (t.vec .basesU).getD p .nan = .fin (specCount [V] (unweight s) [i] [true]) := by
  intro t
  have hi' := ((run_visible_iff d.cdim _ _ h.1 (strandROrder_wf _ d h) i).1 (List.mem_of_getElem? hp)).1
  have hn : d.cdim.elems.length = V.ext := by
    rw [← h.2.1]; exact strand_n V hV _
  have hi : i < V.ext := by rw [← hn]; exact hi'
  have hcell : ∀ key, (t.vec key).getD p .nan
      = (strandBlocks { num with vars := [V], wraw := cubeOf [V] s, uraw := cubeOf [V] (unweight s) } d key).base i := by
    intro key
    show (assembleVector _ _ _ _ _).getD p .nan = _
    rw [assembleVector_cell _ _ _ _ _ p _ hp, vecCell_base]
    rw [strandBlocks_n _ d h]; exact hi'
  refine ⟨?_, ?_, ?_, ?_⟩
  · rw [hcell]; exact C01.strand_counts_faithful V hV s i hi
  · rw [hcell]; exact C02.strand_bases_spec V hV s i hi
  · rw [hcell]; exact C01.strand_counts_faithful V hV (unweight s) i hi
  · rw [hcell]; exact C02.strand_bases_spec V hV (unweight s) i hi

/-! ## non-vacuity and worked instances (tests, not the claims) -/

namespace PipelineExamples

def R : Var := ⟨.cat, 3, [false, true, false], false⟩      -- missing category mid-payload
def Cv : Var := ⟨.cat, 2, [false, false], false⟩
def sv : Survey := [⟨2, [[0], [1]]⟩, ⟨1/2, [[0], [0]]⟩, ⟨3, [[1], [0]]⟩, ⟨0, [[2], [1]]⟩]

def cube : CubeData := { vars := [R, Cv], wraw := cubeOf [R, Cv] sv, uraw := cubeOf [R, Cv] (unweight sv) }

/-- rows: ids 5, 9; one subtotal (5 + 9) anchored after 5, one difference at the bottom;
    element 9 has weight 0 only (weighted-empty, unweighted non-empty); sorted by the first
    column's row percent, ascending; prune on -/
def rowsT : TDim :=
  { kind := .cat, elems := [⟨.int 5, false, .none⟩, ⟨.int 9, false, .none⟩], labels := ["five", "nine"]
    trIns := some [{ args := [5, 9], anchor := .int 5, id := some 1, label := "both" },
                   { args := [5], negative := [9], anchor := .word "bottom", id := some 2, label := "diff" }]
    hide := [false, false], prune := true
    order := .oppElement (.int 1) (some .rowProps) { desc := false } }

def colsT : TDim :=
  { kind := .cat, elems := [⟨.int 1, false, .none⟩, ⟨.int 2, false, .none⟩], labels := ["a", "b"]
    hide := [true, false], order := .explicit [.int 2, .int 1] }

example : TSliceWF cube rowsT colsT := by decide +kernel
example : (rowsT.resolve).isSome = true ∧ (colsT.resolve).isSome = true := by decide +kernel

/-- `SliceWF` holds of the resolved dimensions of the instance -/
example (r cl : RDim) (hr : rowsT.resolve = some r) (hc : colsT.resolve = some cl) : SliceWF cube r cl :=
  sliceWF_of_resolve cube rowsT colsT r cl hr hc (by decide +kernel)

/-- hypotheses of the shape `order[p]? = some i` are satisfiable: row element 1 (the one whose
    respondents all have weight 0) is displayed although pruning is on -/
example (r cl : RDim) (hr : rowsT.resolve = some r) (hc : colsT.resolve = some cl) :
    ∃ p : Nat, (sliceRowOrder cube r cl)[p]? = some ((1 : Nat) : Int) := by
  have hwf := sliceWF_of_resolve cube rowsT colsT r cl hr hc (by decide +kernel)
  obtain ⟨h1, h2, h3, _⟩ := resolve_fields rowsT r hr
  apply List.mem_iff_getElem?.1
  apply (helper_run_mem_nat r.cdim _ _ _ hwf.1 (rowROrder_wf cube r cl hwf) 1).2
  refine ⟨by rw [h1]; decide, ?_⟩
  rw [hid_iff, h2, h3]
  have : (1 : Nat) ∉ rowEmpties cube := by decide +kernel
  simp [this, TDim.hidden, rowsT, trueIdxs]

/-- a strand: MR with two items, sorted by unweighted base, one hidden -/
def mrV : Var := ⟨.arr, 2, [false, false, true], true⟩
def strandS : Survey := [⟨1, [[0, 2]]⟩, ⟨2, [[1, 0]]⟩]
def strandC : StrandData := { vars := [mrV], wraw := cubeOf [mrV] strandS, uraw := cubeOf [mrV] (unweight strandS) }
def strandD : TDim :=
  { kind := .mr, elems := [⟨.str "a", false, .none⟩, ⟨.str "b", false, .none⟩], labels := ["A", "B"]
    hide := [false, false], prune := true, order := .univariate (some .basesU) { desc := true } }

example : (strandD.resolve).isSome = true := by decide +kernel
example (r : RDim) (hr : strandD.resolve = some r) : StrandWF strandC r := by
  obtain ⟨h1, _, _, _, h5, _, h7, h8⟩ := resolve_fields strandD r hr
  have hi : r.cdim.ids = strandD.ids := by simp [Dim.ids, TDim.ids, h1]
  have hz : r.subtotals.length = 0 := by
    have : r.subtotals = strandD.subtotals := by
      unfold TDim.resolve at hr
      cases hs : strandD.collSubs with
      | none => simp [hs] at hr
      | some subs => simp only [hs, Option.map_some, Option.some.injEq] at hr; rw [← hr]
    rw [this]; decide +kernel
  refine ⟨hi ▸ (by decide), ?_, ?_, h7, ?_, h8, fun hne => absurd hz hne⟩
  · rw [h1]; decide +kernel
  · rw [h1]; decide +kernel
  · rw [h1, h5]; decide

end PipelineExamples

end CrCube.C05
