/-
  C08 — sort-by-value collation (`SortByValueCollator`, model `CrCube.Collator.sortOrderSigned`).

  "Under a sort-by-value transform the visible non-fixed base elements appear monotonically
  ordered by the value the corresponding public measure reports for them, in the requested
  direction (descending unless 'ascending'), with NaN-valued elements last in payload order;
  fixed-top and fixed-bottom elements bracket them in their listed order, and the subtotals form
  a group sorted the same way, placed first when descending and last when ascending.  If the
  sort key cannot be resolved the order falls back to the anchored payload order instead of
  failing."

  All theorems hold for every list size and are generic in the value type `α` with
  `ops : ValOps α` total (`hTot`) and transitive (`hTr`) on the non-NaN values; both value
  types in use (`valOps` on `Val`, `strOps` on `String`) satisfy the two hypotheses.
-/
import CrCube.Lemmas.SortValue
import CrCube.Lemmas.AnchoredFinal
import Mathlib.Algebra.Order.Field.Rat

open CrCube CrCube.Collator CrCube.OrderSpec CrCube.Lemmas.SortValue

namespace CrCube.C08

/-! ## the two value types satisfy the order hypotheses -/


theorem valOps_total (a b : Val) (ha : valOps.isNan a = false) (hb : valOps.isNan b = false) :
    valOps.le a b = true ∨ valOps.le b a = true := by
  cases a <;> cases b <;> simp_all [valOps, Val.le, Val.isNan]
  exact Rat.le_total

theorem valOps_trans (a b c : Val) (ha : valOps.isNan a = false) (hb : valOps.isNan b = false)
    (hc : valOps.isNan c = false) (hab : valOps.le a b = true) (hbc : valOps.le b c = true) :
    valOps.le a c = true := by
  cases a <;> cases b <;> cases c <;> simp_all [valOps, Val.le, Val.isNan]
  exact Rat.le_trans hab hbc

theorem strOps_total (a b : String) (_ : strOps.isNan a = false) (_ : strOps.isNan b = false) :
    strOps.le a b = true ∨ strOps.le b a = true := by
  simp only [strOps, decide_eq_true_eq]
  exact String.le_total a b

theorem strOps_trans (a b c : String) (_ : strOps.isNan a = false) (_ : strOps.isNan b = false)
    (_ : strOps.isNan c = false) (hab : strOps.le a b = true) (hbc : strOps.le b c = true) :
    strOps.le a c = true := by
  simp only [strOps, decide_eq_true_eq] at *
  exact String.le_trans hab hbc

variable {α : Type} (ops : ValOps α)

/-! ## 1. `sorted(keys, reverse=descending) + nans` -/

theorem sortIdxs_split
    (hTot : ∀ a b, ops.isNan a = false → ops.isNan b = false → ops.le a b = true ∨ ops.le b a = true)
    (hTr : ∀ a b c, ops.isNan a = false → ops.isNan b = false → ops.isNan c = false →
      ops.le a b = true → ops.le b c = true → ops.le a c = true)
    (desc : Bool) (pairs : List (α × Int)) :
    ∃ S : List (α × Int),
      S.Perm (pairs.filter (fun p => !ops.isNan p.1)) ∧
      S.Pairwise (fun p q => (if desc then ops.le q.1 p.1 else ops.le p.1 q.1) = true) ∧
      S.Pairwise (fun p q => (if desc then tupLe ops q p else tupLe ops p q) = true) ∧
      sortIdxs ops desc pairs = S.map (·.2) ++ (pairs.filter (fun p => ops.isNan p.1)).map (·.2) := by
  obtain ⟨S, h1, h2, h3⟩ := sortIdxs_split_tup ops hTot hTr desc pairs
  refine ⟨S, h1, h2.imp ?_, h2, h3⟩
  intro p q h
  cases desc
  · exact tupLe_le ops h
  · exact tupLe_le ops h

/-! ## 2. body -/

theorem body_sorted
    (hTot : ∀ a b, ops.isNan a = false → ops.isNan b = false → ops.le a b = true ∨ ops.le b a = true)
    (hTr : ∀ a b c, ops.isNan a = false → ops.isNan b = false → ops.isNan c = false →
      ops.le a b = true → ops.le b c = true → ops.le a c = true)
    (desc : Bool) (vals : List α) (fixed : List Int) :
    ∃ K : List Int,
      bodyIdxs ops desc vals fixed =
        K ++ ((List.range vals.length).filter
              (fun (i : Nat) => !fixed.contains (i : Int) && vals[i]?.any ops.isNan)).map
              (fun (i : Nat) => (i : Int)) ∧
      K.Perm (((List.range vals.length).filter
              (fun (i : Nat) => !fixed.contains (i : Int) && vals[i]?.any (fun v => !ops.isNan v))).map
              (fun (i : Nat) => (i : Int))) ∧
      K.Pairwise (fun x y => ∃ a b, 0 ≤ x ∧ 0 ≤ y ∧ vals[x.toNat]? = some a ∧ vals[y.toNat]? = some b ∧
        ops.isNan a = false ∧ ops.isNan b = false ∧
        (if desc then ops.le b a else ops.le a b) = true) := by
  obtain ⟨K, h1, h2, h3⟩ := sortIdxs_indexed ops hTot hTr desc vals (fun (i : Nat) => (i : Int))
    (fun j => !fixed.contains j)
  refine ⟨K, ?_, ?_, ?_⟩
  · rw [bodyIdxs_eq, h1]
    congr 2
    apply List.filter_congr
    intro i _
    cases vals[i]? <;> simp [Bool.and_comm]
  · refine h2.trans (List.Perm.of_eq ?_)
    congr 1
    apply List.filter_congr
    intro i _
    cases vals[i]? <;> simp [Bool.and_comm]
  · refine h3.imp ?_
    rintro x y ⟨i, j, a, b, rfl, rfl, hi, hj, ha, hb, h⟩
    exact ⟨a, b, by simp, by simp, by simpa using hi, by simpa using hj, ha, hb, h⟩


/-- (b) membership: the body holds exactly the in-range non-fixed offsets. -/
theorem body_members (desc : Bool) (vals : List α) (fixed : List Int) (x : Int) :
    x ∈ bodyIdxs ops desc vals fixed ↔ 0 ≤ x ∧ x.toNat < vals.length ∧ x ∉ fixed :=
  mem_bodyIdxs ops desc vals fixed x

/-- (c) each once. -/
theorem body_nodup (desc : Bool) (vals : List α) (fixed : List Int) :
    (bodyIdxs ops desc vals fixed).Nodup :=
  bodyIdxs_nodup ops desc vals fixed

/-- NaN-valued non-fixed elements come last, in payload (increasing offset) order; everything
    before them is non-NaN.  No hypothesis on the order is needed for this part. -/
theorem nan_last_payload (desc : Bool) (vals : List α) (fixed : List Int) :
    ∃ K N : List Int,
      bodyIdxs ops desc vals fixed = K ++ N ∧
      N = ((List.range vals.length).filter
              (fun (i : Nat) => !fixed.contains (i : Int) && vals[i]?.any ops.isNan)).map
              (fun (i : Nat) => (i : Int)) ∧
      N.Pairwise (· < ·) ∧
      (∀ x ∈ N, ∃ a, 0 ≤ x ∧ vals[x.toNat]? = some a ∧ ops.isNan a = true) ∧
      (∀ x ∈ K, ∃ a, 0 ≤ x ∧ vals[x.toNat]? = some a ∧ ops.isNan a = false) := by
  obtain ⟨K, h1, h2⟩ := sortIdxs_indexed_perm ops desc vals (fun (i : Nat) => (i : Int))
    (fun j => !fixed.contains j)
  refine ⟨K, _, ?_, rfl, range_filter_map_cast_increasing _ _, ?_, ?_⟩
  · rw [bodyIdxs_eq, h1]
    congr 2
    apply List.filter_congr
    intro i _
    cases vals[i]? <;> simp [Bool.and_comm]
  · intro x hx
    simp only [List.mem_map, List.mem_filter, List.mem_range, Bool.and_eq_true] at hx
    obtain ⟨i, ⟨hi, _, hv⟩, rfl⟩ := hx
    rw [List.getElem?_eq_getElem hi] at hv
    exact ⟨vals[i], by omega, by simp [List.getElem?_eq_getElem hi], by simpa using hv⟩
  · intro x hx
    have hx' := h2.mem_iff.1 hx
    simp only [List.mem_map, List.mem_filter, List.mem_range] at hx'
    obtain ⟨i, ⟨hi, hv⟩, rfl⟩ := hx'
    rw [List.getElem?_eq_getElem hi] at hv
    refine ⟨vals[i], by omega, by simp [List.getElem?_eq_getElem hi], ?_⟩
    simp only [Option.any_some, Bool.and_eq_true, Bool.not_eq_eq_eq_not, Bool.not_true] at hv
    exact hv.1

/-! ## 3. subtotal group -/

theorem subs_sorted
    (hTot : ∀ a b, ops.isNan a = false → ops.isNan b = false → ops.le a b = true ∨ ops.le b a = true)
    (hTr : ∀ a b c, ops.isNan a = false → ops.isNan b = false → ops.isNan c = false →
      ops.le a b = true → ops.le b c = true → ops.le a c = true)
    (desc : Bool) (svals : List α) :
    ∃ K : List Int,
      subtotalIdxs ops desc svals =
        K ++ ((List.range svals.length).filter (fun (i : Nat) => svals[i]?.any ops.isNan)).map
              (fun (i : Nat) => (i : Int) - (svals.length : Int)) ∧
      K.Perm (((List.range svals.length).filter
              (fun (i : Nat) => svals[i]?.any (fun v => !ops.isNan v))).map
              (fun (i : Nat) => (i : Int) - (svals.length : Int))) ∧
      K.Pairwise (fun x y => ∃ a b, x < 0 ∧ y < 0 ∧ 0 ≤ x + (svals.length : Int) ∧
        0 ≤ y + (svals.length : Int) ∧
        svals[(x + (svals.length : Int)).toNat]? = some a ∧
        svals[(y + (svals.length : Int)).toNat]? = some b ∧
        ops.isNan a = false ∧ ops.isNan b = false ∧
        (if desc then ops.le b a else ops.le a b) = true) := by
  obtain ⟨K, h1, h2, h3⟩ := sortIdxs_indexed ops hTot hTr desc svals
    (fun (i : Nat) => (i : Int) - (svals.length : Int)) (fun _ => true)
  refine ⟨K, ?_, ?_, ?_⟩
  · rw [subtotalIdxs_eq, h1]
    congr 2
    apply List.filter_congr
    intro i _
    cases svals[i]? <;> simp
  · refine h2.trans (List.Perm.of_eq ?_)
    congr 1
    apply List.filter_congr
    intro i _
    cases svals[i]? <;> simp
  · refine h3.imp ?_
    rintro x y ⟨i, j, a, b, rfl, rfl, hi, hj, ha, hb, h⟩
    have hi' : i < svals.length := (List.getElem?_eq_some_iff.1 hi).1
    have hj' : j < svals.length := (List.getElem?_eq_some_iff.1 hj).1
    refine ⟨a, b, by omega, by omega, by omega, by omega, ?_, ?_, ha, hb, h⟩
    · rw [show ((i : Int) - (svals.length : Int) + (svals.length : Int)).toNat = i by omega]; exact hi
    · rw [show ((j : Int) - (svals.length : Int) + (svals.length : Int)).toNat = j by omega]; exact hj

theorem subs_members (desc : Bool) (svals : List α) (x : Int) :
    x ∈ subtotalIdxs ops desc svals ↔ x ∈ negIdxs svals.length :=
  (subtotalIdxs_perm ops desc svals).mem_iff

theorem subs_members_range (desc : Bool) (svals : List α) (x : Int) :
    x ∈ subtotalIdxs ops desc svals ↔ -(svals.length : Int) ≤ x ∧ x < 0 :=
  mem_subtotalIdxs ops desc svals x

theorem subs_nodup (desc : Bool) (svals : List α) : (subtotalIdxs ops desc svals).Nodup :=
  subtotalIdxs_nodup ops desc svals

/-! ## 5. the five groups -/

theorem groups (ids : List Eid) (hN : ids.Nodup) (hid : List Nat) (top bottom : List Eid)
    (desc : Bool) (vals svals : List α) :
    sortOrderSigned ops ids hid top bottom desc vals svals =
      (if desc then subtotalIdxs ops desc svals else []) ++
      (((fixedSpec ids [] top).filter (fun i => !hid.contains i)).map (fun (i : Nat) => (i : Int)) ++
        (bodyIdxs ops desc vals (fixedIdxs ids top ++ fixedIdxs ids bottom)).filter
          (fun i => !isHidden hid i) ++
        ((fixedSpec ids (fixedSpec ids [] top) bottom).filter (fun i => !hid.contains i)).map
          (fun (i : Nat) => (i : Int))) ++
      (if desc then [] else subtotalIdxs ops desc svals) := by
  have hsub : ∀ x ∈ subtotalIdxs ops desc svals, x < 0 := fun x hx =>
    ((mem_subtotalIdxs ops desc svals x).1 hx).2
  have hbody := mem_bodyIdxs ops desc vals (fixedIdxs ids top ++ fixedIdxs ids bottom)
  have hfix : ∀ {f : List Eid} {x : Int}, x ∈ fixedIdxs ids f → 0 ≤ x := fun h => (mem_fixedIdxs h).1
  set A := (if desc then subtotalIdxs ops desc svals else []) with hA
  set C := (if desc then [] else subtotalIdxs ops desc svals) with hC
  have hAneg : ∀ x ∈ A, x < 0 := by
    intro x hx; cases desc <;> simp [hA] at hx; exact hsub x hx
  have hCneg : ∀ x ∈ C, x < 0 := by
    intro x hx; cases desc <;> simp [hC] at hx; exact hsub x hx
  have hAC : ∀ x ∈ C, x ∉ A := by
    intro x hx; cases desc <;> simp [hA, hC] at hx ⊢
  have hAnd : A.Nodup := by
    cases desc <;> simp [hA]; exact subtotalIdxs_nodup ops _ svals
  have hCnd : C.Nodup := by
    cases desc <;> simp [hC]; exact subtotalIdxs_nodup ops _ svals
  unfold sortOrderSigned sortOrderSignedUnfixed sortGroups
  rw [dedup_filter]
  show (dedup (A ++ fixedIdxs ids top ++ bodyIdxs ops desc vals (fixedIdxs ids top ++ fixedIdxs ids bottom)
    ++ fixedIdxs ids bottom ++ C)).filter _ = _
  rw [dedup_groups A _ _ _ C hAnd (bodyIdxs_nodup ops _ _ _) hCnd
    (fun x hx h => by have := hfix hx; have := hAneg x h; omega)
    (fun x hx h => by have := ((hbody x).1 hx).1; have := hAneg x h; omega)
    (fun x hx h => ((hbody x).1 hx).2.2 (List.mem_append_left _ h))
    (fun x hx h => by have := hfix hx; have := hAneg x h; omega)
    (fun x hx h => ((hbody x).1 h).2.2 (List.mem_append_right _ hx))
    hAC
    (fun x hx h => by have := hfix h; have := hCneg x hx; omega)
    (fun x hx h => by have := ((hbody x).1 h).1; have := hCneg x hx; omega)
    (fun x hx h => by have := hfix h; have := hCneg x hx; omega)]
  rw [← fixedSpec_nil_map ids hN, ← fixedSpec_map ids hN]
  simp only [List.filter_append, filter_vis_map]
  have hfA : A.filter (fun idx => !isHidden hid idx) = A :=
    List.filter_eq_self.2 (fun x hx => by simp [isHidden_neg (hAneg x hx)])
  have hfC : C.filter (fun idx => !isHidden hid idx) = C :=
    List.filter_eq_self.2 (fun x hx => by simp [isHidden_neg (hCneg x hx)])
  rw [hfA, hfC]
  simp only [List.append_assoc]

/-! ## 6. membership; 7. counterexample for the unrepaired code; 8. fallback -/

theorem order_nodup_sort (ids : List Eid) (hid : List Nat) (top bottom : List Eid)
    (desc : Bool) (vals svals : List α) :
    (sortOrderSigned ops ids hid top bottom desc vals svals).Nodup :=
  dedup_nodup _

theorem mem_sortOrderSigned (ids : List Eid) (hid : List Nat) (top bottom : List Eid)
    (desc : Bool) (vals svals : List α) (x : Int) :
    x ∈ sortOrderSigned ops ids hid top bottom desc vals svals ↔
      isHidden hid x = false ∧
      (x ∈ subtotalIdxs ops desc svals ∨ x ∈ fixedIdxs ids top ∨ x ∈ fixedIdxs ids bottom ∨
        x ∈ bodyIdxs ops desc vals (fixedIdxs ids top ++ fixedIdxs ids bottom)) := by
  unfold sortOrderSigned sortOrderSignedUnfixed sortGroups
  rw [dedup_mem]
  cases desc <;> simp [List.mem_filter] <;> grind

theorem visible_iff_sort (ids : List Eid) (hid : List Nat) (top bottom : List Eid)
    (desc : Bool) (vals svals : List α) (hlen : vals.length = ids.length) (i : Nat) :
    (i : Int) ∈ sortOrderSigned ops ids hid top bottom desc vals svals ↔
      i < ids.length ∧ hid.contains i = false := by
  rw [mem_sortOrderSigned, isHidden_ofNat, mem_subtotalIdxs, mem_bodyIdxs]
  constructor
  · rintro ⟨hv, h⟩
    refine ⟨?_, hv⟩
    rcases h with h | h | h | h
    · omega
    · simpa using (mem_fixedIdxs h).2
    · simpa using (mem_fixedIdxs h).2
    · have := h.2.1; simp at this; omega
  · rintro ⟨hi, hv⟩
    refine ⟨hv, ?_⟩
    by_cases h : (i : Int) ∈ fixedIdxs ids top ++ fixedIdxs ids bottom
    · rcases List.mem_append.1 h with h | h
      · exact Or.inr (Or.inl h)
      · exact Or.inr (Or.inr (Or.inl h))
    · exact Or.inr (Or.inr (Or.inr ⟨by omega, by simp; omega, h⟩))

theorem subs_all_present (ids : List Eid) (hid : List Nat) (top bottom : List Eid)
    (desc : Bool) (vals svals : List α) (j : Int) (hj : j ∈ negIdxs svals.length) :
    j ∈ sortOrderSigned ops ids hid top bottom desc vals svals := by
  rw [mem_sortOrderSigned]
  have h := (mem_negIdxs _ _).1 hj
  exact ⟨isHidden_neg h.2, Or.inl ((mem_subtotalIdxs ops desc svals j).2 h)⟩

theorem neg_mem_sort_iff (ids : List Eid) (hid : List Nat) (top bottom : List Eid)
    (desc : Bool) (vals svals : List α) (j : Int) (hj : j < 0) :
    j ∈ sortOrderSigned ops ids hid top bottom desc vals svals ↔ j ∈ negIdxs svals.length := by
  rw [mem_sortOrderSigned, mem_negIdxs, mem_subtotalIdxs, mem_bodyIdxs]
  constructor
  · rintro ⟨_, h | h | h | h⟩
    · exact h
    · have := (mem_fixedIdxs h).1; omega
    · have := (mem_fixedIdxs h).1; omega
    · omega
  · intro h; exact ⟨isHidden_neg hj, Or.inl h⟩

theorem groups_unfixed_counterexample :
    (sortOrderSignedUnfixed valOps [.int 1, .int 2, .int 3, .int 4] [] [.int 2, .int 2]
        [.int 2, .int 3] true [Val.fin 10, Val.fin 30, Val.fin 20, Val.fin 40] []).length = 6 ∧
    ¬ (sortOrderSignedUnfixed valOps [.int 1, .int 2, .int 3, .int 4] [] [.int 2, .int 2]
        [.int 2, .int 3] true [Val.fin 10, Val.fin 30, Val.fin 20, Val.fin 40] []).Nodup ∧
    sortOrderSigned valOps [.int 1, .int 2, .int 3, .int 4] [] [.int 2, .int 2]
        [.int 2, .int 3] true [Val.fin 10, Val.fin 30, Val.fin 20, Val.fin 40] [] = [1, 3, 0, 2] := by
  have h : (10 : Rat) ≤ 40 := by decide
  have hu : sortOrderSignedUnfixed valOps [.int 1, .int 2, .int 3, .int 4] [] [.int 2, .int 2]
        [.int 2, .int 3] true [Val.fin 10, Val.fin 30, Val.fin 20, Val.fin 40] [] =
        [1, 1, 3, 0, 1, 2] := by
    simp [sortOrderSignedUnfixed, sortGroups, fixedIdxs, bodyIdxs, subtotalIdxs, sortIdxs, negIdxs,
      List.mergeSort, List.zipIdx, isHidden, valOps, Val.isNan, tupLe, Val.le,
      List.MergeSort.Internal.splitInTwo, h]
  refine ⟨by rw [hu]; rfl, by rw [hu]; decide, ?_⟩
  rw [sortOrderSigned, hu]; decide

theorem fallback (d : Dim) (empties : List Nat) (top bottom : List Eid) (desc : Bool) :
    sortByValueOrFallback ops d empties top bottom desc none = payloadOrderSigned d empties := rfl

theorem resolved (d : Dim) (empties : List Nat) (top bottom : List Eid) (desc : Bool)
    (v sv : List α) :
    sortByValueOrFallback ops d empties top bottom desc (some (v, sv)) =
      sortOrderSigned ops d.ids (d.hid empties) top bottom desc v sv := rfl

/-! ## 9. surrogate sort keys -/

theorem surrogate_monotone {β : Type} (opsβ : ValOps β) (g : α → β)
    (hg : ∀ a b, ops.le a b = true → opsβ.le (g a) (g b) = true) (desc : Bool) (l : List α)
    (h : l.Pairwise (fun a b => (if desc then ops.le b a else ops.le a b) = true)) :
    (l.map g).Pairwise (fun a b => (if desc then opsβ.le b a else opsβ.le a b) = true) := by
  rw [List.pairwise_map]
  refine h.imp ?_
  intro a b hab
  cases desc
  · exact hg _ _ hab
  · exact hg _ _ hab

theorem surrogate_monotone_spec {β : Type} (opsβ : ValOps β) (g : α → β)
    (hg : ∀ a b, ops.le a b = true → opsβ.le (g a) (g b) = true) (desc : Bool) (l : List α)
    (h : monotone ops desc l = true) : monotone opsβ desc (l.map g) = true :=
  (monotone_iff_pairwise opsβ desc _).2
    (surrogate_monotone ops opsβ g hg desc l ((monotone_iff_pairwise ops desc l).1 h))

theorem scale_monotone (k : Rat) (hk : 0 < k) (a b : Val) (h : valOps.le a b = true) :
    valOps.le (Val.scale k a) (Val.scale k b) = true := by
  have hp : Val.fin k * Val.pinf = Val.pinf := by
    show Val.mul (.fin k) .pinf = .pinf
    simp [Val.mul, Val.sgn, hk]
  have hn : Val.fin k * Val.ninf = Val.ninf := by
    show Val.mul (.fin k) .ninf = .ninf
    simp [Val.mul, Val.sgn, hk]
  cases a <;> cases b <;> simp_all [valOps, Val.le, Val.scale, Val.mul_fin]

theorem scale_monotone_fin (k : Rat) (hk : 0 ≤ k) (a b : Rat)
    (h : valOps.le (.fin a) (.fin b) = true) :
    valOps.le (Val.scale k (.fin a)) (Val.scale k (.fin b)) = true := by
  simp_all [valOps, Val.le, Val.scale, Val.mul_fin]
  exact mul_le_mul_of_nonneg_left h hk

/-- `0 ≤ k` is not enough on the extended values: `0 · ∞ = NaN`. -/
theorem scale_zero_not_monotone :
    valOps.le (.fin 1) .pinf = true ∧
      valOps.le (Val.scale 0 (.fin 1)) (Val.scale 0 .pinf) = false := by
  constructor
  · rfl
  · show Val.le (Val.mul (.fin 0) (.fin 1)) (Val.mul (.fin 0) .pinf) = false
    simp [Val.mul, Val.sgn, Val.le]

/-! ## 10. the model passes the executable C08 check of `Spec/Order.lean` -/

/-- visible body is `groupSorted` w.r.t. the element values. -/
theorem body_group_sorted
    (hTot : ∀ a b, ops.isNan a = false → ops.isNan b = false → ops.le a b = true ∨ ops.le b a = true)
    (hTr : ∀ a b c, ops.isNan a = false → ops.isNan b = false → ops.isNan c = false →
      ops.le a b = true → ops.le b c = true → ops.le a c = true)
    (desc : Bool) (vals : List α) (fixed : List Int) (p : Int → Bool) :
    groupSorted ops desc (fun i => if 0 ≤ i then vals[i.toNat]? else none)
      ((bodyIdxs ops desc vals fixed).filter p) = true := by
  obtain ⟨K, h1, h2, h3⟩ := body_sorted ops hTot hTr desc vals fixed
  rw [h1, List.filter_append]
  apply groupSorted_of_split
  · intro x hx
    have hx' := h2.mem_iff.1 (List.mem_filter.1 hx).1
    simp only [List.mem_map, List.mem_filter, List.mem_range, Bool.and_eq_true] at hx'
    obtain ⟨i, ⟨hi, _, hv⟩, rfl⟩ := hx'
    rw [List.getElem?_eq_getElem hi] at hv
    refine ⟨vals[i], by simp [List.getElem?_eq_getElem hi], by simpa using hv⟩
  · intro x hx a ha
    have hx' := (List.mem_filter.1 hx).1
    simp only [List.mem_map, List.mem_filter, List.mem_range, Bool.and_eq_true] at hx'
    obtain ⟨i, ⟨hi, _, hv⟩, rfl⟩ := hx'
    rw [List.getElem?_eq_getElem hi] at hv
    simp [List.getElem?_eq_getElem hi] at ha
    subst ha
    simpa using hv
  · refine (h3.filter p).imp ?_
    rintro x y ⟨a, b, hx, hy, hxa, hyb, _, _, h⟩
    exact ⟨a, b, by rw [if_pos hx]; exact hxa, by rw [if_pos hy]; exact hyb, h⟩
  · exact (range_filter_map_cast_increasing _ _).filter p

theorem subs_group_sorted
    (hTot : ∀ a b, ops.isNan a = false → ops.isNan b = false → ops.le a b = true ∨ ops.le b a = true)
    (hTr : ∀ a b c, ops.isNan a = false → ops.isNan b = false → ops.isNan c = false →
      ops.le a b = true → ops.le b c = true → ops.le a c = true)
    (desc : Bool) (svals : List α) :
    groupSorted ops desc
      (fun i => if 0 ≤ i + (svals.length : Int) ∧ i < 0 then svals[(i + (svals.length : Int)).toNat]? else none)
      (subtotalIdxs ops desc svals) = true := by
  obtain ⟨K, h1, h2, h3⟩ := subs_sorted ops hTot hTr desc svals
  rw [h1]
  apply groupSorted_of_split
  · intro x hx
    have hx' := h2.mem_iff.1 hx
    simp only [List.mem_map, List.mem_filter, List.mem_range] at hx'
    obtain ⟨i, ⟨hi, hv⟩, rfl⟩ := hx'
    rw [List.getElem?_eq_getElem hi] at hv
    have e : ((i : Int) - (svals.length : Int) + (svals.length : Int)).toNat = i := by omega
    refine ⟨svals[i], ?_, by simpa using hv⟩
    rw [if_pos (by omega), e, List.getElem?_eq_getElem hi]
  · intro x hx a ha
    simp only [List.mem_map, List.mem_filter, List.mem_range] at hx
    obtain ⟨i, ⟨hi, hv⟩, rfl⟩ := hx
    rw [List.getElem?_eq_getElem hi] at hv
    have e : ((i : Int) - (svals.length : Int) + (svals.length : Int)).toNat = i := by omega
    rw [if_pos (by omega), e, List.getElem?_eq_getElem hi] at ha
    cases ha
    simpa using hv
  · refine h3.imp ?_
    rintro x y ⟨a, b, hx, hy, hx0, hy0, hxa, hyb, _, _, h⟩
    exact ⟨a, b, by rw [if_pos ⟨hx0, hx⟩]; exact hxa, by rw [if_pos ⟨hy0, hy⟩]; exact hyb, h⟩
  · exact range_filter_map_neg_increasing _ _


theorem sort_check_ok
    (hTot : ∀ a b, ops.isNan a = false → ops.isNan b = false → ops.le a b = true ∨ ops.le b a = true)
    (hTr : ∀ a b c, ops.isNan a = false → ops.isNan b = false → ops.isNan c = false →
      ops.le a b = true → ops.le b c = true → ops.le a c = true)
    (ids : List Eid) (hN : ids.Nodup) (hid : List Nat) (top bottom : List Eid)
    (desc : Bool) (vals svals : List α) (hlen : vals.length = ids.length) :
    (sortCheck ops ids hid top bottom desc vals svals
      (sortOrderSigned ops ids hid top bottom desc vals svals)).ok = true := by
  set order := sortOrderSigned ops ids hid top bottom desc vals svals with horder
  set subs := subtotalIdxs ops desc svals with hsubs
  set tv := ((fixedSpec ids [] top).filter (fun i => !hid.contains i)).map (fun (i : Nat) => (i : Int)) with htv
  set bv := ((fixedSpec ids (fixedSpec ids [] top) bottom).filter (fun i => !hid.contains i)).map
    (fun (i : Nat) => (i : Int)) with hbv
  set bodyv := (bodyIdxs ops desc vals (fixedIdxs ids top ++ fixedIdxs ids bottom)).filter
    (fun i => !isHidden hid i) with hbodyv
  have hshape : order = (if desc then subs else []) ++ (tv ++ bodyv ++ bv) ++ (if desc then [] else subs) :=
    groups ops ids hN hid top bottom desc vals svals
  have hsubneg : ∀ x ∈ subs, x < 0 := fun x hx => ((mem_subtotalIdxs ops desc svals x).1 hx).2
  have hbase : ∀ x ∈ tv ++ bodyv ++ bv, 0 ≤ x := by
    intro x hx
    simp only [List.mem_append] at hx
    rcases hx with (hx | hx) | hx
    · simp only [htv, List.mem_map] at hx; obtain ⟨i, _, rfl⟩ := hx; omega
    · exact ((mem_bodyIdxs ops _ _ _ x).1 (List.mem_filter.1 hx).1).1
    · simp only [hbv, List.mem_map] at hx; obtain ⟨i, _, rfl⟩ := hx; omega
  have hsp : order.filter (fun i => decide (i < 0)) = subs := by
    rw [hshape]; exact filter_neg_shape desc subs _ hsubneg hbase
  have hbp : order.filter (fun i => decide (0 ≤ i)) = tv ++ bodyv ++ bv := by
    rw [hshape]; exact filter_nonneg_shape desc subs _ hsubneg hbase
  unfold SortCheck.ok sortCheck
  simp only [hsp, hbp]
  simp only [← htv, ← hbv]
  rw [take_left3, drop_right3, mid3]
  simp only [Bool.and_eq_true, beq_iff_eq, decide_eq_true_eq]
  refine ⟨⟨⟨⟨⟨⟨?_, trivial⟩, trivial, ?_⟩, ?_, ?_⟩, ?_⟩, ?_, ?_⟩, ?_⟩
  · rw [hshape]; cases desc <;> simp
  · simp only [List.length_append]; omega
  · -- body members
    rw [sameMembers_iff]
    intro x
    simp only [hbodyv, List.mem_filter, mem_bodyIdxs, List.mem_map, List.mem_range, Bool.and_eq_true,
      Bool.not_eq_eq_eq_not, Bool.not_true, List.mem_append, not_or, List.contains_eq_mem,
      decide_eq_false_iff_not]
    constructor
    · rintro ⟨⟨h0, hlt, hnt, hnb⟩, hv⟩
      obtain ⟨i, rfl⟩ := Int.eq_ofNat_of_zero_le h0
      rw [isHidden_ofNat] at hv
      refine ⟨i, ⟨by simpa [hlen] using hlt, ⟨by simpa using hv, ?_⟩, ?_⟩, rfl⟩
      · exact fun h => hnt ((mem_fixedSpec_nil ids hN top i).1 h)
      · exact fun h => hnb ((mem_fixedSpec ids hN top bottom i).1 h).1
    · rintro ⟨i, ⟨hi, ⟨hv, ht⟩, hb⟩, rfl⟩
      have ht' : (i : Int) ∉ fixedIdxs ids top := fun h => ht ((mem_fixedSpec_nil ids hN top i).2 h)
      have hb' : (i : Int) ∉ fixedIdxs ids bottom :=
        fun h => hb ((mem_fixedSpec ids hN top bottom i).2 ⟨h, ht'⟩)
      refine ⟨⟨by omega, by simpa [hlen] using hi, ht', hb'⟩, ?_⟩
      rw [isHidden_ofNat]; simpa using hv
  · rw [nodupB_iff]
    exact (bodyIdxs_nodup ops _ _ _).filter _
  · exact body_group_sorted ops hTot hTr desc vals _ _
  · rw [sameMembers_iff]
    intro x
    exact (subtotalIdxs_perm ops desc svals).mem_iff
  · rw [nodupB_iff]; exact subtotalIdxs_nodup ops desc svals
  · exact subs_group_sorted ops hTot hTr desc svals

/-! ## `dedup` (repair F3: first mention wins) — restated here; proofs in `Lemmas/SortValue` -/

theorem dedup_nodup (l : List Int) : (dedup l).Nodup := CrCube.Lemmas.SortValue.dedup_nodup l

theorem dedup_mem (l : List Int) (x : Int) : x ∈ dedup l ↔ x ∈ l :=
  CrCube.Lemmas.SortValue.dedup_mem l x

theorem dedup_sublist (l : List Int) : (dedup l).Sublist l :=
  CrCube.Lemmas.SortValue.dedup_sublist l

theorem dedup_eq_self_of_nodup (l : List Int) (h : l.Nodup) : dedup l = l :=
  CrCube.Lemmas.SortValue.dedup_eq_self_of_nodup l h

/-- recursive characterisation: keep the head, drop its later repeats. -/
theorem dedup_first (x : Int) (xs : List Int) :
    dedup [] = [] ∧ dedup (x :: xs) = x :: (dedup xs).filter (fun y => !(y == x)) :=
  ⟨CrCube.Lemmas.SortValue.dedup_nil, CrCube.Lemmas.SortValue.dedup_cons x xs⟩

theorem dedup_append (a b : List Int) :
    dedup (a ++ b) = dedup a ++ (dedup b).filter (fun x => !a.contains x) :=
  CrCube.Lemmas.SortValue.dedup_append a b

theorem dedup_filter (p : Int → Bool) (l : List Int) : dedup (l.filter p) = (dedup l).filter p :=
  CrCube.Lemmas.SortValue.dedup_filter p l

/-- `firstMentions` (spec) and `dedupAux` (model) are the same function up to `ℕ ↪ ℤ`. -/
theorem firstMentions_dedup (seen l : List Nat) :
    (firstMentions seen l).map Int.ofNat = dedupAux (seen.map Int.ofNat) (l.map Int.ofNat) :=
  firstMentions_map seen l

theorem firstMentions_mem (seen l : List Nat) (x : Nat) :
    x ∈ firstMentions seen l ↔ x ∈ l ∧ x ∉ seen := mem_firstMentions seen l x

theorem firstMentions_nodup' (seen l : List Nat) : (firstMentions seen l).Nodup :=
  firstMentions_nodup seen l

/-- under distinct element ids the model's "last match" lookup is the spec's "first match". -/
theorem fixedIdxs_spec (ids : List Eid) (hN : ids.Nodup) (fixed : List Eid) :
    fixedIdxs ids fixed = (fixed.filterMap (idxOfId ids)).map Int.ofNat :=
  fixedIdxs_eq ids hN fixed

/-! ## non-vacuity of the hypotheses -/

-- `hTot`, `hTr`: both value types in use are instances
example := body_sorted valOps valOps_total valOps_trans
example := body_sorted strOps strOps_total strOps_trans
example := sort_check_ok valOps valOps_total valOps_trans
example := sort_check_ok strOps strOps_total strOps_trans
-- `ids.Nodup`, `vals.length = ids.length`
example : ([.int 1, .int 2, .int 3, .int 4] : List Eid).Nodup := by decide
example : ([Val.fin 10, Val.fin 30, Val.fin 20, Val.fin 40] : List Val).length =
    ([.int 1, .int 2, .int 3, .int 4] : List Eid).length := rfl
-- `j ∈ negIdxs n`, `j < 0`
example : (-1 : Int) ∈ negIdxs 2 := by decide
example : negIdxs 2 = [-2, -1] := by decide
-- `0 < k`, `0 ≤ k`, and the surrogate hypothesis `hg`
example : (0 : Rat) < 2 := by decide
example : ∀ a b, valOps.le a b = true → valOps.le (Val.scale 2 a) (Val.scale 2 b) = true :=
  scale_monotone 2 (by decide)
-- `l.Nodup` for `dedup_eq_self_of_nodup`
example : ([3, -1, 0] : List Int).Nodup := by decide
example : dedup [1, 1, 3, 0, 1, 2] = [1, 3, 0, 2] := by decide

/-! ## sanity evaluations: tests/integration/test_collator.py `TestSortByValueCollator`
    (ids 1..4, values 10 30 20 40, subtotal values 60 40; `hid` = pruned empties) -/

example : sortOrderSigned valOps [.int 1, .int 2, .int 3, .int 4] [] [] [] true
    [Val.fin 10, Val.fin 30, Val.fin 20, Val.fin 40] [Val.fin 60, Val.fin 40]
    = [-2, -1, 3, 1, 2, 0] := by eval_sort
example : sortOrderSigned valOps [.int 1, .int 2, .int 3, .int 4] [] [.int 1] [] true
    [Val.fin 10, Val.fin 30, Val.fin 20, Val.fin 40] [Val.fin 60, Val.fin 40]
    = [-2, -1, 0, 3, 1, 2] := by eval_sort
example : sortOrderSigned valOps [.int 1, .int 2, .int 3, .int 4] [] [.int 4] [.int 2] true
    [Val.fin 10, Val.fin 30, Val.fin 20, Val.fin 40] [Val.fin 60, Val.fin 40]
    = [-2, -1, 3, 2, 0, 1] := by eval_sort
example : sortOrderSigned valOps [.int 1, .int 2, .int 3, .int 4] [0, 3] [.int 3] [.int 2] true
    [Val.fin 10, Val.fin 30, Val.fin 20, Val.fin 40] [Val.fin 60, Val.fin 40]
    = [-2, -1, 2, 1] := by eval_sort
example : sortOrderSigned valOps [.int 1, .int 2, .int 3, .int 4] [] [] [] false
    [Val.fin 10, Val.fin 30, Val.fin 20, Val.fin 40] [Val.fin 60, Val.fin 40]
    = [0, 2, 1, 3, -1, -2] := by eval_sort
example : sortOrderSigned valOps [.int 1, .int 2, .int 3, .int 4] [] [.int 4] [.int 1] false
    [Val.fin 10, Val.fin 30, Val.fin 20, Val.fin 40] [Val.fin 60, Val.fin 40]
    = [3, 2, 1, 0, -1, -2] := by eval_sort
example : sortOrderSigned valOps [.int 1, .int 2, .int 3, .int 4] [1, 2] [.int 4] [.int 1] false
    [Val.fin 10, Val.fin 30, Val.fin 20, Val.fin 40] [Val.fin 60, Val.fin 40]
    = [3, 0, -1, -2] := by eval_sort
-- NaN-valued elements and subtotals last, in payload order; unknown fixed id ignored
example : sortOrderSigned valOps [.int 1, .int 2, .int 3, .int 4] [] [.int 9] [] true
    [Val.nan, Val.fin 30, Val.nan, Val.fin 40] [Val.nan, Val.fin 40]
    = [-1, -2, 3, 1, 0, 2] := by eval_sort
-- labels
example : sortOrderSigned strOps [.int 1, .int 2, .int 3] [] [] [.int 1] false
    ["pear", "fig", "apple"] [] = [2, 1, 0] := by eval_sort
-- the executable C08 check accepts the repaired order and rejects the unrepaired one
example : (sortCheck valOps [.int 1, .int 2, .int 3, .int 4] [] [.int 2, .int 2] [.int 2, .int 3] true
    [Val.fin 10, Val.fin 30, Val.fin 20, Val.fin 40] [] [1, 3, 0, 2]).ok = true := by decide
example : (sortCheck valOps [.int 1, .int 2, .int 3, .int 4] [] [.int 2, .int 2] [.int 2, .int 3] true
    [Val.fin 10, Val.fin 30, Val.fin 20, Val.fin 40] [] [1, 1, 3, 0, 1, 2]).ok = false := by decide

/-- the fallback order is the C07 anchored payload order of the specification. -/
theorem fallback_eq_spec {α : Type} (ops : ValOps α) (d : Dim) (empties : List Nat) (top bottom : List Eid)
    (desc : Bool) (hids : d.ids.Nodup) (hlen : (d.elems.length : Int) ≤ maxsize) :
    sortByValueOrFallback ops d empties top bottom desc none = specSigned d none empties := by
  rw [fallback]
  exact CrCube.Lemmas.AnchoredFinal.payload_eq_spec d empties hids hlen

/-- the keyword tables, whole: every supported matrix keyword sorts on the array the public
    measure of that name is (`same`), or on its documented monotone surrogate (variance for
    std-dev, std-err for margin-of-error, proportion for population); marginal and stripe
    keywords all resolve. -/
theorem keyword_tables :
    (∀ kw ∈ matrixKeywords, matrixMeasureProp kw = expectedSortProp kw ∧ (matrixPublic kw).isSome = true) ∧
    (∀ kw ∈ marginalKeywords, (marginalProp kw).isSome = true ∧ (marginalPublic kw).isSome = true) ∧
    (∀ kw ∈ stripeKeywords, (stripeMeasureProp kw).isSome = true ∧ (stripePublic kw).isSome = true) := by
  decide

end CrCube.C08
