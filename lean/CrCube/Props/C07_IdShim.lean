/-
  C07 — explicit orders on DATETIME dimensions: the integer-id spelling of a listed element names
  the element with that id.

  On a datetime dimension the library identifies an element by its VALUE (`dtElementId` of the
  shimmed dimension) and sends the integer ids of an explicit order through the id → value
  crosswalk (`_ElementIdShim._element_values_dict`, model `Shim.dtLookup` / `Shim.translateDt`).
  The collator then looks the translated reference up among the valid elements.  The property's
  "listed order" is stated on element ids, so what must hold is: the position found for the
  translated reference is the position of the element carrying that id — wherever the missing
  element sits in the payload and whatever the ids are.  `enumerate_crosswalk_counterexample`
  shows that a positional crosswalk (`dict(enumerate(values))`) breaks exactly this.
-/
import CrCube.Model.Shim

namespace CrCube.C07
open CrCube.Shim

/-- index of the first element satisfying `p` (`OrderedDict` lookup by element id) -/
def firstIdx {α : Type} (p : α → Bool) : List α → Option Nat
  | [] => none
  | a :: l => if p a then some 0 else (firstIdx p l).map (· + 1)

theorem firstIdx_congr {α : Type} {p q : α → Bool} :
    ∀ {l : List α}, (∀ a ∈ l, p a = q a) → firstIdx p l = firstIdx q l
  | [], _ => rfl
  | a :: l, h => by
    have ha : p a = q a := h a (by simp)
    have hl : firstIdx p l = firstIdx q l := firstIdx_congr (fun x hx => h x (by simp [hx]))
    simp [firstIdx, ha, hl]

/-- valid elements: the value is not an object -/
def dtValid (l : List DtItem) : List DtItem := l.filter (fun it => it.value.isSome)

/-- the per-element step of `shimmed_dimension_dict` (`Shim.shimDtDim`) -/
def shimIt (it : DtItem) : DtItem :=
  match it.value with
  | some v => { it with datetimeValue := some v }
  | none => it

theorem shimDtDim_items (d : DtDim) : (shimDtDim d).items = d.items.map shimIt := rfl

/-- position the collator finds for a (translated) reference: first valid element of the SHIMMED
    dimension whose library element id equals it -/
def dtPosOf (d : DtDim) (r : Ref) : Option Nat :=
  firstIdx (fun it => dtElementId it == r) (dtValid (shimDtDim d).items)

/-- what the property says: the position, among the valid elements, of the element with id `i` -/
def dtPosById (d : DtDim) (i : Int) : Option Nat :=
  firstIdx (fun it => it.id == i) (dtValid d.items)

/-- ids pairwise distinct / values of valid elements pairwise distinct -/
def IdsDistinct (l : List DtItem) : Prop := ∀ a ∈ l, ∀ b ∈ l, a.id = b.id → a = b
def ValuesDistinct (l : List DtItem) : Prop :=
  ∀ a ∈ l, ∀ b ∈ l, a.value.isSome → a.value = b.value → a = b

instance (l : List DtItem) : Decidable (IdsDistinct l) := by unfold IdsDistinct; infer_instance
instance (l : List DtItem) : Decidable (ValuesDistinct l) := by unfold ValuesDistinct; infer_instance

theorem dtLookup_some {k : Int} {v : String} :
    ∀ {l : List DtItem}, dtLookup k l = some v → ∃ it ∈ l, it.id = k ∧ it.value = some v
  | [], h => by simp [dtLookup] at h
  | a :: l, h => by
    simp only [dtLookup] at h
    cases ht : dtLookup k l with
    | some w =>
      rw [ht] at h
      obtain ⟨x, hx, hk, hv⟩ := dtLookup_some ht
      exact ⟨x, by simp [hx], hk, by simpa [hv] using h⟩
    | none =>
      rw [ht] at h
      by_cases hk : a.id = k
      · simp [hk] at h
        exact ⟨a, by simp, hk, h⟩
      · simp [hk] at h

/-- the crosswalk sends the id of a valid element to its value … -/
theorem crosswalk_of_valid {l : List DtItem} (hid : IdsDistinct l) {it : DtItem} {v : String}
    (hit : it ∈ l) (hv : it.value = some v) : dtLookup it.id l = some v := by
  induction l with
  | nil => simp at hit
  | cons a l ih =>
    have hid' : IdsDistinct l := fun x hx y hy h => hid x (by simp [hx]) y (by simp [hy]) h
    simp only [dtLookup]
    cases ht : dtLookup it.id l with
    | some w =>
      obtain ⟨x, hx, hk, hxv⟩ := dtLookup_some ht
      have : x = it := hid x (by simp [hx]) it hit hk
      subst this
      simp [hxv] at hv
      simp [hv]
    | none =>
      rcases List.mem_cons.mp hit with h | h
      · subst h; simp [hv]
      · rw [ih hid' h] at ht; simp at ht

/-- … and leaves every other id alone (stale ids, the ids of missing elements) -/
theorem crosswalk_of_other {l : List DtItem} {i : Int}
    (h : ∀ it ∈ l, it.value.isSome → it.id ≠ i) : dtLookup i l = none := by
  cases ht : dtLookup i l with
  | none => rfl
  | some w =>
    obtain ⟨x, hx, hk, hv⟩ := dtLookup_some ht
    exact absurd hk (h x hx (by simp [hv]))

theorem firstIdx_filter_map {α : Type} (f : α → α) (p v : α → Bool) (hv : ∀ a, v (f a) = v a) :
    ∀ l : List α, firstIdx p ((l.map f).filter v) = firstIdx (fun a => p (f a)) (l.filter v)
  | [] => rfl
  | a :: l => by
    by_cases h : v a
    · simp [List.filter, hv, h, firstIdx, firstIdx_filter_map f p v hv l]
    · simp [List.filter, hv, h, firstIdx_filter_map f p v hv l]

theorem shimIt_value (it : DtItem) : (shimIt it).value = it.value := by
  unfold shimIt; cases h : it.value <;> simp [h]

theorem dtElementId_shimIt {it : DtItem} {v : String} (h : it.value = some v) :
    dtElementId (shimIt it) = .str v := by
  simp [shimIt, h, dtElementId]

/-- **the integer-id spelling names the element with that id**: the position the collator finds
    for the translated integer id is the position of the element carrying that id among the valid
    elements; a stale id or the id of a missing element finds nothing (it is ignored). -/
theorem position_by_id_eq_by_value (d : DtDim) (hid : IdsDistinct d.items)
    (hval : ValuesDistinct d.items) (i : Int) :
    dtPosOf d (translateDt d (.int i)) = dtPosById d i := by
  unfold dtPosOf dtPosById dtValid
  rw [shimDtDim_items, firstIdx_filter_map shimIt _ (fun it => it.value.isSome)
        (fun a => by simp [shimIt_value])]
  apply firstIdx_congr
  intro a ha
  obtain ⟨hmem, hsome⟩ := List.mem_filter.mp ha
  obtain ⟨v, hv⟩ := Option.isSome_iff_exists.mp hsome
  rw [dtElementId_shimIt hv]
  simp only [translateDt, dtKey]
  cases hl : dtLookup i d.items with
  | some w =>
    obtain ⟨x, hx, hk, hxv⟩ := dtLookup_some hl
    by_cases hai : a.id = i
    · have : a = x := hid a hmem x hx (by rw [hai, hk])
      subst this
      have : v = w := by simpa [hv] using hxv
      simp [hai, this]
    · have hne : v ≠ w := by
        intro h; subst h
        exact hai (by rw [hval a hmem x hx (by simp [hv]) (by rw [hv, hxv])]; exact hk)
      have h1 : (Ref.str v == Ref.str w) = false :=
        beq_eq_false_iff_ne.mpr (fun h => hne (Ref.str.inj h))
      have h2 : (a.id == i) = false := beq_eq_false_iff_ne.mpr hai
      rw [h1, h2]
  | none =>
    have hai : a.id ≠ i := by
      intro h
      rw [← h, crosswalk_of_valid hid hmem hv] at hl
      simp at hl
    have h1 : (Ref.str v == Ref.int i) = false :=
      beq_eq_false_iff_ne.mpr (fun h => Ref.noConfusion h)
    have h2 : (a.id == i) = false := beq_eq_false_iff_ne.mpr hai
    rw [h1, h2]

/-- the whole listed order: spelled with integer ids it denotes, occurrence by occurrence
    (repeats and stale ids included), the positions of the elements with those ids. -/
theorem explicit_positions_spelling (d : DtDim) (hid : IdsDistinct d.items)
    (hval : ValuesDistinct d.items) (ids : List Int) :
    (shimDtIds d (ids.map Ref.int)).map (dtPosOf d) = ids.map (dtPosById d) := by
  simp [shimDtIds, List.map_map, Function.comp_def, position_by_id_eq_by_value d hid hval]

/-! ### non-vacuity and the positional crosswalk -/

/-- payload with the missing element in the middle and ids that are not positions -/
def sampleDim : DtDim :=
  { items := [ { id := 0, value := some "2021-01" }, { id := 1, value := some "2021-02" },
               { id := 2, value := none }, { id := 3, value := some "2021-03" },
               { id := 4, value := some "2021-04" } ] }

example : IdsDistinct sampleDim.items := by decide
example : ValuesDistinct sampleDim.items := by decide
example : (shimDtIds sampleDim ([4, 0, 4, 17, 3, 2].map Ref.int)).map (dtPosOf sampleDim)
    = [some 3, some 0, some 3, none, some 2, none] := by decide
example : dtPosOf sampleDim (translateDt sampleDim (.int 3)) = some 2 := by decide
example : dtPosOf sampleDim (translateDt sampleDim (.int 2)) = none := by decide

/-- the seeded variant `dict(enumerate(values))`: key = position among the non-missing values -/
def enumLookup (k : Int) (l : List DtItem) : Option String :=
  if k < 0 then none else ((dtValid l)[k.toNat]?).bind (·.value)

/-- with the missing element before the end a positional crosswalk sends id 3 to the element
    with id 4 (position 3 instead of 2), while the modelled crosswalk finds position 2. -/
theorem enumerate_crosswalk_counterexample :
    enumLookup 3 sampleDim.items = some "2021-04" ∧
    dtPosOf sampleDim (.str "2021-04") = some 3 ∧ dtPosById sampleDim 3 = some 2 ∧
    dtPosOf sampleDim (translateDt sampleDim (.int 3)) = some 2 := by
  refine ⟨by decide, by decide, by decide, by decide⟩

end CrCube.C07
