/-
  C12 (display) — z-scores / p-values under hide / prune / order transforms.

  A display transform only selects and re-orders rows and columns of the block-ordered matrix
  (`_assemble_matrix`: `np.block(blocks)[np.ix_(row_order, column_order)]`).  `pick m ro co` is that
  re-indexing (indexes into the block order; an index outside the matrix selects nothing).
  The theorems say: the displayed matrix of specified z (p) is the matrix of specified z (p) of the
  DISPLAYED sides — with the SAME table extents `nr nc`, i.e. the defective test is the one of the
  whole valid table, never of the displayed part — and the value of a cell does not depend on which
  other sides are listed (twin insertions, listing order).
-/
import CrCube.Props.C12

namespace CrCube.C12
open CrCube

/-- `np.ix_(ro, co)` re-indexing of a matrix -/
def pick {α : Type} (m : List (List α)) (ro co : List Nat) : List (List α) :=
  ro.filterMap (fun i => (m[i]?).map (fun row => co.filterMap (fun j => row[j]?)))

theorem filterMap_getElem?_map {α β : Type} (g : α → β) (xs : List α) (l : List Nat) :
    l.filterMap (fun j => (xs.map g)[j]?) = (l.filterMap (fun j => xs[j]?)).map g := by
  simp only [List.getElem?_map, List.map_filterMap]

/-- re-indexing a matrix given cell-wise by `f R C` over side lists is the matrix over the displayed sides -/
theorem pick_table {σ τ β : Type} (f : σ → τ → β) (rows : List σ) (cols : List τ) (ro co : List Nat) :
    pick (rows.map (fun R => cols.map (f R))) ro co
      = (ro.filterMap (fun i => rows[i]?)).map (fun R => (co.filterMap (fun j => cols[j]?)).map (f R)) := by
  unfold pick
  rw [List.map_filterMap]
  congr 1; funext i
  rw [List.getElem?_map, Option.map_map]
  congr 1; funext R
  exact filterMap_getElem?_map (f R) cols co

/-- the specified z matrix over side lists -/
def zSpecMat (d : SliceDesign) (s : Survey) (nr nc : Nat) (rows cols : List Side) : List (List Out) :=
  rows.map (fun R => cols.map (fun C => zSpec d s nr nc R C))

/-- **display_z_eq_spec**: under any hide / prune / order (any index lists), the displayed z matrix is the specified
    z of the displayed sides, the table extents (hence the defective test) being those of the whole valid table -/
theorem display_z_eq_spec (d : SliceDesign) (s : Survey) (nr nc : Nat) (rows cols : List Side) (ro co : List Nat) :
    pick (zSpecMat d s nr nc rows cols) ro co
      = zSpecMat d s nr nc (ro.filterMap (fun i => rows[i]?)) (co.filterMap (fun j => cols[j]?)) :=
  pick_table (fun R C => zSpec d s nr nc R C) rows cols ro co

/-- **display_p_pairs_z**: every displayed p is the two-sided tail of the displayed z of the same cell -/
theorem display_p_pairs_z (zs : List (List Out)) (ro co : List Nat) :
    pick (pBlock zs) ro co = pBlock (pick zs ro co) := by
  unfold pBlock pick
  rw [List.map_filterMap]
  congr 1; funext i
  rw [List.getElem?_map, Option.map_map, Option.map_map]
  congr 1; funext row
  exact filterMap_getElem?_map Out.normTail2 row co

/-- **twin_independent**: the specified z of a cell is a function of its own two sides — listing further sides (a twin
    with the same addends, a difference before or after) or permuting the list does not change it -/
theorem twin_independent (d : SliceDesign) (s : Survey) (nr nc : Nat) (rows rows' cols cols' : List Side)
    (i i' j j' : Nat) (R C : Side) (hi : rows[i]? = some R) (hi' : rows'[i']? = some R)
    (hj : cols[j]? = some C) (hj' : cols'[j']? = some C) :
    pick (zSpecMat d s nr nc rows cols) [i] [j] = pick (zSpecMat d s nr nc rows' cols') [i'] [j'] := by
  rw [display_z_eq_spec, display_z_eq_spec]
  simp [hi, hi', hj, hj']

/-- non-vacuity / sample: hiding all but one column of a 2 x 3 matrix keeps that column's cells -/
example : pick [[1, 2, 3], [4, 5, 6]] [1, 0] [2] = [[6], [3]] := by decide

end CrCube.C12
