/-
  C09 (families) — the pruning base of a CA-as-0th strand.

  A categorical array read CA-as-0th (`cube_idx = 0`, leading CA_SUBVAR dimension of a 2-D cube) yields one
  `_Strand` per sub-variable whose rows are the categories (`Model/SliceArr.lean: strandCountsCA0`, stripe
  `_BaseCubeCounts.factory`: `_CatCubeCounts(rows_dimension, counts[slice_idx])`).  Property theorems only:
  strand k prunes by the unweighted respondent counts of ITS OWN sub-variable.
-/
import CrCube.Props.C09
import CrCube.Props.C06_CubeSet
import CrCube.Model.SliceArr

namespace CrCube.C09
open CrCube

/-- recoding to one item commutes with dropping the weights -/
theorem unweight_recodeItem (s : Survey) (k : Nat) :
    (unweight s).map (recodeItem k) = unweight (s.map (recodeItem k)) := by
  simp [unweight, recodeItem, List.map_map, Function.comp_def]

/-- **the pruning base of CA-as-0th strand k is the unweighted count of sub-variable k alone**: row i
    (valid category i) of the strand cut for item k has as pruning base the number of respondents
    (every weight replaced by 1) whose answer TO ITEM k is that category — the respondent-level count of
    the 1-D cube of the survey recoded to item k; no other sub-variable's answers enter. -/
theorem ca0_strand_pruning_base (ca : Var) (hca : ca.kind = .arr) (hnm : ca.isMR = false) (s : Survey)
    (k : Nat) (hk : k < ca.n) (i : Nat) (hi : i < ca.itemVar.ext) :
    (strandCountsCA0 ca (cubeOf [ca] (unweight s)) k).pruningBase i
      = .fin (specCount [ca.itemVar] (unweight (s.map (recodeItem k))) [i] [false]) := by
  unfold strandCountsCA0
  rw [C06.ca_as_0th_partitions ca hca hnm (unweight s) k hk, unweight_recodeItem]
  have h := strand_pruning_base ca.itemVar (Or.inl rfl) (s.map (recodeItem k)) i hi
  simpa [Var.itemVar] using h

/-- a category of strand k is empty (pruned when pruning is on) iff nobody answered it under item k -/
theorem ca0_strand_empty_iff (ca : Var) (hca : ca.kind = .arr) (hnm : ca.isMR = false) (s : Survey)
    (k : Nat) (hk : k < ca.n) (i : Nat) (hi : i < ca.itemVar.ext) :
    (((strandCountsCA0 ca (cubeOf [ca] (unweight s)) k).pruningBase i) == .fin 0) = true
      ↔ specCount [ca.itemVar] (unweight (s.map (recodeItem k))) [i] [false] = 0 := by
  rw [ca0_strand_pruning_base ca hca hnm s k hk i hi]
  simp

/-- **weights and the other sub-variables play no part**: two surveys whose respondents give the same
    answers to item k (whatever their weights and their answers to the other items) give strand k the same
    pruning base -/
theorem ca0_strand_weight_free (ca : Var) (hca : ca.kind = .arr) (hnm : ca.isMR = false) (s s' : Survey)
    (k : Nat) (hk : k < ca.n) (i : Nat) (hi : i < ca.itemVar.ext)
    (h : (s.map (recodeItem k)).map (·.ans) = (s'.map (recodeItem k)).map (·.ans)) :
    (strandCountsCA0 ca (cubeOf [ca] (unweight s)) k).pruningBase i
      = (strandCountsCA0 ca (cubeOf [ca] (unweight s')) k).pruningBase i := by
  rw [ca0_strand_pruning_base ca hca hnm s k hk i hi, ca0_strand_pruning_base ca hca hnm s' k hk i hi,
    prune_weight_free _ _ h]

-- non-vacuity / tests (not the claim): 2 items x 2 valid categories (+ a missing one); category 1 is
-- answered under item 1 only: strand 0 has base 0 there, strand 1 has base 1 (the weight 0 plays no part)
example :
    let ca : Var := ⟨.arr, 2, [false, false, true], false⟩
    let s : Survey := [⟨0, [[0, 1]]⟩, ⟨3, [[0, 0]]⟩]
    (ca.kind = .arr ∧ ca.isMR = false ∧ 1 < ca.itemVar.ext) ∧
    specCount [ca.itemVar] (unweight (s.map (recodeItem 0))) [1] [false] = 0 ∧
    specCount [ca.itemVar] (unweight (s.map (recodeItem 1))) [1] [false] = 1 := by decide +kernel

example :
    let s : Survey := [⟨0, [[0, 1]]⟩, ⟨3, [[0, 0]]⟩]
    let s' : Survey := [⟨2, [[0, 0]]⟩, ⟨1, [[0, 1]]⟩]
    (s.map (recodeItem 0)).map (·.ans) = (s'.map (recodeItem 0)).map (·.ans) := by decide

end CrCube.C09
