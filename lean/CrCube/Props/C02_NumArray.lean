/-
  C02 (extension) — when valid counts stand in for counts (numeric arrays always; numeric
  measures whenever the response carries valid counts) the counts and bases are exactly the
  respondents eligible for the denominator, "valid for an array item" meaning "has a value on
  that particular item".  Property theorems only.

  `validCountsOf vars n s` / `validCountsScalar vars s` (Spec/NumericSpec.lean) is the valid-count
  measure of survey `s`; use `unweight s` for `valid_count_unweighted`.
  `numSpecCount vars n s groupElems groupValid item` is the (weighted) number of respondents that
  have a value on `item` and, per grouping dimension, belong to the element (flag false) or merely
  have a valid answer (flag true).
-/
import CrCube.Lemmas.NumArrayBases
import CrCube.Lemmas.ValidCountsSummary
import CrCube.Props.C01
import CrCube.Props.C02

set_option linter.unusedSimpArgs false

namespace CrCube.C02
open CrCube

/-! ### numeric array × grouping variable -/

/-- count of cell (item i, column j): members of column j that have a value on item i -/
theorem numarr_counts_respondents (C : Var) (hC : C.CM) (n : Nat) (s : Survey) (i j : Nat)
    (hi : i < n) (hj : j < C.ext) :
    ((NDesign.mk [C] (some n)).sliceCounts (validCountsOf [C] n s) 0).counts i j
      = .fin (numSpecCount [C] n s [j] [false] i) := by
  rw [numarr2d_counts C hC n _ i j hi]
  exact validCounts2d_cell C hC n s i j hi hj

/-- row base: respondents with a value on item i and a VALID answer on the column dimension (for
    multiple response: non-missing on item j) — bases never add across subvariables -/
theorem numarr_rowBase_respondents (C : Var) (hC : C.CM) (n : Nat) (s : Survey) (i j : Nat)
    (hi : i < n) (hj : j < C.ext) :
    ((NDesign.mk [C] (some n)).sliceCounts (validCountsOf [C] n s) 0).rowBases i j
      = .fin (numSpecCount [C] n s [j] [true] i) := by
  rw [numarr2d_rowBases C hC n _ i j hi]
  exact validCounts2d_rowBase C hC n s i j hi hj

/-- column base = the count itself (members of column j eligible on item i = with a value on it),
    table base = row base -/
theorem numarr_column_and_table_bases (C : Var) (hC : C.CM) (n : Nat) (raw : FT) (i j : Nat) :
    ((NDesign.mk [C] (some n)).sliceCounts raw 0).columnBases i j
      = ((NDesign.mk [C] (some n)).sliceCounts raw 0).counts i j ∧
    ((NDesign.mk [C] (some n)).sliceCounts raw 0).tableBases i j
      = ((NDesign.mk [C] (some n)).sliceCounts raw 0).rowBases i j :=
  ⟨numarr2d_columnBases C hC n raw i j, numarr2d_tableBases C hC n raw i j⟩

/-- "eligible on the item" is "has a value on the item": asking for validity instead of membership
    on the numeric-array dimension changes nothing (so the column base IS the spec'd base) -/
theorem numarr_item_eligibility (n : Nat) (a : List Nat) (i : Nat) :
    (numVar n).specMem a [i] [true] = (numVar n).specMem a [i] [false] :=
  numVar_specMem_valid_eq_member n a i

/-- extents: one row per subvariable (never missing), one column per valid element; one slice -/
theorem numarr_extents (C : Var) (hC : C.CM) (n : Nat) (raw : FT) :
    ((NDesign.mk [C] (some n)).sliceCounts raw 0).nrows = n ∧
    ((NDesign.mk [C] (some n)).sliceCounts raw 0).ncols = C.ext ∧
    (NDesign.mk [C] (some n)).nPartitions = 1 :=
  ⟨numarr2d_nrows C hC n raw, numarr2d_ncols C hC n raw, numarr2d_nPartitions C hC n⟩

/-! ### numeric array alone: `_NumArrCubeCounts` -/

/-- counts AND bases of row i are the respondents with a value on item i (no summing over items) -/
theorem numarr_strand_respondents (n : Nat) (s : Survey) (i : Nat) (hi : i < n) :
    ((NDesign.mk [] (some n)).strandCounts (validCountsOf [] n s)).counts i
      = .fin (numSpecCount [] n s [] [] i) ∧
    ((NDesign.mk [] (some n)).strandCounts (validCountsOf [] n s)).bases i
      = .fin (numSpecCount [] n s [] [] i) ∧
    ((NDesign.mk [] (some n)).strandCounts (validCountsOf [] n s)).n = n := by
  refine ⟨?_, ?_, numarr1d_n n _⟩
  · rw [numarr1d_counts n _ i hi]; exact validCounts1d_cell n s i hi
  · rw [numarr1d_bases, numarr1d_counts n _ i hi]; exact validCounts1d_cell n s i hi

/-- the stripe extractor chosen for a numeric array alone is `_NumArrCubeCounts`, whose table
    base is undefined -/
theorem numarr_strand_kind (n : Nat) (raw : FT) :
    (NDesign.mk [] (some n)).stripeKind = .numArr ∧
    ((NDesign.mk [] (some n)).strandCounts raw).tableBase = none := by
  refine ⟨numarr1d_kind n, ?_⟩
  simp [NDesign.strandCounts, numarr1d_kind, StripeCounts.numArr]

/-! ### unweighted valid counts count respondents -/

theorem valid_counts_unweighted_count_respondents (vars : List Var) (n : Nat) (s : Survey)
    (ge : List Nat) (gv : List Bool) (i : Nat) :
    numSpecCount vars n (unweight s) ge gv i
      = (((s.filter fun r =>
          specMemAll (vars ++ [numVar n]) r.ans (ge ++ [i]) (gv ++ [false])).length : Nat) : Rat) :=
  specCount_unweight _ s _ _

/-! ### numeric measures (no array) with valid counts over categorical / MR dimensions -/

/-- 2-D: with valid counts, the count of cell (i, j) is the respondents in row i AND column j
    that have a value -/
theorem numeric_valid_counts_respondents_2d (R C : Var) (hR : R.CM) (hC : C.CM) (s : Survey)
    (i j : Nat) (hi : i < R.ext) (hj : j < C.ext) :
    ((NDesign.mk [R, C] none).sliceCounts (validCountsScalar [R, C] s) 0).counts i j
      = .fin (numSpecCount [R, C] 1 s [i, j] [false, false] 0) := by
  rw [numeric2d_counts R C hR hC]
  have h := C01.counts_faithful_3d R C (numVar 1) hR hC (numVar_CM 1) s i j 0 hi hj
    (by rw [numVar_ext]; exact Nat.one_pos)
  rw [slice3d_counts_raw R C (numVar 1) hR hC (numVar_CM 1), numVar_msub 1 0 Nat.one_pos] at h
  simp only [validCountsScalar]
  exact h

/-- … and the row base of cell (i, j) is the respondents in row i with a VALID answer on the
    column dimension that have a value -/
theorem numeric_valid_rowBase_respondents_2d (R C : Var) (hR : R.CM) (hC : C.CM) (s : Survey)
    (i j : Nat) (hi : i < R.ext) (hj : j < C.ext) :
    ((NDesign.mk [R, C] none).sliceCounts (validCountsScalar [R, C] s) 0).rowBases i j
      = .fin (numSpecCount [R, C] 1 s [i, j] [false, true] 0) := by
  rw [numeric2d_rowBases R C hR hC]
  have h := colBase_spec_3d R C (numVar 1) hR hC (numVar_CM 1) s i j 0 hi hj
    (by rw [numVar_ext]; exact Nat.one_pos)
  rw [slice3d_columnBases_raw R C (numVar 1) hR hC (numVar_CM 1), numVar_msub 1 0 Nat.one_pos] at h
  simp only [validCountsScalar, List.append_assoc]
  simp only [List.append_assoc] at h
  exact h

/-- 1-D strand -/
theorem numeric_valid_counts_respondents_1d (V : Var) (hV : V.CM) (s : Survey) (i : Nat)
    (hi : i < V.ext) :
    ((NDesign.mk [V] none).strandCounts (validCountsScalar [V] s)).counts i
      = .fin (numSpecCount [V] 1 s [i] [false] 0) := by
  rw [numeric1d_counts V hV]
  have := raw_counts V (numVar 1) hV (numVar_CM 1) s i 0 hi (by rw [numVar_ext]; exact Nat.one_pos)
  rw [numVar_msub 1 0 Nat.one_pos] at this
  simp only [validCountsScalar, List.cons_append, List.nil_append]
  exact this

/-! ### `Cube.valid_counts_summary_range` (= `CubeSet.valid_counts_summary_range`)

  `a.uvalid` is the unweighted valid-count array: instantiate `s := unweight s` to count respondents
  (`valid_counts_unweighted_count_respondents`). -/

/-- None without a `valid_count_unweighted` measure (absent, empty, or not reshapeable) -/
theorem valid_counts_summary_range_none (d : NDesign) (a : RawArrays) (h : a.uvalid = none) :
    d.validCountsSummaryRange a = none := by
  simp [NDesign.validCountsSummaryRange, h]

/-- numeric array × categorical variable: [min, max] over the items of the number of respondents
    that have a value on the item and a VALID category on the grouping variable -/
theorem valid_counts_summary_range_respondents (C : Var) (hC : C.kind = .cat) (hne : 0 < C.ext)
    (n : Nat) (s : Survey) (a : RawArrays) (ha : a.uvalid = some (validCountsOf [C] n s)) :
    (NDesign.mk [C] (some n)).validCountsSummaryRange a = summarySpecRange [C] (some n) s := by
  have hcells : sumAxes ((NDesign.mk [C] (some n)).view (validCountsOf [C] n s))
      (NDesign.mk [C] (some n)).summaryMask = (summarySpecCells [C] (some n) s).map Val.fin := by
    rw [summary_cells_numarr_cat C hC, spec_cells_numarr_cat C hC, List.map_map]
    apply List.map_congr_left
    intro i hi
    have hi' := List.mem_range.mp hi
    rw [range_getD_lt n i hi']
    exact validCounts2d_rowBase C (Or.inl hC) n s i 0 hi' hne
  simp only [NDesign.validCountsSummaryRange, ha, summarySpecRange, hcells]

/-- numeric array alone: [min, max] over the items of the respondents with a value on the item -/
theorem valid_counts_summary_range_respondents_strand (n : Nat) (s : Survey) (a : RawArrays)
    (ha : a.uvalid = some (validCountsOf [] n s)) :
    (NDesign.mk [] (some n)).validCountsSummaryRange a = summarySpecRange [] (some n) s := by
  have hcells : sumAxes ((NDesign.mk [] (some n)).view (validCountsOf [] n s))
      (NDesign.mk [] (some n)).summaryMask = (summarySpecCells [] (some n) s).map Val.fin := by
    rw [summary_cells_numarr_alone, spec_cells_numarr_alone, List.map_map]
    apply List.map_congr_left
    intro i hi
    have hi' := List.mem_range.mp hi
    rw [range_getD_lt n i hi', validCounts1d_cell n s i hi', Val.sum_single_fin]
    rfl
  simp only [NDesign.validCountsSummaryRange, ha, summarySpecRange, hcells]

/-- numeric measure over one categorical variable (no array dimension): a single number, the
    respondents with a value and a valid category -/
theorem valid_counts_summary_range_respondents_scalar (V : Var) (hV : V.kind = .cat)
    (hne : 0 < V.ext) (s : Survey) (a : RawArrays)
    (ha : a.uvalid = some (validCountsScalar [V] s)) :
    (NDesign.mk [V] none).validCountsSummaryRange a = summarySpecRange [V] none s ∧
    summarySpecCells [V] none s = [numSpecCount [V] 1 s [0] [true] 0] := by
  refine ⟨?_, spec_cells_scalar_cat V hV s⟩
  have hcells : sumAxes ((NDesign.mk [V] none).view (validCountsScalar [V] s))
      (NDesign.mk [V] none).summaryMask = (summarySpecCells [V] none s).map Val.fin := by
    rw [summary_cells_scalar_cat V hV, spec_cells_scalar_cat V hV]
    have h := raw_colBases V (numVar 1) (Or.inl hV) (numVar_CM 1) s 0 0 hne
      (by rw [numVar_ext]; exact Nat.one_pos)
    rw [numVar_msub 1 0 Nat.one_pos] at h
    simp only [validCountsScalar, List.map_cons, List.map_nil]
    congr 1
  simp only [NDesign.validCountsSummaryRange, ha, summarySpecRange, hcells]

/-- With a multiple-response dimension the code (pinned by the test-suite) does NOT give the
    respondent-level range: the apparent-dimension positions are used as axes of the all-dimension
    array, so the selection axis is never summed.  One MR item, three respondents with a value
    (two selected it, one did not): every one of them is valid on the item → respondent level
    [3, 3]; the code reports [1, 2]. -/
theorem valid_counts_summary_range_mr_counterexample :
    let M : Var := ⟨.arr, 1, [false, false, true], true⟩
    let s : Survey := [⟨1, [[0], [0]]⟩, ⟨1, [[0], [0]]⟩, ⟨1, [[1], [0]]⟩]
    let a : RawArrays := ⟨none, none, some (validCountsScalar [M] s), none, none, none, none, none⟩
    (NDesign.mk [M] none).validCountsSummaryRange a = some (.fin 1, .fin 2) ∧
    summarySpecRange [M] none s = some (.fin 3, .fin 3) := by decide +kernel

/-! ### non-vacuity and worked instances (tests, not the claims) -/

example : (numVar 3).CM ∧ (1 : Nat) < (numVar 3).ext := ⟨numVar_CM 3, by decide⟩

-- 3 respondents, numeric array of 2 items × CAT (3 categories, middle one missing); answers:
-- [category position], [presence per item].  Item 0 × valid column 1 (raw category 2): respondents
-- 1 and 3 are in that category, only respondent 1 has a value on item 0 → count 2 (its weight);
-- row base of item 0 = everybody valid on the column with a value on item 0 = 2 + 1/2
example :
    let C : Var := ⟨.cat, 3, [false, true, false], false⟩
    let s : Survey := [⟨2, [[2], [0, 1]]⟩, ⟨1/2, [[0], [0, 0]]⟩, ⟨3, [[2], [1, 0]]⟩, ⟨5, [[1], [0, 0]]⟩]
    let m := (NDesign.mk [C] (some 2)).sliceCounts (validCountsOf [C] 2 s) 0
    m.counts 0 1 = .fin 2 ∧ m.rowBases 0 1 = .fin (5/2) ∧ m.columnBases 0 1 = .fin 2 ∧
      m.counts 1 1 = .fin 3 := by decide +kernel

-- same survey: summary range over the two items = [5/2, 7/2] (respondent 4 answered a missing
-- category and is not counted), model and respondent-level spec agree
example :
    let C : Var := ⟨.cat, 3, [false, true, false], false⟩
    let s : Survey := [⟨2, [[2], [0, 1]]⟩, ⟨1/2, [[0], [0, 0]]⟩, ⟨3, [[2], [1, 0]]⟩, ⟨5, [[1], [0, 0]]⟩]
    let a : RawArrays := ⟨none, none, some (validCountsOf [C] 2 s), none, none, none, none, none⟩
    (NDesign.mk [C] (some 2)).validCountsSummaryRange a = some (.fin (5/2), .fin (7/2)) ∧
    summarySpecRange [C] (some 2) s = some (.fin (5/2), .fin (7/2)) ∧ 0 < C.ext := by
  decide +kernel

end CrCube.C02
