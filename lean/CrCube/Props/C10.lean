/-
  C10 — Transposing the response transposes the result.
  Property theorems only: the primitives from which every cell-wise measure is computed
  (counts and the three bases) and the proportions, for every CAT/MR pairing.
-/
import CrCube.Props.C03
import CrCube.Lemmas.Swap

set_option linter.unusedSimpArgs false

namespace CrCube.C10
open CrCube

section
variable (R C : Var) (hR : R.CM) (hC : C.CM) (s : Survey) (i j : Nat) (hi : i < R.ext) (hj : j < C.ext)
include hR hC hi hj

/-- counts are each other's transposes -/
theorem counts_transpose :
    (sliceCounts [C, R] (cubeOf [C, R] (swapS s)) 0).counts j i
      = (sliceCounts [R, C] (cubeOf [R, C] s) 0).counts i j := by
  rw [C01.counts_faithful_2d C R hC hR _ j i hj hi, C01.counts_faithful_2d R C hR hC s i j hi hj,
    specCount_swap R C hR hC]

/-- the row bases of the transpose are the column bases of the original, transposed -/
theorem rowBases_transpose :
    (sliceCounts [C, R] (cubeOf [C, R] (swapS s)) 0).rowBases j i
      = (sliceCounts [R, C] (cubeOf [R, C] s) 0).columnBases i j := by
  rw [C02.rowBase_spec_2d C R hC hR _ j i hj hi, C02.colBase_spec_2d R C hR hC s i j hi hj,
    specCount_swap R C hR hC]

theorem columnBases_transpose :
    (sliceCounts [C, R] (cubeOf [C, R] (swapS s)) 0).columnBases j i
      = (sliceCounts [R, C] (cubeOf [R, C] s) 0).rowBases i j := by
  rw [C02.colBase_spec_2d C R hC hR _ j i hj hi, C02.rowBase_spec_2d R C hR hC s i j hi hj,
    specCount_swap R C hR hC]

/-- table bases (direction-free) are transposes -/
theorem tableBases_transpose :
    (sliceCounts [C, R] (cubeOf [C, R] (swapS s)) 0).tableBases j i
      = (sliceCounts [R, C] (cubeOf [R, C] s) 0).tableBases i j := by
  rw [C02.tableBase_spec_2d C R hC hR _ j i hj hi, C02.tableBase_spec_2d R C hR hC s i j hi hj,
    specCount_swap R C hR hC]

/-- row proportions of the transpose = column proportions of the original (and vice versa),
    table proportions are transposes -/
theorem rowProportions_transpose :
    (sliceCounts [C, R] (cubeOf [C, R] (swapS s)) 0).rowProportions j i
      = (sliceCounts [R, C] (cubeOf [R, C] s) 0).columnProportions i j := by
  unfold MatCounts.rowProportions MatCounts.columnProportions
  rw [counts_transpose R C hR hC s i j hi hj, rowBases_transpose R C hR hC s i j hi hj]

theorem columnProportions_transpose :
    (sliceCounts [C, R] (cubeOf [C, R] (swapS s)) 0).columnProportions j i
      = (sliceCounts [R, C] (cubeOf [R, C] s) 0).rowProportions i j := by
  unfold MatCounts.rowProportions MatCounts.columnProportions
  rw [counts_transpose R C hR hC s i j hi hj, columnBases_transpose R C hR hC s i j hi hj]

theorem tableProportions_transpose :
    (sliceCounts [C, R] (cubeOf [C, R] (swapS s)) 0).tableProportions j i
      = (sliceCounts [R, C] (cubeOf [R, C] s) 0).tableProportions i j := by
  unfold MatCounts.tableProportions
  rw [counts_transpose R C hR hC s i j hi hj, tableBases_transpose R C hR hC s i j hi hj]

end

/-- the extents swap -/
theorem shape_transpose (R C : Var) (hR : R.CM) (hC : C.CM) (raw raw' : FT) :
    (sliceCounts [C, R] raw' 0).nrows = (sliceCounts [R, C] raw 0).ncols ∧
    (sliceCounts [C, R] raw' 0).ncols = (sliceCounts [R, C] raw 0).nrows := by
  rw [slice2d_nrows C R hC hR, slice2d_ncols C R hC hR, slice2d_nrows R C hR hC, slice2d_ncols R C hR hC]
  exact ⟨rfl, rfl⟩

end CrCube.C10
