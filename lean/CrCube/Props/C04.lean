import CrCube.Model.Subtotals
import CrCube.Model.SubtotalMeasures
import CrCube.Spec.SubtotalSpec
namespace CrCube.C04
end CrCube.C04
