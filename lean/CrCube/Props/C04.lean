/-
  C04 — subtotals behave as merged categories; differences as signed merges.

  Model: Model/Subtotals.lean (gauntlet, id → idx resolution, the block constructors of
  matrix/subtotals.py and stripe/insertion.py), Model/SubtotalMeasures.lean (counts, bases,
  proportions, NaN measures).  Spec: Spec/SubtotalSpec.lean (signed merge by ids, merged table).

  Everything is stated for ALL values (NaN, ±∞ included) and all sizes unless a hypothesis says
  otherwise.  `WaveDiff.multi` is the predicate AFTER fix F1; the unfixed predicate is refuted
  in `wave_diff_multi_legacy_counterexample`.  Finding F12 (intersections of proportions bypass
  the wave-difference rule) is `merge_equiv_proportions_catdate_counterexample`.
-/
import CrCube.Model.Subtotals
import CrCube.Model.SubtotalMeasures
import CrCube.Spec.SubtotalSpec
import CrCube.Spec.Survey
import CrCube.Lemmas.ValAlgebra
import CrCube.Lemmas.SubtotalFacts
import CrCube.Lemmas.Wsum
import CrCube.Lemmas.MergeFacts
import CrCube.Lemmas.MergePrims
import CrCube.Lemmas.MergeFacts3

namespace CrCube.C04
open CrCube SubSpec

/-! ## 1. the count of a subtotal is the signed merge of the listed, existing elements -/

/-- an insertion none of whose ids exists never becomes a subtotal -/
theorem gauntlet_drops_stale (validIds : List Int) (i : Insertion)
    (h : ∀ x ∈ i.positive ++ i.negative, x ∉ validIds) : i.passes validIds = false := by
  unfold Insertion.passes
  have : (i.positive ++ i.negative).any (fun x => validIds.contains x) = false := by
    rw [List.any_eq_false]
    intro x hx
    simp only [List.contains_iff_mem]
    exact h x hx
  rw [this, Bool.and_false]

/-- insertions defined in the analysis transforms (the key is present, even with an empty
    list) replace the view-level ones entirely; array dimensions never carry subtotals -/
theorem transform_replaces_view (validIds : List Int) (t view : List Insertion) :
    dimensionSubtotals false validIds (some t) view = resolveSubtotals validIds t
      ∧ dimensionSubtotals false validIds none view = resolveSubtotals validIds view
      ∧ dimensionSubtotals true validIds (some t) view = []
      ∧ dimensionSubtotals true validIds none view = [] := ⟨rfl, rfl, rfl, rfl⟩

/-- **subtotal_count** (rows): the inserted row of `SumSubtotals` is Σ addends − Σ subtrahends,
    taken over the existing elements whose id is listed (Spec `signedMerge`). -/
theorem subtotal_count (b : Nat → Nat → Val) (validIds : List Int) (i : Insertion) (j : Nat) :
    SumSub.row b false (i.toSubtotal validIds) j
      = signedMerge validIds i.positive i.negative (fun a => b a j) := by
  unfold SumSub.row signedMerge Insertion.toSubtotal
  simp only [Bool.false_and, Bool.false_eq_true, if_false, idxsOfIds_keepValidIds, sumAt_idxsOfIds]

/-- **subtotal_count** (columns) -/
theorem subtotal_count_col (b : Nat → Nat → Val) (validIds : List Int) (i : Insertion) (r : Nat) :
    SumSub.col b false (i.toSubtotal validIds) r
      = signedMerge validIds i.positive i.negative (fun a => b r a) := by
  unfold SumSub.col signedMerge Insertion.toSubtotal
  simp only [Bool.false_and, Bool.false_eq_true, if_false, idxsOfIds_keepValidIds, sumAt_idxsOfIds]

/-- **subtotal_count** on the counts measure of a slice: inserted row `k` is the signed merge of
    the k-th surviving insertion (responses without valid counts) -/
theorem subtotal_count_block (m : MatCounts) (validIds : List Int) (ins : List Insertion)
    (colSubs : List Subtotal) (rcd ccd : Bool) (k j : Nat) (hk : k < (live validIds ins).length) :
    (Msr.counts m false ⟨resolveSubtotals validIds ins, colSubs, rcd, ccd⟩).insRows k j
      = signedMerge validIds ((live validIds ins)[k]).positive ((live validIds ins)[k]).negative
          (fun a => m.counts a j) := by
  simp only [Msr.counts, SumSub.blocks]
  rw [resolve_subAt validIds ins k hk, subtotal_count]

/-- stripe twin -/
theorem subtotal_count_strand (v : Nat → Val) (validIds : List Int) (i : Insertion) :
    Stripe.sumVal v (i.toSubtotal validIds) = signedMerge validIds i.positive i.negative v := by
  unfold Stripe.sumVal signedMerge Insertion.toSubtotal
  simp only [idxsOfIds_keepValidIds, sumAt_idxsOfIds]

/-- the listed ids matter only through WHICH existing elements they name: stale ids, missing
    ids, repetitions and the order of the list are irrelevant -/
theorem sumListed_congr (validIds ids ids' : List Int) (v : Nat → Val)
    (h : ∀ x ∈ validIds, (x ∈ ids ↔ x ∈ ids')) :
    sumListed validIds ids v = sumListed validIds ids' v := by
  unfold sumListed vsum
  congr 1
  apply List.map_congr_left
  intro k hk
  have hm := getD_mem_of_lt validIds k (List.mem_range.mp hk)
  have : ids.contains (validIds.getD k 0) = ids'.contains (validIds.getD k 0) := by
    rw [Bool.eq_iff_iff]; simp only [List.contains_iff_mem]; exact h _ hm
  rw [this]

/-- a stale id contributes nothing -/
theorem sumListed_stale (validIds ids : List Int) (x : Int) (hx : x ∉ validIds) (v : Nat → Val) :
    sumListed validIds (x :: ids) v = sumListed validIds ids v := by
  apply sumListed_congr
  intro y hy
  have : y ≠ x := fun h => hx (h ▸ hy)
  simp [this]

/-- a repeated id counts once -/
theorem sumListed_dup (validIds ids : List Int) (x : Int) (hx : x ∈ ids) (v : Nat → Val) :
    sumListed validIds (x :: ids) v = sumListed validIds ids v := by
  apply sumListed_congr
  intro y _
  constructor
  · intro h; rcases List.mem_cons.mp h with rfl | h
    · exact hx
    · exact h
  · intro h; exact List.mem_cons_of_mem _ h

/-- for distinct existing ids the listed sum is literally "the sum of the addends' values" -/
theorem sumListed_eq_sum_ids (validIds ids : List Int) (v : Nat → Val)
    (hv : validIds.Nodup) (hi : ids.Nodup) (hsub : ∀ x ∈ ids, x ∈ validIds) :
    sumListed validIds ids v = Val.sum (ids.map (fun x => v (validIds.idxOf x))) := by
  rw [← sumAt_idxsOfIds]
  have hperm : (idxsOfIds validIds ids).Perm (ids.map (fun x => validIds.idxOf x)) := by
    rw [List.perm_ext_iff_of_nodup (idxsOfIds_nodup _ _)]
    · intro k
      rw [mem_idxsOfIds, List.mem_map]
      constructor
      · rintro ⟨hlt, hmem⟩
        refine ⟨_, hmem, ?_⟩
        rw [getD_of_lt _ _ _ hlt]
        exact List.Nodup.idxOf_getElem hv k hlt
      · rintro ⟨x, hx, rfl⟩
        have hlt : validIds.idxOf x < validIds.length := List.idxOf_lt_length_iff.mpr (hsub x hx)
        refine ⟨hlt, ?_⟩
        rw [getD_of_lt _ _ _ hlt, List.getElem_idxOf]
        exact hx
    · apply List.Nodup.map_on _ hi
      intro x hx y hy hxy
      have := congrArg (fun k => validIds.getD k 0) hxy
      beta_reduce at this
      rw [getD_of_lt _ _ _ (List.idxOf_lt_length_iff.mpr (hsub x hx)),
          getD_of_lt _ _ _ (List.idxOf_lt_length_iff.mpr (hsub y hy)),
          List.getElem_idxOf, List.getElem_idxOf] at this
      exact this
  unfold sumAt
  rw [Val.sum_perm (hperm.map v), List.map_map]
  rfl

/-! ## 2. an intersection is the same whichever direction it is accumulated in -/

/-- **intersection_symmetric**: rows-then-columns = columns-then-rows, for every base matrix
    (NaN and infinities included), every pair of subtotals and every setting of the NaN flags -/
theorem intersection_symmetric (b : Nat → Nat → Val) (dcn drn : Bool) (rs cs : Subtotal) :
    SumSub.inter b dcn drn rs cs = SumSub.interColsFirst b dcn drn rs cs := by
  unfold SumSub.inter SumSub.interColsFirst
  by_cases hc : ((cs.isDiff && rs.isDiff) || (cs.isDiff && dcn) || (rs.isDiff && drn)) = true
  · simp [hc]
  · simp only [hc, if_false]
    have hr : (drn && rs.isDiff) = false := by
      cases hd : drn <;> cases hs : rs.isDiff <;> simp_all
    have hcc : (dcn && cs.isDiff) = false := by
      cases hd : dcn <;> cases hs : cs.isDiff <;> simp_all
    have hrow : SumSub.row b drn rs
        = fun j => sumAt rs.addendIdxs (fun i => b i j) - sumAt rs.subtrahendIdxs (fun i => b i j) := by
      funext j; simp [SumSub.row, hr]
    have hcol : SumSub.col b dcn cs
        = fun i => sumAt cs.addendIdxs (fun j => b i j) - sumAt cs.subtrahendIdxs (fun j => b i j) := by
      funext i; simp [SumSub.col, hcc]
    rw [hrow, hcol]
    simp only [sumAt_sub]
    rw [sumAt_comm cs.addendIdxs rs.addendIdxs, sumAt_comm cs.addendIdxs rs.subtrahendIdxs,
        sumAt_comm cs.subtrahendIdxs rs.addendIdxs, sumAt_comm cs.subtrahendIdxs rs.subtrahendIdxs]
    simp only [Val.sub_def, Val.neg_add', Val.neg_neg']
    ac_rfl

/-- the same statement by ids: merging the rows' signed merge over the columns equals merging
    the columns' signed merge over the rows -/
theorem signedMerge_symmetric (b : Nat → Nat → Val) (rIds cIds rp rn cp cn : List Int) :
    signedMerge cIds cp cn (fun j => signedMerge rIds rp rn (fun i => b i j))
      = signedMerge rIds rp rn (fun i => signedMerge cIds cp cn (fun j => b i j)) := by
  unfold signedMerge
  simp only [← sumAt_idxsOfIds, sumAt_sub]
  rw [sumAt_comm (idxsOfIds cIds cp) (idxsOfIds rIds rp), sumAt_comm (idxsOfIds cIds cp) (idxsOfIds rIds rn),
      sumAt_comm (idxsOfIds cIds cn) (idxsOfIds rIds rp), sumAt_comm (idxsOfIds cIds cn) (idxsOfIds rIds rn)]
  simp only [Val.sub_def, Val.neg_add', Val.neg_neg']
  ac_rfl

/-! ## 3. measures that cannot be added are NaN for every subtotal -/

/-- **nan_measures**: mean, median, standard deviation, column index (all built with
    `NanSubtotals`) are NaN in every inserted cell; the body is untouched -/
theorem nan_measures (v : Nat → Nat → Val) (nr nc : Nat) (x : SubCtx) (i j k l : Nat) :
    (Msr.nanMeasure v nr nc x).insRows k j = .nan ∧ (Msr.nanMeasure v nr nc x).insCols i l = .nan
      ∧ (Msr.nanMeasure v nr nc x).inter k l = .nan ∧ (Msr.nanMeasure v nr nc x).body i j = v i j :=
  ⟨rfl, rfl, rfl, rfl⟩

theorem nan_measures_strand (v : Nat → Val) (n : Nat) (subs : List Subtotal) (i k : Nat) :
    (StripeMsr.nanMeasure v n subs).subs k = .nan ∧ (StripeMsr.nanMeasure v n subs).base i = v i :=
  ⟨rfl, rfl⟩

/-! ## 4. differences -/

section differences
variable (m : MatCounts) (dn : Bool) (x : SubCtx)

/-- **difference_rules** (a): the own-direction base of a difference is NaN (weighted and
    unweighted), in the inserted row/column and in every intersection -/
theorem diff_row_base_nan (k j l : Nat) (hd : (subAt x.rowSubs k).isDiff = true) :
    (Msr.rowWeightedBases m x).insRows k j = .nan ∧ (Msr.rowWeightedBases m x).inter k l = .nan
      ∧ (Msr.rowUnweightedBases m x).insRows k j = .nan ∧ (Msr.rowUnweightedBases m x).inter k l = .nan := by
  simp [Msr.rowWeightedBases, Msr.rowUnweightedBases, SumSub.row, hd]

theorem diff_col_base_nan (i k l : Nat) (hd : (subAt x.colSubs l).isDiff = true) :
    (Msr.columnWeightedBases m x).insCols i l = .nan ∧ (Msr.columnWeightedBases m x).inter k l = .nan
      ∧ (Msr.columnUnweightedBases m x).insCols i l = .nan ∧ (Msr.columnUnweightedBases m x).inter k l = .nan := by
  simp [Msr.columnWeightedBases, Msr.columnUnweightedBases, SumSub.col, hd]

/-- **difference_rules** (b): the own-direction proportion of a difference is NaN, unless the
    dimension is a categorical date (inserted row/column), and always in an intersection -/
theorem diff_row_proportion_nan (k j l : Nat) (hd : (subAt x.rowSubs k).isDiff = true) :
    (x.rowsCatDate = false → (Msr.rowProportions m dn x).insRows k j = .nan)
      ∧ (Msr.rowProportions m dn x).inter k l = .nan := by
  constructor
  · intro hcd
    simp [Msr.rowProportions, WaveDiff.row, hcd, Msr.rowWeightedBases, SumSub.row, hd]
  · simp [Msr.rowProportions, Blocks.zipWith, Msr.rowWeightedBases, SumSub.row, hd]

theorem diff_col_proportion_nan (i k l : Nat) (hd : (subAt x.colSubs l).isDiff = true) :
    (x.colsCatDate = false → (Msr.columnProportions m dn x).insCols i l = .nan)
      ∧ (Msr.columnProportions m dn x).inter k l = .nan := by
  constructor
  · intro hcd
    simp [Msr.columnProportions, WaveDiff.col, hcd, Msr.columnWeightedBases, SumSub.col, hd]
  · simp [Msr.columnProportions, Blocks.zipWith, Msr.columnWeightedBases, SumSub.col, hd]

/-- **difference_rules** (c): the intersection of two differences is NaN: the count, and with
    it every proportion -/
theorem diff_x_diff_nan (k l : Nat) (hr : (subAt x.rowSubs k).isDiff = true)
    (hc : (subAt x.colSubs l).isDiff = true) :
    (Msr.counts m dn x).inter k l = .nan ∧ (Msr.rowProportions m dn x).inter k l = .nan
      ∧ (Msr.columnProportions m dn x).inter k l = .nan ∧ (Msr.tableProportions m dn x).inter k l = .nan := by
  simp [Msr.counts, SumSub.blocks, SumSub.inter, hr, hc, Msr.rowProportions, Msr.columnProportions,
    Msr.tableProportions, Blocks.zipWith]

/-- **difference_rules** (d): in a response that carries valid counts (`diff_nans`) the count
    of a difference is NaN in its inserted row / column and in every intersection -/
theorem valid_counts_diff_nan (i j k l : Nat) :
    ((subAt x.rowSubs k).isDiff = true →
        (Msr.counts m true x).insRows k j = .nan ∧ (Msr.counts m true x).inter k l = .nan)
    ∧ ((subAt x.colSubs l).isDiff = true →
        (Msr.counts m true x).insCols i l = .nan ∧ (Msr.counts m true x).inter k l = .nan) := by
  constructor
  · intro hd
    simp [Msr.counts, SumSub.blocks, SumSub.row, SumSub.inter, hd]
  · intro hd
    simp [Msr.counts, SumSub.blocks, SumSub.col, SumSub.inter, hd]

/-- without valid counts a difference's count is the signed sum (not NaN by fiat) -/
theorem diff_count_signed (k j : Nat) :
    (Msr.counts m false x).insRows k j
      = sumAt (subAt x.rowSubs k).addendIdxs (fun i => m.counts i j)
        - sumAt (subAt x.rowSubs k).subtrahendIdxs (fun i => m.counts i j) := by
  simp [Msr.counts, SumSub.blocks, SumSub.row]

/-! ### categorical-date dimensions: the wave difference -/

/-- **wave_diff** (rows): on a categorical-date rows dimension a one-minus-one difference
    `+a −s` reports the difference of the two percentages, for the row AND the column
    proportions (each with its own base) -/
theorem wave_diff_rows (k j a s : Nat) (hcd : x.rowsCatDate = true)
    (hs : subAt x.rowSubs k = ⟨[a], [s]⟩) :
    (Msr.rowProportions m dn x).insRows k j
        = pctDiff (m.counts a j) (m.rowBases a j) (m.counts s j) (m.rowBases s j)
      ∧ (Msr.columnProportions m dn x).insRows k j
        = pctDiff (m.counts a j) (m.columnBases a j) (m.counts s j) (m.columnBases s j) := by
  simp [Msr.rowProportions, Msr.columnProportions, WaveDiff.row, hcd, hs, Subtotal.isDiff, WaveDiff.multi,
    WaveDiff.pctDiff, pctDiff]

theorem wave_diff_cols (i l a s : Nat) (hcd : x.colsCatDate = true)
    (hs : subAt x.colSubs l = ⟨[a], [s]⟩) :
    (Msr.rowProportions m dn x).insCols i l
        = pctDiff (m.counts i a) (m.rowBases i a) (m.counts i s) (m.rowBases i s)
      ∧ (Msr.columnProportions m dn x).insCols i l
        = pctDiff (m.counts i a) (m.columnBases i a) (m.counts i s) (m.columnBases i s) := by
  simp [Msr.rowProportions, Msr.columnProportions, WaveDiff.col, hcd, hs, Subtotal.isDiff, WaveDiff.multi,
    WaveDiff.pctDiff, pctDiff]

/-- the two percentages are the proportions the body shows for the two elements -/
theorem wave_diff_rows_body (k j a s : Nat) (hcd : x.rowsCatDate = true)
    (hs : subAt x.rowSubs k = ⟨[a], [s]⟩) :
    (Msr.rowProportions m dn x).insRows k j
      = (Msr.rowProportions m dn x).body a j - (Msr.rowProportions m dn x).body s j := by
  rw [(wave_diff_rows m dn x k j a s hcd hs).1]
  simp [Msr.rowProportions, Blocks.zipWith, Msr.counts, SumSub.blocks, Msr.rowWeightedBases, pctDiff]

/-- **wave_diff_multi** (rows): a difference with several terms on either side is NaN in the
    row and in the column proportions -/
theorem wave_diff_multi_rows (k j : Nat) (hcd : x.rowsCatDate = true)
    (hd : (subAt x.rowSubs k).isDiff = true)
    (hm : (subAt x.rowSubs k).subtrahendIdxs.length > 1 ∨ (subAt x.rowSubs k).addendIdxs.length > 1) :
    (Msr.rowProportions m dn x).insRows k j = .nan ∧ (Msr.columnProportions m dn x).insRows k j = .nan := by
  have hmulti : WaveDiff.multi (subAt x.rowSubs k) = true := by
    unfold WaveDiff.multi
    rcases hm with h | h <;> simp [hd, h]
  simp [Msr.rowProportions, Msr.columnProportions, WaveDiff.row, hcd, hd, hmulti]

theorem wave_diff_multi_cols (i l : Nat) (hcd : x.colsCatDate = true)
    (hd : (subAt x.colSubs l).isDiff = true)
    (hm : (subAt x.colSubs l).subtrahendIdxs.length > 1 ∨ (subAt x.colSubs l).addendIdxs.length > 1) :
    (Msr.rowProportions m dn x).insCols i l = .nan ∧ (Msr.columnProportions m dn x).insCols i l = .nan := by
  have hmulti : WaveDiff.multi (subAt x.colSubs l) = true := by
    unfold WaveDiff.multi
    rcases hm with h | h <;> simp [hd, h]
  simp [Msr.rowProportions, Msr.columnProportions, WaveDiff.col, hcd, hd, hmulti]

end differences

/-- strand: one-minus-one and multi-term differences of a categorical-date stripe -/
theorem wave_diff_strand (c : StripeCounts) (t : Val) (ht : c.tableBase = some t) (subs : List Subtotal)
    (k a s : Nat) (hs : subAt subs k = ⟨[a], [s]⟩) :
    (StripeMsr.tableProportions c true subs).subs k
      = pctDiff (c.counts a) (c.bases a) (c.counts s) (c.bases s) := by
  simp [StripeMsr.tableProportions, ht, Stripe.waveVal, hs, Subtotal.isDiff, WaveDiff.multi,
    WaveDiff.pctDiff, pctDiff]

theorem wave_diff_multi_strand (c : StripeCounts) (t : Val) (ht : c.tableBase = some t)
    (subs : List Subtotal) (k : Nat) (hd : (subAt subs k).isDiff = true)
    (ha : (subAt subs k).addendIdxs ≠ [])
    (hm : (subAt subs k).subtrahendIdxs.length > 1 ∨ (subAt subs k).addendIdxs.length > 1) :
    (StripeMsr.tableProportions c true subs).subs k = .nan := by
  have hmulti : WaveDiff.multi (subAt subs k) = true := by
    unfold WaveDiff.multi
    rcases hm with h | h <;> simp [hd, h]
  simp [StripeMsr.tableProportions, ht, Stripe.waveVal, hd, ha, hmulti]

/-- the predicate of the UNFIXED tree (`any(subtrahend_idxs)`) misses the multi-term difference
    whose only subtrahend is the first element (finding F1) -/
theorem wave_diff_multi_legacy_counterexample :
    WaveDiff.multi ⟨[1, 2], [0]⟩ = true ∧ WaveDiff.multiLegacy ⟨[1, 2], [0]⟩ = false := by
  decide

/-- …and agrees with the fixed predicate as soon as some subtrahend index is non-zero -/
theorem multiLegacy_eq_multi (s : Subtotal) (h : ∃ i ∈ s.subtrahendIdxs, i ≠ 0) :
    WaveDiff.multiLegacy s = WaveDiff.multi s := by
  obtain ⟨i, hi, hne⟩ := h
  have h1 : s.subtrahendIdxs.any (fun i => i != 0) = true := by
    rw [List.any_eq_true]; exact ⟨i, hi, by simpa using hne⟩
  have h2 : s.isDiff = true := by
    unfold Subtotal.isDiff
    cases hs : s.subtrahendIdxs with
    | nil => rw [hs] at hi; cases hi
    | cons _ _ => rfl
  simp [WaveDiff.multiLegacy, WaveDiff.multi, h1, h2]

/-! ## 5. a subtotal without subtrahends is the merged category

  `mergeAxis c ax A` is the table of the data set in which the categories at positions `A` of
  axis `ax` have been merged into one category (Spec).  For a CAT × CAT slice (`catXcat`) and a
  subtotal `⟨A, []⟩` the six primitives every additive measure is made of — count, row base,
  column base, table base, positive-term count, negative-term count — are, in the inserted
  row / column / intersection, those of the merged category in the merged table.  Every
  measure that is a cell-wise function of these primitives therefore agrees (`cellwise`). -/

section merge
variable (c : FT) (nr nc : Nat) (hc : c.shape = [nr, nc]) (A : List Nat) (hn : A.Nodup)
include hc hn

/-- **merge_equiv** (rows, the six primitives) -/
theorem merge_equiv_rows (hlt : ∀ a ∈ A, a < nr) (dn : Bool) (x : SubCtx) (k j : Nat)
    (hS : subAt x.rowSubs k = ⟨A, []⟩) :
    primsInsRow (MatCounts.catXcat c) dn x k j
      = primsBody (MatCounts.catXcat (mergeAxis c 0 A)) (mergedPos nr A) j := by
  have hs0 := mergeAxis0_shape c nr nc A hc
  have d0 := dim0_of_shape c nr nc hc
  have d1 := dim1_of_shape c nr nc hc
  have e0 := dim0_of_shape (mergeAxis c 0 A) _ nc hs0
  have e1 := dim1_of_shape (mergeAxis c 0 A) _ nc hs0
  have hcount := mergeAxis0_get_merged c nr nc A hc
  unfold primsInsRow primsBody
  simp only [Msr.counts, Msr.rowWeightedBases, Msr.columnWeightedBases, Msr.tableBases, SumSub.blocks,
    PosSub.blocks, NegSub.blocks, SumSub.row, PosSub.row, NegSub.row, hS, Subtotal.isDiff,
    MatCounts.catXcat, d0, d1, e0, e1, hcount, List.isEmpty_nil, Bool.not_true, Bool.and_false,
    Bool.false_eq_true, if_false, sumAt_nil, Val.sub_fin0]
  congr 1
  · simp only [vsum_eq_sumAt]; exact sumAt_comm _ _ _
  · exact (colsum_mergeAxis0 c nr nc A hc hn hlt j).symm
  · exact (total_mergeAxis0 c nr nc A hc hn hlt).symm

/-- **merge_equiv** (columns, the six primitives) -/
theorem merge_equiv_cols (hlt : ∀ a ∈ A, a < nc) (dn : Bool) (x : SubCtx) (i l : Nat)
    (hS : subAt x.colSubs l = ⟨A, []⟩) :
    primsInsCol (MatCounts.catXcat c) dn x i l
      = primsBody (MatCounts.catXcat (mergeAxis c 1 A)) i (mergedPos nc A) := by
  have hs0 := mergeAxis1_shape c nr nc A hc
  have d0 := dim0_of_shape c nr nc hc
  have d1 := dim1_of_shape c nr nc hc
  have e0 := dim0_of_shape (mergeAxis c 1 A) nr _ hs0
  have e1 := dim1_of_shape (mergeAxis c 1 A) nr _ hs0
  have hcount := mergeAxis1_get_merged c nr nc A hc
  unfold primsInsCol primsBody
  simp only [Msr.counts, Msr.rowWeightedBases, Msr.columnWeightedBases, Msr.tableBases, SumSub.blocks,
    PosSub.blocks, NegSub.blocks, SumSub.col, PosSub.col, NegSub.col, hS, Subtotal.isDiff,
    MatCounts.catXcat, d0, d1, e0, e1, hcount, List.isEmpty_nil, Bool.not_true, Bool.and_false,
    Bool.false_eq_true, if_false, sumAt_nil, Val.sub_fin0]
  congr 1
  · exact (rowsum_mergeAxis1 c nr nc A hc hn hlt i).symm
  · simp only [vsum_eq_sumAt]; exact sumAt_comm _ _ _
  · exact (total_mergeAxis1 c nr nc A hc hn hlt).symm

/-- **cellwise**: any measure that is one function `g` of the six primitives of a cell has, at
    the subtotal, the value it has at the merged category of the merged table -/
theorem cellwise_rows {β : Type} (g : Prims → β) (hlt : ∀ a ∈ A, a < nr) (dn : Bool) (x : SubCtx)
    (k j : Nat) (hS : subAt x.rowSubs k = ⟨A, []⟩) :
    g (primsInsRow (MatCounts.catXcat c) dn x k j)
      = g (primsBody (MatCounts.catXcat (mergeAxis c 0 A)) (mergedPos nr A) j) := by
  rw [merge_equiv_rows c nr nc hc A hn hlt dn x k j hS]

theorem cellwise_cols {β : Type} (g : Prims → β) (hlt : ∀ a ∈ A, a < nc) (dn : Bool) (x : SubCtx)
    (i l : Nat) (hS : subAt x.colSubs l = ⟨A, []⟩) :
    g (primsInsCol (MatCounts.catXcat c) dn x i l)
      = g (primsBody (MatCounts.catXcat (mergeAxis c 1 A)) i (mergedPos nc A)) := by
  rw [merge_equiv_cols c nr nc hc A hn hlt dn x i l hS]

/-- **merge_equiv** for the three proportions of an inserted row (any dimension types: a
    subtotal without subtrahends never takes the wave-difference path) -/
theorem merge_equiv_proportions_rows (hlt : ∀ a ∈ A, a < nr) (dn : Bool) (x x' : SubCtx) (k j : Nat)
    (hS : subAt x.rowSubs k = ⟨A, []⟩) :
    let m := MatCounts.catXcat c
    let m' := MatCounts.catXcat (mergeAxis c 0 A)
    (Msr.rowProportions m dn x).insRows k j = (Msr.rowProportions m' dn x').body (mergedPos nr A) j
      ∧ (Msr.columnProportions m dn x).insRows k j = (Msr.columnProportions m' dn x').body (mergedPos nr A) j
      ∧ (Msr.tableProportions m dn x).insRows k j = (Msr.tableProportions m' dn x').body (mergedPos nr A) j := by
  have h := merge_equiv_rows c nr nc hc A hn hlt dn x k j hS
  have hcnt := congrArg Prims.count h
  have hrb := congrArg Prims.rowBase h
  have hcb := congrArg Prims.colBase h
  have htb := congrArg Prims.tableBase h
  simp only [primsInsRow, primsBody] at hcnt hrb hcb htb
  have hnd : (subAt x.rowSubs k).isDiff = false := by rw [hS]; rfl
  refine ⟨?_, ?_, ?_⟩
  · simp only [Msr.rowProportions, Blocks.zipWith, WaveDiff.row, hnd, Bool.and_false, Bool.false_eq_true,
      if_false, hcnt, hrb]
    simp [Msr.counts, SumSub.blocks, Msr.rowWeightedBases]
  · simp only [Msr.columnProportions, Blocks.zipWith, WaveDiff.row, hnd, Bool.and_false, Bool.false_eq_true,
      if_false, hcnt, hcb]
    simp [Msr.counts, SumSub.blocks, Msr.columnWeightedBases]
  · simp only [Msr.tableProportions, Blocks.zipWith, hcnt, htb]
    simp [Msr.counts, SumSub.blocks, Msr.tableBases]

theorem merge_equiv_proportions_cols (hlt : ∀ a ∈ A, a < nc) (dn : Bool) (x x' : SubCtx) (i l : Nat)
    (hS : subAt x.colSubs l = ⟨A, []⟩) :
    let m := MatCounts.catXcat c
    let m' := MatCounts.catXcat (mergeAxis c 1 A)
    (Msr.rowProportions m dn x).insCols i l = (Msr.rowProportions m' dn x').body i (mergedPos nc A)
      ∧ (Msr.columnProportions m dn x).insCols i l = (Msr.columnProportions m' dn x').body i (mergedPos nc A)
      ∧ (Msr.tableProportions m dn x).insCols i l = (Msr.tableProportions m' dn x').body i (mergedPos nc A) := by
  have h := merge_equiv_cols c nr nc hc A hn hlt dn x i l hS
  have hcnt := congrArg Prims.count h
  have hrb := congrArg Prims.rowBase h
  have hcb := congrArg Prims.colBase h
  have htb := congrArg Prims.tableBase h
  simp only [primsInsCol, primsBody] at hcnt hrb hcb htb
  have hnd : (subAt x.colSubs l).isDiff = false := by rw [hS]; rfl
  refine ⟨?_, ?_, ?_⟩
  · simp only [Msr.rowProportions, Blocks.zipWith, WaveDiff.col, hnd, Bool.and_false, Bool.false_eq_true,
      if_false, hcnt, hrb]
    simp [Msr.counts, SumSub.blocks, Msr.rowWeightedBases]
  · simp only [Msr.columnProportions, Blocks.zipWith, WaveDiff.col, hnd, Bool.and_false, Bool.false_eq_true,
      if_false, hcnt, hcb]
    simp [Msr.counts, SumSub.blocks, Msr.columnWeightedBases]
  · simp only [Msr.tableProportions, Blocks.zipWith, hcnt, htb]
    simp [Msr.counts, SumSub.blocks, Msr.tableBases]

end merge

/-- **merge_equiv** (rows of a CAT × MR slice, the six primitives): merging categories of the rows
    dimension when the columns are multiple-response items -/
theorem merge_equiv_rows_catXmr (c : FT) (nr nc np : Nat) (hc : c.shape = [nr, nc, np]) (A : List Nat)
    (hn : A.Nodup) (hlt : ∀ a ∈ A, a < nr) (dn : Bool) (x : SubCtx) (k j : Nat)
    (hS : subAt x.rowSubs k = ⟨A, []⟩) :
    primsInsRow (MatCounts.catXmr c) dn x k j
      = primsBody (MatCounts.catXmr (mergeAxis c 0 A)) (mergedPos nr A) j := by
  have hs0 := mergeAxis0_shape3 c nr nc np A hc
  obtain ⟨d0, d1, d2⟩ := dims_of_shape3 c nr nc np hc
  obtain ⟨e0, e1, e2⟩ := dims_of_shape3 (mergeAxis c 0 A) _ nc np hs0
  have hcount := mergeAxis0_get3_merged c nr nc np A hc
  unfold primsInsRow primsBody
  simp only [Msr.counts, Msr.rowWeightedBases, Msr.columnWeightedBases, Msr.tableBases, SumSub.blocks,
    PosSub.blocks, NegSub.blocks, SumSub.row, PosSub.row, NegSub.row, hS, Subtotal.isDiff,
    MatCounts.catXmr, d0, d1, d2, e0, e1, e2, hcount, List.isEmpty_nil, Bool.not_true, Bool.and_false,
    Bool.false_eq_true, if_false, sumAt_nil, Val.sub_fin0]
  congr 1
  · simp only [vsum_eq_sumAt]; exact sumAt_comm _ _ _
  · exact (sum_axis0_merged c nr nc np A hc hn hlt j 0).symm
  · exact (sum2_axis0_merged c nr nc np A hc hn hlt j).symm

/-- **merge_equiv** (columns of an MR × CAT slice, the six primitives) -/
theorem merge_equiv_cols_mrXcat (c : FT) (nr np nc : Nat) (hc : c.shape = [nr, np, nc]) (B : List Nat)
    (hn : B.Nodup) (hlt : ∀ a ∈ B, a < nc) (dn : Bool) (x : SubCtx) (i l : Nat)
    (hS : subAt x.colSubs l = ⟨B, []⟩) :
    primsInsCol (MatCounts.mrXcat c) dn x i l
      = primsBody (MatCounts.mrXcat (mergeAxis c 2 B)) i (mergedPos nc B) := by
  have hs0 := mergeAxis2_shape3 c nr np nc B hc
  obtain ⟨d0, d1, d2⟩ := dims_of_shape3 c nr np nc hc
  obtain ⟨e0, e1, e2⟩ := dims_of_shape3 (mergeAxis c 2 B) nr np _ hs0
  have hcount := mergeAxis2_get3_merged c nr np nc B hc
  unfold primsInsCol primsBody
  simp only [Msr.counts, Msr.rowWeightedBases, Msr.columnWeightedBases, Msr.tableBases, SumSub.blocks,
    PosSub.blocks, NegSub.blocks, SumSub.col, PosSub.col, NegSub.col, hS, Subtotal.isDiff,
    MatCounts.mrXcat, d0, d1, d2, e0, e1, e2, hcount, List.isEmpty_nil, Bool.not_true, Bool.and_false,
    Bool.false_eq_true, if_false, sumAt_nil, Val.sub_fin0]
  congr 1
  · exact (sum_axis2_merged c nr np nc B hc hn hlt i 0).symm
  · simp only [vsum_eq_sumAt]; exact sumAt_comm _ _ _
  · exact (sum2_axis2_merged c nr np nc B hc hn hlt i).symm

/-- **merge_equiv** (intersection count): a row subtotal × column subtotal cell (neither a
    difference) is the cell of the two merged categories in the twice-merged table -/
theorem merge_equiv_inter_count (c : FT) (nr nc : Nat) (hc : c.shape = [nr, nc]) (A B : List Nat)
    (dn : Bool) (x : SubCtx) (k l : Nat)
    (hR : subAt x.rowSubs k = ⟨A, []⟩) (hC : subAt x.colSubs l = ⟨B, []⟩) :
    (Msr.counts (MatCounts.catXcat c) dn x).inter k l
      = (MatCounts.catXcat (mergeAxis (mergeAxis c 0 A) 1 B)).counts (mergedPos nr A) (mergedPos nc B) := by
  have hs0 := mergeAxis0_shape c nr nc A hc
  simp only [Msr.counts, SumSub.blocks, SumSub.inter, SumSub.row, hR, hC, Subtotal.isDiff, MatCounts.catXcat,
    List.isEmpty_nil, Bool.not_true, Bool.and_false, Bool.false_and, Bool.or_false, Bool.false_eq_true,
    if_false, sumAt_nil, Val.sub_fin0]
  rw [mergeAxis1_get_merged (mergeAxis c 0 A) _ nc B hs0]
  simp only [mergeAxis0_get_merged c nr nc A hc]
  apply sumAt_congr
  intro j _
  simp [SumSub.row, Subtotal.isDiff, sumAt_nil]

/-! ### respondent level: the merged category counts the respondents of the addends -/

/-- In a CAT × CAT cube the sum of the addend cells is the weighted number of respondents whose
    row answer is ONE OF the addend categories (and whose column answer is `j`): exactly the
    cell of the category obtained by merging the addends in the data. -/
theorem merged_count_respondents (rv cv : Var) (hr : rv.kind = .cat) (s : Survey) (A : List Nat)
    (hn : A.Nodup) (j : Nat) :
    sumAt A (fun a => (cubeOf [rv, cv] s).get [a, j])
      = .fin (wsum s (fun r => A.any (fun a => memCell [rv, cv] r.ans [a, j]))) := by
  have hdis : ∀ r ∈ s, A.Pairwise (fun a b =>
      ¬ (memCell [rv, cv] r.ans [a, j] = true ∧ memCell [rv, cv] r.ans [b, j] = true)) := by
    intro r _
    apply List.Pairwise.imp _ hn
    intro a b hab ⟨ha, hb⟩
    apply hab
    cases hans : r.ans with
    | nil => simp [hans, memCell] at ha
    | cons a0 rest =>
      simp only [hans, memCell, Var.rank, hr, Var.mem, List.take, Bool.and_eq_true, beq_iff_eq] at ha hb
      have := ha.1.symm.trans hb.1
      simpa using this
  rw [← wsum_sum_disjoint s A (fun a r => memCell [rv, cv] r.ans [a, j]) hdis, ← Val.sum_fin]
  unfold sumAt
  rw [List.map_map]
  rfl

/-- **merge_equiv at the respondent level** (counts): tabulate the survey in which every answer
    in `A` has been recoded to ONE category `mcat` (and no other answer is recoded to `mcat`);
    the cell of `mcat` is the inserted-row cell of the subtotal `⟨A, []⟩`. -/
theorem merge_equiv_respondents (rv rv' cv : Var) (hr : rv.kind = .cat) (hr' : rv'.kind = .cat)
    (s : Survey) (A : List Nat) (hn : A.Nodup) (f : Nat → Nat) (mcat : Nat)
    (hf : ∀ c, f c = mcat ↔ c ∈ A) (hfit : ∀ r ∈ s, ∃ c rest, r.ans = [c] :: rest) (j : Nat) :
    SumSub.row (fun i j => (cubeOf [rv, cv] s).get [i, j]) false ⟨A, []⟩ j
      = (cubeOf [rv', cv] (s.map (recodeFirst f))).get [mcat, j] := by
  simp only [SumSub.row, Bool.false_and, Bool.false_eq_true, if_false, sumAt_nil, Val.sub_fin0]
  rw [merged_count_respondents rv cv hr s A hn j]
  simp only [cubeOf]
  rw [wsum_map s (recodeFirst f) (fun r => rfl)]
  congr 1
  apply wsum_congr
  intro r hr_mem
  obtain ⟨c, rest, hans⟩ := hfit r hr_mem
  simp only [recodeFirst, hans, memCell, Var.rank, hr, hr', Var.mem, List.take, List.drop, List.map_cons,
    List.map_nil]
  by_cases hcA : c ∈ A
  · have h1 : (A.any fun a => ([c] == [a]) && memCell [cv] rest [j]) = memCell [cv] rest [j] := by
      by_cases hm : memCell [cv] rest [j] = true
      · simp only [hm, Bool.and_true]
        rw [List.any_eq_true.mpr ⟨c, hcA, by simp⟩]
      · simp [hm]
    rw [h1, (hf c).mpr hcA]
    simp
  · have h1 : (A.any fun a => ([c] == [a]) && memCell [cv] rest [j]) = false := by
      rw [List.any_eq_false]
      intro a ha
      have : c ≠ a := fun h => hcA (h ▸ ha)
      simp [this]
    have h2 : f c ≠ mcat := fun h => hcA ((hf c).mp h)
    rw [h1]
    simp [h2]

/-- the hypotheses `A.Nodup`, `∀ a ∈ A, a < n` of the merge theorems hold for every subtotal the
    library builds: resolved index lists are strictly increasing, duplicate-free and in range -/
theorem resolved_wellformed (validIds : List Int) (i : Insertion) :
    let S := i.toSubtotal validIds
    S.addendIdxs.Nodup ∧ S.subtrahendIdxs.Nodup
      ∧ S.addendIdxs.Pairwise (· < ·) ∧ S.subtrahendIdxs.Pairwise (· < ·)
      ∧ (∀ a ∈ S.addendIdxs, a < validIds.length) ∧ (∀ a ∈ S.subtrahendIdxs, a < validIds.length) :=
  ⟨idxsOfIds_nodup _ _, idxsOfIds_nodup _ _, idxsOfIds_sorted _ _, idxsOfIds_sorted _ _,
   idxsOfIds_lt _ _, idxsOfIds_lt _ _⟩

/-- a subtotal has no subtrahends exactly when none of its listed negative ids exists -/
theorem no_subtrahends_iff (validIds : List Int) (i : Insertion) :
    (i.toSubtotal validIds).isDiff = false ↔ ∀ x ∈ i.negative, x ∉ validIds := by
  rw [isDiff_iff]
  unfold isDifference
  rw [List.any_eq_false]
  simp [List.contains_iff_mem]

/-! ### finding F12: intersections of the proportions bypass the wave-difference rule

  CAT rows × CAT_DATE columns, counts `[[1,2,3],[4,5,6],[7,8,9]]`, row subtotal `[r0, r1]`
  (no subtrahends), column difference `+c1 −c2`.  The column proportion the model (= the code)
  puts in the intersection is NaN, while the merged category `r0+r1` of the merged table
  shows the wave difference `7/15 − 9/18 = −1/30` in the difference column.  So for the
  proportions `merge_equiv` needs the hypothesis "the crossing element is not a difference of a
  categorical-date dimension" (`merge_equiv_proportions_rows/cols` speak about base crossing
  elements; `merge_equiv_inter_count` about two subtotals without subtrahends). -/

def f12C : FT := FT.ofFlat [3, 3] [1, 2, 3, 4, 5, 6, 7, 8, 9]
def f12X : SubCtx := { rowSubs := [⟨[0, 1], []⟩], colSubs := [⟨[1], [2]⟩], colsCatDate := true }
def f12X' : SubCtx := { rowSubs := [], colSubs := [⟨[1], [2]⟩], colsCatDate := true }

theorem merge_equiv_proportions_catdate_counterexample :
    (Msr.columnProportions (MatCounts.catXcat f12C) false f12X).inter 0 0 = .nan
      ∧ (Msr.columnProportions (MatCounts.catXcat (mergeAxis f12C 0 [0, 1])) false f12X').insCols
          (mergedPos 3 [0, 1]) 0 = .fin (-1 / 30) := by
  decide +kernel

/-- the count of that very cell DOES agree with the merged category's (`5 − 9 = −4` … per
    column: `(2+5) − (3+6) = −2`) -/
example : (Msr.counts (MatCounts.catXcat f12C) false f12X).inter 0 0 = .fin (-2)
    ∧ (Msr.counts (MatCounts.catXcat (mergeAxis f12C 0 [0, 1])) false f12X').insCols (mergedPos 3 [0, 1]) 0
        = .fin (-2) := by
  decide +kernel

/-! ## 6. non-vacuity and sample evaluations -/

/-- resolution: valid ids `[3, 10, 2]`; stale id 999, missing id 13, a repeated id and a string
    spelling (encoded as a non-matching int) contribute nothing; an all-stale dict is dropped -/
example :
    resolveSubtotals [3, 10, 2]
      [{ args := [10, 3, 999, 10] }, { args := [13], negative := [3] }, { args := [77] },
       { kwPositive := [2], args := [3], negative := [-1000002] }, { args := [3], hide := true }]
      = [⟨[0, 1], []⟩, ⟨[], [0]⟩, ⟨[2], []⟩] := by decide

/-- hypotheses of `merge_equiv_rows`: a concrete instance -/
example : subAt f12X.rowSubs 0 = ⟨[0, 1], []⟩ ∧ [0, 1].Nodup ∧ (∀ a ∈ [0, 1], a < 3)
    ∧ f12C.shape = [3, 3] := by decide

/-- hypotheses of `wave_diff_cols` / `wave_diff_multi_cols` / `diff_col_base_nan` -/
example : f12X.colsCatDate = true ∧ subAt f12X.colSubs 0 = ⟨[1], [2]⟩
    ∧ (subAt f12X.colSubs 0).isDiff = true := by decide
example : (subAt [(⟨[1, 2], [0]⟩ : Subtotal)] 0).isDiff = true
    ∧ ((subAt [(⟨[1, 2], [0]⟩ : Subtotal)] 0).subtrahendIdxs.length > 1
        ∨ (subAt [(⟨[1, 2], [0]⟩ : Subtotal)] 0).addendIdxs.length > 1) := by decide

/-- hypothesis of `multiLegacy_eq_multi` -/
example : ∃ i ∈ (⟨[0], [1, 2]⟩ : Subtotal).subtrahendIdxs, i ≠ 0 := ⟨1, by decide, by decide⟩

/-- hypotheses of `sumListed_eq_sum_ids` -/
example : ([3, 10, 2] : List Int).Nodup ∧ ([2, 3] : List Int).Nodup
    ∧ ∀ x ∈ ([2, 3] : List Int), x ∈ ([3, 10, 2] : List Int) := by decide

/-- hypotheses of `merge_equiv_respondents`: recoding `0,1 ↦ 3`, everything else fixed -/
example : ∀ c, (fun c => if c = 0 ∨ c = 1 then 3 else c) c = 3 ↔ c ∈ [0, 1, 3] := by
  intro c
  by_cases h0 : c = 0
  · simp [h0]
  · by_cases h1 : c = 1
    · simp [h1]
    · simp [h0, h1]

/-- sample: the four blocks of SumSubtotals on `[[1,2,3],[4,5,6],[7,8,9]]` with row subtotals
    `+0+1`, `+2−0` and the column difference `+1+2−0` (values replayed on the real library) -/
example :
    let b := SumSub.blocks (fun i j => f12C.get [i, j]) 3 3 [⟨[0, 1], []⟩, ⟨[2], [0]⟩] [⟨[1, 2], [0]⟩] false false
    b.insColsL = [[.fin 4], [.fin 7], [.fin 10]] ∧ b.insRowsL = [[.fin 5, .fin 7, .fin 9], [.fin 6, .fin 6, .fin 6]]
      ∧ b.interL = [[.fin 11], [.nan]] := by
  decide +kernel

end CrCube.C04
