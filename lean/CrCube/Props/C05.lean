/-
  C05 — Display transforms only select and reorder; every output stays aligned.
  Property theorems only.  In the model (as in the code) a measure's blocks are computed from
  the dimensions' elements and insertions only; the display orders enter solely through
  `assembleMatrix` / `assembleVector`.  The theorems say what that single re-indexing step
  guarantees for ANY two orders `o` (under transforms t) and `o₀` (under strip t) with
  `o ⊆ o₀`: the output under t is the output under strip t re-indexed by position.
  That the orders produced by the three collators are duplicate-free and list only existing
  vectors is proved with the collator model (`CrCube.C07`, `CrCube.C08`).
-/
import CrCube.Model.Assemble
import Mathlib.Data.List.Basic

namespace CrCube.C05
open CrCube

theorem getD_idxOf_map {α β : Type} [DecidableEq α] (l : List α) (f : α → β) (x : α) (d : β)
    (hx : x ∈ l) : (l.map f).getD (l.idxOf x) d = f x := by
  induction l with
  | nil => simp at hx
  | cons a l ih =>
    by_cases h : a = x
    · subst h; simp [List.idxOf_cons_self]
    · have hx' : x ∈ l := by
        rcases List.mem_cons.mp hx with h' | h'
        · exact absurd h'.symm h
        · exact h'
      rw [List.map_cons, List.idxOf_cons_ne _ h]
      simpa using ih hx'

/-- **Every matrix output under transforms equals the untransformed output re-indexed by the
    reported row and column display orders.** -/
theorem matrix_reindexed (b : ABlocks) (ro co ro0 co0 : List Int)
    (hr : ∀ x ∈ ro, x ∈ ro0) (hc : ∀ y ∈ co, y ∈ co0) :
    assembleMatrix b ro co =
      ro.map fun x => co.map fun y =>
        ((assembleMatrix b ro0 co0).getD (ro0.idxOf x) []).getD (co0.idxOf y) .nan := by
  unfold assembleMatrix
  apply List.map_congr_left
  intro x hx
  apply List.map_congr_left
  intro y hy
  rw [getD_idxOf_map ro0 _ x [] (hr x hx), getD_idxOf_map co0 (b.cell x) y Val.nan (hc y hy)]

/-- marginals, labels, codes, aliases, fills (any vector output): same statement -/
theorem vector_reindexed (n nins : Nat) (base ins : Nat → Val) (o o0 : List Int)
    (h : ∀ x ∈ o, x ∈ o0) :
    assembleVector n nins base ins o =
      o.map fun x => (assembleVector n nins base ins o0).getD (o0.idxOf x) .nan := by
  unfold assembleVector
  apply List.map_congr_left
  intro x hx
  rw [getD_idxOf_map o0 (vecCell n nins base ins) x Val.nan (h x hx)]

/-- each output's extent matches the reported orders (hence `shape`) -/
theorem extent_matches (b : ABlocks) (ro co : List Int) :
    (assembleMatrix b ro co).length = ro.length ∧
    ∀ row ∈ assembleMatrix b ro co, row.length = co.length := by
  unfold assembleMatrix
  refine ⟨by simp, ?_⟩
  intro row hrow
  simp only [List.mem_map] at hrow
  obtain ⟨_, _, rfl⟩ := hrow
  simp

/-- position i of every row-wise output refers to the same element: two measures assembled with
    the same orders read the same (signed) vector at every position -/
theorem aligned (b b' : ABlocks) (ro co : List Int) (i j : Nat) (hi : i < ro.length) (hj : j < co.length) :
    ((assembleMatrix b ro co).getD i []).getD j .nan = b.cell ro[i] co[j] ∧
    ((assembleMatrix b' ro co).getD i []).getD j .nan = b'.cell ro[i] co[j] := by
  unfold assembleMatrix
  simp [List.getD, List.getElem?_map, List.getElem?_eq_getElem hi, List.getElem?_eq_getElem hj]

/-- a signed index names a base element iff it is non-negative: hidden / pruned base elements
    keep contributing to every base and margin because the blocks never see the order
    (re-indexing theorem above), and python's negative indexes reach exactly the inserted vectors -/
theorem neg_index_is_insertion (b : ABlocks) (k : Nat) (hk : k < b.nir) (sj : Int) :
    b.cell (-(((b.nir - k : Nat) : Int))) sj = b.full (b.nr + k) (wrapIdx (b.nc + b.nic) sj) := by
  unfold ABlocks.cell wrapIdx
  have h1 : (-(((b.nir - k : Nat) : Int))) < 0 := by omega
  simp only [h1, if_true]
  congr 1
  omega

-- test (not the claim): 2×2 body, one inserted row; order [-1, 1, 0] puts the subtotal first
example :
    let b : ABlocks := ⟨2, 2, 1, 0, fun i j => .fin (10 * i + j : Nat), fun _ _ => .nan,
      fun _ j => .fin (100 + j : Nat), fun _ _ => .nan⟩
    assembleMatrix b [-1, 1, 0] [1, 0] = [[.fin 101, .fin 100], [.fin 11, .fin 10], [.fin 1, .fin 0]] := by
  decide +kernel

end CrCube.C05
