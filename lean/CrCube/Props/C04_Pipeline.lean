/-
  C04 — "a subtotal without subtrahends behaves as the category obtained by merging its addends in
  the data", for the END-TO-END pipeline (`Model/Pipeline.lean`, `PipelineMeasures.lean`).
  Property theorems only (definitions and helper lemmas: `Lemmas/MergePipeline.lean`).

  Setting.  `c` is the cube over [R, C]; row subtotal `k` of the rows dimension is `⟨A, []⟩`
  (addend offsets `A`, no subtrahends).  `c'` is the cube of the recoded data: the rows variable
  has the categories `A` merged into ONE category, which is body row `mp` of `c'`
  (`RowMerge c c' rows rows' cols k A mp`: what the measures read of `c'` at row `mp` is the merge
  of the rows `A` of `c`; `merged_cube_is_RowMerge_*` discharge it for the recoded cube built
  from the raw arrays).  The columns dimension (its subtotals, differences, categorical-date flag)
  is the same on both sides; the rows dimension `rows'` of `c'` is arbitrary but for its
  categorical-date flag.

  Statement: for every measure key of `sliceBlocks` the property claims it for and every column
  position Q (base column, subtotal column, difference column)

      value at (inserted row k, Q) of the original = value at (body row mp, Q) of the recoded cube

  under the per-key hypotheses `mergeHyp` (all forced: counterexamples below):
    * row / column proportions, their variances / std-errors, population estimates in those
      directions: Q is not a difference column of a categorical-date columns dimension (F12);
    * z-scores / p-values: the two block guards agree — `_is_defective` and the `np.all(T == r)` test
      read the BASE block / the whole block, which differ between the two cubes
      (`zscore_guard_counterexample`: 0 at the subtotal, NaN at the merged category);
  and NaN at the subtotal for the measures that cannot be added (means, std-dev, medians, column
  index).  Intersections (row subtotal × column subtotal) are the case Q = `.ins l`; merged × merged
  follows by applying the mirrored (columns) theorem to the row-merged cube.
-/
import CrCube.Lemmas.MergePipeline
import CrCube.Lemmas.MergeCube

set_option linter.unusedSimpArgs false
set_option linter.unusedVariables false

namespace CrCube.C04
open CrCube CrCube.Pipeline SubSpec

/-! ## 1. the blocks of every claimed measure -/

/-- **pipeline merge-equivalence (rows)**: the value every claimed measure of the pipeline shows at
    the inserted row of a subtotal without subtrahends — in a base column, a subtotal column or a
    difference column — is the value it shows at the merged category's row of the recoded cube.
    Counts, bases (weighted / unweighted, three directions), proportions, variances, std-errors
    (⇒ std-dev, MoE), z-scores, p-values, population proportions / std-errors, sums, row share of sum;
    all values incl. NaN / ±inf. -/
theorem slice_blocks_merge_rows (c c' : CubeData) (rows rows' cols : RDim) (k : Nat) (A : List Nat)
    (mp : Nat) (hm : RowMerge c c' rows rows' cols k A mp) (key : MKey) (Q : Pos)
    (hk : mergeHyp c c' rows rows' cols k mp Q key) :
    blockAt (sliceBlocks c rows cols key) (.ins k) Q
      = blockAt (sliceBlocks c' rows' cols key) (.base mp) Q := by
  have hS : subAt (sliceCtx rows cols).rowSubs k = ⟨A, []⟩ := hm.sub
  have hcs : (sliceCtx rows' cols).colSubs = (sliceCtx rows cols).colSubs := rfl
  have hcd : (sliceCtx rows' cols).colsCatDate = (sliceCtx rows cols).colsCatDate := rfl
  cases key with
  | countsW => exact counts_ins_eq hm.w hS hcs false Q
  | countsU => exact counts_ins_eq hm.u hS hcs false Q
  | rowBasesW => exact rowWB_ins_eq hm.w hS hcs Q
  | rowBasesU =>
    cases Q with
    | base j =>
      simp [sliceBlocks, blockAt, Msr.rowUnweightedBases, SumSub.row, hS, Subtotal.isDiff, sumAt_nil,
        hm.u.rowBases]
    | ins l =>
      have h2 := hk rfl
      simp only [sliceBlocks, blockAt, Msr.rowUnweightedBases, sumRow_nosub, hS]
      exact ((hm.u.rowBases 0).symm.trans h2.symm)
  | colBasesW => exact colWB_ins_eq hm.w hS hcs Q
  | colBasesU =>
    have hc : (fun j => c'.u.columnBases mp j) = fun j => c.u.columnBases 0 j := funext hm.u.colBases
    cases Q with
    | base j =>
      simp only [sliceBlocks, blockAt, Msr.columnUnweightedBases]
      exact (hk j).trans (hm.u.colBases j).symm
    | ins l => simp [sliceBlocks, blockAt, Msr.columnUnweightedBases, SumSub.col, sliceCtx, hc]
  | tableBasesW => exact tableB_ins_eq hm.w hS hcs Q
  | tableBasesU => exact tableB_ins_eq hm.u hS hcs Q
  | rowProps => exact rowProps_ins_eq hm.w hS hcs hcd Q hk
  | colProps => exact colProps_ins_eq hm.w hS hcs hcd Q hk
  | tableProps => exact tableProps_ins_eq hm.w hS hcs Q
  | variance d =>
    have hv := (varCell_ins_eq hm.w hS hcs hcd d Q hk).1
    cases Q <;> simpa [sliceBlocks, varianceBlocks, blocksOfFn, blockAt] using hv
  | stdErr d =>
    have hv := varCell_ins_eq hm.w hS hcs hcd d Q hk
    cases Q <;> simp [sliceBlocks, stdErrKeyBlocks, blocksOfFn, blockAt, hv.1, hv.2]
  | zscores =>
    have hz := zCell_ins_eq hm.w hS hcs Q
    cases Q <;> simp only [sliceBlocks, zKeyBlocks, blocksOfFn, blockAt] <;> rw [hk, hz]
  | pvalues =>
    have hz := zCell_ins_eq hm.w hS hcs Q
    cases Q <;> simp only [sliceBlocks, pKeyBlocks, zKeyBlocks, blocksOfFn, blockAt] <;> rw [hk, hz]
  | colIndex => exact hk.elim
  | popProps =>
    simp only [sliceBlocks, hm.catDate]
    exact dirProps_ins_eq hm.w hS hcs hcd _ Q hk
  | popStdErr =>
    simp only [sliceBlocks, hm.catDate]
    have hv := varCell_ins_eq hm.w hS hcs hcd (popDir rows.catDate cols.catDate) Q hk
    cases Q <;> simp [stdErrKeyBlocks, blocksOfFn, blockAt, hv.1, hv.2]
  | sums =>
    exact sumSub_ins_eq hS hcs _ _ hm.sums true true _ _ _ _ Q
  | means => exact hk.elim
  | stddev => exact hk.elim
  | medians => exact hk.elim
  | rowShare =>
    simp only [sliceBlocks, hm.w.ncols]
    exact rowShare_ins_eq hS hcs _ _ hm.sums _ _ _ Q
  | colShare => exact hk.elim
  | totalShare => exact hk.elim

/-- **measures that cannot be added are NaN at the subtotal** on the pipeline: means, std-dev,
    medians, column index — in every column position, whatever the merged category of the recoded
    cube shows (a proper mean there) -/
theorem slice_blocks_nan_at_subtotal (c : CubeData) (rows cols : RDim) (k : Nat) (Q : Pos) :
    blockAt (sliceBlocks c rows cols .means) (.ins k) Q = .nan
      ∧ blockAt (sliceBlocks c rows cols .stddev) (.ins k) Q = .nan
      ∧ blockAt (sliceBlocks c rows cols .medians) (.ins k) Q = .nan
      ∧ blockAt (sliceBlocks c rows cols .colIndex) (.ins k) Q = .nan := by
  cases Q <;>
    simp [sliceBlocks, blockAt, Msr.nanMeasure, NanSub.blocks, colIndexBlocks, blocksOfFn, columnIndexCell]

/-! ## 2. the symbolic (Out-valued) measures: std-dev, std-err, MoE, z-scores, p-values -/

/-- **pipeline merge-equivalence for the symbolic measures**: standard deviation, standard error,
    margin of error (three directions), population standard error, z-scores, p-values — the symbolic
    value itself (sqrt / quotient-by-sqrt / normal-tail term), not only its sort surrogate -/
theorem slice_out_merge_rows (c c' : CubeData) (rows rows' cols : RDim) (k : Nat) (A : List Nat)
    (mp : Nat) (hm : RowMerge c c' rows rows' cols k A mp) (key : OKey) (Q : Pos)
    (hk : match key with
      | .stdDev d | .stdErr d | .moe d => d ≠ .table → waveCol (sliceCtx rows cols) Q = false
      | .popStdErr => popDir rows.catDate cols.catDate ≠ .table → waveCol (sliceCtx rows cols) Q = false
      | .zscores | .pvals =>
        (zGuards c.w (sliceCtx rows cols)).at (.ins k) Q
          = (zGuards c'.w (sliceCtx rows' cols)).at (.base mp) Q) :
    sliceOutCell c rows cols key (.ins k) Q = sliceOutCell c' rows' cols key (.base mp) Q := by
  have hS : subAt (sliceCtx rows cols).rowSubs k = ⟨A, []⟩ := hm.sub
  have hcs : (sliceCtx rows' cols).colSubs = (sliceCtx rows cols).colSubs := rfl
  have hcd : (sliceCtx rows' cols).colsCatDate = (sliceCtx rows cols).colsCatDate := rfl
  cases key with
  | stdDev d =>
    have hv := varCell_ins_eq hm.w hS hcs hcd d Q hk
    simp [sliceOutCell, sliceOutCells, VarCell.stdDev, hv.1]
  | stdErr d =>
    have hv := varCell_ins_eq hm.w hS hcs hcd d Q hk
    simp [sliceOutCell, sliceOutCells, VarCell.stdErr, hv.1, hv.2]
  | moe d =>
    have hv := varCell_ins_eq hm.w hS hcs hcd d Q hk
    simp [sliceOutCell, sliceOutCells, VarCell.moe, VarCell.stdErr, hv.1, hv.2]
  | popStdErr =>
    have hv := varCell_ins_eq hm.w hS hcs hcd (popDir rows.catDate cols.catDate) Q hk
    simp [sliceOutCell, sliceOutCells, VarCell.stdErr, hm.catDate, hv.1, hv.2]
  | zscores =>
    have hz := zCell_ins_eq hm.w hS hcs Q
    simp only [sliceOutCell, sliceOutCells, zOutAt]
    rw [hk, hz]
  | pvals =>
    have hz := zCell_ins_eq hm.w hS hcs Q
    simp only [sliceOutCell, sliceOutCells, zOutAt]
    rw [hk, hz]

/-! ## 3. the hypothesis `RowMerge` holds for the merged table (CAT × CAT, CAT × MR) -/

/-- the extractor object of the merged CAT × CAT table has, at the merged category's row, the merge
    of the addend rows (counts and row bases summed over the addends, column and table bases
    unchanged) — every array, NaN / ±inf included -/
theorem merged_table_catXcat (V : FT) (nr nc : Nat) (hV : V.shape = [nr, nc]) (A : List Nat)
    (hn : A.Nodup) (hlt : ∀ a ∈ A, a < nr) :
    RowMergedAt (MatCounts.catXcat V) (MatCounts.catXcat (mergeAxis V 0 A)) A (mergedPos nr A) :=
  rowMergedAt_catXcat V nr nc hV A hn hlt

/-- … and of the merged CAT × MR table (selected / other planes merged alike) -/
theorem merged_table_catXmr (V : FT) (nr nc np : Nat) (hV : V.shape = [nr, nc, np]) (A : List Nat)
    (hn : A.Nodup) (hlt : ∀ a ∈ A, a < nr) :
    RowMergedAt (MatCounts.catXmr V) (MatCounts.catXmr (mergeAxis V 0 A)) A (mergedPos nr A) :=
  rowMergedAt_catXmr V nr nc np hV A hn hlt


/-! ## 4. end to end: the recoded cube built from the raw arrays (CAT × CAT) -/

/-- **the recoded cube satisfies `RowMerge`**: `c.mergeRows A` — rows variable with the valid
    categories `A` merged into one (last) category, raw arrays of the weighted / unweighted counts and
    of the sums measure merged along the rows axis, columns variable untouched (missing categories
    anywhere in both variables) -/
theorem merged_cube_is_RowMerge (R C : Var) (hR : R.kind = .cat) (hC : C.kind = .cat) (A : List Nat)
    (hn : A.Nodup) (hlt : ∀ a ∈ A, a < (validIdxs R.catMissing).length) (hA : A ≠ [])
    (c : CubeData) (hv : c.vars = [R, C]) (rows rows' cols : RDim) (k : Nat)
    (hS : subAt rows.subtotals k = ⟨A, []⟩) (hcd : rows'.catDate = rows.catDate) :
    RowMerge c (c.mergeRows A) rows rows' cols k A (mergedPos (validIdxs R.catMissing).length A) :=
  mergeRows_rowMerge R C hR hC A hn hlt c hv hA rows rows' cols k hS hcd

/-- **pipeline merge-equivalence, end to end** (CAT × CAT): from the typed design and the raw arrays of
    the cube, for every claimed key and every column position -/
theorem pipeline_merge_rows (R C : Var) (hR : R.kind = .cat) (hC : C.kind = .cat) (A : List Nat)
    (hn : A.Nodup) (hlt : ∀ a ∈ A, a < (validIdxs R.catMissing).length) (hA : A ≠ [])
    (c : CubeData) (hv : c.vars = [R, C]) (rows rows' cols : RDim) (k : Nat)
    (hS : subAt rows.subtotals k = ⟨A, []⟩) (hcd : rows'.catDate = rows.catDate) (key : MKey) (Q : Pos)
    (hk : mergeHyp c (c.mergeRows A) rows rows' cols k (mergedPos (validIdxs R.catMissing).length A) Q key) :
    blockAt (sliceBlocks c rows cols key) (.ins k) Q
      = blockAt (sliceBlocks (c.mergeRows A) rows' cols key)
          (.base (mergedPos (validIdxs R.catMissing).length A)) Q :=
  slice_blocks_merge_rows c _ rows rows' cols k A _
    (mergeRows_rowMerge R C hR hC A hn hlt c hv hA rows rows' cols k hS hcd) key Q hk

/-- the side conditions of the unweighted row / column bases hold in every CAT × CAT cube: the 1-D
    base vector the library broadcasts into inserted columns / rows is the 2-D base -/
theorem unweighted_base_hyps_catXcat (V : FT) (i j : Nat) :
    (match (MatCounts.catXcat V).rowsBase with | some f => f i | none => .nan)
        = (MatCounts.catXcat V).rowBases i 0
      ∧ (match (MatCounts.catXcat V).columnsBase with | some f => f j | none => .nan)
        = (MatCounts.catXcat V).columnBases 0 j := ⟨rfl, rfl⟩

/-! ## 5. the hypotheses are forced -/

def zxVars : List Var := [⟨.cat, 3, [false, false, false], false⟩, ⟨.cat, 2, [false, false], false⟩]
/-- `[[1,0],[0,1],[1,1]]`: rank 2; merging rows 0 and 1 gives `[[1,1],[1,1]]`: rank 1 -/
def zx : CubeData :=
  { vars := zxVars, wraw := FT.ofFlat [3, 2] [1, 0, 0, 1, 1, 1], uraw := FT.ofFlat [3, 2] [1, 0, 0, 1, 1, 1] }
/-- `[[1,0],[0,1],[1,3]]`: merging rows 0 and 1 gives `[[1,3],[1,1]]`, still rank 2 -/
def zy : CubeData :=
  { vars := zxVars, wraw := FT.ofFlat [3, 2] [1, 0, 0, 1, 1, 3], uraw := FT.ofFlat [3, 2] [1, 0, 0, 1, 1, 3] }
def zRows : RDim := { (default : RDim) with subtotals := [⟨[0, 1], []⟩] }
def zCols : RDim := default

/-- **the z-score hypothesis is forced**: rows `[[1,0],[0,1],[1,1]]` with the subtotal `+0+1`.  The
    original table has rank 2, the inserted row `[1,1]` gets z = 0 (p = 1); in the recoded table
    `[[1,1],[1,1]]` the base block has rank 1, `_is_defective` holds and the merged category's z-score is
    NaN.  The two guards differ, everything else (`zCell_ins_eq`) agrees. -/
theorem zscore_guard_counterexample :
    blockAt (sliceBlocks zx zRows zCols .zscores) (.ins 0) (.base 0) = .fin 0
      ∧ blockAt (sliceBlocks (zx.mergeRows [0, 1]) zCols zCols .zscores) (.base 1) (.base 0) = .nan
      ∧ (zGuards zx.w (sliceCtx zRows zCols)).at (.ins 0) (.base 0) = false
      ∧ (zGuards (zx.mergeRows [0, 1]).w (sliceCtx zCols zCols)).at (.base 1) (.base 0) = true := by
  decide +kernel

def f12Vars : List Var := [⟨.cat, 3, [false, false, false], false⟩, ⟨.cat, 3, [false, false, false], false⟩]
def f12T : FT := FT.ofFlat [3, 3] [1, 2, 3, 4, 5, 6, 7, 8, 9]
def f12Cube : CubeData := { vars := f12Vars, wraw := f12T, uraw := f12T, sums := some f12T }
def f12Rows : RDim := { (default : RDim) with subtotals := [⟨[0, 1], []⟩] }
def f12Cols : RDim := { (default : RDim) with subtotals := [⟨[1], [2]⟩], catDate := true }

/-- **the proportions hypothesis is forced** (finding F12 on the pipeline): CAT rows × CAT_DATE columns
    `[[1,2,3],[4,5,6],[7,8,9]]`, row subtotal `+0+1`, column difference `+1−2`: the column proportion at
    the intersection is NaN, the merged category of the recoded cube shows the wave difference −1/30 in
    the difference column; the COUNT of that cell agrees (−2) -/
theorem proportions_catdate_counterexample :
    blockAt (sliceBlocks f12Cube f12Rows f12Cols .colProps) (.ins 0) (.ins 0) = .nan
      ∧ blockAt (sliceBlocks (f12Cube.mergeRows [0, 1]) zCols f12Cols .colProps) (.base 1) (.ins 0) = .fin (-1 / 30)
      ∧ blockAt (sliceBlocks f12Cube f12Rows f12Cols .countsW) (.ins 0) (.ins 0) = .fin (-2)
      ∧ blockAt (sliceBlocks (f12Cube.mergeRows [0, 1]) zCols f12Cols .countsW) (.base 1) (.ins 0) = .fin (-2)
      ∧ waveCol (sliceCtx f12Rows f12Cols) (.ins 0) = true := by
  decide +kernel

/-! ## 6. non-vacuity of the hypotheses, sample evaluations -/

/-- hypotheses of `merged_cube_is_RowMerge` / `pipeline_merge_rows` on a concrete cube -/
example : (zxVars.getD 0 default).kind = .cat ∧ (zxVars.getD 1 default).kind = .cat ∧ [0, 1].Nodup
    ∧ (∀ a ∈ [0, 1], a < (validIdxs (zxVars.getD 0 default).catMissing).length) ∧ ([0, 1] : List Nat) ≠ []
    ∧ subAt zRows.subtotals 0 = ⟨[0, 1], []⟩ ∧ zCols.catDate = zRows.catDate := by decide

/-- hence `RowMerge` is inhabited -/
example : RowMerge zy (zy.mergeRows [0, 1]) zRows zCols zCols 0 [0, 1] 1 :=
  merged_cube_is_RowMerge _ _ rfl rfl [0, 1] (by decide) (by decide) (by decide) zy rfl zRows zCols zCols 0 rfl rfl

/-- `mergeHyp` for the z-scores holds on `[[1,0],[0,1],[1,3]]` (both guards false) and the z-score
    of the subtotal is that of the merged category: −1/ … as surrogate −(1/3)… evaluated -/
example : mergeHyp zy (zy.mergeRows [0, 1]) zRows zCols zCols 0 1 (.base 0) .zscores := by
  unfold mergeHyp; decide +kernel
example : blockAt (sliceBlocks zy zRows zCols .zscores) (.ins 0) (.base 0)
    = blockAt (sliceBlocks (zy.mergeRows [0, 1]) zCols zCols .zscores) (.base 1) (.base 0)
    ∧ blockAt (sliceBlocks zy zRows zCols .zscores) (.ins 0) (.base 0) ≠ .nan := by decide +kernel

/-- `mergeHyp` for the proportions: a subtotal column of the F12 design that is not a difference -/
example : mergeHyp f12Cube (f12Cube.mergeRows [0, 1]) f12Rows zCols
    { f12Cols with subtotals := [⟨[1, 2], []⟩] } 0 1 (.ins 0) .colProps := by
  unfold mergeHyp; decide +kernel

/-- `mergeHyp` for the unweighted bases on a CAT × CAT cube -/
example : mergeHyp zy (zy.mergeRows [0, 1]) zRows zCols zCols 0 1 (.ins 0) .rowBasesU := fun _ => rfl
example : mergeHyp zy (zy.mergeRows [0, 1]) zRows zCols zCols 0 1 (.base 0) .colBasesU := fun _ => rfl

/-- sample: every claimed key agrees on the F12 cube with a plain subtotal column -/
example :
    let cols : RDim := { f12Cols with subtotals := [⟨[1, 2], []⟩] }
    [MKey.countsW, .rowBasesW, .colBasesU, .rowProps, .colProps, .tableProps, .variance .row, .stdErr .col,
      .zscores, .pvalues, .popProps, .sums, .rowShare].all (fun key =>
        [Pos.base 0, .base 2, .ins 0].all (fun Q =>
          blockAt (sliceBlocks f12Cube f12Rows cols key) (.ins 0) Q
            == blockAt (sliceBlocks (f12Cube.mergeRows [0, 1]) zCols cols key) (.base 1) Q)) = true := by
  decide +kernel

end CrCube.C04
