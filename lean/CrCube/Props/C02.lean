/-
  C02 — Bases and margins count exactly the respondents eligible for the denominator.
  Property theorems only.
-/
import CrCube.Lemmas.SpecFacts
import CrCube.Model.SliceApi
import CrCube.Props.C06
import CrCube.Lemmas.Slice1Var
import CrCube.Lemmas.MinMax

set_option linter.unusedSimpArgs false

namespace CrCube.C02
open CrCube

/-- row base of cell (i, j): members of row element i with a valid answer on the column
    dimension (for a multiple-response column: non-missing on item j). -/
theorem rowBase_spec_2d (R C : Var) (hR : R.CM) (hC : C.CM) (s : Survey) (i j : Nat)
    (hi : i < R.ext) (hj : j < C.ext) :
    (sliceCounts [R, C] (cubeOf [R, C] s) 0).rowBases i j
      = .fin (specCount [R, C] s [i, j] [false, true]) := by
  rw [slice2d_rowBases R C hR hC]; exact raw_rowBases R C hR hC s i j hi hj

/-- column base: the mirror image -/
theorem colBase_spec_2d (R C : Var) (hR : R.CM) (hC : C.CM) (s : Survey) (i j : Nat)
    (hi : i < R.ext) (hj : j < C.ext) :
    (sliceCounts [R, C] (cubeOf [R, C] s) 0).columnBases i j
      = .fin (specCount [R, C] s [i, j] [true, false]) := by
  rw [slice2d_columnBases R C hR hC]; exact raw_colBases R C hR hC s i j hi hj

/-- table base: respondents valid on both -/
theorem tableBase_spec_2d (R C : Var) (hR : R.CM) (hC : C.CM) (s : Survey) (i j : Nat)
    (hi : i < R.ext) (hj : j < C.ext) :
    (sliceCounts [R, C] (cubeOf [R, C] s) 0).tableBases i j
      = .fin (specCount [R, C] s [i, j] [true, true]) := by
  rw [slice2d_tableBases R C hR hC]; exact raw_tableBases R C hR hC s i j hi hj

/-- 3-D twins, within table element k -/
theorem rowBase_spec_3d (T R C : Var) (hT : T.CM) (hR : R.CM) (hC : C.CM) (s : Survey)
    (k i j : Nat) (hk : k < T.ext) (hi : i < R.ext) (hj : j < C.ext) :
    (sliceCounts [T, R, C] (cubeOf [T, R, C] s) k).rowBases i j
      = .fin (specCount [T, R, C] s [k, i, j] [false, false, true]) := by
  rw [C06.partition_restricts T R C hT hR hC s k hk, rowBase_spec_2d R C hR hC _ i j hi hj,
    C06.restrict_specCount T R C hT hR hC]

theorem colBase_spec_3d (T R C : Var) (hT : T.CM) (hR : R.CM) (hC : C.CM) (s : Survey)
    (k i j : Nat) (hk : k < T.ext) (hi : i < R.ext) (hj : j < C.ext) :
    (sliceCounts [T, R, C] (cubeOf [T, R, C] s) k).columnBases i j
      = .fin (specCount [T, R, C] s [k, i, j] [false, true, false]) := by
  rw [C06.partition_restricts T R C hT hR hC s k hk, colBase_spec_2d R C hR hC _ i j hi hj,
    C06.restrict_specCount T R C hT hR hC]

theorem tableBase_spec_3d (T R C : Var) (hT : T.CM) (hR : R.CM) (hC : C.CM) (s : Survey)
    (k i j : Nat) (hk : k < T.ext) (hi : i < R.ext) (hj : j < C.ext) :
    (sliceCounts [T, R, C] (cubeOf [T, R, C] s) k).tableBases i j
      = .fin (specCount [T, R, C] s [k, i, j] [false, true, true]) := by
  rw [C06.partition_restricts T R C hT hR hC s k hk, tableBase_spec_2d R C hR hC _ i j hi hj,
    C06.restrict_specCount T R C hT hR hC]

/-- strand bases: respondents with a valid answer (categorical: the table base, the same for
    every row; multiple response: non-missing on that particular item) -/
theorem strand_bases_spec (V : Var) (hV : V.CM) (s : Survey) (i : Nat) (hi : i < V.ext) :
    (strandCounts [V] (cubeOf [V] s)).bases i = .fin (specCount [V] s [i] [true]) :=
  CrCube.strand_bases_spec V hV s i hi

/-- categorical array (one variable, items × categories): the row base and the table base of
    cell (i, j) are the respondents with a VALID answer on item i; the column base of an array
    item is the cell itself (an array item is its own eligibility). -/
theorem ca_bases_spec (V : Var) (hV : V.IsCA) (s : Survey) (i j : Nat) (hi : i < V.n) :
    (sliceCounts [V] (cubeOf [V] s) 0).rowBases i j = .fin (specCount [V] s [i, j] [false, true]) ∧
    (sliceCounts [V] (cubeOf [V] s) 0).tableBases i j = .fin (specCount [V] s [i, j] [true, true]) ∧
    (sliceCounts [V] (cubeOf [V] s) 0).columnBases i j = (sliceCounts [V] (cubeOf [V] s) 0).counts i j := by
  refine ⟨ca_rowBases_spec V hV s i j hi false, ?_, ca_columnBases_eq_counts V hV _ i j⟩
  rw [ca_tableBases_eq_rowBases V hV]
  exact ca_rowBases_spec V hV s i j hi true

/-- the unweighted bases are the same statements over the all-weights-1 survey, i.e. they count
    respondents (instantiate `s := unweight s` above and use this) -/
theorem unweighted_counts_respondents (vars : List Var) (s : Survey) (e : List Nat) (m : List Bool) :
    specCount vars (unweight s) e m
      = (((s.filter fun r => specMemAll vars r.ans e m).length : Nat) : Rat) :=
  specCount_unweight vars s e m

/-- **Margins are exactly the collapsed forms of the per-cell bases**, for every one of the nine
    type-pair extractor classes (CAT/MR/ARR)²: whenever a 1-D margin or the scalar table base is
    defined, every cell base along it equals it. -/
theorem margins_collapse (rk ck : DK) (c : FT) :
    let m := MatCounts.factory rk ck c
    (∀ f, m.rowsBase = some f → ∀ i j, m.rowBases i j = f i) ∧
    (∀ f, m.columnsBase = some f → ∀ i j, m.columnBases i j = f j) ∧
    (∀ v, m.tableBase = some v → ∀ i j, m.tableBases i j = v) ∧
    (∀ f, m.rowsTableBase = some f → ∀ i j, m.tableBases i j = f i) ∧
    (∀ f, m.columnsTableBase = some f → ∀ i j, m.tableBases i j = f j) := by
  cases rk <;> cases ck <;>
    simp only [MatCounts.factory, MatCounts.catXcat, MatCounts.catXmr, MatCounts.catXarr,
      MatCounts.mrXcat, MatCounts.mrXmr, MatCounts.mrXarr, MatCounts.arrXcat, MatCounts.arrXmr,
      MatCounts.arrXarr] <;>
    refine ⟨?_, ?_, ?_, ?_, ?_⟩ <;> intro f hf <;>
    first
      | (simp only [Option.some.injEq] at hf; subst hf; intro i j; rfl)
      | (simp at hf)

/-- the public margin is the 1-D base when defined and otherwise falls back to the 2-D bases -/
theorem rowsMargin_cases (m : MatCounts) :
    (∃ f, m.rowsBase = some f ∧ m.rowsMargin = .vec (tab1 m.nrows f)) ∨
    (m.rowsBase = none ∧ m.rowsMargin = .mat (m.mat m.rowBases)) := by
  unfold MatCounts.rowsMargin
  cases h : m.rowsBase with
  | none => right; exact ⟨rfl, rfl⟩
  | some f => left; exact ⟨f, rfl, rfl⟩

theorem columnsMargin_cases (m : MatCounts) :
    (∃ f, m.columnsBase = some f ∧ m.columnsMargin = .vec (tab1 m.ncols f)) ∨
    (m.columnsBase = none ∧ m.columnsMargin = .mat (m.mat m.columnBases)) := by
  unfold MatCounts.columnsMargin
  cases h : m.columnsBase with
  | none => right; exact ⟨rfl, rfl⟩
  | some f => left; exact ⟨f, rfl, rfl⟩

/-- the minimum-base mask is true exactly where the (unweighted) base is below the threshold -/
theorem minBaseMask_iff (u : MatCounts) (bases : Nat → Nat → Val) (size : Val) (i j : Nat)
    (hi : i < u.nrows) (hj : j < u.ncols) :
    ((u.maskOf bases size)[i]?.bind (·[j]?)) = some ((bases i j).lt size) := by
  simp [MatCounts.maskOf, tab2, List.getElem?_map, List.getElem?_range hi, List.getElem?_range hj]

/-- for finite values, "below the threshold" is the rational order -/
theorem mask_fin (b t : Rat) : (Val.fin b).lt (.fin t) = decide (b < t) := rfl

/-- **`table_base_range` / `table_margin_range` are exactly [min, max] of the per-cell table
    bases**: both ends are attained by a cell and bound every cell (finite bases, non-empty table). -/
theorem table_range_spec (m : MatCounts) (f : Nat → Nat → Rat)
    (hf : ∀ i j, m.tableBases i j = .fin (f i j)) (hr : 0 < m.nrows) (hc : 0 < m.ncols) :
    ∃ lo hi : Rat, m.tableBasesRange = [.fin lo, .fin hi] ∧
      (∃ i j, i < m.nrows ∧ j < m.ncols ∧ f i j = lo) ∧
      (∃ i j, i < m.nrows ∧ j < m.ncols ∧ f i j = hi) ∧
      (∀ i j, i < m.nrows → j < m.ncols → lo ≤ f i j ∧ f i j ≤ hi) := by
  let cells : List Rat := (List.range m.nrows).flatMap (fun i => (List.range m.ncols).map (f i))
  have hflat : (m.mat m.tableBases).flatten = cells.map Val.fin := by
    simp only [MatCounts.mat, tab2, cells, List.flatten_eq_flatMap, List.flatMap_map, List.map_flatMap,
      List.map_map, Function.comp_def, id]
    apply List.flatMap_congr
    intro i _
    apply List.map_congr_left
    intro j _
    exact hf i j
  have hmem : ∀ q, q ∈ cells ↔ ∃ i j, i < m.nrows ∧ j < m.ncols ∧ f i j = q := by
    intro q
    simp only [cells, List.mem_flatMap, List.mem_map, List.mem_range]
    constructor
    · rintro ⟨i, hi, j, hj, rfl⟩; exact ⟨i, j, hi, hj, rfl⟩
    · rintro ⟨i, j, hi, hj, rfl⟩; exact ⟨i, hi, j, hj, rfl⟩
  have hne : cells ≠ [] := by
    intro h
    have : f 0 0 ∈ cells := (hmem _).mpr ⟨0, 0, hr, hc, rfl⟩
    rw [h] at this; simp at this
  obtain ⟨lo, hlo, hlom, hlob⟩ := vmin_fin cells hne
  obtain ⟨hi, hhi, hhim, hhib⟩ := vmax_fin cells hne
  refine ⟨lo, hi, ?_, (hmem lo).mp hlom, (hmem hi).mp hhim, ?_⟩
  · simp only [MatCounts.tableBasesRange, hflat, hlo, hhi]
  · intro i j hi' hj'
    have hm : f i j ∈ cells := (hmem _).mpr ⟨i, j, hi', hj', rfl⟩
    exact ⟨hlob _ hm, hhib _ hm⟩

-- non-vacuity of the hypotheses: see C01; a concrete mask instance (test):
example : (MatCounts.catXcat (FT.ofFlat [1, 2] [.fin 3, .fin 7])).maskOf
    (MatCounts.catXcat (FT.ofFlat [1, 2] [.fin 3, .fin 7])).columnBases (.fin 5)
    = [[true, false]] := by decide +kernel

end CrCube.C02
