import CrCube.Model.SliceApi
import CrCube.Spec.SliceSpec
namespace CrCube.C02
end CrCube.C02
