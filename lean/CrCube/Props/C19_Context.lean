/-
  C19 (context) — which item a reference denotes is a matter of the dimension and the
  reference alone.

  A dimension-transforms dict carries, next to its element references (`DimXf`), entries that
  hold no element reference at all: `insertions`, `prune`, `name`, ... (`Bystanders`).  In the
  code `_ElementIdShim._has_mr_insertion` (the switch of rule 3 of the cascade) reads the
  DIMENSION dict only (`references.view.transform.insertions`); the model therefore resolves
  every reference by `translate d`, whatever the bystanders are.  The harness module
  `c19_context.py` checks the library against exactly that (same dimension, same references,
  different bystanders => same items).

  What rule 3 is there for, for ALL dimensions (`regular_decimal_eid_on_mr_insertions`): on an MR
  dimension with view insertions the decimal string of a regular (non-inserted) item's element id
  resolves to the item the int resolves to -- also when the same string is another item's
  sub-variable id, which is what real payloads look like (`C19.collision_counterexample`).
  `context_counterexample`: a resolver that lets `"insertions": []` of the transforms dict
  switch rule 3 off sends the int 2 and the string "2" to different items.
-/
import CrCube.Model.Shim
import CrCube.Spec.ShimSpec
import CrCube.Lemmas.Shim
import CrCube.Props.C19

namespace CrCube.C19
open CrCube.Shim CrCube.ShimSpec

/-- entries of a dimension-transforms dict that hold no element reference -/
structure Bystanders where
  insertions : Option (List (String × Bool)) := none   -- `(name, hide)` of every entry, if the key is there
  prune : Option Bool := none
  name : Option String := none
  others : List String := []                            -- further keys
  deriving DecidableEq, Repr

/-- a whole dimension-transforms dict -/
structure FullXf where
  refs : DimXf
  rest : Bystanders
  deriving DecidableEq, Repr

/-- `shimmed_dimension_transforms_dict` on the whole dict: only the reference slots are rewritten -/
def shimFull (d : Dim) (x : FullXf) : FullXf := { x with refs := shimXf d x.refs }

/-- what the analysis sees of the element references of a whole dict -/
def viewFull (d : Dim) (x : FullXf) : View := view d x.refs

/-- Python `str` of ints is injective (via `int(str(n)) == n`) -/
theorem decStr_injective {m n : Int} (h : decStr m = decStr n) : m = n := by
  have hm := pyInt_decStr m
  have hn := pyInt_decStr n
  rw [h] at hm
  rw [hm] at hn
  exact Option.some.inj hn

private theorem byEid_self {d : Dim} (hnd : d.eids.Nodup) {k : Nat} (hk : k < d.size) :
    byEid d (item d k).eid = some (item d k).alias := by
  obtain ⟨a, ha⟩ := byEid_isSome_of_mem (eid_mem hk)
  obtain ⟨j, hj, he, hja⟩ := byEid_some ha
  have hjk : j = k := by
    have h1 := eids_get hj
    have h2 := eids_get hk
    rw [he] at h1
    exact (List.getElem?_inj (by simpa [size_eids] using hj) hnd).mp (h1.trans h2.symm)
  subst hjk
  rw [ha, hja]

/-- Rule 3, for every dimension: on an MR dimension with view insertions, the decimal string of
    the element id of a regular (non-inserted) item and the int itself resolve to that item --
    whatever the sub-variable ids are (in real payloads the string IS another item's sub-variable
    id).  Hypotheses: element ids distinct; the string is not itself an alias (rule 1). -/
theorem regular_decimal_eid_on_mr_insertions {d : Dim} (hins : d.mrIns = true) {k : Nat}
    (hk : k < d.size) (hna : (item d k).anchor = false) (hnd : d.eids.Nodup)
    (hal : decStr (item d k).eid ∉ d.aliases) :
    translate d (.str (decStr (item d k).eid)) = some (item d k).alias ∧
    translate d (.int (item d k).eid) = some (item d k).alias := by
  constructor
  · rw [translate_unfold]
    have h1 : rule1 d (.str (decStr (item d k).eid)) = none := by simp [rule1, hal]
    have h2 : rule2 d (.str (decStr (item d k).eid)) = none := rfl
    have h3 : rule3 d (.str (decStr (item d k).eid)) = some (item d k).alias := by
      have hmem : item d k ∈ d.items.filter (fun it => !it.anchor) :=
        List.mem_filter.mpr ⟨List.mem_of_getElem? (items_get hk), by simp [hna]⟩
      simp only [rule3, hins, if_true]
      cases hf : (d.items.filter (fun it => !it.anchor)).find?
          (fun it => decStr it.eid == decStr (item d k).eid) with
      | none =>
        have := List.find?_eq_none.mp hf (item d k) hmem
        simp at this
      | some it =>
        have hp := List.find?_some hf
        have he : it.eid = (item d k).eid := decStr_injective (by simpa using hp)
        simp only [he]
        exact byEid_self hnd hk
    rw [h1, h2, h3]; rfl
  · rw [translate_unfold]
    have h1 : rule1 d (.int (item d k).eid) = none := rfl
    have h2 : rule2 d (.int (item d k).eid) = some (item d k).alias := byEid_self hnd hk
    rw [h1, h2]; rfl

/-- the shim rewrites the reference slots by `translate d` and leaves every other entry as it
    is; the rewritten references do not depend on the other entries -/
theorem shim_ignores_bystanders (d : Dim) (x : DimXf) (b b' : Bystanders) :
    (shimFull d ⟨x, b⟩).rest = b ∧ (shimFull d ⟨x, b⟩).refs = (shimFull d ⟨x, b'⟩).refs := ⟨rfl, rfl⟩

/-- ... and neither does anything the analysis reads of the dimension's items -/
theorem view_ignores_bystanders (d : Dim) (x : DimXf) (b b' : Bystanders) :
    viewFull d ⟨x, b⟩ = viewFull d ⟨x, b'⟩ := rfl

/-- a resolver in which an `insertions` entry of the TRANSFORMS dict overrides the variable's view
    insertions (the rule `Dimension.subtotals` applies to categorical dimensions) -/
def translateOverridden (d : Dim) (b : Bystanders) (r : Ref) : Option String :=
  match b.insertions with
  | some l => translate { d with mrIns := d.mrIns && !l.isEmpty } r
  | none => translate d r

/-- such a resolver is context dependent, and under `"insertions": []` it sends the int and the
    string spelling of the element id of a regular item (Savory, id 2) to different items -/
theorem context_counterexample :
    translateOverridden mrInsDim {} (.str "2") = some "savory" ∧
    translateOverridden mrInsDim { insertions := some [] } (.str "2") = some "spicy" ∧
    translateOverridden mrInsDim { insertions := some [] } (.int 2) = some "savory" ∧
    translateOverridden mrInsDim { insertions := some [("x", false)] } (.str "2") = some "savory" := by
  refine ⟨by decide, by decide, by decide, by decide⟩

/-! ### non-vacuity -/

example : mrInsDim.mrIns = true ∧ 1 < mrInsDim.size ∧ (item mrInsDim 1).anchor = false ∧ mrInsDim.eids.Nodup ∧
          decStr (item mrInsDim 1).eid ∉ mrInsDim.aliases ∧
          -- the string is another item's sub-variable id: the general spec calls it ambiguous
          decStr (item mrInsDim 1).eid = (item mrInsDim 3).subvarId := by decide

end CrCube.C19
