/-
  C08 — sort by an opposing INSERTION when the opposing variable carries view-level insertions
  and the dimension transform re-declares its own `insertions` list.

  `_SortColumnsByInsertedRowHelper._insertion_idx` / `_SortRowsByInsertedColumnHelper._insertion_idx`
  (matrix/assembler.py) are `dimension.insertion_ids.index(order.insertion_id)`, where
  `dimension.insertion_ids` lists the EFFECTIVE subtotals (`Dimension.subtotals`: the transform's
  list when it has one, else the view's) - the list the measure blocks are built from.  The model
  (`Pipeline.rowROrder` / `colROrder`) resolves the key with `indexOf? (bogusIds cdim.subs)`; the
  view list (`Dim.viewSubs`, `subtotals_in_payload_order`) plays no part.

  Theorems (all list sizes):
    * `resolve_names_requested`  the resolved block index holds the subtotal whose id is the key,
      and it is the first such one;
    * `resolve_none_iff`         the key is unresolved (payload fallback) exactly when it is not an
      effective insertion id - being a view id does not help;
    * `resolve_view_free`        two dimensions with the same effective subtotals resolve alike whatever
      their view lists;
    * `colOrder_by_insertion` / `rowOrder_by_insertion`, `colOrder_unresolved` / `rowOrder_unresolved`
      the pipeline model sorts on exactly that block row / column, resp. falls back;
    * `view_resolution_counterexample`  resolving against the view list instead is NOT equivalent
      (view ids [1, 2], transform ids [2, 3, 1]: key 1 would name the block of subtotal 2, key 3
      would be unresolved although it is an effective subtotal).
-/
import CrCube.Model.Pipeline

open CrCube CrCube.Collator CrCube.Pipeline

namespace CrCube.C08

/-- `dimension.insertion_ids.index(insertion_id)` on the effective subtotals (`none` = ValueError). -/
def insertionIdx (subs : List Sub) (key : Int) : Option Nat := indexOf? (bogusIds subs) key

/-- the resolved index holds a subtotal whose insertion id IS the requested key, and no earlier
    subtotal carries that id. -/
theorem resolve_names_requested (subs : List Sub) (key : Int) (k : Nat)
    (h : insertionIdx subs key = some k) :
    (∃ s, subs[k]? = some s ∧ s.insId = key) ∧
      ∀ j, j < k → ∀ s, subs[j]? = some s → s.insId ≠ key := by
  unfold insertionIdx indexOf? bogusIds at h
  rw [List.findIdx?_eq_some_iff_getElem] at h
  obtain ⟨hk, hp, hlt⟩ := h
  simp only [List.length_map] at hk
  simp only [List.getElem_map, beq_iff_eq] at hp
  refine ⟨⟨subs[k], by simp [hk], hp⟩, ?_⟩
  intro j hj s hs
  have hjl : j < subs.length := by omega
  have := hlt j hj
  simp only [List.getElem_map, beq_iff_eq] at this
  rw [List.getElem?_eq_getElem hjl] at hs
  cases hs
  simpa using this

/-- unresolved (→ payload-order fallback) exactly when the key is not an EFFECTIVE insertion id. -/
theorem resolve_none_iff (subs : List Sub) (key : Int) :
    insertionIdx subs key = none ↔ key ∉ bogusIds subs := by
  unfold insertionIdx indexOf?
  rw [List.findIdx?_eq_none_iff]
  constructor
  · intro h hm
    have := h key hm
    simp at this
  · intro h x hx
    simp only [beq_eq_false_iff_ne, ne_eq]
    intro hxe
    exact h (hxe ▸ hx)

/-- resolved whenever the key is an effective id. -/
theorem resolve_some_of_mem (subs : List Sub) (key : Int) (h : key ∈ bogusIds subs) :
    ∃ k, insertionIdx subs key = some k := by
  cases hk : insertionIdx subs key with
  | none => exact absurd h ((resolve_none_iff subs key).mp hk)
  | some k => exact ⟨k, rfl⟩

/-- the view list is irrelevant: same effective subtotals, same resolution. -/
theorem resolve_view_free (d d' : Dim) (key : Int) (h : d.subs = d'.subs) :
    insertionIdx d.subs key = insertionIdx d'.subs key := by rw [h]

/-- `_SortColumnsByInsertedRowHelper`: with the key resolved to block index `k` and the measure
    available, columns are sorted on row `k` of the inserted-rows block, the column subtotals on
    row `k` of the intersections. -/
theorem colOrder_by_insertion (B : MKey → Blocks) (avail : MKey → Bool) (rows cols : RDim)
    (insId : Int) (key : MKey) (o : SortOpts) (k : Nat)
    (hord : cols.order = .oppInsertion insId (some key) o)
    (hres : insertionIdx rows.cdim.subs insId = some k) (hav : avail key = true) :
    colROrder B avail rows cols =
      .byValue o (tab1 (B key).nc (fun j => (B key).insRows k j))
                 (tab1 (B key).ncs (fun l => (B key).inter k l)) := by
  unfold insertionIdx at hres
  simp [colROrder, hord, hres, hav]

/-- key not an effective insertion id of the rows → payload order (never an error, never another
    subtotal's row), whatever the view lists. -/
theorem colOrder_unresolved (B : MKey → Blocks) (avail : MKey → Bool) (rows cols : RDim)
    (insId : Int) (m : Option MKey) (o : SortOpts)
    (hord : cols.order = .oppInsertion insId m o)
    (hno : insId ∉ bogusIds rows.cdim.subs) :
    colROrder B avail rows cols = .payload := by
  have hres := (resolve_none_iff rows.cdim.subs insId).mpr hno
  unfold insertionIdx at hres
  cases m <;> simp [colROrder, hord, hres]

/-- `_SortRowsByInsertedColumnHelper` (categorical columns). -/
theorem rowOrder_by_insertion (B : MKey → Blocks) (avail : MKey → Bool)
    (Mg : MargKey → Option (List Val × List Val)) (rows cols : RDim)
    (insId : Int) (key : MKey) (o : SortOpts) (l : Nat)
    (hord : rows.order = .oppInsertion insId (some key) o) (hcat : cols.kind = .cat)
    (hres : insertionIdx cols.cdim.subs insId = some l) (hav : avail key = true) :
    rowROrder B avail Mg rows cols =
      .byValue o (tab1 (B key).nr (fun i => (B key).insCols i l))
                 (tab1 (B key).nrs (fun k => (B key).inter k l)) := by
  unfold insertionIdx at hres
  simp [rowROrder, hord, hcat, hres, hav]

theorem rowOrder_unresolved (B : MKey → Blocks) (avail : MKey → Bool)
    (Mg : MargKey → Option (List Val × List Val)) (rows cols : RDim)
    (insId : Int) (m : Option MKey) (o : SortOpts)
    (hord : rows.order = .oppInsertion insId m o) (hcat : cols.kind = .cat)
    (hno : insId ∉ bogusIds cols.cdim.subs) :
    rowROrder B avail Mg rows cols = .payload := by
  have hres := (resolve_none_iff cols.cdim.subs insId).mpr hno
  unfold insertionIdx at hres
  cases m <;> simp [rowROrder, hord, hcat, hres]

/-! ### resolving against the view list is a different function -/

/-- the seeded change's witness: view declares ids [1, 2], the transform re-declares [2, 3, 1]. -/
def demoView : List Sub := [{ anchor := .elem 2, insId := 1 }, { anchor := .bottom, insId := 2 }]
def demoEff : List Sub :=
  [{ anchor := .bottom, insId := 2 }, { anchor := .elem 4, insId := 3 }, { anchor := .elem 2, insId := 1 }]

/-- (i) key 1 resolved in the view list gives index 0, where the effective list holds subtotal 2;
    (ii) key 3 is an effective subtotal yet unknown to the view; (iii) the correct resolution
    names the requested subtotal in all three cases. -/
theorem view_resolution_counterexample :
    insertionIdx demoView 1 = some 0 ∧ (demoEff[0]?.map (·.insId)) = some 2 ∧
    insertionIdx demoView 3 = none ∧ insertionIdx demoEff 3 = some 1 ∧
    insertionIdx demoEff 1 = some 2 ∧ insertionIdx demoEff 2 = some 0 := by decide

/-- non-vacuity of the hypotheses above on the witness. -/
example : insertionIdx demoEff 1 = some 2 ∧ (3 : Int) ∈ bogusIds demoEff ∧ (9 : Int) ∉ bogusIds demoEff := by
  decide

end CrCube.C08
