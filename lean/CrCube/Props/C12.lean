/-
  C12 — Residual z-scores and p-values are adjusted standardized residuals.

  Model: `Model/Zscore.lean` (`_Zscores._calculate_zscores`, `_is_defective`, `_Pvalues`).
  Spec: `Spec/ZscoreSpec.lean`.  Helper lemmas: `Lemmas/ZscoreLemmas.lean`.

  The normal CDF is a PARAMETER `Φ`; what is assumed of it are hypotheses of `p_range`
  (Φ monotone, Φ 0 = 1/2, Φ ≤ 1).  `matrix_rank < 2` is "all 2×2 minors vanish", proved
  equivalent to "no two rows are linearly independent".
-/
import CrCube.Lemmas.ZscoreLemmas

set_option linter.unusedSimpArgs false

namespace CrCube.C12
open CrCube

/-! ### the formula, block by block -/

/-- a block whose guard does not fire is the residual formula applied cell by cell -/
theorem z_def (defective : Bool) (cells : List (List ZCell)) (h : blockGuard defective cells = false) :
    zBlock defective cells = cells.map (fun row => row.map ZCell.z) := by
  simp [zBlock, h]

/-- `(counts − r·c/T) / sqrt(r·c·(T − r)·(T − c) / T³)`, from the cell's OWN bases -/
theorem z_formula (x : ZCell) :
    x.z = .divSqrt (x.n - x.r * x.c / x.t)
            (x.r * x.c * (x.t - x.r) * (x.t - x.c) / (x.t * x.t * x.t)) := rfl

/-- a guarded block (defective table, or table base = row base / column base throughout) is NaN -/
theorem z_guarded (defective : Bool) (cells : List (List ZCell)) (h : blockGuard defective cells = true) :
    zBlock defective cells = cells.map (fun row => row.map (fun _ => Out.v .nan)) := by
  simp [zBlock, h]

/-- **defective_nan**: a table lacking two independent rows or columns reports NaN in every cell
    of every block (each block is computed by `zBlock` with the same flag) -/
theorem defective_nan (cells : List (List ZCell)) :
    zBlock true cells = cells.map (fun row => row.map (fun _ => Out.v .nan)) :=
  z_guarded true cells rfl

theorem defective_nan_spec (d : SliceDesign) (s : Survey) (nr nc : Nat) (R C : Side)
    (h : tableDefectiveSpec d s nr nc = true) : zSpec d s nr nc R C = .v .nan := by
  simp [zSpec, zSpecCell, h]

/-- the model's `_is_defective` on the tabulated counts is the specified test -/
theorem defective_eq_spec (d : SliceDesign) (s : Survey) (nr nc : Nat) :
    isDefective nr nc (fun i j => .fin (baseCountSpec d s i j)) = tableDefectiveSpec d s nr nc :=
  isDefective_fin nr nc _

/-- "rank < 2" means what the statement says: an extent is 0, or no two rows of the table are
    linearly independent -/
theorem defective_iff_rows_dependent (nr nc : Nat) (m : Nat → Nat → Rat) :
    tableDefectiveOf nr nc m = true ↔
      (nr = 0 ∨ nc = 0 ∨ ∀ i, i < nr → ∀ k, k < nr → RowsDependent nc (m i) (m k)) := by
  simp only [tableDefectiveOf, Bool.or_eq_true, beq_iff_eq, minorsVanishQ_iff,
    minorsVanish_iff_rows_dependent, or_assoc]

/-- a single row or a single column is always defective -/
theorem defective_of_single (nr nc : Nat) (m : Nat → Nat → Rat) (h : nr < 2 ∨ nc < 2) :
    tableDefectiveOf nr nc m = true := by
  simp only [tableDefectiveOf, Bool.or_eq_true, beq_iff_eq, minorsVanishQ_iff]
  by_cases h0 : nr = 0
  · exact Or.inl (Or.inl h0)
  by_cases h1 : nc = 0
  · exact Or.inl (Or.inr h1)
  right
  intro i hi k hk j hj l hl
  rcases h with h | h
  · have : i = k := by omega
    subst this; ring
  · have : j = l := by omega
    subst this; ring

/-! ### model = spec at respondent level -/

/-- ordinary and subtotal cells (no difference on either side): the residual computed from the
    respondent-level count and the cell's own row / column / table bases is the adjusted
    standardized residual of the statement -/
theorem z_eq_spec (d : SliceDesign) (s : Survey) (R C : Side) (hR : R.OK d.rowV) (hC : C.OK d.colV)
    (hw : WeightsNonneg s) (hRd : R.isDiff = false) (hCd : C.isDiff = false) :
    (ZCell.ofPrims R C (.fin (wsum s (d.isPos R C))) (.fin (wsum s (d.isNeg R C)))
        (.fin (wsum s (d.inBase .table R C))) (.fin (wsum s (d.inBase .row R C)))
        (.fin (wsum s (d.inBase .col R C)))).z
      = zSpecCell false d s R C := by
  have hneg : wsum s (d.isNeg R C) = 0 := by
    rw [← wsum_false s]
    apply wsum_congr
    intro r _
    have h1 : R.sub = [] := by simpa [Side.isDiff] using hRd
    have h2 : C.sub = [] := by simpa [Side.isDiff] using hCd
    simp [SliceDesign.isNeg, SliceDesign.inRowSub, SliceDesign.inColSub, h1, h2, Var.inAny]
  have hcell : ZCell.ofPrims R C (.fin (wsum s (d.isPos R C))) (.fin (wsum s (d.isNeg R C)))
        (.fin (wsum s (d.inBase .table R C))) (.fin (wsum s (d.inBase .row R C)))
        (.fin (wsum s (d.inBase .col R C)))
      = ⟨.fin (wsum s (d.isPos R C)), .fin (wsum s (d.inBase .table R C)),
         .fin (wsum s (d.inBase .row R C)), .fin (wsum s (d.inBase .col R C))⟩ := by
    simp [ZCell.ofPrims, hRd, hCd, hneg, Val.sub_fin]
  rw [hcell]
  simp only [zSpecCell, hRd, hCd, Bool.or_self, Bool.false_eq_true, if_false]
  apply z_eq_adjResidual
  by_cases ht : wsum s (d.inBase .table R C) = 0
  · right
    exact ⟨wsum_zero_of_subset s _ _ hw (fun r _ => d.rowBase_sub_tableBase R C hR hC r) ht,
           wsum_zero_of_subset s _ _ hw (fun r _ => d.colBase_sub_tableBase R C hR hC r) ht⟩
  · exact Or.inl ht

/-- a difference row / column has no own-direction base: both the code's term and the statement's
    value are NaN -/
theorem z_diff_nan (d : SliceDesign) (s : Survey) (R C : Side) (np nn tb rb cb : Val)
    (h : R.isDiff = true ∨ C.isDiff = true) :
    (ZCell.ofPrims R C np nn tb rb cb).z.evalsToNan = true ∧ zSpecCell false d s R C = .v .nan := by
  constructor
  · simp only [ZCell.z, ZCell.expected, ZCell.ofPrims, Out.evalsToNan]
    have key : ∀ (n t r c : Val), (r = .nan ∨ c = .nan) → divSqrtIsNan (n - r * c / t)
        (r * c * (t - r) * (t - c) / (t * t * t)) = true := by
      intro n t r c hrc
      have : n - r * c / t = .nan := by
        rcases hrc with h | h <;> subst h
        · rw [Val.nan_mul, Val.nan_div, Val.sub_nan]
        · rw [Val.mul_nan, Val.nan_div, Val.sub_nan]
      rw [this]; rfl
    apply key
    rcases h with h | h
    · left; simp [h]
    · right; simp [h]
  · rcases h with h | h <;> simp [zSpecCell, h]

/-- **the "table base = row base" guard is redundant**: where it fires, the adjusted standardized
    residual of the statement is 0/0 = NaN as well (so NaN is not a spurious omission) -/
theorem guard_row_full_spec_nan (d : SliceDesign) (s : Survey) (R C : Side) (hR : R.OK d.rowV)
    (hC : C.OK d.colV) (hw : WeightsNonneg s)
    (h : wsum s (d.inBase .table R C) = wsum s (d.inBase .row R C)) :
    (zSpecCell false d s R C).evalsToNan = true := by
  by_cases hd : (R.isDiff || C.isDiff) = true
  · simp [zSpecCell, hd, Out.evalsToNan, Val.isNan]
  · simp only [zSpecCell, hd, Bool.false_eq_true, if_false]
    apply adjResidual_nan_of_full _ _ _ _ h (count_eq_colBase_of_row_full d s R C hR hC hw h)
    intro ht
    exact wsum_zero_of_subset s _ _ hw (fun r _ => d.colBase_sub_tableBase R C hR hC r) ht

theorem guard_col_full_spec_nan (d : SliceDesign) (s : Survey) (R C : Side) (hR : R.OK d.rowV)
    (hC : C.OK d.colV) (hw : WeightsNonneg s)
    (h : wsum s (d.inBase .table R C) = wsum s (d.inBase .col R C)) :
    (zSpecCell false d s R C).evalsToNan = true := by
  by_cases hd : (R.isDiff || C.isDiff) = true
  · simp [zSpecCell, hd, Out.evalsToNan, Val.isNan]
  · simp only [zSpecCell, hd, Bool.false_eq_true, if_false]
    apply adjResidual_nan_of_full_col _ _ _ _ h (count_eq_rowBase_of_col_full d s R C hR hC hw h)
    intro ht
    exact wsum_zero_of_subset s _ _ hw (fun r _ => d.rowBase_sub_tableBase R C hR hC r) ht

/-! ### p-values -/

/-- p = 2 (1 − Φ(|z|)), cell by cell -/
theorem p_def (zs : List (List Out)) : pBlock zs = zs.map (fun row => row.map Out.normTail2) := rfl

/-- under the stated assumptions on Φ the p-value lies in [0, 1] -/
theorem p_range (Φ : ℝ → ℝ) (hmono : Monotone Φ) (h0 : Φ 0 = 1 / 2) (hle : ∀ x, Φ x ≤ 1) (z : Out) :
    0 ≤ (Out.normTail2 z).toReal Φ ∧ (Out.normTail2 z).toReal Φ ≤ 1 := by
  simp only [Out.toReal]
  have h1 : 1 / 2 ≤ Φ |z.toReal Φ| := by rw [← h0]; exact hmono (abs_nonneg _)
  have h2 := hle |z.toReal Φ|
  constructor <;> linarith

/-- symmetric in the sign of z -/
theorem p_symm (Φ : ℝ → ℝ) (n d : Val) :
    (Out.normTail2 (.divSqrt (-n) d)).toReal Φ = (Out.normTail2 (.divSqrt n d)).toReal Φ := by
  simp only [Out.toReal]
  cases n with
  | fin q => simp [Val.toReal, neg_div, abs_neg]
  | nan => rfl
  | pinf => rfl
  | ninf => rfl

/-! ### 2 × 2 tables: z² is the Pearson chi-square -/

theorem pearsonChi2_swap_cols (a b c d : Rat) : pearsonChi2 b a d c = pearsonChi2 a b c d := by
  simp only [pearsonChi2]
  have e1 : b + a + d + c = a + b + c + d := by ring
  have e2 : b + a = a + b := by ring
  have e3 : d + c = c + d := by ring
  rw [e1, e2, e3]; ring

theorem pearsonChi2_swap_rows (a b c d : Rat) : pearsonChi2 c d a b = pearsonChi2 a b c d := by
  simp only [pearsonChi2]
  have e1 : c + d + a + b = a + b + c + d := by ring
  have e2 : c + a = a + c := by ring
  have e3 : d + b = b + d := by ring
  rw [e1, e2, e3]; ring

/-- the z-score cell of the top-left cell of the 2 × 2 CAT × CAT table [[a, b], [c, d]] -/
def cell11 (a b c d : Rat) : ZCell :=
  ⟨.fin a, .fin (a + b + c + d), .fin (a + b), .fin (a + c)⟩

/-- closed form of the Pearson statistic: T (ad − bc)² / (r₁ r₂ c₁ c₂) -/
theorem pearsonChi2_closed (a b c d : Rat) (hr1 : a + b ≠ 0) (hr2 : c + d ≠ 0) (hc1 : a + c ≠ 0)
    (hc2 : b + d ≠ 0) (hT : a + b + c + d ≠ 0) :
    pearsonChi2 a b c d
      = (a * d - b * c) * (a * d - b * c) * (a + b + c + d) / ((a + b) * (c + d) * (a + c) * (b + d)) := by
  simp only [pearsonChi2]
  rw [chi2_term a (a + b) (a + c) _ (a * d - b * c) hr1 hc1 hT (by ring),
    chi2_term b (a + b) (b + d) _ (a * d - b * c) hr1 hc2 hT (by ring),
    chi2_term c (c + d) (a + c) _ (a * d - b * c) hr2 hc1 hT (by ring),
    chi2_term d (c + d) (b + d) _ (a * d - b * c) hr2 hc2 hT (by ring)]
  have := chi2_sum (a * d - b * c) (a + b + c + d) (a + b) (c + d) (a + c) (b + d) hr1 hr2 hc1 hc2 hT
    (by ring) (by ring)
  rw [← this]

theorem z_sq_is_chi2_11 (Φ : ℝ → ℝ) (a b c d : Rat)
    (hr1 : 0 < a + b) (hr2 : 0 < c + d) (hc1 : 0 < a + c) (hc2 : 0 < b + d) :
    ((cell11 a b c d).z.toReal Φ) ^ 2 = ((pearsonChi2 a b c d : Rat) : ℝ) := by
  have hT : 0 < a + b + c + d := by linarith
  have hT' : a + b + c + d ≠ 0 := ne_of_gt hT
  have hT3 : (a + b + c + d) * (a + b + c + d) * (a + b + c + d) ≠ 0 := by positivity
  have e1 : a + b + c + d + -(a + b) = c + d := by ring
  have e2 : a + b + c + d + -(a + c) = b + d := by ring
  have hvar : 0 < (a + b) * (a + c) * (c + d) * (b + d)
      / ((a + b + c + d) * (a + b + c + d) * (a + b + c + d)) := by positivity
  simp only [cell11, ZCell.z, ZCell.expected, ZCell.variance, Val.mul_fin, Val.sub_fin,
    Val.div_fin_ne _ _ hT', Val.div_fin_ne _ _ hT3, Out.toReal, Val.toReal, e1, e2]
  rw [div_pow, Real.sq_sqrt (by exact_mod_cast hvar.le)]
  rw [← Rat.cast_pow, ← Rat.cast_div]
  congr 1
  rw [pearsonChi2_closed a b c d (ne_of_gt hr1) (ne_of_gt hr2) (ne_of_gt hc1) (ne_of_gt hc2) hT']
  have := z_sq_closed a (a + b) (a + c) (a + b + c + d) (c + d) (b + d) (a * d - b * c)
    (ne_of_gt hr1) (ne_of_gt hc1) hT' (ne_of_gt hr2) (ne_of_gt hc2) (by ring)
  rw [show a + -((a + b) * (a + c) / (a + b + c + d)) = a - (a + b) * (a + c) / (a + b + c + d) by ring,
    this]

/-- every base cell of a 2 × 2 CAT × CAT table: z² = Pearson χ² of the table -/
theorem z_sq_is_chi2 (Φ : ℝ → ℝ) (a b c d : Rat)
    (hr1 : 0 < a + b) (hr2 : 0 < c + d) (hc1 : 0 < a + c) (hc2 : 0 < b + d) :
    ((cell11 a b c d).z.toReal Φ) ^ 2 = ((pearsonChi2 a b c d : Rat) : ℝ)
    ∧ ((cell11 b a d c).z.toReal Φ) ^ 2 = ((pearsonChi2 a b c d : Rat) : ℝ)
    ∧ ((cell11 c d a b).z.toReal Φ) ^ 2 = ((pearsonChi2 a b c d : Rat) : ℝ)
    ∧ ((cell11 d c b a).z.toReal Φ) ^ 2 = ((pearsonChi2 a b c d : Rat) : ℝ) := by
  refine ⟨z_sq_is_chi2_11 Φ a b c d hr1 hr2 hc1 hc2, ?_, ?_, ?_⟩
  · rw [z_sq_is_chi2_11 Φ b a d c (by linarith) (by linarith) hc2 hc1, pearsonChi2_swap_cols]
  · rw [z_sq_is_chi2_11 Φ c d a b hr2 hr1 (by linarith) (by linarith), pearsonChi2_swap_rows]
  · rw [z_sq_is_chi2_11 Φ d c b a (by linarith) (by linarith) (by linarith) (by linarith),
      pearsonChi2_swap_cols, pearsonChi2_swap_rows]

/-! ### non-vacuity -/

-- a regular 2 × 2 table: z of the top-left cell, its square = χ² = 4/9·… (values checked by evaluation)
example : tableDefectiveOf 2 2 (fun i j => if i = j then 2 else 1) = false := by decide +kernel
-- proportional rows: defective
example : tableDefectiveOf 2 3 (fun i j => ((i + 1) * (j + 1) : Nat)) = true := by decide +kernel
-- a single column: defective
example : tableDefectiveOf 3 1 (fun i _ => (i : Rat) + 1) = true := by decide +kernel
-- the hypotheses of `z_sq_is_chi2` are satisfiable and the two sides evaluate to the same rational
example : pearsonChi2 2 1 1 2 = 2 / 3 := by decide +kernel
example : (cell11 2 1 1 2).n - (cell11 2 1 1 2).expected = .fin (1 / 2)
    ∧ (cell11 2 1 1 2).variance = .fin (3 / 8) := by decide +kernel
-- the Φ assumptions are satisfiable (a clipped linear CDF)
example : ∃ Φ : ℝ → ℝ, Monotone Φ ∧ Φ 0 = 1 / 2 ∧ ∀ x, Φ x ≤ 1 := by
  refine ⟨fun x => min 1 (max 0 (x + 1 / 2)), ?_, ?_, fun x => min_le_left _ _⟩
  · intro x y hxy
    exact min_le_min le_rfl (max_le_max le_rfl (by linarith))
  · norm_num

namespace Witness
def Rv : Var := ⟨.arr, 2, [false, false, true], true⟩      -- MR rows, 2 items
def Cv : Var := ⟨.cat, 2, [false, false], false⟩
def d : SliceDesign := ⟨none, Rv, Cv⟩
/-- nobody answers "other": every eligible respondent selected the item (table base = row base) -/
def sFull : Survey := [⟨1, [[0, 0], [0]]⟩, ⟨2, [[0, 2], [1]]⟩, ⟨1, [[2, 0], [1]]⟩]
def sReg : Survey := [⟨1, [[0, 1], [0]]⟩, ⟨2, [[1, 0], [1]]⟩, ⟨1, [[1, 1], [0]]⟩, ⟨1, [[0, 0], [1]]⟩]
end Witness

open Witness in
example : (Side.base 0).OK d.rowV ∧ (Side.base 0).OK d.colV ∧ WeightsNonneg sFull
    ∧ wsum sFull (d.inBase .table (.base 0) (.base 0)) = wsum sFull (d.inBase .row (.base 0) (.base 0))
    ∧ (zSpecCell false d sFull (.base 0) (.base 0)).evalsToNan = true := by
  refine ⟨Side.base_OK 0 _, Side.base_OK 0 _, ?_, by decide +kernel, by decide +kernel⟩
  intro r hr
  simp only [sFull, List.mem_cons, List.mem_nil_iff, or_false] at hr
  rcases hr with rfl | rfl | rfl <;> decide +kernel

-- a regular table: the spec z of cell (0,0) is a genuine finite residual term
open Witness in
example : tableDefectiveSpec d sReg 2 2 = false
    ∧ (zSpec d sReg 2 2 (.base 0) (.base 0)).evalsToNan = false := by decide +kernel

end CrCube.C12
