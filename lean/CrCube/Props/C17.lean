/-
  C17 — population estimates scale the right proportion by population and filter share.
  Model: CrCube/Model/Population.lean (+ Model/Json.lean).  Spec: CrCube/Spec/PopulationSpec.lean.
-/
import CrCube.Lemmas.Population
import Mathlib.Tactic.Ring

namespace CrCube.C17
open CrCube CrCube.Population CrCube.PopulationSpec

/-! ### the fraction cascade -/

theorem field?_obj (kvs : List (String × J)) (k : String) :
    field? (some (J.obj kvs)) k = kvs.lookup k := rfl

/-- **fraction_cascade**: on every WELL-FORMED response (filter statistics absent, `{}`, old style, new
    style, zeros, null leaves — every enclosing object absent or an object) the code returns the fraction
    the property defines:  selected/(selected+other) of the weighted complete-case statistics when present
    (1 for a categorical-date filter), else filtered/unfiltered weighted N, 1 when either is unspecified,
    NaN when the denominator is zero — and never raises. -/
theorem fraction_cascade (result : J) (hwf : wellFormed result = true) :
    populationFraction result = .ok (fractionOf (viewOf result)) := by
  cases result with
  | obj kvs =>
    simp only [wellFormed, Bool.and_eq_true, field?_obj] at hwf
    obtain ⟨⟨⟨⟨⟨⟨⟨⟨_, hfs⟩, hfc⟩, hw⟩, hcd⟩, h1⟩, h2⟩, h3⟩, h4⟩ := hwf
    unfold populationFraction
    rw [pyGet_obj]
    simp only [bind, Except.bind]
    rw [pyGet_objOrAbsent _ hfs]
    simp only []
    rw [pyGet_objOrAbsent _ hfc]
    simp only []
    -- name the three lookups
    generalize ha : kvs.lookup "filter_stats" = a at *
    by_cases ht : ((field? (field? a "filtered_complete") "weighted").getD J.null).truthy = true
    · -- new style
      rw [if_pos ht]
      cases hwo : field? (field? a "filtered_complete") "weighted" with
      | none => rw [hwo] at ht; simp [J.truthy] at ht
      | some w =>
        rw [hwo] at ht hw
        simp only [Option.getD_some] at ht ⊢
        obtain ⟨wkvs, sel, oth, rfl, hs, ho⟩ := weightedOk_truthy w hw ht
        -- filter_stats is an object (it has a field)
        cases a with
        | none => simp [field?] at hwo
        | some fsj =>
          cases fsj with
          | obj fkvs =>
            simp only [Option.getD_some]
            have hcd' : catDateOk (fkvs.lookup "is_cat_date") = true := by simpa [field?] using hcd
            rw [newStyle_wf fkvs wkvs sel oth hcd' hs ho]
            simp only [field?_obj] at hwo
            simp only [viewOf, field?_obj, ha, hwo, completeOf, hs, ho, num?, fractionOf]
          | null => simp [field?] at hwo
          | bool b => simp [field?] at hwo
          | num q => simp [field?] at hwo
          | str s => simp [field?] at hwo
          | arr l => simp [field?] at hwo
    · -- old style
      have htf : ((field? (field? a "filtered_complete") "weighted").getD J.null).truthy = false := by
        simpa using ht
      rw [if_neg ht, oldStyle_wf kvs h1 h2 h3 h4]
      have hc := weightedOk_falsy _ hw htf
      simp only [viewOf, field?_obj, ha, fractionOf]
      rw [hc]
  | null => simp [wellFormed] at hwf
  | bool b => simp [wellFormed] at hwf
  | num q => simp [wellFormed] at hwf
  | str s => simp [wellFormed] at hwf
  | arr l => simp [wellFormed] at hwf


/-- `CubeSet.population_fraction` is the first cube's -/
theorem cubeset_fraction (r : J) (rs : List J) : cubeSetFraction (r :: rs) = populationFraction r := rfl

/-- the decision logic spelled out on the structured view (every branch of the property sentence) -/
theorem fraction_decision (v : FilterView) :
    fractionOf v =
      match v.complete with
      | some (sel, oth) =>
        if v.isCatDate then Val.fin 1
        else if sel + oth = 0 then Val.nan else Val.fin (sel / (sel + oth))
      | none =>
        match v.filteredN, v.unfilteredN with
        | some f, some u => if u = 0 then Val.nan else Val.fin (f / u)
        | _, _ => Val.fin 1 := by
  unfold fractionOf ratioOf
  cases v.complete <;> rfl

/-! #### every shape of the quantifier, on raw JSON (non-vacuity of `wellFormed`, and the values) -/

private def o (l : List (String × J)) : J := .obj l
private def n (q : Rat) : J := .num q

-- absent / empty at every level
example : wellFormed (o []) = true ∧ populationFraction (o []) = .ok 1 := by decide +kernel
example : populationFraction (o [("filter_stats", o [])]) = .ok 1 := by decide +kernel
example : populationFraction (o [("filter_stats", o [("filtered_complete", o [])])]) = .ok 1 := by decide +kernel
example : populationFraction (o [("filter_stats", o [("filtered_complete", o [("weighted", o [])])])]) = .ok 1 := by
  decide +kernel
-- new style
example : wellFormed (o [("filter_stats", o [("filtered_complete", o [("weighted", o [("selected", n 3), ("other", n 1)])])])]) = true ∧
    populationFraction (o [("filter_stats", o [("filtered_complete", o [("weighted", o [("selected", n 3), ("other", n 1)])])])])
      = .ok (Val.fin (3/4)) := by decide +kernel
-- new style wins over old style when both are present
example : populationFraction (o [("filter_stats", o [("filtered_complete", o [("weighted", o [("selected", n 3), ("other", n 1)])])]),
      ("filtered", o [("weighted_n", n 1)]), ("unfiltered", o [("weighted_n", n 2)])]) = .ok (Val.fin (3/4)) := by decide +kernel
-- new style, zero denominator
example : populationFraction (o [("filter_stats", o [("filtered_complete", o [("weighted", o [("selected", n 0), ("other", n 0)])])])])
      = .ok Val.nan := by decide +kernel
-- categorical-date filter
example : populationFraction (o [("filter_stats", o [("is_cat_date", .bool true),
      ("filtered_complete", o [("weighted", o [("selected", n 3), ("other", n 1)])])])]) = .ok 1 := by decide +kernel
example : populationFraction (o [("filter_stats", o [("is_cat_date", .bool false),
      ("filtered_complete", o [("weighted", o [("selected", n 3), ("other", n 1)])])])]) = .ok (Val.fin (3/4)) := by decide +kernel
-- null `weighted` falls through to old style
example : wellFormed (o [("filter_stats", o [("filtered_complete", o [("weighted", .null)])]),
      ("filtered", o [("weighted_n", n 1)]), ("unfiltered", o [("weighted_n", n 4)])]) = true ∧
    populationFraction (o [("filter_stats", o [("filtered_complete", o [("weighted", .null)])]),
      ("filtered", o [("weighted_n", n 1)]), ("unfiltered", o [("weighted_n", n 4)])]) = .ok (Val.fin (1/4)) := by decide +kernel
-- old style: value, zero denominator, null / absent leaves
example : populationFraction (o [("filtered", o [("weighted_n", n 1)]), ("unfiltered", o [("weighted_n", n 4)])])
      = .ok (Val.fin (1/4)) := by decide +kernel
example : populationFraction (o [("filtered", o [("weighted_n", n 1)]), ("unfiltered", o [("weighted_n", n 0)])])
      = .ok Val.nan := by decide +kernel
example : populationFraction (o [("filtered", o [("weighted_n", n 0)]), ("unfiltered", o [("weighted_n", n 0)])])
      = .ok Val.nan := by decide +kernel
example : populationFraction (o [("filtered", o [("weighted_n", .null)]), ("unfiltered", o [("weighted_n", n 4)])])
      = .ok 1 := by decide +kernel
example : populationFraction (o [("filtered", o [("weighted_n", .null)]), ("unfiltered", o [("weighted_n", n 0)])])
      = .ok 1 := by decide +kernel
example : populationFraction (o [("filtered", o []), ("unfiltered", o [("weighted_n", n 4)])]) = .ok 1 := by decide +kernel

/-- **fraction_null_objects_counterexample** (F10, outside `wellFormed`): a null in place of an ENCLOSING object, a
    null or missing `selected` / `other`, or a non-dict truthy `weighted` escape as Python exceptions instead
    of giving 1 — the lookups sit outside the `try`. -/
theorem fraction_null_objects_counterexample :
    populationFraction (o [("filter_stats", .null)]) = .error .attributeError ∧
    populationFraction (o [("filter_stats", o [("filtered_complete", .null)])]) = .error .attributeError ∧
    populationFraction (o [("filtered", .null)]) = .error .attributeError ∧
    populationFraction (o [("unfiltered", .null)]) = .error .attributeError ∧
    populationFraction (o [("filter_stats", o [("filtered_complete", o [("weighted", o [("selected", .null), ("other", n 1)])])])])
      = .error .typeError ∧
    populationFraction (o [("filter_stats", o [("filtered_complete", o [("weighted", o [("selected", n 1)])])])])
      = .error .keyError ∧
    populationFraction (o [("filter_stats", o [("filtered_complete", o [("weighted", n 5)])])]) = .error .typeError ∧
    wellFormed (o [("filter_stats", .null)]) = false := by
  decide +kernel

/-! ### which proportion, which standard error -/

/-- **pop_proportion_choice**: rows categorical-date → row proportions and row std-errs; else columns
    categorical-date → column proportions and column std-errs; else table proportions and table std-errs.
    The std-err always MATCHES the proportion.  (Both categorical-date: rows win — F9, as coded.) -/
theorem pop_proportion_choice (s : SliceIn) :
    (s.rowsCatDate = true → s.chosenProps = s.rowProps ∧ s.popStdErr = s.rowSE) ∧
    (s.rowsCatDate = false → s.colsCatDate = true → s.chosenProps = s.colProps ∧ s.popStdErr = s.colSE) ∧
    (s.rowsCatDate = false → s.colsCatDate = false → s.chosenProps = s.tableProps ∧ s.popStdErr = s.tableSE) := by
  refine ⟨?_, ?_, ?_⟩
  · intro h; simp [SliceIn.chosenProps, SliceIn.popStdErr, popMode, h]
  · intro h1 h2; simp [SliceIn.chosenProps, SliceIn.popStdErr, popMode, h1, h2]
  · intro h1 h2; simp [SliceIn.chosenProps, SliceIn.popStdErr, popMode, h1, h2]

/-- the model's mode is the property's base-of-proportion -/
theorem popMode_within (r c : Bool) :
    (popMode r c = .rows ↔ withinOf r c = .rowDate) ∧ (popMode r c = .cols ↔ withinOf r c = .colDate) ∧
    (popMode r c = .table ↔ withinOf r c = .table) := by
  cases r <;> cases c <;> simp [popMode, withinOf]

/-- is the display cell (i, j) in a difference row / column? -/
def isDiff (s : SliceIn) (i j : Nat) : Bool := s.diffRows.contains i || s.diffCols.contains j

/-- the three assembled proportion matrices ARE the respondent-level proportions of the survey `sv`
    (display row `i` ↦ line `rl i`, display column `j` ↦ line `cl j`) — hypothesis of `pop_counts`,
    discharged per case by the correspondence check (and by C10 for the proportions themselves). -/
def PropsAre (s : SliceIn) (sv : Survey) (rv cv : Nat) (rl cl : Nat → Line) : Prop :=
  (∀ i j, s.rowProps i j = popProportion sv rv cv (rl i) (cl j) .rowDate) ∧
  (∀ i j, s.colProps i j = popProportion sv rv cv (rl i) (cl j) .colDate) ∧
  (∀ i j, s.tableProps i j = popProportion sv rv cv (rl i) (cl j) .table)

/-- **pop_counts**: estimate = (respondent-level proportion within the table / the row's date / the column's
    date) · population · fraction, NaN on subtotal differences — Model = Spec for every cell. -/
theorem pop_counts (s : SliceIn) (sv : Survey) (rv cv : Nat) (rl cl : Nat → Line)
    (h : PropsAre s sv rv cv rl cl) (population : Rat) (fraction : Val) (i j : Nat) :
    s.popCounts (.fin population) fraction i j =
      estimate (isDiff s i j)
        (popProportion sv rv cv (rl i) (cl j) (withinOf s.rowsCatDate s.colsCatDate)) population fraction := by
  obtain ⟨hr, hc, ht⟩ := h
  unfold SliceIn.popCounts SliceIn.popProps estimate isDiff
  by_cases hj : s.diffCols.contains j = true
  · simp only [hj, if_true, Bool.or_true]; rfl
  · by_cases hi : s.diffRows.contains i = true
    · simp only [hi, hj, if_true, Bool.true_or]; rfl
    · have hi' : s.diffRows.contains i = false := by simpa using hi
      have hj' : s.diffCols.contains j = false := by simpa using hj
      simp only [hi', hj', Bool.or_self, Bool.false_eq_true, if_false]
      cases hrc : s.rowsCatDate <;> cases hcc : s.colsCatDate <;>
        simp [SliceIn.chosenProps, popMode, withinOf, hrc, hcc, hr, hc, ht]

/-- the raw arithmetic: on a non-difference cell the estimate is chosen proportion · population · fraction -/
theorem pop_counts_formula (s : SliceIn) (population fraction : Val) (i j : Nat)
    (hi : s.diffRows.contains i = false) (hj : s.diffCols.contains j = false) :
    s.popCounts population fraction i j = s.chosenProps i j * population * fraction := by
  unfold SliceIn.popCounts SliceIn.popProps
  rw [hj, hi]; rfl

/-- **diffs_nan**: every cell of a difference row or column is NaN, whatever population and fraction -/
theorem diffs_nan (s : SliceIn) (population fraction : Val) (i j : Nat)
    (h : s.diffRows.contains i = true ∨ s.diffCols.contains j = true) :
    s.popCounts population fraction i j = Val.nan := by
  unfold SliceIn.popCounts SliceIn.popProps
  rcases h with h | h
  · by_cases hj : s.diffCols.contains j = true
    · simp only [hj, if_true]; rfl
    · simp only [hj, h, if_true]; rfl
  · simp only [h, if_true]; rfl

theorem fin_mul_inf_ne_fin (p t : Rat) :
    Val.fin p * Val.pinf ≠ Val.fin t ∧ Val.fin p * Val.ninf ≠ Val.fin t := by
  constructor
  · show Val.mul (.fin p) .pinf ≠ _
    unfold Val.mul
    simp only []
    split <;> (try split) <;> simp
  · show Val.mul (.fin p) .ninf ≠ _
    unfold Val.mul
    simp only []
    split <;> (try split) <;> simp

/-- the model's margin of error is the property's formula (population finite) -/
theorem moe_eq (p : Rat) (frac : Val) (se : Out) : moe (.fin p) frac se = marginOfError p frac se := by
  cases frac with
  | fin f => rfl
  | nan => rfl
  | pinf =>
    unfold moe marginOfError
    split
    · rename_i t h; exact absurd h (fin_mul_inf_ne_fin p t).1
    · rfl
  | ninf =>
    unfold moe marginOfError
    split
    · rename_i t h; exact absurd h (fin_mul_inf_ne_fin p t).2
    · rfl

/-- **pop_moe**: margin of error = 1.959964 · population · fraction · (the std-err MATCHING the chosen
    proportion); NaN when the fraction is NaN. -/
theorem pop_moe (s : SliceIn) (population : Rat) (fraction : Val) (i j : Nat) :
    s.popMoe (.fin population) fraction i j = marginOfError population fraction (s.popStdErr i j) ∧
    (∀ f, fraction = .fin f →
      s.popMoe (.fin population) fraction i j =
        Out.scale ((1959964 / 1000000 : Rat) * (population * f)) (s.popStdErr i j)) ∧
    (fraction = .nan → s.popMoe (.fin population) fraction i j = Out.v .nan) := by
  refine ⟨moe_eq _ _ _, ?_, ?_⟩
  · intro f hf; subst hf; rfl
  · intro hf; subst hf; rfl


/-! ### linearity in the population -/

/-- not ±inf (proportions and fractions are finite or NaN) -/
def notInf : Val → Bool
  | .pinf => false
  | .ninf => false
  | _ => true

theorem scale_linear (p frac : Val) (k pop : Rat) (hp : notInf p = true) (hf : notInf frac = true) :
    p * Val.fin (k * pop) * frac = Val.fin k * (p * Val.fin pop * frac) := by
  cases p <;> simp [notInf] at hp <;> cases frac <;> simp [notInf] at hf
  · rename_i a f
    simp only [Val.mul_fin]
    congr 1; ring
  all_goals rfl

theorem scale_additive (p frac : Val) (a b : Rat) (hp : notInf p = true) (hf : notInf frac = true) :
    p * Val.fin (a + b) * frac = p * Val.fin a * frac + p * Val.fin b * frac := by
  cases p <;> simp [notInf] at hp <;> cases frac <;> simp [notInf] at hf
  · rename_i x f
    simp only [Val.mul_fin, Val.add_fin]
    congr 1; ring
  all_goals rfl

/-- **linear_in_population**: estimates are homogeneous and additive in the target population, for every cell
    (difference cells included: NaN both sides), every fraction (NaN included). -/
theorem linear_in_population (s : SliceIn) (fraction : Val) (i j : Nat)
    (hp : notInf (s.chosenProps i j) = true) (hf : notInf fraction = true) :
    (∀ k pop : Rat, s.popCounts (.fin (k * pop)) fraction i j = Val.fin k * s.popCounts (.fin pop) fraction i j) ∧
    (∀ a b : Rat, s.popCounts (.fin (a + b)) fraction i j =
        s.popCounts (.fin a) fraction i j + s.popCounts (.fin b) fraction i j) := by
  have hpp : notInf (s.popProps i j) = true := by
    unfold SliceIn.popProps
    split
    · rfl
    · split
      · rfl
      · exact hp
  exact ⟨fun k pop => scale_linear _ _ k pop hpp hf, fun a b => scale_additive _ _ a b hpp hf⟩

/-- the margin of error's coefficient is homogeneous in the population too -/
theorem moe_linear (s : SliceIn) (k pop f : Rat) (i j : Nat) :
    s.popMoe (.fin (k * pop)) (.fin f) i j = Out.scale (k * (Z975 * (pop * f))) (s.popStdErr i j) := by
  show Out.scale (Z975 * (k * pop * f)) _ = _
  congr 1; ring

/-- population 0 gives 0 wherever the proportion and the fraction are numbers -/
theorem zero_population (s : SliceIn) (p f : Rat) (i j : Nat) (h : s.popProps i j = .fin p) :
    s.popCounts (.fin 0) (.fin f) i j = .fin 0 := by
  simp [SliceIn.popCounts, h]

/-! ### strands -/

/-- **strand_choice**: categorical-date rows → proportion 1 and std-err 0 for every row (each date projects the
    full population); otherwise the table proportion and its std-err -/
theorem strand_choice (s : StrandIn) (i : Nat) :
    (s.rowsCatDate = true → s.chosenProps i = .fin 1 ∧ s.popStdErr i = Out.v (.fin 0)) ∧
    (s.rowsCatDate = false → s.chosenProps i = s.tableProps i ∧ s.popStdErr i = s.tableSE i) := by
  constructor <;> intro h <;> simp [StrandIn.chosenProps, StrandIn.popStdErr, h]

/-- **strand_counts**: Model = Spec for every row of a strand whose table proportions are the respondent-level
    ones -/
theorem strand_counts (s : StrandIn) (sv : Survey) (rl : Nat → Line)
    (h : ∀ i, s.tableProps i = strandProportion sv (rl i) false)
    (population : Rat) (fraction : Val) (i : Nat) :
    s.popCounts (.fin population) fraction i =
      estimate (s.diffRows.contains i) (strandProportion sv (rl i) s.rowsCatDate) population fraction := by
  unfold StrandIn.popCounts StrandIn.popProps estimate
  by_cases hi : s.diffRows.contains i = true
  · simp only [hi, if_true]; rfl
  · have hi' : s.diffRows.contains i = false := by simpa using hi
    simp only [hi', Bool.false_eq_true, if_false]
    cases hc : s.rowsCatDate
    · simp [StrandIn.chosenProps, hc, h]
    · simp [StrandIn.chosenProps, hc, strandProportion]

theorem strand_diffs_nan (s : StrandIn) (population fraction : Val) (i : Nat)
    (h : s.diffRows.contains i = true) : s.popCounts population fraction i = Val.nan := by
  unfold StrandIn.popCounts StrandIn.popProps
  simp only [h, if_true]; rfl

theorem strand_moe (s : StrandIn) (population : Rat) (fraction : Val) (i : Nat) :
    s.popMoe (.fin population) fraction i = marginOfError population fraction (s.popStdErr i) :=
  moe_eq _ _ _

theorem strand_linear (s : StrandIn) (fraction : Val) (i : Nat)
    (hp : notInf (s.chosenProps i) = true) (hf : notInf fraction = true) (k pop : Rat) :
    s.popCounts (.fin (k * pop)) fraction i = Val.fin k * s.popCounts (.fin pop) fraction i := by
  have hpp : notInf (s.popProps i) = true := by
    unfold StrandIn.popProps
    split
    · rfl
    · exact hp
  exact scale_linear _ _ k pop hpp hf

/-! ### non-vacuity of the hypotheses -/

private def demo : SliceIn :=
  { rowsCatDate := false, colsCatDate := true
    rowProps := fun _ _ => .fin (1/2), colProps := fun _ _ => .fin (1/4), tableProps := fun _ _ => .fin (1/8)
    rowSE := fun _ _ => .sqrt (.fin 1), colSE := fun _ _ => .sqrt (.fin 2), tableSE := fun _ _ => .sqrt (.fin 3)
    diffRows := [2], diffCols := [] }

example : demo.popCounts (.fin 1000) (.fin (3/4)) 0 0 = .fin (375/2) := by decide +kernel
example : demo.popCounts (.fin 1000) (.fin (3/4)) 2 0 = .nan := by decide +kernel
example : demo.popCounts (.fin 1000) .nan 0 0 = .nan := by decide +kernel
example : notInf (demo.chosenProps 0 0) = true ∧ notInf (Val.fin (3/4)) = true ∧ notInf Val.nan = true := by decide
example : demo.diffRows.contains 2 = true ∧ demo.diffRows.contains 0 = false ∧ demo.diffCols.contains 0 = false := by decide

/-- a two-respondent survey for which `PropsAre` holds of the matrices computed from it -/
private def sv2 : Survey := [{ w := 1, ans := [[0], [0]] }, { w := 3, ans := [[1], [0]] }]
private def rl2 (i : Nat) : Line := .cat [i] [0, 1]
private def cl2 (j : Nat) : Line := .cat [j] [0]
private def demo2 : SliceIn :=
  { demo with rowProps := fun i j => popProportion sv2 0 1 (rl2 i) (cl2 j) .rowDate
              colProps := fun i j => popProportion sv2 0 1 (rl2 i) (cl2 j) .colDate
              tableProps := fun i j => popProportion sv2 0 1 (rl2 i) (cl2 j) .table }
example : PropsAre demo2 sv2 0 1 rl2 cl2 := ⟨fun _ _ => rfl, fun _ _ => rfl, fun _ _ => rfl⟩
example : demo2.popCounts (.fin 100) (.fin 1) 1 0 = .fin 75 := by decide +kernel

end CrCube.C17
