/-
  C11 — the variance of a proportion under a COMMON SCALE of the weights.

  Multiplying every weight of the survey by a factor f ≠ 0 multiplies each of the numbers the
  three-term formula reads (positive, negative count and weighted base) by f.  The proportion and the
  variance do not move; the radicand of the standard error (variance / base) is divided by f.  So no
  absolute threshold or rounding of a weighted count can be part of the formula: `harness/props/
  c11_wscale.py` runs the library on surveys whose weights carry factors 2^20 … 2^-60.
-/
import CrCube.Model.Variance
import CrCube.Lemmas.VarianceLemmas

namespace CrCube.C11
open CrCube

/-- the quotient the library takes for an ordinary / subtotal / difference proportion is scale-free -/
theorem proportion_scale (f nt np nn : Rat) (hf : f ≠ 0) (hnt : nt ≠ 0) :
    (Val.fin (f * np) - Val.fin (f * nn)) / Val.fin (f * nt)
      = (Val.fin np - Val.fin nn) / Val.fin nt := by
  have h : f * nt ≠ 0 := mul_ne_zero hf hnt
  simp only [Val.sub_fin]
  rw [Val.div_fin_ne _ _ h, Val.div_fin_ne _ _ hnt]
  congr 1
  field_simp

/-- `_calc_var` with `_count_ignored`: all three counts times f, same proportion ⇒ same variance -/
theorem variance_scale (f p nt np nn : Rat) (hf : f ≠ 0) (hnt : nt ≠ 0) :
    varianceOf (.fin p) (.fin (f * nt)) (.fin (f * np)) (.fin (f * nn))
      = varianceOf (.fin p) (.fin nt) (.fin np) (.fin nn) := by
  have h : f * nt ≠ 0 := mul_ne_zero hf hnt
  simp only [varianceOf, countIgnored_fin]
  rw [calcVar_fin _ _ _ _ _ h, calcVar_fin _ _ _ _ _ hnt]
  congr 1
  field_simp

/-- the radicand of the standard error is divided by the factor -/
theorem stderr_radicand_scale (f v nt : Rat) (hf : f ≠ 0) (hnt : nt ≠ 0) :
    Val.fin v / Val.fin (f * nt) = Val.fin (v / nt / f) := by
  rw [Val.div_fin_ne _ _ (mul_ne_zero hf hnt)]
  congr 1
  field_simp

/-- non-vacuity and a concrete reading: weighted N = 3·2⁻²⁰ against N = 3 -/
example : varianceOf (.fin (1/3)) (.fin (3 / 2^20)) (.fin (2 / 2^20)) (.fin (1 / 2^20))
    = varianceOf (.fin (1/3)) (.fin 3) (.fin 2) (.fin 1) := by
  have := variance_scale (1 / 2^20) (1/3) 3 2 1 (by norm_num) (by norm_num)
  norm_num at this ⊢
  exact this

end CrCube.C11
