/-
  C03 (extension) — zero bases under the CALLER's floating-point policy.
  Property theorems only.  Model: `Model/FpEnv.lean` (events of a true division, guard blocks, caller policies).

  "NaN exactly where the base is zero" is a statement about a returned VALUE; numpy returns that value only if the event
  the zero base signals (`divide` for x / 0, `invalid` for 0 / 0) is either tolerated by the caller or shielded by the
  library's `np.errstate(divide="ignore", invalid="ignore")`.  With both events shielded the statement holds under EVERY
  caller policy; with one of them dropped it fails for a caller who raises on the other (both counterexamples below).
-/
import CrCube.Model.FpEnv
import CrCube.Lemmas.ValFacts

namespace CrCube.C03
open CrCube CrCube.FpEnv

/-- under the library's full guard a division returns `Val.div` whatever the caller's policy -/
theorem guarded_div_never_raises (caller : Policy) (x y : Val) :
    guardedDiv Guard.full caller x y = .ok (x / y) := by
  unfold guardedDiv
  cases divEvent x y <;> simp [Guard.full]

/-- the VALUE never depends on guard or policy: whenever something is returned it is `Val.div` -/
theorem guarded_div_value (g : Guard) (caller : Policy) (x y v : Val)
    (h : guardedDiv g caller x y = .ok v) : v = x / y := by
  unfold guardedDiv at h
  cases he : divEvent x y with
  | none => simp [he] at h; exact h.symm
  | some e =>
    simp only [he] at h
    by_cases hc : (!g e && caller e) = true
    · simp [hc] at h
    · simp [hc] at h; exact h.symm

/-- a division raises exactly when it signals an event that the guard does not name and the caller does not tolerate -/
theorem raises_iff_unshielded_event (g : Guard) (caller : Policy) (x y : Val) (e : Event) :
    guardedDiv g caller x y = .error e ↔ (divEvent x y = some e ∧ g e = false ∧ caller e = true) := by
  unfold guardedDiv
  cases he : divEvent x y with
  | none => simp
  | some e' =>
    by_cases hc : (!g e' && caller e') = true
    · simp only [hc, if_true]
      constructor
      · intro h
        have : e' = e := by injection h
        subst this
        simpa using hc
      · rintro ⟨h1, _, _⟩
        have : e' = e := by injection h1
        subst this; rfl
    · simp only [hc]
      constructor
      · intro h; simp at h
      · rintro ⟨h1, h2, h3⟩
        have : e' = e := by injection h1
        subst this
        simp [h2, h3] at hc

/-- the respondent-level expectation of a proportion vector -/
def propsSpec : List (Rat × Rat) → List Val
  | [] => []
  | (c, b) :: r => (if b = 0 then Val.nan else Val.fin (c / b)) :: propsSpec r

def asVals : List (Rat × Rat) → List (Val × Val)
  | [] => []
  | (c, b) :: r => (Val.fin c, Val.fin b) :: asVals r

def CountsLeBases : List (Rat × Rat) → Prop
  | [] => True
  | (c, b) :: r => 0 ≤ c ∧ c ≤ b ∧ CountsLeBases r

/-- **a proportion vector under the full guard**: for every caller policy the array count / base is returned,
    NaN exactly at the zero bases (counts and bases as C03 has them: 0 ≤ count ≤ base) - no exception -/
theorem guarded_props_eq_spec (caller : Policy) (cb : List (Rat × Rat)) (h : CountsLeBases cb) :
    guardedDivs Guard.full caller (asVals cb) = .ok (propsSpec cb) := by
  induction cb with
  | nil => rfl
  | cons p r ih =>
    obtain ⟨c, b⟩ := p
    obtain ⟨h0, hcb, hr⟩ := h
    simp only [asVals, guardedDivs, guarded_div_never_raises, ih hr, propsSpec,
      Val.div_count_base c b h0 hcb]

/-- non-vacuity: an all-zero row next to a positive one satisfies the hypothesis, and the spec has a NaN there -/
example : CountsLeBases [(0, 0), (3, 12)] := by simp [CountsLeBases]; norm_num
example : propsSpec [(0, 0), (3, 12)] = [.nan, .fin (1 / 4)] := by
  simp [propsSpec]; norm_num

/-- a guard that names only `divide` (the seeded narrowing): 0 / 0 over a zero base raises for a caller who
    raises on `invalid` - the NaN the statement demands is never returned -/
theorem divide_only_guard_counterexample :
    guardedDiv Guard.divideOnly (fun e => e == .invalid) (.fin 0) (.fin 0) = .error .invalid
    ∧ guardedDivs Guard.divideOnly (fun e => e == .invalid) (asVals [(3, 12), (0, 0)]) = .error .invalid := by
  constructor <;> simp [guardedDiv, guardedDivs, asVals, divEvent, Guard.divideOnly]

/-- the mirror image: a guard that names only `invalid` lets x / 0 (positive count over a zero base - a wrong base
    paired with a count) raise for a caller who raises on `divide` -/
theorem invalid_only_guard_counterexample :
    guardedDiv Guard.invalidOnly (fun e => e == .divide) (.fin 1) (.fin 0) = .error .divide := by
  simp [guardedDiv, divEvent, Guard.invalidOnly]

end CrCube.C03
