/-
  C16 — Column index compares column share with the unconditional row share.

  Model: `Model/ColumnIndex.lean` (mirrors `_BaseUnconditionalCubeCounts` AFTER fix F4 and
  `_ColumnIndex`).  Spec: `Spec/ColumnIndexSpec.lean` (respondent level).
  Helper lemmas: `Lemmas/Uncond.lean`.

  Hypotheses used: every variable is categorical or multiple response with the selection axis
  [selected, other, missing] (`Var.CM3`); respondents' answers fit the design (`SurveyFits`);
  element positions in range.
-/
import CrCube.Lemmas.Uncond
import CrCube.Lemmas.CellSpecLemmas

set_option linter.unusedSimpArgs false

namespace CrCube.C16
open CrCube

/-! ### the four `.baseline` variants (2-D) -/

/-- CAT × CAT: `np.sum(cwm, axis=1)[valid rows] / Σ` = W(row i) / W(valid row), column unrestricted -/
theorem baseline_spec_catXcat (R C : Var) (hR : R.kind = .cat) (hC : C.kind = .cat) (s : Survey)
    (hf : SurveyFits [R, C] s) (i j : Nat) (hi : i < R.ext) (hj : j < C.ext) :
    baselineCatXCat (cubeOf [R, C] s) (validIdxs R.catMissing) i j = baselineSpec ⟨none, R, C⟩ s i := by
  have h := baselineOfCube_two R C (Or.inl hR) (Or.inl hC) s hf 0 i j hi hj true
  simpa [baselineOfCube, apparentKinds, Var.dks, hR, hC, uncondSlice, baselineOf,
    apparentValidIdxs, List.getD] using h

/-- CAT × MR -/
theorem baseline_spec_catXmr (R C : Var) (hR : R.kind = .cat)
    (hC : C.kind = .arr ∧ C.isMR = true ∧ C.catMissing = [false, false, true]) (s : Survey)
    (hf : SurveyFits [R, C] s) (i j : Nat) (hi : i < R.ext) (hj : j < C.ext) :
    baselineCatXMr (cubeOf [R, C] s) (validIdxs R.catMissing) i j = baselineSpec ⟨none, R, C⟩ s i := by
  have h := baselineOfCube_two R C (Or.inl hR) (Or.inr hC) s hf 0 i j hi hj true
  simpa [baselineOfCube, apparentKinds, Var.dks, hR, hC.1, hC.2.1, uncondSlice, baselineOf,
    apparentValidIdxs, List.getD] using h

/-- MR × CAT: W(selected item i) / W(item i not missing), column unrestricted -/
theorem baseline_spec_mrXcat (R C : Var)
    (hR : R.kind = .arr ∧ R.isMR = true ∧ R.catMissing = [false, false, true]) (hC : C.kind = .cat)
    (s : Survey) (hf : SurveyFits [R, C] s) (i j : Nat) (hi : i < R.ext) (hj : j < C.ext) :
    baselineMrXCat (cubeOf [R, C] s) (List.range R.n) i j = baselineSpec ⟨none, R, C⟩ s i := by
  have h := baselineOfCube_two R C (Or.inr hR) (Or.inl hC) s hf 0 i j hi hj true
  simpa [baselineOfCube, apparentKinds, Var.dks, hR.1, hR.2.1, hC, uncondSlice, baselineOf,
    apparentValidIdxs, List.getD] using h

/-- MR × MR -/
theorem baseline_spec_mrXmr (R C : Var)
    (hR : R.kind = .arr ∧ R.isMR = true ∧ R.catMissing = [false, false, true])
    (hC : C.kind = .arr ∧ C.isMR = true ∧ C.catMissing = [false, false, true])
    (s : Survey) (hf : SurveyFits [R, C] s) (i j : Nat) (hi : i < R.ext) (hj : j < C.ext) :
    baselineMrXMr (cubeOf [R, C] s) i j = baselineSpec ⟨none, R, C⟩ s i := by
  have h := baselineOfCube_two R C (Or.inr hR) (Or.inr hC) s hf 0 i j hi hj true
  simpa [baselineOfCube, apparentKinds, Var.dks, hR.1, hR.2.1, hC.1, hC.2.1, uncondSlice, baselineOf,
    apparentValidIdxs, List.getD] using h

/-! ### whole pipeline from the raw cube array -/

/-- 2-D: baseline of the tabulated cube = W(in row element) / W(eligible), column unrestricted -/
theorem baseline_spec_2d (R C : Var) (hR : R.CM3) (hC : C.CM3) (s : Survey)
    (hf : SurveyFits [R, C] s) (i j : Nat) (hi : i < R.ext) (hj : j < C.ext) :
    baselineOfCube [R, C] (cubeOf [R, C] s) 0 true i j = baselineSpec ⟨none, R, C⟩ s i :=
  baselineOfCube_two R C hR hC s hf 0 i j hi hj true

/-- 3-D: partition k (position among the VALID table elements, missing table categories at any
    payload position) — shares among the respondents of that table element -/
theorem baseline_spec_3d (T R C : Var) (hT : T.CM3) (hR : R.CM3) (hC : C.CM3) (s : Survey)
    (hf : SurveyFits [T, R, C] s) (k i j : Nat) (hk : k < T.ext) (hi : i < R.ext) (hj : j < C.ext) :
    baselineOfCube [T, R, C] (cubeOf [T, R, C] s) k true i j = baselineSpec ⟨some (T, k), R, C⟩ s i :=
  baselineOfCube_three T R C hT hR hC s hf k i j hk hi hj

/-! ### the index itself -/

/-- `100 * ((counts / column base) / baseline)` on base cells, NaN on inserted cells -/
theorem colIndex_def (inserted : Bool) (count colBase baseline : Val) :
    columnIndexCell inserted count colBase baseline
      = if inserted then .nan else (.fin 100) * ((count / colBase) / baseline) := rfl

theorem colIndex_inserted_nan (count colBase baseline : Val) :
    columnIndexCell true count colBase baseline = .nan := rfl

/-- NaN where either share is undefined (NaN column proportion or NaN baseline) -/
theorem colIndex_nan_of_undefined_share (count colBase baseline : Val)
    (h : count / colBase = .nan ∨ baseline = .nan) :
    columnIndexCell false count colBase baseline = .nan := by
  simp only [columnIndexCell, columnIndexBase]
  rcases h with h | h
  · rw [h]; cases baseline <;> rfl
  · rw [h]; cases (count / colBase) <;> rfl

/-- 2-D: the displayed index of base cell (i, j) computed from the tabulated cube is the
    respondent-level `100 · column proportion / unconditional row share` -/
theorem colIndex_spec_2d (R C : Var) (hR : R.CM3) (hC : C.CM3) (s : Survey)
    (hf : SurveyFits [R, C] s) (i j : Nat) (hi : i < R.ext) (hj : j < C.ext) :
    columnIndexOfCube [R, C] (cubeOf [R, C] s) 0 true i j
      = columnIndexSpec ⟨none, R, C⟩ s (.base i) (.base j) := by
  simp only [columnIndexOfCube, columnIndexBase, columnIndexSpec, Side.base, Bool.or_self,
    Bool.false_eq_true, if_false, List.headD_cons]
  rw [colProp_two R C hR.cm hC.cm s hf i j hi hj, baselineOfCube_two R C hR hC s hf 0 i j hi hj true]

theorem colIndex_spec_3d (T R C : Var) (hT : T.CM3) (hR : R.CM3) (hC : C.CM3) (s : Survey)
    (hf : SurveyFits [T, R, C] s) (k i j : Nat) (hk : k < T.ext) (hi : i < R.ext) (hj : j < C.ext) :
    columnIndexOfCube [T, R, C] (cubeOf [T, R, C] s) k true i j
      = columnIndexSpec ⟨some (T, k), R, C⟩ s (.base i) (.base j) := by
  simp only [columnIndexOfCube, columnIndexBase, columnIndexSpec, Side.base, Bool.or_self,
    Bool.false_eq_true, if_false, List.headD_cons]
  rw [sliceCounts_restrict T R C hT.cm hR.cm hC.cm s k hk,
    colProp_two R C hR.cm hC.cm (restrictTo T k s) (surveyFits_restrict T [R, C] s k hf) i j hi hj,
    baselineOfCube_three T R C hT hR hC s hf k i j hk hi hj, colPropSpec_restrict]

/-- spec level: inserted rows / columns have no index -/
theorem colIndexSpec_inserted (d : SliceDesign) (s : Survey) (R C : Side)
    (h : R.inserted = true ∨ C.inserted = true) : columnIndexSpec d s R C = .nan := by
  unfold columnIndexSpec
  rcases h with h | h <;> simp [h]

/-- spec level: nobody eligible for the row element ⇒ NaN -/
theorem colIndexSpec_nan_of_no_eligible (d : SliceDesign) (s : Survey) (i j : Nat)
    (hw : WeightsNonneg s) (h : rowEligibleW d s i = 0) :
    columnIndexSpec d s (.base i) (.base j) = .nan := by
  have hle : rowMembersW d s i ≤ rowEligibleW d s i := by
    unfold rowMembersW rowEligibleW
    apply wsum_mono _ _ _ hw
    intro r _ hr
    simp only [Bool.and_eq_true] at hr ⊢
    exact ⟨hr.1, d.rowV.inElem_eligible _ _ hr.2⟩
  have h0 : rowMembersW d s i = 0 := by
    have := wsum_nonneg s (fun r => d.inTable r && d.rowV.inElem (d.rowAns r) i) hw
    unfold rowMembersW at hle ⊢
    linarith
  simp only [columnIndexSpec, Side.base, Bool.or_self, Bool.false_eq_true, if_false,
    List.headD_cons, baselineSpec, h, h0]
  cases colPropSpec d s i j <;> rfl

/-! ### the code as found (before fix F4) refutes the property -/

namespace Witness
/-- table variable whose first payload category is MISSING, the second valid -/
def T : Var := ⟨.cat, 2, [true, false], false⟩
def R : Var := ⟨.cat, 2, [false, false], false⟩
def C : Var := ⟨.cat, 1, [false], false⟩
/-- two respondents in the valid table category (rows 0 and 1), one of weight 2 in the missing one (row 0) -/
def s : Survey := [⟨1, [[1], [0], [0]]⟩, ⟨1, [[1], [1], [0]]⟩, ⟨2, [[0], [0], [0]]⟩]
end Witness

open Witness in
/-- `counts_with_missings[slice_idx]` with `slice_idx` a position among VALID table elements reads
    the missing table category: index 50 instead of the specified 100. -/
theorem unfixed_factory_counterexample :
    columnIndexOfCube [T, R, C] (cubeOf [T, R, C] s) 0 false 0 0 = .fin 50 ∧
    columnIndexSpec ⟨some (T, 0), R, C⟩ s (.base 0) (.base 0) = .fin 100 ∧
    columnIndexOfCube [T, R, C] (cubeOf [T, R, C] s) 0 true 0 0 = .fin 100 := by
  decide +kernel

-- non-vacuity of the hypotheses of `baseline_spec_3d` / `colIndex_spec_3d`
open Witness in
example : T.CM3 ∧ R.CM3 ∧ C.CM3 ∧ SurveyFits [T, R, C] s ∧ 0 < T.ext ∧ 0 < R.ext ∧ 0 < C.ext := by
  refine ⟨Or.inl rfl, Or.inl rfl, Or.inl rfl, ?_, by decide, by decide, by decide⟩
  intro r hr
  simp only [s, List.mem_cons, List.mem_nil_iff, or_false] at hr
  rcases hr with rfl | rfl | rfl <;> decide

-- an MR design satisfies `CM3`
example : (⟨.arr, 3, [false, false, true], true⟩ : Var).CM3 := Or.inr ⟨rfl, rfl, rfl⟩

-- the undefined-share hypotheses are satisfiable: 0/0 column proportion
example : (Val.fin 0) / (Val.fin 0) = Val.nan := by decide

end CrCube.C16
