/-
  C02 (extension) — bases for the remaining dimension-type pairings (MR × ARR, ARR × ARR) and for
  the straddled categorical-array layouts.  Property theorems only; helpers in
  Lemmas/SliceArrPairs.lean; the per-respondent reading of every `specCount [A, X]` below is
  `C01.straddle_reading`, of every `fusedCount` `C01.fused_reading` / `C01.fusedMR_reading`.

  The library's rule for an array-items dimension: items are different questions, so nothing is
  ever added ACROSS items.  Hence for a slice whose COLUMNS are array items (MR × ARR, CAT × ARR):
  the row base of a cell is the cell's own count; the column base is what it would be for a
  categorical column — the members of the column with a valid answer on the rows variable (for a
  multiple-response row: non-missing on THAT item, so it varies by cell and no 1-D margin exists);
  the table base is the column base.

  The unweighted bases are the same statements for `unweight s`
  (`C02.unweighted_counts_respondents`).
-/
import CrCube.Lemmas.SliceArrPairs
import CrCube.Props.C01_ArrPairs
import CrCube.Props.C02_Arr

set_option linter.unusedSimpArgs false

namespace CrCube.C02
open CrCube

/-! ### (S1) categories(A) × X × items(A): partition k = valid category k, an X × ARR slice -/

/-- column base of cell (i, j) of partition k: respondents who answered the k-th valid category on
    item j AND have a valid answer on X (multiple-response X: are non-missing on item i);
    table base = column base; row base = the cell's own count (columns are array items). -/
theorem s1_bases_spec (A X : Var) (hA : A.IsCA) (hX : X.CM) (s : Survey) (k i j : Nat)
    (hk : k < A.np) (hi : i < X.ext) (hj : j < A.n) :
    let m := sliceCountsS1 A X (cubeOfS1 A X s) k
    m.columnBases i j = .fin (specCount [A, X] s [j, k, i] [false, false, true]) ∧
    m.tableBases i j = .fin (specCount [A, X] s [j, k, i] [false, false, true]) ∧
    m.rowBases i j = .fin (specCount [A, X] s [j, k, i] [false, false, false]) ∧
    m.rowBases i j = m.counts i j ∧ m.tableBases i j = m.columnBases i j := by
  intro m
  have hc : m.columnBases i j = .fin (specCount [A, X] s [j, k, i] [false, false, true]) := by
    show (sliceCountsS1 A X ((cubeOf [A, X] s).straddle1 X.rank) k).columnBases i j = _
    rw [sliceS1_columnBases A X hX]
    exact rawT2_rowBases A X hA hX s k j i hk hj hi false
  have hn : m.counts i j = .fin (specCount [A, X] s [j, k, i] [false, false, false]) :=
    C01.s1_counts_faithful A X hA hX s k i j hk hi hj
  have hr : m.rowBases i j = m.counts i j := sliceS1_rowBases A X hX k i j _
  have ht : m.tableBases i j = m.columnBases i j := sliceS1_tableBases A X hX k i j _
  exact ⟨hc, by rw [ht, hc], by rw [hr, hn], hr, ht⟩

/-- which margins exist in layout S1: for a CATEGORICAL X a columns base (= the column bases, also
    serving as columns table base); for a MULTIPLE-RESPONSE X none at all (`_MrXArrCubeCounts`:
    the column base varies by row) -/
theorem s1_margins (A X : Var) (hX : X.CM) (rawS : FT) (k : Nat) :
    let m := sliceCountsS1 A X rawS k
    m.rowsBase = none ∧ m.rowsTableBase = none ∧ m.tableBase = none ∧
    (X.kind = .cat → m.columnsBase = some (fun j => m.columnBases 0 j) ∧
                     m.columnsTableBase = some (fun j => m.columnBases 0 j)) ∧
    (X.kind = .arr → m.columnsBase = none ∧ m.columnsTableBase = none) := by
  rcases hX with hX | ⟨hX, hmX, _⟩ <;>
  simp [sliceCountsS1, sliceCountsOf, kindsS1, Var.dks, hX, *, MatCounts.factory,
    MatCounts.catXarr, MatCounts.mrXarr]

/-! ### (S2) items(A) × X × categories(A): partition k = item k, an X × CAT slice -/

/-- row base: belongs to element i of X AND has a VALID answer on item k;
    column base: answered the j-th valid category on item k AND has a valid answer on X
    (multiple-response X: non-missing on item i); table base: valid on both. -/
theorem s2_bases_spec (A X : Var) (hA : A.IsCA) (hX : X.CM) (s : Survey) (k i j : Nat)
    (hk : k < A.n) (hi : i < X.ext) (hj : j < A.np) :
    let m := sliceCountsS2 A X (cubeOfS2 A X s) k
    m.rowBases i j = .fin (specCount [A, X] s [k, j, i] [false, true, false]) ∧
    m.columnBases i j = .fin (specCount [A, X] s [k, j, i] [false, false, true]) ∧
    m.tableBases i j = .fin (specCount [A, X] s [k, j, i] [false, true, true]) := by
  intro m
  refine ⟨?_, ?_, ?_⟩
  · show (sliceCountsS2 A X ((cubeOf [A, X] s).straddle2 X.rank) k).rowBases i j = _
    rw [sliceS2_rowBases A X hX]
    exact rawS2_rowBases A X hA hX s k i j hk hi false
  · show (sliceCountsS2 A X ((cubeOf [A, X] s).straddle2 X.rank) k).columnBases i j = _
    rw [sliceS2_columnBases A X hX]
    exact rawT2_rowBases A X hA hX s j k i hj hk hi false
  · show (sliceCountsS2 A X ((cubeOf [A, X] s).straddle2 X.rank) k).tableBases i j = _
    rw [sliceS2_tableBases A X hX]
    exact rawS2_tableBases A X hA hX s k i j hk hi false

/-! ### (F) fused variables ("scorecard"): one M × ARR slice -/

/-- column base of cell (i, j): respondents with a valid answer to variable j (multiple response:
    non-missing on item i of variable j — selected or not selected); table base = column base;
    row base = the cell's own count (the columns are different variables). -/
theorem fused_bases_spec (M : Var) (hM : M.CM) (q : Nat) (s : Survey) (i j : Nat)
    (hi : i < M.ext) (hj : j < q) :
    let m := sliceCountsFused M q (cubeOfFused M q s)
    m.columnBases i j = .fin (fusedCount M s i j true) ∧
    m.tableBases i j = .fin (fusedCount M s i j true) ∧
    m.rowBases i j = .fin (fusedCount M s i j false) ∧
    m.rowBases i j = m.counts i j ∧ m.tableBases i j = m.columnBases i j := by
  intro m
  have hc : m.columnBases i j = .fin (fusedCount M s i j true) := by
    show (sliceCountsFused M q (cubeOfFused M q s)).columnBases i j = _
    rw [sliceF_columnBases M hM q _ i j hj]
    exact rawF_columnBases M hM q s i j hi
  have hn : m.counts i j = .fin (fusedCount M s i j false) :=
    C01.fused_counts_faithful M hM q s i j hi hj
  have hr : m.rowBases i j = m.counts i j := sliceF_rowBases M hM q _ i j
  have ht : m.tableBases i j = m.columnBases i j := sliceF_tableBases M hM q _ i j
  exact ⟨hc, by rw [ht, hc], by rw [hr, hn], hr, ht⟩

/-- a fused multiple-response cube (MR × ARR) defines no 1-D margin and no scalar table base -/
theorem fused_margins (M : Var) (hM : M.kind = .arr ∧ M.isMR = true) (q : Nat) (raw : FT) :
    let m := sliceCountsFused M q raw
    m.rowsBase = none ∧ m.columnsBase = none ∧ m.rowsTableBase = none ∧
    m.columnsTableBase = none ∧ m.tableBase = none := by
  simp [sliceCountsFused, sliceCountsOf, Var.dks, hM.1, hM.2, MatCounts.factory, MatCounts.mrXarr]

/-! ### (AA) two array-items axes -/

/-- every base of an ARR × ARR cell is the cell's own (payload) count; no margin is defined -/
theorem arrXarr_bases (rv cv : List Nat) (raw : FT) (i j : Nat) :
    let m := sliceCountsAA rv cv raw
    m.rowBases i j = m.counts i j ∧ m.columnBases i j = m.counts i j ∧
    m.tableBases i j = m.counts i j ∧
    m.rowsBase = none ∧ m.columnsBase = none ∧ m.rowsTableBase = none ∧
    m.columnsTableBase = none ∧ m.tableBase = none := by
  have h := sliceAA_all rv cv raw i j
  exact ⟨h.2.1, h.2.2.1, h.2.2.2.1, h.2.2.2.2.2.2⟩

/-! ### non-vacuity (hypotheses as in C01_ArrPairs) and worked instances (tests) -/

example : (⟨.arr, 2, [false, true, false], false⟩ : Var).IsCA ∧
    (⟨.arr, 2, [false, false, true], true⟩ : Var).CM ∧
    ((⟨.arr, 2, [false, false, true], true⟩ : Var).kind = .arr ∧
      (⟨.arr, 2, [false, false, true], true⟩ : Var).isMR = true) ∧
    (1 : Nat) < (⟨.arr, 2, [false, true, false], false⟩ : Var).np ∧
    (1 : Nat) < (⟨.arr, 2, [false, false, true], true⟩ : Var).ext :=
  ⟨⟨rfl, rfl⟩, Or.inr ⟨rfl, rfl, by decide⟩, ⟨rfl, rfl⟩, by decide, by decide⟩

-- (S1) MR × ARR, partition = valid category 1 (raw 2): the column base of (MR item 1, array item 0)
-- counts those who answered raw 2 on item 0 and are non-missing on MR item 1 (the last respondent
-- is missing there)
example :
    let A : Var := ⟨.arr, 2, [false, true, false], false⟩
    let X : Var := ⟨.arr, 2, [false, false, true], true⟩
    let s : Survey := [⟨2, [[2, 2], [0, 0]]⟩, ⟨1/2, [[2, 0], [1, 1]]⟩, ⟨3, [[0, 2], [0, 0]]⟩,
      ⟨5, [[2, 1], [0, 2]]⟩]
    let m := sliceCountsS1 A X (cubeOfS1 A X s) 1
    m.counts 1 0 = .fin 2 ∧ m.columnBases 1 0 = .fin (5/2) ∧ m.rowBases 1 0 = .fin 2 ∧
    m.tableBases 1 0 = .fin (5/2) ∧ m.columnBases 0 0 = .fin (15/2) := by decide +kernel

-- (S2) MR × CAT, partition = item 0: row base = selected and valid on item 0
example :
    let A : Var := ⟨.arr, 2, [false, true, false], false⟩
    let X : Var := ⟨.arr, 2, [false, false, true], true⟩
    let s : Survey := [⟨2, [[2, 2], [0, 0]]⟩, ⟨1/2, [[1, 0], [0, 1]]⟩, ⟨3, [[0, 2], [0, 0]]⟩,
      ⟨5, [[2, 1], [2, 2]]⟩]
    let m := sliceCountsS2 A X (cubeOfS2 A X s) 0
    m.rowBases 0 0 = .fin 5 ∧ m.columnBases 0 1 = .fin 2 ∧ m.tableBases 0 0 = .fin 5 ∧
    m.counts 0 1 = .fin 2 := by decide +kernel

-- (F) fused MR: column base of (item 1, variable 1) leaves out the respondent missing there
example :
    let M : Var := ⟨.arr, 2, [false, false, true], true⟩
    let s : Survey := [⟨2, [[0, 0], [1, 0]]⟩, ⟨1/2, [[1, 0], [2, 2]]⟩, ⟨3, [[0, 1], [0, 1]]⟩]
    let m := sliceCountsFused M 2 (cubeOfFused M 2 s)
    m.columnBases 1 1 = .fin 5 ∧ m.counts 1 1 = .fin 2 ∧ m.rowBases 1 1 = .fin 2 ∧
    m.tableBases 1 0 = .fin (11/2) := by decide +kernel

end CrCube.C02
