/-
  C06 (extension) — `CubeSet`: zipping, inflation, augmentation, CA-as-0th, set-level attributes,
  on the Lean model of `CubeSet` over RAW responses (Model/CubeSet.lean).  Property theorems only.
-/
import CrCube.Lemmas.CubeSetZip
import CrCube.Lemmas.CubeSetCubes
import CrCube.Props.C06
import CrCube.Props.C01_Glue

set_option linter.unusedSimpArgs false

namespace CrCube.C06
open CrCube CrCube.Glue

/-! ## partition sets -/

theorem partsFrom_spec (loads : String → R J) (ord : List String) :
    ∀ (cs : List CubeSt) (j0 : Nat) (parts : List (List Part)), partsFrom loads ord j0 cs = .ok parts →
      parts.length = cs.length ∧
      ∀ (j : Nat) (c : CubeSt), cs[j]? = some c → (parts[j]?.map Except.ok) = some (cubeParts loads ord (j0 + j) c) := by
  intro cs
  induction cs with
  | nil => intro j0 parts h; simp only [partsFrom] at h; cases h; simp
  | cons c cs ih =>
    intro j0 parts h
    simp only [partsFrom] at h
    obtain ⟨p, hp, h⟩ := bind_eq_ok h
    obtain ⟨ps, hps, h⟩ := bind_eq_ok h
    simp only [R_pure, Except.ok.injEq] at h
    subst h
    obtain ⟨hl, hi⟩ := ih (j0 + 1) ps hps
    refine ⟨by simp [hl], ?_⟩
    intro j c' hc'
    cases j with
    | zero =>
      simp only [List.getElem?_cons_zero, Option.some.injEq] at hc'
      subst hc'
      simp [hp]
    | succ j =>
      simp only [List.getElem?_cons_succ] at hc' ⊢
      rw [hi j c' hc', show j0 + 1 + j = j0 + (j + 1) by omega]

/-- **partition sets line up the k-th partition of every cube**: `partition_sets` is `zip(*…)` of
    the cubes' partition tuples — the j-th member of the k-th set is the k-th partition of cube j,
    every set has one member per cube. -/
theorem partition_sets_zip (loads : String → R J) (ord : List String) (rs : List J) (ts : J)
    (sets : List (List Part)) (h : partitionSets loads ord rs ts = .ok sets) :
    ∃ cs parts, cubes loads ord rs ts = .ok cs ∧ partsFrom loads ord 0 cs = .ok parts ∧
      parts.length = cs.length ∧
      ∀ k : Nat, k < sets.length →
        (∀ j : Nat, (sets[k]?.bind (·[j]?)) = (parts[j]?.bind (·[k]?))) ∧
        (sets[k]?.map List.length) = some cs.length := by
  unfold partitionSets at h
  obtain ⟨cs, hcs, h⟩ := bind_eq_ok h
  obtain ⟨parts, hparts, h⟩ := bind_eq_ok h
  simp only [R_pure, Except.ok.injEq] at h
  subst h
  obtain ⟨hl, _⟩ := partsFrom_spec loads ord cs 0 parts hparts
  refine ⟨cs, parts, hcs, hparts, hl, ?_⟩
  intro k hk
  rw [zipN_length] at hk
  have hlt : ∀ l ∈ parts, k < l.length := fun l hl' => Nat.lt_of_lt_of_le hk (minLen_le parts l hl')
  rw [zipN_get parts k hk]
  refine ⟨fun j => ?_, ?_⟩
  · simp only [Option.bind_some]
    exact filterMap_get_member parts k hlt j
  · simp [filterMap_get_length parts k hlt, hl]

/-- **their number is the minimum** of the cubes' partition counts: the zip truncates to the
    shortest cube (never pads) -/
theorem partition_sets_length (loads : String → R J) (ord : List String) (rs : List J) (ts : J)
    (sets : List (List Part)) (h : partitionSets loads ord rs ts = .ok sets) :
    ∃ cs parts, cubes loads ord rs ts = .ok cs ∧ partsFrom loads ord 0 cs = .ok parts ∧
      (∀ l ∈ parts, sets.length ≤ l.length) ∧ (parts ≠ [] → ∃ l ∈ parts, l.length = sets.length) ∧
      (parts = [] → sets = []) := by
  unfold partitionSets at h
  obtain ⟨cs, hcs, h⟩ := bind_eq_ok h
  obtain ⟨parts, hparts, h⟩ := bind_eq_ok h
  simp only [R_pure, Except.ok.injEq] at h
  subst h
  refine ⟨cs, parts, hcs, hparts, ?_, ?_, ?_⟩
  · intro l hl; rw [zipN_length]; exact minLen_le parts l hl
  · intro hne; rw [zipN_length]; exact minLen_attained parts hne
  · intro he; subst he; rfl

/-! ## inflation -/

/-- **The one-row dimension changes no value** (tensor level): the valid-element cube of the inflated
    response (shape 1 :: shape over the SAME flat payload, design = unit variable :: design) has an
    extra leading axis of extent 1 and every cell equals the un-inflated one. -/
theorem inflate_values_unchanged (vars : List Var) (sh : List Nat) (data : List Val) :
    (validCube (unitVar :: vars) (FT.ofFlat (1 :: sh) data)).shape
        = 1 :: (validCube vars (FT.ofFlat sh data)).shape ∧
    ∀ (i : Nat) (ix : List Nat),
      (validCube (unitVar :: vars) (FT.ofFlat (1 :: sh) data)).get (i :: ix)
        = (validCube vars (FT.ofFlat sh data)).get ix :=
  validCube_unit vars sh data

/-- a 1-D column cube (categorical or MR) becomes a 1 × n slice with the strand's counts -/
theorem inflate_counts_unchanged_1d (V : Var) (hV : V.CM) (sh : List Nat) (data : List Val) (j : Nat) :
    let m := sliceCounts [unitVar, V] (FT.ofFlat (1 :: sh) data) 0
    m.nrows = 1 ∧ m.ncols = V.ext ∧
    m.counts 0 j = (strandCounts [V] (FT.ofFlat sh data)).counts j := by
  have hU : unitVar.CM := Or.inl rfl
  intro m
  refine ⟨?_, ?_, ?_⟩
  · rw [show m.nrows = unitVar.ext from slice2d_nrows unitVar V hU hV _]; decide
  · exact slice2d_ncols unitVar V hU hV _
  · show (sliceCounts [unitVar, V] (FT.ofFlat (1 :: sh) data) 0).counts 0 j = _
    rw [slice2d_counts unitVar V hU hV, strand_counts_raw V hV]
    have : unitVar.msub 0 = [0] := by decide
    rw [this]
    simp [FT.ofFlat, ravel]

/-- a 2-D column cube becomes 3-D with ONE partition, which is the original 2-D cube -/
theorem inflate_partition_3d (vars : List Var) (sh : List Nat) (data : List Val) :
    sliceExpr 3 .cat 0 (validCube (unitVar :: vars) (FT.ofFlat (1 :: sh) data))
      = validCube vars (FT.ofFlat sh data) := by
  obtain ⟨hs, hg⟩ := validCube_unit vars sh data
  simp only [sliceExpr, show ¬ (3 < 3) by omega, if_false, show ¬ (DK.cat = DK.mr) by decide, FT.slice0, hs,
    List.tail_cons]
  congr 1
  funext ix
  exact hg 0 ix

/-- the specification-side variable of the inserted dimension -/
def unitRVar (a n : String) : RVar :=
  { kind := .cat, «alias» := a, cats := [{ id := 1, missing := none, extra := [("name", .str n)] }],
    refsExtra := [("name", .str n)] }

theorem rowsDimension_render (a n : String) :
    rowsDimension (.str a) (.str n) = (unitRVar a n).catDim [] := by
  simp [rowsDimension, unitRVar, RVar.catDim, RVar.references, RVar.isArray, RVar.typedefCats,
    RVar.orderField, renderCat, RMissing.field, jInt]

/-- **`Cube.inflate` on the raw response**: for a rendered response of a design `vars` (no
    numeric-array measure) the result is the rendered response of (unit variable :: vars) — only
    `result.dimensions` changes, by one categorical dimension with the single category id 1 IN FRONT —
    and the library's parsing of it yields the unit variable followed by the design. -/
theorem inflate_adds_unit_dimension (loads : String → R J) (ord : List String) (vars : List RVar)
    (re te : List (String × J)) (a n : String)
    (hna : numericArrayDimension ord (renderResponse vars re te) = .ok none)
    (hnm : inflateNames ord (renderResponse vars re te) = .ok (.str a, .str n))
    (hwf : wfDesignB (unitRVar a n :: vars) = true) (hte : te.lookup "value" = none) :
    inflateDict ord (renderResponse vars re te) = .ok (renderResponse (unitRVar a n :: vars) re te) ∧
    decode loads ord (renderResponse (unitRVar a n :: vars) re te)
      = .ok (⟨unitVar, false, [], 0⟩ :: designOf vars) := by
  have h1 : inflateDict ord (renderResponse vars re te)
      = .ok (renderResponse (unitRVar a n :: vars) re te) := by
    unfold renderResponse at hna hnm ⊢
    rw [inflateDict_prepends ord _ (("dimensions", .arr (renderDims vars)) :: re) (renderDims vars)
      (.str a) (.str n) (by simp [List.lookup]) (by simp [List.lookup]) hna hnm]
    simp [withRows, setKey, rowsDimension_render, renderDims, RVar.dims, unitRVar]
  refine ⟨h1, ?_⟩
  have hna' : numericArrayDimension ord (renderResponse (unitRVar a n :: vars) re te) = .ok none := by
    have := numericArrayDimension_withRows
      (("result", .obj (("dimensions", .arr (renderDims vars)) :: re)) :: te)
      (("dimensions", .arr (renderDims vars)) :: re) ((unitRVar a n).catDim []) (renderDims vars)
      (by simp [List.lookup]) ord
    simp only [withRows, setKey, beq_self_eq_true, if_true] at this
    unfold renderResponse at hna ⊢
    rw [← hna, ← this]
    simp [renderDims, RVar.dims, unitRVar]
  rw [C01.decode_render loads ord _ re te hwf hte hna']
  rfl

/-- **inflation is NOT idempotent** — what the code does when `inflate` runs on an already inflated
    dict: it inserts a SECOND rows dimension (there is no guard in `inflate`; it is
    `CubeSet._is_numeric_measure`, false once response 0 has a dimension, that prevents it). -/
theorem inflate_not_idempotent_counterexample (ord : List String) (kvs rkvs : List (String × J))
    (l : List J) (a n : J) (hres : kvs.lookup "result" = some (.obj rkvs))
    (hd : rkvs.lookup "dimensions" = some (.arr l))
    (hna : numericArrayDimension ord (.obj kvs) = .ok none)
    (hnm : inflateNames ord (.obj kvs) = .ok (a, n)) :
    inflateDict ord (.obj kvs) = .ok (withRows kvs rkvs (rowsDimension a n) l) ∧
    (inflateDict ord (.obj kvs) >>= inflateDict ord)
      = .ok (withRows kvs rkvs (rowsDimension a n) (rowsDimension a n :: l)) ∧
    ((inflateDict ord (.obj kvs) >>= inflateDict ord) >>= fun r => item r "result" >>= fun r => item r "dimensions")
      = .ok (.arr (rowsDimension a n :: rowsDimension a n :: l)) :=
  ⟨inflateDict_prepends ord kvs rkvs l a n hres hd hna hnm,
   inflateDict_twice ord kvs rkvs l a n hres hd hna hnm,
   by rw [inflateDict_twice ord kvs rkvs l a n hres hd hna hnm]
      simp [withRows, item, lookup_setKey_self]⟩

/-- a cube with a numeric-array dimension is NOT changed by `inflate` (the insertion goes into the
    temporary list `[num_array_dim] + dims`) -/
theorem inflate_numarray_noop (ord : List String) (kvs rkvs : List (String × J)) (l : List J) (nd : J)
    (names : J × J) (hres : kvs.lookup "result" = some (.obj rkvs))
    (hd : rkvs.lookup "dimensions" = some (.arr l))
    (hna : numericArrayDimension ord (.obj kvs) = .ok (some nd))
    (hnm : inflateNames ord (.obj kvs) = .ok names) :
    inflateDict ord (.obj kvs) = .ok (.obj kvs) :=
  inflateDict_numarray ord kvs rkvs l nd names hres hd hna hnm

/-- the inserted dimension is typed CAT whatever its alias / name -/
theorem rowsDimension_type (a n : J) : dimensionType (rowsDimension a n) = .ok .cat := by
  simp [dimensionType, rowsDimension, item, List.lookup, Glue.get, iter, isLogical, anyR, J.truthy,
    hasKey, J.empty]

/-- **re-use of the caller's responses by a second CubeSet**: once the 0-D first response of a
    numeric-measure set has been inflated it has ONE dimension, so `_is_numeric_measure` is false for
    the second set and nothing is inflated a second time. -/
theorem reuse_numeric_set_idempotent (loads : String → R J) (ord : List String)
    (kvs rkvs : List (String × J)) (a n : J) (r1 : J) (rest : List J)
    (hres : kvs.lookup "result" = some (.obj rkvs)) (hd : rkvs.lookup "dimensions" = some (.arr []))
    (hv : kvs.lookup "value" = none)
    (hna : numericArrayDimension ord (.obj kvs) = .ok none)
    (hnm : inflateNames ord (.obj kvs) = .ok (a, n)) :
    isNumericMeasure loads ord (.obj kvs :: r1 :: rest) = .ok true ∧
    inflateDict ord (.obj kvs) = .ok (withRows kvs rkvs (rowsDimension a n) []) ∧
    isNumericMeasure loads ord (withRows kvs rkvs (rowsDimension a n) [] :: r1 :: rest) = .ok false := by
  have hpre : isNumericMeasure loads ord (.obj kvs :: r1 :: rest) = .ok true := by
    simp [isNumericMeasure, cubeResponse, Glue.get, hv, ndim, cubeDimensions, allDimensions,
      allDimensionDicts, hna, item, hres, hd, iter, fromDicts, mapR, promoteFrom, apparent]
  refine ⟨hpre, inflateDict_prepends ord kvs rkvs [] a n hres hd hna hnm, ?_⟩
  have hna' := numericArrayDimension_withRows kvs rkvs (rowsDimension a n) [] hres ord
  rw [hna] at hna'
  have hv' : (setKey "result" (J.obj (setKey "dimensions" (J.arr [rowsDimension a n]) rkvs)) kvs).lookup "value"
      = none := by
    rw [lookup_setKey_ne "result" "value" _ _ (by decide)]; exact hv
  simp [isNumericMeasure, cubeResponse, Glue.get, withRows, hv', ndim, cubeDimensions, allDimensions,
    allDimensionDicts, item, lookup_setKey_self, iter, fromDicts, mapR, mkDim, rowsDimension_type,
    promoteFrom, promoteOne, apparent] 
  simp only [withRows] at hna'
  simp [hna', item, lookup_setKey_self, iter, fromDicts, mapR, mkDim, rowsDimension_type, promoteFrom,
    promoteOne, apparent]


/-! ## augmentation of single-column filter cubes -/

/-- **`augment_response` twice = once**: after the first call the two count vectors have the same
    length, so the second call returns `self` (what makes re-use of an augmented response safe) -/
theorem augment_idempotent (loads : String → R J) (summary resp r' : J)
    (h : augmentDict loads summary resp = .ok (some r')) : augmentDict loads summary r' = .ok none :=
  augmentDict_idem h

/-- **fix F41: the summary response may be JSON text or enveloped** — `augment_response` sees the
    same summary in all three forms (before the fix it indexed the raw argument: KeyError / TypeError) -/
theorem augment_summary_forms_agree (loads : String → R J) (kvs extra : List (String × J)) (resp : J)
    (s : String) (hv : kvs.lookup "value" = none) (hs : loads s = .ok (.obj kvs)) :
    augmentDict loads (.obj (("value", .obj kvs) :: extra)) resp = augmentDict loads (.obj kvs) resp ∧
    augmentDict loads (.str s) resp = augmentDict loads (.obj kvs) resp := by
  have h0 : cubeResponse loads (.obj kvs) = .ok (.obj kvs) := by simp [cubeResponse, Glue.get, hv]
  have h1 : cubeResponse loads (.obj (("value", .obj kvs) :: extra)) = .ok (.obj kvs) :=
    cubeResponse_envelope loads _ _
  have h2 : cubeResponse loads (.str s) = .ok (.obj kvs) := by simp [cubeResponse, hs, Glue.get, hv]
  simp only [augmentDict, augmentPlan, h0, h1, h2, and_self]

/-- **zero padding, positions by element ID.**  Summary elements `S` (id, string value) followed by
    dict-valued (missing) ones, own elements `O` likewise, summary ids pairwise distinct and below the
    summary's count length `sn`: the new count vector has length `sn`; the k-th MATCHED summary element
    (value among the cube's values, in summary order) receives the cube's k-th count AT INDEX = ITS ID;
    every other index holds 0. -/
theorem augment_pads_with_zeros (S O : List AElem) (stail otail : List J) (counts : List J) (sn : Nat)
    (hst : ∀ t ∈ stail, DictValued t) (hot : ∀ t ∈ otail, DictValued t)
    (hid : (S.map (·.id)).Nodup) (hlt : ∀ e ∈ S, e.id < sn) :
    let matched := S.filter (fun e => (O.map (·.value)).contains e.value)
    ∃ data, augmentData (S.map renderA ++ stail) (O.map renderA ++ otail) counts sn = .ok data ∧
      data.length = sn ∧
      (∀ k, k < matched.length → k < counts.length → data[(matched.map (·.id))[k]!]? = some counts[k]!) ∧
      (∀ i, i < sn → (∀ k, k < matched.length → k < counts.length → (matched.map (·.id))[k]! ≠ i) →
        data[i]? = some (.num 0)) := by
  intro matched
  have hm : ∀ e ∈ matched, e ∈ S := fun e he => (List.mem_filter.mp he).1
  let ps := matched.map (·.id)
  have hps : (matched.map (fun e => jNat e.id)) = ps.map jNat := by simp [ps, List.map_map]
  have hb : ∀ k, k < ps.length → ps[k]! < sn := by
    intro k hk
    have : ps[k]! ∈ ps := by
      rw [List.getElem!_eq_getElem?_getD, List.getElem?_eq_getElem hk]; simp
    obtain ⟨e, he, heq⟩ := List.mem_map.mp this
    rw [← heq]; exact hlt e (hm e he)
  have hnd : ps.Nodup := by
    have : (matched.map (·.id)).Sublist (S.map (·.id)) := List.Sublist.map _ List.filter_sublist
    exact this.nodup hid
  refine ⟨scatterNat (List.replicate sn (J.num 0)) ps counts, ?_, ?_, ?_, ?_⟩
  · rw [augmentData_typed S O stail otail counts sn hst hot, hps]
    apply scatter_nat
    intro k hk _
    simpa using hb k hk
  · simp [scatterNat_length]
  · intro k hk1 hk2
    have hk1' : k < ps.length := by simpa [ps] using hk1
    exact scatterNat_written _ ps counts hnd k hk1' hk2 (by simpa using hb k hk1')
  · intro i hi hne
    rw [scatterNat_untouched _ ps counts i (fun k hk1 hk2 => hne k (by simpa [ps] using hk1) hk2)]
    simp [hi]

/-- **when the summary's ids are NOT its positions the padding mis-places the counts**: summary
    elements A (id 1), B (id 0); the filter cube has only A with count 5; the new vector is [0, 5] —
    index 0 is A's row in the (summary-ordered) element list, but the 5 sits at index 1 (= A's id),
    i.e. in B's row. -/
theorem augment_by_id_counterexample :
    augmentData [renderA ⟨1, "A", []⟩, renderA ⟨0, "B", []⟩] [renderA ⟨0, "A", []⟩] [.num 5] 2
      = .ok [.num 0, .num 5] := by
  rfl

/-! ## CA-as-0th -/

/-- **a categorical array as the leading cube of a multi-cube set yields one strand per
    sub-variable, equal to that sub-variable's univariate cube**: the CA-as-0th strand of item k (stripe
    `_BaseCubeCounts.factory`: `_CatCubeCounts(rows_dimension, counts[slice_idx])`) over the CA cube is
    the categorical strand of the survey recoded to item k. -/
theorem ca_as_0th_partitions (ca : Var) (hca : ca.kind = .arr) (hnm : ca.isMR = false) (s : Survey)
    (k : Nat) (hk : k < ca.n) :
    StripeCounts.cat ((validCube [ca] (cubeOf [ca] s)).slice0 k)
      = strandCounts [ca.itemVar] (cubeOf [ca.itemVar] (s.map (recodeItem k))) := by
  have h := sliceExpr_ca_item ca [] hca hnm s k hk
  simp only [sliceExpr, show ¬ (3 < 3) by omega, if_false, show ¬ (DK.arr = DK.mr) by decide] at h
  rw [h]
  simp [strandCounts, apparentKinds, Var.dks, Var.itemVar]

/-- there is one such strand per item: with `cube_idx = 0` and a leading CA_SUBVAR dimension the
    number of slice indices is the number of VALID elements of that dimension, each a `_Strand` -/
theorem ca_as_0th_strands (ord : List String) (resp : J) (dims : List Dim) (d0 : Dim)
    (hd : cubeDimensions ord resp = .ok (d0 :: dims))
    (hc : caAs0th ord (some 0) resp = .ok true) :
    nSlices ord (some 0) resp = headValidCount (d0 :: dims) ∧
    factory (d0 :: dims).length true = .strand := by
  refine ⟨?_, by simp [factory]⟩
  rw [C01.nslices_cases ord (some 0) resp (d0 :: dims) true hd hc]
  simp

/-! ## the set as a whole -/

/-- **a CubeSet of one response is that cube**: built with `cube_idx = None`, neither augmented nor
    inflated (even when 0-D), never CA-as-0th -/
theorem single_cube_set (loads : String → R J) (ord : List String) (r ts t : J) (ht : idx ts 0 = .ok t) :
    cubes loads ord [r] ts = .ok [⟨r, none, t⟩] ∧ setIsCaAs0th loads ord [r] ts = .ok false ∧
    isNumericMeasure loads ord [r] = .ok false :=
  ⟨cubes_single loads ord r ts t ht, by simp [setIsCaAs0th, isMultiCube], rfl⟩

/-- **cube_idx assignment**: cube j of a multi-cube set gets `cube_idx = j`; a single-response set's
    cube gets `None` (so that it is never treated as CA-as-0th) -/
theorem cube_idx_assignment (loads : String → R J) (ord : List String) (rs : List J) (ts : J)
    (cs : List CubeSt) (h : cubes loads ord rs ts = .ok cs) :
    cs.length = rs.length ∧
    ∀ (j : Nat) (c : CubeSt), cs[j]? = some c → c.cubeIdx = if rs.length > 1 then some j else none :=
  cubes_idx h

/-- **`_is_numeric_measure`** = multi-cube ∧ the FIRST response has no dimension -/
theorem numeric_measure_from_first (loads : String → R J) (ord : List String) (r0 r1 : J) (rest : List J) :
    isNumericMeasure loads ord (r0 :: r1 :: rest)
      = (cubeResponse loads r0 >>= fun resp => ndim ord resp >>= fun n => pure (n == 0)) ∧
    isNumericMeasure loads ord [r0] = .ok false ∧ isNumericMeasure loads ord [] = .ok false :=
  ⟨rfl, rfl, rfl⟩

/-- **set-level attributes are the first cube's**, and inflating the first response changes none of
    `n_responses` / `population_fraction` (only `result.dimensions` is written) -/
theorem set_attributes_from_first (loads : String → R J) (ord : List String) (rs : List J) (ts : J)
    (kvs rkvs : List (String × J)) (rows : J) (l : List J) (hres : kvs.lookup "result" = some (.obj rkvs)) :
    setNResponses loads ord rs ts = (firstCube loads ord rs ts >>= nResponses) ∧
    setPopulationFraction loads ord rs ts = (firstCube loads ord rs ts >>= populationFraction) ∧
    setHasWeightedCounts loads ord rs ts = (firstCube loads ord rs ts >>= hasWeightedCounts ord) ∧
    nResponses (withRows kvs rkvs rows l) = nResponses (.obj kvs) ∧
    populationFraction (withRows kvs rkvs rows l) = populationFraction (.obj kvs) := by
  refine ⟨rfl, rfl, rfl, ?_, ?_⟩
  · simp only [nResponses, item_result_withRows kvs rkvs rows l hres, item_result_orig kvs rkvs hres,
      R_bind_ok, get_setKey_ne "dimensions" "n" _ _ _ (by decide)]
  · simp only [populationFraction, item_result_withRows kvs rkvs rows l hres,
      item_result_orig kvs rkvs hres, R_bind_ok]
    congr 1
    simp only [Population.populationFraction, Population.oldStyle, J.pyGet,
      lookup_setKey_ne "dimensions" "filter_stats" _ _ (by decide),
      lookup_setKey_ne "dimensions" "filtered" _ _ (by decide),
      lookup_setKey_ne "dimensions" "unfiltered" _ _ (by decide)]

-- non-vacuity: the unit-test fixture shape (summary A, B, C + missing; filter cube A, C + missing)
example :
    let S : List AElem := [⟨0, "A", []⟩, ⟨1, "B", []⟩, ⟨2, "C", []⟩]
    let O : List AElem := [⟨0, "A", []⟩, ⟨1, "C", []⟩]
    let miss : J := .obj [("id", .num (-1)), ("missing", .bool true), ("value", .obj [("?", .num (-1))])]
    augmentData (S.map renderA ++ [miss]) (O.map renderA ++ [miss]) [.num 1, .num 1, .num 0] 4
      = .ok [.num 1, .num 0, .num 1, .num 0] := by rfl
example : DictValued (.obj [("id", .num (-1)), ("missing", .bool true), ("value", .obj [("?", .num (-1))])]) :=
  ⟨_, rfl, rfl⟩
example : (⟨.arr, 2, [false, true, false], false⟩ : Var).kind = .arr ∧ (1 : Nat) < 2 := ⟨rfl, by decide⟩


-- non-vacuity of the inflation theorems: a 1-D response with a `mean` measure named by its references
def exCol : RVar :=
  { kind := .cat, «alias» := "col", cats := [{ id := 3 }, { id := 0, missing := some (some true) }, { id := 7 }] }
def exMeasures : List (String × J) :=
  [("measures", .obj [("count", .obj []),
      ("mean", .obj [("metadata", .obj [("references", .obj [("alias", .str "num"), ("name", .str "num var")])])])])]

example : numericArrayDimension numericMeasures (renderResponse [exCol] exMeasures []) = .ok none := rfl
example : inflateNames numericMeasures (renderResponse [exCol] exMeasures []) = .ok (.str "num", .str "Num Var") := by
  rfl
example : wfDesignB (unitRVar "num" "Num Var" :: [exCol]) = true := by decide
-- a 0-D first response (numeric-measure set): hypotheses of `reuse_numeric_set_idempotent`
example :
    let rkvs : List (String × J) := [("dimensions", .arr []), ("counts", .arr [.num 4]),
      ("measures", .obj [("mean", .obj [("data", .arr [.num 2])])])]
    let kvs : List (String × J) := [("result", .obj rkvs)]
    kvs.lookup "result" = some (.obj rkvs) ∧ rkvs.lookup "dimensions" = some (.arr []) ∧
    kvs.lookup "value" = none ∧ numericArrayDimension numericMeasures (.obj kvs) = .ok none ∧
    inflateNames numericMeasures (.obj kvs) = .ok (.str "mean", .str "Mean") := by
  exact ⟨rfl, rfl, rfl, rfl, rfl⟩

end CrCube.C06
