/-
  C09 — Visibility: hidden iff asked, pruned iff empty by unweighted counts.
  Property theorems only (rows direction; `transpose` gives columns, see C10; the order-level
  statements `visible_iff` / `order_nodup` live with the collator model, C07/C08).
-/
import CrCube.Lemmas.Pruning
import CrCube.Props.C02
import CrCube.Lemmas.Slice1Var

set_option linter.unusedSimpArgs false

namespace CrCube.C09
open CrCube

/-- respondent-level pruning base of row element i: the number of respondents eligible for the
    vector over the opposing dimension.  For a multiple-response row crossed with a categorical
    column an ANSWERED item counts (selected or not); in every other pairing membership of the
    row element (for MR×MR: having SELECTED the item) is required. -/
def rowsPruneSpec (R C : Var) (s : Survey) (i : Nat) : Rat :=
  if R.kind = .arr ∧ C.kind = .cat then specCount [R, C] s [i, 0] [true, true]
  else ((List.range C.ext).map fun j => specCount [R, C] s [i, j] [false, true]).sum

theorem rowsPruningBase_spec (R C : Var) (hR : R.CM) (hC : C.CM) (s : Survey) (i : Nat)
    (hi : i < R.ext) (hC0 : 0 < C.ext) :
    (sliceCounts [R, C] (cubeOf [R, C] s) 0).rowsPruningBase i = .fin (rowsPruneSpec R C s i) := by
  rw [slice2d_rowsPruningBase R C hR hC]
  unfold rowsPruneSpec
  split
  · exact raw_tableBases R C hR hC s i 0 hi hC0
  · rw [vsum_congr C.ext _ _ (fun j hj => raw_rowBases R C hR hC s i j hi hj), vsum_fin]

/-- **pruned iff empty by unweighted counts**: the pruning mask of row i is true exactly when no
    respondent (counted without weights) is eligible for the row. -/
theorem empty_iff (R C : Var) (hR : R.CM) (hC : C.CM) (s : Survey) (i : Nat)
    (hi : i < R.ext) (hC0 : 0 < C.ext) :
    ((sliceCounts [R, C] (cubeOf [R, C] (unweight s)) 0).rowsPruningBase i == .fin 0) = true
      ↔ rowsPruneSpec R C (unweight s) i = 0 := by
  rw [rowsPruningBase_spec R C hR hC _ i hi hC0]
  simp

/-- weights play no part: two surveys with the same answers have the same unweighted survey,
    hence the same pruning masks -/
theorem prune_weight_free (s s' : Survey) (h : s.map (·.ans) = s'.map (·.ans)) :
    unweight s = unweight s' := by
  induction s generalizing s' with
  | nil => cases s' <;> simp_all [unweight]
  | cons r s ih =>
    cases s' with
    | nil => simp at h
    | cons r' s' =>
      simp only [List.map_cons, List.cons.injEq] at h
      simp only [unweight, List.map_cons, List.cons.injEq] at ih ⊢
      exact ⟨by rw [h.1], ih s' h.2⟩

/-- a vector with a positive unweighted count in any cell is never pruned -/
theorem positive_cell_never_pruned (R C : Var) (hR : R.CM) (hC : C.CM) (s : Survey) (i j : Nat)
    (hj : j < C.ext) (hpos : 0 < specCount [R, C] (unweight s) [i, j] [false, false]) :
    rowsPruneSpec R C (unweight s) i ≠ 0 := by
  have hw := unweight_nonneg s
  unfold rowsPruneSpec
  split
  · rename_i h
    have hCc : C.kind = .cat := h.2
    -- table base of (i, j) ≥ count > 0, and for a categorical column it does not depend on j
    have h1 := specCount_le_tableBase R C hR hC (unweight s) hw i j
    have h2 : specCount [R, C] (unweight s) [i, j] [true, true]
        = specCount [R, C] (unweight s) [i, 0] [true, true] := by
      rw [specCount_two R C hR hC, specCount_two R C hR hC]
      apply wsum_congr
      intro r _
      match r.ans with
      | [aR, aC] =>
        congr 1
        simp only [Var.specMem, hCc]
        match aC with
        | [c] => rfl
        | [] => rfl
        | _ :: _ :: _ => rfl
      | [] => rfl
      | [_] => rfl
      | _ :: _ :: _ :: _ => rfl
    rw [← h2]
    exact ne_of_gt (lt_of_lt_of_le hpos h1)
  · apply ne_of_gt
    refine list_sum_pos _ ?_ (specCount [R, C] (unweight s) [i, j] [false, true]) ?_ ?_
    · intro x hx
      simp only [List.mem_map] at hx
      obtain ⟨j', _, rfl⟩ := hx
      exact specCount_nonneg _ _ hw _ _
    · simp only [List.mem_map, List.mem_range]
      exact ⟨j, hj, rfl⟩
    · exact lt_of_lt_of_le hpos (specCount_le_rowBase R C hR hC (unweight s) hw i j)

/-- a vector for which no respondent is eligible (zero unweighted base over the opposing
    dimension) is always empty -/
theorem no_eligible_always_pruned (R C : Var) (s : Survey) (i : Nat)
    (h1 : ∀ j, j < C.ext → specCount [R, C] (unweight s) [i, j] [false, true] = 0)
    (h2 : specCount [R, C] (unweight s) [i, 0] [true, true] = 0) :
    rowsPruneSpec R C (unweight s) i = 0 := by
  unfold rowsPruneSpec
  split
  · exact h2
  · apply list_sum_zero
    intro x hx
    simp only [List.mem_map, List.mem_range] at hx
    obtain ⟨j, hj, rfl⟩ := hx
    exact h1 j hj

/-- a multiple-response ITEM that was answered (selected or not) by a respondent with a valid
    categorical column answer is non-empty … -/
theorem mr_answered_counts (R C : Var) (hR : R.kind = .arr) (hC : C.kind = .cat) (s : Survey)
    (i : Nat) : rowsPruneSpec R C s i = specCount [R, C] s [i, 0] [true, true] := by
  unfold rowsPruneSpec; simp [hR, hC]

/-- … except when crossed with another multiple-response dimension, where only SELECTED
    answers count (so an answered-but-never-selected item is pruned) -/
theorem mr_x_mr_selected_only (R C : Var) (hC : C.kind = .arr) (s : Survey) (i : Nat) :
    rowsPruneSpec R C s i
      = ((List.range C.ext).map fun j => specCount [R, C] s [i, j] [false, true]).sum := by
  unfold rowsPruneSpec; simp [hC]

/-- columns direction: the mirror image -/
def colsPruneSpec (R C : Var) (s : Survey) (j : Nat) : Rat :=
  if C.kind = .arr ∧ R.kind = .cat then specCount [R, C] s [0, j] [true, true]
  else ((List.range R.ext).map fun i => specCount [R, C] s [i, j] [true, false]).sum

theorem columnsPruningBase_spec (R C : Var) (hR : R.CM) (hC : C.CM) (s : Survey) (j : Nat)
    (hj : j < C.ext) (hR0 : 0 < R.ext) :
    (sliceCounts [R, C] (cubeOf [R, C] s) 0).columnsPruningBase j = .fin (colsPruneSpec R C s j) := by
  rw [slice2d_columnsPruningBase R C hR hC]
  unfold colsPruneSpec
  split
  · exact raw_tableBases R C hR hC s 0 j hR0 hj
  · rw [vsum_congr R.ext _ _ (fun i hi => raw_colBases R C hR hC s i j hi hj), vsum_fin]

theorem columns_empty_iff (R C : Var) (hR : R.CM) (hC : C.CM) (s : Survey) (j : Nat)
    (hj : j < C.ext) (hR0 : 0 < R.ext) :
    ((sliceCounts [R, C] (cubeOf [R, C] (unweight s)) 0).columnsPruningBase j == .fin 0) = true
      ↔ colsPruneSpec R C (unweight s) j = 0 := by
  rw [columnsPruningBase_spec R C hR hC _ j hj hR0]
  simp

/-- 1-D: a categorical row is empty iff its unweighted count is 0; a multiple-response item iff
    nobody answered it (selected or not) -/
theorem strand_pruning_base (V : Var) (hV : V.CM) (s : Survey) (i : Nat) (hi : i < V.ext) :
    (strandCounts [V] (cubeOf [V] (unweight s))).pruningBase i
      = .fin (specCount [V] (unweight s) [i] [decide (V.kind = .arr)]) := by
  rcases hV with h | ⟨h, hm, h0⟩
  · have hV' : V.CM := Or.inl h
    have := strand_counts_spec V hV' (unweight s) i hi
    simp only [h, show decide (VKind.cat = VKind.arr) = false by decide]
    rw [← this]
    simp [strandCounts, apparentKinds, Var.dks, h, StripeCounts.cat]
  · have hV' : V.CM := Or.inr ⟨h, hm, h0⟩
    have := strand_bases_spec V hV' (unweight s) i hi
    simp only [h, decide_true]
    rw [← this]
    simp [strandCounts, apparentKinds, Var.dks, h, hm, StripeCounts.mr]

-- tests (not the claim): MR item answered "other" only.  Crossed with CAT it is non-empty,
-- crossed with MR it is empty.
example :
    let R : Var := ⟨.arr, 1, [false, false, true], true⟩
    let C : Var := ⟨.cat, 2, [false, false], false⟩
    let s : Survey := [⟨1, [[1], [0]]⟩]
    rowsPruneSpec R C (unweight s) 0 = 1 := by decide +kernel
example :
    let R : Var := ⟨.arr, 1, [false, false, true], true⟩
    let C : Var := ⟨.arr, 1, [false, false, true], true⟩
    let s : Survey := [⟨1, [[1], [0]]⟩]
    rowsPruneSpec R C (unweight s) 0 = 0 := by decide +kernel

end CrCube.C09
