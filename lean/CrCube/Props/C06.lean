/-
  C06 — Partitioning of 3-D responses restricts to the right respondents.
  Property theorems only; helper lemmas live in CrCube/Lemmas.
-/
import CrCube.Lemmas.Slice3D

set_option linter.unusedSimpArgs false

namespace CrCube.C06
open CrCube

theorem kinds3 (T R C : Var) (hT : T.CM) (hR : R.CM) (hC : C.CM) :
    apparentKinds [T, R, C] = [T.dk, R.dk, C.dk] := by
  rcases hT with hT | ⟨hT, hmT, _⟩ <;> rcases hR with hR | ⟨hR, hmR, _⟩ <;>
    rcases hC with hC | ⟨hC, hmC, _⟩ <;>
    simp [apparentKinds, Var.dks, Var.dk, *]

theorem kinds2 (R C : Var) (hR : R.CM) (hC : C.CM) : apparentKinds [R, C] = [R.dk, C.dk] := by
  rcases hR with hR | ⟨hR, hmR, _⟩ <;> rcases hC with hC | ⟨hC, hmC, _⟩ <;>
    simp [apparentKinds, Var.dks, Var.dk, *]

/-- A three-dimensional response yields one partition per valid element of its first
    dimension (items, for a multiple-response first dimension). -/
theorem partitions_count (T R C : Var) (hT : T.CM) (hR : R.CM) (hC : C.CM) :
    nPartitions [T, R, C] = T.ext := by
  rw [nPartitions, kinds3 T R C hT hR hC]
  simp only [List.length_cons, List.length_nil, firstDimCount, Var.ext]
  rfl

/-- a two-dimensional response is a single partition -/
theorem partitions_count_2d (R C : Var) (hR : R.CM) (hC : C.CM) : nPartitions [R, C] = 1 := by
  rw [nPartitions, kinds2 R C hR hC]; simp

/-- **Partition k equals the 2-D analysis of the same rows × columns variables restricted to the
    respondents who belong to element k** (who selected item k, for a multiple-response table
    variable): the count extractor object — from which every count, base, margin, pruning mask and
    proportion of the partition is computed — is the one the 2-D cube of the restricted survey
    produces. -/
theorem partition_restricts (T R C : Var) (hT : T.CM) (hR : R.CM) (hC : C.CM) (s : Survey)
    (k : Nat) (hk : k < T.ext) :
    sliceCounts [T, R, C] (cubeOf [T, R, C] s) k
      = sliceCounts [R, C] (cubeOf [R, C] (restrictTo T k s)) 0 := by
  unfold sliceCounts
  rw [kinds3 T R C hT hR hC, kinds2 R C hR hC]
  have h := sliceExpr_restrict T [R, C] hT s k hk
  simp only [List.length_cons, List.length_nil, List.getD] at h ⊢
  simp only [show (0 + 1 + 1 + 1 : Nat) = 3 by rfl, show (0 + 1 + 1 : Nat) = 2 by rfl] at h ⊢
  simp only [show (3 - 2 : Nat) = 1 by rfl, show (3 - 1 : Nat) = 2 by rfl,
    show (2 - 2 : Nat) = 0 by rfl, show (2 - 1 : Nat) = 1 by rfl, List.getElem?_cons_zero,
    List.getElem?_cons_succ, Option.getD_some] at h ⊢
  rw [h]
  simp [sliceExpr]

/-- membership in the restricted survey is membership in the table element:
    respondent-level counts of the restricted survey are the 3-D respondent-level counts -/
theorem restrict_specCount (T R C : Var) (hT : T.CM) (hR : R.CM) (hC : C.CM) (s : Survey)
    (k i j : Nat) (m1 m2 : Bool) :
    specCount [R, C] (restrictTo T k s) [i, j] [m1, m2]
      = specCount [T, R, C] s [k, i, j] [false, m1, m2] := by
  unfold specCount restrictTo
  rw [wsum_filter_map s _ (fun r => { w := r.w, ans := r.ans.tail }) (fun _ => rfl)]
  apply wsum_congr
  intro r _
  match r.ans with
  | [] => simp [specMemAll]
  | aT :: as => simp [specMemAll, hT.nApparent]

/-- **A categorical array as the table dimension yields one partition per sub-variable, equal to
    the analysis of that sub-variable** (as a categorical variable) crossed with the columns
    variable: the count extractor object of partition k is the 2-D one of the recoded survey. -/
theorem partition_ca_item (ca X : Var) (hca : ca.kind = .arr) (hnm : ca.isMR = false) (hX : X.CM)
    (s : Survey) (k : Nat) (hk : k < ca.n) :
    sliceCounts [ca, X] (cubeOf [ca, X] s) k
      = sliceCounts [ca.itemVar, X] (cubeOf [ca.itemVar, X] (s.map (recodeItem k))) 0 := by
  have hk3 : apparentKinds [ca, X] = [.arr, .cat, X.dk] := by
    rcases hX with hX | ⟨hX, hmX, _⟩ <;> simp [apparentKinds, Var.dks, Var.dk, hca, hnm, *]
  have hk2 : apparentKinds [ca.itemVar, X] = [.cat, X.dk] := by
    rcases hX with hX | ⟨hX, hmX, _⟩ <;> simp [apparentKinds, Var.dks, Var.dk, Var.itemVar, *]
  unfold sliceCounts
  rw [hk3, hk2]
  have h := sliceExpr_ca_item ca [X] hca hnm s k hk
  simp only [List.length_cons, List.length_nil, List.getD] at h ⊢
  simp only [show (0 + 1 + 1 + 1 : Nat) = 3 by rfl, show (0 + 1 + 1 : Nat) = 2 by rfl] at h ⊢
  simp only [show (3 - 2 : Nat) = 1 by rfl, show (3 - 1 : Nat) = 2 by rfl,
    show (2 - 2 : Nat) = 0 by rfl, show (2 - 1 : Nat) = 1 by rfl, List.getElem?_cons_zero,
    List.getElem?_cons_succ, Option.getD_some] at h ⊢
  rw [h]
  simp [sliceExpr]

theorem partitions_count_ca (ca X : Var) (hca : ca.kind = .arr) (hnm : ca.isMR = false) (hX : X.CM) :
    nPartitions [ca, X] = ca.n := by
  have hk3 : apparentKinds [ca, X] = [.arr, .cat, X.dk] := by
    rcases hX with hX | ⟨hX, hmX, _⟩ <;> simp [apparentKinds, Var.dks, Var.dk, hca, hnm, *]
  rw [nPartitions, hk3]
  simp [firstDimCount, hca]

/-- a categorical array (items × categories) under a categorical / multiple-response table
    variable: partition k is the 2-D analysis of the array over the respondents in table element k -/
theorem partition_restricts_ca (T V : Var) (hT : T.CM) (hV : V.kind = .arr) (hnm : V.isMR = false)
    (s : Survey) (k : Nat) (hk : k < T.ext) :
    sliceCounts [T, V] (cubeOf [T, V] s) k
      = sliceCounts [V] (cubeOf [V] (restrictTo T k s)) 0 := by
  have hk3 : apparentKinds [T, V] = [T.dk, .arr, .cat] := by
    rcases hT with hT | ⟨hT, hmT, _⟩ <;> simp [apparentKinds, Var.dks, Var.dk, hV, hnm, *]
  have hk2 : apparentKinds [V] = [.arr, .cat] := by simp [apparentKinds, Var.dks, hV, hnm]
  unfold sliceCounts
  rw [hk3, hk2]
  have h := sliceExpr_restrict T [V] hT s k hk
  simp only [List.length_cons, List.length_nil, List.getD] at h ⊢
  simp only [show (0 + 1 + 1 + 1 : Nat) = 3 by rfl, show (0 + 1 + 1 : Nat) = 2 by rfl] at h ⊢
  simp only [show (3 - 2 : Nat) = 1 by rfl, show (3 - 1 : Nat) = 2 by rfl,
    show (2 - 2 : Nat) = 0 by rfl, show (2 - 1 : Nat) = 1 by rfl, List.getElem?_cons_zero,
    List.getElem?_cons_succ, Option.getD_some] at h ⊢
  rw [h]
  simp [sliceExpr]

-- non-vacuity: a concrete 3-D design (MR table variable, categorical rows with a missing
-- category in mid-payload, categorical columns) satisfies the hypotheses
example : (⟨.arr, 2, [false, false, true], true⟩ : Var).CM ∧
    (⟨.cat, 3, [false, true, false], false⟩ : Var).CM ∧ (1 : Nat) < (⟨.arr, 2, [false, false, true], true⟩ : Var).ext := by
  refine ⟨Or.inr ⟨rfl, rfl, by decide⟩, Or.inl rfl, by decide⟩

end CrCube.C06
