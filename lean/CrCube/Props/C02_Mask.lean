/-
  C02 (extension) — the minimum-base mask on DISPLAYED bases (strand vectors and slice matrices with
  subtotal / difference rows and columns): true exactly where the unweighted base is below the
  threshold; an undefined (NaN) base — the row base of a difference row, the column base of a
  difference column — is not below any threshold; a range shortcut is sound only through the LOWER
  end of the base range.  Property theorems only.
-/
import CrCube.Model.MinBaseMask
import Mathlib.Tactic.Linarith

namespace CrCube.C02
open CrCube CrCube.MinBaseMask

/-- strand: one mask entry per displayed row -/
theorem vecMask_length (bases : List Val) (size : Val) : (vecMask bases size).length = bases.length := by
  simp [vecMask]

/-- strand: the mask of displayed row i is true exactly when its unweighted base is below the threshold -/
theorem vecMask_iff (bases : List Val) (size : Val) (i : Nat) :
    (vecMask bases size)[i]? = (bases[i]?).map (fun b => b.lt size) := by
  simp [vecMask]

/-- slice: the mask of displayed cell (i, j) is true exactly when its unweighted base is below the threshold -/
theorem matMask_iff (bases : List (List Val)) (size : Val) (i j : Nat) :
    ((matMask bases size)[i]?.bind (·[j]?)) = ((bases[i]?).bind (·[j]?)).map (fun b => b.lt size) := by
  simp only [matMask, List.getElem?_map]
  cases bases[i]? with
  | none => rfl
  | some r => simp [vecMask]

/-- an undefined base is never flagged, whatever the threshold … -/
theorem nan_base_not_flagged (size : Val) : Val.nan.lt size = false := rfl

/-- … in particular the cells of a difference row / column (NaN row / column base) stay unflagged -/
theorem vecMask_nan (bases : List Val) (size : Val) (i : Nat) (h : bases[i]? = some .nan) :
    (vecMask bases size)[i]? = some false := by
  rw [vecMask_iff, h]; rfl

/-- "not (base ≥ size)" is NOT the mask: on an undefined base it reads true -/
theorem not_ge_counterexample : (!(Val.le (.fin 25) .nan)) = true ∧ Val.nan.lt (.fin 25) = false := ⟨rfl, rfl⟩

/-- for finite bases "below the threshold" is the rational order -/
theorem vecMask_fin (qs : List Rat) (t : Rat) :
    vecMask (qs.map Val.fin) (.fin t) = qs.map (fun q => decide (q < t)) := by
  simp [vecMask, Val.lt]

theorem minQ_le (qs : List Rat) (m : Rat) (h : minQ qs = some m) : ∀ q ∈ qs, m ≤ q := by
  induction qs generalizing m with
  | nil => simp [minQ] at h
  | cons x xs ih =>
    intro q hq
    simp only [minQ] at h
    cases hx : minQ xs with
    | none =>
      rw [hx] at h
      have hxs : xs = [] := by cases xs with
        | nil => rfl
        | cons y ys => simp only [minQ] at hx; cases h2 : minQ ys <;> rw [h2] at hx <;> simp at hx
      subst hxs
      simp only [Option.some.injEq] at h
      simp only [List.mem_singleton] at hq
      subst hq; subst h; exact le_refl _
    | some m' =>
      rw [hx] at h
      simp only [Option.some.injEq] at h
      have ih' := ih m' hx
      rcases List.mem_cons.mp hq with rfl | hq'
      · by_cases hle : q ≤ m'
        · rw [if_pos hle] at h; subst h; exact le_refl _
        · rw [if_neg hle] at h; subst h; exact le_of_lt (lt_of_not_ge hle)
      · have := ih' q hq'
        by_cases hle : x ≤ m'
        · rw [if_pos hle] at h; subst h; exact le_trans hle this
        · rw [if_neg hle] at h; subst h; exact this

theorem minQ_mem (qs : List Rat) (m : Rat) (h : minQ qs = some m) : m ∈ qs := by
  induction qs generalizing m with
  | nil => simp [minQ] at h
  | cons x xs ih =>
    simp only [minQ] at h
    cases hx : minQ xs with
    | none => rw [hx] at h; simp only [Option.some.injEq] at h; subst h; exact List.mem_cons_self
    | some m' =>
      rw [hx] at h
      simp only [Option.some.injEq] at h
      by_cases hle : x ≤ m'
      · rw [if_pos hle] at h; subst h; exact List.mem_cons_self
      · rw [if_neg hle] at h; subst h; exact List.mem_cons_of_mem _ (ih m' hx)

/-- **range shortcut, sound form**: no displayed row is flagged iff the LOWER end of the base range
    reaches the threshold (finite bases, non-empty strand) -/
theorem strand_mask_all_false_iff (qs : List Rat) (t m : Rat) (h : minQ qs = some m) :
    (vecMask (qs.map Val.fin) (.fin t) = List.replicate qs.length false) ↔ t ≤ m := by
  rw [vecMask_fin]
  constructor
  · intro hall
    by_contra hlt
    have hm := minQ_mem qs m h
    have : decide (m < t) ∈ qs.map (fun q => decide (q < t)) := List.mem_map.mpr ⟨m, hm, rfl⟩
    rw [hall] at this
    have := (List.mem_replicate.mp this).2
    simp only [decide_eq_false_iff_not] at this
    exact this (lt_of_not_ge hlt)
  · intro hle
    apply List.ext_getElem (by simp)
    intro i h1 h2
    simp only [List.getElem_map, List.getElem_replicate, decide_eq_false_iff_not, not_lt]
    have hi : i < qs.length := by simpa using h1
    exact le_trans hle (minQ_le qs m h _ (List.getElem_mem hi))

/-- the shortcut through the UPPER end of the range is unsound: item bases 60 / 25 / 8 / 40 with
    threshold 20 have max 60 ≥ 20, yet the third item falls short -/
theorem strand_max_shortcut_counterexample :
    maxQ [60, 25, 8, 40] = some 60 ∧ (20 : Rat) ≤ 60 ∧
    vecMask ([60, 25, 8, 40].map Val.fin) (.fin 20) = [false, false, true, false] := by
  refine ⟨by decide, by decide, by decide⟩

/-- non-vacuity of `strand_mask_all_false_iff` -/
example : minQ [60, 25, 8, 40] = some 8 := by decide

end CrCube.C02
