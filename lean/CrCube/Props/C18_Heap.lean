/-
  C18 — results are a pure function of the arguments, whatever the access history:
  ALIASING of cached arrays.

  Model: `CrCube.Heap` (a heap of arrays; lazy caches hold addresses; a property body returns a
  fresh array or an alias of a dependency and may write in place).
  Spec:  `Heap.fresh` (new objects, one read) and `Heap.den` (the value-semantics reading).
  Proofs: `CrCube.Lemmas.C18HeapProofs` (namespace `C18HeapL`).

  The hypothesis `NoInPlaceWrite` is what `harness/props/c18_heap.py` checks on the real library
  (through its consequence `integrity_invariant`: the contents of an array that a cache can reach
  never change).
-/
import CrCube.Model.Heap
import CrCube.Lemmas.C18HeapProofs

namespace CrCube.C18
open CrCube.Heap

/-- (a) For ALL programs of lazy properties (any sharing of cube-level slots between objects, any
    number of aliases: properties that hand out the very array another cache holds) and ALL
    histories of reads: if no property body writes to an address that existed before it ran,
    every read returns exactly what a fresh evaluation (new objects, that one read) returns.
    Aliasing alone is harmless. -/
theorem heap_read_refines (prog : List Def) (hp : ∀ d ∈ prog, NoInPlaceWrite d = true) (ops : List Nat) :
    ∀ x ∈ ops.zip (run prog ops {}).1, x.2 = fresh prog x.1 := by
  rw [C18HeapL.run_eq_fresh prog hp ops {} (C18HeapL.inv_init _)]
  exact C18HeapL.zip_map_self (fresh prog) ops

/-- … from any state a history can have led to (not only from new objects), stated on the whole
    list of results -/
theorem heap_read_refines_from (prog : List Def) (hp : ∀ d ∈ prog, NoInPlaceWrite d = true)
    (before ops : List Nat) :
    (run prog ops (run prog before {}).2).1 = ops.map (fresh prog) := by
  have h : ∀ (l : List Nat) (st : St), C18HeapL.Inv (den prog) st → C18HeapL.Inv (den prog) (run prog l st).2 := by
    intro l
    induction l with
    | nil => intro st hi; exact hi
    | cons s ss ih => intro st hi; exact ih _ (C18HeapL.readVal_eq_den prog hp s st hi).2
  exact C18HeapL.run_eq_fresh prog hp ops _ (h before {} (C18HeapL.inv_init _))

/-- … and the fresh value is the value-semantics denotation of the property: reading the code
    as if arrays were immutable values is sound under the hypothesis -/
theorem heap_fresh_eq_den (prog : List Def) (hp : ∀ d ∈ prog, NoInPlaceWrite d = true) (s : Nat) :
    fresh prog s = den prog s := C18HeapL.fresh_eq_den prog hp s

/-- (c) integrity: under `NoInPlaceWrite`, whatever the state and whatever the history that
    follows, every allocated address stays allocated and keeps its contents.  (This consequence of
    the hypothesis is what the harness checks dynamically on the real object graph.) -/
theorem integrity_invariant (prog : List Def) (hp : ∀ d ∈ prog, NoInPlaceWrite d = true)
    (ops : List Nat) (st : St) :
    ∀ a, a < st.heap.length →
      a < (run prog ops st).2.heap.length ∧ get (run prog ops st).2.heap a = get st.heap a := by
  intro a ha
  have he := C18HeapL.run_ext prog hp ops st
  exact ⟨Nat.lt_of_lt_of_le ha he.length_le, he.get ha⟩

/-- the static predicate is the dynamic one: an executed body that satisfies it writes (if at
    all) only at or above the heap size it started from -/
theorem noInPlaceWrite_dynamic {d : Def} (hd : NoInPlaceWrite d = true) (as : List Addr) (st : St) :
    stepWritesOnlyNew d as st = true := by
  rcases C18HeapL.nipw_cases hd with ⟨hw, _⟩ | ⟨i, hw, _⟩ | ⟨g, hw, hr⟩
  · simp [stepWritesOnlyNew, target, hw]
  · simp [stepWritesOnlyNew, target, hw]
  · simp [stepWritesOnlyNew, target, place, hw, hr]

/-! ### (b) the converse: one in-place write into a cached address -/

/-- slot 0 (cube level): the counts; slot 1 (a partition): `table_proportions`, a fresh array;
    slot 2 (same partition): `population_proportions`, which RE-USES the cached array of slot 1
    and blanks its first entry in place (the shape of R6-C18-A, C03-1, R3-C01-2) -/
def exWriteAlias : List Def :=
  [ { owner := 1, deps := [1], f := fun _ => [], ret := .alias 0,
      write := some (.result, fun _ x => x.set 0 0) },
    { owner := 1, deps := [0], f := fun cs => (cs.getD 0 []).map (· * 10) },
    { owner := 0, deps := [], f := fun _ => [1, 2, 3] } ]

/-- slot 1: the cached signed order; slot 2: fills, a FRESH array computed from the order - after
    shifting the negative entries of the cached order in place (the shape of R6-C07-A) -/
def exWriteDep : List Def :=
  [ { owner := 1, deps := [1], f := fun cs => (cs.getD 0 []).map (fun i => if i < 0 then i + 5 else i),
      write := some (.dep 0, fun _ x => x.map (fun i => if i < 0 then i + 5 else i)) },
    { owner := 1, deps := [0], f := fun _ => [-1, 0, 1, -2] },
    { owner := 0, deps := [], f := fun _ => [] } ]

/-- ONE body that writes in place into a cached address (all others do not), and a history whose
    later read differs from the fresh value - even though the writing property itself is never
    read again, and even though the polluted property had been read (correctly) before. -/
theorem inplace_write_counterexample :
    (exWriteAlias.map NoInPlaceWrite = [false, true, true]) ∧
    (run exWriteAlias [1, 2, 1] {}).1 = [[10, 20, 30], [0, 20, 30], [0, 20, 30]] ∧
    fresh exWriteAlias 1 = [10, 20, 30] ∧
    (∃ x ∈ [1, 2, 1].zip (run exWriteAlias [1, 2, 1] {}).1, x.2 ≠ fresh exWriteAlias x.1) ∧
    -- the polluted slot need not have been read before the write
    (∃ x ∈ [2, 1].zip (run exWriteAlias [2, 1] {}).1, x.2 ≠ fresh exWriteAlias x.1) ∧
    -- the write need not go into the returned array: a write into a dependency, fresh result
    (exWriteDep.map NoInPlaceWrite = [false, true, true]) ∧
    (run exWriteDep [2, 1] {}).1 = [[4, 0, 1, 3], [4, 0, 1, 3]] ∧ fresh exWriteDep 1 = [-1, 0, 1, -2] := by
  refine ⟨by decide, by decide, by decide, ⟨(1, [0, 20, 30]), by decide, by decide⟩,
    ⟨(1, [0, 20, 30]), by decide, by decide⟩, by decide, by decide, by decide⟩

/-- … and the integrity invariant is exactly what breaks: address 1 changes its contents -/
theorem inplace_write_breaks_integrity :
    let st := (run exWriteAlias [1] {}).2
    1 < st.heap.length ∧ get st.heap 1 = [10, 20, 30] ∧ get (run exWriteAlias [2] st).2.heap 1 = [0, 20, 30] := by
  decide

/-! ### non-vacuity -/

/-- aliasing without writing: slot 2 hands out slot 1's array, slot 3 (another object) builds a
    fresh array from it and edits THAT in place (allowed: the address did not exist before) -/
def exAliasOnly : List Def :=
  [ { owner := 2, deps := [2, 0], f := fun cs => (cs.getD 0 []).map (· + 1),
      write := some (.result, fun _ x => x.set 0 7) },
    { owner := 1, deps := [1], f := fun _ => [], ret := .alias 0 },
    { owner := 1, deps := [0], f := fun cs => (cs.getD 0 []).map (· * 10) },
    { owner := 0, deps := [], f := fun _ => [1, 2, 3] } ]

example : ∀ d ∈ exAliasOnly, NoInPlaceWrite d = true := by decide
/-- the alias is real: slots 1 and 2 sit at the SAME address (1) -/
example : (read exAliasOnly 2 {}).1 = 1 ∧ (read exAliasOnly 1 (read exAliasOnly 2 {}).2).1 = 1 := by decide
example : (run exAliasOnly [3, 1, 2, 3, 1, 0] {}).1 =
    [[7, 21, 31], [10, 20, 30], [10, 20, 30], [7, 21, 31], [10, 20, 30], [1, 2, 3]] := by decide
example : [3, 1, 2, 3, 1, 0].map (fresh exAliasOnly) =
    [[7, 21, 31], [10, 20, 30], [10, 20, 30], [7, 21, 31], [10, 20, 30], [1, 2, 3]] := by decide
/-- `integrity_invariant` on a non-empty state -/
example : (run exAliasOnly [2] {}).2.heap = [[1, 2, 3], [10, 20, 30]] ∧
    (run exAliasOnly [3, 0] (run exAliasOnly [2] {}).2).2.heap = [[1, 2, 3], [10, 20, 30], [7, 21, 31]] := by decide
/-- the dynamic predicate is false on the offending step of the counterexample -/
example : stepWritesOnlyNew (exWriteAlias.headD { deps := [], f := fun _ => [] }) [1] (run exWriteAlias [1] {}).2 = false := by decide

end CrCube.C18
