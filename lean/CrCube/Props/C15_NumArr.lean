/-
  C15 (numeric arrays) — share of sum of a numeric array grouped by TWO categorical dimensions.

  The sums of slice `k` (one slice per subvariable) of a NUM_ARRAY × CAT × CAT cube are read from the
  raw measure array through `Dimensions.dimension_order / shape` and `Cube._valid_idxs`
  (`NDesign.sliceNumeric`, Model/NumArray.lean).  `numarr3d_sums_cell`: that reading IS the
  back-end cell `data[(a_i, b_j, k)]` of the (cat-1, cat-2, subvariable) layout; hence
  (`numarr3d_*_share`) every block of the three share measures of the slice is the C15 formula
  `cell / total over base rows | columns | cells` of the table assembled from the back-end cells.
  `numarr3d_reversed_order_counterexample`: reading the same data with the plainly reversed order
  (2, 1, 0) returns another cell (the slice is transposed), so the rotation (1, 2, 0) is forced.
-/
import CrCube.Props.C15
import CrCube.Lemmas.NumArray

namespace CrCube.C15
open CrCube ShareSpec

/-- the back-end cell of subvariable `k`: valid category `i` of the first, `j` of the second group
    dimension in a measure laid out (cat-1, cat-2, subvariable) -/
def backendCell (A B : Var) (raw : FT) (k : Nat) : Nat → Nat → Val :=
  fun i j => raw.get (A.msub i ++ B.msub j ++ [k])

section numarr3d
variable (A B : Var) (hA : A.kind = .cat) (hB : B.kind = .cat) (n : Nat) (raw : FT)
include hA hB

/-- the sums of slice `k` are the back-end cells of subvariable `k` -/
theorem numarr3d_sums_cell (k : Nat) (hk : k < n) :
    (NDesign.mk [A, B] (some n)).sliceNumeric raw k = backendCell A B raw k := by
  funext i j
  exact numarr3d_numeric A B hA hB n raw k i j hk

variable (nr nc : Nat) (x : SubCtx)

theorem numarr3d_row_share (k : Nat) (hk : k < n) (i j r l : Nat) (hi : i < nr) (hj : j < nc) :
    (Msr.rowShareSum ((NDesign.mk [A, B] (some n)).sliceNumeric raw k) nr nc x).body i j
        = rowShare (Msr.sums (backendCell A B raw k) nr nc x).ext nc i j
      ∧ (Msr.rowShareSum ((NDesign.mk [A, B] (some n)).sliceNumeric raw k) nr nc x).insCols i l
        = rowShare (Msr.sums (backendCell A B raw k) nr nc x).ext nc i (nc + l)
      ∧ (Msr.rowShareSum ((NDesign.mk [A, B] (some n)).sliceNumeric raw k) nr nc x).insRows r j
        = rowShare (Msr.sums (backendCell A B raw k) nr nc x).ext nc (nr + r) j
      ∧ (Msr.rowShareSum ((NDesign.mk [A, B] (some n)).sliceNumeric raw k) nr nc x).inter r l
        = rowShare (Msr.sums (backendCell A B raw k) nr nc x).ext nc (nr + r) (nc + l) := by
  rw [numarr3d_sums_cell A B hA hB n raw k hk]
  exact row_share_spec (backendCell A B raw k) nr nc x i j r l hi hj

theorem numarr3d_col_share (k : Nat) (hk : k < n) (i j r l : Nat) (hi : i < nr) (hj : j < nc) :
    (Msr.columnShareSum ((NDesign.mk [A, B] (some n)).sliceNumeric raw k) nr nc x).body i j
        = colShare (Msr.sums (backendCell A B raw k) nr nc x).ext nr i j
      ∧ (Msr.columnShareSum ((NDesign.mk [A, B] (some n)).sliceNumeric raw k) nr nc x).insCols i l
        = colShare (Msr.sums (backendCell A B raw k) nr nc x).ext nr i (nc + l)
      ∧ (Msr.columnShareSum ((NDesign.mk [A, B] (some n)).sliceNumeric raw k) nr nc x).insRows r j
        = colShare (Msr.sums (backendCell A B raw k) nr nc x).ext nr (nr + r) j
      ∧ (Msr.columnShareSum ((NDesign.mk [A, B] (some n)).sliceNumeric raw k) nr nc x).inter r l
        = colShare (Msr.sums (backendCell A B raw k) nr nc x).ext nr (nr + r) (nc + l) := by
  rw [numarr3d_sums_cell A B hA hB n raw k hk]
  exact col_share_spec (backendCell A B raw k) nr nc x i j r l hi hj

theorem numarr3d_total_share (k : Nat) (hk : k < n) (i j r l : Nat) (hi : i < nr) (hj : j < nc) :
    (Msr.totalShareSum ((NDesign.mk [A, B] (some n)).sliceNumeric raw k) nr nc x).body i j
        = totalShare (Msr.sums (backendCell A B raw k) nr nc x).ext nr nc i j
      ∧ (Msr.totalShareSum ((NDesign.mk [A, B] (some n)).sliceNumeric raw k) nr nc x).insCols i l
        = totalShare (Msr.sums (backendCell A B raw k) nr nc x).ext nr nc i (nc + l)
      ∧ (Msr.totalShareSum ((NDesign.mk [A, B] (some n)).sliceNumeric raw k) nr nc x).insRows r j
        = totalShare (Msr.sums (backendCell A B raw k) nr nc x).ext nr nc (nr + r) j
      ∧ (Msr.totalShareSum ((NDesign.mk [A, B] (some n)).sliceNumeric raw k) nr nc x).inter r l
        = totalShare (Msr.sums (backendCell A B raw k) nr nc x).ext nr nc (nr + r) (nc + l) := by
  rw [numarr3d_sums_cell A B hA hB n raw k hk]
  exact total_share_spec (backendCell A B raw k) nr nc x i j r l hi hj

end numarr3d

/-! ### the order is forced: the plain reversal reads another cell -/

/-- a categorical variable with `m` valid categories -/
def plainCat (m : Nat) : Var := { kind := .cat, n := m, catMissing := List.replicate m false }

/-- non-vacuity of `hA`, `hB`, `hk` -/
example : (plainCat 2).kind = .cat ∧ (0 : Nat) < 1 := by decide

/-- 2 × 2 categories, one subvariable, back-end data `[1, 2, 3, 4]` (cell (a, b) = data[2a + b]):
    with the code's order (1, 2, 0) cell (row 0, column 1) of the slice is 2; reading the same flat
    data with the reversed order (2, 1, 0) -- shape and valid indices permuted alike -- gives 3. -/
theorem numarr3d_reversed_order_counterexample :
    let d : NDesign := NDesign.mk [plainCat 2, plainCat 2] (some 1)
    let data : List Val := [1, 2, 3, 4]
    d.order = [1, 2, 0]
      ∧ (permTake (FT.ofFlat d.shape data) d.valid d.order).get [0, 0, 1] = 2
      ∧ (permTake (FT.ofFlat ([2, 1, 0].map (fun i => d.sizes.getD i 0)) data) d.valid [2, 1, 0]).get
          [0, 0, 1] = 3 := by
  decide

end CrCube.C15
