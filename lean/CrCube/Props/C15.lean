/-
  C15 — share of sum divides by the base-cell total of the row, column or table.

  Model: `Msr.rowShareSum / columnShareSum / totalShareSum` (matrix/measure.py AFTER fix F2) and
  `StripeMsr.shareSum` (stripe/measure.py).  Spec: `ShareSpec` — ONE formula over the assembled
  table `Blocks.ext` (= `np.block`): cell / nansum of its row | column | the table over BASE
  columns | rows | cells.  The unfixed blocks (`*Legacy`) are refuted in `*_legacy_counterexample`.
-/
import CrCube.Model.SubtotalMeasures
import CrCube.Spec.SubtotalSpec
import CrCube.Lemmas.ValAlgebra
import CrCube.Lemmas.SubtotalFacts
import CrCube.Lemmas.Wsum
import CrCube.Lemmas.ShareFacts
import Mathlib.Tactic.FieldSimp
import Mathlib.Tactic.IntervalCases
import Mathlib.Tactic.NormNum
import Mathlib.Algebra.BigOperators.Group.List.Basic

namespace CrCube.C15
open CrCube ShareSpec

/-! ## 1. the share formula, block by block -/

section spec
variable (v : Nat → Nat → Val) (nr nc : Nat) (x : SubCtx)

/-- **row share**: in all four blocks the model's value is `cell / total of its row over the
    base columns` of the assembled sums table -/
theorem row_share_spec (i j k l : Nat) (hi : i < nr) (hj : j < nc) :
    let E := (Msr.sums v nr nc x).ext
    (Msr.rowShareSum v nr nc x).body i j = rowShare E nc i j
      ∧ (Msr.rowShareSum v nr nc x).insCols i l = rowShare E nc i (nc + l)
      ∧ (Msr.rowShareSum v nr nc x).insRows k j = rowShare E nc (nr + k) j
      ∧ (Msr.rowShareSum v nr nc x).inter k l = rowShare E nc (nr + k) (nc + l) := by
  have hb := rowTotal_base v nr nc x i hi
  have hk := rowTotal_ins v nr nc x k
  refine ⟨?_, ?_, ?_, ?_⟩
  · simp only [rowShare, hb]; rw [sums_ext_body v nr nc x i j hi hj]; rfl
  · simp only [rowShare, hb]; rw [sums_ext_insCols v nr nc x i l hi]; rfl
  · simp only [rowShare, hk]; rw [sums_ext_insRows v nr nc x k j hj]; rfl
  · simp only [rowShare, hk]; rw [sums_ext_inter v nr nc x k l]; rfl

/-- **column share** -/
theorem col_share_spec (i j k l : Nat) (hi : i < nr) (hj : j < nc) :
    let E := (Msr.sums v nr nc x).ext
    (Msr.columnShareSum v nr nc x).body i j = colShare E nr i j
      ∧ (Msr.columnShareSum v nr nc x).insCols i l = colShare E nr i (nc + l)
      ∧ (Msr.columnShareSum v nr nc x).insRows k j = colShare E nr (nr + k) j
      ∧ (Msr.columnShareSum v nr nc x).inter k l = colShare E nr (nr + k) (nc + l) := by
  have hb := colTotal_base v nr nc x j hj
  have hl := colTotal_ins v nr nc x l
  refine ⟨?_, ?_, ?_, ?_⟩
  · simp only [colShare, hb]; rw [sums_ext_body v nr nc x i j hi hj]; rfl
  · simp only [colShare, hl]; rw [sums_ext_insCols v nr nc x i l hi]; rfl
  · simp only [colShare, hb]; rw [sums_ext_insRows v nr nc x k j hj]; rfl
  · simp only [colShare, hl]; rw [sums_ext_inter v nr nc x k l]; rfl

/-- **total share** -/
theorem total_share_spec (i j k l : Nat) (hi : i < nr) (hj : j < nc) :
    let E := (Msr.sums v nr nc x).ext
    (Msr.totalShareSum v nr nc x).body i j = totalShare E nr nc i j
      ∧ (Msr.totalShareSum v nr nc x).insCols i l = totalShare E nr nc i (nc + l)
      ∧ (Msr.totalShareSum v nr nc x).insRows k j = totalShare E nr nc (nr + k) j
      ∧ (Msr.totalShareSum v nr nc x).inter k l = totalShare E nr nc (nr + k) (nc + l) := by
  have ht := tableTotal_eq v nr nc x
  refine ⟨?_, ?_, ?_, ?_⟩
  · simp only [totalShare, ht]; rw [sums_ext_body v nr nc x i j hi hj]; rfl
  · simp only [totalShare, ht]; rw [sums_ext_insCols v nr nc x i l hi]; rfl
  · simp only [totalShare, ht]; rw [sums_ext_insRows v nr nc x k j hj]; rfl
  · simp only [totalShare, ht]; rw [sums_ext_inter v nr nc x k l]; rfl

end spec

/-! ## 2. corollaries: base shares add up to 1; a subtotal's share is the sum of its addends' -/

section corollaries
variable (v : Nat → Nat → Val) (nr nc : Nat) (x : SubCtx)

/-- **base shares add up to 1** along a row (base row or inserted row alike): if the row's
    sums over the base columns are finite with non-zero total -/
theorem row_shares_sum_to_one (E : Nat → Nat → Val) (i : Nat) (q : Nat → Rat)
    (hfin : ∀ j < nc, E i j = .fin (q j)) (hT : ((List.range nc).map q).sum ≠ 0) :
    Val.sum (tab1 nc (fun j => rowShare E nc i j)) = .fin 1 := by
  have hrow : tab1 nc (fun j => E i j) = ((List.range nc).map q).map Val.fin := by
    unfold tab1; rw [List.map_map]
    exact List.map_congr_left (fun j hj => hfin j (List.mem_range.mp hj))
  have hL : ∀ C : Val, tab1 nc (fun j => E i j / C)
      = ((List.range nc).map q).map (fun r => Val.fin r / C) := by
    intro C
    unfold tab1; rw [List.map_map]
    exact List.map_congr_left (fun j hj => by rw [hfin j (List.mem_range.mp hj)]; rfl)
  unfold rowShare rowTotal
  rw [hrow, hL]
  exact shares_sum_one_list _ hT

/-- along a column -/
theorem col_shares_sum_to_one (E : Nat → Nat → Val) (j : Nat) (q : Nat → Rat)
    (hfin : ∀ i < nr, E i j = .fin (q i)) (hT : ((List.range nr).map q).sum ≠ 0) :
    Val.sum (tab1 nr (fun i => colShare E nr i j)) = .fin 1 := by
  have hcol : tab1 nr (fun i => E i j) = ((List.range nr).map q).map Val.fin := by
    unfold tab1; rw [List.map_map]
    exact List.map_congr_left (fun i hi => hfin i (List.mem_range.mp hi))
  have hL : ∀ C : Val, tab1 nr (fun i => E i j / C)
      = ((List.range nr).map q).map (fun r => Val.fin r / C) := by
    intro C
    unfold tab1; rw [List.map_map]
    exact List.map_congr_left (fun i hi => by rw [hfin i (List.mem_range.mp hi)]; rfl)
  unfold colShare colTotal
  rw [hcol, hL]
  exact shares_sum_one_list _ hT

/-- over the whole table -/
theorem total_shares_sum_to_one (E : Nat → Nat → Val) (q : Nat → Nat → Rat)
    (hfin : ∀ i < nr, ∀ j < nc, E i j = .fin (q i j)) (hT : ((tab2 nr nc q).flatten).sum ≠ 0) :
    Val.sum ((tab2 nr nc (fun i j => totalShare E nr nc i j)).flatten) = .fin 1 := by
  have hG : ∀ g : Rat → Val, ∀ F : Nat → Nat → Val, (∀ i < nr, ∀ j < nc, F i j = g (q i j)) →
      (tab2 nr nc F).flatten = ((tab2 nr nc q).flatten).map g := by
    intro g F hF
    rw [List.map_flatten]
    congr 1
    unfold tab2
    rw [List.map_map]
    apply List.map_congr_left
    intro i hi
    rw [Function.comp_apply, List.map_map]
    exact List.map_congr_left (fun j hj => hF i (List.mem_range.mp hi) j (List.mem_range.mp hj))
  have hE := hG Val.fin E hfin
  unfold totalShare tableTotal
  rw [hE]
  rw [hG (fun r => Val.fin r / Val.nansum (((tab2 nr nc q).flatten).map Val.fin))
        (fun i j => E i j / Val.nansum (((tab2 nr nc q).flatten).map Val.fin))
        (fun i hi j hj => by rw [hfin i hi j hj])]
  exact shares_sum_one_list _ hT

/-- **the column share of a row subtotal is the sum of its addends' column shares**
    (subtotal without subtrahends; the column's base sums finite with non-zero total) -/
theorem col_share_additive (k j : Nat) (q : Nat → Rat)
    (hnd : (subAt x.rowSubs k).isDiff = false)
    (hA : ∀ a ∈ (subAt x.rowSubs k).addendIdxs, a < nr)
    (hfin : ∀ i < nr, v i j = .fin (q i)) (hT : ((List.range nr).map q).sum ≠ 0) :
    (Msr.columnShareSum v nr nc x).insRows k j
      = Val.sum ((subAt x.rowSubs k).addendIdxs.map (fun a => (Msr.columnShareSum v nr nc x).body a j)) := by
  have hsub : (subAt x.rowSubs k).subtrahendIdxs = [] := by
    unfold Subtotal.isDiff at hnd
    simpa using hnd
  have htot : nansumCol nr v j = .fin (((List.range nr).map q).sum) := by
    unfold nansumCol tab1
    rw [← nansum_fin, List.map_map]
    congr 1
    exact List.map_congr_left (fun i hi => hfin i (List.mem_range.mp hi))
  have hnum : sumAt (subAt x.rowSubs k).addendIdxs (fun i => v i j)
      = .fin (((subAt x.rowSubs k).addendIdxs.map q).sum) :=
    sumAt_fin_of _ _ q (fun a ha => hfin a (hA a ha))
  simp only [Msr.columnShareSum, Msr.sums, SumSub.blocks, SumSub.row, hnd, Bool.and_false, Bool.false_eq_true,
    if_false, hsub, sumAt_nil, Val.sub_fin0, htot, hnum]
  rw [fin_div_fin _ _ hT]
  have : (subAt x.rowSubs k).addendIdxs.map (fun a => v a j / Val.fin ((List.range nr).map q).sum)
      = ((subAt x.rowSubs k).addendIdxs.map (fun a => q a / ((List.range nr).map q).sum)).map Val.fin := by
    rw [List.map_map]
    exact List.map_congr_left (fun a ha => by simp [hfin a (hA a ha), fin_div_fin _ _ hT])
  rw [this, Val.sum_fin, list_sum_div]

/-- symmetric: the row share of a column subtotal is the sum of its addends' row shares -/
theorem row_share_additive (i l : Nat) (q : Nat → Rat)
    (hnd : (subAt x.colSubs l).isDiff = false)
    (hA : ∀ a ∈ (subAt x.colSubs l).addendIdxs, a < nc)
    (hfin : ∀ j < nc, v i j = .fin (q j)) (hT : ((List.range nc).map q).sum ≠ 0) :
    (Msr.rowShareSum v nr nc x).insCols i l
      = Val.sum ((subAt x.colSubs l).addendIdxs.map (fun a => (Msr.rowShareSum v nr nc x).body i a)) := by
  have hsub : (subAt x.colSubs l).subtrahendIdxs = [] := by
    unfold Subtotal.isDiff at hnd
    simpa using hnd
  have htot : nansumRow nc v i = .fin (((List.range nc).map q).sum) := by
    unfold nansumRow tab1
    rw [← nansum_fin, List.map_map]
    congr 1
    exact List.map_congr_left (fun j hj => hfin j (List.mem_range.mp hj))
  have hnum : sumAt (subAt x.colSubs l).addendIdxs (fun j => v i j)
      = .fin (((subAt x.colSubs l).addendIdxs.map q).sum) :=
    sumAt_fin_of _ _ q (fun a ha => hfin a (hA a ha))
  simp only [Msr.rowShareSum, Msr.sums, SumSub.blocks, SumSub.col, hnd, Bool.and_false, Bool.false_eq_true,
    if_false, hsub, sumAt_nil, Val.sub_fin0, htot, hnum]
  rw [fin_div_fin _ _ hT]
  have : (subAt x.colSubs l).addendIdxs.map (fun a => v i a / Val.fin ((List.range nc).map q).sum)
      = ((subAt x.colSubs l).addendIdxs.map (fun a => q a / ((List.range nc).map q).sum)).map Val.fin := by
    rw [List.map_map]
    exact List.map_congr_left (fun a ha => by simp [hfin a (hA a ha), fin_div_fin _ _ hT])
  rw [this, Val.sum_fin, list_sum_div]

/-- …and for total shares (row subtotal; the addend cells finite, table total `T` finite ≠ 0) -/
theorem total_share_additive (k j : Nat) (q : Nat → Rat) (T : Rat)
    (hnd : (subAt x.rowSubs k).isDiff = false)
    (hfin : ∀ a ∈ (subAt x.rowSubs k).addendIdxs, v a j = .fin (q a))
    (htot : nansumAll nr nc v = .fin T) (hT : T ≠ 0) :
    (Msr.totalShareSum v nr nc x).insRows k j
      = Val.sum ((subAt x.rowSubs k).addendIdxs.map (fun a => (Msr.totalShareSum v nr nc x).body a j)) := by
  have hsub : (subAt x.rowSubs k).subtrahendIdxs = [] := by
    unfold Subtotal.isDiff at hnd
    simpa using hnd
  have hnum : sumAt (subAt x.rowSubs k).addendIdxs (fun i => v i j)
      = .fin (((subAt x.rowSubs k).addendIdxs.map q).sum) := sumAt_fin_of _ _ q hfin
  simp only [Msr.totalShareSum, Msr.sums, SumSub.blocks, SumSub.row, hnd, Bool.and_false, Bool.false_eq_true,
    if_false, hsub, sumAt_nil, Val.sub_fin0, htot, hnum]
  rw [fin_div_fin _ _ hT]
  have : (subAt x.rowSubs k).addendIdxs.map (fun a => v a j / Val.fin T)
      = ((subAt x.rowSubs k).addendIdxs.map (fun a => q a / T)).map Val.fin := by
    rw [List.map_map]
    exact List.map_congr_left (fun a ha => by simp [hfin a ha, fin_div_fin _ _ hT])
  rw [this, Val.sum_fin, list_sum_div]

end corollaries

/-! ## 3. strand -/

/-- base rows of a strand: `sum / total over the base rows` -/
theorem strand_share_base (v : Nat → Val) (n : Nat) (subs : List Subtotal) (i : Nat) (hi : i < n) :
    (StripeMsr.shareSum v n subs).base i = strandShare (strandExt v n subs) n i := by
  have : tab1 n (strandExt v n subs) = tab1 n v :=
    tab1_congr n _ _ (fun j hj => by simp [strandExt, hj])
  simp [StripeMsr.shareSum, strandShare, this, strandExt, hi]

/-- subtotal rows of a strand (sums AND differences): the library adds / subtracts the addends'
    shares; with finite sums and a non-zero total that is `subtotal sum / total` -/
theorem strand_share_subtotal (v : Nat → Val) (n : Nat) (subs : List Subtotal) (k : Nat) (q : Nat → Rat)
    (hfin : ∀ i < n, v i = .fin (q i)) (hT : ((List.range n).map q).sum ≠ 0)
    (hA : ∀ a ∈ (subAt subs k).addendIdxs, a < n) (hB : ∀ a ∈ (subAt subs k).subtrahendIdxs, a < n) :
    (StripeMsr.shareSum v n subs).subs k = strandShare (strandExt v n subs) n (n + k) := by
  have hbase : tab1 n (strandExt v n subs) = tab1 n v :=
    tab1_congr n _ _ (fun j hj => by simp [strandExt, hj])
  have htot : Val.nansum (tab1 n v) = .fin (((List.range n).map q).sum) := by
    unfold tab1
    rw [← nansum_fin, List.map_map]
    congr 1
    exact List.map_congr_left (fun i hi => hfin i (List.mem_range.mp hi))
  set T := ((List.range n).map q).sum with hTdef
  have hshare : ∀ (L : List Nat), (∀ a ∈ L, a < n) →
      sumAt L (fun i => v i / Val.fin T) = .fin ((L.map q).sum / T) := by
    intro L hL
    rw [sumAt_fin_of L _ (fun a => q a / T) (fun a ha => by rw [hfin a (hL a ha), fin_div_fin _ _ hT])]
    rw [list_sum_div]
  simp only [StripeMsr.shareSum, strandShare, hbase, htot, strandExt, Nat.lt_irrefl, Nat.add_sub_cancel_left,
    Stripe.sumVal, hshare _ hA, hshare _ hB, sumAt_fin_of _ v q (fun a ha => hfin a (hA a ha)),
    sumAt_fin_of _ v q (fun a ha => hfin a (hB a ha)), Val.sub_fin]
  have hlt : ¬ (n + k < n) := by omega
  simp only [hlt, if_false, Val.sub_fin, fin_div_fin _ _ hT]
  congr 1
  field_simp

/-- base shares of a strand add up to 1 -/
theorem strand_shares_sum_to_one (v : Nat → Val) (n : Nat) (subs : List Subtotal) (q : Nat → Rat)
    (hfin : ∀ i < n, v i = .fin (q i)) (hT : ((List.range n).map q).sum ≠ 0) :
    Val.sum (tab1 n (StripeMsr.shareSum v n subs).base) = .fin 1 := by
  have hv : tab1 n v = ((List.range n).map q).map Val.fin := by
    unfold tab1; rw [List.map_map]
    exact List.map_congr_left (fun i hi => hfin i (List.mem_range.mp hi))
  have hL : ∀ C : Val, tab1 n (fun i => v i / C) = ((List.range n).map q).map (fun r => Val.fin r / C) := by
    intro C
    unfold tab1; rw [List.map_map]
    exact List.map_congr_left (fun i hi => by rw [hfin i (List.mem_range.mp hi)]; rfl)
  simp only [StripeMsr.shareSum]
  rw [hv, hL]
  exact shares_sum_one_list _ hT

/-! ## 4. the unfixed blocks (finding F2) are refuted on a 3 × 3 table

  sums `[[1,2,3],[4,5,6],[7,8,9]]`, row subtotal `+r0+r1`, column subtotal `+c1+c2`.  The Spec
  (and the fixed model) give column share 5/12 for the subtotal row in column 0; the unfixed
  code divides the inserted row by itself: 1.  Likewise the other four blocks. -/

def f2V : Nat → Nat → Val := fun i j => (FT.ofFlat [3, 3] [1, 2, 3, 4, 5, 6, 7, 8, 9]).get [i, j]
def f2X : SubCtx := { rowSubs := [⟨[0, 1], []⟩], colSubs := [⟨[1, 2], []⟩] }

theorem column_share_legacy_counterexample :
    (Msr.columnShareSumLegacy f2V 3 3 f2X).insRows 0 0 = .fin 1
      ∧ colShare (Msr.sums f2V 3 3 f2X).ext 3 3 0 = .fin (5 / 12)
      ∧ (Msr.columnShareSumLegacy f2V 3 3 f2X).inter 0 0 = .fin 1
      ∧ colShare (Msr.sums f2V 3 3 f2X).ext 3 3 3 = .fin (16 / 33) := by
  decide +kernel

theorem row_share_legacy_counterexample :
    (Msr.rowShareSumLegacy f2V 3 3 f2X).inter 0 0 = .fin 1
      ∧ rowShare (Msr.sums f2V 3 3 f2X).ext 3 3 3 = .fin (16 / 21) := by
  decide +kernel

theorem total_share_legacy_counterexample :
    (Msr.totalShareSumLegacy f2V 3 3 f2X).insRows 0 0 = .fin (5 / 21)
      ∧ totalShare (Msr.sums f2V 3 3 f2X).ext 3 3 3 0 = .fin (1 / 9)
      ∧ (Msr.totalShareSumLegacy f2V 3 3 f2X).inter 0 0 = .fin 1
      ∧ totalShare (Msr.sums f2V 3 3 f2X).ext 3 3 3 3 = .fin (16 / 45) := by
  decide +kernel

/-- the seven blocks the unfixed code gets right coincide with the fixed model on every input -/
theorem legacy_agrees_elsewhere (v : Nat → Nat → Val) (nr nc : Nat) (x : SubCtx) (i j k l : Nat) :
    (Msr.columnShareSumLegacy v nr nc x).body i j = (Msr.columnShareSum v nr nc x).body i j
      ∧ (Msr.columnShareSumLegacy v nr nc x).insCols i l = (Msr.columnShareSum v nr nc x).insCols i l
      ∧ (Msr.rowShareSumLegacy v nr nc x).body i j = (Msr.rowShareSum v nr nc x).body i j
      ∧ (Msr.rowShareSumLegacy v nr nc x).insCols i l = (Msr.rowShareSum v nr nc x).insCols i l
      ∧ (Msr.rowShareSumLegacy v nr nc x).insRows k j = (Msr.rowShareSum v nr nc x).insRows k j
      ∧ (Msr.totalShareSumLegacy v nr nc x).body i j = (Msr.totalShareSum v nr nc x).body i j
      ∧ (Msr.totalShareSumLegacy v nr nc x).insCols i l = (Msr.totalShareSum v nr nc x).insCols i l :=
  ⟨rfl, rfl, rfl, rfl, rfl, rfl, rfl⟩

/-! ## 5. non-vacuity and samples -/

/-- hypotheses of `col_share_additive` / `col_shares_sum_to_one` on the 3 × 3 table -/
example : (subAt f2X.rowSubs 0).isDiff = false ∧ (∀ a ∈ (subAt f2X.rowSubs 0).addendIdxs, a < 3)
    ∧ (∀ i < 3, f2V i 0 = .fin ((fun i => (3 * i + 1 : Rat)) i))
    ∧ ((List.range 3).map (fun i => (3 * i + 1 : Rat))).sum ≠ 0 := by
  refine ⟨by decide, by decide, ?_, by norm_num [List.range_succ]⟩
  intro i hi
  interval_cases i <;> decide +kernel

/-- sample: fixed model on the 3 × 3 table (matches the real library after fix F2) -/
example :
    (Msr.columnShareSum f2V 3 3 f2X).insRowsL = [[.fin (5 / 12), .fin (7 / 15), .fin (1 / 2)]]
      ∧ (Msr.columnShareSum f2V 3 3 f2X).interL = [[.fin (16 / 33)]]
      ∧ (Msr.rowShareSum f2V 3 3 f2X).interL = [[.fin (16 / 21)]]
      ∧ (Msr.totalShareSum f2V 3 3 f2X).insRowsL = [[.fin (1 / 9), .fin (7 / 45), .fin (1 / 5)]]
      ∧ (Msr.totalShareSum f2V 3 3 f2X).interL = [[.fin (16 / 45)]] := by
  decide +kernel

/-- NaN cells are skipped by the totals, and a zero total gives ±∞ / NaN shares -/
example :
    let v : Nat → Nat → Val := fun i j => (FT.ofFlat [2, 2] [.nan, .fin 2, .fin 1, .fin (-1)]).get [i, j]
    (Msr.rowShareSum v 2 2 ⟨[], [], false, false⟩).bodyL = [[.nan, .fin 1], [.pinf, .ninf]] := by
  decide +kernel

end CrCube.C15
