import CrCube.Model.Subtotals
import CrCube.Model.SubtotalMeasures
import CrCube.Spec.SubtotalSpec
namespace CrCube.C15
end CrCube.C15
