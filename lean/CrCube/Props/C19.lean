/-
  C19 — array items may be referenced by alias, sub-variable id or element id alike.

  Model: `CrCube.Shim` (`translate` = the ordered cascade of `_ElementIdShim.translate_element_id`,
  `shimXf` = the in-place rewrite of the transforms dict, `view` = what the analysis reads;
  mirrors the code WITH fixes F7 and F17).
  Spec:  `CrCube.ShimSpec` (`denotes` / `resolve` = what the STATEMENT says a reference denotes,
  `NoCollision`, `SameItem` / `SameRefs` = "the same transform, spelled differently").
  Proofs: `CrCube.Lemmas.C19Proofs` (namespace `C19L`), helper lemmas in `Lemmas/Shim*.lean`.
-/
import CrCube.Model.Shim
import CrCube.Spec.ShimSpec
import CrCube.Lemmas.C19Proofs

namespace CrCube.C19
open CrCube.Shim CrCube.ShimSpec

/-- Python `int(str(n)) == n` in the model (the "element id written as a string" rule rests on it) -/
theorem pyInt_decStr (n : Int) : pyInt (decStr n) = some n := C19L.pyInt_decStr n

/-- every non-`None` result of the cascade is an alias of the dimension -/
theorem translate_mem_aliases {d : Dim} {r : Ref} {a : String} (h : translate d r = some a) :
    a ∈ d.aliases := C19L.translate_mem_aliases h

/-- MAIN: whenever the statement determines the item (`resolve d r = .item k`: exactly one item
    has `r` among its spellings / positions), the cascade finds exactly that item — whatever
    the order of the six rules, with or without MR insertions, with NO further hypothesis. -/
theorem translate_eq_resolve {d : Dim} {r : Ref} {k : Nat} (h : resolve d r = .item k) :
    translate d r = some (item d k).alias := C19L.translate_eq_resolve h

/-- "References that match nothing are ignored rather than raising": when the statement says
    `r` matches nothing, the cascade returns `None` (the model is total: no exception). -/
theorem unmatched_none {d : Dim} {r : Ref} (h : resolve d r = .nothing) : translate d r = none :=
  C19L.unmatched_none h

/-- alias, int element id and string element id of an item -- and its sub-variable id, on a
    dimension whose elements all carry one (otherwise the library has no sub-variable ids at all:
    `_subvar_ids` is all-or-nothing) -- all resolve to that item (its alias), provided no spelling
    is shared (`NoCollision`). -/
theorem spellings_agree {d : Dim} (h : NoCollision d) {k : Nat} (hk : k < d.size) :
    translate d (.str (item d k).alias) = some (item d k).alias ∧
    (d.noSubvarIds = false → translate d (.str (item d k).subvarId) = some (item d k).alias) ∧
    translate d (.int (item d k).eid) = some (item d k).alias ∧
    translate d (.str (decStr (item d k).eid)) = some (item d k).alias := C19L.spellings_agree h hk

/-- "a number that is no element id is taken as a zero-based position" — int spelling
    (unconditional: no other rule can capture an int). -/
theorem position_rule_int {d : Dim} {n : Int} (hne : n ∉ d.eids) (h0 : 0 ≤ n) (hlt : n < (d.size : Int)) :
    translate d (.int n) = some (item d n.toNat).alias := C19L.position_rule_int hne h0 hlt

/-- the same for a string that Python's `int()` reads as `n`, provided the string is not itself
    an alias or a sub-variable id (rules 1 and 4 come first) -/
theorem position_rule_str {d : Dim} {s : String} {n : Int} (hs : pyInt s = some n)
    (ha : s ∉ d.aliases) (hv : s ∉ d.subvarIds) (hne : n ∉ d.eids) (h0 : 0 ≤ n)
    (hlt : n < (d.size : Int)) : translate d (.str s) = some (item d n.toNat).alias :=
  C19L.position_rule_str hs ha hv hne h0 hlt

/-- The hypothesis of `spellings_agree` is inherent: if `NoCollision` fails, some reference
    denotes two different items, so NO resolver can honour both. -/
theorem collision_inherent {d : Dim} (h : ¬ NoCollision d) :
    ∃ r i j, i ≠ j ∧ Den d r i ∧ Den d r j := C19L.collision_inherent h

/-- after the dimension shim every element id IS the item's alias (`_build_element_id`) -/
theorem element_ids_after_shim (d : Dim) : elementIds (shimDim d) = d.aliases.map Ref.str :=
  C19L.element_ids_after_shim d

/-- `slots_factor`: hide / rename keys, explicit ids, fixed lists and the opposing-element id
    reach the analysis ONLY through `translate` (resp. the `"key": "subvar_id"` lookup): two
    transforms whose references translate alike give the same view of the dimension. -/
theorem slots_factor (d : Dim) (x x' : DimXf)
    (he : x.elements.map (shimElems d) = x'.elements.map (shimElems d))
    (ho : x.orderIds.map (shimIds d) = x'.orderIds.map (shimIds d))
    (ht : x.fixedTop.map (shimIds d) = x'.fixedTop.map (shimIds d))
    (hb : x.fixedBottom.map (shimIds d) = x'.fixedBottom.map (shimIds d))
    (hopp : x.opposing.map (translate d) = x'.opposing.map (translate d)) :
    view d x = view d x' := C19L.slots_factor d x x' he ho ht hb hopp

/-- under `NoCollision`, any two spellings of the same item "mean the same" -/
theorem sameItem_of_spellings {d : Dim} (h : NoCollision d) {k : Nat} (hk : k < d.size) {r r' : Ref}
    (hr : r ∈ spellings d (item d k)) (hr' : r' ∈ spellings d (item d k)) : SameItem d r r' :=
  C19L.sameItem_of_spellings h hk hr hr'

/-- C19: in hide / rename, explicit-order, fixed-list and sort-by-opposing-element transforms all
    spellings of the same items give identical output (the whole `view` the analysis works from),
    and unmatched references may be swapped for other unmatched ones. -/
theorem slots_agree {d : Dim} {x x' : DimXf} (h : SameRefs d x x') : view d x = view d x' :=
  C19L.slots_agree h

/-- the LATE translation of an opposing-element id (`_SortRowsByBaseColumnHelper._column_idx`,
    `_SortColumnsByBaseRowHelper._row_idx`, `_SortRowsByDerivedColumnHelper._column_idx`) finds the
    position of the denoted item among the (alias) element ids; an unmatched id gives `none`
    (`ValueError`, which the caller turns into payload order). -/
theorem opposing_agree {d : Dim} (hn : d.aliases.Nodup) {r : Ref} :
    (∀ k, resolve d r = .item k → opposingIdx (shimDim d) r = some k) ∧
    (resolve d r = .nothing → opposingIdx (shimDim d) r = none) := C19L.opposing_agree hn

/-- "datetime elements may equally be referenced by position id or by value": for an element
    with a string value `v` and position id `i` (all elements with that id agree on the value),
    the int `i`, the decimal string of a non-negative `i`, and the value itself all translate to
    `v`; the value needs `DtNoCollision` (it must not itself read as a position id). -/
theorem datetime_by_position_or_value {d : DtDim} {it : DtItem} {v : String} (hit : it ∈ d.items)
    (hv : it.value = some v) (huniq : ∀ it' ∈ d.items, it'.id = it.id → it'.value = some v)
    (hnc : DtNoCollision d) :
    translateDt d (.int it.id) = .str v ∧
    (0 ≤ it.id → translateDt d (.str (decStr it.id)) = .str v) ∧
    translateDt d (.str v) = .str v := C19L.datetime_by_position_or_value hit hv huniq hnc

/-- before fix F7 a `None` reference raised `TypeError` (only `ValueError` was caught) … -/
theorem unfixed_null_raises (d : Dim) : Unfixed.translate d .null = .raises "TypeError" := rfl

/-- … and that is the ONLY difference: off `None` the unfixed cascade is the modelled one -/
theorem unfixed_agrees_off_null (d : Dim) {r : Ref} (h : r ≠ .null) :
    Unfixed.translate d r = .ok (translate d r) := C19L.unfixed_agrees_off_null d h

/-- a REAL-payload-shaped collision (tests/fixtures/mr_insertions/cat-x-mr-hs.json): with MR
    insertions the sub-variable ids are "1","2","3" while element ids are renumbered 1..6, so the
    string "2" is the sub-variable id of Spicy and the element id of Savory; the cascade (rule 3
    before rule 4) picks Savory.  `NoCollision` fails, `resolve` says `ambiguous`. -/
def mrInsDim : Dim :=
  { mrIns := true,
    items := [ { eid := 1, alias := "sav_spicy_top", subvarId := "savory + spicy", anchor := true, derived := true },
               { eid := 2, alias := "savory", subvarId := "1" },
               { eid := 3, alias := "spicy_sweet", subvarId := "spicy + sweet", anchor := true, derived := true },
               { eid := 4, alias := "spicy", subvarId := "2" },
               { eid := 5, alias := "sav_sweet", subvarId := "savory + sweet", anchor := true, derived := true },
               { eid := 6, alias := "sweet", subvarId := "3" } ] }

theorem collision_counterexample :
    ¬ NoCollision mrInsDim ∧
    (item mrInsDim 3).subvarId = "2" ∧ translate mrInsDim (.str "2") = some "savory" ∧
    resolve mrInsDim (.str "2") = .ambiguous ∧
    -- and WITHOUT the insertion special case the other reading wins
    translate { mrInsDim with mrIns := false } (.str "2") = some "spicy" := by
  refine ⟨by decide, by decide, by decide, by decide, by decide⟩


/-- F17 (code before the fix): on a DATETIME dimension the position id of a MISSING element
    (`-1`, "No Data") turned into the element's value object — unusable (`TypeError`) wherever the
    translated id is hashed; the fixed model leaves such a reference alone, so it is ignored. -/
theorem unfixed_datetime_missing_ref_counterexample :
    let d : DtDim := { items := [ { id := 0, value := some "2001-01-01" }, { id := -1, value := none } ] }
    Unfixed.translateDt d (.int (-1)) = .raises "TypeError: unhashable type: 'dict'" ∧
    translateDt d (.int (-1)) = .int (-1) ∧
    Unfixed.translateDt d (.int 0) = .ok (translateDt d (.int 0)) := by
  refine ⟨by decide, by decide, by decide⟩

/-! ### non-vacuity -/

def exDim : Dim :=
  { items := [ { eid := 7, alias := "m_a", subvarId := "0027" },
               { eid := 1, alias := "m_b", subvarId := "0021" },
               { eid := 4, alias := "m_c", subvarId := "0024" } ] }

example : NoCollision exDim := by decide
example : NoCollision { mrInsDim with items := mrInsDim.items.map (fun it => { it with subvarId := "s" ++ it.subvarId }) } := by decide
example : resolve exDim (.str "0021") = .item 1 ∧ resolve exDim (.int 0) = .item 0 ∧
          resolve exDim (.str "2") = .item 2 ∧ resolve exDim (.int 1) = .item 1 ∧
          resolve exDim (.str "zz") = .nothing ∧ resolve exDim .null = .nothing ∧
          resolve exDim (.str " 1") = .unspecified := by decide
example : translate exDim (.str " 1") = some "m_b" := by decide      -- Python's `int(" 1") == 1`
/-- one element without `value.id`: no sub-variable id resolves any more, the other spellings still do,
    and the `None` the shim writes for the stale id stays `None` on every later pass -/
example : let d := { exDim with noSubvarIds := true }
          NoCollision d ∧ translate d (.str "0021") = none ∧ resolve d (.str "0021") = .unspecified ∧
          translate d (.int 1) = some "m_b" ∧ shimIds d (shimIds d [.str "0021", .int 4]) = [.null, .str "m_c"] := by
  decide
example : SameItem exDim (.str "0024") (.int 4) := Or.inl ⟨2, by decide, by decide⟩
example : exDim.aliases.Nodup := by decide
example : DtNoCollision { items := [ { id := 0, value := some "2001-01-01" }, { id := -1, value := none } ] } := by decide
/-- the datetime hypothesis is needed: a digit-string value that names another element's id -/
example : translateDt { items := [ { id := 1, value := some "2" }, { id := 2, value := some "1" } ] } (.str "2")
          = .str "1" := by decide

end CrCube.C19
