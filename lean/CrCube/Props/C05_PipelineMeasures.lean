/-
  C05, phase 2 — the end-to-end pipeline computes EVERY measure of the sort-keyword tables by
  composing the per-property cell-level models on its own primitives.  Property theorems only.

  (a) `pipeline measure = per-property model on the pipeline's primitives` at every displayed
      position, so that the theorems of C11 (`VarCell` / `StrandCell`), C12 (`ZCell`, guards),
      C16 (`columnIndexOfCube`), C15 / C04 (`Msr.*ShareSum`, `Msr.sums`, `NanSub`), C17
      (`Population.SliceIn`) and C14 (`Scale.sliceVectors`) apply end to end;
  (b) the sort surrogates stored in the blocks are the surrogates of the symbolic values
      (`outKey`), hence every order type of the keyword tables is an instance of
      `Collator.displayOrder` over the pipeline's own blocks — and `slice_blocks_independent`,
      `slice_output_reindexed`, `slice_order_nodup / subset`, … of `Props/C05_Pipeline.lean`
      (stated for all `MKey`s) cover them;
  (c) the symbolic and display-level outputs re-index like everything else.
-/
import CrCube.Lemmas.PipelineMeasures
import CrCube.Props.C05_Pipeline
import CrCube.Props.C16
import CrCube.Props.C11
import CrCube.Props.C12
import CrCube.Lemmas.PipelineRespondents

set_option linter.unusedSimpArgs false
set_option linter.unusedVariables false

namespace CrCube.C05
open CrCube CrCube.Collator CrCube.Pipeline CrCube.Lemmas.Bridge

/-! ## every displayed cell of every Val-valued measure is the block cell at the named positions -/

/-- position (p, q) of any assembled measure shows the block cell at the positions the two signed
    indexes of the display orders name: base × base, base × inserted, inserted × base or
    intersection (generalises `slice_cell_is_block` / `slice_inserted_reads_insertion`) -/
theorem slice_mat_cell (c : CubeData) (rows cols : RDim) (key : MKey) (p q : Nat) (x y : Int)
    (hp : (sliceRowOrder c rows cols)[p]? = some x) (hq : (sliceColOrder c rows cols)[q]? = some y) :
    let b := sliceBlocks c rows cols key
    (((runSlice c rows cols).mat key).getD p []).getD q .nan
      = blockAt b (posOf b.nr b.nrs x) (posOf b.nc b.ncs y) := by
  show ((assembleMatrix _ _ _).getD p []).getD q .nan = _
  rw [assembleMatrix_cell _ _ _ p q _ _ hp hq]
  exact cell_eq_blockAt _ x y

/-! ## C11: variances, standard deviations, standard errors, margins of error -/

/-- **the proportion variance the pipeline shows at a displayed position is the C11 cell model
    `VarCell.variance` on the pipeline's primitives** (`varCellAt`: positive / negative term
    counts from the `PositiveTermSubtotals` / `NegativeTermSubtotals` blocks of the weighted
    counts, the base from the direction's weighted-base blocks, the wave-difference sums from the
    extractor, the sides from the resolved insertions) — so `C11.variance_eq_spec`,
    `variance_nan_iff`, `nonneg`, … speak about the displayed number -/
theorem slice_variance_is_C11 (c : CubeData) (rows cols : RDim) (d : Dir) (p q : Nat) (x y : Int)
    (hp : (sliceRowOrder c rows cols)[p]? = some x) (hq : (sliceColOrder c rows cols)[q]? = some y) :
    (((runSlice c rows cols).mat (.variance d)).getD p []).getD q .nan
      = (varCellAt c.w (sliceCtx rows cols) d
          (posOf c.w.nrows rows.subtotals.length x) (posOf c.w.ncols cols.subtotals.length y)).variance := by
  rw [slice_mat_cell c rows cols (.variance d) p q x y hp hq]
  show blockAt (varianceBlocks c.w (sliceCtx rows cols) d) (posOf c.w.nrows rows.subtotals.length x)
    (posOf c.w.ncols cols.subtotals.length y) = _
  unfold varianceBlocks
  exact blockAt_blocksOfFn _ _ _ _ _ _ _

/-- what the C11 cell is fed with, spelled out -/
theorem varCellAt_prims (m : MatCounts) (x : SubCtx) (d : Dir) (P Q : Pos) :
    let vc := varCellAt m x d P Q
    vc.dir = d ∧ vc.R = sideOf x.rowSubs P ∧ vc.C = sideOf x.colSubs Q ∧
    vc.np = blockAt (PosSub.blocks m.counts m.nrows m.ncols x.rowSubs x.colSubs) P Q ∧
    vc.nn = blockAt (NegSub.blocks m.counts m.nrows m.ncols x.rowSubs x.colSubs) P Q ∧
    vc.base = blockAt (dirBaseBlocks m x d) P Q ∧
    vc.rowsCatDate = x.rowsCatDate ∧ vc.colsCatDate = x.colsCatDate :=
  ⟨rfl, rfl, rfl, rfl, rfl, rfl, rfl, rfl⟩

/-- a base element is its own only addend; the k-th subtotal has the resolved offsets -/
theorem sideOf_def (subs : List Subtotal) :
    (∀ i, sideOf subs (.base i) = Side.base i) ∧
    (∀ k, sideOf subs (.ins k) = ⟨(subAt subs k).addendIdxs, (subAt subs k).subtrahendIdxs, true⟩) :=
  ⟨fun _ => rfl, fun _ => rfl⟩

/-- every cell of the symbolic outputs is the symbolic cell at the named positions -/
theorem slice_omat_cell (c : CubeData) (rows cols : RDim) (population fraction : Val) (key : OKey)
    (p q : Nat) (x y : Int)
    (hp : (sliceRowOrder c rows cols)[p]? = some x) (hq : (sliceColOrder c rows cols)[q]? = some y) :
    (((runSliceX c rows cols population fraction).omat key).getD p []).getD q (.v .nan)
      = sliceOutCell c rows cols key
          (posOf c.w.nrows rows.subtotals.length x) (posOf c.w.ncols cols.subtotals.length y) :=
  assembleCells_cell _ _ _ _ _ _ _ p q x y _ hp hq

/-- **std-dev, std-err and MoE are `VarCell.stdDev / stdErr / moe` of the same C11 cell**
    (`C11.stddev_def`, `stderr_def`, `moe_def`, `z975_value` then give sqrt(variance),
    sqrt(variance / base), 1.959964 · std-err) -/
theorem slice_stats_are_C11 (c : CubeData) (rows cols : RDim) (d : Dir) (P Q : Pos) :
    let vc := varCellAt c.w (sliceCtx rows cols) d P Q
    sliceOutCell c rows cols (.stdDev d) P Q = vc.stdDev ∧
    sliceOutCell c rows cols (.stdErr d) P Q = vc.stdErr ∧
    sliceOutCell c rows cols (.moe d) P Q = vc.moe ∧
    sliceOutCell c rows cols (.stdDev d) P Q
      = .sqrt (blockAt (sliceBlocks c rows cols (.variance d)) P Q) :=
  ⟨rfl, rfl, rfl, by
    show Out.sqrt _ = Out.sqrt _
    rw [show sliceBlocks c rows cols (.variance d) = varianceBlocks c.w (sliceCtx rows cols) d from rfl]
    unfold varianceBlocks
    rw [blockAt_blocksOfFn]⟩

/-! ## C12: z-scores and p-values -/

/-- **the z-score of a displayed cell**: NaN when the table is defective (`isDefective` on the
    base block of the weighted counts: all 2 × 2 minors vanish) or the block guard holds
    (`blockGuard` over the cells of the block the position lies in), else the C12 cell formula
    `ZCell.z` on the count / table-base / row-base / column-base block cells of that position;
    the p-value is `2 (1 − Φ(|z|))` of it.  `C12.z_formula`, `z_eq_spec`, `defective_iff_rows_dependent`,
    `p_range` … apply to these terms. -/
theorem slice_zscore_is_C12 (c : CubeData) (rows cols : RDim) (P Q : Pos) :
    let x := sliceCtx rows cols
    let zc := zCellAt c.w x P Q
    let guard := blockGuard (isDefective c.w.nrows c.w.ncols c.w.counts) (zBlockCells c.w x P Q)
    sliceOutCell c rows cols .zscores P Q = (if guard then .v .nan else zc.z) ∧
    sliceOutCell c rows cols .pvals P Q = .normTail2 (if guard then .v .nan else zc.z) ∧
    zc.n = blockAt (sliceBlocks c rows cols .countsW) P Q ∧
    zc.t = blockAt (sliceBlocks c rows cols .tableBasesW) P Q ∧
    zc.r = blockAt (sliceBlocks c rows cols .rowBasesW) P Q ∧
    zc.c = blockAt (sliceBlocks c rows cols .colBasesW) P Q := by
  refine ⟨?_, ?_, rfl, rfl, rfl, rfl⟩
  · show zOutAt _ _ _ P Q = _
    unfold zOutAt
    rw [zGuards_at]; rfl
  · show Out.normTail2 (zOutAt _ _ _ P Q) = _
    unfold zOutAt
    rw [zGuards_at]; rfl

/-- the guard is the C12 block: the whole block a position lies in is NaN or none of it -/
theorem slice_zscore_block_uniform (c : CubeData) (rows cols : RDim) (i i' j j' : Nat) :
    zGuardAt c.w (sliceCtx rows cols) (.base i) (.base j) = zGuardAt c.w (sliceCtx rows cols) (.base i') (.base j') ∧
    zGuardAt c.w (sliceCtx rows cols) (.ins i) (.base j) = zGuardAt c.w (sliceCtx rows cols) (.ins i') (.base j') ∧
    zGuardAt c.w (sliceCtx rows cols) (.base i) (.ins j) = zGuardAt c.w (sliceCtx rows cols) (.base i') (.ins j') ∧
    zGuardAt c.w (sliceCtx rows cols) (.ins i) (.ins j) = zGuardAt c.w (sliceCtx rows cols) (.ins i') (.ins j') :=
  ⟨rfl, rfl, rfl, rfl⟩

/-! ## the blocks of the Out-valued measures hold the surrogate of the symbolic value -/

/-- **what a sort-by-value order reads is an exact order-preserving image of what is displayed**:
    for std-err (and the `*_moe` keywords, which read the std-err blocks), z-scores, p-values and
    the population std-err, the block cell the collator sorts is `outKey` of the symbolic cell
    (radicand for a square root, sign · n² / d for n / √d, −z² for the normal tail) -/
theorem slice_sort_reads_surrogate (c : CubeData) (rows cols : RDim) (P Q : Pos) :
    (∀ d, outKey (sliceOutCell c rows cols (.stdErr d) P Q) = blockAt (sliceBlocks c rows cols (.stdErr d)) P Q) ∧
    outKey (sliceOutCell c rows cols .zscores P Q) = blockAt (sliceBlocks c rows cols .zscores) P Q ∧
    outKey (sliceOutCell c rows cols .pvals P Q) = blockAt (sliceBlocks c rows cols .pvalues) P Q ∧
    outKey (sliceOutCell c rows cols .popStdErr P Q) = blockAt (sliceBlocks c rows cols .popStdErr) P Q ∧
    (∀ d, outKey (sliceOutCell c rows cols (.stdDev d) P Q)
        = sqrtKey (blockAt (sliceBlocks c rows cols (.variance d)) P Q)) := by
  have hz : outKey (sliceOutCell c rows cols .zscores P Q)
      = blockAt (zKeyBlocks c.w (sliceCtx rows cols)) P Q := by
    show outKey (zOutAt _ _ _ P Q) = _
    unfold zKeyBlocks zOutAt
    rw [blockAt_blocksOfFn]
    by_cases hg : (zGuards c.w (sliceCtx rows cols)).at P Q = true
    · simp [hg, outKey]
    · simp [hg, outKey, ZCell.z]
  refine ⟨?_, hz, ?_, ?_, ?_⟩
  · intro d
    show outKey (Out.sqrt _) = blockAt (stdErrKeyBlocks _ _ d) P Q
    unfold stdErrKeyBlocks
    rw [blockAt_blocksOfFn]; rfl
  · show outKey (Out.normTail2 (zOutAt _ _ _ P Q)) = blockAt (pKeyBlocks _ _) P Q
    unfold pKeyBlocks
    rw [blockAt_blocksOfFn, outKey_normTail2]
    exact congrArg normTailKey hz
  · show outKey (Out.sqrt _) = blockAt (stdErrKeyBlocks _ _ _) P Q
    unfold stdErrKeyBlocks
    rw [blockAt_blocksOfFn]; rfl
  · intro d
    rw [(slice_stats_are_C11 c rows cols d P Q).2.2.2]; rfl

/-- the surrogates order like the values: a square root by its radicand … -/
theorem sqrtKey_monotone (a b : Rat) (ha : 0 ≤ a) (hab : a ≤ b) :
    Val.le (sqrtKey (.fin a)) (sqrtKey (.fin b)) = true := by
  have hb : 0 ≤ b := le_trans ha hab
  have h1 : ¬ a < 0 := not_lt.mpr ha
  have h2 : ¬ b < 0 := not_lt.mpr hb
  simp [sqrtKey, h1, h2, Val.le, hab]

/-- … and NaN exactly where `np.sqrt` gives NaN -/
theorem sqrtKey_nan_iff (v : Val) : (sqrtKey v).isNan = true ↔ (v = .nan ∨ v = .ninf ∨ ∃ q, v = .fin q ∧ q < 0) := by
  cases v with
  | fin q =>
    by_cases h : q < 0
    · simp [sqrtKey, h, Val.isNan]
    · simp [sqrtKey, h, Val.isNan]
  | nan => simp [sqrtKey, Val.isNan]
  | pinf => simp [sqrtKey, Val.isNan]
  | ninf => simp [sqrtKey, Val.isNan]

/-! ## C16: column index -/

/-- **the column index of a displayed base cell is `columnIndexOfCube` of the cube WITH its missing
    elements (C16's model: 100 · column proportion / unconditional baseline); every inserted
    position is NaN** -/
theorem slice_colindex_is_C16 (c : CubeData) (rows cols : RDim) :
    (∀ i j, blockAt (sliceBlocks c rows cols .colIndex) (.base i) (.base j)
        = columnIndexOfCube c.vars c.wraw c.k true i j) ∧
    (∀ P Q, (P.inserted || Q.inserted) = true → blockAt (sliceBlocks c rows cols .colIndex) P Q = .nan) := by
  constructor
  · intro i j
    show blockAt (colIndexBlocks c _) _ _ = _
    unfold colIndexBlocks
    rw [blockAt_blocksOfFn]
    rfl
  · intro P Q h
    show blockAt (colIndexBlocks c _) _ _ = _
    unfold colIndexBlocks
    rw [blockAt_blocksOfFn]
    cases P <;> cases Q <;> simp_all [Pos.inserted, columnIndexCell]

/-- respondent level (C16 `colIndex_spec_2d`): at a displayed base position the pipeline shows
    the specified `100 · column share / unconditional row share` of the element pair the
    reported orders name -/
theorem slice_colindex_respondents (R C : Var) (hR : R.CM3) (hC : C.CM3) (s : Survey)
    (hf : SurveyFits [R, C] s) (num : CubeData) (rows cols : RDim)
    (h : SliceWF { num with vars := [R, C], wraw := cubeOf [R, C] s, uraw := cubeOf [R, C] (unweight s), k := 0 }
          rows cols)
    (p q i j : Nat)
    (hp : (sliceRowOrder { num with vars := [R, C], wraw := cubeOf [R, C] s, uraw := cubeOf [R, C] (unweight s), k := 0 }
            rows cols)[p]? = some (i : Int))
    (hq : (sliceColOrder { num with vars := [R, C], wraw := cubeOf [R, C] s, uraw := cubeOf [R, C] (unweight s), k := 0 }
            rows cols)[q]? = some (j : Int)) :
    (((runSlice { num with vars := [R, C], wraw := cubeOf [R, C] s, uraw := cubeOf [R, C] (unweight s), k := 0 }
        rows cols).mat .colIndex).getD p []).getD q .nan
      = columnIndexSpec ⟨none, R, C⟩ s (.base i) (.base j) := by
  have hi' := ((helper_run_mem_nat rows.cdim _ _ _ h.1 (rowROrder_wf _ rows cols h) i).1
    (List.mem_of_getElem? hp)).1
  have hj' := ((helper_run_mem_nat cols.cdim _ _ _ h.2.1 (colROrder_wf _ rows cols h) j).1
    (List.mem_of_getElem? hq)).1
  have hi : i < R.ext := by
    rw [← slice2d_nrows R C hR.cm hC.cm (cubeOf [R, C] s)]
    have := h.2.2.1
    simp only [CubeData.w] at this
    rw [this]; exact hi'
  have hj : j < C.ext := by
    rw [← slice2d_ncols R C hR.cm hC.cm (cubeOf [R, C] s)]
    have := h.2.2.2.1
    simp only [CubeData.w] at this
    rw [this]; exact hj'
  rw [slice_cell_is_block _ rows cols h .colIndex p q i j hp hq]
  have := (slice_colindex_is_C16 { num with vars := [R, C], wraw := cubeOf [R, C] s, uraw := cubeOf [R, C] (unweight s), k := 0 }
    rows cols).1 i j
  simp only [blockAt] at this
  rw [this]
  exact C16.colIndex_spec_2d R C hR hC s hf i j hi hj

/-! ## respondent level: C11 and C12 end to end at displayed base cells -/

/-- **the variance displayed at a base position is the specified indicator variance of the
    respondents** (C11 `variance_eq_spec` through `slice_variance_is_C11`): 2-D categorical /
    multiple-response design, the cube the back end tabulates for the survey, any transforms -/
theorem slice_variance_respondents (R C : Var) (hR : R.CM) (hC : C.CM) (s : Survey)
    (hf : SurveyFits [R, C] s) (hw : WeightsNonneg s) (num : CubeData) (rows cols : RDim) (dir : Dir)
    (h : SliceWF { num with vars := [R, C], wraw := cubeOf [R, C] s, uraw := cubeOf [R, C] (unweight s), k := 0 }
          rows cols)
    (hcdR : rows.catDate = true → R.kind = .cat) (hcdC : cols.catDate = true → C.kind = .cat)
    (p q i j : Nat)
    (hp : (sliceRowOrder { num with vars := [R, C], wraw := cubeOf [R, C] s, uraw := cubeOf [R, C] (unweight s), k := 0 }
            rows cols)[p]? = some (i : Int))
    (hq : (sliceColOrder { num with vars := [R, C], wraw := cubeOf [R, C] s, uraw := cubeOf [R, C] (unweight s), k := 0 }
            rows cols)[q]? = some (j : Int)) :
    (((runSlice { num with vars := [R, C], wraw := cubeOf [R, C] s, uraw := cubeOf [R, C] (unweight s), k := 0 }
        rows cols).mat (.variance dir)).getD p []).getD q .nan
      = varianceSpec ⟨none, R, C⟩ s dir (.base i) (.base j) rows.catDate cols.catDate := by
  have hi' := ((helper_run_mem_nat rows.cdim _ _ _ h.1 (rowROrder_wf _ rows cols h) i).1
    (List.mem_of_getElem? hp)).1
  have hj' := ((helper_run_mem_nat cols.cdim _ _ _ h.2.1 (colROrder_wf _ rows cols h) j).1
    (List.mem_of_getElem? hq)).1
  have hnr : (sliceCounts [R, C] (cubeOf [R, C] s) 0).nrows = rows.cdim.elems.length := h.2.2.1
  have hnc : (sliceCounts [R, C] (cubeOf [R, C] s) 0).ncols = cols.cdim.elems.length := h.2.2.2.1
  have hi : i < R.ext := by rw [← slice2d_nrows R C hR hC (cubeOf [R, C] s), hnr]; exact hi'
  have hj : j < C.ext := by rw [← slice2d_ncols R C hR hC (cubeOf [R, C] s), hnc]; exact hj'
  rw [slice_variance_is_C11 _ rows cols dir p q i j hp hq]
  rw [posOf_nat _ _ i (by show i < (sliceCounts [R, C] (cubeOf [R, C] s) 0).nrows; rw [hnr]; exact hi'),
    posOf_nat _ _ j (by show j < (sliceCounts [R, C] (cubeOf [R, C] s) 0).ncols; rw [hnc]; exact hj')]
  rw [← C11.variance_eq_spec ⟨none, R, C⟩ s dir (.base i) (.base j) rows.catDate cols.catDate
    (Side.base_OK i R) (Side.base_OK j C) (Side.base_Disj i) (Side.base_Disj j) hw hcdR hcdC]
  rw [VarCell.variance_base _ i j rfl rfl, VarCell.variance_base _ i j rfl rfl]
  have hnp : (varCellAt (sliceCounts [R, C] (cubeOf [R, C] s) 0) (sliceCtx rows cols) dir (.base i) (.base j)).np
      = (VarCell.ofSurvey ⟨none, R, C⟩ s dir (.base i) (.base j) rows.catDate cols.catDate).np := by
    show (sliceCounts [R, C] (cubeOf [R, C] s) 0).counts i j = .fin _
    rw [C01.counts_faithful_2d R C hR hC s i j hi hj, specCount_isPos_base R C hR hC s hf]
  have hnn : (varCellAt (sliceCounts [R, C] (cubeOf [R, C] s) 0) (sliceCtx rows cols) dir (.base i) (.base j)).nn
      = (VarCell.ofSurvey ⟨none, R, C⟩ s dir (.base i) (.base j) rows.catDate cols.catDate).nn := by
    show Val.fin 0 = .fin _
    rw [isNeg_base_zero]
  have hbase : (varCellAt (sliceCounts [R, C] (cubeOf [R, C] s) 0) (sliceCtx rows cols) dir (.base i) (.base j)).base
      = (VarCell.ofSurvey ⟨none, R, C⟩ s dir (.base i) (.base j) rows.catDate cols.catDate).base := by
    cases dir
    · show (sliceCounts [R, C] (cubeOf [R, C] s) 0).rowBases i j = .fin _
      rw [C02.rowBase_spec_2d R C hR hC s i j hi hj, specCount_inBase_row R C hR hC s hf]
    · show (sliceCounts [R, C] (cubeOf [R, C] s) 0).columnBases i j = .fin _
      rw [C02.colBase_spec_2d R C hR hC s i j hi hj, specCount_inBase_col R C hR hC s hf]
    · show (sliceCounts [R, C] (cubeOf [R, C] s) 0).tableBases i j = .fin _
      rw [C02.tableBase_spec_2d R C hR hC s i j hi hj, specCount_inBase_table R C hR hC s hf]
  have hwc : ({ num with vars := [R, C], wraw := cubeOf [R, C] s, uraw := cubeOf [R, C] (unweight s), k := 0 } : CubeData).w
      = sliceCounts [R, C] (cubeOf [R, C] s) 0 := rfl
  rw [hwc, hnp, hnn, hbase]

/-- **the z-score displayed at a base position, when the guards let it through, is the specified
    adjusted standardized residual of the respondents** (C12 `z_eq_spec`) -/
theorem slice_zscore_respondents (R C : Var) (hR : R.CM) (hC : C.CM) (s : Survey)
    (hf : SurveyFits [R, C] s) (hw : WeightsNonneg s) (num : CubeData) (rows cols : RDim)
    (i j : Nat) (hi : i < R.ext) (hj : j < C.ext)
    (hg : zGuardAt (sliceCounts [R, C] (cubeOf [R, C] s) 0) (sliceCtx rows cols) (.base i) (.base j) = false) :
    sliceOutCell { num with vars := [R, C], wraw := cubeOf [R, C] s, uraw := cubeOf [R, C] (unweight s), k := 0 }
        rows cols .zscores (.base i) (.base j)
      = zSpecCell false ⟨none, R, C⟩ s (.base i) (.base j) := by
  rw [(slice_zscore_is_C12 _ rows cols (.base i) (.base j)).1]
  have hg' : blockGuard (isDefective (sliceCounts [R, C] (cubeOf [R, C] s) 0).nrows
      (sliceCounts [R, C] (cubeOf [R, C] s) 0).ncols (sliceCounts [R, C] (cubeOf [R, C] s) 0).counts)
      (zBlockCells (sliceCounts [R, C] (cubeOf [R, C] s) 0) (sliceCtx rows cols) (.base i) (.base j)) = false := hg
  have hwc : ({ num with vars := [R, C], wraw := cubeOf [R, C] s, uraw := cubeOf [R, C] (unweight s), k := 0 } : CubeData).w
      = sliceCounts [R, C] (cubeOf [R, C] s) 0 := rfl
  simp only [hwc]
  rw [hg']
  simp only [Bool.false_eq_true, if_false]
  rw [← C12.z_eq_spec ⟨none, R, C⟩ s (.base i) (.base j) (Side.base_OK i R) (Side.base_OK j C) hw rfl rfl]
  congr 1
  show ZCell.mk ((sliceCounts [R, C] (cubeOf [R, C] s) 0).counts i j)
      ((sliceCounts [R, C] (cubeOf [R, C] s) 0).tableBases i j)
      ((sliceCounts [R, C] (cubeOf [R, C] s) 0).rowBases i j)
      ((sliceCounts [R, C] (cubeOf [R, C] s) 0).columnBases i j) = _
  rw [C01.counts_faithful_2d R C hR hC s i j hi hj, C02.tableBase_spec_2d R C hR hC s i j hi hj,
    C02.rowBase_spec_2d R C hR hC s i j hi hj, C02.colBase_spec_2d R C hR hC s i j hi hj,
    specCount_isPos_base R C hR hC s hf, specCount_inBase_table R C hR hC s hf,
    specCount_inBase_row R C hR hC s hf, specCount_inBase_col R C hR hC s hf]
  have hz := isNeg_base_zero ⟨none, R, C⟩ s i j
  simp only [Side.base] at hz
  simp [ZCell.ofPrims, Side.base, Side.isDiff, hz, Val.sub_fin]

/-! ## C15 / C04 / numeric measures -/

/-- sums, means, std-dev, medians and the three shares of sum are the existing block models on
    the numeric cube measure read at the cells the count classes read: `SumSubtotals` (C04) for
    sums, `NanSubtotals` for means / std-dev / medians, `Msr.{row,column,total}ShareSum` (C15) for
    the shares — so `C04.subtotal_count`, `C15.*` … apply to the displayed numbers -/
theorem slice_numeric_are_C04_C15 (c : CubeData) (rows cols : RDim) :
    let x := sliceCtx rows cols
    sliceBlocks c rows cols .sums = Msr.sums (c.numeric c.sums) c.w.nrows c.w.ncols x ∧
    sliceBlocks c rows cols .means = Msr.nanMeasure (c.numeric c.means) c.w.nrows c.w.ncols x ∧
    sliceBlocks c rows cols .stddev = Msr.nanMeasure (c.numeric c.stddevs) c.w.nrows c.w.ncols x ∧
    sliceBlocks c rows cols .medians = Msr.nanMeasure (c.numeric c.medians) c.w.nrows c.w.ncols x ∧
    sliceBlocks c rows cols .rowShare = Msr.rowShareSum (c.numeric c.sums) c.w.nrows c.w.ncols x ∧
    sliceBlocks c rows cols .colShare = Msr.columnShareSum (c.numeric c.sums) c.w.nrows c.w.ncols x ∧
    sliceBlocks c rows cols .totalShare = Msr.totalShareSum (c.numeric c.sums) c.w.nrows c.w.ncols x ∧
    (∀ raw, c.numeric (some raw) = (sliceCounts c.vars raw c.k).counts) :=
  ⟨rfl, rfl, rfl, rfl, rfl, rfl, rfl, fun _ => rfl⟩

/-! ## C17: population estimates -/

theorem popDir_eq_popMode (rcd ccd : Bool) :
    popDir rcd ccd = (match Population.popMode rcd ccd with
      | .rows => Dir.row | .cols => Dir.col | .table => Dir.table) := by
  cases rcd <;> cases ccd <;> rfl

/-- **population estimates are `Model/Population` (C17) fed with the pipeline's ASSEMBLED
    proportion and std-err matrices and its own difference index lists**; the blocks a
    `population` / `population_moe` sort reads are those of the direction `popMode` selects -/
theorem slice_population_is_C17 (c : CubeData) (rows cols : RDim) (population fraction : Val) :
    let t := runSliceX c rows cols population fraction
    let pin := popSliceIn rows cols t.core t.omat
    t.popProps = tab2 t.core.rowOrder.length t.core.colOrder.length pin.popProps ∧
    t.popCounts = tab2 t.core.rowOrder.length t.core.colOrder.length (pin.popCounts population fraction) ∧
    t.popMoe = tab2 t.core.rowOrder.length t.core.colOrder.length (pin.popMoe population fraction) ∧
    pin.diffRows = t.core.diffRowIdxs ∧ pin.diffCols = t.core.diffColIdxs ∧
    sliceBlocks c rows cols .popProps = dirPropBlocks c.w (sliceCtx rows cols) (popDir rows.catDate cols.catDate) ∧
    sliceBlocks c rows cols .popStdErr = sliceBlocks c rows cols (.stdErr (popDir rows.catDate cols.catDate)) :=
  ⟨rfl, rfl, rfl, rfl, rfl, rfl, rfl⟩

/-! ## C14: scale marginals -/

/-- **rows / columns scale mean, median, std-dev and std-err are `Scale.sliceVectors` (C14) on
    the pipeline's weighted counts and row (column) bases, the resolved subtotals and the
    opposing dimension's numeric values, taken in display order**; `None` exactly when no
    opposing element has a numeric value -/
theorem slice_scale_is_C14 (c : CubeData) (rows cols : RDim) (population fraction : Val) :
    let t := runSliceX c rows cols population fraction
    t.rowsScale = (if Scale.isDefined cols.numVals then
        some (takeOrder (Scale.sliceVectors cols.numVals (c.w.mat c.w.counts) (c.w.mat c.w.rowBases)
          (rows.subtotals.map toScaleSub)) nanStats t.core.rowOrder) else none) ∧
    t.colsScale = (if Scale.isDefined rows.numVals then
        some (takeOrder (Scale.sliceVectors rows.numVals
          (tab2 c.w.ncols c.w.nrows (fun j i => c.w.counts i j))
          (tab2 c.w.ncols c.w.nrows (fun j i => c.w.columnBases i j))
          (cols.subtotals.map toScaleSub)) nanStats t.core.colOrder) else none) :=
  ⟨rfl, rfl⟩

/-! ## the new outputs re-index like everything else (C05 proper) -/

/-- symbolic matrices: under t = under strip t re-indexed by t's orders -/
theorem slice_omat_reindexed (c : CubeData) (rows cols : RDim) (h : SliceWF c rows cols)
    (population fraction : Val) (key : OKey) :
    let t := runSliceX c rows cols population fraction
    let s := runSliceX c rows.strip cols.strip population fraction
    t.omat key = t.core.rowOrder.map fun x => t.core.colOrder.map fun y =>
      ((s.omat key).getD (s.core.rowOrder.idxOf x) []).getD (s.core.colOrder.idxOf y) (.v .nan) := by
  obtain ⟨hr, hc⟩ := slice_order_subset c rows cols h
  exact assembleCells_reindex _ _ _ _ _ _ _ _ _ _ hr hc

theorem slice_omat_extent (c : CubeData) (rows cols : RDim) (population fraction : Val) (key : OKey) :
    let t := runSliceX c rows cols population fraction
    (t.omat key).length = t.core.shape.1 ∧ ∀ row ∈ t.omat key, row.length = t.core.shape.2 :=
  assembleCells_extent _ _ _ _ _ _ _

/-- scale marginals and 1-D margin proportions re-index along their own dimension -/
theorem slice_scale_reindexed (c : CubeData) (rows cols : RDim) (h : SliceWF c rows cols)
    (population fraction : Val) :
    let t := runSliceX c rows cols population fraction
    let s := runSliceX c rows.strip cols.strip population fraction
    (∀ vt, t.rowsScale = some vt → ∃ vs, s.rowsScale = some vs ∧
        vt = t.core.rowOrder.map fun x => vs.getD (s.core.rowOrder.idxOf x) nanStats) ∧
    (∀ vt, t.colsScale = some vt → ∃ vs, s.colsScale = some vs ∧
        vt = t.core.colOrder.map fun y => vs.getD (s.core.colOrder.idxOf y) nanStats) := by
  obtain ⟨hr, hc⟩ := slice_order_subset c rows cols h
  constructor
  · intro vt hvt
    change (if Scale.isDefined cols.numVals then some _ else none) = some vt at hvt
    by_cases hd : Scale.isDefined cols.numVals = true
    · refine ⟨takeOrder (rowScaleVectors c rows cols) nanStats (sliceRowOrder c rows.strip cols.strip), ?_, ?_⟩
      · show (if Scale.isDefined cols.numVals then some _ else none) = _
        rw [if_pos hd]; rfl
      · rw [if_pos hd] at hvt
        simp only [Option.some.injEq] at hvt
        rw [← hvt]
        exact takeOrder_reindex _ _ _ _ hr
    · rw [if_neg hd] at hvt; exact absurd hvt (by simp)
  · intro vt hvt
    change (if Scale.isDefined rows.numVals then some _ else none) = some vt at hvt
    by_cases hd : Scale.isDefined rows.numVals = true
    · refine ⟨takeOrder (colScaleVectors c rows cols) nanStats (sliceColOrder c rows.strip cols.strip), ?_, ?_⟩
      · show (if Scale.isDefined rows.numVals then some _ else none) = _
        rw [if_pos hd]; rfl
      · rw [if_pos hd] at hvt
        simp only [Option.some.injEq] at hvt
        rw [← hvt]
        exact takeOrder_reindex _ _ _ _ hc
    · rw [if_neg hd] at hvt; exact absurd hvt (by simp)

/-! ## strand -/

/-- **1-D: std-devs, std-errs, MoEs are the C11 `StrandCell` on the stripe's primitives**
    (`strandCellAt`: base rows read the extractor's count and base, a subtotal the positive /
    negative term sums of the weighted counts and the table base); the population std-err is 0
    on a categorical-date dimension; the blocks a sort reads are their surrogates -/
theorem strand_stats_are_C11 (c : StrandData) (d : RDim) (P : Pos) :
    let sc := strandCellAt c.w d.subtotals d.catDate P
    strandOutCell c d .stddevs P = sc.stdDev ∧ strandOutCell c d .stderrs P = sc.stdErr ∧
    strandOutCell c d .moes P = sc.moe ∧
    strandOutCell c d .popStderrs P = (if d.catDate then .v (.fin 0) else sc.stdErr) ∧
    outKey (strandOutCell c d .stddevs P)
      = (match P with | .base i => (strandBlocks c d .stddevs).base i | .ins k => (strandBlocks c d .stddevs).subs k) ∧
    outKey (strandOutCell c d .stderrs P)
      = (match P with | .base i => (strandBlocks c d .stderrs).base i | .ins k => (strandBlocks c d .stderrs).subs k) := by
  refine ⟨rfl, rfl, rfl, rfl, ?_, ?_⟩ <;> cases P <;> rfl

theorem strand_ovec_reindexed (c : StrandData) (d : RDim) (h : StrandWF c d) (population fraction : Val)
    (key : OSKey) :
    let t := runStrandX c d population fraction
    let s := runStrandX c d.strip population fraction
    t.ovec key = t.core.rowOrder.map fun x => (s.ovec key).getD (s.core.rowOrder.idxOf x) (.v .nan) := by
  have hsub := strand_order_subset c d h
  show List.map _ _ = _
  apply List.map_congr_left
  intro x hx
  exact (getD_idxOf_map (strandOrder c d.strip) (fun x => strandOutCell c d key (posOf c.w.n d.subtotals.length x))
    x (.v .nan) (hsub x hx)).symm

/-- the strand's scale statistics are `Scale.strandStats` (C14) on all of the stripe's weighted
    counts: scalars, untouched by any display transform -/
theorem strand_scale_is_C14 (c : StrandData) (d : RDim) (population fraction : Val) :
    (runStrandX c d population fraction).scale = Scale.strandStats d.numVals (tab1 c.w.n c.w.counts) ∧
    (runStrandX c d.strip population fraction).scale = (runStrandX c d population fraction).scale :=
  ⟨rfl, rfl⟩

end CrCube.C05
