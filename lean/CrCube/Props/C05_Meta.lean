/-
  C05 (metadata part) — labels, codes, aliases, fills and numeric values under display transforms.

  Model: `CrCube.Meta` (Model/Meta.lean).  Spec: `CrCube.MetaSpec` (`label`, `fill`, `hidden`; `pick` /
  `reindex` / `ValidOrder` = what a signed display index names).  Helper lemmas: `CrCube.MetaL`.

  (a) the element-level cascades, stated outright with every branch (incl. the falsy-value quirks);
  (b) the assembled outputs under ANY display order `o` are the untransformed lists re-indexed by `o`
      (`pick`: non-negative = base element, negative = subtotal counted from the end), their extent is
      `|o|`; outside python's index range they raise `IndexError`; the two indexing formulas of the code
      (`np.array(base + subs)[o]` and the `idx >= 0 … else subs[idx + len(subs)]` of the fills) agree on
      valid orders; under t the outputs are those under strip(t) re-indexed by position;
  (c) no metadata list reads the `order` / `prune` part of the transforms.
-/
import CrCube.Model.Meta
import CrCube.Spec.MetaSpec
import CrCube.Lemmas.Meta
import Mathlib.Data.List.Induction

namespace CrCube.C05
open CrCube CrCube.Glue CrCube.Meta CrCube.MetaSpec CrCube.MetaL

/-! ### (a) cascades -/

/-- `Element.label`: the transform's `name` if the KEY is present (a falsy value -- `""`, `None`, `0`,
    `[]` -- blanks the label, any other value is `str()`-ed), else the element dict's `name` (falsy -> `""`),
    else the representation of its `value`. -/
theorem label_cascade (fmt : J → String) (ek xk : List (String × J)) :
    elemLabel fmt (.obj ek) (.obj xk) =
      match xk.lookup "name", ek.lookup "name" with
      | some v, _ => .ok (.str (if v.truthy then pyStr v else ""))
      | none, some b => .ok (if b.truthy then b else .str "")
      | none, none => valueRepr fmt "name" (.obj ek) := by
  cases hx : xk.lookup "name" <;> cases he : ek.lookup "name" <;>
    simp [elemLabel, xfName, baseRepr, hasKey, item, hx, he, orEmpty, bind, Except.bind, pure, Except.pure]

/-- the `value` branch: missing / null -> `""`; a list is joined with `-`; a number or a string goes
    through the formatter; a sub-variable object gives its `references[key]` (falsy -> `""`); a bool
    raises (`True.get`). -/
theorem valueRepr_cases (fmt : J → String) (key : String) (ek : List (String × J)) :
    valueRepr fmt key (.obj ek) =
      match ek.lookup "value" with
      | none => .ok (.str "")
      | some .null => .ok (.str "")
      | some (.arr l) => .ok (.str ("-".intercalate (l.map fmt)))
      | some (.num q) => .ok (.str (fmt (.num q)))
      | some (.str s) => .ok (.str (fmt (.str s)))
      | some (.bool _) => .error .attributeError
      | some (.obj vk) =>
        match (vk.lookup "references").getD J.empty with
        | .obj rk => .ok (orEmpty ((rk.lookup key).getD .null))
        | _ => .error .attributeError := by
  cases hv : ek.lookup "value" with
  | none => simp [valueRepr, Glue.get, hv, bind, Except.bind, pure, Except.pure]
  | some v =>
    cases v with
    | obj vk =>
      simp only [valueRepr, Glue.get, hv, Option.getD, bind, Except.bind, pure, Except.pure]
      cases hr : vk.lookup "references" with
      | none => simp [J.empty]
      | some r => cases r <;> simp
    | _ => simp [valueRepr, Glue.get, hv, bind, Except.bind, pure, Except.pure]

/-- when the payload gives the element a name, the label is what the statement says -/
theorem label_eq_spec (fmt : J → String) (ek xk : List (String × J)) (b : J)
    (hb : ek.lookup "name" = some b) :
    elemLabel fmt (.obj ek) (.obj xk) = .ok (MetaSpec.label (orEmpty b) (.obj xk)) := by
  rw [label_cascade]
  cases hx : xk.lookup "name" <;> simp [MetaSpec.label, MetaSpec.given, hx, hb, orEmpty]

/-- `Element.fill`: the transform's `fill` unless it is missing or FALSY (`""`, `None`, `0`): then `None` -/
theorem fill_cascade (xk : List (String × J)) :
    elemFill (.obj xk) = .ok (match xk.lookup "fill" with
                              | some v => if v.truthy then v else .null
                              | none => .null) ∧
    elemFill (.obj xk) = .ok (MetaSpec.fill (.obj xk)) := by
  cases hx : xk.lookup "fill" <;>
    simp [elemFill, xfFill, Glue.get, hx, MetaSpec.fill, MetaSpec.given, bind, Except.bind, pure, Except.pure, J.truthy]

/-- `Element.is_hidden`: True exactly when `hide` IS the bool `True` (not `1`, not `"true"`, not `""`) -/
theorem hidden_cascade (xk : List (String × J)) :
    elemHidden (.obj xk) = .ok (match xk.lookup "hide" with
                                | some (.bool true) => true
                                | _ => false) ∧
    elemHidden (.obj xk) = .ok (MetaSpec.hidden (.obj xk)) := by
  cases hx : xk.lookup "hide" with
  | none => simp [elemHidden, xfHide, Glue.get, hx, MetaSpec.hidden, MetaSpec.given, bind, Except.bind, pure, Except.pure]
  | some v =>
    cases v with
    | bool b => cases b <;>
        simp [elemHidden, xfHide, Glue.get, hx, MetaSpec.hidden, MetaSpec.given, bind, Except.bind, pure, Except.pure]
    | _ => simp [elemHidden, xfHide, Glue.get, hx, MetaSpec.hidden, MetaSpec.given, bind, Except.bind, pure, Except.pure]

/-- a transforms entry that is not a dict raises `AttributeError` (`.get`) in every cascade -/
theorem cascade_non_dict (x : J) (h : isDict x = false) :
    elemFill x = .error .attributeError ∧ elemHidden x = .error .attributeError := by
  cases x <;> simp_all [isDict, elemFill, xfFill, elemHidden, xfHide, Glue.get, bind, Except.bind]

/-- `Element.numeric_value`: `nan` (`none`) when missing or `None`, else the value as is -/
theorem numeric_cascade (ek : List (String × J)) :
    elemNumeric (.obj ek) = .ok (match ek.lookup "numeric_value" with
                                 | none => none
                                 | some .null => none
                                 | some v => some v) := by
  cases hx : ek.lookup "numeric_value" with
  | none => simp [elemNumeric, Glue.get, hx, bind, Except.bind, pure, Except.pure]
  | some v => cases v <;> simp [elemNumeric, Glue.get, hx, bind, Except.bind, pure, Except.pure]

/-- `_Subtotal.label / alias`: falsy -> `""`;  `_Subtotal.fill`: the raw value (an empty string STAYS,
    unlike an element fill), `None` only when the key is missing -/
theorem subtotal_meta_cascade (sk : List (String × J)) :
    subLabel (.obj sk) = .ok (orEmpty ((sk.lookup "name").getD .null)) ∧
    subAlias (.obj sk) = .ok (orEmpty ((sk.lookup "alias").getD .null)) ∧
    subFill (.obj sk) = .ok ((sk.lookup "fill").getD .null) := by
  simp [subLabel, subAlias, subFill, Glue.get, bind, Except.bind, pure, Except.pure]

/-! ### (b) assembled outputs -/

/-- under a valid display order the assembled output is the list re-indexed by `o` (`pick`), no raise -/
theorem assemble_eq_reindex {α : Type} (base subs : List α) (o : List Int)
    (hv : ValidOrder base.length subs.length o) :
    ∃ l, assemble base subs o = .ok l ∧ l.map some = reindex base subs o := by
  induction o with
  | nil => exact ⟨[], rfl, rfl⟩
  | cons i o ih =>
    obtain ⟨l, hl, hl2⟩ := ih (fun j hj => hv j (by simp [hj]))
    obtain ⟨a, ha, ha2⟩ := pyIndex_valid base subs i (hv i (by simp))
    refine ⟨a :: l, ?_, ?_⟩
    · unfold assemble at hl ⊢
      rw [mapR_cons_ok]
      exact ⟨a, l, ha2, hl, rfl⟩
    · simp [reindex, ha] at hl2 ⊢
      simpa [reindex] using hl2

/-- each output's extent is the order's length -/
theorem assemble_extent {α : Type} (base subs : List α) (o : List Int) (l : List α)
    (h : assemble base subs o = .ok l) : l.length = o.length := mapR_ok_length h

/-- the error branch: the assembly raises (`IndexError`) exactly when some index is outside python's
    range `-(n+m) ≤ i < n+m` -/
theorem assemble_raises_iff {α : Type} (base subs : List α) (o : List Int) :
    (∃ l, assemble base subs o = .ok l) ↔
      ∀ i ∈ o, -((base.length + subs.length : Nat) : Int) ≤ i ∧ i < ((base.length + subs.length : Nat) : Int) := by
  constructor
  · rintro ⟨l, hl⟩
    induction o generalizing l with
    | nil => intro i hi; simp at hi
    | cons j o ih =>
      unfold assemble at hl
      rw [mapR_cons_ok] at hl
      obtain ⟨a, l', ha, hl', _⟩ := hl
      intro i hi
      rcases List.mem_cons.mp hi with h | h
      · subst h
        have h2 := (pyIndex_ok_iff (base ++ subs) i).mp ⟨a, ha⟩
        simpa [List.length_append] using h2
      · exact ih l' hl' i h
  · intro h
    induction o with
    | nil => exact ⟨[], rfl⟩
    | cons i o ih =>
      obtain ⟨l, hl⟩ := ih (fun j hj => h j (by simp [hj]))
      have hi := h i (by simp)
      obtain ⟨a, ha⟩ := (pyIndex_ok_iff (base ++ subs) i).mpr (by simpa [List.length_append] using hi)
      exact ⟨a :: l, by unfold assemble at hl ⊢; rw [mapR_cons_ok]; exact ⟨a, l, ha, hl, rfl⟩⟩

/-- `rows_dimension_fills` indexes elements and subtotals separately; on a valid order that is the same
    as the single `np.array(base + subs)[order]` of labels / codes / aliases -/
theorem fills_eq_assemble (ef sf : List J) (o : List Int) (hv : ValidOrder ef.length sf.length o) :
    fillsAt ef sf o = assemble ef sf o := by
  unfold fillsAt assemble
  apply mapR_congr
  intro i hi
  obtain ⟨h1, h2⟩ := hv i hi
  by_cases h0 : 0 ≤ i
  · have hlt : i.toNat < ef.length := by omega
    simp only [h0, if_true]
    rw [pyIndex_nonneg _ _ h0, pyIndex_nonneg _ _ h0, List.getElem?_append_left hlt]
  · have hneg : i < 0 := by omega
    have hk0 : 0 ≤ i + (sf.length : Int) := by omega
    simp only [h0, if_false]
    rw [pyIndex_nonneg _ _ hk0]
    have h3 : 0 ≤ (((ef ++ sf).length : Nat) : Int) + i := by simp; omega
    rw [pyIndex_neg _ _ hneg h3]
    have e : ((((ef ++ sf).length : Nat) : Int) + i).toNat = ef.length + (i + (sf.length : Int)).toNat := by
      simp; omega
    rw [e, List.getElem?_append_right (by omega)]
    simp

/-- the quirk outside valid orders: an index `n ≤ i < n+m` names a subtotal in the labels but raises in the fills -/
theorem fills_differ_outside_valid :
    assemble [J.str "a"] [J.str "S"] [1] = .ok [J.str "S"] ∧
    fillsAt [J.str "a"] [J.str "S"] [1] = .error .indexError := by
  constructor <;> rfl

/-- numeric values: the element's value at a non-negative index, `nan` at every subtotal position -/
theorem numeric_eq_reindex (nv : List (Option J)) (m : Nat) (o : List Int) (hv : ValidOrder nv.length m o) :
    numericAt nv o = .ok (o.map (fun i => if 0 ≤ i then nv.getD i.toNat none else none)) := by
  unfold numericAt
  apply mapR_ok_of_forall
  intro i hi
  obtain ⟨_, h2⟩ := hv i hi
  by_cases h0 : 0 ≤ i
  · have hlt : i.toNat < nv.length := by omega
    simp [h0, pyIndex_nonneg _ _ h0, List.getElem?_eq_getElem hlt, optIdx, List.getD]
  · simp [h0, pure, Except.pure]

/-- **re-indexing**: if the assembly under the order `o₀` (of strip(t)) gives `l₀`, then under any order
    `o ⊆ o₀` it gives `l₀` re-indexed by position -/
theorem assemble_reindexed {α : Type} (base subs : List α) (o o0 : List Int) (l0 : List α) (d : α)
    (h0 : assemble base subs o0 = .ok l0) (hsub : ∀ x ∈ o, x ∈ o0) :
    assemble base subs o = .ok (o.map fun x => l0.getD (o0.idxOf x) d) := by
  unfold assemble at h0 ⊢
  apply mapR_ok_of_forall
  intro x hx
  exact mapR_ok_at h0 x (hsub x hx) d

/-! ### (c) what the metadata does not read -/

/-- no metadata list reads `order`, `prune` (or any other key kept in `other`) -/
theorem meta_ignores_order_prune (fmt : J → String) (x : Glue.Dim) (t : DimXf) (j : J) :
    elementLabels fmt x { t with other := j } = elementLabels fmt x t ∧
    elementAliases fmt x { t with other := j } = elementAliases fmt x t ∧
    elementIds x { t with other := j } = elementIds x t ∧
    elementFills x { t with other := j } = elementFills x t ∧
    numericValues x { t with other := j } = numericValues x t ∧
    hiddenIdxs x { t with other := j } = hiddenIdxs x t ∧
    subtotalLabels x { t with other := j } = subtotalLabels x t ∧
    subtotalAliases x { t with other := j } = subtotalAliases x t ∧
    subtotalFills x { t with other := j } = subtotalFills x t ∧
    insertionIds x { t with other := j } = insertionIds x t ∧
    dimName x { t with other := j } = dimName x t ∧
    dimDescription x { t with other := j } = dimDescription x t :=
  ⟨rfl, rfl, rfl, rfl, rfl, rfl, rfl, rfl, rfl, rfl, rfl, rfl⟩

/-- C05 for labels: the labels under t (display order `o`) are the labels under t₀ = t without order /
    prune (display order `o₀ ⊇ o`) re-indexed by position -/
theorem labels_reindexed (fmt : J → String) (x : Glue.Dim) (t : DimXf) (j : J) (o o0 : List Int) (l0 : List J)
    (h0 : labelsOut fmt x { t with other := j } o0 = .ok l0) (hsub : ∀ i ∈ o, i ∈ o0) :
    labelsOut fmt x t o = .ok (o.map fun i => l0.getD (o0.idxOf i) (.str "")) := by
  have e : labelsOut fmt x { t with other := j } o0 = labelsOut fmt x t o0 := rfl
  rw [e] at h0
  unfold labelsOut at h0 ⊢
  cases hb : elementLabels fmt x t with
  | error e => simp [hb, bind, Except.bind] at h0
  | ok b =>
    cases hs : subtotalLabels x t with
    | error e => simp [hb, hs, bind, Except.bind] at h0
    | ok s =>
      simp only [hb, hs, bind, Except.bind] at h0 ⊢
      exact assemble_reindexed b s o o0 l0 _ h0 hsub

theorem aliases_reindexed (fmt : J → String) (x : Glue.Dim) (t : DimXf) (j : J) (o o0 : List Int) (l0 : List J)
    (h0 : aliasesOut fmt x { t with other := j } o0 = .ok l0) (hsub : ∀ i ∈ o, i ∈ o0) :
    aliasesOut fmt x t o = .ok (o.map fun i => l0.getD (o0.idxOf i) (.str "")) := by
  have e : aliasesOut fmt x { t with other := j } o0 = aliasesOut fmt x t o0 := rfl
  rw [e] at h0
  unfold aliasesOut at h0 ⊢
  cases hb : elementAliases fmt x t with
  | error e => simp [hb, bind, Except.bind] at h0
  | ok b =>
    cases hs : subtotalAliases x t with
    | error e => simp [hb, hs, bind, Except.bind] at h0
    | ok s =>
      simp only [hb, hs, bind, Except.bind] at h0 ⊢
      exact assemble_reindexed b s o o0 l0 _ h0 hsub

theorem codes_reindexed (x : Glue.Dim) (t : DimXf) (j : J) (o o0 : List Int) (l0 : List J)
    (h0 : codesOut x { t with other := j } o0 = .ok l0) (hsub : ∀ i ∈ o, i ∈ o0) :
    codesOut x t o = .ok (o.map fun i => l0.getD (o0.idxOf i) .null) := by
  have e : codesOut x { t with other := j } o0 = codesOut x t o0 := rfl
  rw [e] at h0
  unfold codesOut at h0 ⊢
  cases hb : elementIds x t with
  | error e => simp [hb, bind, Except.bind] at h0
  | ok b =>
    cases hs : insertionIds x t with
    | error e => simp [hb, hs, bind, Except.bind] at h0
    | ok s =>
      simp only [hb, hs, bind, Except.bind] at h0 ⊢
      exact assemble_reindexed b _ o o0 l0 _ h0 hsub

theorem fills_reindexed (x : Glue.Dim) (t : DimXf) (j : J) (o o0 : List Int) (l0 : List J)
    (h0 : fillsOut x { t with other := j } o0 = .ok l0) (hsub : ∀ i ∈ o, i ∈ o0) :
    fillsOut x t o = .ok (o.map fun i => l0.getD (o0.idxOf i) .null) := by
  have e : fillsOut x { t with other := j } o0 = fillsOut x t o0 := rfl
  rw [e] at h0
  unfold fillsOut at h0 ⊢
  cases hb : elementFills x t with
  | error e => simp [hb, bind, Except.bind] at h0
  | ok b =>
    cases hs : subtotalFills x t with
    | error e => simp [hb, hs, bind, Except.bind] at h0
    | ok s =>
      simp only [hb, hs, bind, Except.bind] at h0 ⊢
      unfold fillsAt at h0 ⊢
      apply mapR_ok_of_forall
      intro i hi
      exact mapR_ok_at h0 i (hsub i hi) _

/-! ### (c') the element `hide` flags do not reach labels or fills -/

theorem lookup_filter_ne (kvs : List (String × J)) (k : String) (hk : k ≠ "hide") :
    (kvs.filter (fun p => p.1 != "hide")).lookup k = kvs.lookup k := by
  induction kvs with
  | nil => rfl
  | cons p kvs ih =>
    obtain ⟨a, v⟩ := p
    by_cases ha : a = "hide"
    · subst ha
      have : (k == "hide") = false := by simpa using hk
      simp [List.filter_cons, List.lookup_cons, this, ih]
    · have h1 : (a != "hide") = true := by simpa using ha
      simp only [List.filter_cons, h1, if_true, List.lookup_cons, ih]

/-- deleting the `hide` key of a transforms entry changes neither its rename nor its fill -/
theorem name_fill_ignore_hide (v : J) :
    xfName (eraseKey "hide" v) = xfName v ∧ xfFill (eraseKey "hide" v) = xfFill v := by
  cases v with
  | obj kvs =>
    have h1 := lookup_filter_ne kvs "name" (by decide)
    have h2 := lookup_filter_ne kvs "fill" (by decide)
    simp [eraseKey, xfName, xfFill, hasKey, item, Glue.get, h1, h2]
  | _ => exact ⟨rfl, rfl⟩

theorem kdGet_stripHide (k : Shim.Ref) (es : KD) :
    kdGet k (stripHide es) = (kdGet k es).map (eraseKey "hide") := by
  induction es with
  | nil => rfl
  | cons p es ih =>
    obtain ⟨a, v⟩ := p
    by_cases h : a = k <;> simp_all [stripHide, kdGet]

/-- the key rewrite of the shim commutes with deleting the hide flags -/
theorem rebuildWith_stripHide (tr : Shim.Ref → Option Shim.Ref) (es : KD) :
    rebuildWith tr (stripHide es) = stripHide (rebuildWith tr es) := by
  have hset : ∀ (k : Shim.Ref) (v : J) (l : KD), kdSet k (eraseKey "hide" v) (stripHide l) = stripHide (kdSet k v l) := by
    intro k v l
    induction l with
    | nil => rfl
    | cons p l ih =>
      obtain ⟨a, w⟩ := p
      by_cases h : a = k
      · simp [stripHide, kdSet, h]
      · have := ih
        simp only [stripHide] at this ⊢
        simp [kdSet, h, this]
  induction es using List.reverseRecOn with
  | nil => rfl
  | append_singleton es kv ih =>
    have e : stripHide (es ++ [kv]) = stripHide es ++ [(kv.1, eraseKey "hide" kv.2)] := by simp [stripHide]
    rw [e, rebuildWith_append, rebuildWith_append, ih]
    cases tr kv.1 with
    | none => rfl
    | some k => exact hset k kv.2 _

/-- **strip(t) keeps every label and fill**: the transforms entry found for an element after the `hide`
    flags were deleted carries the same rename and the same fill as the entry found before (whether it
    comes from the element transforms, from an MR hidden-insertion copy, or is the default `{}`) -/
theorem entry_ignores_hide (hid all : KD) (id : Shim.Ref) :
    xfName (lookupXf hid (stripHide all) id) = xfName (lookupXf hid all id) ∧
    xfFill (lookupXf hid (stripHide all) id) = xfFill (lookupXf hid all id) := by
  unfold lookupXf mergedGet
  rw [kdGet_stripHide, kdGet_stripHide]
  cases h1 : kdGet id all with
  | some v => simpa using name_fill_ignore_hide v
  | none =>
    cases h2 : kdGet id hid with
    | some w => simp
    | none =>
      cases h3 : kdGet (.str (refStr id)) all with
      | some v => simpa using name_fill_ignore_hide v
      | none => simp

/-! ### non-vacuity and tests -/

example : ValidOrder 3 2 [-1, 2, 0, -2] := by decide
example : ¬ ValidOrder 3 2 [3] := by decide
example : ∀ i ∈ ([-1, 0] : List Int), i ∈ ([0, 1, -1] : List Int) := by decide
example : assemble [J.str "a", J.str "b"] [J.str "S"] [0, 1, -1] = .ok [J.str "a", J.str "b", J.str "S"] := rfl
example : isDict (.str "x") = false := rfl
example : ([("name", J.str "Paris")] : List (String × J)).lookup "name" = some (J.str "Paris") := rfl
-- the falsy-rename quirk: `{"name": 0}` blanks the label, `{"name": 5}` prints "5", no key keeps the payload name
example : elemLabel pyStr (.obj [("name", .str "Paris")]) (.obj [("name", .num 0)]) = .ok (.str "") := by rfl
example : elemLabel pyStr (.obj [("name", .str "Paris")]) (.obj [("name", .num 5)]) = .ok (.str "5") := by rfl
example : elemLabel pyStr (.obj [("name", .str "Paris")]) (.obj [("hide", .bool true)]) = .ok (.str "Paris") := by rfl
example : elemHidden (.obj [("hide", .num 1)]) = .ok false := by rfl
example : elemFill (.obj [("fill", .str "")]) = .ok .null := by rfl
example : subFill (.obj [("fill", .str "")]) = .ok (.str "") := by rfl

end CrCube.C05
