/-
  C13 — pairwise column tests: statistic, p-value, index sets.

  `Out` terms are symbolic; where the property speaks about values the theorems use the
  interpretation `⟦·⟧` into ℝ (`interpT`, `interpP`) with Mathlib's `Real.sqrt` and a parameter
  `T : ℝ → ℝ → ℝ` for the Student-t CDF (`T df x`).  The only CDF fact used is `T df 0 = 1/2`
  (hypothesis of `self_p_one`); symmetry of p needs none, because p depends on |t| only.
-/
import CrCube.Model.Pairwise
import CrCube.Spec.PairwiseSpec
import CrCube.Lemmas.ValAlg
import Mathlib.Analysis.SpecialFunctions.Sqrt
import Mathlib.Tactic.Positivity

namespace CrCube.C13
open CrCube CrCube.Pairwise CrCube.PairwiseSpec

/-! ### the statistic and the p-value are the property's formula -/

/-- the quantity under the square root in the property text -/
def varSum (pa na pb nb : Val) : Val := pa * (1 - pa) / na + pb * (1 - pb) / nb

/-- **t_def**: comparing b with selected a yields (p_b − p_a)/sqrt(p_a(1−p_a)/n_a + p_b(1−p_b)/n_b);
    the `abs` the code puts under the root is the identity whenever that sum is ≥ 0, NaN or +inf -/
theorem t_def (pa na pb nb : Val) (h : ValL.nonnegOrNan (varSum pa na pb nb) = true) :
    tStat pb nb pa na = tFormula pa na pb nb := by
  unfold tStat tFormula
  have hc : pb * (1 - pb) / nb + pa * (1 - pa) / na = varSum pa na pb nb := ValL.add_comm' _ _
  rw [hc, ValL.abs_of_nonnegOrNan _ h]
  rfl

/-- the hypothesis of `t_def` holds for proportions in [0,1] and positive bases -/
theorem varSum_ok (pa na pb nb : Rat) (ha : 0 ≤ pa ∧ pa ≤ 1) (hb : 0 ≤ pb ∧ pb ≤ 1) (hna : 0 < na) (hnb : 0 < nb) :
    ValL.nonnegOrNan (varSum (.fin pa) (.fin na) (.fin pb) (.fin nb)) = true := by
  unfold varSum
  rw [ValL.var_term_fin _ _ (ne_of_gt hna), ValL.var_term_fin _ _ (ne_of_gt hnb), Val.add_fin]
  simp only [ValL.nonnegOrNan, decide_eq_true_eq]
  have h1 : 0 ≤ pa * (1 - pa) / na := div_nonneg (mul_nonneg ha.1 (by linarith [ha.2])) (le_of_lt hna)
  have h2 : 0 ≤ pb * (1 - pb) / nb := div_nonneg (mul_nonneg hb.1 (by linarith [hb.2])) (le_of_lt hnb)
  linarith

/-- … and on an empty column (NaN proportion) both sides are NaN-valued terms alike -/
theorem varSum_ok_nan (na pb nb : Val) : ValL.nonnegOrNan (varSum .nan na pb nb) = true := by
  unfold varSum
  rw [ValL.nan_mul, ValL.nan_div, ValL.nan_add]; rfl

/-- **p_def**: two-sided Student-t p-value with n_a + n_b − 2 degrees of freedom -/
theorem p_def (t : Out) (na nb : Val) : pVal t nb na = pFormula t na nb := by
  unfold pVal pFormula
  rw [ValL.add_comm' nb na]

/-- **t_cell_def**: the cell (row i, column b) of the statistic for selected signed column a is the
    formula on that row's proportion / base in column b and in the column the signed index
    addresses in `np.block` (base columns first, inserted columns after; negative = from the end) -/
theorem t_cell_def (x : PwIn) (a : Int) (i b : Nat) :
    x.t a i b = tStat (x.props.get i b) (x.bases.get i b)
                      (x.props.get i (pos x.nFullCols a)) (x.bases.get i (pos x.nFullCols a))
    ∧ x.p a i b = pVal (x.t a i b) (x.bases.get i b) (x.bases.get i (pos x.nFullCols a)) :=
  ⟨rfl, rfl⟩

/-- **effective_base_def**: n is the unweighted column base, or (Σw)²/Σw² cell by cell of the
    np.block'd weighted and squared-weight column bases when the squared-weight measure is present -/
theorem effective_base_def (x : PwIn) :
    x.bases = match x.sqbases with
      | none => x.uBaseBlocks
      | some s2 => zipMat (fun w s => w * w / s) x.wBaseBlocks
                     (colBaseBlocks s2 x.nr x.nc x.rowSubs x.colSubs (s2.get 0)) := by
  unfold PwIn.bases
  cases x.sqbases <;> rfl

/-! ### antisymmetry, self comparison -/

/-- the two statistics of a pair of columns are `num/√D` and `(−num)/√D` with the SAME D -/
theorem antisymmetric_term (pa na pb nb : Val) :
    ∃ num D, tStat pb nb pa na = .divSqrt num D ∧ tStat pa na pb nb = .divSqrt (-num) D := by
  refine ⟨pb - pa, Val.abs (pb * (1 - pb) / nb + pa * (1 - pa) / na), rfl, ?_⟩
  unfold tStat
  rw [ValL.sub_eq_neg_sub pb pa, ValL.add_comm' (pa * (1 - pa) / na)]

/-- interpretation of a statistic term into ℝ (defined on finite numerator / denominator) -/
noncomputable def interpT : Out → Option ℝ
  | .divSqrt (.fin n) (.fin d) => some ((n : ℝ) / Real.sqrt (d : ℝ))
  | .v (.fin q) => some (q : ℝ)
  | _ => none

/-- interpretation of a p-value term, `T df x` the Student-t CDF -/
noncomputable def interpP (T : ℝ → ℝ → ℝ) : Out → Option ℝ
  | .tTail2 t (.fin df) => (interpT t).map (fun x => 2 * (1 - T (df : ℝ) |x|))
  | .v (.fin q) => some (q : ℝ)
  | _ => none

/-- **antisymmetric**: ⟦t a b⟧ = −⟦t b a⟧ -/
theorem antisymmetric (pa na pb nb : Val) :
    interpT (tStat pa na pb nb) = (interpT (tStat pb nb pa na)).map (fun x => -x) := by
  obtain ⟨num, D, h1, h2⟩ := antisymmetric_term pa na pb nb
  rw [h1, h2]
  cases num <;> cases D <;> simp [interpT, Val.neg_fin, neg_div] <;> rfl

/-- on whole slices: column b against a, and a against b, in any row -/
theorem antisymmetric_cells (x : PwIn) (a b : Nat) (i : Nat) :
    interpT (x.t (b : Int) i a) = (interpT (x.t (a : Int) i b)).map (fun y => -y) := by
  have hpa : pos x.nFullCols (a : Int) = a := by simp [pos]
  have hpb : pos x.nFullCols (b : Int) = b := by simp [pos]
  unfold PwIn.t
  simp only [hpa, hpb]
  exact antisymmetric _ _ _ _

/-- **self_zero**: a column against itself gives the term 0/√D, whose value is 0 -/
theorem self_zero (p : Rat) (n : Val) :
    ∃ D, tStat (.fin p) n (.fin p) n = .divSqrt (.fin 0) D
      ∧ ∀ d : Rat, D = .fin d → interpT (.divSqrt (.fin 0) D) = some 0 := by
  refine ⟨Val.abs (Val.fin p * (1 - Val.fin p) / n + Val.fin p * (1 - Val.fin p) / n), ?_, ?_⟩
  · unfold tStat; rw [ValL.sub_self_fin]
  · intro d hd; rw [hd]; simp [interpT]

/-- **symmetric_p**: p is symmetric in (a, b) — same degrees of freedom, |t| equal -/
theorem symmetric_p (T : ℝ → ℝ → ℝ) (pa na pb nb : Val) :
    interpP T (pVal (tStat pa na pb nb) na nb) = interpP T (pVal (tStat pb nb pa na) nb na) := by
  obtain ⟨num, D, h1, h2⟩ := antisymmetric_term pa na pb nb
  unfold pVal
  rw [h1, h2, ValL.add_comm' na nb]
  cases hdf : (nb + na - 2 : Val) <;> cases num <;> cases D <;>
    simp [interpP, interpT, Val.neg_fin, ValL.neg_nan, ValL.neg_pinf, ValL.neg_ninf, neg_div, abs_neg]

/-- **self_p_one**: a column against itself has p = 1 (given T_df(0) = 1/2) -/
theorem self_p_one (T : ℝ → ℝ → ℝ) (hT : ∀ df, T df 0 = 1 / 2) (p d df : Rat) (n : Val)
    (hD : Val.abs (Val.fin p * (1 - Val.fin p) / n + Val.fin p * (1 - Val.fin p) / n) = .fin d)
    (hdf : n + n - 2 = Val.fin df) :
    interpP T (pVal (tStat (.fin p) n (.fin p) n) n n) = some 1 := by
  unfold pVal tStat
  rw [ValL.sub_self_fin, hD, hdf]
  simp [interpP, interpT, hT]
  norm_num

/-- **only_larger_iff_smaller**: t < 0 exactly when the compared column's proportion is smaller
    than the selected column's (finite proportions, finite positive variance sum) -/
theorem only_larger_iff_smaller (pa pb d : Rat) (na nb : Val) (hd : 0 < d)
    (hD : Val.abs (Val.fin pb * (1 - Val.fin pb) / nb + Val.fin pa * (1 - Val.fin pa) / na) = .fin d) :
    (∃ y, interpT (tStat (.fin pb) nb (.fin pa) na) = some y ∧ (y < 0 ↔ pb < pa))
    ∧ (divSqrtNeg (tStat (.fin pb) nb (.fin pa) na) = true ↔ pb < pa) := by
  unfold tStat
  rw [hD, ValL.sub_fin']
  constructor
  · refine ⟨_, rfl, ?_⟩
    have hs : 0 < Real.sqrt (d : ℝ) := Real.sqrt_pos.mpr (by exact_mod_cast hd)
    rw [div_neg_iff]
    constructor
    · rintro (⟨_, h⟩ | ⟨h, _⟩)
      · exact absurd hs (not_lt.mpr (le_of_lt h))
      · have : ((pb - pa : Rat) : ℝ) < 0 := h
        have : (pb - pa : Rat) < 0 := by exact_mod_cast this
        linarith
    · intro h
      right
      refine ⟨?_, hs⟩
      have : (pb - pa : Rat) < 0 := by linarith
      exact_mod_cast this
  · simp only [divSqrtNeg, decide_eq_true_eq]
    constructor <;> intro h <;> linarith


/-! ### index sets -/

/-- the set reported in row r for selected display column c -/
def cellOf (I : List (List (List Nat))) (r c : Nat) : List Nat := (I.getD r []).getD c []

theorem cellOf_indicesOf (ev : Out → Val) (alpha : Rat) (ol : Bool) (nRows nCols : Nat)
    (P T : Nat → Nat → Nat → Out) (r c : Nat) (hr : r < nRows) (hc : c < nCols) :
    cellOf (indicesOf ev alpha ol nRows nCols P T) r c
      = (List.range nCols).filter (fun b => b != c && sig ev alpha ol (P c r b) (T c r b)) := by
  unfold cellOf indicesOf
  simp only [List.getD_eq_getElem?_getD, List.getElem?_map, List.getElem?_range hr,
    List.getElem?_range hc, Option.map_some, Option.getD_some]

/-- **indices_def**: the set of row r / selected display column c contains exactly the display
    positions b of the OTHER columns with p(c, b) < alpha and, in only-larger mode, t(c, b) < 0 -/
theorem indices_def (ev : Out → Val) (alpha : Rat) (ol : Bool) (x : PwIn) (ro co : List Int)
    (r c b : Nat) (hr : r < ro.length) (hc : c < co.length) :
    b ∈ cellOf (pairwiseIndices ev alpha ol x ro co) r c ↔
      b < co.length ∧ b ≠ c
      ∧ Val.lt (ev (x.p (co.getD c 0) (pos x.nFullRows (ro.getD r 0)) (pos x.nFullCols (co.getD b 0)))) (.fin alpha) = true
      ∧ (ol = true → Val.lt (ev (x.t (co.getD c 0) (pos x.nFullRows (ro.getD r 0)) (pos x.nFullCols (co.getD b 0)))) (.fin 0) = true) := by
  unfold pairwiseIndices
  rw [cellOf_indicesOf _ _ _ _ _ _ _ _ _ hr hc]
  simp only [List.mem_filter, List.mem_range, sig, Bool.and_eq_true, bne_iff_ne, ne_eq, Bool.or_eq_true,
    Bool.not_eq_true']
  constructor
  · rintro ⟨h1, h2, h3, h4⟩
    refine ⟨h1, h2, h3, ?_⟩
    intro hol
    rcases h4 with h4 | h4
    · rw [hol] at h4; exact absurd h4 (by simp)
    · exact h4
  · rintro ⟨h1, h2, h3, h4⟩
    refine ⟨h1, h2, h3, ?_⟩
    cases ol with
    | false => left; rfl
    | true => right; exact h4 rfl

/-- **never_self**: a column is never in its own set -/
theorem never_self (ev : Out → Val) (alpha : Rat) (ol : Bool) (nRows nCols : Nat)
    (P T : Nat → Nat → Nat → Out) (r c : Nat) (hr : r < nRows) (hc : c < nCols) :
    c ∉ cellOf (indicesOf ev alpha ol nRows nCols P T) r c := by
  rw [cellOf_indicesOf _ _ _ _ _ _ _ _ _ hr hc]
  simp

/-- without the explicit mask the same holds on the count path because a self comparison
    evaluates to p = 1 (or NaN on an empty column) and alpha < 1 -/
theorem self_not_significant (ev : Out → Val) (alpha : Rat) (ol : Bool) (p t : Out)
    (hα : alpha < 1) (hp : ev p = .fin 1 ∨ ev p = .nan) : sig ev alpha ol p t = false := by
  unfold sig
  rcases hp with h | h <;> rw [h]
  · have : Val.lt (.fin 1) (.fin alpha) = false := by
      simp only [Val.lt, decide_eq_false_iff_not, not_lt]; exact le_of_lt hα
    rw [this]; rfl
  · rfl

/-- the overlap variant as found reports p = 0 for a self comparison: without the mask the column
    would list itself when only_larger is off (defect F15, repaired by the mask) -/
theorem overlap_self_included_without_mask (ev : Out → Val) (hev : ∀ q, ev (.v (.fin q)) = .fin q)
    (x : OvIn) (i a : Nat) (alpha : Rat) (hα : 0 < alpha) :
    sig ev alpha false (x.p i a a) (x.t i a a) = true := by
  unfold sig OvIn.p
  simp only [if_true, hev, Bool.not_false, Bool.true_or, Bool.and_true]
  simp only [Val.lt, decide_eq_true_eq]; exact hα

/-- **alt_superset**: a larger alpha gives a superset, cell by cell -/
theorem alt_superset (ev : Out → Val) (a1 a2 : Rat) (h : a1 ≤ a2) (ol : Bool) (nRows nCols : Nat)
    (P T : Nat → Nat → Nat → Out) (r c : Nat) (hr : r < nRows) (hc : c < nCols) :
    ∀ b ∈ cellOf (indicesOf ev a1 ol nRows nCols P T) r c,
      b ∈ cellOf (indicesOf ev a2 ol nRows nCols P T) r c := by
  intro b hb
  rw [cellOf_indicesOf _ _ _ _ _ _ _ _ _ hr hc] at hb ⊢
  simp only [List.mem_filter, List.mem_range, sig, Bool.and_eq_true] at hb ⊢
  obtain ⟨h1, h2, h3, h4⟩ := hb
  exact ⟨h1, h2, ValL.lt_fin_mono _ _ _ h h3, h4⟩

/-- **indices_follow_display**: let display 2 show the columns (rows) of display 1 through
    position maps σ (ρ): the column at position k of display 2 is the one at position σ k of
    display 1 (any reordering, hiding, or different insertion points).  Then the sets are the
    position-map images of each other: b is listed at (r, c) in display 2 iff σ b is listed at
    (ρ r, σ c) in display 1. -/
theorem indices_follow_display (ev : Out → Val) (alpha : Rat) (ol : Bool) (x : PwIn)
    (ro₁ co₁ ro₂ co₂ : List Int) (σ ρ : Nat → Nat)
    (hσ : ∀ k, k < co₂.length → σ k < co₁.length ∧ co₂.getD k 0 = co₁.getD (σ k) 0)
    (hinj : ∀ j k, j < co₂.length → k < co₂.length → σ j = σ k → j = k)
    (hρ : ∀ k, k < ro₂.length → ρ k < ro₁.length ∧ ro₂.getD k 0 = ro₁.getD (ρ k) 0)
    (r c b : Nat) (hr : r < ro₂.length) (hc : c < co₂.length) (hb : b < co₂.length) :
    b ∈ cellOf (pairwiseIndices ev alpha ol x ro₂ co₂) r c ↔
      σ b ∈ cellOf (pairwiseIndices ev alpha ol x ro₁ co₁) (ρ r) (σ c) := by
  rw [indices_def ev alpha ol x ro₂ co₂ r c b hr hc,
      indices_def ev alpha ol x ro₁ co₁ (ρ r) (σ c) (σ b) (hρ r hr).1 (hσ c hc).1]
  rw [(hσ c hc).2, (hσ b hb).2, (hρ r hr).2]
  constructor
  · rintro ⟨_, h2, h3, h4⟩
    exact ⟨(hσ b hb).1, fun e => h2 (hinj b c hb hc e), h3, h4⟩
  · rintro ⟨_, h2, h3, h4⟩
    exact ⟨hb, fun e => h2 (by rw [e]), h3, h4⟩

/-! ### alpha -/

/-- **alpha_parse**: whatever is accepted yields thresholds strictly between 0 and 1; an absent /
    falsy value means (0.05, none); a one-element list or a bare float has no secondary alpha -/
theorem alpha_parse (arg : AlphaArg) (a : Rat) (o : Option Rat) (h : alphaValues arg = .ok (a, o)) :
    (0 < a ∧ a < 1) ∧ (∀ y, o = some y → 0 < y ∧ y < 1)
    ∧ (arg = .falsy → a = 5 / 100 ∧ o = none) := by
  cases arg with
  | falsy =>
    simp only [alphaValues, Except.ok.injEq, Prod.mk.injEq] at h
    obtain ⟨rfl, rfl⟩ := h
    exact ⟨by norm_num, (by intro y hy; cases hy), fun _ => ⟨rfl, rfl⟩⟩
  | other => simp [alphaValues] at h
  | float x =>
    simp only [alphaValues] at h
    by_cases hx : inUnit x = true
    · rw [if_pos hx] at h
      simp only [Except.ok.injEq, Prod.mk.injEq] at h
      obtain ⟨rfl, rfl⟩ := h
      simp only [inUnit, Bool.and_eq_true, decide_eq_true_eq] at hx
      exact ⟨hx, (by intro y hy; cases hy), (by intro hh; cases hh)⟩
    · rw [if_neg hx] at h; cases h
  | list xs =>
    cases xs with
    | nil =>
      simp only [alphaValues, List.take_nil, List.all_nil, if_true, Except.ok.injEq, Prod.mk.injEq] at h
      obtain ⟨rfl, rfl⟩ := h
      exact ⟨by norm_num, (by intro y hy; cases hy), (by intro hh; cases hh)⟩
    | cons u t =>
      cases t with
      | nil =>
        cases u with
        | other => simp [alphaValues, itemOk] at h
        | float q =>
          by_cases hq : inUnit q = true
          · simp only [alphaValues, List.take, List.all_cons, List.all_nil, Bool.and_true, itemOk, hq, if_true,
              itemVal, Except.ok.injEq, Prod.mk.injEq] at h
            obtain ⟨rfl, rfl⟩ := h
            simp only [inUnit, Bool.and_eq_true, decide_eq_true_eq] at hq
            exact ⟨hq, (by intro y hy; cases hy), (by intro hh; cases hh)⟩
          · simp [alphaValues, itemOk, hq] at h
      | cons w rest =>
        cases u with
        | other => simp [alphaValues, itemOk] at h
        | float q =>
          cases w with
          | other => simp [alphaValues, itemOk] at h
          | float q' =>
            by_cases hq : inUnit q = true
            · by_cases hq' : inUnit q' = true
              · simp only [alphaValues, List.take, List.all_cons, List.all_nil, Bool.and_true, itemOk, hq, hq',
                  Bool.and_self, if_true, Except.ok.injEq] at h
                simp only [inUnit, Bool.and_eq_true, decide_eq_true_eq] at hq hq'
                by_cases hle : itemVal (AlphaItem.float q) ≤ itemVal (AlphaItem.float q')
                · rw [if_pos hle] at h
                  simp only [Prod.mk.injEq] at h
                  obtain ⟨rfl, rfl⟩ := h
                  exact ⟨hq, (by intro y hy; cases hy; exact hq'), (by intro hh; cases hh)⟩
                · rw [if_neg hle] at h
                  simp only [Prod.mk.injEq] at h
                  obtain ⟨rfl, rfl⟩ := h
                  exact ⟨hq', (by intro y hy; cases hy; exact hq), (by intro hh; cases hh)⟩
              · simp [alphaValues, itemOk, hq, hq'] at h
            · simp [alphaValues, itemOk, hq] at h

/-- **alpha_sorted**: with two thresholds the primary one is the smaller, so (by `alt_superset`)
    the secondary sets contain the primary ones -/
theorem alpha_sorted (arg : AlphaArg) (a y : Rat) (h : alphaValues arg = .ok (a, some y)) : a ≤ y := by
  cases arg with
  | falsy => simp [alphaValues] at h
  | other => simp [alphaValues] at h
  | float x =>
    simp only [alphaValues] at h
    by_cases hx : inUnit x = true
    · rw [if_pos hx] at h; simp at h
    · rw [if_neg hx] at h; cases h
  | list xs =>
    cases xs with
    | nil => simp [alphaValues] at h
    | cons u t =>
      cases t with
      | nil =>
        simp only [alphaValues] at h
        split at h <;> simp at h
      | cons w rest =>
        simp only [alphaValues] at h
        split at h
        · simp only [Except.ok.injEq] at h
          by_cases hle : itemVal u ≤ itemVal w
          · rw [if_pos hle] at h
            simp only [Prod.mk.injEq, Option.some.injEq] at h
            obtain ⟨rfl, rfl⟩ := h; exact hle
          · rw [if_neg hle] at h
            simp only [Prod.mk.injEq, Option.some.injEq] at h
            obtain ⟨rfl, rfl⟩ := h; exact le_of_lt (not_le.mp hle)
        · cases h

/-! ### Welch test on means -/

/-- **welch_def**: for a selected BASE column the cell is Welch's statistic on the cell means,
    variances (stddev²) and counts, with the Welch–Satterthwaite degrees of freedom; inserted
    rows / columns and a selected inserted column are NaN -/
theorem welch_def (x : MeansIn) (a i b : Nat) (hi : i < x.nr) (hb : b < x.nc) :
    x.t (a : Int) i b = welchT (x.means.get i b) (sq (x.stddev.get i b)) (x.counts.get i b)
                                (x.means.get i a) (sq (x.stddev.get i a)) (x.counts.get i a)
    ∧ x.p (a : Int) i b = .tTail2 (x.t (a : Int) i b)
        (welchDf (sq (x.stddev.get i b)) (x.counts.get i b) (sq (x.stddev.get i a)) (x.counts.get i a)) := by
  have hneg : ¬ ((a : Int) < 0) := by omega
  unfold MeansIn.p MeansIn.t
  simp only [hneg, if_false, hi, hb, and_self, if_true, Int.toNat_natCast]

theorem welch_subtotal_nan (x : MeansIn) (a : Int) (i b : Nat) (h : a < 0 ∨ ¬ (i < x.nr ∧ b < x.nc)) :
    x.t a i b = .v .nan := by
  unfold MeansIn.t
  rcases h with h | h
  · rw [if_pos h]
  · by_cases ha : a < 0
    · rw [if_pos ha]
    · rw [if_neg ha, if_neg h]

/-- **welch_antisymmetric**: numerators opposite, same denominator, same degrees of freedom -/
theorem welch_antisymmetric (m v n m' v' n' : Val) :
    (∃ num D, welchT m v n m' v' n' = .divSqrt num D ∧ welchT m' v' n' m v n = .divSqrt (-num) D)
    ∧ welchDf v n v' n' = welchDf v' n' v n := by
  constructor
  · refine ⟨m - m', v / n + v' / n', rfl, ?_⟩
    unfold welchT
    rw [ValL.sub_eq_neg_sub m m', ValL.add_comm' (v' / n')]
  · unfold welchDf
    rw [ValL.add_comm' (v / n) (v' / n'), ValL.add_comm' (sq (v / n) / (n - 1))]

/-! ### overlap variant -/

/-- **overlap_path_iff_both_measures**: the overlap-corrected test is used exactly when the columns
    are multiple-response and both overlap measures are present; with only one of them (or none)
    the ordinary column test of `t_def` / `p_def` applies -/
theorem overlap_path_iff_both_measures (mr ov vov : Bool) :
    usesOverlapPath mr ov vov = true ↔ (mr = true ∧ ov = true ∧ vov = true) := by
  cases mr <;> cases ov <;> cases vov <;> simp [usesOverlapPath]

/-- **overlap_def**: for two different subvariables the overlap-corrected statistic is
    (p_b − p_a)/sqrt((1/df)(π_a(1−π_a) + π_b(1−π_b) + 2π_aπ_b − 2π_ab)) with df = N_a + N_b − N_ab,
    π = selected / valid overlap bases, and p a Student-t tail with df − 2 degrees of freedom -/
theorem overlap_def (x : OvIn) (i a b : Nat) (hab : a ≠ b) :
    x.t i a b = .divSqrt (x.props.get i b - x.props.get i a) (x.den i a b)
    ∧ x.p i a b = .tTail2 (x.t i a b) (x.df i a b - 2) := by
  unfold OvIn.p OvIn.t
  simp [hab]

/-- **overlap_self_zero**: a subvariable against itself gives t = 0 -/
theorem overlap_self_zero (x : OvIn) (i a : Nat) : x.t i a a = .v (.fin 0) := by
  unfold OvIn.t; rw [if_pos rfl]

/-- **overlap_antisymmetric**: with symmetric overlap tensors and non-empty valid bases the two
    statistics of a pair of subvariables are num/√D and (−num)/√D with the same D, and the degrees
    of freedom agree -/
theorem overlap_antisymmetric (x : OvIn) (i a b : Nat) (hab : a ≠ b)
    (Sa Sb Sab Va Vb Vab : Rat)
    (hSa : get3 x.sel i a a = .fin Sa) (hSb : get3 x.sel i b b = .fin Sb)
    (hSab : get3 x.sel i a b = .fin Sab) (hSba : get3 x.sel i b a = .fin Sab)
    (hVa : get3 x.valid i a a = .fin Va) (hVb : get3 x.valid i b b = .fin Vb)
    (hVab : get3 x.valid i a b = .fin Vab) (hVba : get3 x.valid i b a = .fin Vab)
    (ha : Va ≠ 0) (hb : Vb ≠ 0) (hab0 : Vab ≠ 0) (hdf : Va + Vb - Vab ≠ 0) :
    (∃ num D, x.t i a b = .divSqrt num D ∧ x.t i b a = .divSqrt (-num) D)
    ∧ x.df i a b = x.df i b a := by
  have hdf' : Vb + Va - Vab ≠ 0 := by
    intro h; apply hdf; linarith
  have hD : x.den i a b = x.den i b a := by
    unfold OvIn.den OvIn.df
    simp only [hSa, hSb, hSab, hSba, hVa, hVb, hVab, hVba, ValL.fin_div_fin _ _ ha, ValL.fin_div_fin _ _ hb,
      ValL.fin_div_fin _ _ hab0, ValL.one_val, ValL.two_val', Val.add_fin, ValL.sub_fin', Val.mul_fin,
      ValL.fin_div_fin _ _ hdf, ValL.fin_div_fin _ _ hdf']
    congr 1; ring
  constructor
  · refine ⟨x.props.get i b - x.props.get i a, x.den i a b, ?_, ?_⟩
    · unfold OvIn.t; rw [if_neg hab]
    · unfold OvIn.t; rw [if_neg (Ne.symm hab), hD, ValL.sub_eq_neg_sub]
  · unfold OvIn.df
    simp only [hVa, hVb, hVab, hVba, Val.add_fin, ValL.sub_fin']
    congr 1; ring

/-! ### non-vacuity -/

/-- proportions 1/4 and 3/5 on bases 8 and 10 satisfy the hypotheses of `t_def` / `varSum_ok` -/
example : ValL.nonnegOrNan (varSum (.fin (1 / 4)) (.fin 8) (.fin (3 / 5)) (.fin 10)) = true :=
  varSum_ok (1 / 4) 8 (3 / 5) 10 (by norm_num) (by norm_num) (by norm_num) (by norm_num)

/-- a hypothesis instance of `only_larger_iff_smaller` (positive finite variance sum) -/
example : Val.abs (Val.fin (3 / 5) * (1 - Val.fin (3 / 5)) / Val.fin 10 + Val.fin (1 / 4) * (1 - Val.fin (1 / 4)) / Val.fin 8)
    = .fin (759 / 16000) := by
  rw [ValL.var_term_fin _ _ (by norm_num), ValL.var_term_fin _ _ (by norm_num), Val.add_fin]
  show Val.fin (if _ < 0 then _ else _) = _
  norm_num

/-- accepted alpha shapes: two unsorted floats are sorted; a falsy value gives the default -/
example : alphaValues (.list [.float (1 / 10), .float (1 / 100)]) = .ok (1 / 100, some (1 / 10)) := by
  simp only [alphaValues, List.take, List.all_cons, List.all_nil, itemOk, inUnit, itemVal]
  norm_num
example : alphaValues .falsy = .ok (5 / 100, none) := rfl
example : alphaValues .other = .error .typeError := rfl
example : alphaValues (.list [.float (3 / 2)]) = .error .valueError := by
  simp only [alphaValues, List.take, List.all_cons, List.all_nil, itemOk, inUnit]
  norm_num

/-- a position map as in `indices_follow_display`: display 2 = columns [2, 0] of display 1 = [0, 1, 2]
    (column 1 hidden, the others swapped) -/
example : let co₁ : List Int := [0, 1, 2]; let co₂ : List Int := [2, 0]
    let σ : Nat → Nat := fun k => if k = 0 then 2 else 0
    (∀ k, k < co₂.length → σ k < co₁.length ∧ co₂.getD k 0 = co₁.getD (σ k) 0)
    ∧ (∀ j k, j < co₂.length → k < co₂.length → σ j = σ k → j = k) := by
  intro co₁ co₂ σ
  constructor
  · intro k hk
    have : k = 0 ∨ k = 1 := by simp [co₂] at hk; omega
    rcases this with rfl | rfl <;> simp [σ, co₁, co₂]
  · intro j k hj hk h
    have hj' : j = 0 ∨ j = 1 := by simp [co₂] at hj; omega
    have hk' : k = 0 ∨ k = 1 := by simp [co₂] at hk; omega
    rcases hj' with rfl | rfl <;> rcases hk' with rfl | rfl <;> simp [σ] at h ⊢

end CrCube.C13
