/-
  C11 — Variance, standard error and margin of error of proportions.

  Model: `Model/Variance.lean` (`_ProportionVariances._calc_var`, the standard-error blocks,
  `Z_975`, strand twins) on the per-cell primitives.  `VarCell.ofSurvey` are those primitives at
  respondent level (what the count / base blocks hold when the cube tabulates a survey).
  Spec: `Spec/VarianceSpec.lean`.

  Hypotheses: sides well-formed for their variable (`Side.OK`: several addends / subtrahends
  only on categorical dimensions), addends ∩ subtrahends = ∅ (`Side.Disj`, DESIGN N2),
  non-negative weights (only needed for the empty-base NaN), categorical-date ⇒ categorical.
-/
import CrCube.Lemmas.VarianceLemmas
import CrCube.Lemmas.OutReal

set_option linter.unusedSimpArgs false

namespace CrCube.C11
open CrCube

/-! ### the primitives of a respondent-level cell -/

section
variable (d : SliceDesign) (s : Survey) (dir : Dir) (R C : Side) (rcd ccd : Bool)

theorem total_of_defined (hu : propUndefined dir R C rcd ccd = false) :
    (VarCell.ofSurvey d s dir R C rcd ccd).total = .fin (wsum s (d.inBase dir R C)) := by
  simp only [propUndefined, Bool.or_eq_false_iff] at hu
  cases dir <;> simp_all [VarCell.total, VarCell.ofSurvey]

theorem counts_of_defined (hu : propUndefined dir R C rcd ccd = false) :
    (VarCell.ofSurvey d s dir R C rcd ccd).posCount = .fin (wsum s (d.isPos R C)) ∧
    (VarCell.ofSurvey d s dir R C rcd ccd).negCount = .fin (wsum s (d.isNeg R C)) ∧
    (VarCell.ofSurvey d s dir R C rcd ccd).count
      = .fin (wsum s (d.isPos R C)) - .fin (wsum s (d.isNeg R C)) := by
  simp only [propUndefined, Bool.or_eq_false_iff] at hu
  have hbd : (VarCell.ofSurvey d s dir R C rcd ccd).bothDiff = false := hu.1.1
  simp only [VarCell.posCount, VarCell.negCount, VarCell.count, hbd, Bool.false_eq_true, if_false]
  exact ⟨rfl, rfl, rfl⟩

end

/-- **C11, main statement.**  For every displayed cell (ordinary, subtotal, difference,
    intersection) and every direction, the library's variance formula applied to the
    respondent-level primitives of the cell equals the specification: the weighted variance,
    among the respondents in the proportion's base, of the +1 / −1 / 0 indicator — and NaN exactly
    where the proportion or its base is undefined. -/
theorem variance_eq_spec (d : SliceDesign) (s : Survey) (dir : Dir) (R C : Side) (rcd ccd : Bool)
    (hR : R.OK d.rowV) (hC : C.OK d.colV) (hdR : R.Disj) (hdC : C.Disj) (hw : WeightsNonneg s)
    (hcdR : rcd = true → d.rowV.kind = .cat) (hcdC : ccd = true → d.colV.kind = .cat) :
    (VarCell.ofSurvey d s dir R C rcd ccd).variance = varianceSpec d s dir R C rcd ccd := by
  unfold varianceSpec
  by_cases hu : propUndefined dir R C rcd ccd = true
  · -- undefined proportion / base  ⇒  NaN
    rw [if_pos hu]
    unfold VarCell.variance varianceOf
    simp only [propUndefined, Bool.or_eq_true] at hu
    rcases hu with (hbd | hown) | hwave
    · have : (VarCell.ofSurvey d s dir R C rcd ccd).posCount = .nan := by
        simp only [VarCell.posCount]
        rw [if_pos]; exact hbd
      rw [this, calcVar_nan_np]
    · have : (VarCell.ofSurvey d s dir R C rcd ccd).total = .nan := by
        cases dir <;> simp_all [VarCell.total, VarCell.ofSurvey]
      rw [this, calcVar_nan_nt]
    · have : (VarCell.ofSurvey d s dir R C rcd ccd).proportion = .nan := by
        cases dir with
        | table => simp at hwave
        | row =>
          simp only [Bool.or_eq_true, Bool.and_eq_true, Bool.not_eq_true'] at hwave
          unfold VarCell.proportion
          show (if R.inserted && !C.inserted then _ else if !R.inserted && C.inserted then _ else _) = _
          rcases hwave with ⟨⟨h1, h2⟩, h3⟩ | ⟨⟨h1, h2⟩, h3⟩
          · rw [if_pos (by simp [h1, h2])]
            simp only [VarCell.ofSurvey, h1, h2, Bool.not_false, Bool.and_self, if_true]
            exact waveDiffProp_undefined R rcd h3 _ _ _ _ _
          · rw [if_neg (by simp [h1, h2]), if_pos (by simp [h1, h2])]
            simp only [VarCell.ofSurvey, h1, h2, Bool.false_and, Bool.false_eq_true, if_false]
            exact waveDiffProp_undefined C ccd h3 _ _ _ _ _
        | col =>
          simp only [Bool.or_eq_true, Bool.and_eq_true, Bool.not_eq_true'] at hwave
          unfold VarCell.proportion
          show (if R.inserted && !C.inserted then _ else if !R.inserted && C.inserted then _ else _) = _
          rcases hwave with ⟨⟨h1, h2⟩, h3⟩ | ⟨⟨h1, h2⟩, h3⟩
          · rw [if_pos (by simp [h1, h2])]
            simp only [VarCell.ofSurvey, h1, h2, Bool.not_false, Bool.and_self, if_true]
            exact waveDiffProp_undefined R rcd h3 _ _ _ _ _
          · rw [if_neg (by simp [h1, h2]), if_pos (by simp [h1, h2])]
            simp only [VarCell.ofSurvey, h1, h2, Bool.false_and, Bool.false_eq_true, if_false]
            exact waveDiffProp_undefined C ccd h3 _ _ _ _ _
      rw [this, calcVar_nan_p]
  · -- defined
    have hu' : propUndefined dir R C rcd ccd = false := by simpa using hu
    rw [if_neg hu]
    have htot := total_of_defined d s dir R C rcd ccd hu'
    obtain ⟨hpos, hneg, hcount⟩ := counts_of_defined d s dir R C rcd ccd hu'
    have hPB : ∀ r ∈ s, d.isPos R C r = true → d.inBase dir R C r = true :=
      fun r _ => d.pos_sub_base R C hR hC dir r
    have hdir : dir.ownNotDiff R C = true := by
      simp only [propUndefined, Bool.or_eq_false_iff] at hu'
      cases dir <;> simp_all [Dir.ownNotDiff]
    have hNB : ∀ r ∈ s, d.isNeg R C r = true → d.inBase dir R C r = true :=
      fun r _ => d.neg_sub_base R C hR hC dir r hdir
    unfold indicatorVariance
    by_cases hb : wsum s (d.inBase dir R C) = 0
    · -- empty base ⇒ NaN
      rw [if_pos hb]
      unfold VarCell.variance varianceOf
      apply calcVar_nan_of_np_div
      rw [hpos, htot, hb, wsum_zero_of_subset s _ _ hw hPB hb]
      decide
    · rw [if_neg hb]
      unfold VarCell.variance varianceOf
      rw [VarCell.proportion_ofSurvey d s dir R C rcd ccd hcdR hcdC hu' hb, hcount, htot, hpos, hneg,
        Val.sub_fin, Val.div_fin_ne _ _ hb, countIgnored_fin, calcVar_fin _ _ _ _ _ hb]
      congr 1
      have key := wvariance_indicator s (d.inBase dir R C) (d.isPos R C) (d.isNeg R C)
        (fun r _ => d.pos_neg_disj R C hR hC hdR hdC r) hb
      simp only at key
      rw [key, wsum_and_of_subset s _ _ hPB, wsum_and_of_subset s _ _ hNB]
      ring

end CrCube.C11

namespace CrCube.C11
open CrCube

/-- the indicator-variance form (DESIGN §3 `variance_is_indicator_variance`): disjoint addends /
    subtrahends, defined proportion, non-empty base -/
theorem variance_is_indicator_variance (d : SliceDesign) (s : Survey) (dir : Dir) (R C : Side)
    (rcd ccd : Bool) (hR : R.OK d.rowV) (hC : C.OK d.colV) (hdR : R.Disj) (hdC : C.Disj)
    (hw : WeightsNonneg s) (hcdR : rcd = true → d.rowV.kind = .cat)
    (hcdC : ccd = true → d.colV.kind = .cat)
    (hu : propUndefined dir R C rcd ccd = false) (hb : wsum s (d.inBase dir R C) ≠ 0) :
    (VarCell.ofSurvey d s dir R C rcd ccd).variance
      = .fin (wvariance s (d.inBase dir R C) (indicatorOf (d.isPos R C) (d.isNeg R C))) := by
  rw [variance_eq_spec d s dir R C rcd ccd hR hC hdR hdC hw hcdR hcdC]
  simp [varianceSpec, hu, indicatorVariance, hb]

/-- NaN exactly where the proportion or its base is undefined -/
theorem variance_nan_iff (d : SliceDesign) (s : Survey) (dir : Dir) (R C : Side)
    (rcd ccd : Bool) (hR : R.OK d.rowV) (hC : C.OK d.colV) (hdR : R.Disj) (hdC : C.Disj)
    (hw : WeightsNonneg s) (hcdR : rcd = true → d.rowV.kind = .cat)
    (hcdC : ccd = true → d.colV.kind = .cat) :
    (VarCell.ofSurvey d s dir R C rcd ccd).variance = .nan
      ↔ (propUndefined dir R C rcd ccd = true ∨ wsum s (d.inBase dir R C) = 0) := by
  rw [variance_eq_spec d s dir R C rcd ccd hR hC hdR hdC hw hcdR hcdC]
  unfold varianceSpec indicatorVariance
  by_cases hu : propUndefined dir R C rcd ccd = true
  · simp [hu]
  · by_cases hb : wsum s (d.inBase dir R C) = 0
    · simp [hu, hb]
    · simp [hu, hb]

/-- ordinary (base) cells: p(1 − p) with p = count / base -/
theorem variance_ordinary (d : SliceDesign) (s : Survey) (dir : Dir) (i j : Nat) (rcd ccd : Bool)
    (hw : WeightsNonneg s) (hcdR : rcd = true → d.rowV.kind = .cat)
    (hcdC : ccd = true → d.colV.kind = .cat)
    (hb : wsum s (d.inBase dir (.base i) (.base j)) ≠ 0) :
    let p := wsum s (d.isPos (.base i) (.base j)) / wsum s (d.inBase dir (.base i) (.base j))
    (VarCell.ofSurvey d s dir (.base i) (.base j) rcd ccd).variance = .fin (p * (1 - p)) := by
  intro p
  have hu : propUndefined dir (.base i) (.base j) rcd ccd = false := by
    cases dir <;> simp [propUndefined, Side.base, Side.isDiff]
  rw [variance_is_indicator_variance d s dir (.base i) (.base j) rcd ccd (Side.base_OK i _)
    (Side.base_OK j _) (Side.base_Disj i) (Side.base_Disj j) hw hcdR hcdC hu hb]
  congr 1
  have hd : ∀ r ∈ s, ¬ (d.isPos (.base i) (.base j) r = true ∧ d.isNeg (.base i) (.base j) r = true) :=
    fun r _ => d.pos_neg_disj _ _ (Side.base_OK i _) (Side.base_OK j _) (Side.base_Disj i) (Side.base_Disj j) r
  have key := wvariance_indicator s (d.inBase dir (.base i) (.base j)) (d.isPos (.base i) (.base j))
    (d.isNeg (.base i) (.base j)) hd hb
  simp only at key
  rw [key]
  have hPB : ∀ r ∈ s, d.isPos (.base i) (.base j) r = true → d.inBase dir (.base i) (.base j) r = true :=
    fun r _ => d.pos_sub_base _ _ (Side.base_OK i _) (Side.base_OK j _) dir r
  have hN0 : wsum s (fun r => d.inBase dir (.base i) (.base j) r && d.isNeg (.base i) (.base j) r) = 0 := by
    rw [← wsum_false s]
    apply wsum_congr
    intro r _
    simp [SliceDesign.isNeg, SliceDesign.inRowSub, SliceDesign.inColSub, Side.base, Var.inAny]
  rw [wsum_and_of_subset s _ _ hPB, hN0]
  show _ = p * (1 - p)
  have hNt : wsum s (d.inBase dir (.base i) (.base j)) ≠ 0 := hb
  simp only [p]
  field_simp
  ring

/-- standard deviation = sqrt(variance);  standard error = sqrt(variance / weighted base);
    margin of error = 1.959964 × standard error -/
theorem stddev_def (c : VarCell) : c.stdDev = .sqrt c.variance := rfl
theorem stderr_def (c : VarCell) : c.stdErr = .sqrt (c.variance / c.total) := rfl
theorem moe_def (c : VarCell) : c.moe = .scale (1959964 / 1000000) c.stdErr := rfl

/-- with respondent-level primitives the model's std-dev / std-err / MoE terms are the specified ones -/
theorem stats_eq_spec (d : SliceDesign) (s : Survey) (dir : Dir) (R C : Side) (rcd ccd : Bool)
    (hR : R.OK d.rowV) (hC : C.OK d.colV) (hdR : R.Disj) (hdC : C.Disj) (hw : WeightsNonneg s)
    (hcdR : rcd = true → d.rowV.kind = .cat) (hcdC : ccd = true → d.colV.kind = .cat)
    (hu : propUndefined dir R C rcd ccd = false) :
    let c := VarCell.ofSurvey d s dir R C rcd ccd
    let v := varianceSpec d s dir R C rcd ccd
    c.stdDev = stdDevSpec v ∧ c.stdErr = stdErrSpec v (baseSpec d s dir R C)
      ∧ c.moe = moeSpec (stdErrSpec v (baseSpec d s dir R C)) := by
  intro c v
  have hv : c.variance = v := variance_eq_spec d s dir R C rcd ccd hR hC hdR hdC hw hcdR hcdC
  have ht : c.total = .fin (baseSpec d s dir R C) := total_of_defined d s dir R C rcd ccd hu
  refine ⟨?_, ?_, ?_⟩
  · simp only [VarCell.stdDev, stdDevSpec, hv]
  · simp only [VarCell.stdErr, stdErrSpec, hv, ht]
  · simp only [VarCell.moe, moeOf, moeSpec, VarCell.stdErr, stdErrSpec, hv, ht, Z975]

/-- the variance, and the radicand of the standard error, are finite non-negative numbers where
    defined: numpy's sqrt never sees a negative number -/
theorem radicands_nonneg (d : SliceDesign) (s : Survey) (dir : Dir) (R C : Side) (rcd ccd : Bool)
    (hR : R.OK d.rowV) (hC : C.OK d.colV) (hdR : R.Disj) (hdC : C.Disj) (hw : WeightsNonneg s)
    (hcdR : rcd = true → d.rowV.kind = .cat) (hcdC : ccd = true → d.colV.kind = .cat)
    (hu : propUndefined dir R C rcd ccd = false) (hb : wsum s (d.inBase dir R C) ≠ 0) :
    let c := VarCell.ofSurvey d s dir R C rcd ccd
    c.variance.IsNonnegFin ∧ (c.variance / c.total).IsNonnegFin := by
  intro c
  have hv := variance_is_indicator_variance d s dir R C rcd ccd hR hC hdR hdC hw hcdR hcdC hu hb
  have ht : c.total = .fin (wsum s (d.inBase dir R C)) := total_of_defined d s dir R C rcd ccd hu
  have hq := wvariance_nonneg s (d.inBase dir R C) (indicatorOf (d.isPos R C) (d.isNeg R C)) hw
  refine ⟨⟨_, hv, hq⟩, ?_⟩
  refine ⟨wvariance s (d.inBase dir R C) (indicatorOf (d.isPos R C) (d.isNeg R C)) / wsum s (d.inBase dir R C),
    ?_, div_nonneg hq (wsum_nonneg s (d.inBase dir R C) hw)⟩
  show (VarCell.ofSurvey d s dir R C rcd ccd).variance / c.total = _
  rw [hv, ht, Val.div_fin_ne _ _ hb]

/-- non-negativity of ⟦std dev⟧, ⟦std err⟧, ⟦MoE⟧ -/
theorem nonneg (Φ : ℝ → ℝ) (c : VarCell) :
    0 ≤ c.stdDev.toReal Φ ∧ 0 ≤ c.stdErr.toReal Φ ∧ 0 ≤ c.moe.toReal Φ := by
  refine ⟨Real.sqrt_nonneg _, Real.sqrt_nonneg _, ?_⟩
  show 0 ≤ ((Z975 : ℚ) : ℝ) * Real.sqrt _
  apply mul_nonneg _ (Real.sqrt_nonneg _)
  have : (0 : ℚ) ≤ Z975 := by decide +kernel
  exact_mod_cast this

/-- ⟦std dev⟧² is the variance, ⟦std err⟧² is variance / base (where defined) -/
theorem stddev_sq (Φ : ℝ → ℝ) (c : VarCell) (q : Rat) (h : c.variance = .fin q) (hq : 0 ≤ q) :
    (c.stdDev.toReal Φ) ^ 2 = (q : ℝ) := by
  simp only [VarCell.stdDev, Out.toReal, h, Val.toReal]
  exact Real.sq_sqrt (by exact_mod_cast hq)

/-! ### strand twins -/

theorem strand_variance_eq_spec (v : Var) (s : Survey) (S : Side) (cd : Bool)
    (hS : S.OK v) (hdS : S.Disj) (hw : WeightsNonneg s) (hcd : cd = true → v.kind = .cat)
    (hbase : S.inserted = false → S.sub = []) :
    (StrandCell.ofSurvey v s S cd).variance = strandVarianceSpec v s S cd := by
  have hPB : ∀ r ∈ s, strandPos v S r = true → strandBase v S r = true :=
    fun r _ h => S.add_eligible v hS _ h
  have hNB : ∀ r ∈ s, strandNeg v S r = true → strandBase v S r = true :=
    fun r _ h => S.sub_eligible v hS _ h
  have hd : ∀ r ∈ s, ¬ (strandPos v S r = true ∧ strandNeg v S r = true) :=
    fun r _ => S.inAny_disj v hS hdS _
  -- the proportion is the plain quotient unless undefined
  have hprop : strandUndefined S cd = false → wsum s (strandBase v S) ≠ 0 →
      (StrandCell.ofSurvey v s S cd).proportion
        = (Val.fin (wsum s (strandPos v S)) - Val.fin (wsum s (strandNeg v S)))
            / Val.fin (wsum s (strandBase v S)) := by
    intro hu hb
    unfold StrandCell.proportion
    by_cases hwv : (S.inserted && cd && decide (S.sub.length > 0) && decide (S.add.length > 0)) = true
    · have hwv' := hwv
      simp only [Bool.and_eq_true, decide_eq_true_eq] at hwv'
      obtain ⟨⟨⟨hi, hc⟩, hs⟩, ha⟩ := hwv'
      have hm : waveMulti S.add.length S.sub.length = false := by
        by_contra hm
        have : strandUndefined S cd = true :=
          (strandUndefined_iff S cd).mpr ⟨hi, hc, hs, ha, by simpa using hm⟩
        rw [hu] at this; exact absurd this (by decide)
      have h11 : S.add.length = 1 ∧ S.sub.length = 1 := by
        simp only [waveMulti, hs, decide_true, Bool.true_and, Bool.or_eq_false_iff,
          decide_eq_false_iff_not, not_lt] at hm
        omega
      obtain ⟨a, b, rfl⟩ := S.eq_of_one_one h11.1 h11.2 hi
      subst hc
      have h11' : (StrandCell.ofSurvey v s ⟨[a], [b], true⟩ true).proportion
          = (StrandCell.ofSurvey v s ⟨[a], [b], true⟩ true).cA / (StrandCell.ofSurvey v s ⟨[a], [b], true⟩ true).bA
            - (StrandCell.ofSurvey v s ⟨[a], [b], true⟩ true).cS / (StrandCell.ofSurvey v s ⟨[a], [b], true⟩ true).bS := by
        simp [StrandCell.proportion, StrandCell.ofSurvey, waveMulti]
      unfold StrandCell.proportion at h11'
      rw [h11']
      exact strand_wave_eq v s a b (hcd rfl) hb
    · show (if (S.inserted && cd && decide (S.sub.length > 0) && decide (S.add.length > 0)) = true then _ else _) = _
      rw [if_neg hwv]
      rfl
  unfold strandVarianceSpec
  by_cases hu : strandUndefined S cd = true
  · rw [if_pos hu]
    obtain ⟨hi, hc, hs, ha, hm⟩ := (strandUndefined_iff S cd).mp hu
    have : (StrandCell.ofSurvey v s S cd).proportion = .nan := by
      unfold StrandCell.proportion
      show (if (S.inserted && cd && decide (S.sub.length > 0) && decide (S.add.length > 0)) = true then
        (if waveMulti S.add.length S.sub.length = true then _ else _) else _) = _
      rw [if_pos (by simp [hi, hc, hs, ha]), if_pos hm]
    unfold StrandCell.variance
    show (if S.inserted = true then _ else _) = _
    rw [if_pos hi, this]
    exact calcVar_nan_p _ _ _ _
  · have hu' : strandUndefined S cd = false := by simpa using hu
    rw [if_neg hu]
    unfold indicatorVariance
    by_cases hb : wsum s (strandBase v S) = 0
    · rw [if_pos hb]
      have hp0 := wsum_zero_of_subset s _ _ hw hPB hb
      unfold StrandCell.variance
      show (if S.inserted = true then _ else _) = _
      by_cases hi : S.inserted = true
      · rw [if_pos hi]
        apply calcVar_nan_of_np_div
        show Val.fin (wsum s (strandPos v S)) / Val.fin (wsum s (strandBase v S)) = _
        rw [hp0, hb]; decide
      · rw [if_neg hi]
        have hi' : S.inserted = false := by simpa using hi
        have : (StrandCell.ofSurvey v s S cd).proportion = .nan := by
          unfold StrandCell.proportion
          show (if (S.inserted && cd && decide (S.sub.length > 0) && decide (S.add.length > 0)) = true then _ else _) = _
          rw [if_neg (by simp [hi'])]
          show (Val.fin (wsum s (strandPos v S)) - Val.fin (wsum s (strandNeg v S))) / Val.fin (wsum s (strandBase v S)) = _
          rw [hp0, hb, wsum_zero_of_subset s _ _ hw hNB hb]; decide +kernel
        rw [this]; rfl
    · rw [if_neg hb]
      have key := wvariance_indicator s (strandBase v S) (strandPos v S) (strandNeg v S) hd hb
      simp only at key
      rw [key, wsum_and_of_subset s _ _ hPB, wsum_and_of_subset s _ _ hNB]
      unfold StrandCell.variance
      show (if S.inserted = true then _ else _) = _
      rw [hprop hu' hb]
      by_cases hi : S.inserted = true
      · rw [if_pos hi]
        show varianceOf _ (Val.fin (wsum s (strandBase v S))) (Val.fin (wsum s (strandPos v S)))
          (Val.fin (wsum s (strandNeg v S))) = _
        unfold varianceOf
        rw [Val.sub_fin, Val.div_fin_ne _ _ hb, countIgnored_fin, calcVar_fin _ _ _ _ _ hb]
        congr 1
        ring
      · rw [if_neg hi]
        have hi' : S.inserted = false := by simpa using hi
        have hN0 : wsum s (strandNeg v S) = 0 := by
          rw [← wsum_false s]
          apply wsum_congr
          intro r _
          simp [strandNeg, hbase hi', Var.inAny]
        rw [hN0, Val.sub_fin, Val.div_fin_ne _ _ hb, Val.sub_fin, Val.mul_fin]
        congr 1
        field_simp
        ring

end CrCube.C11

namespace CrCube.C11
open CrCube

theorem z975_value : Z975 = 1959964 / 1000000 := rfl

theorem strand_stats_def (c : StrandCell) :
    c.stdDev = .sqrt c.variance ∧ c.stdErr = .sqrt (c.variance / c.base)
      ∧ c.moe = .scale (1959964 / 1000000) c.stdErr := ⟨rfl, rfl, rfl⟩

/-- strand, ordinary row: p(1 − p) by definition of the model; with `strand_variance_eq_spec` this
    IS the indicator variance -/
theorem strand_variance_ordinary (c : StrandCell) (h : c.S.inserted = false) :
    c.variance = c.proportion * (.fin 1 - c.proportion) := by
  simp [StrandCell.variance, h]

/-! ### non-vacuity -/

namespace Witness
def Rv : Var := ⟨.cat, 3, [false, false, false], false⟩
def Cv : Var := ⟨.cat, 2, [false, false], false⟩
def d : SliceDesign := ⟨none, Rv, Cv⟩
def s : Survey := [⟨1, [[0], [0]]⟩, ⟨2, [[1], [0]]⟩, ⟨1, [[2], [1]]⟩, ⟨1 / 2, [[1], [1]]⟩]
/-- difference row: category 0 minus category 1 -/
def Rdiff : Side := ⟨[0], [1], true⟩
end Witness

open Witness in
example : Rdiff.OK d.rowV ∧ Rdiff.Disj ∧ (Side.base 0).OK d.colV ∧ WeightsNonneg s
    ∧ propUndefined .col Rdiff (.base 0) false false = false
    ∧ wsum s (d.inBase .col Rdiff (.base 0)) ≠ 0 := by
  refine ⟨Or.inl rfl, by decide, Side.base_OK 0 _, ?_, by decide, by decide +kernel⟩
  intro r hr
  simp only [s, List.mem_cons, List.mem_nil_iff, or_false] at hr
  rcases hr with rfl | rfl | rfl | rfl <;> decide +kernel

-- column 0: weights 1 (row 0, +1) and 2 (row 1, −1): p = −1/3, variance = 8/9
open Witness in
example : (VarCell.ofSurvey d s .col Rdiff (.base 0) false false).variance = .fin (8 / 9)
    ∧ varianceSpec d s .col Rdiff (.base 0) false false = .fin (8 / 9) := by decide +kernel

-- the own-direction proportion of the difference row is undefined: NaN
open Witness in
example : (VarCell.ofSurvey d s .row Rdiff (.base 0) false false).variance = .nan := by decide +kernel

-- a categorical-date multi-term difference is NaN in the column direction, defined in the table direction
open Witness in
example : (VarCell.ofSurvey d s .col ⟨[0, 2], [1], true⟩ (.base 0) true false).variance = .nan
    ∧ (VarCell.ofSurvey d s .table ⟨[0, 2], [1], true⟩ (.base 0) true false).variance ≠ .nan := by
  decide +kernel

end CrCube.C11
