/-
  C03 — Proportions are count over base, bounded, and sum to one.
  Property theorems only.
-/
import CrCube.Lemmas.SpecFacts
import CrCube.Lemmas.ValFacts
import CrCube.Model.SliceApi
import CrCube.Props.C01
import CrCube.Props.C02
import CrCube.Lemmas.Swap

set_option linter.unusedSimpArgs false

namespace CrCube.C03
open CrCube

/-- the three directions of a proportion -/
inductive Dir where | row | col | table
  deriving DecidableEq

def Dir.modes : Dir → List Bool
  | .row => [false, true]
  | .col => [true, false]
  | .table => [true, true]

def prop (d : Dir) (m : MatCounts) : Nat → Nat → Val :=
  match d with
  | .row => m.rowProportions
  | .col => m.columnProportions
  | .table => m.tableProportions

/-- respondent-level count and base of a cell -/
def cnt (R C : Var) (s : Survey) (i j : Nat) : Rat := specCount [R, C] s [i, j] [false, false]
def base (d : Dir) (R C : Var) (s : Survey) (i j : Nat) : Rat := specCount [R, C] s [i, j] d.modes

/-- **Proportion = count / base**, NaN exactly where the base is zero, else a rational in [0, 1]
    (all three directions; weights non-negative). -/
theorem prop_spec (d : Dir) (R C : Var) (hR : R.CM) (hC : C.CM) (s : Survey)
    (hw : WeightsNonneg s) (i j : Nat) (hi : i < R.ext) (hj : j < C.ext) :
    prop d (sliceCounts [R, C] (cubeOf [R, C] s) 0) i j
      = if base d R C s i j = 0 then .nan else .fin (cnt R C s i j / base d R C s i j) := by
  have h0 : 0 ≤ cnt R C s i j := specCount_nonneg _ s hw _ _
  cases d
  · simp only [prop, MatCounts.rowProportions, C01.counts_faithful_2d R C hR hC s i j hi hj,
      C02.rowBase_spec_2d R C hR hC s i j hi hj]
    exact Val.div_count_base _ _ h0 (specCount_le_rowBase R C hR hC s hw i j)
  · simp only [prop, MatCounts.columnProportions, C01.counts_faithful_2d R C hR hC s i j hi hj,
      C02.colBase_spec_2d R C hR hC s i j hi hj]
    exact Val.div_count_base _ _ h0 (specCount_le_colBase R C hR hC s hw i j)
  · simp only [prop, MatCounts.tableProportions, C01.counts_faithful_2d R C hR hC s i j hi hj,
      C02.tableBase_spec_2d R C hR hC s i j hi hj]
    exact Val.div_count_base _ _ h0 (specCount_le_tableBase R C hR hC s hw i j)

theorem cnt_le_base (d : Dir) (R C : Var) (hR : R.CM) (hC : C.CM) (s : Survey)
    (hw : WeightsNonneg s) (i j : Nat) : cnt R C s i j ≤ base d R C s i j := by
  cases d
  · exact specCount_le_rowBase R C hR hC s hw i j
  · exact specCount_le_colBase R C hR hC s hw i j
  · exact specCount_le_tableBase R C hR hC s hw i j

/-- proportions lie in [0, 1] or are NaN -/
theorem prop_range (d : Dir) (R C : Var) (hR : R.CM) (hC : C.CM) (s : Survey)
    (hw : WeightsNonneg s) (i j : Nat) (hi : i < R.ext) (hj : j < C.ext) :
    prop d (sliceCounts [R, C] (cubeOf [R, C] s) 0) i j = .nan ∨
    ∃ q : Rat, prop d (sliceCounts [R, C] (cubeOf [R, C] s) 0) i j = .fin q ∧ 0 ≤ q ∧ q ≤ 1 := by
  rw [prop_spec d R C hR hC s hw i j hi hj]
  by_cases hb : base d R C s i j = 0
  · left; simp [hb]
  · right
    refine ⟨cnt R C s i j / base d R C s i j, by simp [hb], ?_⟩
    exact Rat.div_mem_unit _ _ (specCount_nonneg _ s hw _ _) (cnt_le_base d R C hR hC s hw i j) hb

/-- NaN exactly where the base is zero -/
theorem prop_nan_iff (d : Dir) (R C : Var) (hR : R.CM) (hC : C.CM) (s : Survey)
    (hw : WeightsNonneg s) (i j : Nat) (hi : i < R.ext) (hj : j < C.ext) :
    prop d (sliceCounts [R, C] (cubeOf [R, C] s) 0) i j = .nan ↔ base d R C s i j = 0 := by
  rw [prop_spec d R C hR hC s hw i j hi hj]
  by_cases hb : base d R C s i j = 0 <;> simp [hb]

/-- percentages are exactly 100 × proportions -/
theorem pct_def (f : Nat → Nat → Val) (i j : Nat) : MatCounts.pct f i j = f i j * .fin 100 := rfl

/-- Along a categorical columns dimension the row proportions of ALL base elements sum to 1
    whenever the row base is positive. -/
theorem row_props_sum_one (R C : Var) (hR : R.CM) (hC : C.kind = .cat) (s : Survey)
    (hw : WeightsNonneg s) (i : Nat) (hi : i < R.ext)
    (hb : base .row R C s i 0 ≠ 0) :
    vsum C.ext (fun j => prop .row (sliceCounts [R, C] (cubeOf [R, C] s) 0) i j) = .fin 1 := by
  have hCM : C.CM := Or.inl hC
  -- the row base does not depend on the column for a categorical columns dimension
  have hbase : ∀ j, base .row R C s i j = base .row R C s i 0 := by
    intro j
    unfold base Dir.modes
    rw [← row_counts_sum_to_base R C hR hC s i j, ← row_counts_sum_to_base R C hR hC s i 0]
  have step : ∀ j, j < C.ext →
      prop .row (sliceCounts [R, C] (cubeOf [R, C] s) 0) i j
        = .fin (cnt R C s i j / base .row R C s i 0) := by
    intro j hj
    rw [prop_spec .row R C hR hCM s hw i j hi hj, hbase j]
    simp [hb]
  rw [vsum_congr _ _ _ step, vsum_fin]
  congr 1
  have hsum := row_counts_sum_to_base R C hR hC s i 0
  have : ((List.range C.ext).map fun j => cnt R C s i j / base .row R C s i 0).sum
      = ((List.range C.ext).map fun j => cnt R C s i j).sum / base .row R C s i 0 := by
    generalize List.range C.ext = L
    induction L with
    | nil => simp
    | cons x L ih => simp only [List.map_cons, List.sum_cons, ih]; ring
  rw [this]
  unfold cnt base Dir.modes at *
  rw [hsum]
  exact div_self hb

/-- Along a categorical rows dimension the column proportions of ALL base elements sum to 1
    whenever the column base is positive. -/
theorem col_props_sum_one (R C : Var) (hR : R.kind = .cat) (hC : C.CM) (s : Survey)
    (hw : WeightsNonneg s) (j : Nat) (hj : j < C.ext)
    (hb : base .col R C s 0 j ≠ 0) :
    vsum R.ext (fun i => prop .col (sliceCounts [R, C] (cubeOf [R, C] s) 0) i j) = .fin 1 := by
  have hRM : R.CM := Or.inl hR
  have hbase : ∀ i, base .col R C s i j = base .col R C s 0 j := by
    intro i
    unfold base Dir.modes
    rw [← col_counts_sum_to_base R C hR hC s j i, ← col_counts_sum_to_base R C hR hC s j 0]
  have step : ∀ i, i < R.ext →
      prop .col (sliceCounts [R, C] (cubeOf [R, C] s) 0) i j
        = .fin (cnt R C s i j / base .col R C s 0 j) := by
    intro i hi
    rw [prop_spec .col R C hRM hC s hw i j hi hj, hbase i]
    simp [hb]
  rw [vsum_congr _ _ _ step, vsum_fin]
  congr 1
  have hsum := col_counts_sum_to_base R C hR hC s j 0
  have : ((List.range R.ext).map fun i => cnt R C s i j / base .col R C s 0 j).sum
      = ((List.range R.ext).map fun i => cnt R C s i j).sum / base .col R C s 0 j := by
    generalize List.range R.ext = L
    induction L with
    | nil => simp
    | cons x L ih => simp only [List.map_cons, List.sum_cons, ih]; ring
  rw [this]
  unfold cnt base Dir.modes at *
  rw [hsum]
  exact div_self hb

/-- margin proportions: with categorical columns the rows margin proportion is the row's total
    count over the row's table base; across an array (MR / CA) columns dimension it falls back to
    the per-cell row base over the per-cell table base -/
theorem rowsMarginProportion_def (ck : DK) (m : MatCounts) :
    m.rowsMarginProportion ck =
      if ck = .cat then
        (match m.rowsTableBase with
          | some tb => .vec (tab1 m.nrows (fun i => vsum m.ncols (fun j => m.counts i j) / tb i))
          | none => .vec [])
      else .mat (m.mat (fun i j => m.rowBases i j / m.tableBases i j)) := rfl

theorem columnsMarginProportion_def (rk : DK) (m : MatCounts) :
    m.columnsMarginProportion rk =
      if rk = .cat then
        (match m.columnsTableBase with
          | some tb => .vec (tab1 m.ncols (fun j => vsum m.nrows (fun i => m.counts i j) / tb j))
          | none => .vec [])
      else .mat (m.mat (fun i j => m.columnBases i j / m.tableBases i j)) := rfl

/-- every extractor class with categorical columns does define the rows table base (so the
    `none` branch above is unreachable), and symmetrically -/
theorem rowsTableBase_defined (rk : DK) (c : FT) : (MatCounts.factory rk .cat c).rowsTableBase.isSome = true := by
  cases rk <;> rfl

theorem columnsTableBase_defined (ck : DK) (c : FT) : (MatCounts.factory .cat ck c).columnsTableBase.isSome = true := by
  cases ck <;> rfl

end CrCube.C03
