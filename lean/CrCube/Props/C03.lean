import CrCube.Model.SliceApi
import CrCube.Spec.SliceSpec
namespace CrCube.C03
end CrCube.C03
