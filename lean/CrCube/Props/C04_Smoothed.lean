/-
  C04 on the smoothed column proportions: an inserted row that the un-smoothed column proportions show as
  NaN in every cell (a categorical-date difference with several terms on either side) is NaN in every cell
  of `_ColumnProportionsSmoothed.blocks` too, whatever the smoother (applied or guarded out).
-/
import CrCube.Props.C04
import CrCube.Props.C20
import CrCube.Model.SubtotalsSmoothed
import CrCube.Spec.SubtotalSmoothedSpec

namespace CrCube.C04
open CrCube CrCube.Smoothing CrCube.SmoothingSpec CrCube.C20

/-- every entry is NaN -/
def AllNan (l : List Val) : Prop := ∀ x ∈ l, x = Val.nan

theorem nan_add (x : Val) : Val.nan + x = Val.nan := by cases x <;> rfl

theorem foldl_add_nan (l : List Val) : l.foldl (· + ·) Val.nan = Val.nan := by
  induction l with
  | nil => rfl
  | cons x xs ih => simp only [List.foldl, nan_add]; exact ih

theorem sum_replicate_nan (n : Nat) : Val.sum (List.replicate (n + 1) Val.nan) = Val.nan := by
  have h0 : (Val.fin 0 : Val) + Val.nan = Val.nan := rfl
  simp only [Val.sum, List.replicate_succ, List.foldl, h0]
  exact foldl_add_nan _

theorem nan_div (x : Val) : Val.nan / x = Val.nan := by cases x <;> rfl

theorem getD_allNan (v : List Val) (h : AllNan v) (i : Nat) : v.getD i Val.nan = Val.nan := by
  by_cases hi : i < v.length
  · have : v.getD i Val.nan = v[i] := by simp [List.getD, hi]
    rw [this]; exact h _ (List.getElem_mem hi)
  · simp [List.getD, List.getElem?_eq_none (by omega : v.length ≤ i)]

theorem windowMean_allNan (w : Nat) (hw : 1 ≤ w) (v : List Val) (h : AllNan v) (t : Nat) :
    windowMean w v t = Val.nan := by
  unfold windowMean
  have : (List.range w).map (fun j => v.getD (t + 1 - w + j) Val.nan) = List.replicate w Val.nan := by
    apply List.ext_getElem
    · simp
    · intro i h1 h2
      have := getD_allNan v h (t + 1 - w + i)
      simpa [List.getD] using this
  rw [this]
  obtain ⟨n, rfl⟩ : ∃ n, w = n + 1 := ⟨w - 1, by omega⟩
  rw [sum_replicate_nan, nan_div]

/-- the smoothed series of an all-NaN series is all NaN (smoothing applied or not) -/
theorem smoothed_allNan (cd : Bool) (w : Int) (v : List Val) (h : AllNan v) : AllNan (smoothed cd w v) := by
  unfold smoothed
  by_cases ha : applies cd w v.length = true
  · have hh := ha
    simp only [applies, Bool.and_eq_true, decide_eq_true_eq] at hh
    have hw : 1 ≤ w.toNat := by omega
    simp only [ha, if_true]
    intro x hx
    simp only [smoothSeries, List.mem_map, List.mem_range] at hx
    obtain ⟨t, _, rfl⟩ := hx
    unfold smoothedAt
    split
    · rfl
    · exact windowMean_allNan _ hw v h t
  · simp only [ha]; exact h

theorem smoothed_length (cd : Bool) (w : Int) (v : List Val) : (smoothed cd w v).length = v.length := by
  unfold smoothed
  split <;> simp [smoothSeries]

/-- **smoothed_multi_term_row_nan** (any 2-D block): a row that is NaN in every cell before smoothing is NaN in
    every cell after `smoother.smooth` (window applied, too wide, too narrow, non-date: all cases). -/
theorem smoothed_multi_term_row_nan (s : Smoother) (m : List (List Val)) (hr : Rect m) (k : Nat)
    (h : AllNan (m.getD k [])) : AllNan ((s.smooth2 m).getD k []) := by
  rw [smooth2_eq_spec s m hr]
  unfold smoothedRows
  by_cases hk : k < m.length
  · have e1 : (m.map (smoothed s.isCatDate s.window)).getD k [] = smoothed s.isCatDate s.window m[k] := by
      simp [List.getD, hk]
    have e2 : m.getD k [] = m[k] := by simp [List.getD, hk]
    rw [e1]; rw [e2] at h
    exact smoothed_allNan _ _ _ h
  · have : (m.map (smoothed s.isCatDate s.window)).getD k [] = [] := by
      simp [List.getD, List.getElem?_eq_none (by simp; omega : (m.map (smoothed s.isCatDate s.window)).length ≤ k)]
    rw [this]; intro x hx; cases hx

theorem rect_tab2 (n c : Nat) (f : Nat → Nat → Val) : Rect (tab2 n c f) := by
  intro r hrm
  cases n with
  | zero => simp [tab2] at hrm
  | succ n' =>
    have hl : lastDim (tab2 (n' + 1) c f) = c := by
      simp [tab2, lastDim, List.range_succ_eq_map]
    rw [hl]
    simp only [tab2, List.mem_map, List.mem_range] at hrm
    obtain ⟨i, _, rfl⟩ := hrm
    simp

/-- **smoothed_multi_term_row_nan_model**: in `_ColumnProportionsSmoothed.blocks` the inserted row of a
    categorical-date difference with several terms on either side is NaN in EVERY cell (as many cells as there are
    base columns) — for every smoother setting, data set and insertion list. -/
theorem smoothed_multi_term_row_nan_model (s : Smoother) (m : MatCounts) (dn : Bool) (x : SubCtx) (k : Nat)
    (hk : k < x.rowSubs.length) (hcd : x.rowsCatDate = true)
    (hd : (subAt x.rowSubs k).isDiff = true)
    (hm : (subAt x.rowSubs k).subtrahendIdxs.length > 1 ∨ (subAt x.rowSubs k).addendIdxs.length > 1) :
    (Msr.smoothedColumnProportions s m dn x).subRows.getD k [] = List.replicate m.ncols Val.nan := by
  have hnrs : (Msr.columnProportions m dn x).nrs = x.rowSubs.length := rfl
  have hnc : (Msr.columnProportions m dn x).nc = m.ncols := rfl
  have hrow : (Msr.columnProportions m dn x).insRowsL.getD k [] = List.replicate m.ncols Val.nan := by
    unfold Blocks.insRowsL tab2
    rw [hnrs, hnc]
    have : ((List.range x.rowSubs.length).map
        (fun i => (List.range m.ncols).map ((Msr.columnProportions m dn x).insRows i))).getD k []
        = (List.range m.ncols).map ((Msr.columnProportions m dn x).insRows k) := by
      simp [List.getD, hk]
    rw [this]
    apply List.ext_getElem
    · simp
    · intro j h1 h2
      simp [(wave_diff_multi_rows m dn x k j hcd hd hm).2]
  have hall : AllNan ((Msr.columnProportions m dn x).insRowsL.getD k []) := by
    rw [hrow]; intro y hy; exact (List.mem_replicate.mp hy).2
  have hr : Rect (Msr.columnProportions m dn x).insRowsL := rect_tab2 _ _ _
  have hres := smoothed_multi_term_row_nan s _ hr k hall
  have hlen : ((s.smooth2 (Msr.columnProportions m dn x).insRowsL).getD k []).length = m.ncols := by
    rw [smooth2_eq_spec s _ hr]
    unfold smoothedRows
    have hk' : k < (Msr.columnProportions m dn x).insRowsL.length := by
      simp [Blocks.insRowsL, tab2, hnrs, hk]
    have e1 : ((Msr.columnProportions m dn x).insRowsL.map (smoothed s.isCatDate s.window)).getD k []
        = smoothed s.isCatDate s.window ((Msr.columnProportions m dn x).insRowsL)[k] := by
      simp [List.getD, hk']
    have e2 : (Msr.columnProportions m dn x).insRowsL.getD k [] = ((Msr.columnProportions m dn x).insRowsL)[k] := by
      simp [List.getD, hk']
    rw [e1, smoothed_length, ← e2, hrow]
    simp
  show (s.smooth2 (Msr.columnProportions m dn x).insRowsL).getD k [] = _
  exact List.eq_replicate_iff.mpr ⟨hlen, hres⟩

/-- the rule the statement applies to an inserted row, decided outright: NaN is demanded exactly for a
    categorical-date difference (an existing subtrahend) with several existing terms on either side -/
theorem smoothed_rule_total (rcd : Bool) (pos neg : List Nat) :
    SubSmoothSpec.ruleOf rcd pos neg = .allNan
      ↔ (rcd = true ∧ neg ≠ [] ∧ (pos.length > 1 ∨ neg.length > 1)) := by
  unfold SubSmoothSpec.ruleOf
  cases rcd <;> rcases pos with _ | ⟨b, _ | ⟨c, ps⟩⟩ <;> rcases neg with _ | ⟨a, _ | ⟨a', ns⟩⟩ <;> simp

/-- non-vacuity: (1+2)-3 on a categorical-date dimension is such a row; 4-3 and 1+2 are not -/
example : SubSmoothSpec.ruleOf true [0, 1] [2] = .allNan := by decide
example : SubSmoothSpec.ruleOf true [3] [2] = .waveDiff 3 2 := by decide
example : SubSmoothSpec.ruleOf true [0, 1] [] = .merged := by decide
example : SubSmoothSpec.ruleOf false [0, 1] [2] = .silent := by decide

end CrCube.C04
