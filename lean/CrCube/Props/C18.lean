/-
  C18 — results are a pure function of the arguments, whatever the access history.

  Model: `CrCube.Lazy` (caller-owned dicts + per-object lazy caches; reads run the in-place
  shims of `CrCube.Shim`; `prepare` = CubeSet's augment_response / inflate; `cubeResponse`).
  Spec:  `Lazy.fresh` (a fresh evaluation on pristine arguments), `LazySpec.Local`, `LazySpec.SideOk`.
  Proofs: `CrCube.Lemmas.C18Proofs` (namespace `C18L`).
-/
import CrCube.Model.Shim
import CrCube.Model.Lazy
import CrCube.Spec.ShimSpec
import CrCube.Spec.LazySpec
import CrCube.Lemmas.C18Proofs

namespace CrCube.C18
open CrCube.Shim CrCube.ShimSpec CrCube.Lazy CrCube.LazySpec

/-! ### the in-place edits are idempotent and invisible to the analysis -/

/-- `shim (shim x) = shim x`, dimension dicts -/
theorem shim_idempotent_dim (d : Dim) : shimDim (shimDim d) = shimDim d := C18L.shim_idempotent_dim d

/-- `shim (shim x) = shim x`, transforms dicts — the second pass runs over the ALREADY
    rewritten dimension dict and transforms dict (as it does for the second partition of a 3-D
    cube, or a second `Cube` on the same arguments).  Unconditional (since fix F7). -/
theorem shim_idempotent (d : Dim) (x : DimXf) : shimXf (shimDim d) (shimXf d x) = shimXf d x :=
  C18L.shim_idempotent d x

/-- `observe (shim x) = observe x`: resolution over the shimmed dimension dict is resolution
    over the pristine one, what the shim wrote back resolves to itself, and the whole view the
    analysis works from is the same whether it is handed pristine or already-shimmed dicts. -/
theorem observe_shim (d : Dim) (x : DimXf) :
    (∀ r, translate (shimDim d) r = translate d r) ∧
    (∀ r, translate d (back (translate d r)) = translate d r) ∧
    view (shimDim d) (shimXf d x) = view d x := C18L.observe_shim d x

/-- the whole caller-side effect of looking at a partition's dimensions is idempotent -/
theorem shimCaller_idem (c : Caller) : shimCaller (shimCaller c) = shimCaller c := C18L.shimCaller_idem c

/-- id lists on a DATETIME dimension are rewritten to a fixed point as well (`DtNoCollision`) -/
theorem shim_idempotent_datetime {d : DtDim} (hnc : DtNoCollision d) (l : List Ref) :
    shimDtIds d (shimDtIds d l) = shimDtIds d l := C18L.shim_idempotent_datetime hnc l

/-- … and `DtNoCollision` is needed: with digit-string values that name position ids the
    second pass lands on a DIFFERENT element -/
theorem shim_datetime_counterexample :
    let d : DtDim := { items := [ { id := 1, value := some "2" }, { id := 2, value := some "1" } ] }
    ¬ DtNoCollision d ∧ shimDtIds d [.int 1] = [.str "2"] ∧ shimDtIds d [.str "2"] = [.str "1"] :=
  C18L.shim_datetime_counterexample

/-! ### the state machine: every read returns the fresh value -/

/-- C18, the core: for ALL histories (any number of cubes built on the same argument objects,
    reads of any properties of any partitions in any order, any number of times; `None` values
    recomputed on every read), every read returns exactly what a fresh evaluation on pristine
    arguments returns — for every analysis function that only looks at the dimensions it declares. -/
theorem read_refines {V : Type} (eval : Nat → Nat → Caller → V) (needs : Nat → Bool × Bool)
    (isNone : V → Bool) (hloc : Local eval needs) (nparts : Nat) (pristine : Caller) (ops : List Op) :
    ∀ x ∈ ops.zip (run eval needs isNone nparts ops (init pristine)).1, ∀ v, x.2 = some v →
      ∃ c k p, x.1 = .read c k p ∧ v = fresh eval pristine p k :=
  C18L.read_refines eval needs isNone hloc nparts pristine ops

/-- … and the caller's dicts end up either untouched or exactly once-shimmed -/
theorem caller_orbit {V : Type} (eval : Nat → Nat → Caller → V) (needs : Nat → Bool × Bool)
    (isNone : V → Bool) (hloc : Local eval needs) (nparts : Nat) (pristine : Caller) (ops : List Op) :
    let st := (run eval needs isNone nparts ops (init pristine)).2
    SideOk pristine.rows st.caller.rows ∧ SideOk pristine.cols st.caller.cols :=
  C18L.caller_orbit eval needs isNone hloc nparts pristine ops

/-- "No read fails because another was made first": a read of an existing partition always
    yields a value, whatever the state -/
theorem read_total {V : Type} (eval : Nat → Nat → Caller → V) (needs : Nat → Bool × Bool)
    (isNone : V → Bool) (nparts : Nat) (st : St V) (c k p : Nat) (ps : List (Part V)) (part : Part V)
    (hc : st.cubes[c]? = some ps) (hk : ps[k]? = some part) :
    (step eval needs isNone nparts st (.read c k p)).1.isSome = true :=
  C18L.read_total eval needs isNone nparts st c k p ps part hc hk

/-! ### CubeSet, JSON forms -/

/-- like-for-like re-use of the SAME response objects by a second `CubeSet`: the in-place
    `augment_response` / `inflate` edits are not repeated (their guards are false afterwards),
    so the second set sees exactly what the first one saw. -/
theorem prepare_idempotent (sc : List Int) (rs : List Resp) : prepare sc (prepare sc rs) = prepare sc rs :=
  C18L.prepare_idempotent sc rs

/-- N5: re-use ACROSS kinds is not covered — a bare `Cube` over a response that a numeric
    `CubeSet` has inflated sees one more dimension than over the pristine response -/
theorem cross_kind_differs {r : Resp} (h : r.ndim = 0) : (inflate r).ndim ≠ r.ndim :=
  C18L.cross_kind_differs h

/-- `Cube(text)`, `Cube(dict)`, `Cube({"value": dict})` and the text of the envelope all see the
    same response, for any response that has no top-level "value" key of its own -/
theorem json_forms_agree (loads : String → J) (dumps : J → String) (hrt : ∀ j, loads (dumps j) = j)
    (r : J) (hr : r.get? "value" = none) :
    cubeResponse loads (.dict r) = r ∧
    cubeResponse loads (.text (dumps r)) = r ∧
    cubeResponse loads (.dict (.obj [("value", r)])) = r ∧
    cubeResponse loads (.text (dumps (.obj [("value", r)]))) = r :=
  C18L.json_forms_agree loads dumps hrt r hr

/-! ### the code before fix F7: the shim was NOT a fixed point -/

/-- F7 (code before the fix): whenever a null-free id list on an array dimension contains an
    unmatched id, the first shim succeeds, writes `None` into the caller's list, and the SECOND
    shim over that list raises — second partition of a 3-D cube, or a second cube on the same dict. -/
theorem unfixed_reshim_raises_counterexample (d : Dim) (l : List Ref) (hl : ∀ r ∈ l, r ≠ .null)
    (hu : ∃ r ∈ l, translate d r = none) :
    Unfixed.shimIds d l = .ok (shimIds d l) ∧ ∃ e, Unfixed.shimIds d (shimIds d l) = .raises e :=
  C18L.unfixed_reshim_raises_counterexample d l hl hu

/-! ### non-vacuity -/

def exDim : Dim :=
  { items := [ { eid := 8, alias := "v1_a", subvarId := "0018" },
               { eid := 6, alias := "v1_b", subvarId := "0016" },
               { eid := 4, alias := "v1_c", subvarId := "0014" } ] }

/-- the replayed F7 witness: `element_ids = ["v1_b", 999, 8]` -/
example : shimIds exDim [.str "v1_b", .int 999, .int 8] = [.str "v1_b", .null, .str "v1_a"] := by decide
example : ∃ r ∈ [Ref.str "v1_b", .int 999, .int 8], translate exDim r = none := ⟨.int 999, by simp, by decide⟩

def exCaller : Caller :=
  { rows := { dim := exDim, xf := { orderIds := some [.str "v1_b", .int 999, .int 8] }, isArray := true },
    cols := { dim := { items := [] }, xf := {}, isArray := false } }

/-- a `Local` evaluator exists: e.g. "explicit order of the rows dimension" -/
example : Local (fun _ _ c => explicitOrder c.rows.dim c.rows.xf) (fun _ => (true, false)) := by
  intro p k c c' hr _
  simp [hr rfl]

/-- the model's run of: new cube, read partition 1, read partition 0, new cube, read its partition 0 -/
example :
    (run (fun _ _ c => explicitOrder c.rows.dim c.rows.xf) (fun _ => (true, false)) (fun _ => false) 2
      [.newCube, .read 0 1 0, .read 0 0 0, .newCube, .read 1 0 0] (init exCaller)).1
    = [none, some [1, 0, 2], some [1, 0, 2], none, some [1, 0, 2]] := by decide

example : (J.obj [("result", .atom 1)]).get? "value" = none := by decide

end CrCube.C18
