import CrCube.Model.Slice
import CrCube.Spec.SliceSpec
namespace CrCube.C01
end CrCube.C01
