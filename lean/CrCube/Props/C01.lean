/-
  C01 — Cell values are faithful tabulations of the survey behind the response.
  Property theorems only.  `Var.CM` = categorical (any missing flags, anywhere in the payload)
  or multiple-response variable; `Var.ext` = number of valid elements / items.
-/
import CrCube.Lemmas.SpecFacts
import CrCube.Lemmas.Tensor
import CrCube.Props.C06
import CrCube.Lemmas.Slice1Var
import CrCube.Lemmas.FlatPayload

namespace CrCube.C01
open CrCube

/-- 2-D: the weighted count of cell (i, j) is the weighted number of respondents who belong to
    row element i AND column element j (selected the item, for multiple response). -/
theorem counts_faithful_2d (R C : Var) (hR : R.CM) (hC : C.CM) (s : Survey) (i j : Nat)
    (hi : i < R.ext) (hj : j < C.ext) :
    (sliceCounts [R, C] (cubeOf [R, C] s) 0).counts i j
      = .fin (specCount [R, C] s [i, j] [false, false]) := by
  rw [slice2d_counts R C hR hC]
  exact raw_counts R C hR hC s i j hi hj

/-- 3-D: partition k, cell (i, j): respondents in table element k AND row i AND column j. -/
theorem counts_faithful_3d (T R C : Var) (hT : T.CM) (hR : R.CM) (hC : C.CM) (s : Survey)
    (k i j : Nat) (hk : k < T.ext) (hi : i < R.ext) (hj : j < C.ext) :
    (sliceCounts [T, R, C] (cubeOf [T, R, C] s) k).counts i j
      = .fin (specCount [T, R, C] s [k, i, j] [false, false, false]) := by
  rw [C06.partition_restricts T R C hT hR hC s k hk, counts_faithful_2d R C hR hC _ i j hi hj,
    C06.restrict_specCount T R C hT hR hC]

/-- unweighted counts: the same statements for the survey with all weights 1 count respondents -/
theorem ucounts_faithful_2d (R C : Var) (hR : R.CM) (hC : C.CM) (s : Survey) (i j : Nat)
    (hi : i < R.ext) (hj : j < C.ext) :
    (sliceCounts [R, C] (cubeOf [R, C] (unweight s)) 0).counts i j
      = .fin (((s.filter fun r => specMemAll [R, C] r.ans [i, j] [false, false]).length : Nat) : Rat) := by
  rw [counts_faithful_2d R C hR hC _ i j hi hj, specCount_unweight]

theorem ucounts_faithful_3d (T R C : Var) (hT : T.CM) (hR : R.CM) (hC : C.CM) (s : Survey)
    (k i j : Nat) (hk : k < T.ext) (hi : i < R.ext) (hj : j < C.ext) :
    (sliceCounts [T, R, C] (cubeOf [T, R, C] (unweight s)) k).counts i j
      = .fin (((s.filter fun r =>
          specMemAll [T, R, C] r.ans [k, i, j] [false, false, false]).length : Nat) : Rat) := by
  rw [counts_faithful_3d T R C hT hR hC _ k i j hk hi hj, specCount_unweight]

/-- The extent of the partition is the number of VALID elements: missing categories never appear. -/
theorem extent_is_valid_elements (R C : Var) (hR : R.CM) (hC : C.CM) (raw : FT) :
    (sliceCounts [R, C] raw 0).nrows = R.ext ∧ (sliceCounts [R, C] raw 0).ncols = C.ext :=
  ⟨slice2d_nrows R C hR hC raw, slice2d_ncols R C hR hC raw⟩

/-- Categories flagged missing never contribute: a respondent whose answer on the (categorical)
    rows variable is a missing category changes no cell and no base, wherever that category
    sits in the payload. -/
theorem missing_never_contributes (R C : Var) (hR : R.kind = .cat) (hC : C.CM) (s : Survey)
    (r : Resp) (c : Nat) (aC : List Nat) (hr : r.ans = [[c], aC])
    (hmiss : (validIdxs R.catMissing).contains c = false) (i j : Nat) (m1 m2 : Bool) :
    specCount [R, C] (r :: s) [i, j] [m1, m2] = specCount [R, C] s [i, j] [m1, m2] := by
  have hRM : R.CM := Or.inl hR
  rw [specCount_two R C hRM hC, specCount_two R C hRM hC, wsum_cons]
  have : R.specMem [c] [i] [m1] = false := by
    simp only [Var.specMem, hR, Var.isValidPos, hmiss, Var.vpos]
    cases m1
    · simp only [Bool.false_eq_true, if_false, beq_eq_false_iff_ne, ne_eq]
      intro h
      have := List.mem_of_getElem? h
      rw [← List.contains_iff_mem] at this
      rw [this] at hmiss
      exact absurd hmiss (by simp)
    · simp
  simp [hr, this]

/-- Numeric measures (mean, sum, std-dev, median, valid counts) report exactly the value the
    response carries for the cell: for ANY raw measure array the extractor reads the raw cell
    at (valid position of row i [, selected plane]) × (valid position of column j [, selected]). -/
theorem numeric_reports_payload (R C : Var) (hR : R.CM) (hC : C.CM) (raw : FT) (i j : Nat) :
    (sliceCounts [R, C] raw 0).counts i j = raw.get (R.msub i ++ C.msub j) :=
  slice2d_counts R C hR hC raw i j

/-- The library receives the cube as a FLAT row-major list; reshaping it (numpy C order) and
    indexing recovers the cell the back end tabulated. -/
theorem flat_payload_reshape (vars : List Var) (s : Survey) (ix : List Nat)
    (h : InRange (rawShapeOf vars) ix) :
    (FT.ofFlat (rawShapeOf vars) (cubeFlat vars s)).get ix = (cubeOf vars s).get ix :=
  FT.ofFlat_flat (cubeOf vars s) ix h

/-- **End to end from the flat payload**: the count extractor run on the RESHAPED FLAT LIST the
    response carries (exactly what the driver executes and the library does) yields the
    respondent-level count and bases of every cell. -/
theorem counts_from_flat_payload (R C : Var) (hR : R.CM) (hC : C.CM) (hRw : R.WF) (hCw : C.WF)
    (s : Survey) (i j : Nat) (hi : i < R.ext) (hj : j < C.ext) :
    let m := sliceCounts [R, C] (FT.ofFlat (rawShapeOf [R, C]) (cubeFlat [R, C] s)) 0
    m.counts i j = .fin (specCount [R, C] s [i, j] [false, false]) ∧
    m.rowBases i j = .fin (specCount [R, C] s [i, j] [false, true]) ∧
    m.columnBases i j = .fin (specCount [R, C] s [i, j] [true, false]) ∧
    m.tableBases i j = .fin (specCount [R, C] s [i, j] [true, true]) := by
  intro m
  obtain ⟨h1, h2, h3, h4⟩ := flat_fields_eq R C hR hC hRw hCw s i j hi hj
  refine ⟨?_, ?_, ?_, ?_⟩
  · rw [h1]; exact counts_faithful_2d R C hR hC s i j hi hj
  · rw [h2, slice2d_rowBases R C hR hC]; exact raw_rowBases R C hR hC s i j hi hj
  · rw [h3, slice2d_columnBases R C hR hC]; exact raw_colBases R C hR hC s i j hi hj
  · rw [h4, slice2d_tableBases R C hR hC]; exact raw_tableBases R C hR hC s i j hi hj

/-- 1-D (strand): the count of row i is the weighted number of respondents in element i
    (who selected item i, for multiple response). -/
theorem strand_counts_faithful (V : Var) (hV : V.CM) (s : Survey) (i : Nat) (hi : i < V.ext) :
    (strandCounts [V] (cubeOf [V] s)).counts i = .fin (specCount [V] s [i] [false]) :=
  strand_counts_spec V hV s i hi

theorem strand_extent (V : Var) (hV : V.CM) (raw : FT) : (strandCounts [V] raw).n = V.ext :=
  strand_n V hV raw

/-- categorical array (items × categories, one variable): cell (i, j) counts the respondents
    whose answer on sub-variable i is valid category j. -/
theorem ca_counts_faithful (V : Var) (hV : V.IsCA) (s : Survey) (i j : Nat) (hi : i < V.n)
    (hj : j < (validIdxs V.catMissing).length) :
    (sliceCounts [V] (cubeOf [V] s) 0).counts i j = .fin (specCount [V] s [i, j] [false, false]) :=
  ca_counts_spec V hV s i j hi hj false

-- non-vacuity: categorical rows with a missing category in mid-payload × multiple response
example : (⟨.cat, 3, [false, true, false], false⟩ : Var).CM ∧
    (⟨.arr, 2, [false, false, true], true⟩ : Var).CM ∧
    (1 : Nat) < (⟨.cat, 3, [false, true, false], false⟩ : Var).ext ∧
    (1 : Nat) < (⟨.arr, 2, [false, false, true], true⟩ : Var).ext :=
  ⟨Or.inl rfl, Or.inr ⟨rfl, rfl, by decide⟩, by decide, by decide⟩

-- a worked instance (test, not the claim): 3 respondents, row category at raw position 2 is
-- valid element 1; the cell counts the weighted respondents there who selected item 0
example :
    let R : Var := ⟨.cat, 3, [false, true, false], false⟩
    let C : Var := ⟨.arr, 2, [false, false, true], true⟩
    let s : Survey := [⟨2, [[2], [0, 1]]⟩, ⟨1/2, [[2], [1, 0]]⟩, ⟨3, [[1], [0, 0]]⟩]
    (sliceCounts [R, C] (cubeOf [R, C] s) 0).counts 1 0 = .fin 2 := by decide +kernel

end CrCube.C01
