/-
  C19 (metadata part) — rename / fill / hide transforms keyed by any spelling of the same array item.

  The element-transform dict reaches the metadata ONLY through `_replaced_element_transforms`
  (`Meta.rebuildWith` over `Shim.keyTranslate`) and the lookup by alias.  Composed with the existing
  cascade theorems (`C19.translate_eq_resolve`, `C19.unmatched_none`):

    * `rebuild_keys_factor`: dicts whose keys translate alike are rebuilt alike;
    * `spellings_same_metadata`: replacing every key by ANY other spelling of the same item (or an
      unmatched key by another unmatched one) leaves every element's transforms entry -- hence labels,
      fills, hidden flags and everything assembled from them -- unchanged;
    * `entry_eq_spec` (Model = Spec): the entry the code looks up for item k is the entry the STATEMENT
      assigns to it (`MetaSpec.entryFor`: the last entry whose key denotes k under any spelling), whenever
      every key is determinate; unmatched keys are ignored;
    * `cat_int_or_str`: on categorical dimensions the entry may be keyed by the int id or its decimal string.
-/
import CrCube.Model.Meta
import CrCube.Spec.MetaSpec
import CrCube.Lemmas.Meta
import CrCube.Props.C19
import Mathlib.Data.List.Nodup

namespace CrCube.C19
open CrCube CrCube.Glue CrCube.Meta CrCube.MetaL
open CrCube.Shim (Ref decStr KeyMode)
open CrCube.ShimSpec (SameItem resolve)

local notation "item" => ShimSpec.item

/-- the key renaming of the default mode on an array dimension -/
def trOf (sd : Shim.Dim) : Ref → Option Ref := fun r => (Shim.translate sd r).map Ref.str

/-- the rebuilt element-transform dict reads only the TRANSLATED keys -/
theorem rebuild_keys_factor (sd : Shim.Dim) (es es' : KD)
    (h : es.map (fun kv => (Shim.translate sd kv.1, kv.2)) = es'.map (fun kv => (Shim.translate sd kv.1, kv.2))) :
    rebuildWith (trOf sd) es = rebuildWith (trOf sd) es' := by
  apply rebuildWith_congr
  have := congrArg (List.map (fun (p : Option String × J) => (p.1.map Ref.str, p.2))) h
  rw [List.map_map, List.map_map] at this
  exact this

theorem sameItem_translate {sd : Shim.Dim} {r r' : Ref} (h : SameItem sd r r') :
    Shim.translate sd r = Shim.translate sd r' := by
  rcases h with ⟨k, h1, h2⟩ | ⟨h1, h2⟩
  · rw [translate_eq_resolve h1, translate_eq_resolve h2]
  · rw [unmatched_none h1, unmatched_none h2]

/-- **any spelling, same metadata**: if the keys of `es'` are other spellings of the same items (stale
    keys replaced by stale keys) with the same payloads, every element of the dimension gets the same
    transforms entry -- `allPairs` is what labels, fills, hidden flags, numeric values are mapped from. -/
theorem spellings_same_metadata (x : Glue.Dim) (t : DimXf) (sd : Shim.Dim) (es es' : KD)
    (harr : x.dt.isArray = true) (hsd : shimDimOf x = .ok sd) (hm : t.mode = .absent)
    (h : List.Forall₂ (fun p p' => SameItem sd p.1 p'.1 ∧ p.2 = p'.2) es es') :
    allPairs x { t with elements := some es } = allPairs x { t with elements := some es' } := by
  have hmap : es.map (fun kv => (Shim.translate sd kv.1, kv.2)) = es'.map (fun kv => (Shim.translate sd kv.1, kv.2)) := by
    induction h with
    | nil => rfl
    | cons hab _ ih => simp only [List.map_cons, ih, sameItem_translate hab.1, hab.2]
  have hreb := rebuild_keys_factor sd es es' hmap
  have hse : shimmedElements x { t with elements := some es } = shimmedElements x { t with elements := some es' } := by
    simp only [shimmedElements, harr, Bool.true_or, if_true, hm, keyMap, hsd, bind, Except.bind, pure, Except.pure]
    exact congrArg Except.ok hreb
  unfold allPairs
  rw [hse]

theorem resolve_item_lt {sd : Shim.Dim} {r : Ref} {j : Nat} (h : resolve sd r = .item j) : j < sd.size := by
  unfold resolve at h
  have hmem : j ∈ ShimSpec.denotes sd r := by
    split at h
    · rename_i k hk; injection h with h; subst h; rw [hk]; simp
    · split at h <;> cases h
    · cases h
  unfold ShimSpec.denotes at hmem
  simpa using (List.mem_filter.mp hmem).1

theorem alias_inj {sd : Shim.Dim} (hn : sd.aliases.Nodup) {j k : Nat} (hj : j < sd.size) (hk : k < sd.size)
    (h : (item sd j).alias = (item sd k).alias) : j = k := by
  have hj' : j < sd.aliases.length := by simpa [Shim.Dim.aliases, Shim.Dim.size] using hj
  have hk' : k < sd.aliases.length := by simpa [Shim.Dim.aliases, Shim.Dim.size] using hk
  have e : ∀ i (hi : i < sd.aliases.length), sd.aliases[i] = (item sd i).alias := by
    intro i hi
    have hi2 : i < sd.items.length := by simpa [Shim.Dim.aliases] using hi
    simp [Shim.Dim.aliases, ShimSpec.item, List.getD, List.getElem?_eq_getElem hi2]
  exact (List.Nodup.getElem_inj_iff hn).mp (by rw [e j hj', e k hk', h])

/-- **Model = Spec**: the transforms entry the code finds for item `k` (lookup by alias in the rebuilt
    dict; `{}` when absent) is the entry the statement assigns to it -- the last entry whose key denotes
    item `k` under any spelling.  Keys that match nothing are ignored (no exception: the model is total). -/
theorem entry_eq_spec (sd : Shim.Dim) (es : KD) (k : Nat) (hk : k < sd.size) (hn : sd.aliases.Nodup)
    (hdet : MetaSpec.Determinate sd es) :
    lookupXf [] (rebuildWith (trOf sd) es) (.str (item sd k).alias) = MetaSpec.entryFor sd es k := by
  have hfilter : es.filter (fun kv => decide (trOf sd kv.1 = some (.str (item sd k).alias))) =
                 es.filter (fun kv => decide (resolve sd kv.1 = .item k)) := by
    apply List.filter_congr
    intro kv hkv
    have hd := hdet kv hkv
    rcases hd with ⟨j, hj⟩ | hnone
    · have ht := translate_eq_resolve hj
      by_cases hjk : j = k
      · subst hjk; simp [trOf, ht, hj]
      · have hne : (item sd j).alias ≠ (item sd k).alias := fun e => hjk (alias_inj hn (resolve_item_lt hj) hk e)
        have : ¬ (ShimSpec.SpecRes.item j = ShimSpec.SpecRes.item k) := by
          intro e; injection e with e; exact hjk e
        simp [trOf, ht, hj, hne, this]
    · simp [trOf, unmatched_none hnone, hnone]
  have hget := kdGet_rebuildWith (trOf sd) es (.str (item sd k).alias)
  unfold lookupXf mergedGet MetaSpec.entryFor MetaSpec.entriesFor
  simp only [refStr, kdGet, Option.or_none, Option.or_self, hget, hfilter, List.getLast?_map]

/-- categorical dimensions: a transforms entry keyed by the category's int id is found; keyed by the
    decimal string of the id it is found too (when the int key is absent); when neither is present the
    element has no transforms (`{}`) -/
theorem cat_int_or_str (es : KD) (n : Int) :
    (∀ v, kdGet (.int n) es = some v → lookupXf [] es (.int n) = v) ∧
    (∀ v, kdGet (.int n) es = none → kdGet (.str (decStr n)) es = some v → lookupXf [] es (.int n) = v) ∧
    (kdGet (.int n) es = none → kdGet (.str (decStr n)) es = none → lookupXf [] es (.int n) = J.empty) := by
  refine ⟨?_, ?_, ?_⟩ <;> intros <;> simp_all [lookupXf, mergedGet, refStr, kdGet]

/-! ### non-vacuity -/

def exEs : KD := [(.str "0021", .obj [("name", .str "B")]), (.int 4, .obj [("hide", .bool true)]), (.str "zz", J.empty)]
def exEs' : KD := [(.int 1, .obj [("name", .str "B")]), (.str "m_c", .obj [("hide", .bool true)]), (.int 99, J.empty)]

example : MetaSpec.Determinate exDim exEs := by decide
example : List.Forall₂ (fun p p' => SameItem exDim p.1 p'.1 ∧ p.2 = p'.2)
    [((.str "0021" : Ref), J.empty), (.str "zz", J.empty)] [(.int 1, J.empty), (.int 99, J.empty)] :=
  .cons ⟨Or.inl ⟨1, by decide, by decide⟩, rfl⟩ (.cons ⟨Or.inr ⟨by decide, by decide⟩, rfl⟩ .nil)
example : exDim.aliases.Nodup := by decide
example : (2 : Nat) < exDim.size := by decide
example : (exEs.map (fun kv => Shim.translate exDim kv.1)) = (exEs'.map (fun kv => Shim.translate exDim kv.1)) := by decide

end CrCube.C19
