/-
  C01 (extension) — numeric cube measures and numeric arrays report exactly the value the
  response carries for the cell; a value marked unavailable surfaces as NaN; which array every
  count output reads.  Property theorems only (helper lemmas: Lemmas/NumArray, NumericShape,
  NumericFlat).

  Conventions: `g : List Nat → PCell` is what the back end carries per RAW cell
  (`g (group raw index ++ [item])`; see Spec/NumericSpec.lean for the layout contract, evidenced
  by real payloads for at most three "all dimensions"); `C.msub j` is the raw sub-index of
  element j of a categorical / multiple-response variable (valid position; for MR: item j,
  SELECTED plane); `Var.CM`, `Var.ext` as in C01.
-/
import CrCube.Lemmas.NumericFlat

namespace CrCube.C01
open CrCube

/-! ### `{"?": code}` ↦ NaN at the JSON-decoding step -/

/-- a value the response marks unavailable decodes to NaN, whatever its reason code -/
theorem unavailable_decodes_nan (code : Int) : (PCell.unavail code).decode = .nan := rfl

/-- a value carried as JSON `null` (Python `None`) decodes to NaN as well: the flat array is built
    with `dtype=np.float64`, which turns `None` into NaN -/
theorem null_decodes_nan : PCell.null.decode = .nan := rfl

/-- nothing else decodes to NaN: a cell is NaN exactly when it is a `{"?": …}` marker or `null` -/
theorem decode_nan_iff (c : PCell) : c.decode = .nan ↔ (∃ code, c = .unavail code) ∨ c = .null := by
  cases c <;> simp [PCell.decode]

/-- a number decodes to itself (in particular 0 stays 0 and is not confused with "unavailable") -/
theorem number_decodes_itself (q : Rat) : (PCell.num q).decode = .fin q := rfl

/-- `_flat_values` decodes entry by entry: position k of the flat array is NaN exactly when the
    payload entry k is a `{"?": …}` object or `null` -/
theorem flat_values_entrywise (data : List PCell) (k : Nat) (hk : k < data.length) :
    ∃ l, flatNumeric (some data) = some l ∧ l[k]? = some (data[k]).decode ∧
      (l[k]? = some .nan ↔ (∃ c, data[k] = .unavail c) ∨ data[k] = .null) := by
  refine ⟨data.map PCell.decode, rfl, by simp [List.getElem?_map, List.getElem?_eq_getElem hk], ?_⟩
  simp only [List.getElem?_map, List.getElem?_eq_getElem hk, Option.map_some, Option.some.injEq]
  cases h : data[k] with
  | num q => simp [PCell.decode]
  | unavail c => simp [PCell.decode]
  | null => simp [PCell.decode]

/-! ### which plane of a multiple-response axis (all nine type pairs) -/

/-- the mean / median / stddev / sum extractor classes read the same plane of the measure
    array as the count extractor class of the same row × column type pair reads of the counts -/
theorem numeric_plane_is_counts_plane (rk ck : DK) (c : FT) (i j : Nat) :
    numericExtract rk ck c i j = (MatCounts.factory rk ck c).counts i j :=
  numericExtract_eq_counts rk ck c i j

/-! ### numeric measures over categorical / multiple-response dimensions, 0-D to 3-D -/

/-- 2-D, for ANY raw measure array (mean, sum, stddev, median, valid counts): cell (i, j) is the
    raw cell at (valid position of row i [, selected]) × (valid position of column j [, selected]) -/
theorem numeric_reports_payload_2d (R C : Var) (hR : R.CM) (hC : C.CM) (raw : FT) (i j : Nat) :
    (NDesign.mk [R, C] none).sliceNumeric raw 0 i j = raw.get (R.msub i ++ C.msub j) :=
  numeric2d_cell R C hR hC raw i j

/-- 3-D: partition k, cell (i, j) — multiple response allowed in every position -/
theorem numeric_reports_payload_3d (T R C : Var) (hT : T.CM) (hR : R.CM) (hC : C.CM) (raw : FT)
    (k i j : Nat) :
    (NDesign.mk [T, R, C] none).sliceNumeric raw k i j
      = raw.get (T.msub k ++ R.msub i ++ C.msub j) :=
  numeric3d_cell T R C hT hR hC raw k i j

/-- 1-D strand -/
theorem numeric_reports_payload_1d (V : Var) (hV : V.CM) (raw : FT) (i : Nat) :
    (NDesign.mk [V] none).strandNumeric raw i = raw.get (V.msub i) :=
  numeric1d_cell V hV raw i

/-- 0-D nub: the scalar -/
theorem numeric_reports_payload_0d (raw : FT) : (NDesign.mk [] none).nubValue raw = raw.get [] :=
  numeric0d_cell raw

/-- when valid counts stand in for counts, the count extractor reads the same cells -/
theorem counts_extractor_reads_same_cell (T R C : Var) (hT : T.CM) (hR : R.CM) (hC : C.CM)
    (raw : FT) (k i j : Nat) :
    ((NDesign.mk [R, C] none).sliceCounts raw 0).counts i j = raw.get (R.msub i ++ C.msub j) ∧
    ((NDesign.mk [T, R, C] none).sliceCounts raw k).counts i j
      = raw.get (T.msub k ++ R.msub i ++ C.msub j) ∧
    ((NDesign.mk [R] none).strandCounts raw).counts i = raw.get (R.msub i) :=
  ⟨numeric2d_counts R C hR hC raw i j, numeric3d_counts T R C hT hR hC raw k i j,
   numeric1d_counts R hR raw i⟩

/-- END TO END from the flat JSON payload, 2-D: decode, reshape rule, reshape, valid-index grid,
    extractor.  The reported cell is the decoded payload entry of the right raw cell: the number
    itself, or NaN when the response marks it unavailable. -/
theorem numeric_flat_reports_cell_2d (R C : Var) (hR : R.CM) (hC : C.CM) (wR : R.WF) (wC : C.WF)
    (g : List Nat → PCell) (i j : Nat) (hi : i < R.ext) (hj : j < C.ext) :
    (rawArray (NDesign.mk [R, C] none).shape
        (flatNumeric (some (backendFlat [R, C] none g)))).map
      (fun raw => (NDesign.mk [R, C] none).sliceNumeric raw 0 i j)
      = some ((g (R.msub i ++ C.msub j)).decode) := by
  rw [flatNumeric_backendFlat, scalar_shape]
  unfold backendFlat backendShape
  simp only [Option.toList, List.append_nil]
  rw [rawArray_allIdx, Option.map_some, numeric2d_cell R C hR hC]
  congr 1
  apply ofFlat_flat_get
  have : rawShapeOf [R, C] = R.rawShape ++ C.rawShape := by simp [rawShapeOf]
  rw [this]
  exact inRange_append _ _ _ _ (hR.msub_inRange wR i hi) (hC.msub_inRange wC j hj)

/-- … 3-D -/
theorem numeric_flat_reports_cell_3d (T R C : Var) (hT : T.CM) (hR : R.CM) (hC : C.CM)
    (wT : T.WF) (wR : R.WF) (wC : C.WF) (g : List Nat → PCell) (k i j : Nat)
    (hk : k < T.ext) (hi : i < R.ext) (hj : j < C.ext) :
    (rawArray (NDesign.mk [T, R, C] none).shape
        (flatNumeric (some (backendFlat [T, R, C] none g)))).map
      (fun raw => (NDesign.mk [T, R, C] none).sliceNumeric raw k i j)
      = some ((g (T.msub k ++ R.msub i ++ C.msub j)).decode) := by
  rw [flatNumeric_backendFlat, scalar_shape]
  unfold backendFlat backendShape
  simp only [Option.toList, List.append_nil]
  rw [rawArray_allIdx, Option.map_some, numeric3d_cell T R C hT hR hC]
  congr 1
  apply ofFlat_flat_get
  have : rawShapeOf [T, R, C] = T.rawShape ++ R.rawShape ++ C.rawShape := by simp [rawShapeOf]
  rw [this]
  exact inRange_append _ _ _ _
    (inRange_append _ _ _ _ (hT.msub_inRange wT k hk) (hR.msub_inRange wR i hi))
    (hC.msub_inRange wC j hj)

/-- an unavailable cell surfaces as NaN, a carried number as that number (2-D; corollary) -/
theorem unavailable_surfaces_as_nan_2d (R C : Var) (hR : R.CM) (hC : C.CM) (wR : R.WF) (wC : C.WF)
    (g : List Nat → PCell) (i j : Nat) (hi : i < R.ext) (hj : j < C.ext) (code : Int)
    (hg : g (R.msub i ++ C.msub j) = .unavail code) :
    (rawArray (NDesign.mk [R, C] none).shape
        (flatNumeric (some (backendFlat [R, C] none g)))).map
      (fun raw => (NDesign.mk [R, C] none).sliceNumeric raw 0 i j) = some .nan := by
  rw [numeric_flat_reports_cell_2d R C hR hC wR wC g i j hi hj, hg]; rfl

/-- … and so does a cell carried as JSON `null` -/
theorem null_surfaces_as_nan_2d (R C : Var) (hR : R.CM) (hC : C.CM) (wR : R.WF) (wC : C.WF)
    (g : List Nat → PCell) (i j : Nat) (hi : i < R.ext) (hj : j < C.ext)
    (hg : g (R.msub i ++ C.msub j) = .null) :
    (rawArray (NDesign.mk [R, C] none).shape
        (flatNumeric (some (backendFlat [R, C] none g)))).map
      (fun raw => (NDesign.mk [R, C] none).sliceNumeric raw 0 i j) = some .nan := by
  rw [numeric_flat_reports_cell_2d R C hR hC wR wC g i j hi hj, hg]; rfl

/-! ### numeric arrays: the pseudo-dimension and the dimension-order permutation -/

/-- The library reshapes to the permuted shape and indexes with the permuted `np.ix_`; for a
    numeric array over ANY non-empty list of group dimensions, under the ROTATION "pseudo-dimension
    last" this is the back-end shape (group sizes ..., items) … -/
theorem rotation_shape (vars : List Var) (n : Nat) (h : rawShapeOf vars ≠ []) :
    (NDesign.mk vars (some n)).shapeRot = backendShape vars (some n) := by
  have := rot_shape n (rawShapeOf vars) h
  simpa [NDesign.shapeRot, NDesign.orderRot, NDesign.sizes, NDesign.hasNumArr, backendShape] using this

/-- … and element (item i, group elements es) of the view is the raw cell
    (valid positions of the group elements ..., item i): the cell the back end wrote. -/
theorem rotation_view (vars : List Var) (n : Nat) (raw : FT) (i : Nat) (es : List Nat)
    (h : vars.flatMap Var.validAxes ≠ []) (hi : i < n) :
    ((NDesign.mk vars (some n)).viewRot raw).get (i :: es)
      = raw.get ((List.range (vars.flatMap Var.validAxes).length).map
            (fun t => ((vars.flatMap Var.validAxes).getD t []).getD (es.getD t 0) 0) ++ [i]) := by
  have hl : (rawShapeOf vars).length = (vars.flatMap Var.validAxes).length := by
    induction vars with
    | nil => rfl
    | cons v vs ih =>
      have ih' : (rawShapeOf vs).length = (List.flatMap Var.validAxes vs).length := by
        by_cases hv : List.flatMap Var.validAxes vs = []
        · have : vs = [] := by
            cases vs with
            | nil => rfl
            | cons w ws =>
              exfalso
              simp only [List.flatMap_cons, List.append_eq_nil_iff] at hv
              exact validAxes_ne_nil w hv.1
          subst this; rfl
        · exact ih hv
      simp only [rawShapeOf, List.flatMap_cons, List.length_append] at ih' ⊢
      rw [ih']
      congr 1
      unfold Var.rawShape Var.validAxes
      cases v.kind <;> rfl
  have := permTake_rot_get raw n (vars.flatMap Var.validAxes) h i es
  simp only [NDesign.viewRot, NDesign.orderRot, NDesign.valid, NDesign.sizes, NDesign.hasNumArr,
    Option.toList, List.map_cons, List.map_nil, List.singleton_append, List.length_cons, hl,
    Option.isSome]
  rw [this, List.getD_eq_getElem?_getD, range_getD_lt n i hi]

/-- The code's `dimension_order` IS that rotation whenever there are at most three dimensions
    (numeric array alone, × CAT-like, × MR, × CAT × CAT, × CA) — the layouts real payloads show. -/
theorem dimension_order_is_rotation (d : NDesign) (h : d.sizes.length ≤ 3) :
    d.order = d.orderRot ∧ d.shape = d.shapeRot ∧ ∀ raw, d.view raw = d.viewRot raw := by
  have := dimOrder_eq_rot d.sizes.length d.hasNumArr h
  refine ⟨this, ?_, ?_⟩
  · simp [NDesign.shape, NDesign.shapeRot, NDesign.order, NDesign.orderRot, this]
  · intro raw; simp [NDesign.view, NDesign.viewRot, NDesign.order, NDesign.orderRot, this]

/-- From four dimensions on the code REVERSES all axes instead (documentation of the len-4 branch;
    no real payload evidences the layout there, so this is not reported as a defect):
    NUM_ARR × CAT(2) × MR(1 item) with 2 subvariables is reshaped to (3, 1, 2, 2), not (2, 1, 3, 2). -/
theorem dimension_order_len4_counterexample :
    let d : NDesign := ⟨[⟨.cat, 2, [false, false], false⟩, ⟨.arr, 1, [false, false, true], true⟩], some 2⟩
    d.order = [3, 2, 1, 0] ∧ d.orderRot = [1, 2, 3, 0] ∧
    d.shape = [3, 1, 2, 2] ∧ d.shapeRot = [2, 1, 3, 2] := by decide

/-- numeric array × grouping variable (2-D slice): cell (item i, column j) of every numeric
    measure is the raw cell (column j [, selected], item i) -/
theorem numarr_reports_payload_2d (C : Var) (hC : C.CM) (n : Nat) (raw : FT) (i j : Nat)
    (hi : i < n) :
    (NDesign.mk [C] (some n)).sliceNumeric raw 0 i j = raw.get (C.msub j ++ [i]) :=
  numarr2d_numeric C hC n raw i j hi

/-- numeric array alone (strand): row i is the raw cell [i] -/
theorem numarr_reports_payload_1d (n : Nat) (raw : FT) (i : Nat) (hi : i < n) :
    (NDesign.mk [] (some n)).strandNumeric raw i = raw.get [i] :=
  numarr1d_numeric n raw i hi

/-- numeric array × CAT × CAT (3-D): one slice per item k -/
theorem numarr_reports_payload_3d (A B : Var) (hA : A.kind = .cat) (hB : B.kind = .cat) (n : Nat)
    (raw : FT) (k i j : Nat) (hk : k < n) :
    (NDesign.mk [A, B] (some n)).nPartitions = n ∧
    (NDesign.mk [A, B] (some n)).sliceNumeric raw k i j = raw.get (A.msub i ++ B.msub j ++ [k]) :=
  ⟨numarr3d_nPartitions A B hA hB n, numarr3d_numeric A B hA hB n raw k i j hk⟩

/-- numeric array × categorical array (3-D, rows = CA subvariables, columns = CA categories):
    slice k, cell (i, j) is the raw cell (subvariable i, valid category j, item k) -/
theorem numarr_reports_payload_ca (V : Var) (hV : V.IsCA) (n : Nat) (raw : FT) (k i j : Nat)
    (hk : k < n) :
    (NDesign.mk [V] (some n)).shape = backendShape [V] (some n) ∧
    (NDesign.mk [V] (some n)).sliceNumeric raw k i j
      = raw.get [(List.range V.n)[i]?.getD 0, (validIdxs V.catMissing)[j]?.getD 0, k] ∧
    ((NDesign.mk [V] (some n)).sliceCounts raw k).counts i j
      = raw.get [(List.range V.n)[i]?.getD 0, (validIdxs V.catMissing)[j]?.getD 0, k] :=
  ⟨numarrCA_shape V hV n, numarrCA_numeric V hV n raw k i j hk, numarrCA_counts V hV n raw k i j hk⟩

/-- END TO END from the flat payload, numeric array × grouping variable: "reshape to the
    permuted shape, then index with the permuted np.ix_" = the cell the back end wrote, decoded -/
theorem numarr_flat_reports_cell_2d (C : Var) (hC : C.CM) (wC : C.WF) (n : Nat)
    (g : List Nat → PCell) (i j : Nat) (hi : i < n) (hj : j < C.ext) :
    (rawArray (NDesign.mk [C] (some n)).shape
        (flatNumeric (some (backendFlat [C] (some n) g)))).map
      (fun raw => (NDesign.mk [C] (some n)).sliceNumeric raw 0 i j)
      = some ((g (C.msub j ++ [i])).decode) := by
  rw [flatNumeric_backendFlat, numarr2d_shape C hC]
  unfold backendFlat
  rw [rawArray_allIdx, Option.map_some, numarr2d_numeric C hC n _ i j hi]
  congr 1
  apply ofFlat_flat_get
  have : backendShape [C] (some n) = C.rawShape ++ [n] := by simp [backendShape, rawShapeOf]
  rw [this]
  exact inRange_append _ _ _ _ (hC.msub_inRange wC j hj) (inRange_single n i hi)

/-- … numeric array alone -/
theorem numarr_flat_reports_cell_1d (n : Nat) (g : List Nat → PCell) (i : Nat) (hi : i < n) :
    (rawArray (NDesign.mk [] (some n)).shape
        (flatNumeric (some (backendFlat [] (some n) g)))).map
      (fun raw => (NDesign.mk [] (some n)).strandNumeric raw i)
      = some ((g [i]).decode) := by
  rw [flatNumeric_backendFlat, numarr1d_shape]
  have : backendShape [] (some n) = [n] := by simp [backendShape, rawShapeOf]
  unfold backendFlat
  rw [this, rawArray_allIdx, Option.map_some, numarr1d_numeric n _ i hi]
  congr 1
  exact ofFlat_flat_get _ _ _ (inRange_single n i hi)

/-- … numeric array × CAT × CAT -/
theorem numarr_flat_reports_cell_3d (A B : Var) (hA : A.kind = .cat) (hB : B.kind = .cat)
    (wA : A.WF) (wB : B.WF) (n : Nat) (g : List Nat → PCell) (k i j : Nat) (hk : k < n)
    (hi : i < A.ext) (hj : j < B.ext) :
    (rawArray (NDesign.mk [A, B] (some n)).shape
        (flatNumeric (some (backendFlat [A, B] (some n) g)))).map
      (fun raw => (NDesign.mk [A, B] (some n)).sliceNumeric raw k i j)
      = some ((g (A.msub i ++ B.msub j ++ [k])).decode) := by
  rw [flatNumeric_backendFlat, numarr3d_shape A B hA hB]
  unfold backendFlat
  rw [rawArray_allIdx, Option.map_some, numarr3d_numeric A B hA hB n _ k i j hk]
  congr 1
  apply ofFlat_flat_get
  have : backendShape [A, B] (some n) = A.rawShape ++ B.rawShape ++ [n] := by
    simp [backendShape, rawShapeOf]
  rw [this]
  exact inRange_append _ _ _ _
    (inRange_append _ _ _ _ (Var.CM.msub_inRange (Or.inl hA) wA i hi)
      (Var.CM.msub_inRange (Or.inl hB) wB j hj))
    (inRange_single n k hk)

/-! ### which array each public output reads (decision logic over the measures present) -/

/-- the "cannot reshape → None" rule -/
theorem reshape_rule (sh : List Nat) (l : List Val) :
    rawArray sh (some l) = none ↔ l.length ≠ prodL sh := rawArray_none_iff sh l

/-- weighted counts are absent exactly when there is no `count` measure or it equals
    `result.counts`; valid counts are absent when missing OR an empty list -/
theorem flat_absent_iff (counts : List Val) (count p : Option (List Val)) :
    (flatWeighted counts count = none ↔ count = none ∨ count = some counts) ∧
    (flatValid p = none ↔ p = none ∨ p = some []) := by
  constructor
  · cases count with
    | none => simp [flatWeighted]
    | some w =>
      by_cases h : w = counts <;> simp [flatWeighted, h]
  · cases p with
    | none => simp [flatValid]
    | some l => cases l <;> simp [flatValid]

/-- a numeric array with more than one subvariable can never use the plain counts: the
    `result.counts` list (one entry per group cell) cannot be reshaped to (group ..., items) -/
theorem numarr_plain_counts_unusable (G : List Nat) (n : Nat) (l : List Val)
    (hl : l.length = prodL G) (hG : prodL G ≠ 0) (hn : n ≠ 1) :
    rawArray (G ++ [n]) (some l) = none := by
  rw [rawArray_none_iff, hl, prodL_append]
  simp only [prodL, Nat.mul_one]
  intro h
  have h1 : prodL G * 1 = prodL G * n := by rw [Nat.mul_one]; exact h
  exact hn (Nat.eq_of_mul_eq_mul_left (Nat.pos_of_ne_zero hG) h1).symm

/-- `Cube.counts` / `.counts_with_missings`, every weighted count output of slices and strands
    (`CubeMeasures.weighted_cube_counts`): weighted valid counts, else unweighted valid counts,
    else the weighted counts, else the unweighted counts -/
theorem weighted_outputs_source (a : RawArrays) :
    a.countsWithMissings = (a.wvalid <|> a.uvalid <|> a.wcounts <|> a.ucounts) ∧
    a.weightedCubeCountsSrc = (a.wvalid <|> a.uvalid <|> a.wcounts <|> a.ucounts) := by
  cases hw : a.wvalid <;> cases hu : a.uvalid <;> cases hc : a.wcounts <;>
    simp [RawArrays.countsWithMissings, RawArrays.weightedCubeCountsSrc,
      RawArrays.hasWeightedCounts, RawArrays.weightedCountsSrc, hw, hu, hc]

/-- `Cube.unweighted_counts` and every unweighted count output: unweighted valid counts, else
    `result.counts`; `Cube.weighted_counts`: weighted valid counts, else the `count` measure,
    else None -/
theorem unweighted_outputs_source (a : RawArrays) :
    a.unweightedCountsSrc = (a.uvalid <|> a.ucounts) ∧
    a.unweightedCubeCountsSrc = (a.uvalid <|> a.ucounts) ∧
    a.weightedCountsSrc = (a.wvalid <|> a.wcounts) ∧
    (a.hasWeightedCounts = true ↔ a.wvalid.isSome ∨ a.wcounts.isSome) := by
  cases hw : a.wvalid <;> cases hu : a.uvalid <;> cases hc : a.wcounts <;>
    simp [RawArrays.unweightedCountsSrc, RawArrays.unweightedCubeCountsSrc,
      RawArrays.hasWeightedCounts, RawArrays.weightedCountsSrc, hw, hu, hc]

/-- no assembled slice / strand output exists without usable unweighted counts -/
theorem assembled_needs_unweighted_counts (a : RawArrays) (src : Option FT)
    (h : a.uvalid = none) (h' : a.ucounts = none) : a.assembled src = none := by
  simp [RawArrays.assembled, RawArrays.unweightedCubeCountsSrc, RawArrays.unweightedCountsSrc, h, h']

/-- `Cube.missing`: n_missing of the unweighted valid counts, else of the mean, else of the
    median, else `result.missing` (each defaulting to 0) -/
theorem missing_count_cases (p : Payloads) (a : RawArrays) :
    (a.uvalid.isSome → p.missingCount a = p.vcuNMissing.getD 0) ∧
    (a.uvalid = none → a.means.isSome → p.missingCount a = p.meanNMissing.getD 0) ∧
    (a.uvalid = none → a.means = none → a.medians.isSome →
        p.missingCount a = p.medianNMissing.getD 0) ∧
    (a.uvalid = none → a.means = none → a.medians = none → p.missingCount a = p.missing.getD 0) := by
  refine ⟨?_, ?_, ?_, ?_⟩ <;> intros <;> simp_all [Payloads.missingCount]

/-! ### non-vacuity and worked instances (tests, not the claims) -/

-- hypotheses are satisfiable: categorical with a missing category mid-payload, MR, well-formed
example : (⟨.cat, 3, [false, true, false], false⟩ : Var).CM ∧
    (⟨.cat, 3, [false, true, false], false⟩ : Var).WF ∧
    (⟨.arr, 2, [false, false, true], true⟩ : Var).CM ∧
    (⟨.arr, 2, [false, false, true], true⟩ : Var).WF ∧
    (1 : Nat) < (⟨.cat, 3, [false, true, false], false⟩ : Var).ext :=
  ⟨Or.inl rfl, fun _ => rfl, Or.inr ⟨rfl, rfl, by decide⟩, fun h => by simp at h, by decide⟩

-- numeric array (2 items) × CAT (3 categories, the middle one missing): mean payload in back-end
-- order [c0: i0 i1 | c1(missing): i0 i1 | c2: i0 i1]; cell (item 1, valid column 1) is entry 5,
-- which the back end marked unavailable → NaN; cell (item 0, column 1) is entry 4 → 9/2
example :
    let d : NDesign := ⟨[⟨.cat, 3, [false, true, false], false⟩], some 2⟩
    let data : List PCell := [.num 1, .num 2, .num 3, .num 4, .num (9/2), .unavail (-8)]
    (rawArray d.shape (flatNumeric (some data))).map
        (fun raw => (d.sliceNumeric raw 0 1 1, d.sliceNumeric raw 0 0 1))
      = some (.nan, .fin (9/2)) := by decide +kernel

-- the reshape rule at work: 3 plain counts cannot fill a (3, 2) numeric-array shape
example : rawArray [3, 2] (some [.fin 5, .fin 0, .fin 2]) = none := by decide

-- CAT × MR × CAT 3-D numeric measure: slice k = 1, cell (MR item 0, column 1) reads the SELECTED
-- plane of the MR axis, not a plane of the columns axis
example :
    let T : Var := ⟨.cat, 2, [false, false], false⟩
    let R : Var := ⟨.arr, 1, [false, false, true], true⟩
    let C : Var := ⟨.cat, 2, [false, false], false⟩
    T.msub 1 ++ R.msub 0 ++ C.msub 1 = [1, 0, 0, 1] := by decide

end CrCube.C01
