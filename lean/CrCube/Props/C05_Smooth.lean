/-
  C05, measures computed ALONG a dimension: the moving average of a categorical-date dimension
  (`stripe/measure.py::_MeansSmoothed`, `matrix/measure.py::_MeansSmoothed`) under display transforms
  on that same dimension.

  In the code the smoothed blocks are computed from the cube means in PAYLOAD order
  (`smoother.smooth(cube_means.means)`, NaN on every inserted vector) and the display order enters only
  through `_assemble_vector` / `_assemble_matrix`.  Hence
    * `smoothed_vector_reindexed` / `smoothed_matrix_reindexed`: the output under t is the output under
      strip t re-indexed by the reported orders (instances of the C05 re-indexing theorems);
    * `smoothed_vector_cell`: the position that shows base element x carries the PROPERTY's smoothed value
      of period x of the payload series (`SmoothingSpec.smoothed`), whatever else the order lists, hides
      or inserts; an inserted position carries NaN;
    * `smooth_then_assemble_ne_assemble_then_smooth`: the two steps do NOT commute — running the smoother
      over the assembled (re-ordered / hidden) means gives other numbers (concrete inputs, reversed
      order and one hidden wave): an implementation that smooths the displayed rows violates C05;
    * `smooth_assemble_commute_payload_order`: they DO commute when the order is the payload order of
      all elements with no insertions — which is why inputs with the smoother alone cannot tell.
-/
import CrCube.Props.C05
import CrCube.Props.C20

namespace CrCube.C05
open CrCube CrCube.Smoothing CrCube.SmoothingSpec

/-- `_Strand.smoothed_means`: blocks `[smooth(payload means), NaN per subtotal]` assembled by the order -/
def smoothedVector (s : Smoother) (means : List Val) (nins : Nat) (o : List Int) : List Val :=
  assembleVector means.length nins (fun i => (s.smooth1 means).getD i .nan) (fun _ => .nan) o

/-- `_Slice.smoothed_means`: `NanSubtotals.blocks(smooth(payload means))` (`nr × nc` body) -/
def smoothedBlocks (s : Smoother) (m : List (List Val)) (nr nc nir nic : Nat) : ABlocks :=
  { nr := nr, nc := nc, nir := nir, nic := nic
    body := fun i j => ((s.smooth2 m).getD i []).getD j .nan
    insCols := fun _ _ => .nan, insRows := fun _ _ => .nan, inter := fun _ _ => .nan }

/-- the payload order of all `n` elements, nothing inserted -/
def payloadOrder (n : Nat) : List Int := (List.range n).map Int.ofNat

/-- **strand smoothed means under t = under strip t, re-indexed by the reported order** -/
theorem smoothed_vector_reindexed (s : Smoother) (means : List Val) (nins : Nat) (o o0 : List Int)
    (h : ∀ x ∈ o, x ∈ o0) :
    smoothedVector s means nins o =
      o.map fun x => (smoothedVector s means nins o0).getD (o0.idxOf x) .nan :=
  vector_reindexed _ _ _ _ o o0 h

/-- **slice smoothed means under t = under strip t, re-indexed by the reported orders** -/
theorem smoothed_matrix_reindexed (s : Smoother) (m : List (List Val)) (nr nc nir nic : Nat)
    (ro co ro0 co0 : List Int) (hr : ∀ x ∈ ro, x ∈ ro0) (hc : ∀ y ∈ co, y ∈ co0) :
    assembleMatrix (smoothedBlocks s m nr nc nir nic) ro co =
      ro.map fun x => co.map fun y =>
        ((assembleMatrix (smoothedBlocks s m nr nc nir nic) ro0 co0).getD (ro0.idxOf x) []).getD (co0.idxOf y) .nan :=
  matrix_reindexed _ ro co ro0 co0 hr hc

/-- **the value shown for period x is the property's moving average of the PAYLOAD series at x**, at
    whatever position the order shows it and whatever else is hidden, pruned, re-ordered or inserted;
    an inserted (negative) position carries NaN. -/
theorem smoothed_vector_cell (s : Smoother) (means : List Val) (nins : Nat) (o : List Int)
    (i : Nat) (hi : i < o.length) :
    (∀ x : Nat, o[i] = (x : Int) → x < means.length →
      (smoothedVector s means nins o).getD i .nan = (smoothed s.isCatDate s.window means).getD x .nan) ∧
    (∀ k : Nat, o[i] = -((k : Int) + 1) → k < nins →
      (smoothedVector s means nins o).getD i .nan = .nan) := by
  refine ⟨?_, ?_⟩
  · intro x hx hxn
    unfold smoothedVector assembleVector
    simp only [List.getD, List.getElem?_map, List.getElem?_eq_getElem hi, Option.map_some, Option.getD_some, hx]
    unfold vecCell wrapIdx
    have h0 : ¬ ((x : Int) < 0) := by omega
    simp only [h0, if_false, Int.toNat_natCast]
    have h1 : x < means.length := hxn
    simp only [h1, if_true]
    rw [← C20.smooth_eq_spec]
  · intro k hk hkn
    unfold smoothedVector assembleVector
    simp only [List.getD, List.getElem?_map, List.getElem?_eq_getElem hi, Option.map_some, Option.getD_some, hk]
    unfold vecCell wrapIdx
    have h0 : (-((k : Int) + 1) < 0) := by omega
    simp only [h0, if_true]
    have h1 : ¬ ((((means.length + nins : Nat) : Int) + -((k : Int) + 1)).toNat < means.length) := by omega
    simp only [h1, if_false]

-- non-vacuity of the two hypotheses: order [2, -1, 0] over 3 periods and 1 subtotal
example : ([2, -1, 0] : List Int)[0] = ((2 : Nat) : Int) ∧ 2 < ([1, 2, 4] : List Val).length := by decide
example : ([2, -1, 0] : List Int)[1] = -(((0 : Nat) : Int) + 1) ∧ 0 < 1 := by decide

/-- what an implementation that runs the smoother over the ASSEMBLED means would return -/
def smoothDisplayed (s : Smoother) (means : List Val) (nins : Nat) (o : List Int) : List Val :=
  s.smooth1 (assembleVector means.length nins (fun i => means.getD i .nan) (fun _ => .nan) o)

/-- **smoothing and assembling do not commute**: newest-first order, and one hidden wave (window 2,
    series 1 2 4 8).  Smoothing the displayed rows contradicts `smoothed_vector_reindexed`. -/
theorem smooth_then_assemble_ne_assemble_then_smooth :
    let s : Smoother := ⟨2, true⟩
    let means : List Val := [.fin 1, .fin 2, .fin 4, .fin 8]
    smoothedVector s means 0 [3, 2, 1, 0] = [.fin 6, .fin 3, .fin (3/2), .nan] ∧
    smoothDisplayed s means 0 [3, 2, 1, 0] = [.nan, .fin 6, .fin 3, .fin (3/2)] ∧
    smoothedVector s means 0 [0, 1, 3] = [.nan, .fin (3/2), .fin 6] ∧
    smoothDisplayed s means 0 [0, 1, 3] = [.nan, .fin (3/2), .fin 5] ∧
    smoothedVector s means 0 [3, 2, 1, 0] ≠ smoothDisplayed s means 0 [3, 2, 1, 0] ∧
    smoothedVector s means 0 [0, 1, 3] ≠ smoothDisplayed s means 0 [0, 1, 3] := by
  decide +kernel

theorem range_map_getD (l : List Val) (d : Val) :
    (List.range l.length).map (fun i => l.getD i d) = l := by
  apply List.ext_getElem
  · simp
  · intro i h1 h2
    simp [List.getD, List.getElem?_eq_getElem h2]

theorem assembleVector_payloadOrder (n : Nat) (base ins : Nat → Val) :
    assembleVector n 0 base ins (payloadOrder n) = (List.range n).map base := by
  unfold assembleVector payloadOrder
  rw [List.map_map]
  apply List.map_congr_left
  intro i hi
  have hin : i < n := List.mem_range.mp hi
  have h0 : ¬ ((i : Int) < 0) := by omega
  simp [vecCell, wrapIdx, hin, h0]

/-- **with the payload order of all elements and no insertions the two steps commute** (the only
    situation in which the smoother alone is exercised) -/
theorem smooth_assemble_commute_payload_order (s : Smoother) (means : List Val) :
    smoothDisplayed s means 0 (payloadOrder means.length) =
      smoothedVector s means 0 (payloadOrder means.length) := by
  unfold smoothDisplayed smoothedVector
  rw [assembleVector_payloadOrder, assembleVector_payloadOrder, range_map_getD]
  have h := range_map_getD (s.smooth1 means) .nan
  rw [C20.smooth_length] at h
  exact h.symm

end CrCube.C05
