/-
  C13, overlap-corrected test for multiple-response columns: subvariables WITHOUT a common valid
  respondent (split-sample items: N_ab = 0, hence S_ab = 0).

  The correction term pi_ab = S_ab / N_ab is 0/0: the statistic is undefined.  The theorems say that
  the model (which mirrors `_PairwiseSignificaneBetweenSubvariablesHelper`) reports NaN for the
  variance term whatever the other bases are, that t and p are NaN under any evaluator that
  propagates NaN through `x / sqrt(nan)` and the t tail, and that such a pair can never enter an
  index set - for every alpha and either only-larger flag.  (Round 6: a seeded `pab = 0 if Nab == 0`
  guard gave these pairs a finite t, a real p-value and index-set membership.)
-/
import CrCube.Model.Pairwise
import CrCube.Lemmas.ValAlg

namespace CrCube.C13
open CrCube CrCube.Pairwise

theorem val_add_nan (a : Val) : a + Val.nan = Val.nan := by
  cases a <;> rfl

theorem val_sub_nan (a : Val) : a - Val.nan = Val.nan := by
  cases a <;> rfl

theorem val_mul_nan (a : Val) : a * Val.nan = Val.nan := by
  cases a <;> rfl

theorem val_zero_div_zero : (Val.fin 0) / (Val.fin 0) = Val.nan := by
  show Val.div (.fin 0) (.fin 0) = .nan
  simp [Val.div]

/-- **overlap_disjoint_den_nan**: no common valid respondent (N_ab = 0, so S_ab = 0) makes the
    variance term NaN, whatever the subvariables' own bases and proportions are -/
theorem overlap_disjoint_den_nan (x : OvIn) (i a b : Nat)
    (hV : get3 x.valid i a b = .fin 0) (hS : get3 x.sel i a b = .fin 0) :
    x.den i a b = .nan := by
  unfold OvIn.den
  simp only [hV, hS, val_zero_div_zero, val_mul_nan, val_sub_nan]

/-- **overlap_disjoint_t**: the statistic of such a pair is `num / sqrt(nan)` -/
theorem overlap_disjoint_t (x : OvIn) (i a b : Nat) (hab : a ≠ b)
    (hV : get3 x.valid i a b = .fin 0) (hS : get3 x.sel i a b = .fin 0) :
    x.t i a b = .divSqrt (x.props.get i b - x.props.get i a) .nan := by
  unfold OvIn.t
  rw [if_neg hab, overlap_disjoint_den_nan x i a b hV hS]

/-- **overlap_disjoint_never_significant**: under any evaluator that propagates NaN (numpy: x / sqrt(nan) = nan;
    scipy: the t tail of nan is nan) the pair has t = p = NaN and is in no index set, for every alpha and flag -/
theorem overlap_disjoint_never_significant (ev : Out → Val)
    (hdiv : ∀ n, ev (.divSqrt n .nan) = .nan)
    (htail : ∀ t df, ev t = .nan → ev (.tTail2 t df) = .nan)
    (x : OvIn) (i a b : Nat) (hab : a ≠ b)
    (hV : get3 x.valid i a b = .fin 0) (hS : get3 x.sel i a b = .fin 0)
    (alpha : Rat) (ol : Bool) :
    ev (x.t i a b) = .nan ∧ ev (x.p i a b) = .nan
      ∧ sig ev alpha ol (x.p i a b) (x.t i a b) = false := by
  have ht : ev (x.t i a b) = .nan := by
    rw [overlap_disjoint_t x i a b hab hV hS]; exact hdiv _
  have hp : ev (x.p i a b) = .nan := by
    unfold OvIn.p
    rw [if_neg hab]
    exact htail _ _ ht
  refine ⟨ht, hp, ?_⟩
  unfold sig
  rw [hp]
  rfl

/-- non-vacuity: split-sample items A (asked of 3, 2 selected) and B (asked of 2, 1 selected), nobody asked both -/
def exDisjoint : OvIn :=
  { props := [[.fin (1/2), .fin (1/3)]],
    sel := [[[.fin 2, .fin 0], [.fin 0, .fin 1]]],
    valid := [[[.fin 3, .fin 0], [.fin 0, .fin 2]]] }

example : get3 exDisjoint.valid 0 0 1 = .fin 0 ∧ get3 exDisjoint.sel 0 0 1 = .fin 0 := ⟨rfl, rfl⟩
example : get3 exDisjoint.valid 0 0 0 = .fin 3 ∧ get3 exDisjoint.valid 0 1 1 = .fin 2 := ⟨rfl, rfl⟩
example : exDisjoint.den 0 0 1 = .nan := overlap_disjoint_den_nan exDisjoint 0 0 1 rfl rfl

end CrCube.C13
