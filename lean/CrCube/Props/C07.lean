/-
  C07 — anchored ordering.

  "Without a sort-by-value transform, base elements appear in payload order, or, with an explicit
  order, in the listed order (first mention wins, unknown ids ignored) followed by the unlisted
  elements in payload order; every subtotal appears immediately after its anchor element, or at
  the top or bottom for those anchors and for anchors that no longer exist, and subtotals sharing
  an anchor keep their definition order. The signed-index and the insertion-id ('ins_N')
  renderings of an order name the same sequence, an insertion without an id being numbered by its
  1-based rank in payload display order when defined on the variable and by its 1-based
  definition position when defined in the analysis."

  Model: `CrCube.Collator` (mirrors collator.py / dimension.py with the repairs F5, F18).
  Spec : `CrCube.OrderSpec.specSigned / specItems / payloadRank`.
  Standing hypotheses: element ids pairwise distinct; at most `sys.maxsize` elements (a CPython
  list cannot be longer).
-/
import CrCube.Lemmas.Explicit
import CrCube.Lemmas.Crosswalk

namespace CrCube.C07
open CrCube.Collator CrCube.OrderSpec
open CrCube.Lemmas.SortKeys CrCube.Lemmas.Layout CrCube.Lemmas.Bridge CrCube.Lemmas.AnchoredSpec
open CrCube.Lemmas.Explicit CrCube.Lemmas.AnchoredFinal CrCube.Lemmas.Crosswalk

/-! ## display order = specification -/

/-- payload order: the collator's signed display order is the specified sequence. -/
theorem display_eq_spec_payload (d : Dim) (empties : List Nat)
    (hids : d.ids.Nodup) (hlen : (d.elems.length : Int) ≤ maxsize) :
    payloadOrderSigned d empties = specSigned d none empties :=
  payload_eq_spec d empties hids hlen

/-- explicit order: likewise, including re-anchored derived (MR insertion) items. -/
theorem display_eq_spec_explicit (d : Dim) (explicit : List Eid) (empties : List Nat)
    (hids : d.ids.Nodup) (hlen : (d.elems.length : Int) ≤ maxsize) :
    explicitOrderSigned d explicit empties = specSigned d (some explicit) empties :=
  explicit_eq_spec d explicit empties hids hlen

/-- the OrderedDict-and-pop loop computes: listed ids (first mention wins, unknown ignored)
    then the unlisted ones in payload order; positions are consecutive from 0. -/
theorem explicit_elem_order (elems : List Elem) (explicit : List Eid) (hids : (elems.map (·.id)).Nodup) :
    (explicitDescr elems explicit).map (fun x => x.2.1) = specElemOrder elems (some explicit) ∧
    (explicitDescr elems explicit).map (fun x => x.1) = List.range (specElemOrder elems (some explicit)).length ∧
    (specElemOrder elems (some explicit)).Nodup ∧
    (∀ e, e ∈ specElemOrder elems (some explicit) ↔ e ∈ baseIdxs elems (some explicit)) :=
  ⟨explicitDescr_idxs elems explicit hids, explicitDescr_positions elems explicit hids,
   specElemOrder_nodup elems explicit, fun _ => mem_specElemOrder⟩

/-- "first mention wins": the listed part is a duplicate-free sublist of the listed offsets
    containing each of them. -/
theorem first_mention_wins (seen l : List Nat) :
    (firstMentions seen l).Nodup ∧ (firstMentions seen l).Sublist l ∧
      ∀ x, x ∈ firstMentions seen l ↔ x ∈ l ∧ x ∉ seen :=
  ⟨firstMentions_nodup seen l, firstMentions_sublist seen l, fun _ => mem_firstMentions⟩

/-! ## reusable: no repeats, visibility (C05, C09) -/

theorem order_nodup_payload (d : Dim) (empties : List Nat) : (payloadOrderSigned d empties).Nodup :=
  payload_nodup d empties

theorem order_nodup_explicit (d : Dim) (explicit : List Eid) (empties : List Nat) (hids : d.ids.Nodup) :
    (explicitOrderSigned d explicit empties).Nodup :=
  explicit_nodup d explicit empties hids

/-- a base element offset is displayed iff it exists and is not hidden
    (hidden = explicit hides ∪ empties-if-prune). -/
theorem visible_iff_payload (d : Dim) (empties : List Nat) (i : Nat) :
    (i : Int) ∈ payloadOrderSigned d empties ↔ i < d.elems.length ∧ i ∉ d.hid empties :=
  payload_visible_iff d empties i

theorem visible_iff_explicit (d : Dim) (explicit : List Eid) (empties : List Nat) (hids : d.ids.Nodup) (i : Nat) :
    (i : Int) ∈ explicitOrderSigned d explicit empties ↔ i < d.elems.length ∧ i ∉ d.hid empties :=
  explicit_visible_iff d explicit empties hids i

/-- subtotals are never hidden by the collators: every negative index is displayed once. -/
theorem subtotals_always_displayed (d : Dim) (empties : List Nat) (j : Int) :
    (j < 0 ∧ j ∈ payloadOrderSigned d empties) ↔ j ∈ negIdxs d.subs.length :=
  payload_subs_iff d empties j

theorem hidden_def (prune : Bool) (empties hidden : List Nat) (i : Nat) :
    i ∈ hiddenIdxs prune empties hidden ↔ i ∈ hidden ∨ (prune = true ∧ i ∈ empties) := by
  unfold hiddenIdxs
  cases prune <;> simp [or_comm]

/-! ## reading the specification: blocks, top / bottom, definition order -/

/-- the display sequence splits around any ordered element `e` as
    … ++ (befores e ++ [e] ++ its subtotals ++ afters e) ++ … : each subtotal anchored to `e`
    comes immediately after `e`, only preceded by earlier-defined subtotals of the same anchor. -/
theorem subtotal_after_anchor (pre post : List Nat) (e : Nat) (places : List Place) (dps : List (Nat × Place)) :
    specSequence (pre ++ e :: post) places dps =
      subsAt places .top ++ dersAt dps .top
        ++ pre.flatMap (fun e => dersAt dps (.before e) ++ [(e : Int)] ++ subsAt places (.after e) ++ dersAt dps (.after e))
        ++ (dersAt dps (.before e) ++ [(e : Int)] ++ subsAt places (.after e) ++ dersAt dps (.after e))
        ++ post.flatMap (fun e => dersAt dps (.before e) ++ [(e : Int)] ++ subsAt places (.after e) ++ dersAt dps (.after e))
        ++ (subsAt places .bottom ++ dersAt dps .bottom) := by
  simp [specSequence, List.flatMap_append, List.append_assoc]

/-- which subtotals sit in a group: exactly those placed there … -/
theorem mem_subsAt (places : List Place) (p : Place) (j : Int) :
    j ∈ subsAt places p ↔ ∃ k, k < places.length ∧ places[k]? = some p ∧ j = (k : Int) - places.length :=
  mem_subsAt_iff places p j

/-- … in definition order. -/
theorem same_anchor_definition_order (places : List Place) (p : Place) :
    (subsAt places p).Pairwise (· < ·) :=
  subsAt_pairwise places p

/-- top / bottom anchors, and anchors that no longer exist, go to the top / bottom group. -/
theorem top_bottom (ids : List Eid) (order : List Nat) (s : Sub) :
    (s.anchor = .top → subPlace ids order s = .top) ∧
    (s.anchor = .bottom → subPlace ids order s = .bottom) ∧
    (∀ n, s.anchor = .elem n → idxOfId ids (.int n) = none → subPlace ids order s = .bottom) ∧
    (∀ n e, s.anchor = .elem n → idxOfId ids (.int n) = some e → e ∉ order → subPlace ids order s = .bottom) ∧
    (∀ n e, s.anchor = .elem n → idxOfId ids (.int n) = some e → e ∈ order → subPlace ids order s = .after e) := by
  refine ⟨?_, ?_, ?_, ?_, ?_⟩
  · intro h; simp [subPlace, h]
  · intro h; simp [subPlace, h]
  · intro n h h2; simp [subPlace, h, h2]
  · intro n e h h2 h3; simp [subPlace, h, h2, h3]
  · intro n e h h2 h3; simp [subPlace, h, h2, h3]

/-- anchor normalisation: `None`, stale and missing ids → bottom; case-folding of words;
    numeric strings are ids. -/
theorem stale_anchor_bottom (ids : List Eid) (n : Int) (h : Eid.int n ∉ ids) :
    normAnchor ids .null = some .bottom ∧ normAnchor ids (.int n) = some .bottom ∧
    normAnchor ids (.numStr n) = some .bottom := by
  simp [normAnchor, h]

theorem anchor_spelling (ids : List Eid) (n : Int) (h : Eid.int n ∈ ids) (s : String) :
    normAnchor ids (.int n) = some (.elem n) ∧ normAnchor ids (.numStr n) = some (.elem n) ∧
    (s.toLower = "top" → normAnchor ids (.word s) = some .top) ∧
    (s.toLower = "bottom" → normAnchor ids (.word s) = some .bottom) := by
  refine ⟨by simp [normAnchor, h], by simp [normAnchor, h], ?_, ?_⟩
  · intro hs; simp [normAnchor, hs]
  · intro hs
    have : ¬ ("bottom" = "top") := by decide
    simp [normAnchor, hs, this]

/-! ## the two renderings name the same sequence -/

/-- 'ins_N' rendering = the signed order with each negative index replaced by the id of the
    subtotal it denotes (never a KeyError). -/
theorem formats_agree (d : Dim) (explicit : Option (List Eid)) (empties : List Nat)
    (hids : d.ids.Nodup) (hlen : (d.elems.length : Int) ≤ maxsize) :
    (match explicit with
      | none => payloadOrderBogus d empties
      | some ex => explicitOrderBogus d ex empties) = some (specItems d explicit empties) := by
  cases explicit with
  | none => exact payload_bogus_eq d empties hids hlen
  | some ex => exact explicit_bogus_eq d ex empties hids hlen

/-- distinct insertion ids ⇒ the 'ins_N' rendering has no repeats either. -/
theorem order_nodup_bogus (d : Dim) (explicit : Option (List Eid)) (empties : List Nat)
    (hids : d.ids.Nodup) (hlen : (d.elems.length : Int) ≤ maxsize) (hins : (bogusIds d.subs).Nodup) :
    (specItems d explicit empties).Nodup :=
  specItems_nodup d explicit empties hids hlen hins

/-- order helper of the matrix assembler: when every opposing base vector is pruned the
    insertions are dropped — in BOTH renderings (the repaired F19: no 'ins_N' survives, no error). -/
theorem pruned_subtotals_formats_agree (bogus : List Int) (order : List Int) :
    (∀ idx ∈ helperDisplayOrder true order, 0 ≤ idx) ∧
    render bogus (helperDisplayOrder true order) =
      some ((helperDisplayOrder true order).map (fun idx => Item.el idx.toNat)) ∧
    helperDisplayOrder false order = order := by
  have hnn : ∀ idx ∈ helperDisplayOrder true order, 0 ≤ idx := by
    intro idx h
    simp only [helperDisplayOrder, if_true, List.mem_filter, decide_eq_true_eq] at h
    exact h.2
  refine ⟨hnn, ?_, rfl⟩
  rw [render_eq bogus _ (fun idx h hneg => absurd (hnn idx h) (by omega))]
  congr 1
  apply List.map_congr_left
  intro idx h
  have := hnn idx h
  simp [itemOf, show ¬ idx < 0 by omega]

/-- the code as it stands (F18): the payload-order collator maps negative indices through
    the VIEW's insertion ids, so a re-ordered analysis insertion list is mis-named … -/
theorem formats_agree_unfixed_counterexample :
    let d : Dim := { elems := [{ id := .int 1 }, { id := .int 2 }],
                     subs := [{ anchor := .top, insId := 2 }, { anchor := .elem 2, insId := 1 }],
                     viewSubs := [{ anchor := .elem 1, insId := 1 }, { anchor := .top, insId := 2 }] }
    payloadOrderSigned d [] = [-2, 0, 1, -1] ∧
    payloadOrderBogus d [] = some [.ins 2, .el 0, .el 1, .ins 1] ∧
    payloadOrderBogusUnfixed d [] = some [.ins 1, .el 0, .el 1, .ins 2] := by
  intro d
  have h : payloadOrderSigned d [] = [-2, 0, 1, -1] := by
    rw [payload_eq_spec d [] (by decide) (by decide)]; decide
  refine ⟨h, ?_, ?_⟩
  · unfold payloadOrderBogus; rw [h]; decide
  · unfold payloadOrderBogusUnfixed; rw [h]; decide

/-- … or not named at all (KeyError) when it is not a subset of the view's. -/
theorem formats_agree_unfixed_keyerror :
    let d : Dim := { elems := [{ id := .int 1 }],
                     subs := [{ anchor := .top, insId := 2 }, { anchor := .elem 1, insId := 5 }],
                     viewSubs := [{ anchor := .elem 1, insId := 1 }, { anchor := .top, insId := 2 }] }
    payloadOrderBogus d [] = some [.ins 2, .el 0, .ins 5] ∧ payloadOrderBogusUnfixed d [] = none := by
  intro d
  have h : payloadOrderSigned d [] = [-2, 0, -1] := by
    rw [payload_eq_spec d [] (by decide) (by decide)]; decide
  refine ⟨?_, ?_⟩
  · unfold payloadOrderBogus; rw [h]; decide
  · unfold payloadOrderBogusUnfixed; rw [h]; decide

/-! ## numbering of id-less insertions -/

/-- defined on the variable (view): an id-less valid insertion at definition position `i` is
    numbered by its 1-based rank in payload display order. -/
theorem idless_view_id (ids : List Eid) (ins : List RawIns) (hids : ids.Nodup)
    (hlen : (ids.length : Int) ≤ maxsize)
    (hsome : ∃ r ∈ ins.filter (RawIns.valid ids), r.id = none) (i : Nat) (r : RawIns)
    (hi : (ins.filter (RawIns.valid ids))[i]? = some r) (hr : r.id = none) :
    (withIds true ids ins)[i]? =
      some (r.anchor, payloadRank ids ((ins.filter (RawIns.valid ids)).map
              (fun r => (normAnchor ids r.anchor).getD .bottom)) i) ∧
    (payloadRank ids ((ins.filter (RawIns.valid ids)).map
              (fun r => (normAnchor ids r.anchor).getD .bottom)) i).isSome :=
  view_id_eq_rank ids ins hids hlen hsome i r hi hr

/-- the code as it stands (F5): the anchor "2" (string spelling of id 2) is classified on its
    raw spelling and sent to the end of the crosswalk, so the ids come out 2,1 where the display
    ranks are 1,2 (the same happens for "TOP" / "Bottom"). -/
theorem idless_view_id_unfixed_counterexample :
    let ids : List Eid := [.int 2, .int 5]
    let ins : List RawIns := [{ positive := [.int 2], anchor := .numStr 2 },
                              { positive := [.int 2], anchor := .int 5 }]
    (withIdsUnfixed true ids ins).map (·.2) = [some 2, some 1] ∧
    (withIds true ids ins).map (·.2) = [some 1, some 2] ∧
    payloadRank ids [.elem 2, .elem 5] 0 = some 1 ∧ payloadRank ids [.elem 2, .elem 5] 1 = some 2 := by
  decide

/-- defined in the analysis (transforms): numbered by 1-based definition position. -/
theorem idless_transform_id (ids : List Eid) (ins : List RawIns)
    (hsome : ∃ r ∈ ins.filter (RawIns.valid ids), r.id = none) (i : Nat) (r : RawIns)
    (hi : (ins.filter (RawIns.valid ids))[i]? = some r) (hr : r.id = none) :
    (withIds false ids ins)[i]? = some (r.anchor, some ((i : Int) + 1)) :=
  transform_id_eq_position ids ins hsome i r hi hr

/-- insertions that carry an id keep it, in both cases. -/
theorem given_id_kept (fromView : Bool) (ids : List Eid) (ins : List RawIns) (i : Nat) (r : RawIns) (k : Int)
    (hi : (ins.filter (RawIns.valid ids))[i]? = some r) (hr : r.id = some k) :
    (withIds fromView ids ins)[i]? = some (r.anchor, some k) :=
  given_id_kept_lemma fromView ids ins i r k hi hr

/-! ## non-vacuity / sanity -/

-- hypotheses are satisfiable by a non-trivial dimension
example : let d : Dim := { elems := [{ id := .int 3 }, { id := .int 1 }, { id := .str "x" }], subs := [] }
    d.ids.Nodup ∧ (d.elems.length : Int) ≤ maxsize := by decide

example : ∃ r ∈ ([{ positive := [.int 2], anchor := .word "TOP" }] : List RawIns).filter (RawIns.valid [.int 2]),
    r.id = none := by decide

/-- evaluation of the anchored collators on concrete inputs (`mergeSort` is defined by
    well-founded recursion, so `decide` cannot unfold it; `simp` can). -/
macro "eval_anchored" : tactic => `(tactic|
  simp (decide := true) [explicitOrderSigned, payloadOrderSigned, anchoredOrder, sortKeys, List.mergeSort,
    List.merge, List.MergeSort.Internal.splitInTwo, keyLe, baseOrderings, insertionOrderings,
    insertionPosition, positionOf, payloadDescr, explicitDescr, popListed, remaining0, odInsert, negIdxs,
    derivedOrderings, derivedPosition, anchorById, Dim.ids, Dim.hid, hiddenIdxs, isHidden, maxsize,
    List.zipIdx, List.range, List.range.loop])

-- the integration-test cases of tests/integration/test_collator.py
example : explicitOrderSigned
    { elems := [{ id := .int 1 }, { id := .int 2 }, { id := .int 3 }],
      subs := [{ anchor := .bottom, insId := 1 }, { anchor := .elem 3, insId := 2 },
               { anchor := .elem 3, insId := 3 }, { anchor := .top, insId := 4 }] }
    [.int 2, .int 3, .int 1] [] = [-1, 1, 2, -3, -2, 0, -4] := by eval_anchored

example : payloadOrderSigned
    { elems := [{ id := .int 1 }, { id := .int 2 }, { id := .int 3 }],
      subs := [{ anchor := .bottom, insId := 1 }, { anchor := .elem 3, insId := 2 },
               { anchor := .elem 3, insId := 3 }, { anchor := .top, insId := 4 }] } [] =
    [-1, 0, 1, 2, -3, -2, -4] := by eval_anchored

-- a derived MR item anchored before the second listed item; hidden element dropped
example : explicitOrderSigned
    { elems := [{ id := .str "a" }, { id := .str "b" }, { id := .str "d", derived := true, danchor := .rel (.str "b") true }],
      subs := [], hidden := [0] }
    [.str "b", .str "zz", .str "b"] [] = [2, 1] := by eval_anchored

end CrCube.C07
