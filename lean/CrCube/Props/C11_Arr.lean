/-
  C11 on ordinary cells for ARBITRARY member / base predicates — in particular the cells of every
  categorical-array layout (`Spec/VarianceArrSpec.lean`; bases as proved in Props/C02_Arr.lean).

  `ordinary_variance_eq_indicator`: for any respondent predicates P (members of the cell) ⊆ B (the
  base of its proportion), the library's three-term formula on the two counts W(P), W(B) is the
  weighted variance among B of the indicator of P, and NaN exactly when the base is empty.  No
  decomposition of the slice into a rows and a columns variable is needed, so it covers slices whose
  rows and columns are the two axes of ONE array variable, where the column base of a cell is the
  cell itself (p = 1, variance 0 — `ordinary_variance_self_base`).
-/
import CrCube.Lemmas.VarianceLemmas
import CrCube.Spec.VarianceArrSpec

namespace CrCube.C11
open CrCube

theorem ordinary_unfold (dir : Dir) (np base : Rat) :
    (VarCell.ordinary dir np base).variance
      = varianceOf (.fin np / .fin base) (.fin base) (.fin np) (.fin 0) := by
  have ht : (VarCell.ordinary dir np base).total = .fin base := by
    cases dir <;> simp [VarCell.ordinary, VarCell.total, Side.base, Side.isDiff]
  have hp : (VarCell.ordinary dir np base).posCount = .fin np := by
    simp [VarCell.ordinary, VarCell.posCount, VarCell.bothDiff, Side.base, Side.isDiff]
  have hn : (VarCell.ordinary dir np base).negCount = .fin 0 := by
    simp [VarCell.ordinary, VarCell.negCount, VarCell.bothDiff, Side.base, Side.isDiff]
  have hc : (VarCell.ordinary dir np base).count = .fin np := by
    simp [VarCell.ordinary, VarCell.count, VarCell.bothDiff, Side.base, Side.isDiff, Val.sub_fin]
  have hpr : (VarCell.ordinary dir np base).proportion = .fin np / .fin base := by
    unfold VarCell.proportion
    rw [hc, ht]
    cases dir <;> simp [VarCell.ordinary, Side.base]
  unfold VarCell.variance
  rw [hpr, ht, hp, hn]

/-- **C11 for ordinary cells, any predicates.** members ⊆ base, non-negative weights ⇒ the library's
    formula on (W(P), W(B)) is the indicator variance among the base; NaN iff the base is empty -/
theorem ordinary_variance_eq_indicator (s : Survey) (B P : Resp → Bool) (dir : Dir)
    (hPB : ∀ r ∈ s, P r = true → B r = true) (hw : WeightsNonneg s) :
    (VarCell.ordinary dir (wsum s P) (wsum s B)).variance
      = indicatorVariance s B P (fun _ => false) := by
  rw [ordinary_unfold]
  unfold indicatorVariance
  by_cases hb : wsum s B = 0
  · rw [if_pos hb]
    unfold varianceOf
    apply calcVar_nan_of_np_div
    rw [hb, wsum_zero_of_subset s _ _ hw hPB hb]
    decide
  · rw [if_neg hb]
    unfold varianceOf
    rw [Val.div_fin_ne _ _ hb, countIgnored_fin, calcVar_fin _ _ _ _ _ hb]
    congr 1
    have key := wvariance_indicator s B P (fun _ => false) (fun r _ => by simp) hb
    simp only at key
    have hN0 : wsum s (fun r => B r && false) = 0 := by
      rw [← wsum_false s]
      apply wsum_congr
      intro r _
      simp
    rw [key, wsum_and_of_subset s _ _ hPB, hN0]
    ring

/-- p(1 − p) form -/
theorem ordinary_variance_p (s : Survey) (B P : Resp → Bool) (dir : Dir) (hb : wsum s B ≠ 0) :
    let p := wsum s P / wsum s B
    (VarCell.ordinary dir (wsum s P) (wsum s B)).variance = .fin (p * (1 - p)) := by
  intro p
  rw [ordinary_unfold]
  unfold varianceOf
  rw [Val.div_fin_ne _ _ hb, countIgnored_fin, calcVar_fin _ _ _ _ _ hb]
  congr 1
  simp only [p]
  field_simp
  ring

/-- a cell that is its own base (column proportion down array items, row proportion across them):
    variance 0 where populated, NaN where empty -/
theorem ordinary_variance_self_base (s : Survey) (P : Resp → Bool) (dir : Dir) :
    (VarCell.ordinary dir (wsum s P) (wsum s P)).variance
      = if wsum s P = 0 then .nan else .fin 0 := by
  by_cases hb : wsum s P = 0
  · rw [if_pos hb, ordinary_unfold, hb]
    unfold varianceOf
    apply calcVar_nan_of_np_div
    decide
  · rw [if_neg hb]
    have h := ordinary_variance_p s P P dir hb
    simp only at h
    rw [h]
    congr 1
    field_simp
    ring

/-- the array statement: model on the respondent-level counts of the cell = spec -/
theorem arr_variance_eq_spec (vars : List Var) (s : Survey) (dir : Dir) (elems : List Nat)
    (fCell fBase : List Bool) (hw : WeightsNonneg s)
    (hPB : ∀ r ∈ s, arrPred vars elems fCell r = true → arrPred vars elems fBase r = true) :
    (VarCell.ofArr vars s dir elems fCell fBase).variance = arrVarianceSpec vars s elems fCell fBase :=
  ordinary_variance_eq_indicator s _ _ dir hPB hw

/-- std-dev / std-err / MoE of the array cell are the defining expressions of its variance and base -/
theorem arr_stats_eq_spec (vars : List Var) (s : Survey) (dir : Dir) (elems : List Nat)
    (fCell fBase : List Bool) (hw : WeightsNonneg s)
    (hPB : ∀ r ∈ s, arrPred vars elems fCell r = true → arrPred vars elems fBase r = true) :
    let c := VarCell.ofArr vars s dir elems fCell fBase
    let v := arrVarianceSpec vars s elems fCell fBase
    c.stdDev = stdDevSpec v ∧ c.stdErr = stdErrSpec v (arrBaseSpec vars s elems fBase)
      ∧ c.moe = moeSpec (stdErrSpec v (arrBaseSpec vars s elems fBase)) := by
  intro c v
  have hv : c.variance = v := arr_variance_eq_spec vars s dir elems fCell fBase hw hPB
  have ht : c.total = .fin (arrBaseSpec vars s elems fBase) := by
    cases dir <;> simp [c, VarCell.ofArr, VarCell.ordinary, VarCell.total, Side.base, Side.isDiff, arrBaseSpec]
  refine ⟨?_, ?_, ?_⟩
  · simp [VarCell.stdDev, stdDevSpec, hv]
  · simp [VarCell.stdErr, stdErrSpec, hv, ht]
  · simp [VarCell.moe, moeOf, moeSpec, VarCell.stdErr, stdErrSpec, hv, ht, Z975]

/-! non-vacuity: a 2-item × 3-category array (middle category missing), three respondents; the cell
    (item 0, valid category 1) with its ROW base (valid answer on item 0) and its COLUMN base (itself) -/
section examples
def exA : Var := { kind := .arr, n := 2, catMissing := [false, true, false] }
def exS : Survey := [⟨1, [[0, 2]]⟩, ⟨2, [[2, 1]]⟩, ⟨1/2, [[1, 1]]⟩, ⟨3, [[2, 2]]⟩]
example : ∀ r ∈ exS, arrPred [exA] [0, 1] [false, false] r = true → arrPred [exA] [0, 1] [false, true] r = true := by decide
example : ∀ r ∈ exS, arrPred [exA] [0, 1] [false, false] r = true → arrPred [exA] [0, 1] [true, false] r = true := by decide
example : WeightsNonneg exS := by
  intro r hr
  simp only [exS, List.mem_cons, List.mem_nil_iff, or_false] at hr
  rcases hr with rfl | rfl | rfl | rfl <;> decide +kernel
-- row base of (item 0, category 1): weights 1, 2, 3 with 2 + 3 members: p = 5/6, variance 5/36;
-- its column base is the cell itself: variance 0; an empty cell: NaN
example : arrVarianceSpec [exA] exS [0, 1] [false, false] [false, true] = .fin (5/36)
    ∧ (VarCell.ofArr [exA] exS .row [0, 1] [false, false] [false, true]).variance = .fin (5/36)
    ∧ arrVarianceSpec [exA] exS [0, 1] [false, false] [true, false] = .fin 0
    ∧ (VarCell.ofArr [exA] exS .col [0, 1] [false, false] [true, false]).variance = .fin 0
    ∧ arrVarianceSpec [exA] exS [1, 0] [false, false] [true, false] = .nan := by decide +kernel
end examples

end CrCube.C11
