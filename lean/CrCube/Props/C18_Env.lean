/-
  C18 — results are a pure function of the arguments, whatever the access history:
  the PROCESS ENVIRONMENT and the CALLER'S RESPONSE as channels of history.

  Model: `CrCube.Env`.  The hypotheses (`EnvPreserved`; `view (prep a) = view a`) are what
  `harness/props/c18_env.py` checks on the real library (environment snapshot after every read of a
  schedule under several caller configurations; the response dict against a pristine copy and a second
  user of the used dict against a fresh one).
-/
import CrCube.Model.Env

namespace CrCube.C18
open CrCube.Env

private theorem env_inv {E V : Type} (prog : Nat → Def E V) (hp : EnvPreserved prog) (e : E) :
    ∀ (ops : List Op) (st : St E V), st.env = e → (∀ s v, st.cache s = some v → v = (prog s).val e) →
      run prog ops st = ops.map (freshOf prog e) := by
  intro ops
  induction ops with
  | nil => intro st _ _; rfl
  | cons o os ih =>
    intro st he hc
    cases o with
    | fresh =>
      simp only [run, step, List.map_cons, freshOf]
      congr 1
      exact ih _ he (by intro s v h; simp at h)
    | read s =>
      simp only [run, List.map_cons, freshOf]
      cases hcs : st.cache s with
      | some v =>
        have hv := hc s v hcs
        simp only [step, hcs]
        rw [hv]
        congr 1
        exact ih st he hc
      | none =>
        simp only [step, hcs]
        rw [he]
        congr 1
        apply ih
        · exact hp s e
        · intro k v h
          by_cases hk : k = s
          · subst hk; simp at h; exact h.symm
          · simp [hk] at h; exact hc k v h

/-- (a) For ALL programs of lazy properties whose outcome may depend on the process environment and ALL
    histories of reads and constructions of brand-new objects: if no property body changes the environment,
    every read returns the outcome of a fresh evaluation in the caller's environment. -/
theorem env_read_refines {E V : Type} (prog : Nat → Def E V) (hp : EnvPreserved prog) (e : E) (ops : List Op) :
    run prog ops (St.init e) = ops.map (freshOf prog e) :=
  env_inv prog hp e ops (St.init e) rfl (by intro s v h; simp [St.init] at h)

/-- … and the environment the caller gets back is the one it installed -/
theorem env_preserved_run {E V : Type} (prog : Nat → Def E V) (hp : EnvPreserved prog) (e : E) :
    ∀ (ops : List Op) (st : St E V), st.env = e →
      (ops.foldl (fun st o => (step prog st o).2) st).env = e := by
  intro ops
  induction ops with
  | nil => intro st h; exact h
  | cons o os ih =>
    intro st h
    simp only [List.foldl_cons]
    apply ih
    cases o with
    | fresh => exact h
    | read s =>
      cases hcs : st.cache s with
      | some v => simp only [step, hcs]; exact h
      | none => simp only [step, hcs]; rw [h]; exact hp s e

/-- the seeded shape: property 0 (`t_stats`) switches the strict mode off without a scope, property 1 (an
    unguarded 0/0) raises (`-1`) in strict mode and gives NaN (`0`) otherwise -/
def leaky : Nat → Def Bool Int
  | 0 => { val := fun _ => 7, wr := fun _ => false }
  | _ => { val := fun strict => if strict then -1 else 0, wr := id }

/-- (b) one unscoped environment write and a read on a BRAND-NEW object differs from its fresh evaluation -/
theorem env_write_counterexample :
    run leaky [.read 0, .fresh, .read 1] (St.init true) ≠ [.read 0, .fresh, .read 1].map (freshOf leaky true)
    ∧ ¬ EnvPreserved leaky := by
  refine ⟨by decide, ?_⟩
  intro h
  have := h 0 true
  simp [leaky] at this

example : EnvPreserved (fun _ => ({ val := fun (e : Bool) => if e then (1 : Int) else 0, wr := id } : Def Bool Int)) := by
  intro s e; rfl

/-- (c) arguments: if one use of a response leaves a dict that a user sees exactly as the pristine one, so does
    every number of uses: the n-th user reports what a fresh evaluation reports -/
theorem args_reuse_refines {A V : Type} (prep : A → A) (view : A → V) (h : ∀ a, view (prep a) = view a) :
    ∀ (n : Nat) (a : A), view (usedBy prep n a) = view a := by
  intro n
  induction n with
  | zero => intro a; rfl
  | succ n ih => intro a; simp only [usedBy]; rw [ih (prep a), h a]

/-- the seeded shape: a typedef = (listed category ids, data `order`); the user classifies by the LISTED ids
    ([1, 0, -1] = logical) and stores the rearranged list back -/
def writeBack : List Int × List Int → List Int × List Int := fun a => (a.2, a.2)
def isLogical : List Int × List Int → Bool := fun a => a.1 == [1, 0, -1]

/-- (d) the write-back is idempotent, yet the second user classifies the dimension differently -/
theorem args_write_counterexample :
    (∀ a, writeBack (writeBack a) = writeBack a) ∧
    isLogical (usedBy writeBack 1 ([0, 1, -1], [1, 0, -1])) ≠ isLogical ([0, 1, -1], [1, 0, -1]) := by
  refine ⟨fun a => rfl, by decide⟩

end CrCube.C18
