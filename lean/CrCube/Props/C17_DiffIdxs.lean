/-
  C17 — which display positions are blanked ("subtotal differences are NaN"): the decision of
  `_Slice._diff_element_idxs` / `_Strand.diff_row_idxs` is positional and does not look at insertion ids.
  Model: CrCube/Model/DiffIdxs.lean (`diffIdxs` = `Pipeline.flagPositions` on `[False]*n_valid ++ is_difference`).
-/
import CrCube.Props.C17
import CrCube.Lemmas.Pipeline
import CrCube.Model.DiffIdxs

namespace CrCube.C17
open CrCube CrCube.Population CrCube.Pipeline CrCube.DiffIdxs

/-- the flag read through a signed display index: base elements never, the subtotal `m + x` for `-m ≤ x < 0` -/
theorem flag_at (n : Nat) (fl : List Bool) (x : Int) (hlo : -(fl.length : Int) ≤ x) (hhi : x < n) :
    (List.replicate n false ++ fl).getD (wrapIdx (List.replicate n false ++ fl).length x) false
      = (decide (x < 0) && fl.getD ((fl.length : Int) + x).toNat false) := by
  simp only [List.length_append, List.length_replicate, wrapIdx]
  by_cases hx : x < 0
  · have h1 : (((n + fl.length : Nat) : Int) + x).toNat = n + ((fl.length : Int) + x).toNat := by omega
    simp only [hx, if_true, decide_true, Bool.true_and, h1, List.getD_eq_getElem?_getD]
    rw [List.getElem?_append_right (by simp)]
    simp
  · have h2 : x.toNat < n := by omega
    simp only [hx, if_false, decide_false, Bool.false_and, List.getD_eq_getElem?_getD]
    rw [List.getElem?_append_left (by simpa using h2)]
    simp [h2]

/-- **diffIdxs_mem**: display position `p` is blanked iff its signed index names an inserted subtotal
    (`x < 0`) and THAT subtotal — the `(m + x)`-th of the dimension's subtotal sequence — is a difference.
    No insertion id occurs in the statement (nor in `diffIdxs`). -/
theorem diffIdxs_mem (n : Nat) (fl : List Bool) (o : List Int) (p : Nat)
    (hr : ∀ x ∈ o, -(fl.length : Int) ≤ x ∧ x < n) :
    p ∈ diffIdxs n fl o ↔
      ∃ x, o[p]? = some x ∧ x < 0 ∧ fl.getD ((fl.length : Int) + x).toNat false = true := by
  unfold diffIdxs
  rw [mem_flagPositions]
  constructor
  · rintro ⟨x, hx, hf⟩
    have hm := hr x (List.mem_of_getElem? hx)
    rw [flag_at n fl x hm.1 hm.2] at hf
    simp only [Bool.and_eq_true, decide_eq_true_eq] at hf
    exact ⟨x, hx, hf.1, hf.2⟩
  · rintro ⟨x, hx, hneg, hf⟩
    have hm := hr x (List.mem_of_getElem? hx)
    refine ⟨x, hx, ?_⟩
    rw [flag_at n fl x hm.1 hm.2, hf]
    simp [hneg]

/-- **diffIdxs_base_not_mem**: a position showing a base element is never blanked -/
theorem diffIdxs_base_not_mem (n : Nat) (fl : List Bool) (o : List Int) (p : Nat) (x : Int)
    (hr : ∀ x ∈ o, -(fl.length : Int) ≤ x ∧ x < n) (hp : o[p]? = some x) (hx : 0 ≤ x) :
    p ∉ diffIdxs n fl o := by
  intro hmem
  obtain ⟨y, hy, hneg, _⟩ := (diffIdxs_mem n fl o p hr).1 hmem
  rw [hp] at hy
  cases hy
  omega

example : diffIdxs 4 [false, true] [-2, 0, 1, 2, 3, -1] = [5] := by decide
example : ∀ x ∈ ([-2, 0, 1, 2, 3, -1] : List Int), -(([false, true] : List Bool).length : Int) ≤ x ∧ x < (4 : Nat) := by decide

/-- **slice_blank_iff_difference** (the population estimate of a cell): with the slice's difference positions
    computed by `diffIdxs` from the two dimensions, a cell is NaN-blanked when its row or column position shows a
    difference subtotal, and is `chosen proportion × population × fraction` when neither does — in particular on
    every plain subtotal, whatever ids the insertions carry. -/
theorem slice_blank_iff_difference (s : Population.SliceIn) (nr nc : Nat) (rfl' cfl : List Bool) (ro co : List Int)
    (hdr : s.diffRows = diffIdxs nr rfl' ro) (hdc : s.diffCols = diffIdxs nc cfl co)
    (hrr : ∀ x ∈ ro, -(rfl'.length : Int) ≤ x ∧ x < nr) (hrc : ∀ x ∈ co, -(cfl.length : Int) ≤ x ∧ x < nc)
    (population fraction : Val) (i j : Nat) :
    ((∃ x, ro[i]? = some x ∧ x < 0 ∧ rfl'.getD ((rfl'.length : Int) + x).toNat false = true) ∨
     (∃ y, co[j]? = some y ∧ y < 0 ∧ cfl.getD ((cfl.length : Int) + y).toNat false = true) →
        s.popCounts population fraction i j = Val.nan) ∧
    (¬ (∃ x, ro[i]? = some x ∧ x < 0 ∧ rfl'.getD ((rfl'.length : Int) + x).toNat false = true) →
     ¬ (∃ y, co[j]? = some y ∧ y < 0 ∧ cfl.getD ((cfl.length : Int) + y).toNat false = true) →
        s.popCounts population fraction i j = s.chosenProps i j * population * fraction) := by
  constructor
  · intro h
    apply diffs_nan
    rcases h with h | h
    · left; rw [hdr]; simpa using (diffIdxs_mem nr rfl' ro i hrr).2 h
    · right; rw [hdc]; simpa using (diffIdxs_mem nc cfl co j hrc).2 h
  · intro hr hc
    have h1 : s.diffRows.contains i = false := by
      rw [hdr]; simpa using fun hm => hr ((diffIdxs_mem nr rfl' ro i hrr).1 hm)
    have h2 : s.diffCols.contains j = false := by
      rw [hdc]; simpa using fun hm => hc ((diffIdxs_mem nc cfl co j hrc).1 hm)
    unfold Population.SliceIn.popCounts Population.SliceIn.popProps
    rw [h2, h1]
    simp

theorem mem_diffIds_sub (ids : List Int) (fl : List Bool) (x : Int) (h : x ∈ diffIds ids fl) : x ∈ ids := by
  unfold diffIds at h
  simp only [List.mem_map, List.mem_filter] at h
  obtain ⟨⟨a, b⟩, ⟨hz, _⟩, rfl⟩ := h
  exact (List.of_mem_zip hz).1

theorem diffIds_cons (a : Int) (t : List Int) (b : Bool) (u : List Bool) :
    diffIds (a :: t) (b :: u) = if b then a :: diffIds t u else diffIds t u := by
  unfold diffIds
  cases b <;> simp [List.zip_cons_cons]

theorem diffIds_contains (ids : List Int) : ∀ (fl : List Bool) (k : Nat), ids.length = fl.length → ids.Nodup →
    k < ids.length → (diffIds ids fl).contains (ids.getD k 0) = fl.getD k false := by
  induction ids with
  | nil => intro fl k _ _ hk; simp at hk
  | cons a t ih =>
    intro fl k hlen hnd hk
    cases fl with
    | nil => simp at hlen
    | cons b u =>
      have hnd' := List.nodup_cons.1 hnd
      rw [diffIds_cons]
      cases k with
      | zero =>
        cases b
        · have : a ∉ diffIds t u := fun h => hnd'.1 (mem_diffIds_sub t u a h)
          simpa using this
        · simp
      | succ k' =>
        have hk' : k' < t.length := by simpa using hk
        have hlen' : t.length = u.length := by simpa using hlen
        have hne : t.getD k' 0 ≠ a := by
          intro h
          apply hnd'.1
          rw [← h, List.getD_eq_getElem?_getD, List.getElem?_eq_getElem hk']
          simp
        have := ih u k' hlen' hnd'.2 hk'
        cases b
        · simpa using this
        · simp only [if_true, List.getD_cons_succ]
          rw [← this]
          have hne' : t[k']?.getD 0 ≠ a := by simpa [List.getD_eq_getElem?_getD] using hne
          simp only [List.getD_eq_getElem?_getD, List.contains_eq_mem]
          congr 1
          simp [List.mem_cons, hne']

/-- **diffIdxs_by_id_eq_of_nodup**: when the insertion ids of the dimension are pairwise distinct, deciding by id
    is the same function as the code's positional decision — so only dimensions where two insertions share an id
    (see the counterexample) tell the two apart. -/
theorem diffIdxs_by_id_eq_of_nodup (n : Nat) (ids : List Int) (fl : List Bool) (o : List Int)
    (hlen : ids.length = fl.length) (hnd : ids.Nodup) (hr : ∀ x ∈ o, -(fl.length : Int) ≤ x ∧ x < n) :
    diffIdxsById ids fl o = diffIdxs n fl o := by
  unfold diffIdxsById diffIdxs flagPositions
  congr 1
  apply List.map_congr_left
  intro x hx
  have hm := hr x hx
  rw [flag_at n fl x hm.1 hm.2]
  by_cases hneg : x < 0
  · have hk : ((ids.length : Int) + x).toNat < ids.length := by omega
    have hw : wrapIdx ids.length x = ((ids.length : Int) + x).toNat := by simp [wrapIdx, hneg]
    rw [hw, diffIds_contains ids fl _ hlen hnd hk, hlen]
  · simp [hneg]

example : ([3, 1, 2] : List Int).Nodup ∧ ([3, 1, 2] : List Int).length = ([true, false, true] : List Bool).length := by decide
example : diffIdxsById [3, 1, 2] [true, false, true] [-3, 0, -2, 1, -1] = [0, 4] := by decide

/-- **diffIdxs_by_id_counterexample**: identifying insertions by id is a DIFFERENT function as soon as two
    insertions share an id (transform insertions `[{id: 2, plain}, {no id, difference}]` are both numbered 2):
    the plain subtotal at display position 0 would be blanked. -/
theorem diffIdxs_by_id_counterexample :
    diffIdxs 4 [false, true] [-2, 0, 1, 2, 3, -1] = [5] ∧
    diffIdxsById [2, 2] [false, true] [-2, 0, 1, 2, 3, -1] = [0, 5] := by decide

end CrCube.C17
