/-
  C01 (extension) — cell counts for the remaining dimension-type pairings of
  `_BaseCubeCounts.factory`: MR × ARR and ARR × ARR, and for the cube layouts in which the two axes
  of a categorical array STRADDLE another variable.  Property theorems only; helpers in
  Lemmas/SliceArrPairs.lean; model in Model/SliceArrPairs.lean (the library's single code path
  `sliceCountsOf` on the re-arranged payload).

  Notation as in C01_Arr: `A.IsCA` categorical array, `A.n` items, `A.np` valid categories,
  `X.CM` / `M.CM` categorical-like or multiple response, `caAnswer A a i k false` = "the answer on
  item i is the k-th valid category".

  (S1) `s1_*`    payload categories(A) × X × items(A): apparent CA_CAT × X × CA_SUBVAR, partition k =
                 valid category k of A, slice X × ARR  — `_MrXArrCubeCounts` when X is MR (fixture
                 ca-cat-x-mr-x-ca-subvar-hs.json), `_CatXArrCubeCounts` when X is categorical
  (S2) `s2_*`    payload items(A) × X × categories(A): apparent CA_SUBVAR × X × CA_CAT, partition k =
                 item k of A, slice X × CAT — `_MrXCatCubeCounts` / `_CatXCatCubeCounts`
  (F)  `fused_*` q fused variables of one design M ("scorecard", fixture scorecard.json for MR):
                 apparent M × CA_SUBVAR, ONE slice, `_MrXArrCubeCounts` (M MR) / `_CatXArrCubeCounts`
  (AA) `arrXarr_*` two array-items axes: the library reports the payload cell; no layout of the
                 tabulation contract produces this pairing (`arrXarr_unreachable`), every other
                 pairing is produced (`type_pairs_reached`).
-/
import CrCube.Lemmas.SliceArrPairs
import CrCube.Props.C01_Arr

set_option linter.unusedSimpArgs false

namespace CrCube.C01
open CrCube

/-! ### what the respondent-level counts of these designs SAY, spelled out per respondent -/

/-- S1 / S2 are renderings of the design [A, X]: a respondent is in (item j of A, category k of A,
    element i of X) iff her answer on item j is the k-th valid category (`m1 = true`: is ANY valid
    category) and she belongs to element i of X (`m2 = true`: has a valid answer on X / is
    non-missing on item i of a multiple-response X).  The items flag `m0` is immaterial. -/
theorem straddle_reading (A X : Var) (hA : A.IsCA) (hX : X.CM) (s : Survey) (j k i : Nat)
    (m0 m1 m2 : Bool) :
    specCount [A, X] s [j, k, i] [m0, m1, m2]
      = wsum s fun r => match r.ans with
          | [aA, aX] => caAnswer A aA j k m1 && X.specMem aX [i] [m2]
          | _ => false :=
  caXcm_reading A X hA hX s j k i m0 m1 m2

/-- fused layout: a respondent is in cell (element i, variable j) iff she belongs to element i of
    HER ANSWER TO VARIABLE j (`m = true`: has a valid answer for it); the other variables of the
    group play no role -/
theorem fused_reading (M : Var) (s : Survey) (i j : Nat) (m : Bool) :
    fusedCount M s i j m
      = wsum s fun r => match r.ans[j]? with
          | some a => M.specMem a [i] [m]
          | none => false := by
  unfold fusedCount fusedMem
  apply wsum_congr
  intro r _
  cases r.ans[j]? <;> rfl

/-- … for multiple-response variables ([selected, other, missing]): "selected item i of variable j"
    (position 0 of the selection axis) / "item i of variable j is selected or not selected" -/
theorem fusedMR_reading (n : Nat) (s : Survey) (i j : Nat) :
    let M : Var := ⟨.arr, n, [false, false, true], true⟩
    fusedCount M s i j false
      = (wsum s fun r => match r.ans[j]? with
          | some a => a[i]? == some 0
          | none => false) ∧
    fusedCount M s i j true
      = (wsum s fun r => match r.ans[j]? with
          | some a => a[i]? == some 0 || a[i]? == some 1
          | none => false) := by
  intro M
  constructor <;>
  · unfold fusedCount fusedMem
    apply wsum_congr
    intro r _
    cases r.ans[j]? with
    | none => rfl
    | some a =>
      cases h : a[i]? with
      | none => simp [M, Var.specMem, h]
      | some c =>
        simp only [M, Var.specMem, h, Var.vpos, Var.isValidPos]
        have hv : validIdxs [false, false, true] = [0, 1] := by decide
        rw [hv]
        rcases c with _ | _ | c <;> simp

/-! ### (S1) categories(A) × X × items(A) -/

/-- partition k (= valid category k of A), cell (i, j): the weighted number of respondents who
    belong to element i of X (selected item i, for multiple response) and answered the k-th valid
    category on ITEM j of the array -/
theorem s1_counts_faithful (A X : Var) (hA : A.IsCA) (hX : X.CM) (s : Survey) (k i j : Nat)
    (hk : k < A.np) (hi : i < X.ext) (hj : j < A.n) :
    (sliceCountsS1 A X (cubeOfS1 A X s) k).counts i j
      = .fin (specCount [A, X] s [j, k, i] [false, false, false]) := by
  rw [cubeOfS1, sliceS1_counts A X hX]
  exact rawT2_counts A X hA hX s k j i hk hj hi false

theorem s1_ucounts_faithful (A X : Var) (hA : A.IsCA) (hX : X.CM) (s : Survey) (k i j : Nat)
    (hk : k < A.np) (hi : i < X.ext) (hj : j < A.n) :
    (sliceCountsS1 A X (cubeOfS1 A X (unweight s)) k).counts i j
      = .fin (((s.filter fun r =>
          specMemAll [A, X] r.ans [j, k, i] [false, false, false]).length : Nat) : Rat) := by
  rw [s1_counts_faithful A X hA hX _ k i j hk hi hj, specCount_unweight]

/-- one partition per VALID CATEGORY of A; rows = valid elements of X, columns = items of A -/
theorem s1_extent (A X : Var) (hX : X.CM) (rawS : FT) (k : Nat) :
    nPartitionsS1 A X = A.np ∧
    (sliceCountsS1 A X rawS k).nrows = X.ext ∧ (sliceCountsS1 A X rawS k).ncols = A.n :=
  ⟨nPartitionsS1_eq A X hX, (sliceS1_shape A X hX k rawS).1, (sliceS1_shape A X hX k rawS).2⟩

/-- the extractor class the factory picks in layout S1: MR × ARR for a multiple-response X,
    CAT × ARR otherwise -/
theorem s1_type_pair (X : Var) (hX : X.CM) :
    lastTwo (kindsS1 X) = some (if X.kind = .arr then DK.mr else DK.cat, DK.arr) := by
  rcases hX with hX | ⟨hX, hmX, _⟩ <;> simp [kindsS1, Var.dks, hX, *, lastTwo]

/-! ### (S2) items(A) × X × categories(A) -/

/-- partition k (= item k of A), cell (i, j): the weighted number of respondents who belong to
    element i of X and answered the j-th valid category on item k -/
theorem s2_counts_faithful (A X : Var) (hA : A.IsCA) (hX : X.CM) (s : Survey) (k i j : Nat)
    (hk : k < A.n) (hi : i < X.ext) (hj : j < A.np) :
    (sliceCountsS2 A X (cubeOfS2 A X s) k).counts i j
      = .fin (specCount [A, X] s [k, j, i] [false, false, false]) := by
  rw [cubeOfS2, sliceS2_counts A X hX]
  exact rawT2_counts A X hA hX s j k i hj hk hi false

theorem s2_ucounts_faithful (A X : Var) (hA : A.IsCA) (hX : X.CM) (s : Survey) (k i j : Nat)
    (hk : k < A.n) (hi : i < X.ext) (hj : j < A.np) :
    (sliceCountsS2 A X (cubeOfS2 A X (unweight s)) k).counts i j
      = .fin (((s.filter fun r =>
          specMemAll [A, X] r.ans [k, j, i] [false, false, false]).length : Nat) : Rat) := by
  rw [s2_counts_faithful A X hA hX _ k i j hk hi hj, specCount_unweight]

/-- one partition per item of A; rows = valid elements of X, columns = VALID categories of A -/
theorem s2_extent (A X : Var) (hX : X.CM) (rawS : FT) (k : Nat) :
    nPartitionsS2 A X = A.n ∧
    (sliceCountsS2 A X rawS k).nrows = X.ext ∧ (sliceCountsS2 A X rawS k).ncols = A.np :=
  ⟨nPartitionsS2_eq A X hX, (sliceS2_shape A X hX k rawS).1, (sliceS2_shape A X hX k rawS).2⟩

/-! ### (F) fused variables ("scorecard") -/

/-- cell (i, j) of the one slice: the weighted number of respondents who belong to element i of
    variable j (who selected item i of multiple-response variable j) -/
theorem fused_counts_faithful (M : Var) (hM : M.CM) (q : Nat) (s : Survey) (i j : Nat)
    (hi : i < M.ext) (hj : j < q) :
    (sliceCountsFused M q (cubeOfFused M q s)).counts i j = .fin (fusedCount M s i j false) := by
  rw [sliceF_counts M hM q _ i j hj]
  exact rawF_counts M hM q s i j hi

theorem fused_ucounts_faithful (M : Var) (hM : M.CM) (q : Nat) (s : Survey) (i j : Nat)
    (hi : i < M.ext) (hj : j < q) :
    (sliceCountsFused M q (cubeOfFused M q (unweight s))).counts i j
      = .fin (((s.filter (fusedMem M i j false)).length : Nat) : Rat) := by
  rw [fused_counts_faithful M hM q _ i j hi hj]
  unfold fusedCount
  rw [wsum_unweight s _ (fun _ => rfl)]

/-- one slice; rows = valid elements of M, columns = the q variables; the factory's type pair -/
theorem fused_extent (M : Var) (hM : M.CM) (q : Nat) (raw : FT) :
    (sliceCountsFused M q raw).nrows = M.ext ∧ (sliceCountsFused M q raw).ncols = q ∧
    lastTwo (M.dks ++ [.arr]) = some (if M.kind = .arr then DK.mr else DK.cat, DK.arr) := by
  refine ⟨(sliceF_shape M hM q raw).1, (sliceF_shape M hM q raw).2, ?_⟩
  rcases hM with hM | ⟨hM, hmM, _⟩ <;> simp [Var.dks, hM, *, lastTwo]

/-! ### (AA) two array-items axes -/

/-- whatever the payload, an ARR × ARR slice reports the payload cell at the valid element
    positions; its extents are the numbers of valid elements -/
theorem arrXarr_reports_payload (rv cv : List Nat) (raw : FT) (i j : Nat) :
    (sliceCountsAA rv cv raw).counts i j = raw.get [rv.getD i 0, cv.getD j 0] ∧
    (sliceCountsAA rv cv raw).nrows = rv.length ∧ (sliceCountsAA rv cv raw).ncols = cv.length := by
  have h := sliceAA_all rv cv raw i j
  exact ⟨h.1, h.2.2.2.2.1, h.2.2.2.2.2.1⟩

/-- NO payload layout of the tabulation contract (any sequence of categorical, multiple-response,
    categorical-array [either orientation], straddled and fused pieces, with or without the
    numeric-array pseudo-dimension in front) ends in two array-items dimensions: the pair
    (ARR, ARR) of `_BaseCubeCounts.factory` has no respondent-level reading to be faithful to -/
theorem arrXarr_unreachable (l : PLayout) : lastTwo l.kinds ≠ some (.arr, .arr) := by
  obtain ⟨na, ps⟩ := l
  rcases List.eq_nil_or_concat ps with rfl | ⟨init, p, rfl⟩
  · cases na <;> simp [PLayout.kinds, lastTwo]
  · simp only [PLayout.kinds, List.concat_eq_append, List.flatMap_append, List.flatMap_cons,
      List.flatMap_nil, List.append_nil, ← List.append_assoc]
    generalize (if na = true then [DK.arr] else []) ++ List.flatMap Piece.kinds init = pre
    cases p with
    | cat => exact lastTwo_append_one_ne pre .cat (by decide) .arr
    | mr => exact lastTwo_append_one_ne pre .mr (by decide) .arr
    | ca => simp [Piece.kinds, lastTwo_append_two]
    | caT => simp [Piece.kinds, lastTwo_append_two]
    | s1 x =>
      have : pre ++ Piece.kinds (.s1 x) = (pre ++ [.cat]) ++ [if x then .mr else .cat, .arr] := by
        simp [Piece.kinds]
      rw [this, lastTwo_append_two]; cases x <;> simp
    | s2 x =>
      have : pre ++ Piece.kinds (.s2 x) = (pre ++ [.arr]) ++ [if x then .mr else .cat, .cat] := by
        simp [Piece.kinds]
      rw [this, lastTwo_append_two]; simp
    | fusedMR => simp [Piece.kinds, lastTwo_append_two]
    | fusedCA =>
      have : pre ++ Piece.kinds .fusedCA = (pre ++ [.arr]) ++ [.cat, .arr] := by simp [Piece.kinds]
      rw [this, lastTwo_append_two]; simp

/-- every OTHER pair of the factory's table is produced by a layout with at most three apparent
    dimensions -/
theorem type_pairs_reached (r c : DK) (h : (r, c) ≠ (.arr, .arr)) :
    ∃ l : PLayout, l.kinds.length ≤ 3 ∧ lastTwo l.kinds = some (r, c) := by
  cases r <;> cases c
  · exact ⟨⟨false, [.cat, .cat]⟩, by decide, rfl⟩
  · exact ⟨⟨false, [.cat, .mr]⟩, by decide, rfl⟩
  · exact ⟨⟨false, [.caT]⟩, by decide, rfl⟩
  · exact ⟨⟨false, [.mr, .cat]⟩, by decide, rfl⟩
  · exact ⟨⟨false, [.mr, .mr]⟩, by decide, rfl⟩
  · exact ⟨⟨false, [.s1 true]⟩, by decide, rfl⟩
  · exact ⟨⟨false, [.ca]⟩, by decide, rfl⟩
  · exact ⟨⟨true, [.mr]⟩, by decide, rfl⟩
  · exact absurd rfl h

/-! ### non-vacuity and worked instances (tests, not the claims) -/

-- array with a missing category in mid-payload; a multiple-response and a categorical partner
example : (⟨.arr, 2, [false, true, false], false⟩ : Var).IsCA ∧
    (⟨.arr, 2, [false, false, true], true⟩ : Var).CM ∧
    (⟨.cat, 3, [true, false, false], false⟩ : Var).CM ∧
    (1 : Nat) < (⟨.arr, 2, [false, true, false], false⟩ : Var).np ∧
    (1 : Nat) < (⟨.arr, 2, [false, true, false], false⟩ : Var).n ∧
    (1 : Nat) < (⟨.arr, 2, [false, false, true], true⟩ : Var).ext ∧
    (1 : Nat) < (⟨.cat, 3, [true, false, false], false⟩ : Var).ext ∧ (1 : Nat) < 2 :=
  ⟨⟨rfl, rfl⟩, Or.inr ⟨rfl, rfl, by decide⟩, Or.inl rfl, by decide, by decide, by decide, by decide,
   by decide⟩

example : ((DK.mr, DK.arr) : DK × DK) ≠ (.arr, .arr) := by decide

-- (S1) MR × ARR: partition = valid category 1 (raw 2); row = MR item 1 selected; column = item 0
example :
    let A : Var := ⟨.arr, 2, [false, true, false], false⟩
    let X : Var := ⟨.arr, 2, [false, false, true], true⟩
    let s : Survey := [⟨2, [[2, 2], [0, 0]]⟩, ⟨1/2, [[2, 0], [1, 0]]⟩, ⟨3, [[0, 2], [0, 0]]⟩,
      ⟨5, [[2, 1], [0, 1]]⟩]
    (cubeOfS1 A X s).shape = [3, 2, 3, 2] ∧
    (sliceCountsS1 A X (cubeOfS1 A X s) 1).counts 1 0 = .fin (5/2) ∧
    (sliceCountsS1 A X (cubeOfS1 A X s) 1).counts 0 1 = .fin 5 := by decide +kernel

-- (S1) CAT × ARR: X categorical with its first category missing
example :
    let A : Var := ⟨.arr, 2, [false, true, false], false⟩
    let X : Var := ⟨.cat, 3, [true, false, false], false⟩
    let s : Survey := [⟨2, [[2, 2], [1]]⟩, ⟨1/2, [[2, 0], [2]]⟩, ⟨3, [[0, 2], [0]]⟩, ⟨5, [[2, 1], [2]]⟩]
    (sliceCountsS1 A X (cubeOfS1 A X s) 1).counts 1 0 = .fin (11/2) ∧
    (sliceCountsS1 A X (cubeOfS1 A X s) 1).counts 0 1 = .fin 2 := by decide +kernel

-- (S2) MR × CAT: partition = item 1; row = MR item 0 selected; column = valid category 1 (raw 2)
example :
    let A : Var := ⟨.arr, 2, [false, true, false], false⟩
    let X : Var := ⟨.arr, 2, [false, false, true], true⟩
    let s : Survey := [⟨2, [[2, 2], [0, 0]]⟩, ⟨1/2, [[2, 0], [1, 0]]⟩, ⟨3, [[0, 2], [0, 0]]⟩,
      ⟨5, [[2, 1], [0, 1]]⟩]
    (cubeOfS2 A X s).shape = [2, 2, 3, 3] ∧
    (sliceCountsS2 A X (cubeOfS2 A X s) 1).counts 0 1 = .fin 5 ∧
    (sliceCountsS2 A X (cubeOfS2 A X s) 1).counts 0 0 = .fin 0 := by decide +kernel

-- (F) three respondents, two fused MR variables of two items: cell (item 1, variable 0)
example :
    let M : Var := ⟨.arr, 2, [false, false, true], true⟩
    let s : Survey := [⟨2, [[0, 0], [1, 0]]⟩, ⟨1/2, [[1, 0], [2, 2]]⟩, ⟨3, [[0, 1], [0, 0]]⟩]
    (cubeOfFused M 2 s).shape = [2, 3, 2] ∧
    (sliceCountsFused M 2 (cubeOfFused M 2 s)).counts 1 0 = .fin (5/2) ∧
    (sliceCountsFused M 2 (cubeOfFused M 2 s)).counts 0 1 = .fin 3 := by decide +kernel

end CrCube.C01
