/-
  C01 (extension) — cell counts when a CATEGORICAL ARRAY (items × shared categories) is crossed
  with another variable, and in the transposed (categories × items) layout.  Property theorems
  only; helpers in Lemmas/SliceArr.lean.

  Notation: `A.IsCA` = array that is not multiple-response; `A.n` items; `A.np` valid categories;
  `T.CM`/`X.CM` = categorical-like or multiple-response; `caAnswer A a i j false` = "the answer on
  item i is the j-th valid category", `caAnswer A a i j true` = "the answer on item i is valid".

  (a) `cmXca_*`   vars = [T, A]  : apparent T × items × categories, partition k = element k of T
  (b) `caXcm_*`   vars = [A, X]  : apparent items × categories × X, partition k = item k
  (c) `caT_*`     vars = [Aᵀ]    : categories × items, one CAT×ARR slice
  (d) `caTXcm_*`  vars = [Aᵀ, X] : apparent categories × items × X, partition k = valid category k,
                                   an ARR×CAT or ARR×MR slice
  (e) `ca0th_*`   vars = [A], CA-as-0th : strand k = item k
  (f) `cmXcaT_*`  vars = [T, Aᵀ] : apparent T × categories × items, partition k = element k of T,
                                   a CAT×ARR slice
-/
import CrCube.Lemmas.SliceArr
import CrCube.Lemmas.SliceShape
import CrCube.Props.C01

namespace CrCube.C01
open CrCube

/-! ### what the respondent-level counts of these designs SAY, spelled out per respondent -/

/-- [T, A]: a respondent is in cell (k; i, j) iff she belongs to element k of T (selected item k,
    for multiple response) and answered the j-th valid category on item i; she is in its
    row/table base (`m2 = true`) iff she belongs to element k and has ANY valid answer on item i.
    The flag `m1` of the items dimension is immaterial. -/
theorem cmXca_reading (T A : Var) (hT : T.CM) (hA : A.IsCA) (s : Survey) (k i j : Nat)
    (m1 m2 : Bool) :
    specCount [T, A] s [k, i, j] [false, m1, m2]
      = wsum s fun r => match r.ans with
          | [aT, aA] => T.specMem aT [k] [false] && caAnswer A aA i j m2
          | _ => false := by
  unfold specCount
  apply wsum_congr
  intro r _
  exact specMemAll_cm_ca T A hT hA r.ans k i j false m1 m2

/-- [A, X]: a respondent is in (item k; category i, X-element j) iff her answer on item k is the
    i-th valid category (`m1 = true`: is valid) and she belongs to element j of X (`m2 = true`:
    has a valid answer on X / is non-missing on MR item j). -/
theorem caXcm_reading (A X : Var) (hA : A.IsCA) (hX : X.CM) (s : Survey) (k i j : Nat)
    (m0 m1 m2 : Bool) :
    specCount [A, X] s [k, i, j] [m0, m1, m2]
      = wsum s fun r => match r.ans with
          | [aA, aX] => caAnswer A aA k i m1 && X.specMem aX [j] [m2]
          | _ => false :=
  specCount_ca_cm A X hA hX s k i j m0 m1 m2

/-- [A] alone -/
theorem ca_reading (A : Var) (hA : A.IsCA) (s : Survey) (i j : Nat) (m1 m2 : Bool) :
    specCount [A] s [i, j] [m1, m2]
      = wsum s fun r => match r.ans with
          | [aA] => caAnswer A aA i j m2
          | _ => false := by
  unfold specCount
  apply wsum_congr
  intro r _
  exact specMemAll_ca A hA r.ans i j m1 m2

/-! ### (a) T × categorical array -/

/-- partition k of [T, A], cell (i, j): the weighted number of respondents in element k of T
    (who selected item k of a multiple-response T) whose answer on item i of the array is its
    j-th valid category. -/
theorem cmXca_counts_faithful (T A : Var) (hT : T.CM) (hA : A.IsCA) (s : Survey) (k i j : Nat)
    (hk : k < T.ext) (hi : i < A.n) (hj : j < A.np) :
    (sliceCounts [T, A] (cubeOf [T, A] s) k).counts i j
      = .fin (specCount [T, A] s [k, i, j] [false, false, false]) := by
  rw [C06.partition_restricts_ca T A hT hA.1 hA.2 s k hk,
    ca_counts_spec A hA _ i j hi hj false, restrict_specCount_ca T A hT]

theorem cmXca_ucounts_faithful (T A : Var) (hT : T.CM) (hA : A.IsCA) (s : Survey) (k i j : Nat)
    (hk : k < T.ext) (hi : i < A.n) (hj : j < A.np) :
    (sliceCounts [T, A] (cubeOf [T, A] (unweight s)) k).counts i j
      = .fin (((s.filter fun r =>
          specMemAll [T, A] r.ans [k, i, j] [false, false, false]).length : Nat) : Rat) := by
  rw [cmXca_counts_faithful T A hT hA _ k i j hk hi hj, specCount_unweight]

/-- one partition per valid element of T; rows = items, columns = VALID categories -/
theorem cmXca_extent (T A : Var) (hT : T.CM) (hA : A.IsCA) (s : Survey) (k : Nat)
    (hk : k < T.ext) :
    nPartitions [T, A] = T.ext ∧
    (sliceCounts [T, A] (cubeOf [T, A] s) k).nrows = A.n ∧
    (sliceCounts [T, A] (cubeOf [T, A] s) k).ncols = A.np := by
  refine ⟨?_, ?_, ?_⟩
  · have hk3 : apparentKinds [T, A] = [T.dk, .arr, .cat] := by
      rcases hT with hT | ⟨hT, hmT, _⟩ <;> simp [apparentKinds, Var.dks, Var.dk, hA.1, hA.2, *]
    rw [nPartitions, hk3]
    simp only [List.length_cons, List.length_nil, firstDimCount, Var.ext]
    rfl
  · rw [C06.partition_restricts_ca T A hT hA.1 hA.2 s k hk]; exact (slice1_shape A hA _).1
  · rw [C06.partition_restricts_ca T A hT hA.1 hA.2 s k hk]; exact (slice1_shape A hA _).2

/-! ### (b) categorical array × X -/

/-- partition k of [A, X] (= item k of the array), cell (i, j): the weighted number of
    respondents whose answer on item k is the i-th valid category and who belong to element j
    of X (selected item j, for a multiple-response X). -/
theorem caXcm_counts_faithful (A X : Var) (hA : A.IsCA) (hX : X.CM) (s : Survey) (k i j : Nat)
    (hk : k < A.n) (hi : i < A.np) (hj : j < X.ext) :
    (sliceCounts [A, X] (cubeOf [A, X] s) k).counts i j
      = .fin (specCount [A, X] s [k, i, j] [false, false, false]) := by
  rw [C06.partition_ca_item A X hA.1 hA.2 hX s k hk,
    counts_faithful_2d A.itemVar X (itemVar_CM A) hX _ i j (by rw [itemVar_ext]; exact hi) hj,
    recode_specCount A X hA hX s k i j false]

theorem caXcm_ucounts_faithful (A X : Var) (hA : A.IsCA) (hX : X.CM) (s : Survey) (k i j : Nat)
    (hk : k < A.n) (hi : i < A.np) (hj : j < X.ext) :
    (sliceCounts [A, X] (cubeOf [A, X] (unweight s)) k).counts i j
      = .fin (((s.filter fun r =>
          specMemAll [A, X] r.ans [k, i, j] [false, false, false]).length : Nat) : Rat) := by
  rw [caXcm_counts_faithful A X hA hX _ k i j hk hi hj, specCount_unweight]

/-- one partition per item; rows = VALID categories, columns = valid elements of X -/
theorem caXcm_extent (A X : Var) (hA : A.IsCA) (hX : X.CM) (s : Survey) (k : Nat) (hk : k < A.n) :
    nPartitions [A, X] = A.n ∧
    (sliceCounts [A, X] (cubeOf [A, X] s) k).nrows = A.np ∧
    (sliceCounts [A, X] (cubeOf [A, X] s) k).ncols = X.ext := by
  refine ⟨C06.partitions_count_ca A X hA.1 hA.2 hX, ?_, ?_⟩
  · rw [C06.partition_ca_item A X hA.1 hA.2 hX s k hk, slice2d_nrows A.itemVar X (itemVar_CM A) hX,
      itemVar_ext]
  · rw [C06.partition_ca_item A X hA.1 hA.2 hX s k hk, slice2d_ncols A.itemVar X (itemVar_CM A) hX]

/-! ### (c) the transposed array alone: categories × items -/

/-- cell (i, j) of the CAT×ARR slice: respondents whose answer on ITEM j is the i-th valid
    category — the transposed cell of the items × categories slice. -/
theorem caT_counts_faithful (A : Var) (hA : A.IsCA) (s : Survey) (i j : Nat)
    (hi : i < A.np) (hj : j < A.n) :
    (sliceCountsT A [] (cubeOfT A [] s) 0).counts i j
      = .fin (specCount [A] s [j, i] [false, false]) := by
  rw [cubeOfT, (sliceT1_mirror A hA _ i j).1]
  exact ca_counts_spec A hA s j i hj hi false

theorem caT_ucounts_faithful (A : Var) (hA : A.IsCA) (s : Survey) (i j : Nat)
    (hi : i < A.np) (hj : j < A.n) :
    (sliceCountsT A [] (cubeOfT A [] (unweight s)) 0).counts i j
      = .fin (((s.filter fun r => specMemAll [A] r.ans [j, i] [false, false]).length : Nat) : Rat) := by
  rw [caT_counts_faithful A hA _ i j hi hj, specCount_unweight]

theorem caT_extent (A : Var) (rawT : FT) :
    nPartitionsT A [] = 1 ∧
    (sliceCountsT A [] rawT 0).nrows = A.np ∧ (sliceCountsT A [] rawT 0).ncols = A.n := by
  refine ⟨by simp [nPartitionsT, kindsT, apparentKinds], ?_, ?_⟩ <;>
  simp [sliceCountsT, sliceCountsOf, kindsT, Var.validAxesT, apparentKinds, MatCounts.factory,
    MatCounts.catXarr, sliceExpr, FT.take, List.getD, FT.dim, Var.np]

/-! ### (d) transposed array × X -/

/-- partition k of [Aᵀ, X] (= valid category k of the array; an ARR×CAT / ARR×MR slice), cell
    (i, j): respondents whose answer on item i is the k-th valid category and who belong to
    element j of X (selected item j). -/
theorem caTXcm_counts_faithful (A X : Var) (hA : A.IsCA) (hX : X.CM) (s : Survey) (k i j : Nat)
    (hk : k < A.np) (hi : i < A.n) (hj : j < X.ext) :
    (sliceCountsT A [X] (cubeOfT A [X] s) k).counts i j
      = .fin (specCount [A, X] s [i, k, j] [false, false, false]) := by
  rw [cubeOfT, sliceT2_counts A X hX]
  exact rawT2_counts A X hA hX s k i j hk hi hj false

theorem caTXcm_ucounts_faithful (A X : Var) (hA : A.IsCA) (hX : X.CM) (s : Survey) (k i j : Nat)
    (hk : k < A.np) (hi : i < A.n) (hj : j < X.ext) :
    (sliceCountsT A [X] (cubeOfT A [X] (unweight s)) k).counts i j
      = .fin (((s.filter fun r =>
          specMemAll [A, X] r.ans [i, k, j] [false, false, false]).length : Nat) : Rat) := by
  rw [caTXcm_counts_faithful A X hA hX _ k i j hk hi hj, specCount_unweight]

/-- one partition per VALID CATEGORY; rows = items, columns = valid elements of X -/
theorem caTXcm_extent (A X : Var) (hX : X.CM) (rawT : FT) (k : Nat) :
    nPartitionsT A [X] = A.np ∧
    (sliceCountsT A [X] rawT k).nrows = A.n ∧ (sliceCountsT A [X] rawT k).ncols = X.ext :=
  ⟨nPartitionsT_two A X hX, (sliceT2_shape A X hX k rawT).1, (sliceT2_shape A X hX k rawT).2⟩

/-! ### (f) T × transposed array -/

/-- partition k of [T, Aᵀ] (a CAT×ARR slice), cell (i, j): respondents in element k of T whose
    answer on ITEM j is the i-th valid category. -/
theorem cmXcaT_counts_faithful (T A : Var) (hT : T.CM) (hA : A.IsCA) (s : Survey) (k i j : Nat)
    (hk : k < T.ext) (hi : i < A.np) (hj : j < A.n) :
    (sliceCountsTT T A (cubeOfTT T A s) k).counts i j
      = .fin (specCount [T, A] s [k, j, i] [false, false, false]) := by
  rw [cubeOfTT, sliceTT_counts T A hT]
  exact rawTT_counts T A hT hA s k i j hk hi hj false

theorem cmXcaT_ucounts_faithful (T A : Var) (hT : T.CM) (hA : A.IsCA) (s : Survey) (k i j : Nat)
    (hk : k < T.ext) (hi : i < A.np) (hj : j < A.n) :
    (sliceCountsTT T A (cubeOfTT T A (unweight s)) k).counts i j
      = .fin (((s.filter fun r =>
          specMemAll [T, A] r.ans [k, j, i] [false, false, false]).length : Nat) : Rat) := by
  rw [cmXcaT_counts_faithful T A hT hA _ k i j hk hi hj, specCount_unweight]

theorem cmXcaT_extent (T A : Var) (hT : T.CM) (rawT : FT) (k : Nat) :
    (sliceCountsTT T A rawT k).nrows = A.np ∧ (sliceCountsTT T A rawT k).ncols = A.n :=
  sliceTT_shape T A hT k rawT

/-! ### (e) CA-as-0th: the lone array as the leading cube of a multi-cube set -/

/-- strand k (= item k) of an array sliced "CA-as-0th", row i: respondents whose answer on item k
    is the i-th valid category. -/
theorem ca0th_counts_faithful (A : Var) (hA : A.IsCA) (s : Survey) (k i : Nat) (hk : k < A.n)
    (hi : i < A.np) :
    (strandCountsCA0 A (cubeOf [A] s) k).counts i = .fin (specCount [A] s [k, i] [false, false]) := by
  rw [strandCA0_item A hA s k hk,
    strand_counts_spec A.itemVar (itemVar_CM A) _ i (by rw [itemVar_ext]; exact hi),
    recode_specCount_one A hA s k i false]

theorem ca0th_extent (A : Var) (hA : A.IsCA) (s : Survey) (k : Nat) (hk : k < A.n) :
    (strandCountsCA0 A (cubeOf [A] s) k).n = A.np := by
  rw [strandCA0_item A hA s k hk, strand_n A.itemVar (itemVar_CM A), itemVar_ext]

/-! ### non-vacuity and worked instances (tests, not the claims) -/

-- table variable with a missing category in mid-payload; array with a missing category in
-- mid-payload; a multiple-response partner
example : (⟨.cat, 3, [false, true, false], false⟩ : Var).CM ∧
    (⟨.arr, 2, [false, false, true], true⟩ : Var).CM ∧
    (⟨.arr, 2, [false, true, false], false⟩ : Var).IsCA ∧
    (1 : Nat) < (⟨.cat, 3, [false, true, false], false⟩ : Var).ext ∧
    (1 : Nat) < (⟨.arr, 2, [false, true, false], false⟩ : Var).n ∧
    (1 : Nat) < (⟨.arr, 2, [false, true, false], false⟩ : Var).np ∧
    (1 : Nat) < (⟨.arr, 2, [false, false, true], true⟩ : Var).ext :=
  ⟨Or.inl rfl, Or.inr ⟨rfl, rfl, by decide⟩, ⟨rfl, rfl⟩, by decide, by decide, by decide, by decide⟩

-- (a) T = raw 2 (valid element 1); item 1 answered raw 2 (valid category 1): weights 2 + 1/2
example :
    let T : Var := ⟨.cat, 3, [false, true, false], false⟩
    let A : Var := ⟨.arr, 2, [false, true, false], false⟩
    let s : Survey := [⟨2, [[2], [0, 2]]⟩, ⟨1/2, [[2], [1, 2]]⟩, ⟨3, [[0], [0, 2]]⟩, ⟨5, [[2], [2, 1]]⟩]
    (sliceCounts [T, A] (cubeOf [T, A] s) 1).counts 1 1 = .fin (5/2) := by decide +kernel

-- (b) item 1 answered raw 2 (valid category 1) and MR item 0 selected: weights 2 + 3
example :
    let A : Var := ⟨.arr, 2, [false, true, false], false⟩
    let X : Var := ⟨.arr, 2, [false, false, true], true⟩
    let s : Survey := [⟨2, [[0, 2], [0, 1]]⟩, ⟨1/2, [[1, 2], [1, 0]]⟩, ⟨3, [[0, 2], [0, 2]]⟩,
      ⟨5, [[2, 1], [0, 0]]⟩]
    (sliceCounts [A, X] (cubeOf [A, X] s) 1).counts 1 0 = .fin 5 := by decide +kernel

-- (c) transposed: row = valid category 1 (raw 2), column = item 1
example :
    let A : Var := ⟨.arr, 2, [false, true, false], false⟩
    let s : Survey := [⟨2, [[0, 2]]⟩, ⟨1/2, [[1, 2]]⟩, ⟨3, [[2, 0]]⟩]
    (sliceCountsT A [] (cubeOfT A [] s) 0).counts 1 1 = .fin (5/2) ∧
    (sliceCountsT A [] (cubeOfT A [] s) 0).counts 1 0 = .fin 3 := by decide +kernel

-- (f) MR table variable, selected item 1; row = valid category 1 (raw 2), column = item 0
example :
    let T : Var := ⟨.arr, 2, [false, false, true], true⟩
    let A : Var := ⟨.arr, 2, [false, true, false], false⟩
    let s : Survey := [⟨2, [[1, 0], [0, 2]]⟩, ⟨1/2, [[0, 0], [2, 2]]⟩, ⟨3, [[0, 1], [2, 2]]⟩,
      ⟨5, [[2, 0], [2, 1]]⟩]
    (sliceCountsTT T A (cubeOfTT T A s) 1).counts 1 0 = .fin (11/2) := by decide +kernel

-- (d) partition = valid category 1 (raw 2); row = item 0; MR column item 1 selected
example :
    let A : Var := ⟨.arr, 2, [false, true, false], false⟩
    let X : Var := ⟨.arr, 2, [false, false, true], true⟩
    let s : Survey := [⟨2, [[2, 2], [0, 0]]⟩, ⟨1/2, [[2, 0], [1, 0]]⟩, ⟨3, [[0, 2], [0, 0]]⟩,
      ⟨5, [[2, 1], [0, 1]]⟩]
    (sliceCountsT A [X] (cubeOfT A [X] s) 1).counts 0 1 = .fin (5/2) := by decide +kernel

-- (e) CA-as-0th, strand of item 0: rows = valid categories (raw 0, raw 2)
example :
    let A : Var := ⟨.arr, 2, [false, true, false], false⟩
    let s : Survey := [⟨2, [[0, 2]]⟩, ⟨1/2, [[1, 2]]⟩, ⟨3, [[2, 0]]⟩]
    (strandCountsCA0 A (cubeOf [A] s) 0).counts 0 = .fin 2 ∧
    (strandCountsCA0 A (cubeOf [A] s) 0).counts 1 = .fin 3 := by decide +kernel

end CrCube.C01
