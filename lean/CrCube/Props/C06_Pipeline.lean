/-
  C06 on the END-TO-END pipeline: partition k of a 3-D response IS the 2-D analysis of the
  respondents in table element k — for every output the pipeline model composes
  (`Model/Pipeline.lean`, `Model/PipelineMeasures.lean`): the blocks of all 29 measure keys
  (counts, bases, proportions, variances, std-err, z-scores, p-values, COLUMN INDEX, population
  proportions / std-err, sums, means, stddev, medians, shares of sum), pruning masks, display
  orders under ALL typed transforms (incl. orders sorted by those same blocks / marginals),
  assembled outputs, margins, symbolic std-dev / std-err / MoE / z / p cells, population counts
  and MoE (same population and fraction), scale marginals, margin proportions.

  Stated once for the whole output object (`pipelineX_partition`) and derived from ONE fact:
  the pipeline reads its cube data only through the two count-extractor objects, the numeric
  cell functions and the column-index baseline (`CubeData.Same`), and those agree
  (`partition_same`; for ANY raw arrays, tabulated or not: `partition_same_raw`).

  The column index: its baseline is read from the WITH-MISSINGS array at the RAW position of valid
  table element k (fix F4).  `baseline_partition(_raw)` proves it equal to the 2-D baseline of the
  restricted survey / raw sub-tensor; `baseline_unfixed_partition_counterexample` shows the code
  as found before F4 (index among valid elements used on the raw axis) breaks exactly this.
  Hypothesis `T.CM3`: categorical-like, or multiple response with the selection axis
  [selected, other, missing] (every real MR); everything except the baseline needs `T.CM` only
  (`extractors_partition_raw`, `numeric_partition_raw`).

  Property theorems only; lemmas in `Lemmas/PartitionPipeline.lean`.  Nothing `_partial`.
-/
import CrCube.Lemmas.PartitionPipeline
import CrCube.Props.C06
import CrCube.Props.C01

set_option linter.unusedVariables false

namespace CrCube.C06
open CrCube CrCube.Pipeline

/-! ## raw level: any arrays over [T, R, C] -/

/-- partition k of the extractor object of ANY raw array over [T, R, C] — weighted counts,
    unweighted counts or a numeric payload — is the 2-D extractor object of the raw sub-tensor at
    the raw position of valid table element k (MR: item k, selected plane) -/
theorem extractors_partition_raw (T R C : Var) (hT : T.CM) (hR : R.CM) (hC : C.CM) (raw : FT) (k : Nat) :
    sliceCounts [T, R, C] raw k = sliceCounts [R, C] (rawPartition T k raw) 0 :=
  sliceCounts_rawPartition T R C hT hR hC raw k

/-- **numeric measures** (means, sums, stddev, medians) of partition k read the payload
    sub-tensor of table element k, cell for cell; an absent measure stays absent -/
theorem numeric_partition_raw (T R C : Var) (hT : T.CM) (hR : R.CM) (hC : C.CM) (c : CubeData)
    (hv : c.vars = [T, R, C]) (o : Option FT) :
    c.numeric o = (c.partition2d T).numeric (o.map (rawPartition T c.k))
      ∧ o.isSome = (o.map (rawPartition T c.k)).isSome :=
  ⟨numeric_rawPartition T R C hT hR hC c hv o, by simp⟩

/-- **the column-index baseline**: the 3-D baseline of partition k, read from the with-missings
    array at the raw position of valid table element k, is the 2-D baseline of the raw sub-tensor -/
theorem baseline_partition_raw (T R C : Var) (hT : T.CM3) (hR : R.CM) (hC : C.CM) (raw : FT) (k : Nat) :
    baselineOfCube [T, R, C] raw k true = baselineOfCube [R, C] (rawPartition T k raw) 0 true :=
  baselineOfCube_rawPartition T R C hT hR hC raw k

/-- everything the pipeline reads of partition k of ANY 3-D cube data is what it reads of the
    2-D cube data of the raw sub-tensors -/
theorem partition_same_raw (T R C : Var) (hT : T.CM3) (hR : R.CM) (hC : C.CM) (c : CubeData)
    (hv : c.vars = [T, R, C]) : c.Same (c.partition2d T) :=
  same_partition2d T R C hT hR hC c hv

/-- **the whole pipeline, raw level**: every output (all typed transforms, population, fraction)
    of partition k of ANY 3-D cube data = the output of the 2-D cube data of its sub-tensors -/
theorem pipelineX_partition_raw (T R C : Var) (hT : T.CM3) (hR : R.CM) (hC : C.CM) (c : CubeData)
    (hv : c.vars = [T, R, C]) (rows cols : TDim) (population fraction : Val) :
    slicePipelineX c rows cols population fraction
      = slicePipelineX (c.partition2d T) rows cols population fraction := by
  unfold slicePipelineX
  cases rows.resolve <;> cases cols.resolve <;> try rfl
  simp only [runSliceX_congr (same_partition2d T R C hT hR hC c hv)]

/-! ## respondent level: the tabulated cubes -/

/-- the raw sub-tensor of the tabulated 3-D cube at table element k IS the tabulated 2-D cube of
    the respondents who belong to element k (who selected item k) -/
theorem raw_partition_is_restricted_cube (T : Var) (vs : List Var) (hT : T.CM) (s : Survey) (k : Nat)
    (hk : k < T.ext) : rawPartition T k (cubeOf (T :: vs) s) = cubeOf vs (restrictTo T k s) :=
  rawPartition_cubeOf T vs hT s k hk

/-- unweighted counting commutes with the restriction -/
theorem restrict_unweight (T : Var) (k : Nat) (s : Survey) :
    restrictTo T k (unweight s) = unweight (restrictTo T k s) :=
  restrictTo_unweight T k s

/-- weighted and unweighted: the 2-D cube data of table element k of the tabulated 3-D response is
    the tabulated 2-D response of the restricted survey, numeric payloads = payload sub-tensors -/
theorem partition_cube_data (T R C : Var) (hT : T.CM) (s : Survey) (k : Nat) (hk : k < T.ext)
    (num : CubeData) : (cube3 T R C s k num).partition2d T = cube2 T R C s k num :=
  partition2d_cube3 T R C hT s k hk num

/-- **what the pipeline reads** of partition k of the 3-D response = what it reads of the 2-D
    response of the restricted survey: extractor objects (weighted, unweighted), numeric cells,
    presence of numeric measures, column-index baseline -/
theorem partition_same (T R C : Var) (hT : T.CM3) (hR : R.CM) (hC : C.CM) (s : Survey) (k : Nat)
    (hk : k < T.ext) (num : CubeData) : (cube3 T R C s k num).Same (cube2 T R C s k num) := by
  rw [← partition2d_cube3 T R C hT.cm s k hk num]
  exact same_partition2d T R C hT hR hC _ rfl

/-- **column index**: the 3-D baseline of partition k equals the 2-D baseline on the restricted
    survey (as functions of the cell) -/
theorem baseline_partition (T R C : Var) (hT : T.CM3) (hR : R.CM) (hC : C.CM) (s : Survey) (k : Nat)
    (hk : k < T.ext) :
    baselineOfCube [T, R, C] (cubeOf [T, R, C] s) k true
      = baselineOfCube [R, C] (cubeOf [R, C] (restrictTo T k s)) 0 true :=
  (partition_same T R C hT hR hC s k hk .noNumeric).baseline

/-- … and is the respondent-level unconditional row share among the respondents of element k
    (C16 on the restricted survey) -/
theorem baseline_partition_respondents (T R C : Var) (hT : T.CM3) (hR : R.CM3) (hC : C.CM3) (s : Survey)
    (hf : SurveyFits [T, R, C] s) (k i j : Nat) (hk : k < T.ext) (hi : i < R.ext) (hj : j < C.ext) :
    baselineOfCube [T, R, C] (cubeOf [T, R, C] s) k true i j
      = baselineSpec ⟨none, R, C⟩ (restrictTo T k s) i := by
  rw [baseline_partition T R C hT hR.cm hC.cm s k hk]
  exact baselineOfCube_two R C hR hC _ (surveyFits_restrict T [R, C] s k hf) 0 i j hi hj true

/-- **the blocks of every measure key** (29 keys, the column index included), for all subtotal
    and difference lists -/
theorem slice_blocks_partition (T R C : Var) (hT : T.CM3) (hR : R.CM) (hC : C.CM) (s : Survey) (k : Nat)
    (hk : k < T.ext) (num : CubeData) (rows cols : RDim) (key : MKey) :
    sliceBlocks (cube3 T R C s k num) rows cols key = sliceBlocks (cube2 T R C s k num) rows cols key :=
  sliceBlocks_congr (partition_same T R C hT hR hC s k hk num) rows cols key

/-- which numeric measures are available -/
theorem slice_avail_partition (T R C : Var) (hT : T.CM3) (hR : R.CM) (hC : C.CM) (s : Survey) (k : Nat)
    (hk : k < T.ext) (num : CubeData) :
    sliceAvail (cube3 T R C s k num) = sliceAvail (cube2 T R C s k num) :=
  sliceAvail_congr (partition_same T R C hT hR hC s k hk num)

/-- **pruning masks** (empty rows / columns by the unweighted extractor) -/
theorem pruning_masks_partition (T R C : Var) (hT : T.CM3) (hR : R.CM) (hC : C.CM) (s : Survey) (k : Nat)
    (hk : k < T.ext) (num : CubeData) :
    (cube3 T R C s k num).u.rowsPruningMask = (cube2 T R C s k num).u.rowsPruningMask ∧
    (cube3 T R C s k num).u.columnsPruningMask = (cube2 T R C s k num).u.columnsPruningMask ∧
    rowEmpties (cube3 T R C s k num) = rowEmpties (cube2 T R C s k num) ∧
    colEmpties (cube3 T R C s k num) = colEmpties (cube2 T R C s k num) := by
  have h := partition_same T R C hT hR hC s k hk num
  exact ⟨by rw [h.u], by rw [h.u], rowEmpties_congr h, colEmpties_congr h⟩

/-- **display orders** under every order type (payload, explicit, label, opposing element /
    insertion sorted by any measure's blocks, marginal incl. scale marginals), hide, prune,
    subtotal dropping -/
theorem slice_orders_partition (T R C : Var) (hT : T.CM3) (hR : R.CM) (hC : C.CM) (s : Survey) (k : Nat)
    (hk : k < T.ext) (num : CubeData) (rows cols : RDim) :
    sliceRowOrder (cube3 T R C s k num) rows cols = sliceRowOrder (cube2 T R C s k num) rows cols ∧
    sliceColOrder (cube3 T R C s k num) rows cols = sliceColOrder (cube2 T R C s k num) rows cols :=
  ⟨sliceRowOrder_congr (partition_same T R C hT hR hC s k hk num) rows cols,
   sliceColOrder_congr (partition_same T R C hT hR hC s k hk num) rows cols⟩

/-- **assembled outputs** (orders, shape, inserted / difference / derived positions, label
    positions, every assembled matrix, the six margins) -/
theorem slice_output_partition (T R C : Var) (hT : T.CM3) (hR : R.CM) (hC : C.CM) (s : Survey) (k : Nat)
    (hk : k < T.ext) (num : CubeData) (rows cols : RDim) :
    runSlice (cube3 T R C s k num) rows cols = runSlice (cube2 T R C s k num) rows cols :=
  runSlice_congr (partition_same T R C hT hR hC s k hk num) rows cols

/-- the symbolic cells (std-dev, std-err, MoE per direction, z-scores, p-values, population std-err) -/
theorem slice_out_cells_partition (T R C : Var) (hT : T.CM3) (hR : R.CM) (hC : C.CM) (s : Survey) (k : Nat)
    (hk : k < T.ext) (num : CubeData) (rows cols : RDim) (key : OKey) :
    sliceOutCells (cube3 T R C s k num) rows cols key = sliceOutCells (cube2 T R C s k num) rows cols key :=
  sliceOutCells_congr (partition_same T R C hT hR hC s k hk num) rows cols key

/-- **scale marginals** (mean, median, std-dev, std-err of every row / column vector) -/
theorem scale_marginals_partition (T R C : Var) (hT : T.CM3) (hR : R.CM) (hC : C.CM) (s : Survey) (k : Nat)
    (hk : k < T.ext) (num : CubeData) (rows cols : RDim) :
    rowScaleVectors (cube3 T R C s k num) rows cols = rowScaleVectors (cube2 T R C s k num) rows cols ∧
    colScaleVectors (cube3 T R C s k num) rows cols = colScaleVectors (cube2 T R C s k num) rows cols :=
  ⟨rowScaleVectors_congr (partition_same T R C hT hR hC s k hk num) rows cols,
   colScaleVectors_congr (partition_same T R C hT hR hC s k hk num) rows cols⟩

/-- the full output object on resolved dimensions: + symbolic matrices, population proportions /
    counts / MoE with the SAME population and fraction, scale marginals, margin proportions -/
theorem slice_outputX_partition (T R C : Var) (hT : T.CM3) (hR : R.CM) (hC : C.CM) (s : Survey) (k : Nat)
    (hk : k < T.ext) (num : CubeData) (rows cols : RDim) (population fraction : Val) :
    runSliceX (cube3 T R C s k num) rows cols population fraction
      = runSliceX (cube2 T R C s k num) rows cols population fraction :=
  runSliceX_congr (partition_same T R C hT hR hC s k hk num) rows cols population fraction

/-- **end to end** from the typed design and transforms (incl. the ValueError case) -/
theorem pipeline_partition (T R C : Var) (hT : T.CM3) (hR : R.CM) (hC : C.CM) (s : Survey) (k : Nat)
    (hk : k < T.ext) (num : CubeData) (rows cols : TDim) :
    slicePipeline (cube3 T R C s k num) rows cols = slicePipeline (cube2 T R C s k num) rows cols := by
  unfold slicePipeline
  cases rows.resolve <;> cases cols.resolve <;> try rfl
  simp only [runSlice_congr (partition_same T R C hT hR hC s k hk num)]

/-- **THE PROPERTY ON THE PIPELINE**: for all surveys, designs [T, R, C], valid table elements k,
    typed transforms, numeric payloads, population and fraction, every pipeline output of
    partition k of the 3-D response = the same output of the 2-D response of the restricted survey -/
theorem pipelineX_partition (T R C : Var) (hT : T.CM3) (hR : R.CM) (hC : C.CM) (s : Survey) (k : Nat)
    (hk : k < T.ext) (num : CubeData) (rows cols : TDim) (population fraction : Val) :
    slicePipelineX (cube3 T R C s k num) rows cols population fraction
      = slicePipelineX (cube2 T R C s k num) rows cols population fraction := by
  unfold slicePipelineX
  cases rows.resolve <;> cases cols.resolve <;> try rfl
  simp only [runSliceX_congr (partition_same T R C hT hR hC s k hk num)]

/-- the side conditions of the C05 pipeline theorems transfer: every C05 / C10 pipeline theorem
    about the 2-D response of the restricted survey holds of partition k and vice versa -/
theorem slice_wf_partition (T R C : Var) (hT : T.CM3) (hR : R.CM) (hC : C.CM) (s : Survey) (k : Nat)
    (hk : k < T.ext) (num : CubeData) (rows cols : RDim) :
    SliceWF (cube3 T R C s k num) rows cols ↔ SliceWF (cube2 T R C s k num) rows cols :=
  sliceWF_congr (partition_same T R C hT hR hC s k hk num) rows cols

/-- displayed base cells of partition k are respondent-level counts OF THE RESTRICTED SURVEY
    (composition with `C06.restrict_specCount`): the count cell of the weighted extractor -/
theorem partition_counts_respondents (T R C : Var) (hT : T.CM3) (hR : R.CM) (hC : C.CM) (s : Survey)
    (k i j : Nat) (hk : k < T.ext) (hi : i < R.ext) (hj : j < C.ext) (num : CubeData) :
    (cube3 T R C s k num).w.counts i j
      = .fin (specCount [R, C] (restrictTo T k s) [i, j] [false, false]) := by
  rw [(partition_same T R C hT hR hC s k hk num).w]
  exact C01.counts_faithful_2d R C hR hC (restrictTo T k s) i j hi hj

/-! ## the code as found before fix F4 breaks exactly the baseline -/

namespace Witness
/-- table variable whose first payload category is MISSING, the second valid -/
def T : Var := ⟨.cat, 2, [true, false], false⟩
def R : Var := ⟨.cat, 2, [false, false], false⟩
def C : Var := ⟨.cat, 1, [false], false⟩
/-- two respondents in the valid table category (rows 0 and 1), one of weight 2 in the missing one (row 0) -/
def s : Survey := [⟨1, [[1], [0], [0]]⟩, ⟨1, [[1], [1], [0]]⟩, ⟨2, [[0], [0], [0]]⟩]
/-- MR table variable (2 items) -/
def M : Var := ⟨.arr, 2, [false, false, true], true⟩
def sM : Survey := [⟨1, [[0, 1], [0], [0]]⟩, ⟨3, [[1, 0], [1], [0]]⟩, ⟨1/2, [[0, 0], [1], [0]]⟩, ⟨2, [[2, 2], [0], [0]]⟩]
end Witness

open Witness in
/-- `fixed := false` (the factory before F4: the position among VALID table elements indexes the
    with-missings array): the 3-D baseline of partition 0 is 1 (it reads the missing table
    category), the 2-D baseline of the restricted survey is 1/2 — and the fixed factory gives 1/2 -/
theorem baseline_unfixed_partition_counterexample :
    baselineOfCube [T, R, C] (cubeOf [T, R, C] s) 0 false 0 0 = .fin 1 ∧
    baselineOfCube [R, C] (cubeOf [R, C] (restrictTo T 0 s)) 0 true 0 0 = .fin (1/2) ∧
    baselineOfCube [T, R, C] (cubeOf [T, R, C] s) 0 true 0 0 = .fin (1/2) := by
  decide +kernel

/-! ## non-vacuity and worked instances (tests, not the claims) -/

open Witness in
example : T.CM3 ∧ R.CM ∧ C.CM ∧ (0 : Nat) < T.ext ∧ SurveyFits [T, R, C] s ∧ R.CM3 ∧ C.CM3
    ∧ 0 < R.ext ∧ 0 < C.ext := by
  refine ⟨Or.inl rfl, Or.inl rfl, Or.inl rfl, by decide, ?_, Or.inl rfl, Or.inl rfl, by decide, by decide⟩
  intro r hr
  simp only [s, List.mem_cons, List.mem_nil_iff, or_false] at hr
  rcases hr with rfl | rfl | rfl <;> decide

open Witness in
example : M.CM3 ∧ (1 : Nat) < M.ext := ⟨Or.inr ⟨rfl, rfl, rfl⟩, by decide⟩

-- `c.vars = [T, R, C]` of the raw-level theorems: satisfied by `cube3` by construction
example (T R C : Var) (s : Survey) (k : Nat) (num : CubeData) : (cube3 T R C s k num).vars = [T, R, C] := rfl

open Witness in
/-- worked instance: the restricted survey keeps the two respondents of the valid table category,
    and the payload sub-tensor of a numeric array is read at RAW position 1 -/
example : (restrictTo T 0 s).map (fun r => (r.w, r.ans)) = [(1, [[0], [0]]), (1, [[1], [0]])] ∧
    (rawPartition T 0 (FT.ofFlat [2, 2, 1] [.fin 10, .fin 20, .fin 30, .fin 40])).flat = [.fin 30, .fin 40] := by
  decide +kernel

open Witness in
/-- worked instance (MR table, item 1): selected plane of item 1 -/
example : (restrictTo M 1 sM).map (fun r => (r.w, r.ans)) = [(3, [[1], [0]]), (1/2, [[1], [0]])] ∧
    (cube3 M R C sM 1 .noNumeric).w.counts 1 0 = .fin (7/2) ∧ (cube2 M R C sM 1 .noNumeric).w.counts 1 0 = .fin (7/2) := by
  decide +kernel

end CrCube.C06
