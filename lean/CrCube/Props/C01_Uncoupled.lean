/-
  C01 (extension) — a numeric measure reports the value the response carries for the cell,
  WHATEVER the other measures of the same response say about that cell.

  `C01.numeric_flat_reports_cell_2d/3d` already quantify over every payload function `g`; here
  that is restated as what a "mistaken fix" would break: the mean / sum / stddev / median arrays
  the outputs are computed from are functions of that one measure's payload alone (no count, no
  valid count, no sibling measure enters), a carried NUMBER surfaces as that number - in
  particular the 0.0 standard deviation of a cell with a single (heavily weighted) respondent,
  for which no hypothesis about any count is needed - and NaN surfaces exactly when the response
  marks the cell unavailable.  Property theorems only.
-/
import CrCube.Props.C01_Numeric

namespace CrCube.C01
open CrCube

/-- two responses that agree on ONE numeric measure's payload yield the same raw array for that
    measure - whatever their counts, weighted counts, valid counts, sibling measures and
    `n_missing` figures are -/
theorem numeric_arrays_ignore_other_measures (p q : Payloads) (shape : List Nat) :
    (p.mean = q.mean → (p.arrays shape).means = (q.arrays shape).means) ∧
    (p.sum = q.sum → (p.arrays shape).sums = (q.arrays shape).sums) ∧
    (p.stddev = q.stddev → (p.arrays shape).stddev = (q.arrays shape).stddev) ∧
    (p.median = q.median → (p.arrays shape).medians = (q.arrays shape).medians) := by
  refine ⟨?_, ?_, ?_, ?_⟩ <;> intro h <;> simp only [Payloads.arrays, h]

/-- in particular: replacing the counts, the weighted counts and both valid counts of a response
    by anything (e.g. "one respondent in this cell") leaves all four numeric arrays unchanged -/
theorem numeric_arrays_ignore_counts (p : Payloads) (shape : List Nat)
    (counts : List Val) (count vcu vcw : Option (List Val)) :
    let q := { p with counts := counts, count := count, vcu := vcu, vcw := vcw }
    (q.arrays shape).means = (p.arrays shape).means ∧
    (q.arrays shape).sums = (p.arrays shape).sums ∧
    (q.arrays shape).stddev = (p.arrays shape).stddev ∧
    (q.arrays shape).medians = (p.arrays shape).medians := by
  intro q
  exact ⟨rfl, rfl, rfl, rfl⟩

/-- non-vacuity of the above: the two responses really may differ in their valid counts -/
example :
    let p : Payloads := { counts := [.fin 1], stddev := some [.num 0], vcu := some [.fin 1] }
    let q : Payloads := { counts := [.fin 5], stddev := some [.num 0], vcu := some [.fin 5] }
    p.vcu ≠ q.vcu ∧ (p.arrays [1]).stddev = (q.arrays [1]).stddev := by
  intro p q
  exact ⟨by decide, (numeric_arrays_ignore_other_measures p q [1]).2.2.1 rfl⟩

/-- 2-D, end to end from the flat JSON payload: a cell carried as the NUMBER x is reported as x -
    no hypothesis on how many respondents the cell has (x = 0 for the standard deviation of a
    single respondent of weight 2.5 under the weighted-sample convention) -/
theorem carried_number_surfaces_2d (R C : Var) (hR : R.CM) (hC : C.CM) (wR : R.WF) (wC : C.WF)
    (g : List Nat → PCell) (i j : Nat) (hi : i < R.ext) (hj : j < C.ext) (x : Rat)
    (hg : g (R.msub i ++ C.msub j) = .num x) :
    (rawArray (NDesign.mk [R, C] none).shape
        (flatNumeric (some (backendFlat [R, C] none g)))).map
      (fun raw => (NDesign.mk [R, C] none).sliceNumeric raw 0 i j) = some (.fin x) := by
  rw [numeric_flat_reports_cell_2d R C hR hC wR wC g i j hi hj, hg]; rfl

/-- … 3-D -/
theorem carried_number_surfaces_3d (T R C : Var) (hT : T.CM) (hR : R.CM) (hC : C.CM)
    (wT : T.WF) (wR : R.WF) (wC : C.WF) (g : List Nat → PCell) (k i j : Nat)
    (hk : k < T.ext) (hi : i < R.ext) (hj : j < C.ext) (x : Rat)
    (hg : g (T.msub k ++ R.msub i ++ C.msub j) = .num x) :
    (rawArray (NDesign.mk [T, R, C] none).shape
        (flatNumeric (some (backendFlat [T, R, C] none g)))).map
      (fun raw => (NDesign.mk [T, R, C] none).sliceNumeric raw k i j) = some (.fin x) := by
  rw [numeric_flat_reports_cell_3d T R C hT hR hC wT wR wC g k i j hk hi hj, hg]; rfl

/-- 2-D: the reported cell is NaN EXACTLY when the response marks that cell unavailable
    (`{"?": code}` or `null`) - never because of what another measure carries -/
theorem surfaces_nan_iff_carried_unavailable_2d (R C : Var) (hR : R.CM) (hC : C.CM)
    (wR : R.WF) (wC : C.WF) (g : List Nat → PCell) (i j : Nat) (hi : i < R.ext) (hj : j < C.ext) :
    (rawArray (NDesign.mk [R, C] none).shape
        (flatNumeric (some (backendFlat [R, C] none g)))).map
      (fun raw => (NDesign.mk [R, C] none).sliceNumeric raw 0 i j) = some .nan
    ↔ (∃ code, g (R.msub i ++ C.msub j) = .unavail code) ∨ g (R.msub i ++ C.msub j) = .null := by
  rw [numeric_flat_reports_cell_2d R C hR hC wR wC g i j hi hj, Option.some.injEq]
  exact decode_nan_iff _

end CrCube.C01
