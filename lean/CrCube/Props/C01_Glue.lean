/-
  C01 (extension) — the glue between the RAW cube-response JSON and the typed design.
  Property theorems only (helpers: Lemmas/Glue*.lean).

  `Glue.renderDims` / `Glue.renderResponse` (Spec/GlueRender.lean) specify the response format for a
  design (`List RVar`: any sizes, any missing flags — absent / null / true / false —, any `order`
  permutation, arbitrary extra keys).  `Glue.decode` (Model/Glue.lean) is the library's parsing:
  `Cube._cube_response` → `_all_dimensions` (`Dimensions.from_dicts`: type detection + promotion) →
  `Elements.from_typedef` (order, missing) → typed design.
-/
import CrCube.Lemmas.GlueResponse
import CrCube.Lemmas.GlueItems
import CrCube.Props.C01

set_option linter.unusedSimpArgs false

namespace CrCube.C01
open CrCube CrCube.Glue

/-! ## round trip -/

/-- **decode ∘ render = id** on the dimension list: the library's type detection, promotion,
    `order` re-ordering and missing-flag reading recover the design from the dimension dicts the
    specification renders for it. -/
theorem decode_render_dims (vars : List RVar) (h : wfDesignB vars = true) :
    decodeDims (renderDims vars) = .ok (designOf vars) :=
  decodeDims_render vars h

/-- **decode ∘ render = id** for a response passed as a dict (any text parser, any hash order of the
    numeric measures; the response has no numeric-array measure and no top-level "value" key). -/
theorem decode_render (loads : String → R J) (ord : List String) (vars : List RVar)
    (re te : List (String × J)) (h : wfDesignB vars = true) (hte : te.lookup "value" = none)
    (hna : numericArrayDimension ord (renderResponse vars re te) = .ok none) :
    decode loads ord (renderResponse vars re te) = .ok (designOf vars) := by
  simp [decode, cubeResponse_dict vars re te loads hte, allDimensionDicts_render vars re te ord hna,
    decodeDims_render vars h]

/-- the same for a response passed as TEXT, for whatever the parser makes of the text -/
theorem decode_render_text (loads : String → R J) (ord : List String) (vars : List RVar)
    (re te : List (String × J)) (s : String) (hs : loads s = .ok (renderResponse vars re te))
    (h : wfDesignB vars = true) (hte : te.lookup "value" = none)
    (hna : numericArrayDimension ord (renderResponse vars re te) = .ok none) :
    decode loads ord (.str s) = .ok (designOf vars) := by
  simp [decode, cubeResponse_text vars re te loads s hs hte,
    allDimensionDicts_render vars re te ord hna, decodeDims_render vars h]

/-- the same inside a `{"value": …}` envelope (with any further envelope keys) -/
theorem decode_render_envelope (loads : String → R J) (ord : List String) (vars : List RVar)
    (re te extra : List (String × J)) (h : wfDesignB vars = true)
    (hna : numericArrayDimension ord (renderResponse vars re te) = .ok none) :
    decode loads ord (.obj (("value", renderResponse vars re te) :: extra)) = .ok (designOf vars) := by
  simp [decode, cubeResponse_envelope, allDimensionDicts_render vars re te ord hna,
    decodeDims_render vars h]

/-- `Cube._cube_response` removes exactly one envelope, whatever is inside -/
theorem decode_unwraps_envelope (loads : String → R J) (r : J) (extra : List (String × J)) :
    cubeResponse loads (.obj (("value", r) :: extra)) = .ok r :=
  cubeResponse_envelope loads r extra

/-- plain counts cubes (all measures known, none numeric) satisfy the `hna` hypothesis -/
theorem no_numeric_array_of_counts_only (ord : List String) (vars : List RVar)
    (re te : List (String × J)) (ms : List (String × J)) (hm : re.lookup "measures" = some (.obj ms))
    (hk : ms.all (fun p => knownMeasures.contains p.1) = true)
    (hn : ∀ m ∈ numericMeasures, ms.lookup m = none) :
    numericArrayDimension ord (renderResponse vars re te) = .ok none := by
  apply numericArrayDimension_counts_only ord _ (.obj (("dimensions", .arr (renderDims vars)) :: re)) ms
  · simp [renderResponse, Glue.get, List.lookup]
  · simp [Glue.get, List.lookup, hm]
  · exact hk
  · exact hn

/-! ## what the library derives from a rendered response -/

/-- `Dimensions.from_dicts` types every dimension as specified (incl. MR_SUBVAR by promotion, MR_CAT) -/
theorem render_types (vars : List RVar) (h : wfDesignB vars = true) :
    (fromDicts (renderDims vars)).map (·.map (·.dt)) = .ok (vars.flatMap RVar.types) := by
  rw [fromDicts_render vars h]
  simp [Except.map, flatMap_finalDims_types]

/-- `cube.dimension_types` = the specified types without MR_CAT -/
theorem render_dimension_types (ord : List String) (vars : List RVar) (re te : List (String × J))
    (h : wfDesignB vars = true)
    (hna : numericArrayDimension ord (renderResponse vars re te) = .ok none) :
    dimensionTypes ord (renderResponse vars re te)
      = .ok ((vars.flatMap RVar.types).filter (· != .mrCat)) := by
  simp only [dimensionTypes, cubeDimensions, allDimensions_render vars re te ord h hna, R_bind_ok,
    R_pure, apparent]
  rw [← flatMap_finalDims_types, List.filter_map]
  rfl

/-- per variable, the kinds derived from the library's types are the typed design's kinds -/
theorem types_kinds (v : RVar) :
    ((v.types.filter (· != .mrCat)).map DT.dk) = v.toTVar.dks := by
  unfold RVar.types RVar.toTVar TVar.dks Var.dks
  cases v.kind <;> simp [DT.dk]
  cases v.transposed <;> simp [DT.dk]

theorem types_kinds_all (vars : List RVar) :
    ((vars.flatMap RVar.types).filter (· != .mrCat)).map DT.dk = vars.flatMap (fun v => v.toTVar.dks) := by
  induction vars with
  | nil => rfl
  | cons v vs ih =>
    simp only [List.flatMap_cons, List.filter_append, List.map_append, types_kinds, ih]

/-- **the kinds the library derives (`dimension_types`, through which the count extractors are chosen)
    are the kinds of the typed design** -/
theorem render_kinds (loads : String → R J) (ord : List String) (vars : List RVar)
    (re te : List (String × J)) (h : wfDesignB vars = true) (hte : te.lookup "value" = none)
    (hna : numericArrayDimension ord (renderResponse vars re te) = .ok none) :
    libraryKinds loads ord (renderResponse vars re te) = .ok (designKinds vars) := by
  simp only [libraryKinds, cubeResponse_dict vars re te loads hte, R_bind_ok,
    render_dimension_types ord vars re te h hna, R_pure, designKinds, designOf]
  congr 1
  rw [List.flatMap_map]
  exact types_kinds_all vars

/-- without transposed arrays the typed design's kinds are the model's `apparentKinds` -/
theorem designKinds_apparentKinds (vars : List RVar) (ht : ∀ v ∈ vars, v.transposed = false) :
    designKinds vars = apparentKinds ((designOf vars).map (·.var)) := by
  unfold designKinds apparentKinds designOf
  rw [List.map_map, List.flatMap_map, List.flatMap_map]
  apply flatMap_congr'
  intro v hv
  have : v.toTVar.transposed = false := by
    unfold RVar.toTVar; cases v.kind <;> simp [ht v hv]
  simp [TVar.dks, this]


/-- **valid element idxs and shapes** the library computes for every dimension of a rendered
    response: positions (in PAYLOAD order — i.e. `order` already applied) of the elements not flagged
    missing; shape = number of all elements. -/
theorem render_valid_idxs (vars : List RVar) (h : wfDesignB vars = true) :
    (fromDicts (renderDims vars) >>= mapR Dim.validIdxs)
        = .ok ((vars.flatMap RVar.typed).map (fun p => validIdxs p.2)) ∧
    (fromDicts (renderDims vars) >>= mapR Dim.shape)
        = .ok ((vars.flatMap RVar.typed).map (fun p => p.2.length)) := by
  rw [fromDicts_render vars h]
  exact axes_of_typed (typed_all vars h)

/-- **`type.order`: elements are numbered by their NEW position.**  Whatever permutation the typedef
    lists the categories in, with `order` = ids in data order the library's elements are the
    categories in DATA order, hence valid idxs are positions along the payload axis. -/
theorem order_renumbers_by_new_position (v : RVar) (hw : v.wf = true) (p : List Nat)
    (hp : v.typedefPerm = some p) (dt : DT) (h1 : dt.isArray = false) (h2 : dt ≠ .datetime) :
    allElements ⟨v.catDim v.typeExtra, dt⟩ = .ok (v.cats.map renderCat) ∧
    Dim.validIdxs ⟨v.catDim v.typeExtra, dt⟩ = .ok (validIdxs v.catFlags) := by
  have h := RVar.wf_wfp hw
  refine ⟨allElements_catDim v h _ h.typeE dt h1 h2, ?_⟩
  exact (shape_of_missingFlags (missingFlags_catDim v h _ h.typeE dt h1 h2)).2

/-- **`Element.missing`** = truthiness of `element_dict.get("missing")`: an absent key and `null`
    mean NOT missing. -/
theorem missing_flag_cases (kvs : List (String × J)) :
    elemMissing (.obj kvs) = .ok (match kvs.lookup "missing" with
      | none => false
      | some j => j.truthy) ∧
    elemMissing (.obj []) = .ok false ∧
    elemMissing (.obj [("missing", .null)]) = .ok false ∧
    elemMissing (.obj [("missing", .bool true)]) = .ok true ∧
    elemMissing (.obj [("missing", .bool false)]) = .ok false := by
  refine ⟨?_, rfl, rfl, rfl, rfl⟩
  cases hl : kvs.lookup "missing" <;> simp [elemMissing, Glue.get, hl, J.truthy]

/-- **`is_logical`** ⇔ some category is `selected` AND the ids are exactly [1, 0, -1] -/
theorem logical_iff (cs : List RCat) (h : ∀ c ∈ cs, c.wf = true) :
    isLogical (cs.map renderCat) = .ok (cs.any (·.selected) && cs.map (·.id) == [1, 0, -1]) :=
  isLogical_render cs (fun c hc => RCat.wf_lk (h c hc))

/-- **`Dimensions.dimension_type`, decision logic** on a categorical dimension dict:
    subreferences (non-empty) ⇒ MR_CAT if logical else CA_CAT; else LOGICAL if logical; else CAT_DATE if
    ANY category carries a date; else CAT.  Enum dicts: by subtype class. -/
theorem dimension_type_cases (v : RVar) (hw : v.wf = true) (te : List (String × J)) (els : List J) :
    dimensionType (v.catDim te) = .ok (
      if v.isArray && !v.items.isEmpty then (if logicalCats v.typedefCats then .mrCat else .caCat)
      else if logicalCats v.typedefCats then .logical
      else if v.typedefCats.any (·.date.isSome) then .catDate else .cat) ∧
    dimensionType (v.enumDim els) = .ok (match v.kind with
      | .datetime => .datetime | .text => .text | .binned => .binnedNumeric | _ => .caSubvar) := by
  refine ⟨dimensionType_catDim v te (RVar.wf_wfp hw), ?_⟩
  rw [dimensionType_enumDim]
  cases v.kind <;> rfl

/-- unknown type classes / enum subtype classes raise NotImplementedError -/
theorem dimension_type_unknown :
    dimensionType (.obj [("type", .obj [("class", .str "numeric")])]) = .error .notImplementedError ∧
    dimensionType (.obj [("type", .obj [("class", .str "enum"), ("subtype", .obj [("class", .str "foo")])])])
      = .error .notImplementedError ∧
    dimensionType (.obj [("type", .obj [])]) = .error .keyError := ⟨rfl, rfl, rfl⟩

/-- **the CA_SUBVAR → MR_SUBVAR promotion** fires for a dimension iff ANOTHER dimension has the same
    ALIAS and is MR_CAT (all dimensions having string aliases, CA_SUBVAR elements all carrying "value") -/
theorem promotion_needs_alias_and_mrcat (dicts : List J) (D : List Dim) (hD : mapR mkDim dicts = .ok D)
    (ha : ∀ o ∈ D, o.alias = .ok (.str o.al)) (he : ∀ x ∈ D, x.dt = .caSubvar → x.elemsOk) :
    fromDicts dicts = .ok (D.map (fun x =>
      if x.dt = .caSubvar ∧ D.any (fun o => o.al == x.al && o.dt == .mrCat) = true
      then { x with dt := .mrSubvar } else x)) :=
  fromDicts_ok dicts D hD ha he

/-! ## partition structure, decision logic -/

/-- `CubePartition.factory` -/
theorem partition_class_cases (nd : Nat) (ca0 : Bool) :
    (factory nd ca0 = .nub ↔ nd = 0) ∧
    (factory nd ca0 = .strand ↔ nd ≠ 0 ∧ (nd = 1 ∨ ca0 = true)) ∧
    (factory nd ca0 = .slice ↔ 2 ≤ nd ∧ ca0 = false) := by
  unfold factory
  refine ⟨?_, ?_, ?_⟩
  · by_cases h0 : nd = 0 <;> simp [h0]; split <;> simp
  · by_cases h0 : nd = 0 <;> simp [h0]
    by_cases h1 : nd = 1 <;> cases ca0 <;> simp [h1]
  · by_cases h0 : nd = 0 <;> simp [h0]
    by_cases h1 : nd = 1 <;> cases ca0 <;> simp [h1]
    omega

/-- `Cube._ca_as_0th` -/
theorem ca_as_0th_cases (ord : List String) (ci : Option Nat) (resp : J) (ts : List DT) (single : Bool)
    (ht : dimensionTypes ord resp = .ok ts) (hs : isSingleFilterCol resp = .ok single) :
    caAs0th ord ci resp = .ok ((ci == some 0 || single) && ts.head? == some .caSubvar) := by
  unfold caAs0th
  by_cases h0 : ci = some 0
  · subst h0
    cases ts <;> simp [ht]
  · have : (ci == some 0) = false := by simpa using h0
    simp only [h0, if_false, hs, R_bind_ok, this, Bool.false_or]
    cases single
    · simp
    · cases ts <;> simp [ht]

/-- `Cube._slice_idxs`: one slice below three dimensions unless CA-as-0th; otherwise one per VALID
    element of the first dimension -/
theorem nslices_cases (ord : List String) (ci : Option Nat) (resp : J) (dims : List Dim) (ca0 : Bool)
    (hd : cubeDimensions ord resp = .ok dims) (hc : caAs0th ord ci resp = .ok ca0) :
    nSlices ord ci resp = if dims.length < 3 ∧ ca0 = false then .ok 1 else headValidCount dims := by
  unfold nSlices ndim
  simp only [hd, R_bind_ok, R_pure, hc]
  by_cases h3 : dims.length < 3
  · cases ca0
    · simp [h3]
    · simp only [h3, if_true, R_bind_ok, Bool.not_true, Bool.false_eq_true, if_false, and_false]
      cases dims with
      | nil => rfl
      | cons d0 ds => cases d0.validIdxs <;> rfl
  · simp only [h3, if_false, R_pure, R_bind_ok, Bool.false_eq_true, false_and]
    cases dims with
    | nil => rfl
    | cons d0 ds => cases d0.validIdxs <;> rfl

/-- the head dimension of a variable: never MR_CAT; its valid idxs are those of the first typed axis -/
theorem head_dim (v : RVar) (hw : v.WFP) :
    ∃ d0 ds p ps, v.finalDims = d0 :: ds ∧ v.typed = p :: ps ∧ d0.dt ≠ .mrCat ∧
      d0.validIdxs = .ok (validIdxs p.2) := by
  have ht := typed_var v hw
  have hne : ∃ d0 ds, v.finalDims = d0 :: ds ∧ d0.dt ≠ .mrCat := by
    unfold RVar.finalDims RVar.dims RVar.types
    cases v.kind <;> simp
    cases v.transposed <;> simp
  obtain ⟨d0, ds, hd, hdt⟩ := hne
  rw [hd] at ht
  simp only [mapR] at ht
  obtain ⟨p, hp, ht⟩ := bind_eq_ok ht
  obtain ⟨ps, _, ht⟩ := bind_eq_ok ht
  simp only [R_pure, Except.ok.injEq] at ht
  exact ⟨d0, ds, p, ps, hd, ht.symm, hdt, (shape_of_missingFlags (typedOf_fst hp).2).2⟩

/-- the model's `firstDimCount` of the typed variable = number of valid idxs of its first typed axis -/
theorem firstDim_typed (v : RVar) (ht : v.transposed = false) (p : DT × List Bool)
    (ps : List (DT × List Bool)) (h : v.typed = p :: ps) (rest : List Var) :
    firstDimCount (v.toTVar.var :: rest) = (validIdxs p.2).length := by
  unfold RVar.typed at h
  unfold RVar.toTVar firstDimCount
  cases hk : v.kind <;> simp only [hk, ht, Bool.false_eq_true, if_false, List.cons.injEq] at h ⊢ <;>
    (obtain ⟨rfl, _⟩ := h; rfl)

/-- **the glue's slice count is the model's `nPartitions`** (the quantity C06.partitions_count is
    about): for a rendered response without transposed arrays, not flagged single-column, analysed
    with `cube_idx = None`, `Cube._slice_idxs` has as many entries as the existing model's
    `nPartitions` of the decoded design. -/
theorem render_nslices (ord : List String) (vars : List RVar) (re te : List (String × J))
    (h : wfDesignB vars = true) (ht : ∀ v ∈ vars, v.transposed = false)
    (hna : numericArrayDimension ord (renderResponse vars re te) = .ok none)
    (hsc : re.lookup "is_single_col_cube" = none) :
    nSlices ord none (renderResponse vars re te) = .ok (nPartitions ((designOf vars).map (·.var))) := by
  obtain ⟨hw, _⟩ := wfDesign_unpack h
  have hdims : cubeDimensions ord (renderResponse vars re te)
      = .ok (apparent (vars.flatMap RVar.finalDims)) := by
    simp [cubeDimensions, allDimensions_render vars re te ord h hna]
  have hca : caAs0th ord none (renderResponse vars re te) = .ok false := by
    simp [caAs0th, isSingleFilterCol, item_result, Glue.get, List.lookup, hsc, J.truthy]
  rw [nslices_cases ord none _ _ false hdims hca]
  have hlen : (apparent (vars.flatMap RVar.finalDims)).length
      = (apparentKinds ((designOf vars).map (·.var))).length := by
    rw [← designKinds_apparentKinds vars ht]
    unfold designKinds designOf
    rw [List.flatMap_map, ← types_kinds_all, ← flatMap_finalDims_types]
    simp only [apparent, List.length_map]
    rw [List.filter_map, List.length_map]
    rfl
  unfold nPartitions
  rw [hlen]
  by_cases h3 : (apparentKinds ((designOf vars).map (·.var))).length < 3
  · simp [h3]
  · simp only [h3, false_and, if_false]
    cases vars with
    | nil => simp [designOf, apparentKinds] at h3
    | cons v vs =>
      obtain ⟨d0, ds, p, ps, hd, hty, hdt, hvi⟩ := head_dim v (hw v List.mem_cons_self)
      have hb : (d0.dt != DT.mrCat) = true := by simpa using hdt
      simp only [List.flatMap_cons, hd, List.cons_append, apparent, List.filter_cons, hb, if_true, hvi,
        Except.map, designOf, List.map_cons, headValidCount]
      rw [firstDim_typed v (ht v List.mem_cons_self) p ps hty]

/-! ## the respondent-level theorems apply to what the library parses -/

/-- **2-D, end to end from the raw response**: for a rendered response over two categorical-like /
    multiple-response variables the library's parsing yields a design `tv`, and the count extractor
    over THAT design reproduces the respondent-level count of every cell. -/
theorem counts_faithful_from_response_2d (loads : String → R J) (ord : List String) (r c : RVar)
    (re te : List (String × J)) (h : wfDesignB [r, c] = true) (hte : te.lookup "value" = none)
    (hna : numericArrayDimension ord (renderResponse [r, c] re te) = .ok none)
    (hR : r.toTVar.var.CM) (hC : c.toTVar.var.CM) (s : Survey) (i j : Nat)
    (hi : i < r.toTVar.var.ext) (hj : j < c.toTVar.var.ext) :
    ∃ tv, decode loads ord (renderResponse [r, c] re te) = .ok tv ∧
      (sliceCounts (tv.map (·.var)) (cubeOf (tv.map (·.var)) s) 0).counts i j
        = .fin (specCount (tv.map (·.var)) s [i, j] [false, false]) :=
  ⟨designOf [r, c], decode_render loads ord [r, c] re te h hte hna,
    counts_faithful_2d _ _ hR hC s i j hi hj⟩

/-- 1-D twin -/
theorem strand_counts_faithful_from_response (loads : String → R J) (ord : List String) (r : RVar)
    (re te : List (String × J)) (h : wfDesignB [r] = true) (hte : te.lookup "value" = none)
    (hna : numericArrayDimension ord (renderResponse [r] re te) = .ok none)
    (hR : r.toTVar.var.CM) (s : Survey) (i : Nat) (hi : i < r.toTVar.var.ext) :
    ∃ tv, decode loads ord (renderResponse [r] re te) = .ok tv ∧
      (strandCounts (tv.map (·.var)) (cubeOf (tv.map (·.var)) s)).counts i
        = .fin (specCount (tv.map (·.var)) s [i] [false]) :=
  ⟨designOf [r], decode_render loads ord [r] re te h hte hna, strand_counts_faithful _ hR s i hi⟩

/-- 3-D twin (partition k) -/
theorem counts_faithful_from_response_3d (loads : String → R J) (ord : List String) (t r c : RVar)
    (re te : List (String × J)) (h : wfDesignB [t, r, c] = true) (hte : te.lookup "value" = none)
    (hna : numericArrayDimension ord (renderResponse [t, r, c] re te) = .ok none)
    (hT : t.toTVar.var.CM) (hR : r.toTVar.var.CM) (hC : c.toTVar.var.CM) (s : Survey) (k i j : Nat)
    (hk : k < t.toTVar.var.ext) (hi : i < r.toTVar.var.ext) (hj : j < c.toTVar.var.ext) :
    ∃ tv, decode loads ord (renderResponse [t, r, c] re te) = .ok tv ∧
      (sliceCounts (tv.map (·.var)) (cubeOf (tv.map (·.var)) s) k).counts i j
        = .fin (specCount (tv.map (·.var)) s [k, i, j] [false, false, false]) :=
  ⟨designOf [t, r, c], decode_render loads ord [t, r, c] re te h hte hna,
    counts_faithful_3d _ _ _ hT hR hC s k i j hk hi hj⟩

/-! ## array items flagged missing -/

/-- the index the extractor reads for cell (i, j) in the payload -/
theorem libSliceCounts_counts (tR tC : TVar) (hR : tR.var.CM) (hC : tC.var.CM) (payload : FT) (i j : Nat)
    (hi : i < tR.var.ext) (hj : j < tC.var.ext) (hokR : tR.ok) (hokC : tC.ok) :
    (libSliceCounts tR tC payload).counts i j
      = payload.get (liftIdx [tR, tC] (tR.var.msub i ++ tC.var.msub j)) := by
  have hrR := tR.var.msub_length i
  have hrC := tC.var.msub_length j
  have h1 : (tR.var.msub i ++ tC.var.msub j).take tR.var.rank = tR.var.msub i := by
    rw [← hrR]; simp
  have h2 : (tR.var.msub i ++ tC.var.msub j).drop tR.var.rank = tC.var.msub j := by
    rw [← hrR]; simp
  have h3 : (tC.var.msub j).take tC.var.rank = tC.var.msub j := by rw [← hrC]; simp
  simp only [liftIdx, h1, h2, h3, List.append_nil]
  rcases hR with hR | ⟨hR, hmR, _⟩ <;> rcases hC with hC | ⟨hC, hmC, _⟩
  · simp [libSliceCounts, varDK, hR, hC, MatCounts.factory, MatCounts.catXcat, FT.take, TVar.libAxes,
      TVar.liftSub, Var.msub]
  · have hn := (hokC hC).1
    simp only [Var.ext, hC] at hj
    simp [libSliceCounts, varDK, hR, hC, hmC, MatCounts.factory, MatCounts.catXmr, FT.take, TVar.libAxes,
      TVar.liftSub, Var.msub, hj]
  · have hn := (hokR hR).1
    simp only [Var.ext, hR] at hi
    simp [libSliceCounts, varDK, hR, hC, hmR, MatCounts.factory, MatCounts.mrXcat, FT.take, TVar.libAxes,
      TVar.liftSub, Var.msub, hi]
  · simp only [Var.ext, hR, hC] at hi hj
    simp [libSliceCounts, varDK, hR, hC, hmR, hmC, MatCounts.factory, MatCounts.mrXmr, FT.take,
      TVar.libAxes, TVar.liftSub, Var.msub, hi, hj]

/-- **Array items flagged missing never appear and never contribute** (2-D, any CAT / MR pairing):
    run on the payload the back end tabulates over ALL items, the library's cell (i, j) — valid-element
    selection on every axis, then the extractor — is the respondent-level count of the design with the
    missing items removed, over the survey restricted to the remaining items.  (This is the step the
    harness used to perform by hand: dropping missing items before handing a design to the model.) -/
theorem missing_items_never_contribute (tR tC : TVar) (hokR : tR.ok) (hokC : tC.ok)
    (hR : tR.var.CM) (hC : tC.var.CM) (wfR : tR.var.WF) (wfC : tC.var.WF) (s : Survey)
    (hfit : SurveyFits [tR.full, tC.full] s) (i j : Nat) (hi : i < tR.var.ext) (hj : j < tC.var.ext) :
    (libSliceCounts tR tC (cubeOf [tR.full, tC.full] s)).counts i j
      = .fin (specCount [tR.var, tC.var] (reduceSurvey [tR, tC] s) [i, j] [false, false]) := by
  rw [libSliceCounts_counts tR tC hR hC _ i j hi hj hokR hokC,
    ← counts_faithful_2d tR.var tC.var hR hC _ i j hi hj, slice2d_counts tR.var tC.var hR hC]
  have hix : InRange (rawShapeOf ([tR, tC].map (·.var))) (tR.var.msub i ++ tC.var.msub j) := by
    simp only [List.map_cons, List.map_nil, rawShapeOf, List.flatMap_cons, List.flatMap_nil,
      List.append_nil]
    exact inRange_append _ _ _ _ (hR.msub_inRange wfR i hi) (hC.msub_inRange wfC j hj)
  exact (cubeOf_reduce [tR, tC] (by
    intro t ht
    simp only [List.mem_cons, List.not_mem_nil, or_false] at ht
    rcases ht with rfl | rfl <;> assumption) s hfit _ hix).symm

/-- the typed variables `decode` produces satisfy `TVar.ok` (as many valid items as kept positions,
    each inside the payload) -/
theorem decoded_ok (v : RVar) : v.toTVar.ok := by
  intro hk
  unfold RVar.toTVar at hk ⊢
  have hlt : ∀ k ∈ validIdxs v.itemFlags, k < v.items.length := by
    intro k hk'
    have := (List.mem_filter.mp hk').1
    simpa [RVar.itemFlags] using this
  cases hkind : v.kind <;> simp [hkind] at hk ⊢ <;> exact hlt

/-! ## non-vacuity and worked instances -/

/-- a categorical variable with a missing category in mid-payload, the typedef listing the
    categories in another order, and an absent / null `missing` key -/
def exCat : RVar :=
  { kind := .cat, «alias» := "q1",
    cats := [{ id := 3, missing := none, extra := [("name", .str "a")] },
             { id := 0, missing := some (some true) },
             { id := 7, missing := some none }],
    typedefPerm := some [2, 0, 1],
    refsExtra := [("name", .str "Q1")], typeExtra := [("ordinal", .bool false)],
    dimExtra := [("derived", .bool false)] }

/-- a multiple-response variable with a missing item in the middle -/
def exMR : RVar :=
  { kind := .mr, «alias» := "q2",
    cats := [{ id := 1, selected := true }, { id := 0 }, { id := -1, missing := some (some true) }],
    items := [{ id := 4, refs := [("alias", .str "q2_a")] },
              { id := 2, missing := some (some true), refs := [("alias", .str "q2_b")] },
              { id := 9, refs := [("alias", .str "q2_c")] }],
    subtypeExtra := [], catTypeExtra := [("subvariables", .arr [])] }

example : wfDesignB [exCat, exMR] = true := by decide
example : (exCat.toTVar.var).CM ∧ (exMR.toTVar.var).CM ∧ (1 : Nat) < exCat.toTVar.var.ext ∧
    (1 : Nat) < exMR.toTVar.var.ext :=
  ⟨Or.inl rfl, Or.inr ⟨rfl, rfl, by decide⟩, by decide, by decide⟩
example : numericArrayDimension [] (renderResponse [exCat, exMR] [("measures", .obj [("count", .obj [])])] [])
    = .ok none := rfl
-- the typed design of the example: 3 raw categories (middle one missing), 2 valid items of 3
example : designOf [exCat, exMR] =
    [⟨⟨.cat, 3, [false, true, false], false⟩, false, [], 0⟩,
     ⟨⟨.arr, 2, [false, false, true], true⟩, false, [0, 2], 3⟩] := rfl
-- same name, different alias: no promotion (CA_SUBVAR stays); same alias: promoted
example : (fromDicts
    [.obj [("type", .obj [("class", .str "enum"), ("elements", .arr [.obj [("id", .num 1), ("value", .obj [])]]),
                          ("subtype", .obj [("class", .str "variable")])]),
           ("references", .obj [("alias", .str "a"), ("name", .str "same")])],
     .obj [("type", .obj [("class", .str "categorical"),
              ("categories", .arr [.obj [("id", .num 1), ("selected", .bool true)], .obj [("id", .num 0)],
                                   .obj [("id", .num (-1))]])]),
           ("references", .obj [("alias", .str "b"), ("name", .str "same"),
                                ("subreferences", .arr [.obj []])])]]).map (·.map (·.dt))
    = .ok [.caSubvar, .mrCat] := rfl


-- same ALIAS (names differ): promoted to MR_SUBVAR
example : (fromDicts
    [.obj [("type", .obj [("class", .str "enum"), ("elements", .arr [.obj [("id", .num 1), ("value", .obj [])]]),
                          ("subtype", .obj [("class", .str "variable")])]),
           ("references", .obj [("alias", .str "a"), ("name", .str "x")])],
     .obj [("type", .obj [("class", .str "categorical"),
              ("categories", .arr [.obj [("id", .num 1), ("selected", .bool true)], .obj [("id", .num 0)],
                                   .obj [("id", .num (-1))]])]),
           ("references", .obj [("alias", .str "a"), ("name", .str "y"),
                                ("subreferences", .arr [.obj []])])]]).map (·.map (·.dt))
    = .ok [.mrSubvar, .mrCat] := rfl
-- an element of the sub-variables dimension without "value": NOT promoted
example : (fromDicts
    [.obj [("type", .obj [("class", .str "enum"), ("elements", .arr [.obj [("id", .num 1)]]),
                          ("subtype", .obj [("class", .str "variable")])]),
           ("references", .obj [("alias", .str "a")])],
     .obj [("type", .obj [("class", .str "categorical"),
              ("categories", .arr [.obj [("id", .num 1), ("selected", .bool true)], .obj [("id", .num 0)],
                                   .obj [("id", .num (-1))]])]),
           ("references", .obj [("alias", .str "a"), ("subreferences", .arr [.obj []])])]]).map (·.map (·.dt))
    = .ok [.caSubvar, .mrCat] := rfl
-- ids [1, 0, -1] WITHOUT `selected`: a plain CAT; `selected` with other ids: CAT; a date on the LAST category only: CAT_DATE
example : dimensionType (.obj [("type", .obj [("class", .str "categorical"),
    ("categories", .arr [.obj [("id", .num 1)], .obj [("id", .num 0)], .obj [("id", .num (-1))]])])]) = .ok .cat := rfl
example : dimensionType (.obj [("type", .obj [("class", .str "categorical"),
    ("categories", .arr [.obj [("id", .num 1), ("selected", .bool true)], .obj [("id", .num 0)], .obj [("id", .num 2)]])])])
    = .ok .cat := rfl
example : dimensionType (.obj [("type", .obj [("class", .str "categorical"),
    ("categories", .arr [.obj [("id", .num 1)], .obj [("id", .num 5), ("date", .str "2020-01")]])])]) = .ok .catDate := rfl
-- `order` with an unknown and a duplicate code: unknown skipped, duplicate listed twice (shape 3 from 2 categories)
example : (elementDefs (.obj [("class", .str "categorical"),
    ("categories", .arr [.obj [("id", .num 1)], .obj [("id", .num 2), ("missing", .bool true)]]),
    ("order", .arr [.num 2, .num 99, .num 1, .num 2])])).map List.length = .ok 3 := rfl
-- missing items: hypotheses of `missing_items_never_contribute` on the example design (item 1 of 3 missing)
example : exMR.toTVar.ok ∧ exCat.toTVar.ok ∧ exMR.toTVar.var.WF ∧ exCat.toTVar.var.WF ∧
    SurveyFits [exCat.toTVar.full, exMR.toTVar.full] [⟨2, [[2], [0, 1, 0]]⟩, ⟨1/2, [[0], [1, 0, 2]]⟩] := by
  refine ⟨decoded_ok _, decoded_ok _, ?_, ?_, ?_⟩
  · intro h; cases h
  · intro _; rfl
  · intro r hr
    simp only [List.mem_cons, List.not_mem_nil, or_false] at hr
    rcases hr with rfl | rfl <;> decide

end CrCube.C01
